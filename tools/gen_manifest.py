#!/usr/bin/env python3
"""Writes MANIFEST.json from lean/obligations.json and the per-property texts below (kept in one place so that the
claimed level always matches what the checks compute)."""
import json, os
ROOT = os.path.dirname(os.path.dirname(os.path.abspath(__file__)))
obl = json.load(open(os.path.join(ROOT, 'lean', 'obligations.json')))
texts = json.load(open(os.path.join(ROOT, 'tools', 'manifest_texts.json')))
props = [json.loads(l) for l in open(os.path.join(ROOT, 'properties.jsonl'))]
hooks = {
 "guard": "--cfg jence_verif",
 "enable": "RUSTFLAGS='--cfg jence_verif' CARGO_TARGET_DIR=/verif/.cache/target cargo build --release --offline ; the driver is the engine binary started with JENCE_VERIF=driver",
 "baseline_off_cmd": "cd /repo && cargo test --workspace --no-fail-fast --offline",
 "source_commits": ["d07be79", "92b4c39", "c450306"],
 "add_only": True,
}
checks = []
na = []
for p in props:
    pid = p['id']
    t = texts.get(pid)
    if not t or t.get('not_applicable'):
        na.append({"property_id": pid, "reason": (t or {}).get('not_applicable', 'no check registered yet')})
        continue
    has_thm = bool(obl.get(pid, {}).get('theorems'))
    checks.append({
        "property_id": pid,
        "quick_cmd": f"python3 check.py {pid} --tier quick",
        "thorough_cmd": f"python3 check.py {pid} --tier thorough",
        "evidence_file": f"/verif/evidence/{pid}.json",
        "replay_cmd_template": f"python3 check.py {pid} --replay {{path}}",
        "engine": "lean-model+correspondence",
        "level_claimed": {"category": "proof" if has_thm else "translation_validation",
                          "text": t['text'] if has_thm else t.get('text_no_thm', t['text']),
                          "design_ref": f"DESIGN.md section 6 ({pid})"},
        "level_note": t['note'],
        "technique": t['technique'] if has_thm else "model-to-code correspondence + rules-specification oracle (theorems pending)",
    })
m = {"version": 1, "setup_cmd": "python3 check.py --setup", "hooks": hooks,
     "engines": [{"name": "lean-model+correspondence", "path": "/verif/lean", "serves_properties": [c['property_id'] for c in checks],
                  "kind_free_text": "Lean 4 model + theorems (lake package Jence), model driver jence-model, Rust driver under cfg jence_verif, orchestrator check.py"}],
     "checks": checks,
     "notes": "Every check rebuilds /repo's working tree with the hooks on, regenerates Jence/Gen/Consts.lean from the Rust sources, rebuilds the Lean model driver and the property's theorem module, audits axioms, and then runs the model-to-code correspondence and the rules-specification oracle. known_findings.json lists recorded defects.",
     "not_applicable": na}
json.dump(m, open(os.path.join(ROOT, 'MANIFEST.json'), 'w'), indent=1)
print('checks', len(checks), 'na', len(na))
