#!/bin/bash
# usage: try_mutant.sh <patch.diff> <prop> [<prop>...] : apply to /repo, run the quick checks, undo
patch=$1; shift
cd /repo && git apply "$patch" || { echo "PATCH DOES NOT APPLY"; exit 3; }
cd /verif
for p in "$@"; do
  out=$(python3 check.py $p 2>&1 | grep -E "VIOLATION|KNOWN|HELD|VIOLATED|ERROR" | tr '\n' ' ')
  echo "[$p] $out"
done
cd /repo && git checkout -- . && git status --short | head -3
