#!/usr/bin/env python3
"""Orchestrator: `check.py <Cxx> [--tier quick|thorough] [--replay file]`, `check.py --setup`.

Per run: build /repo's working tree with the hooks on -> regenerate Gen/Consts.lean from the sources ->
`lake build` the model driver and the property's theorem module -> axiom audit -> correspondence
(Rust driver vs Lean model on the same lines) and oracle (Rust vs the rules specification) on seeded inputs
-> evidence/<id>.json -> VIOLATION / KNOWN-FINDING lines -> exit code (0 held, 1 violation, 2 tooling error).
"""
import json, os, re, sys, time, itertools
import vlib
from vlib import *
import props

def main():
    args = sys.argv[1:]
    if not args:
        print(__doc__); return 2
    if args[0] == '--setup':
        return setup()
    prop = args[0]
    tier = os.environ.get('VERIF_TIER', 'quick')
    replay = None
    i = 1
    while i < len(args):
        if args[i] == '--tier': tier = args[i + 1]; i += 2
        elif args[i] == '--replay': replay = args[i + 1]; i += 2
        else: i += 1
    seed = int(os.environ.get('VERIF_SEED', '20260930'))
    return props.run_property(prop, tier, seed, replay)


def setup():
    t0 = time.time()
    try:
        with Lock():
            print(cargo_build(hooks=True))
            print(cargo_build(hooks=False))
            print(translate_consts())
            print(lake_build(['jence-model']))
            print(lake_build(['Jence']))
            mods = sorted({m for v in obligations().values() for m in v.get('modules', [])})
            print(lake_build(mods))
    except BuildError as e:
        print('SETUP-ERROR', e)
        return 2
    print(f'setup ok in {time.time() - t0:.0f}s')
    return 0


if __name__ == '__main__':
    sys.exit(main())
