"""Per-property checks: correspondence (Rust driver vs Lean model) + oracle (Rust vs rules specification)."""
import json, os, re, sys, time, itertools, subprocess, random
from vlib import *

TRUSTED = [
    "Lean 4.33.0 kernel; axioms of every property theorem printed by `#print axioms` and checked to lie in {propext, Classical.choice, Quot.sound}",
    "tools/extract_consts.py (regex-level translator of named Rust constants), cross-checked against the running binary's `consts` dump on every run",
    "hand-written Lean model of the control flow, tied to the code by the correspondence on this run's inputs (differential testing: exhaustive for tables/constants, seeded sampling elsewhere)",
    "Jence/Spec (rules of chess on a mailbox board, plain minimax, cache and session contracts) is trusted to say what the property means; validated against published perft values",
    "modelled, not verified: x86 PEXT/TZCNT/BLSR semantics, Rust release-mode integer semantics, fixed array capacities (move list 256, history 1000: lists are unbounded in the model; the history bound is finding D7), std::sync::mpsc as a FIFO, OS delivery of stdin lines, wall clock, rayon scheduling",
]


class Ctx:
    def __init__(self, prop, tier, seed):
        self.prop, self.tier, self.seed = prop, tier, seed
        self.quick = tier != 'thorough'
        self.oracle_failures = []      # implementation vs specification: real violations (each a replayable input)
        self.disagreements = []        # model vs implementation
        self.evaluations = 0
        self.nontrivial = set()
        self.samples = []
        self.dist = {}
        self.corr_cmds = {}
        self.notes = []
        self.rust = None
        self.model = None
        self.gen = None
    def count(self, key, n=1):
        self.dist[key] = self.dist.get(key, 0) + n
    def sample(self, s):
        if len(self.samples) < 6:
            self.samples.append(s)
    def corr(self, cmd):
        """run one request on both drivers and compare payloads; returns rust payload"""
        r = mask_time(self.rust.ask(cmd))
        m = self.model.ask(cmd)
        name = cmd.split(' ', 1)[0]
        self.corr_cmds[name] = self.corr_cmds.get(name, 0) + 1
        self.evaluations += 1
        if r != m:
            first = next((i for i, (a, b) in enumerate(itertools.zip_longest(r, m)) if a != b), 0)
            self.disagreements.append({'command': cmd[:2000], 'first_diff_line': first,
                                       'engine': (r[first] if first < len(r) else None),
                                       'model': (m[first] if first < len(m) else None)})
        return r
    def oracle_fail(self, kind, inp, detail):
        self.oracle_failures.append({'kind': kind, 'input': inp, 'detail': detail})


def rows(lines):
    d = {}
    for l in lines:
        k, _, v = l.partition(' ')
        d[k] = v
    return d


# ------------------------------------------------------------------------------------------------
# position stream with feature accounting
# ------------------------------------------------------------------------------------------------

def legal_info(ctx, fen):
    """oracle view of a position: (legal set, capture set, in_check, terminal)"""
    o = ctx.model.ask('oracle legal ' + fen)
    if not o or o[0].startswith('!'):
        return None
    d = rows(o)
    return set(d.get('legal', '').split()), set(d.get('captures', '').split()), d.get('check') == '1', d.get('terminal', 'no')


def classify(ctx, fen, legal, caps, chk, term):
    feats = []
    parts = fen.split()
    if chk: feats.append('in-check')
    if term != 'no': feats.append('terminal-' + term)
    if parts[2] != '-': feats.append('castling-rights')
    if any(m in ('e1g1', 'e1c1', 'e8g8', 'e8c8') for m in legal) and parts[2] != '-': feats.append('castling-available')
    if parts[3] != '-': feats.append('ep-square')
    if parts[3] != '-' and any(m[2:4] == parts[3] and m in caps for m in legal): feats.append('ep-capture-available')
    if any(len(m) == 5 for m in legal): feats.append('promotion-available')
    if caps: feats.append('capture-available')
    for f in feats: ctx.count(f)
    if feats: ctx.nontrivial.add(fen.rsplit(' ', 2)[0])
    return feats


# ------------------------------------------------------------------------------------------------
# C15 attack tables
# ------------------------------------------------------------------------------------------------

C15_ROWS = ['WHITE_PAWN_ATTACKS', 'BLACK_PAWN_ATTACKS', 'KNIGHT_ATTACKS', 'KING_ATTACKS', 'ROOK_MASK', 'BISHOP_MASK',
            'ROOK_OFFSETS', 'BISHOP_OFFSETS', 'SLIDING_LEN']

def consts_compare(ctx, names):
    r = rows(ctx.rust.ask('consts'))
    m = rows(ctx.model.ask('consts'))
    ctx.corr_cmds['consts'] = ctx.corr_cmds.get('consts', 0) + 1
    for n in names:
        keys = [k for k in r if k == n or k.startswith(n + '_') and n in ('PIECE_KEYS', 'MVV_LVA')]
        if not keys:
            ctx.disagreements.append({'command': 'consts', 'row': n, 'engine': None, 'model': m.get(n)})
        for k in keys:
            ctx.evaluations += 1
            if r.get(k) != m.get(k):
                ctx.disagreements.append({'command': 'consts', 'row': k, 'engine': (r.get(k) or '')[:300], 'model': (m.get(k) or '')[:300]})
    return r, m


def check_C15(ctx):
    r, m = consts_compare(ctx, C15_ROWS)
    # leaper tables against the rules' patterns (complete: 4 x 64)
    leap = ctx.model.ask('oracle leapers')
    names = ['WHITE_PAWN_ATTACKS', 'BLACK_PAWN_ATTACKS', 'KNIGHT_ATTACKS', 'KING_ATTACKS']
    tabs = [[int(x, 16) for x in r.get(n, '').split()] for n in names]
    for l in leap:
        t = l.split()
        sq = int(t[0])
        for j, n in enumerate(names):
            ctx.evaluations += 1
            want = int(t[1 + j], 16)
            got = tabs[j][sq] if sq < len(tabs[j]) else None
            if got != want:
                ctx.oracle_fail('leaper-table', {'table': n, 'square': sq}, {'engine': hex(got) if got is not None else None, 'rules': hex(want)})
    ctx.nontrivial.update(('leaper', i) for i in range(256))
    # all 107648 slider entries: engine's generated table vs the model's
    rs = ctx.rust.ask('sliding'); ms = ctx.model.ask('sliding')
    ctx.corr_cmds['sliding'] = 1
    ctx.evaluations += sum(len(x.split()) - 1 for x in rs)
    if rs != ms:
        i = next((i for i, (a, b) in enumerate(itertools.zip_longest(rs, ms)) if a != b), 0)
        ctx.disagreements.append({'command': 'sliding', 'first_diff_line': i, 'engine': (rs[i] if i < len(rs) else '')[:200], 'model': (ms[i] if i < len(ms) else '')[:200]})
    # getters through the real PEXT path on every (square, subset), random irrelevant bits; vs model and vs the coordinate walk
    reps = 2 if ctx.quick else 8
    for s in range(1 if ctx.quick else 4):
        sd = (ctx.seed + s) % (2**31) + 1
        ra = ctx.rust.ask(f'attackall {sd} {reps}')
        ma = ctx.model.ask(f'attackall {sd} {reps}')
        oa = ctx.model.ask(f'oracle attackall {sd} {reps}')
        ctx.corr_cmds['attackall'] = ctx.corr_cmds.get('attackall', 0) + 1
        ctx.evaluations += 107648 * reps + 5248 * reps
        if ra != ma:
            i = next((i for i, (a, b) in enumerate(itertools.zip_longest(ra, ma)) if a != b), 0)
            ctx.disagreements.append({'command': f'attackall {sd} {reps}', 'first_diff_line': i, 'engine': ra[i] if i < len(ra) else None, 'model': ma[i] if i < len(ma) else None})
        if ra != oa:
            bad = [i for i, (a, b) in enumerate(itertools.zip_longest(ra, oa)) if a != b]
            find_slider_witness(ctx, r, bad[:3])
    for i in range(64):
        ctx.nontrivial.add(('slider-square', i))
    ctx.dist['slider_entries'] = 107648
    ctx.sample({'attack': 'R sq=27 occ=ff00ff0000123400', 'engine': ctx.rust.ask('attack R 27 ff00ff0000123400')[0], 'rules': ctx.model.ask('oracle attack R 27 ff00ff0000123400')[0]})
    ctx.exhaustive = True


def pdep(idx, mask):
    res, i = 0, 0
    while mask:
        low = mask & -mask
        if idx >> i & 1: res |= low
        mask ^= low; i += 1
    return res

def find_slider_witness(ctx, consts_rows, squares):
    """a digest differs for these squares: enumerate their subsets one by one against the coordinate walk"""
    rm = [int(x, 16) for x in consts_rows.get('ROOK_MASK', '').split()]
    bm = [int(x, 16) for x in consts_rows.get('BISHOP_MASK', '').split()]
    rng = random.Random(ctx.seed)
    for sq in squares:
        found = False
        for kind, masks in (('R', rm), ('B', bm), ('Q', bm)):
            if sq >= len(masks): continue
            mk = masks[sq]
            n = 1 << bin(mk).count('1')
            for i in range(n):
                occ = pdep(i, mk) | (rng.getrandbits(64) & ~mk & (2**64 - 1))
                e = ctx.rust.ask(f'attack {kind} {sq} {occ:x}')[0]
                o = ctx.model.ask(f'oracle attack {kind} {sq} {occ:x}')[0]
                if e != o:
                    ctx.oracle_fail('slider-lookup', {'piece': kind, 'square': sq, 'occupancy': f'{occ:016x}'}, {'engine': e, 'rules': o})
                    found = True
                    break
            if found: break
        if not found:
            ctx.oracle_fail('slider-lookup', {'square': sq, 'note': 'digest over all subsets differs from the coordinate walk'}, {})


# ------------------------------------------------------------------------------------------------
# C10 time budget
# ------------------------------------------------------------------------------------------------

def check_C10(ctx):
    rng = random.Random(ctx.seed)
    cases = []
    incs = [0, 1, 99, 100, 101, 499, 500, 501, 1000, 5000]
    mtgs = [None, 1, 2, 3, 10, 29, 30, 31, 40, 100]
    if ctx.quick:
        times = list(range(1, 3101, 7)) + [1, 2, 29, 30, 31, 1999, 2000, 2001, 2002, 2969, 2970, 2980, 2999, 3000, 3001, 3030, 3100]
    else:
        times = list(range(1, 3101))
    for t in times:
        for inc in (incs if t % 7 == 1 or not ctx.quick else [0, 100, 500, 501]):
            mtg = rng.choice(mtgs)
            cases.append((t, inc, mtg))
    for mtg in range(1, 101):
        for t in (1, 50, 1999, 2000, 2001, 2500, 3000, 60000):
            cases.append((t, rng.choice(incs), mtg))
    for _ in range(300 if ctx.quick else 20000):
        t = int(10 ** rng.uniform(0, 8.9))
        cases.append((max(1, t), rng.choice(incs + [t, 2 * t, t // 2]), rng.choice(mtgs)))
    for (t, inc, mtg) in cases:
        side = rng.choice('wb')
        other = rng.choice([1, 1000, 7777777])
        toks = []
        my = {'w': ('wtime', 'winc'), 'b': ('btime', 'binc')}[side]
        ot = {'w': ('btime', 'binc'), 'b': ('wtime', 'winc')}[side]
        toks += [my[0], str(t), ot[0], str(other)]
        if inc or rng.random() < 0.3: toks += [my[1], str(inc), ot[1], str(rng.choice(incs))]
        if mtg is not None: toks += ['movestogo', str(mtg)]
        if rng.random() < 0.1: rng.shuffle
        cmd = f'budget {side} ; ' + ' '.join(toks)
        out = ctx.corr(cmd)
        ctx.count('clock-cases')
        if out and re.fullmatch(r'-?\d+ -?\d+', out[0]):
            d, mt = map(int, out[0].split())
            ctx.nontrivial.add((t > 2000, inc != 0, mtg, min(t, 4000)))
            if not (0 <= mt < t) or d != -1:
                ctx.oracle_fail('budget-out-of-range', cmd, {'depth': d, 'max_time': mt, 'remaining': t})
        else:
            ctx.oracle_fail('budget-no-answer', cmd, {'answer': out})
    ctx.sample({'input': cmd, 'engine': out})
    # a clock of exactly 0 ms (below the property's clock range): the budget must still be finite and not negative
    for side in 'wb':
        for extra in ['', ' winc 100 binc 100', ' movestogo 5', ' winc 0 binc 0 movestogo 1']:
            cmd0 = f'budget {side} ; wtime 0 btime 0{extra}'
            out0 = ctx.corr(cmd0)
            ctx.count('zero-clock-cases')
            if not out0 or not re.fullmatch(r'-1 \d+', out0[0]):
                ctx.oracle_fail('zero-clock-budget-not-finite', cmd0, {'answer': out0})
    # movetime is exact; infinite / depth are unlimited
    for T in [0, 1, 5, 100, 999, 2000, 2001, 123456] + [rng.randrange(1, 10**7) for _ in range(50)]:
        for extra in ['', ' wtime 5 btime 5', ' wtime 100000 btime 100000 winc 5 binc 5 movestogo 3']:
            for side in 'wb':
                cmd = f'budget {side} ; movetime {T}{extra}'
                out = ctx.corr(cmd)
                ctx.count('movetime-cases')
                if out != [f'-1 {T}']:
                    ctx.oracle_fail('movetime-not-exact', cmd, {'answer': out})
    for cmd, want in [('budget w ; infinite', '-1 -1'), ('budget b ; infinite', '-1 -1'), ('budget w ; depth 5', '5 -1'),
                      ('budget b ; depth 1', '1 -1'), ('budget w ; ', '-1 -1'), ('budget w ; depth 3 wtime 1000 btime 1000', None),
                      ('budget w ; btime 5000', '-1 -1'), ('budget b ; wtime 5000 winc 3', '-1 -1')]:
        out = ctx.corr(cmd)
        ctx.count('unlimited-cases')
        if want is not None and out != [want]:
            ctx.oracle_fail('unlimited-form-wrong', cmd, {'answer': out, 'expected': want})
    # the budget is what bounds the search in time: real runs of the unguarded binary with budgets 0, 1 and small ones
    # (a budget of exactly 0 is a legitimate outcome of the clamp; only `go infinite` / depth-limited searches are unbounded)
    for form, budget in [('go wtime 1500 btime 1500 winc 100 binc 100', 0), ('go wtime 1 btime 1', 0), ('go movetime 0', 0),
                         ('go wtime 2 btime 2', 0), ('go movetime 150', 150), ('go wtime 4000 btime 4000 movestogo 10', 300),
                         ('go movetime 1100', 1100), ('go wtime 40000 btime 40000', 1234)]:
        t0 = time.time()
        out, rc = timed_go(['position startpos moves e2e4 e7e5', form], budget / 1000.0 + 2.0)
        ctx.count('realtime-budget-runs'); ctx.evaluations += 1
        if out is None:
            ctx.oracle_fail('time-limited-search-unbounded', {'script': ['position startpos moves e2e4 e7e5', form]}, {'budget_ms': budget, 'waited_s': round(time.time() - t0, 2)})
    # malformed stream (error handling is compared, not judged)
    for cmd in ['budget w ; wtime', 'budget w ; wtime abc', 'budget w ; depth', 'budget w ; depth x', 'budget w ; movestogo 0 wtime 100',
                'budget w ; foo bar', 'budget w ; wtime +5 btime 7', 'budget w ; wtime 99999999999999999999', 'budget w ; ponder wtime 4000 btime 4000 bogus']:
        ctx.corr(cmd); ctx.count('malformed-cases')


# ------------------------------------------------------------------------------------------------
# C08 transposition table
# ------------------------------------------------------------------------------------------------

def tt_sequence(rng, tt_size, n):
    """ops with >=30% slot collisions and >=30% repeated keys, scores concentrated at the mate thresholds"""
    base_slots = [0, 1, tt_size - 1, tt_size // 2, rng.randrange(tt_size)]
    keys = []
    for s in base_slots:
        for j in range(3):
            keys.append((s + tt_size * rng.randrange(0, (2**64 - 1 - s) // tt_size)) & (2**64 - 1))
    keys += [2**64 - 1, 0, tt_size, rng.getrandbits(64)]
    # near-aliases of one key: same slot and the same low 16 / 32 / 48 bits (a narrowed or partial key comparison
    # would confuse them), or the same high bits (difference only just above the slot index)
    from math import gcd
    K = rng.getrandbits(62)
    keys.append(K)
    for w in (16, 32, 48):
        D = tt_size * (1 << w) // gcd(tt_size, 1 << w)
        if K + D < 2**64:
            keys.append(K + D * rng.randrange(1, max(2, min(8, (2**64 - 1 - K) // D))))
    keys += [K + tt_size, K + tt_size * rng.randrange(2, 2048)]
    def score():
        c = rng.random()
        if c < 0.35: return rng.choice([48000, -48000, 49000, -49000]) + rng.randint(-70, 70)
        if c < 0.5: return rng.choice([47999, 48000, 48001, -47999, -48000, -48001, 0, 50000, -50000])
        return rng.randint(-3000, 3000)
    ops = []
    for _ in range(n):
        c = rng.random()
        k = rng.choice(keys)
        if c < 0.03:
            ops.append(('c',))
        elif c < 0.45:
            ops.append(('r', k, score(), rng.choice([0, 1, 2, 3, 5, 8, 64, 127, 128, 254, 255]), rng.choice('ABE'), rng.randint(0, 63)))
        else:
            s = score()
            w = rng.choice([(s - 1, s + 1), (s, s + 1), (s - 1, s), (s - 50, s + 50), (-50000, 50000), (s + 1, s + 2), (s - 2, s - 1)])
            ops.append(('p', k, rng.choice([0, 1, 2, 3, 5, 8, 64, 127, 128, 254, 255]), w[0], w[1], rng.randint(0, 63)))
    return ops

def tt_ops_text(ops):
    out = []
    for o in ops:
        if o[0] == 'c': out.append('c')
        elif o[0] == 'r': out.append(f'r {o[1]:x} {o[2]} {o[3]} {o[4]} {o[5]}')
        else: out.append(f'p {o[1]:x} {o[2]} {o[3]} {o[4]} {o[5]}')
    return ' ; '.join(out)

UNKNOWN = -2147483648

def tt_oracle(ops, answers, mate_bound=48000):
    """the property itself, evaluated on the answers: returns (index, reason) of the first unsound answer, or None.
    A probe may return something only if, since the last clear, a record for exactly that key with depth >= requested
    exists; the value must be consistent with the LAST record stored for that key (older ones were overwritten);
    a just-stored result is retrievable, and after a clear nothing is."""
    last = {}          # key -> (score, depth, flag, ply)
    just = None        # key stored by the immediately preceding op
    ai = 0
    for i, o in enumerate(ops):
        if o[0] == 'c':
            last.clear(); just = None
        elif o[0] == 'r':
            last[o[1]] = (o[2], o[3], o[4], o[5]); just = o[1]
        else:
            _, k, d, a, b, ply = o
            v = int(answers[ai]); ai += 1
            rec = last.get(k)
            if v != UNKNOWN:
                if rec is None: return i, 'answer without a stored result for this key since the last clear'
                s, rd, fl, rp = rec
                if rd < d: return i, 'stored depth below the requested depth'
                # mate scores come back relative to the probing ply
                adj = s - rp + ply if s < -mate_bound else (s + rp - ply if s > mate_bound else s)
                if fl == 'E' and v != adj: return i, f'exact value {v} != stored value re-based to the probing ply {adj}'
                if fl == 'A' and not (v == a and adj <= a): return i, 'upper bound returned although it exceeds alpha'
                if fl == 'B' and not (v == b and adj >= b): return i, 'lower bound returned although it does not reach beta'
            else:
                if just == k and rec is not None:
                    s, rd, fl, rp = rec
                    adj = s - rp + ply if s < -mate_bound else (s + rp - ply if s > mate_bound else s)
                    if rd >= d and (fl == 'E' or (fl == 'A' and adj <= a) or (fl == 'B' and adj >= b)):
                        return i, 'a result just stored is not retrievable'
            just = None
    return None

def tt_clear_cycles(ctx, tt_size, mate_bound=48000):
    """records, then N clears in a row (N around every power of two and multiple of 64 up to 1024: a clear that merely ages entries out by a
    wrapping counter revives them after a full cycle), then probes: nothing may be found"""
    rng = random.Random(ctx.seed + 77)
    # every power of two and every multiple of 64 up to 1024, with neighbours; the short periods are run several times in a
    # row because a clear that only bumps a wrapping generation counter (and wipes for real when the counter wraps) hides
    # the revival whenever the run of clears happens to pass the wrap: successive runs start at different phases
    ns = [1, 2, 3]
    for q in (4, 8, 16, 32, 64, 128, 192, 256, 320, 384, 512, 1024):
        reps = 4 if q <= 192 else 1
        ns += [q - 1] + [q] * reps + [q + 1]
    for n in ns:
        keys = [rng.getrandbits(64) for _ in range(4)] + [0, tt_size - 1]
        ops = [('r', k, rng.randint(-900, 900), rng.choice([3, 8, 64]), 'E', rng.randint(0, 20)) for k in keys]
        ops += [('c',)] * n
        ops += [('p', k, 1, -50000, 50000, 5) for k in keys]
        text = tt_ops_text(ops)
        out = ctx.corr('tt c ; ' + text)
        ctx.count('clear-cycle-sequences')
        answers = [x for x in out if re.fullmatch(r'-?\d+', x)]
        bad = tt_oracle(ops, answers, mate_bound) if len(answers) == len(keys) else (len(ops) - 1, 'no answer')
        if bad:
            ctx.oracle_fail('entry-survives-clears', 'tt c ; ' + text[:200] + f' ... ({n} clears)', {'clears': n, 'reason': bad[1], 'answers': answers})


def check_C08(ctx):
    r, m = consts_compare(ctx, ['TT_SIZE', 'UNKNOWN_SCORE', 'MATE_BOUND', 'MATE_VALUE', 'MAX_PLY'])
    tt_size = int(r.get('TT_SIZE', '2097152'))
    mate_bound = int(r.get('MATE_BOUND', '48000'))
    rng = random.Random(ctx.seed)
    nseq = 400 if ctx.quick else 6000
    for seq in load_regressions('C08'):
        ctx.corr('tt c ; ' + seq)
    tt_clear_cycles(ctx, tt_size, mate_bound)
    for i in range(nseq):
        ops = tt_sequence(rng, tt_size, rng.choice([5, 20, 60]))
        text = tt_ops_text(ops)
        out = ctx.corr('tt c ; ' + text)
        ctx.count('sequences'); ctx.count('ops', len(ops))
        ctx.count('probes', sum(1 for o in ops if o[0] == 'p')); ctx.count('clears', sum(1 for o in ops if o[0] == 'c'))
        answers = [x for x in out if re.fullmatch(r'-?\d+', x)]
        ctx.count('probe-hits', sum(1 for x in answers if int(x) != UNKNOWN))
        if len(answers) != sum(1 for o in ops if o[0] == 'p'):
            ctx.oracle_fail('tt-no-answer', text, {'answers': out[:5]})
            continue
        bad = tt_oracle(ops, answers, mate_bound)
        ctx.nontrivial.add(hash(text))
        if bad:
            # shrink: shortest prefix that still fails
            k = bad[0] + 1
            ctx.oracle_fail('tt-unsound-answer', 'tt c ; ' + tt_ops_text(ops[:k]), {'op_index': bad[0], 'reason': bad[1], 'op': tt_ops_text([ops[bad[0]]])})
    ctx.sample({'input': 'tt c ; ' + text[:300], 'engine': out[:8]})


# ------------------------------------------------------------------------------------------------
# C01 / C02 / C04 / C05 / C14 : position-level checks
# ------------------------------------------------------------------------------------------------

def check_gen_position(ctx, fen, prop='C01'):
    out = ctx.corr('gen ' + fen)
    info = legal_info(ctx, fen)
    if info is None:
        return None
    legal, caps, chk, term = info
    feats = classify(ctx, fen, legal, caps, chk, term)
    if not out or out[0].startswith('!'):
        ctx.oracle_fail('gen-no-answer', fen, {'engine': out[:2]})
        return info
    d = rows(out)
    def ucis(hexes):
        return [hex_to_uci(h) for h in hexes.split()]
    legal_e = ucis(d.get('legal', ''))
    made_e = ucis(d.get('made', ''))
    qmade_e = ucis(d.get('qmade', ''))
    quiet_e = ucis(d.get('quiet', ''))
    all_e = d.get('all', '').split()
    problems = {}
    if sorted(legal_e) != sorted(legal): problems['filter-route'] = sym_diff(legal_e, legal)
    if sorted(made_e) != sorted(legal): problems['make-route'] = sym_diff(made_e, legal)
    if sorted(qmade_e) != sorted(caps): problems['capture-generator'] = sym_diff(qmade_e, caps)
    if len(set(all_e)) != len(all_e): problems['duplicate-generated-move'] = [x for x in all_e if all_e.count(x) > 1][:4]
    if len(set(legal_e)) != len(legal_e): problems['duplicate-legal-move'] = [x for x in legal_e if legal_e.count(x) > 1][:4]
    if d.get('uci', '').split() != legal_e: problems['uci-strings'] = d.get('uci', '')[:100]
    if d.get('check') != ('1' if chk else '0'): problems['in-check'] = d.get('check')
    if d.get('bulk') != str(len(legal)): problems['bulk-count'] = d.get('bulk')
    # quiescence list must consist of captures only (flag) and all of them pseudo-legal captures
    if problems:
        ctx.oracle_fail('legal-move-set', fen, problems)
    return info

def hex_to_uci(h):
    v = int(h, 16)
    f, t, promo = v & 63, (v >> 6) & 63, (v >> 16) & 15
    sq = lambda s: 'abcdefgh'[s % 8] + str(8 - s // 8)
    return sq(f) + sq(t) + ('' if promo == 12 else 'pnbrqkpnbrqk'[promo] if promo < 12 else '?')

def sym_diff(a, b):
    a, b = list(a), list(b)
    return {'engine_only': sorted(set(a) - set(b))[:6], 'rules_only': sorted(set(b) - set(a))[:6]}


def check_C01(ctx):
    consts_compare(ctx, C15_ROWS)
    for line in load_regressions('C01'):
        check_gen_position(ctx, line)
    n = 1500 if ctx.quick else 40000
    fens = ctx.gen.positions(n)
    fens += synthetic_positions(ctx) + high_mobility_positions(ctx) + promo_pin_families()
    for fen in fens:
        check_gen_position(ctx, fen)
    ctx.sample({'input': 'gen ' + fens[1], 'engine': [x[:120] for x in ctx.rust.ask('gen ' + fens[1])[:3]], 'rules': ctx.model.ask('oracle legal ' + fens[1])[0][:160]})
    # exhaustive legal trees: every position within `d` plies of a root (via the rules' generator)
    depth = 2 if ctx.quick else 3
    roots = [f for _, f in ctx.gen.corpus][: (12 if ctx.quick else 40)]
    for root in roots:
        frontier = [root]
        for _ in range(depth):
            nxt = []
            for f in frontier[: (60 if ctx.quick else 100000)]:
                info = legal_info(ctx, f)
                if not info: continue
                for mv in sorted(info[0]):
                    o = ctx.model.ask(f'oracle play {f} ; {mv}')
                    if len(o) == 2: nxt.append(o[1])
            frontier = nxt
            for f in frontier[: (150 if ctx.quick else 100000)]:
                check_gen_position(ctx, f)
                ctx.count('tree-positions')


def color_mirror_fen(fen):
    """ranks flipped, colours and mover swapped (castling rights swapped, e.p. square mirrored)"""
    p = fen.split()
    rows = p[0].split('/')[::-1]
    board = '/'.join(''.join(c.swapcase() if c.isalpha() else c for c in r) for r in rows)
    side = 'b' if p[1] == 'w' else 'w'
    cast = ''.join(sorted((c.swapcase() for c in p[2]), key=lambda c: 'KQkq'.index(c))) if p[2] != '-' else '-'
    ep = p[3] if p[3] == '-' else p[3][0] + str(9 - int(p[3][1]))
    return ' '.join([board, side, cast, ep] + p[4:])


def high_mobility_positions(ctx):
    """many pieces with long lines: move lists far beyond what ordinary play produces (the record position with 218 legal
    moves, many-queen boards for both colours, random boards with 6-9 queens)"""
    base = ['R6R/3Q4/1Q4Q1/4Q3/2Q4Q/Q4Q2/pp1Q4/kBNN1KB1 w - - 0 1', '6k1/5pp1/1Q3Q2/4Q3/2Q3Q1/Q4Q2/6PP/R4RK1 w - - 0 1',
            '3Q4/1Q4Q1/4Q3/2Q4R/Q4Q2/3Q4/1Q4Rp/1K1BBNNk w - - 0 1', 'QQQQQQ2/8/8/2k5/8/8/6K1/8 w - - 0 1',
            'Q6Q/8/2Q2Q2/8/8/2Q2Q2/6PP/Q5Kk w - - 0 1']
    rng = random.Random(ctx.seed + 77)
    for _ in range(6 if ctx.quick else 60):
        b = ['1'] * 64
        b[rng.choice([56, 57, 62, 63])] = 'K'
        ks = rng.choice([0, 1, 6, 7]); b[ks] = 'k'
        free = [i for i in range(64) if b[i] == '1' and abs(i // 8 - ks // 8) > 1 or abs(i % 8 - ks % 8) > 1 and b[i] == '1']
        for sq in rng.sample(free, rng.choice([6, 7, 8, 9])):
            if b[sq] == '1': b[sq] = 'Q'
        base.append(board_to_rows(b) + ' w - - 0 1')
    out = []
    for f in base:
        for x in (f, color_mirror_fen(f)):
            w = ctx.model.ask('oracle wf ' + x + ' ; ') if getattr(ctx, 'model', None) else ['wf 1 nk 1 notok 0 key 1']
            if w and w[0].startswith('wf 1 nk 1'):
                out.append(x)
    return out


def promo_pin_families():
    """two pawns can capture-promote on the same square and exactly one of them is pinned (by a rook on its own file, so
    it cannot push either): both colours, every target file, either pawn pinned"""
    out = []
    for tf in range(1, 7):
        for pinned_left in (True, False):
            b = ['1'] * 64
            b[tf] = 'n'                          # the piece to be captured, on rank 8
            lf, rf = tf - 1, tf + 1
            b[8 + lf] = 'P'; b[8 + rf] = 'P'
            pf = lf if pinned_left else rf       # file of the pinned pawn
            b[pf] = 'r'                          # rook in front of it, on rank 8
            b[56 + pf] = 'K'                     # own king at the bottom of that file
            bk = 31 if pf < 4 else 24            # the other king, out of the way
            b[bk] = 'k'
            fen = board_to_rows(b) + ' w - - 0 1'
            out += [fen, color_mirror_fen(fen)]
    return out


def synthetic_positions(ctx):
    """well-formed boards random play rarely reaches: all 16 castling-right subsets, every e.p. file for both colours,
    many promoted pieces, attacker families around each castling path"""
    out = []
    for c in range(16):
        rights = ''.join(ch for i, ch in enumerate('KQkq') if c >> i & 1) or '-'
        for side in 'wb':
            out.append(f'r3k2r/pppppppp/8/8/8/8/PPPPPPPP/R3K2R {side} {rights} - 0 1')
            out.append(f'r3k2r/8/8/8/8/8/8/R3K2R {side} {rights} - 0 1')
    files = 'abcdefgh'
    for i, f in enumerate(files):
        # white just played f2-f4 with black pawns beside it; black to move may capture en passant
        row = ['1'] * 8
        row[i] = 'P'
        for j in (i - 1, i + 1):
            if 0 <= j < 8: row[j] = 'p'
        r4 = compress(''.join(row))
        out.append(f'4k3/8/8/8/{r4}/8/8/4K3 b - {f}3 0 1')
        row = ['1'] * 8
        row[i] = 'p'
        for j in (i - 1, i + 1):
            if 0 <= j < 8: row[j] = 'P'
        r5 = compress(''.join(row))
        out.append(f'4k3/8/8/{r5}/8/8/8/4K3 w - {f}6 0 1')
    out += ['QQQQQQ2/8/8/2k5/8/8/6K1/8 w - - 0 1', 'NNNNk3/NNNN4/8/8/8/8/4nnnn/3Knnnn w - - 0 1',
            'RRRR4/8/4k3/8/8/4K3/8/rrrr4 b - - 0 1', 'BBBB4/8/4k3/8/8/4K3/8/bbbb4 w - - 0 1']
    # one attacker of each kind on each square, against each castling
    rng = random.Random(ctx.seed + 5)
    squares = list(range(64))
    if ctx.quick:
        squares = rng.sample(squares, 16)
    for sq in squares:
        for pc in 'qrbnp':
            for side, fen_rows in (('w', ['r3k2r', '8', '8', '8', '8', '8', '8', 'R3K2R']),):
                b = board_from_rows(fen_rows)
                if b[sq] != '1' or (pc == 'p' and (sq < 8 or sq >= 56)): continue
                b[sq] = pc
                out.append(board_to_rows(b) + ' w KQkq - 0 1')
                b2 = board_from_rows(fen_rows)
                b2[sq] = pc.upper()
                if pc == 'p' and (sq < 8 or sq >= 56): continue
                out.append(board_to_rows(b2) + ' b KQkq - 0 1')
    # one blocker (own or enemy knight / bishop) on each square between king and rook, for each of the four castlings
    for sq in (57, 58, 59, 61, 62, 1, 2, 3, 5, 6):
        for pc in 'NnBb':
            for side in 'wb':
                b = board_from_rows(['r3k2r', '8', '8', '8', '8', '8', '8', 'R3K2R'])
                b[sq] = pc
                out.append(board_to_rows(b) + f' {side} KQkq - 0 1')
                b = board_from_rows(['r3k2r', 'pppppppp', '8', '8', '8', '8', 'PPPPPPPP', 'R3K2R'])
                b[sq] = pc
                out.append(board_to_rows(b) + f' {side} KQkq - 0 1')
    out += pawn_families(ctx)
    out += ep_pin_families()
    # keep only positions the rules accept as legal (side not to move not in check)
    good = []
    for f in out:
        o = ctx.model.ask('fen ' + f)
        if o and not o[0].startswith('!'):
            w = ctx.model.ask('oracle absfen ' + o[0])
            if len(w) == 2 and w[1].strip() == 'wf':
                good.append(f)
    ctx.count('synthetic-positions', len(good))
    return good

def pawn_families(ctx):
    """for every square a pawn can stand on and both colours: the pawn with enemy pieces on both capture squares,
    with the push square free / blocked, and the double-push square free / blocked (all 48 x 2 pawn placements)"""
    out = []
    for sq in range(8, 56):
        f, r = sq % 8, sq // 8
        for white in (True, False):
            dr = -1 if white else 1
            for variant in range(3):
                b = ['1'] * 64
                b[sq] = 'P' if white else 'p'
                enemy = 'nrbq' if white else 'NRBQ'
                tr = r + dr
                for k, df in enumerate((-1, 1)):
                    if 0 <= f + df < 8:
                        b[8 * tr + f + df] = enemy[(sq + k + variant) % 4]
                if variant == 1:
                    b[8 * tr + f] = enemy[0]                      # push square blocked
                if variant == 2 and 0 <= r + 2 * dr < 8:
                    b[8 * (r + 2 * dr) + f] = enemy[1]            # double-push square blocked
                # kings: first placement that keeps clear of the pattern
                for wk, bk in ((63, 0), (56, 7), (60, 4), (32, 39), (24, 31), (59, 3)):
                    if b[wk] == '1' and b[bk] == '1' and abs(wk % 8 - f) > 1 or abs(bk % 8 - f) > 1:
                        if b[wk] != '1' or b[bk] != '1': continue
                        b2 = list(b); b2[wk] = 'K'; b2[bk] = 'k'
                        out.append(board_to_rows(b2) + (' w' if white else ' b') + ' - - 0 1')
    return out

def ep_pin_families():
    """en-passant captures that would uncover a rank attack on the own king (both colours, every file, both capture
    directions, king left or right), with the capturing pawn's push square blocked so the capture is its first move"""
    out = []
    for white in (True, False):
        row = 3 if white else 4            # rank 5 / rank 4
        for pf in range(8):                # file of the capturing pawn
            for df in (-1, 1):
                vf = pf + df               # file of the pawn that just double-pushed
                if not 0 <= vf < 8: continue
                lo, hi = min(pf, vf), max(pf, vf)
                for king_left in (True, False):
                    for blocked in (True, False):
                        b = ['1'] * 64
                        b[8 * row + pf] = 'P' if white else 'p'
                        b[8 * row + vf] = 'p' if white else 'P'
                        kf = lo - 2 if king_left else hi + 2
                        rf = hi + 2 if king_left else lo - 2
                        if not (0 <= kf < 8 and 0 <= rf < 8): continue
                        b[8 * row + kf] = 'K' if white else 'k'
                        b[8 * row + rf] = 'r' if white else 'R'
                        if blocked:
                            b[8 * (row - 1 if white else row + 1) + pf] = 'n' if white else 'N'
                        ok = 60 if white else 4
                        other = (4 if white else 60)
                        if b[other] != '1': continue
                        b[other] = 'k' if white else 'K'
                        ep = 'abcdefgh'[vf] + ('6' if white else '3')
                        out.append(board_to_rows(b) + (' w' if white else ' b') + f' - {ep} 0 1')
    return out

def compress(row):
    out, run = '', 0
    for ch in row:
        if ch == '1': run += 1
        else:
            if run: out += str(run); run = 0
            out += ch
    if run: out += str(run)
    return out

def board_from_rows(rs):
    b = []
    for r in rs:
        for ch in r:
            if ch.isdigit(): b += ['1'] * int(ch)
            else: b.append(ch)
    return b

def board_to_rows(b):
    return '/'.join(compress(''.join(b[8 * i:8 * i + 8])) for i in range(8))


def check_play_game(ctx, base, moves, check_keys=True):
    """play a game on engine and model; after every move compare the engine's position with the rules' successor
    (all six FEN fields) and check the redundancy invariants and the key"""
    cmd = f'play {base} ; ' + ' '.join(moves)
    out = ctx.corr(cmd)
    spec = ctx.model.ask(f'oracle play {base} ; ' + ' '.join(moves))
    ctx.count('games'); ctx.count('plies', len(moves))
    if len(moves) >= 20: ctx.count('games-20plus')
    hist_keys = []
    for i, line in enumerate(out):
        if line.startswith('!'):
            if i < len(spec) and not spec[i].startswith('!'):
                ctx.oracle_fail('legal-move-rejected', cmd, {'ply': i, 'engine': line, 'rules_fen': spec[i]})
            return hist_keys
        parts = [x.strip() for x in line.split(' | ')]
        dump, scratch = parts[0], parts[1]
        key = dump.split()[-1]
        hist_keys.append(key)
        ab = ctx.model.ask('oracle absfen ' + dump)
        ctx.evaluations += 1
        if len(ab) != 2:
            ctx.oracle_fail('unreadable-position', cmd, {'ply': i, 'dump': dump}); return hist_keys
        fen_e, wf = ab[0], ab[1][3:].strip()
        if i >= len(spec) or spec[i].startswith('!'):
            ctx.oracle_fail('illegal-move-accepted', cmd, {'ply': i, 'engine_fen': fen_e, 'rules': spec[i] if i < len(spec) else None}); return hist_keys
        if fen_e != spec[i]:
            ctx.oracle_fail('successor-position-differs', cmd, {'ply': i, 'move': moves[i - 1] if i else None, 'engine_fen': fen_e, 'rules_fen': spec[i]}); return hist_keys
        if wf:
            ctx.oracle_fail('redundant-state-inconsistent', cmd, {'ply': i, 'move': moves[i - 1] if i else None, 'defects': wf, 'engine_fen': fen_e}); return hist_keys
        if check_keys and key != scratch:
            ctx.oracle_fail('incremental-key-differs-from-recomputed', cmd, {'ply': i, 'move': moves[i - 1] if i else None, 'incremental': key, 'recomputed': scratch}); return hist_keys
        ctx.nontrivial.add(fen_e.rsplit(' ', 2)[0])
    if len(out) != len(spec):
        ctx.oracle_fail('game-length-differs', cmd, {'engine_lines': len(out), 'rules_lines': len(spec)})
    # hypotheses of the history theorems (T2.1/T2.3/T4.1), decided by the model on every position of this game:
    # consistent position, no capture aims at the king, every generated move fits the board, key right
    hyp = ctx.model.ask(f'oracle wf {base} ; ' + ' '.join(moves))
    for i, line in enumerate(hyp):
        if line.startswith('!'): break
        ctx.count('theorem-hypotheses-decided')
        if line != 'wf 1 nk 1 notok 0 key 1':
            ctx.oracle_fail('theorem-hypothesis-fails-on-model', cmd, {'ply': i, 'decided': line}); break
    return hist_keys


def move_kinds(ctx, base, moves, fens):
    """count special moves in a generated game for the distribution report"""
    prev = base
    for mv, f in zip(moves, fens):
        pb = prev.split()
        if mv in ('e1g1', 'e1c1', 'e8g8', 'e8c8') and pb[2] != '-': ctx.count('castling-moves?')
        if len(mv) == 5: ctx.count('promotion-moves')
        if pb[3] != '-' and mv[2:4] == pb[3]: ctx.count('ep-capture-moves?')
        prev = f


def check_C02(ctx):
    consts_compare(ctx, ['CASTLING_RIGHTS', 'SQUARE_STRINGS', 'PIECE_STRINGS'])
    for line in load_regressions('C02'):
        base, _, mv = line.partition(' ; ')
        check_play_game(ctx, base, mv.split())
    n = 250 if ctx.quick else 6000
    games = ctx.gen.games(n, maxlen=120 if ctx.quick else 300)
    for base, moves, fens in games:
        move_kinds(ctx, base, moves, fens)
        check_play_game(ctx, base, moves)
    # every legal move of many positions, one ply each (all legal positions x all their legal moves)
    for fen in ctx.gen.positions(150 if ctx.quick else 3000) + synthetic_positions(ctx)[: (60 if ctx.quick else 100000)]:
        info = legal_info(ctx, fen)
        if not info: continue
        classify(ctx, fen, *info)
        for mv in sorted(info[0]):
            check_play_game(ctx, fen, [mv])
    b, m, f = games[3]
    ctx.sample({'input': f'play {b} ; ' + ' '.join(m[:12]), 'rules_fen_after': f[:3]})


def check_C04(ctx):
    r, m = consts_compare(ctx, ['PIECE_KEYS', 'ENPASSANT_KEYS', 'CASTLE_KEYS', 'SIDE_KEY'])
    # key tables: no zero, no repeat (complete check on the engine's dump; the XOR facts are theorems on the model's copy)
    keys = []
    for k, v in r.items():
        if k.startswith('PIECE_KEYS_') or k in ('ENPASSANT_KEYS', 'CASTLE_KEYS', 'SIDE_KEY'):
            keys += [int(x, 16) for x in v.split()]
    ctx.evaluations += len(keys)
    if len(keys) != 849 or 0 in keys or len(set(keys)) != len(keys):
        ctx.oracle_fail('key-table-zero-or-repeat', 'consts', {'count': len(keys), 'zero': 0 in keys, 'distinct': len(set(keys))})
    for line in load_regressions('C04'):
        base, _, mv = line.partition(' ; ')
        check_play_game(ctx, base, mv.split())
    n = 300 if ctx.quick else 8000
    games = ctx.gen.games(n, maxlen=120 if ctx.quick else 300)
    by_pos = {}
    for base, moves, fens in games:
        move_kinds(ctx, base, moves, fens)
        hk = check_play_game(ctx, base, moves)
        for f, k in zip([base] + fens, hk):
            ident = ' '.join(f.split()[:4])
            by_pos.setdefault(ident, set()).add(k)
    # one ply of every legal move from special positions (captures on rook home squares with e.p. pending etc.)
    for fen in synthetic_positions(ctx)[: (80 if ctx.quick else 100000)]:
        info = legal_info(ctx, fen)
        if not info: continue
        for mv in sorted(info[0]):
            hk = check_play_game(ctx, fen, [mv])
    # transpositions: same placement/side/castling/ep reached by different orders or with different clocks => same key
    for ident, ks in by_pos.items():
        if len(ks) > 1:
            ctx.oracle_fail('same-position-two-keys', ident, {'keys': sorted(ks)})
    ctx.dist['distinct-positions-with-key'] = len(by_pos)
    # two move orders into one position; positions differing by a quiet move / side to move have different keys
    for base, a, b in [(START_FEN, 'g1f3 g8f6 b1c3 b8c6', 'b1c3 b8c6 g1f3 g8f6'), (START_FEN, 'e2e3 e7e6 d2d3 d7d6', 'd2d3 d7d6 e2e3 e7e6'),
                       ('r3k2r/8/8/8/8/8/8/R3K2R w KQkq - 0 1', 'a1a2 a8a7 h1h2 h8h7', 'h1h2 h8h7 a1a2 a8a7')]:
        ka = check_play_game(ctx, base, a.split()); kb = check_play_game(ctx, base, b.split())
        ctx.count('transposition-pairs')
        if ka and kb and ka[-1] != kb[-1]:
            ctx.oracle_fail('transposition-keys-differ', {'base': base, 'a': a, 'b': b}, {'a': ka[-1], 'b': kb[-1]})
    # clocks never influence the key
    for fen in ctx.gen.positions(60):
        p = fen.split()
        k1 = ctx.corr('fen ' + fen); p[4], p[5] = '37', '99'
        k2 = ctx.corr('fen ' + ' '.join(p))
        if k1 and k2 and not k1[0].startswith('!') and k1[0].split()[-1] != k2[0].split()[-1]:
            ctx.oracle_fail('clock-influences-key', fen, {'k1': k1[0].split()[-1], 'k2': k2[0].split()[-1]})
        # flipping only the side to move changes the key (when no e.p. square is involved)
        if p[3] == '-':
            q = list(p); q[1] = 'b' if p[1] == 'w' else 'w'
            k3 = ctx.rust.ask('fen ' + ' '.join(q))
            if k2 and k3 and k3[0].split()[-1] == k2[0].split()[-1]:
                ctx.oracle_fail('side-to-move-shares-key', fen, {})
    b, m, f = games[5]
    ctx.sample({'input': f'play {b} ; ' + ' '.join(m[:10]), 'keys': check_play_game(ctx, b, m[:10])[:4]})


def check_C14(ctx):
    known = [(START_FEN, [20, 400, 8902, 197281, 4865609]), ('r3k2r/p1ppqpb1/bn2pnp1/3PN3/1p2P3/2N2Q1p/PPPBBPPP/R3K2R w KQkq - 0 1', [48, 2039, 97862, 4085603]),
             ('8/2p5/3p4/KP5r/1R3p1k/8/4P1P1/8 w - - 0 1', [14, 191, 2812, 43238, 674624]),
             ('r3k2r/Pppp1ppp/1b3nbN/nP6/BBP1P3/q4N2/Pp1P2PP/R2Q1RK1 w kq - 0 1', [6, 264, 9467, 422333]),
             ('rnbq1k1r/pp1Pbppp/2p5/8/2B5/8/PPP1NnPP/RNBQK2R w KQ - 1 8', [44, 1486, 62379, 2103487]),
             ('r4rk1/1pp1qppp/p1np1n2/2b1p1B1/2B1P1b1/P1NP1N2/1PP1QPPP/R4RK1 w - - 0 10', [46, 2079, 89890, 3894594])]
    # published values: validate the specification (depth <= 3) and the engine (deeper)
    for fen, vals in known:
        for d, v in enumerate(vals, 1):
            if d <= 3:
                o = ctx.model.ask(f'oracle perft {fen} ; {d}')
                if o != [str(v)]: ctx.notes.append(f'SPEC-VALIDATION-FAILED perft({fen},{d}) = {o} != {v}')
            if d <= (4 if ctx.quick else 5):
                e = ctx.rust.ask(f'perft {fen} ; {d}')
                ctx.evaluations += 1; ctx.count('published-values')
                if e != [str(v)]:
                    ctx.oracle_fail('perft-differs-from-published-value', f'perft {fen} ; {d}', {'engine': e, 'published': v})
    fens = ctx.gen.positions(120 if ctx.quick else 1500) + synthetic_positions(ctx)[:40] + promo_pin_families() + high_mobility_positions(ctx)[:8]
    for fen in load_regressions('C14') + fens:
        info = legal_info(ctx, fen)
        if info: classify(ctx, fen, *info)
        for d in ([1, 2] if ctx.quick else [1, 2, 3]):
            e = ctx.corr(f'perft {fen} ; {d}')
            o = ctx.model.ask(f'oracle perft {fen} ; {d}')
            ctx.count(f'depth-{d}')
            if e != o:
                ctx.oracle_fail('perft-count-differs-from-rules', f'perft {fen} ; {d}', {'engine': e, 'rules': o})
    # depth 3 on a subset (uses the parallel path: depth > 2)
    for fen in fens[: (25 if ctx.quick else 300)]:
        e = ctx.corr(f'perft {fen} ; 3')
        o = ctx.model.ask(f'oracle perft {fen} ; 3')
        ctx.count('depth-3')
        if e != o:
            ctx.oracle_fail('perft-count-differs-from-rules', f'perft {fen} ; 3', {'engine': e, 'rules': o})
    # counts beyond 2^32 (depth 6 is inside the property's range): published value, and additivity - the count at the
    # root is the sum of the counts one ply down, each of which is below 2^32 and computed by separate requests
    big = [('r3k2r/p1ppqpb1/bn2pnp1/3PN3/1p2P3/2N2Q1p/PPPBBPPP/R3K2R w KQkq - 0 1', 6, 8031647685)]
    if not ctx.quick:
        big.append(('r4rk1/1pp1qppp/p1np1n2/2b1p1B1/2B1P1b1/P1NP1N2/1PP1QPPP/R4RK1 w - - 0 10', 6, 6923051137))
    for fen, d, published in big:
        e = ctx.rust.ask(f'perft {fen} ; {d}')
        ctx.evaluations += 1; ctx.count('counts-beyond-2^32')
        if e != [str(published)]:
            ctx.oracle_fail('perft-differs-from-published-value', f'perft {fen} ; {d}', {'engine': e, 'published': published})
        info = legal_info(ctx, fen)
        total = 0
        for mv in sorted(info[0]):
            o = ctx.model.ask(f'oracle play {fen} ; {mv}')
            c = ctx.rust.ask(f'perft {o[1]} ; {d - 1}')
            total += int(c[0])
        ctx.evaluations += len(info[0])
        if e != [str(total)]:
            ctx.oracle_fail('perft-not-the-sum-of-its-subtrees', f'perft {fen} ; {d}', {'engine': e, 'sum_of_children_at_depth_minus_1': total})
    # thread counts: the same requests under RAYON_NUM_THREADS = 1..16 (fresh processes), repeated
    reqs = [f'perft {START_FEN} ; 4', 'perft r3k2r/p1ppqpb1/bn2pnp1/3PN3/1p2P3/2N2Q1p/PPPBBPPP/R3K2R w KQkq - 0 1 ; 3',
            'perft r3k2r/p1ppqpb1/bn2pnp1/3PN3/1p2P3/2N2Q1p/PPPBBPPP/R3K2R w KQkq - 0 1 ; 4', 'perft 8/2p5/3p4/KP5r/1R3p1k/8/4P1P1/8 w - - 0 1 ; 5']
    want = ['197281', '97862', '4085603', '674624']
    rounds = 3 if ctx.quick else 25
    for threads in ([1, 2, 3, 8, 16] if ctx.quick else range(1, 17)):
        inp = '\n'.join(reqs * rounds) + '\n'
        p = subprocess.run([RUST_BIN], input=inp, capture_output=True, text=True, env=env_offline({'JENCE_VERIF': 'driver', 'RAYON_NUM_THREADS': str(threads)}))
        got = [l for l in p.stdout.split('\n') if l and l != '.']
        ctx.evaluations += len(got); ctx.count('thread-count-runs', len(got))
        ctx.nontrivial.add(('threads', threads))
        for i, g in enumerate(got):
            if g != want[i % len(want)]:
                ctx.oracle_fail('perft-depends-on-threads', {'request': reqs[i % len(reqs)], 'RAYON_NUM_THREADS': threads}, {'engine': g, 'expected': want[i % len(want)]})
                break
    ctx.sample({'input': f'perft {fens[2]} ; 2', 'engine': ctx.rust.ask(f'perft {fens[2]} ; 2'), 'rules': ctx.model.ask(f'oracle perft {fens[2]} ; 2')})


def check_C05(ctx):
    session_corr(ctx, 12 if ctx.quick else 200)
    consts_compare(ctx, ['SQUARE_STRINGS', 'PIECE_STRINGS', 'CASTLING_RIGHTS', 'REP_CAPACITY'])
    kf = known_findings()
    n = 200 if ctx.quick else 5000
    games = ctx.gen.games(n, maxlen=100 if ctx.quick else 400)
    for line in load_regressions('C05'):
        base, _, mv = line.partition(' ; ')
        games.insert(0, (base, mv.split(), None))
    for base, moves, fens in games:
        ctx.count('games'); ctx.count('plies', len(moves))
        pos_args = ('startpos' if base == START_FEN and ctx.gen.rng.random() < 0.7 else 'fen ' + base) + (' moves ' + ' '.join(moves) if moves else '')
        out = ctx.corr('position ' + pos_args)
        spec = ctx.model.ask(f'oracle play {base} ; ' + ' '.join(moves))
        if not out or out[0].startswith('!') or len(out) < 2:
            ctx.oracle_fail('position-rejected', 'position ' + pos_args, {'engine': out[:2]}); continue
        ab = ctx.model.ask('oracle absfen ' + out[0])
        if len(ab) != 2 or ab[0] != spec[-1] or ab[1].strip() != 'wf':
            ctx.oracle_fail('position-not-reconstructed', 'position ' + pos_args, {'engine_fen': ab[0] if ab else None, 'defects': ab[1] if len(ab) > 1 else None, 'rules_fen': spec[-1]}); continue
        ctx.nontrivial.add(spec[-1].rsplit(' ', 2)[0])
        # history = key of every position from the base through the final one
        rep = out[1].split()
        hist = rep[2:]
        want = []
        for f in spec:
            k = ctx.rust.ask('fen ' + f)
            want.append(k[0].split()[-1] if k and not k[0].startswith('!') else None)
        if rep[1] != str(len(spec)) or hist != want:
            ctx.oracle_fail('history-not-recorded', 'position ' + pos_args, {'engine_history_len': rep[1], 'expected_len': len(spec),
                            'first_diff': next((i for i, (a, b) in enumerate(itertools.zip_longest(hist, want)) if a != b), None)})
        # what `d` displays is that position
        shown = ctx.corr('show ' + pos_args)
        dec = decode_pretty(shown)
        if dec is None or dec != ' '.join(spec[-1].split()[:4]) + ' ' + ' '.join(spec[-1].split()[4:6]):
            ctx.oracle_fail('display-differs', 'show ' + pos_args, {'decoded': dec, 'rules_fen': spec[-1]})
    # FEN parsing: every field combination (castling subsets, e.p. squares, clocks)
    rng = ctx.gen.rng
    for fen in ctx.gen.positions(300 if ctx.quick else 5000) + synthetic_positions(ctx)[:100]:
        p = fen.split()
        p[4] = str(rng.choice([0, 1, 49, 50, 99, 100, 149, 150])); p[5] = str(rng.choice([1, 2, 50, 300, 5000, 65535]))
        f2 = ' '.join(p)
        out = ctx.corr('fen ' + f2)
        ctx.count('fen-cases')
        if not out or out[0].startswith('!'):
            ctx.oracle_fail('fen-rejected', f2, {'engine': out[:1]}); continue
        ab = ctx.model.ask('oracle absfen ' + out[0])
        if len(ab) != 2 or ab[0] != f2 or ab[1].strip() != 'wf':
            ctx.oracle_fail('fen-not-reconstructed', f2, {'engine_fen': ab[0] if ab else None, 'defects': ab[1] if len(ab) > 1 else None})
    # the strings the engine accepts are those of its legal list: compare that list with the rules on a wide stream
    for fen in ctx.gen.positions(500 if ctx.quick else 20000) + synthetic_positions(ctx):
        o = ctx.corr('gen ' + fen)
        info = legal_info(ctx, fen)
        if not info or not o or o[0].startswith('!'): continue
        classify(ctx, fen, *info)
        acc = rows(o).get('uci', '').split()
        if sorted(acc) != sorted(info[0]):
            ctx.oracle_fail('accepted-move-strings-differ-from-legal-moves', fen, sym_diff(acc, info[0]))
    # acceptance of move strings: exactly the legal ones, each with its own string
    alphabet_moves = lambda: [a + b + c + d + e for a in 'abcdefgh' for b in '12345678' for c in 'abcdefgh' for d in '12345678' for e in ['', 'q', 'n', 'r', 'b']]
    pool = None
    for fen in ctx.gen.positions(25 if ctx.quick else 300):
        info = legal_info(ctx, fen)
        if not info: continue
        legal = info[0]
        if len(legal) != len(set(legal)): ctx.oracle_fail('uci-not-unique', fen, {})
        if pool is None: pool = alphabet_moves()
        cand = set(legal) | set(rng.sample(pool, 150 if ctx.quick else 3000)) | {m + 'q' for m in list(legal)[:5] if len(m) == 4} | {m[:4] for m in legal if len(m) == 5} | {m.upper() for m in list(legal)[:3]} | {'', 'e2', 'e2e4e5', '0000', 'a8a8p'}
        for mv in sorted(cand):
            if ' ' in mv: continue
            o = ctx.corr(f'play {fen} ; {mv}') if mv else None
            ctx.count('move-strings-tried')
            if o is None: continue
            accepted = len(o) >= 2 and not o[1].startswith('!')
            if accepted != (mv in legal):
                ctx.oracle_fail('move-string-acceptance', f'play {fen} ; {mv}', {'accepted': accepted, 'legal': mv in legal})
    # malformed stream: compared only (model vs engine)
    for s in ['fen', 'fen ', 'fen 8/8/8/8/8/8/8/8', 'fen 8/8/8/8/8/8/8/8 w', 'fen x w - - 0 1', 'fen rnbqkbnr/pppppppp/8/8/8/8/PPPPPPPP/RNBQKBNR w KQkq e9 0 1',
              'fen rnbqkbnr/pppppppp/8/8/8/8/PPPPPPPP/RNBQKBNR w KQkq - x 1', 'fen rnbqkbnr/pppppppp/8/8/8/8/PPPPPPPP/RNBQKBNR w KQkq - 0 70000',
              'fen rnbqkbnr/pppppppp/8/8/8/8/PPPPPPPP/RNBQKBNR  w KQkq - 0 1', 'position', 'position foo', 'position fen', 'position fen 8/8 w',
              'position startpos moves', 'position startpos moves e2e5', 'position startpos  moves e2e4', 'position startpos moves e2e4  e7e5',
              'position fen rnbqkbnr/pppppppp/8/8/8/8/PPPPPPPP/RNBQKBNR w KQkq - 0 1 moves e2e4 e7e5', 'position startposmoves e2e4', 'fen 9/8/8/8/8/8/8/8 w - - 0 1',
              'fen rnbqkbnr/pppppppp/8/8/8/8/PPPPPPPP/RNBQKBNR w KQkq - +3 +4', 'fen rnbqkbnr/pppppppp/8/8/8/8/PPPPPPPP/RNBQKBNR w KQkq a0 0 1']:
        ctx.corr(s); ctx.count('malformed-cases')
    # recorded finding D7: a history of 1000 or more plies overruns the repetition array
    mv = ' '.join((['g1f3', 'g8f6', 'f3g1', 'f6g8'] * 300)[:1000])
    o = ctx.corr('position startpos moves ' + mv)
    if o and o[0] == '!panic':
        ctx.oracle_fail('position-history-overflow', 'position startpos moves (g1f3 g8f6 f3g1 f6g8)x250', {'plies': 1000, 'engine': '!panic'})
    o = ctx.corr('position startpos moves ' + ' '.join(mv.split()[:999]))
    if not o or o[0].startswith('!'):
        ctx.oracle_fail('position-rejected', 'position startpos moves (999 plies)', {'engine': o[:1]})
    b, m, f = games[min(4, len(games) - 1)]
    ctx.sample({'input': 'position fen ' + b + ' moves ' + ' '.join(m[:8])})


def decode_pretty(lines):
    """the six FEN fields from the text `d` prints"""
    try:
        rowsx = [l for l in lines if re.match(r'^[1-8] │', l)]
        if len(rowsx) != 8: return None
        board = []
        for l in rowsx:
            cells = l[2:].split('│')[1:9]
            for c in cells:
                c = c.strip()
                board.append('1' if c == '' else c[0])
        placement = board_to_rows(board)
        txt = '\n'.join(lines)
        active = 'w' if re.search(r'Active:\s+White', txt) else 'b'
        full = re.search(r'Full moves: (\d+)', txt).group(1)
        half = re.search(r'Half moves: (\d+)', txt).group(1)
        ep = re.search(r'Enpassant:\s+(\S+)', txt).group(1)
        ep = '-' if ep == 'None' else ep
        cas = re.search(r'Castling:\s+(\S*)\s', txt).group(1) or '-'
        if cas.startswith('Zobrist') or cas == '': cas = '-'
        return f'{placement} {active} {cas} {ep} {half} {full}'
    except Exception:
        return None


# ------------------------------------------------------------------------------------------------
# C16 evaluation
# ------------------------------------------------------------------------------------------------

C16_ROWS = ['MATERIAL_WEIGHTS', 'PAWN_SCORES', 'KNIGHT_SCORES', 'BISHOP_SCORES', 'ROOK_SCORES', 'KING_SCORES', 'MIRRORED', 'FILE_MASKS', 'RANK_MASKS',
            'ISOLATED_MASKS', 'WHITE_PASSED_PAWN_MASKS', 'BLACK_PASSED_PAWN_MASKS', 'PASSED_WHITE_PAWN_BONUS', 'PASSED_BLACK_PAWN_BONUS', 'STACKED_PAWN_PENALTY',
            'ISOLATED_PAWN_PENALTY', 'SEMI_OPEN_FILE_SCORE', 'OPEN_FILE_SCORE', 'PROTECTED_KING_BONUS', 'LOOKUP_RANK', 'MATE_BOUND']

def parse_dump(d):
    t = d.split()
    return {'bbs': [int(x, 16) for x in t[:12]], 'w': int(t[12], 16), 'b': int(t[13], 16), 'a': int(t[14], 16), 'side': t[15],
            'ep': int(t[16]), 'castling': int(t[17]), 'half': int(t[18]), 'full': int(t[19]), 'key': int(t[20], 16)}

def fmt_dump(g):
    return ' '.join(f'{x:016x}' for x in g['bbs']) + f" {g['w']:016x} {g['b']:016x} {g['a']:016x} {g['side']} {g['ep']} {g['castling']} {g['half']} {g['full']} {g['key']:016x}"

def flip64(b):
    """flip the board vertically: row r <-> row 7-r (byte swap)"""
    return int.from_bytes(b.to_bytes(8, 'little'), 'big')

def mirror_dump(g):
    bbs = [flip64(g['bbs'][(i + 6) % 12]) for i in range(12)]
    return {'bbs': bbs, 'w': flip64(g['b']), 'b': flip64(g['w']), 'a': flip64(g['a']), 'side': 'b' if g['side'] == 'w' else 'w',
            'ep': g['ep'], 'castling': g['castling'], 'half': g['half'], 'full': g['full'], 'key': g['key']}

def check_C16(ctx):
    r, m = consts_compare(ctx, C16_ROWS)
    mate_bound = int(r.get('MATE_BOUND', '48000'))
    rng = ctx.gen.rng
    fens = ctx.gen.positions(1200 if ctx.quick else 30000) + synthetic_positions(ctx)
    for fen in load_regressions('C16') + fens:
        d = ctx.rust.ask('fen ' + fen)
        if not d or d[0].startswith('!'): continue
        g = parse_dump(d[0])
        v = ctx.corr('eval ' + fmt_dump(g))
        ctx.count('positions')
        if not v or not re.fullmatch(r'-?\d+', v[0]):
            ctx.oracle_fail('eval-no-answer', fen, {'engine': v}); continue
        val = int(v[0])
        ctx.nontrivial.add(fen.split()[0])
        if abs(val) >= mate_bound:
            ctx.oracle_fail('eval-in-mate-range', fen, {'value': val})
        # fields that must not matter
        g2 = dict(g); g2['castling'] = rng.randrange(16); g2['ep'] = rng.choice([64, rng.randrange(64)]); g2['half'] = rng.randrange(256)
        g2['full'] = rng.randrange(65536); g2['key'] = rng.getrandbits(64)
        v2 = ctx.corr('eval ' + fmt_dump(g2))
        if v2 != v:
            ctx.oracle_fail('eval-depends-on-irrelevant-field', {'fen': fen, 'dump': fmt_dump(g2)}, {'value': val, 'with_changed_fields': v2})
        # side to move only
        g3 = dict(g); g3['side'] = 'b' if g['side'] == 'w' else 'w'
        v3 = ctx.corr('eval ' + fmt_dump(g3))
        if v3 != [str(-val)]:
            ctx.oracle_fail('eval-side-switch-not-negated', fen, {'value': val, 'other_side': v3})
        # colour mirror
        v4 = ctx.corr('eval ' + fmt_dump(mirror_dump(g)))
        # the mirror of theorem T16.3 (`Lemmas/EvalMirror.mirror`) is the mirror used here
        mm = ctx.model.ask('oracle mirror ' + fmt_dump(g))
        ctx.count('theorem-mirror-compared')
        if not mm or parse_dump(mm[0]) != mirror_dump(g):
            ctx.oracle_fail('theorem-mirror-differs-from-harness-mirror', 'oracle mirror ' + fmt_dump(g), {'model': mm, 'harness': fmt_dump(mirror_dump(g))})
        if v4 != v:
            ctx.oracle_fail('eval-not-colour-symmetric', {'fen': fen, 'mirror_dump': fmt_dump(mirror_dump(g))}, {'value': val, 'mirror': v4})
    # positions reached by play must evaluate like the same position set up from its FEN (placement and mover only)
    for base, moves, fs in ctx.gen.games(150 if ctx.quick else 4000, maxlen=80) + [
            ('r3k2r/pppppppp/8/8/8/8/PPPPPPPP/R3K2R w KQkq - 0 1', 'e1c1 e8c8 c1b1 c8b8'.split(), None),
            ('r3k2r/pppppppp/8/8/8/8/PPPPPPPP/R3K2R w KQkq - 0 1', 'e1g1 e8g8 g1h1 g8h8'.split(), None)]:
        if not moves: continue
        out = ctx.rust.ask(f'play {base} ; ' + ' '.join(moves))
        spec = ctx.model.ask(f'oracle play {base} ; ' + ' '.join(moves))
        ctx.count('played-games')
        for line, f in list(zip(out, spec))[1:]:
            if line.startswith('!') or f.startswith('!'): break
            d1 = line.split(' | ')[0]
            d2 = ctx.rust.ask('fen ' + f)
            if not d2 or d2[0].startswith('!'): continue
            v1 = ctx.corr('eval ' + d1); v2 = ctx.rust.ask('eval ' + d2[0])
            if v1 != v2:
                ctx.oracle_fail('eval-depends-on-how-position-was-reached', f'play {base} ; ' + ' '.join(moves), {'fen': f, 'after_play': v1, 'from_fen': v2}); break
    # malformed stream: arbitrary (ill-formed) dumps, compared only
    for _ in range(100 if ctx.quick else 2000):
        g = {'bbs': [rng.getrandbits(64) & rng.getrandbits(64) & rng.getrandbits(64) for _ in range(12)], 'w': rng.getrandbits(64), 'b': rng.getrandbits(64), 'a': rng.getrandbits(64),
             'side': rng.choice('wb'), 'ep': rng.randrange(65), 'castling': rng.randrange(16), 'half': rng.randrange(256), 'full': rng.randrange(65536), 'key': rng.getrandbits(64)}
        ctx.corr('eval ' + fmt_dump(g)); ctx.count('malformed-dumps')
    ctx.sample({'input': 'eval <dump of ' + fens[7] + '>', 'engine': ctx.rust.ask('eval ' + ctx.rust.ask('fen ' + fens[7])[0])})


# ------------------------------------------------------------------------------------------------
# driver: builds, audit, run, verdict
# ------------------------------------------------------------------------------------------------

CHECKS = {}

def register():
    g = globals()
    for k in list(g):
        if re.fullmatch(r'check_C\d\d', k):
            CHECKS[k[6:]] = g[k]

def finding_matches(kf, prop, failure):
    for f in kf.get('open', []):
        if f['property'] != prop: continue
        m = f.get('match', {})
        if m.get('kind') == failure['kind']:
            if 'min_plies' in m and failure.get('detail', {}).get('plies', 0) < m['min_plies']: continue
            return f
    return None

def run_property(prop, tier, seed, replay=None):
    register()
    t0 = time.time()
    if prop not in CHECKS:
        print(f'no check for {prop}'); return 2
    ctx = Ctx(prop, tier, seed)
    proof_failures = []
    checker_cmds = []
    thms = []
    model_ok = True
    with Lock():
        try:
            checker_cmds.append(cargo_build(hooks=True))
        except BuildError as e:
            # does the tree compile at all?
            try:
                cargo_build(hooks=False)
            except BuildError as e2:
                print(f'CHECK-ERROR the repository does not build: {e2}'); return 2
            proof_failures.append({'stage': e.stage, 'detail': e.detail[-1500:]})
        try:
            checker_cmds.append('tools/extract_consts.py: ' + translate_consts())
        except BuildError as e:
            proof_failures.append({'stage': e.stage, 'detail': e.detail[-1500:]})
        try:
            checker_cmds.append(lake_build(['jence-model']))
        except BuildError as e:
            model_ok = os.path.exists(MODEL_BIN)
            proof_failures.append({'stage': 'lake-model', 'detail': e.detail[-1500:]})
        obl = obligations().get(prop, {})
        try:
            if obl.get('modules'):
                checker_cmds.append(lake_build(obl['modules']))
                thms = audit(prop)
                checker_cmds.append(f'lake env lean .cache/audit_{prop}.lean  (#print axioms on {len(thms)} theorems)')
        except BuildError as e:
            proof_failures.append({'stage': e.stage, 'detail': e.detail[-1500:]})
    if prop in ('C13', 'C14', 'C18', 'C17', 'C03', 'C09', 'C05', 'C10', 'C07'):
        with Lock():
            try:
                cargo_build(hooks=False)
            except BuildError as e:
                print(f'CHECK-ERROR the repository does not build with the guard off: {e}'); return 2
    if not os.path.exists(RUST_BIN) or not model_ok:
        # nothing to run against: report what broke
        path = write_replay(prop, {'property': prop, 'broken': proof_failures, 'note': 'no driver available; no failing input could be searched for'})
        write_evidence(prop, 'thorough' if tier == 'thorough' else 'quick', seed, 'proof' if obl.get('theorems') else 'translation_validation', {'programs': 1, 'disagreements_checked': 0, 'obligations': len(obl.get('theorems', [])) + 1, 'discharged': 0, 'checker_cmd': ' ; '.join(checker_cmds) or 'n/a',
                       'trusted_base': TRUSTED, 'explanation': 'build failed', 'evaluations': 0, 'distinct_nontrivial': 0, 'samples': []}, [], time.time() - t0, 1)
        print(f'VIOLATION property={prop} replay={path} no-failing-input-found'); return 1
    ctx.rust = Driver('rust'); ctx.model = Driver('model')
    ctx.gen = Gen(seed, ctx.model)
    ctx.exhaustive = False
    try:
        if replay:
            return run_replay(ctx, replay)
        CHECKS[prop](ctx)
        if (ctx.disagreements or proof_failures) and not ctx.oracle_failures and ctx.quick:
            # the tie or a proof broke: search harder for a concrete failing input (thorough-size batch, fresh seed)
            ctx2 = Ctx(prop, 'thorough-search', seed + 1)
            ctx2.rust, ctx2.model, ctx2.gen = ctx.rust, ctx.model, Gen(seed + 1, ctx.model)
            ctx2.exhaustive = False
            ctx2.quick = True
            ctx2.deadline = time.time() + 600
            try:
                CHECKS[prop](ctx2)
            except Exception as ex:
                ctx.notes.append(f'failing-input search aborted: {ex!r}')
            ctx.oracle_failures += ctx2.oracle_failures
            ctx.evaluations += ctx2.evaluations
    finally:
        ctx.rust.close(); ctx.model.close()
    return verdict(ctx, proof_failures, thms, checker_cmds, obl, t0)


def verdict(ctx, proof_failures, thms, checker_cmds, obl, t0):
    prop = ctx.prop
    kf = known_findings()
    lines = []
    rc = 0
    unknown = []
    seen_known = set()
    for f in ctx.oracle_failures:
        k = finding_matches(kf, prop, f)
        if k:
            if k['id'] not in seen_known:
                lines.append(f"KNOWN-FINDING: property={prop} {k['id']}: {k['what']}")
                seen_known.add(k['id'])
        else:
            unknown.append(f)
    nviol = 0
    if unknown:
        f = unknown[0]
        path = write_replay(prop, {'property': prop, 'kind': f['kind'], 'input': f['input'], 'observed': f['detail'],
                                   'how_to_rerun': f'python3 check.py {prop} --replay <this file>   (or send the input to `JENCE_VERIF=driver {RUST_BIN}`)',
                                   'other_failures': [{'kind': x['kind'], 'input': x['input']} for x in unknown[1:6]], 'total_failures': len(unknown)})
        lines.append(f'VIOLATION property={prop} replay={path}')
        rc = 1; nviol = len(unknown)
    elif ctx.disagreements or proof_failures:
        path = write_replay(prop, {'property': prop, 'no_longer_checks': {
            'proof_or_build': proof_failures,
            'correspondence': ctx.disagreements[:5], 'correspondence_disagreements': len(ctx.disagreements)},
            'theorems': obl.get('theorems', []),
            'note': 'a proof obligation or the model-to-code correspondence no longer checks; the oracle search (engine vs rules specification) found no input on which the property itself fails'})
        lines.append(f'VIOLATION property={prop} replay={path} no-failing-input-found')
        rc = 1; nviol = 1
    n_obl = len(obl.get('theorems', [])) + len(ctx.corr_cmds)
    discharged = (len(thms) if not proof_failures else 0) + (len(ctx.corr_cmds) if not ctx.disagreements else 0)
    cov = {'obligations': max(n_obl, 1), 'discharged': discharged if rc == 0 else min(discharged, max(n_obl - 1, 0)),
           'checker_cmd': ' ; '.join(checker_cmds), 'trusted_base': TRUSTED + [f'{t}: axioms {a}' for t, a in thms],
           'theorems': [t for t, _ in thms], 'theorem_notes': obl.get('notes', ''),
           'correspondence_commands': ctx.corr_cmds, 'model_vs_engine_disagreements': len(ctx.disagreements),
           'engine_vs_specification_failures': len(ctx.oracle_failures),
           'evaluations': max(ctx.evaluations, 1), 'distinct_nontrivial': len(ctx.nontrivial),
           'rule': RULES.get(prop, ''), 'samples': ctx.samples or [{'note': 'no sample recorded'}], 'input_distribution': ctx.dist,
           'traces_validated_against_impl': ctx.corr_cmds.get('search', 0), 'exhaustive': bool(getattr(ctx, 'exhaustive', False)),
           'notes': ctx.notes}
    level = 'proof' if obl.get('theorems') else 'translation_validation'
    cov['programs'] = max(sum(ctx.corr_cmds.values()), 1)
    cov['disagreements_checked'] = len(ctx.disagreements)
    cov['explanation'] = ('theorems about the Lean model (kernel-checked) plus the per-run model-to-code correspondence and the rules-specification oracle' if level == 'proof'
                          else 'no theorem registered for this property yet: this run compared the executable Lean model with the engine (translation validation) and the engine with the rules specification')
    write_evidence(prop, 'thorough' if ctx.tier == 'thorough' else 'quick', ctx.seed, level, cov, ASSUME.get(prop, []) , time.time() - t0, nviol)
    for l in lines: print(l)
    print(f'{prop}: {"HELD" if rc == 0 else "VIOLATED"} evaluations={ctx.evaluations} theorems={len(thms)} corr={ctx.corr_cmds} disagreements={len(ctx.disagreements)} oracle_failures={len(ctx.oracle_failures)} wall={time.time() - t0:.1f}s')
    return rc


def run_replay(ctx, path):
    r = json.load(open(path))
    inp = r.get('input')
    print('replay input:', json.dumps(inp)[:600])
    if isinstance(inp, str):
        e = mask_time(ctx.rust.ask(inp)); m = ctx.model.ask(inp)
        print('engine:', e[:12]); print('model :', m[:12])
        print('agree' if e == m else 'DISAGREE')
    print('recorded observation:', json.dumps(r.get('observed') or r.get('no_longer_checks'))[:1500])
    return 0


RULES = {
 'C15': 'every (square, relevant-occupancy subset) pair of both slider tables with random irrelevant bits, plus all 4x64 leaper entries; a case is one table entry / getter call; exhaustive over the table domain',
 'C10': 'dense clock grid (every 7th ms in 1..3100 in quick, every ms in thorough, all boundaries, movestogo 1..100, increments around 0/100/500) and log-uniform clocks to ~10 days, both colours; distinct = distinct (branch, increment!=0, movestogo, clock) tuples',
 'C08': 'seeded store/probe/clear sequences over keys chosen to collide in slots 0, 1, size-1, size/2 and a random slot, scores within 70 of the mate thresholds, depths 0..255, plies 0..63; distinct = distinct sequences',
 'C01': 'corpus roots, positions along seeded playouts of the rules specification (special moves preferred), synthetic boards (all castling subsets, all e.p. files, promoted pieces, attacker families), and complete legal trees from corpus roots; non-trivial = in check / castling / e.p. / promotion / capture available; distinct by placement+side+castling+ep',
 'C02': 'seeded legal games from corpus roots played move by move plus every legal move of sampled positions; each step compared with the rules successor on all six FEN fields and the redundancy invariants; distinct = distinct resulting positions',
 'C04': 'as C02, plus transposition pairs, clock changes and side switches; distinct = distinct positions whose incremental and recomputed keys were compared',
 'C05': 'position commands for seeded games (startpos and FEN bases), FEN strings with all field variations, sampled 4-5 character strings over the move alphabet, a separate malformed stream; distinct = distinct final positions',
 'C14': 'published perft values, seeded positions at depth 1-3 against the rules specification, and repeated runs under 1..16 rayon threads; distinct = positions with special-move features plus thread counts',
 'C16': 'seeded legal positions, each with randomised irrelevant fields, switched side and colour mirror; distinct = distinct placements',
}
ASSUME = {p: ['positions are identified with their 64-bit keys where the engine does so', 'spec playouts reach a representative set of legal positions (distribution reported in coverage.input_distribution)'] for p in ['C01', 'C02', 'C04', 'C05', 'C14', 'C16']}


# ------------------------------------------------------------------------------------------------
# search-level checks
# ------------------------------------------------------------------------------------------------

class SearchOut:
    def __init__(self, lines):
        self.lines = lines
        self.infos = [l for l in lines if l.startswith('info ')]
        self.bestmove = next((l.split()[1] for l in lines if l.startswith('bestmove ')), None)
        self.n_bestmove = sum(1 for l in lines if l.startswith('bestmove '))
        self.evs = [l[3:] for l in lines if l.startswith('ev ')]
        self.readyok = sum(1 for l in lines if l == 'readyok')
        d = {}
        for l in lines:
            if l.startswith('result '):
                for kv in l.split()[1:]:
                    k, _, v = kv.partition('='); d[k] = v
            elif l.startswith('polls'): d['polls'] = [int(x) for x in l.split()[1:]]
            elif l.startswith('end '): d['end'] = l
            elif l.startswith('unchanged '): d['unchanged'] = l
            elif l.startswith('poststop '): d['poststop'] = int(l.split()[1])
            elif l.startswith('trace '): d['trace'] = l.split()[1]; d['events'] = int(l.split()[2])
            elif l.startswith('deferred'): d['deferred'] = l[9:]
            elif l.startswith('pending'): d['pending'] = l[8:]
        self.r = d
        self.panic = any(l.startswith('!') for l in lines)
        self.nodes = int(d.get('nodes', '0') or 0)

MODEL_NODE_LIMIT_QUICK = 40000
MODEL_NODE_LIMIT_THOROUGH = 400000

def run_search(ctx, pos, opts, model=True):
    """`search <pos> ; <opts>` on the engine, and on the model when the search is small enough to replay there"""
    cmd = f'search {pos} ; {opts}'
    r = mask_time(ctx.rust.ask(cmd))
    so = SearchOut(r)
    ctx.evaluations += 1
    ctx.count('searches')
    limit = MODEL_NODE_LIMIT_QUICK if ctx.quick else MODEL_NODE_LIMIT_THOROUGH
    if model and so.nodes <= limit:
        m = ctx.model.ask(cmd)
        ctx.corr_cmds['search'] = ctx.corr_cmds.get('search', 0) + 1
        ctx.count('searches-replayed-on-model')
        if r != m:
            first = next((i for i, (a, b) in enumerate(itertools.zip_longest(r, m)) if a != b), 0)
            ctx.disagreements.append({'command': cmd[:1500], 'first_diff_line': first, 'engine': (r[first] if first < len(r) else None)[:300] if first < len(r) else None,
                                      'model': (m[first][:300] if first < len(m) else None)})
    else:
        ctx.count('searches-engine-only')
    return so

def pos_args(base, moves):
    return ('startpos' if base == START_FEN else 'fen ' + base) + (' moves ' + ' '.join(moves) if moves else '')

def search_roots(ctx, n, small=False, nonterminal=True):
    """(base, moves, final fen) roots for searches: corpus roots and points along seeded games"""
    out = []
    games = ctx.gen.games(n * 2, maxlen=40)
    for base, moves, fens in games:
        k = ctx.gen.rng.randrange(0, len(moves) + 1) if moves else 0
        fen = fens[k - 1] if k else base
        info = legal_info(ctx, fen)
        if not info: continue
        if nonterminal and info[3] != 'no': continue
        if small and sum(c.isalpha() for c in fen.split()[0]) > 12: continue
        out.append((base, moves[:k], fen, info))
        if len(out) >= n: break
    return out

def with_halfmove(fen, h):
    p = fen.split(); p[4] = str(h); return ' '.join(p)


def check_C03(ctx):
    consts_compare(ctx, ['MAX_PLY', 'INPUT_POLL_INTERVAL', 'SQUARE_STRINGS', 'PIECE_STRINGS'])
    rng = ctx.gen.rng
    roots = search_roots(ctx, 60 if ctx.quick else 1200)
    for line in load_regressions('C03'):
        pos, _, opts = line.partition(' ; ')
        roots_extra = None
        so = run_search(ctx, pos, opts)
    def judge(pos, fen, legal, opts, so):
        if so.panic or so.n_bestmove != 1:
            ctx.oracle_fail('go-not-answered-with-one-bestmove', f'search {pos} ; {opts}', {'bestmove_lines': so.n_bestmove, 'tail': so.lines[-3:]})
        elif so.bestmove not in legal:
            ctx.oracle_fail('bestmove-not-legal', f'search {pos} ; {opts}', {'bestmove': so.bestmove, 'fen': fen, 'legal': sorted(legal)[:40]})
    for base, moves, fen, info in roots:
        legal = info[0]
        classify(ctx, fen, *info)
        pos = pos_args(base, moves)
        d = rng.choice([1, 2, 3, 3, 4])
        full = run_search(ctx, pos, f'depth={d} pollmask=31')
        judge(pos, fen, legal, f'depth={d} pollmask=31', full)
        npolls = len(full.r.get('polls', []))
        ks = list(range(min(npolls, 12))) + sorted(rng.sample(range(npolls), min(npolls, 6 if ctx.quick else 40)))
        for k in sorted(set(ks)):
            opts = f'depth={d} pollmask=31 stop={k}'
            so = run_search(ctx, pos, opts)
            ctx.count('stop-points')
            judge(pos, fen, legal, opts, so)
        for opts in [f'depth={d} maxtime=0', 'depth=-1 stop=0', 'depth=-1 stop=3 pollmask=15', f'depth={d} inject=0:quit', f'depth={d} inject=1:isready inject=2:stop pollmask=15']:
            so = run_search(ctx, pos, opts)
            judge(pos, fen, legal, opts, so)
    # the no-PV fallback on a wide stream (cheap: the search stops at its first poll): special positions included
    wide = ctx.gen.positions(400 if ctx.quick else 20000) + synthetic_positions(ctx)
    for fen in wide:
        inf = legal_info(ctx, fen)
        if not inf or inf[3] != 'no': continue
        classify(ctx, fen, *inf)
        opts = rng.choice(['depth=2 maxtime=0', 'depth=3 stop=0', 'depth=-1 inject=0:quit'])
        so = run_search(ctx, 'fen ' + fen, opts)
        ctx.count('fallback-cases')
        judge('fen ' + fen, fen, inf[0], opts, so)
    # searches that run into the ply limit (iteration 64 on sparse boards, check extensions)
    for fen, d in [('4k3/8/8/8/8/8/8/4K3 w - - 0 1', 64), ('4k3/8/8/8/8/8/8/4K3 b - - 0 1', -1), ('8/8/8/4k3/8/4K3/4P3/8 w - - 0 1', 40)] + ([('8/8/8/4k3/8/4K3/4P3/8 w - - 0 1', 62)] if not ctx.quick else []):
        inf = legal_info(ctx, fen)
        so = run_search(ctx, 'fen ' + fen, f'depth={d}', model=False)
        ctx.count('ply-limit-searches')
        judge('fen ' + fen, fen, inf[0], f'depth={d}', so)
    # every half-move-clock value 0..150 (the root drops into quiescence at exactly 100)
    hm_roots = [r for r in roots if 'K' in r[2]][: (4 if ctx.quick else 30)]
    for base, moves, fen, info in hm_roots:
        for h in (list(range(0, 151, 7)) + [98, 99, 100, 101, 149, 150] if ctx.quick else range(0, 151)):
            f2 = with_halfmove(fen, h)
            inf2 = legal_info(ctx, f2)
            if not inf2 or inf2[3] != 'no': continue
            for opts in ['depth=2', 'depth=3 stop=0', 'depth=2 stop=1 pollmask=7']:
                so = run_search(ctx, 'fen ' + f2, opts)
                ctx.count('halfmove-clock-cases')
                judge('fen ' + f2, f2, inf2[0], opts, so)
    # the real binary, real time: all go forms
    blackbox_go_forms(ctx, roots[: (6 if ctx.quick else 60)])
    # budgets of a second and more are enforced too (the answer comes when the budget is used up, not at the next input line)
    for form, budget in [('go movetime 1100', 1100), ('go wtime 40000 btime 40000', 1234), ('go wtime 0 btime 0', 0), ('go wtime 0 btime 5000 winc 0 binc 0', 0)] + ([] if ctx.quick else [('go movetime 2500', 2500), ('go wtime 100000 btime 100000 winc 1000 binc 1000', 4234)]):
        out, dt = timed_go(['position startpos moves d2d4 g8f6', form], budget / 1000.0 + 2.0)
        ctx.count('realtime-long-budget-runs'); ctx.evaluations += 1
        if out is None:
            ctx.oracle_fail('go-not-answered-when-its-budget-is-used-up', {'script': ['position startpos moves d2d4 g8f6', form]}, {'budget_ms': budget})
    ctx.sample({'input': f'search {pos_args(*roots[0][:2])} ; depth=3 pollmask=31 stop=2', 'engine': run_search(ctx, pos_args(*roots[0][:2]), 'depth=3 pollmask=31 stop=2', model=False).lines[-9:]})


def timed_go(lines, limit):
    """send the lines to the unguarded binary and wait for `bestmove` at most `limit` seconds (stdin stays open);
    returns (lines, seconds) or (None, None) when no `bestmove` came in time"""
    p = subprocess.Popen([PLAIN_BIN], stdin=subprocess.PIPE, stdout=subprocess.PIPE, stderr=subprocess.DEVNULL, text=True, bufsize=1, env=env_offline())
    got = []
    done = threading.Event()
    def rd():
        for l in p.stdout:
            got.append(l.rstrip('\n'))
            if l.startswith('bestmove'): done.set()
    th = threading.Thread(target=rd, daemon=True); th.start()
    t0 = time.time()
    for l in lines:
        p.stdin.write(l + '\n'); p.stdin.flush()
    ok = done.wait(limit)
    dt = time.time() - t0
    try:
        p.stdin.write('quit\n'); p.stdin.flush(); p.stdin.close()
    except Exception: pass
    try: p.wait(timeout=3)
    except Exception: p.kill()
    return (got, dt) if ok else (None, None)


def uci_session(lines_with_delays, timeout=20, binary=None, env=None):
    """drive the unguarded binary through pipes; items are strings (lines) or numbers (seconds to sleep).
    returns (stdout lines, returncode or None if it had to be killed)"""
    p = subprocess.Popen([binary or PLAIN_BIN], stdin=subprocess.PIPE, stdout=subprocess.PIPE, stderr=subprocess.DEVNULL, text=True, bufsize=1, env=env or env_offline())
    try:
        for it in lines_with_delays:
            if isinstance(it, (int, float)):
                time.sleep(it)
            elif it == '<EOF>':
                p.stdin.close()
            else:
                p.stdin.write(it + '\n'); p.stdin.flush()
        try:
            out, _ = p.communicate(timeout=timeout)
            return out.split('\n'), p.returncode
        except subprocess.TimeoutExpired:
            p.kill()
            out, _ = p.communicate()
            return out.split('\n'), None
    except BrokenPipeError:
        out = p.stdout.read()
        return out.split('\n'), p.poll()


def blackbox_go_forms(ctx, roots):
    rng = ctx.gen.rng
    for base, moves, fen, info in roots:
        legal = info[0]
        pos = 'position ' + pos_args(base, moves)
        forms = ['go depth 2', 'go movetime 0', 'go movetime 30', 'go wtime 1 btime 1', 'go wtime 2500 btime 2500', 'go wtime 1500 btime 1500 winc 100 binc 100',
                 'go wtime 60000 btime 60000 movestogo 1', 'go wtime 300 btime 300 winc 5000 binc 5000', 'go', 'go infinite']
        script = [pos]
        for f in forms:
            script.append(f)
            if f in ('go', 'go infinite'):
                script += [rng.choice([0, 0.001, 0.02]), 'stop']
            script += [0.25 if 'wtime 2500' not in f and 'movestogo 1' not in f else 0.4]
        script += ['quit']
        out, rc = uci_session(script, timeout=30)
        ctx.count('blackbox-go-commands', len(forms))
        best = [l.split()[1] for l in out if l.startswith('bestmove ')]
        if rc != 0 or len(best) != len(forms):
            ctx.oracle_fail('blackbox-go-not-answered', {'script': script}, {'bestmoves': best, 'rc': rc})
        for b in best:
            if b not in legal:
                ctx.oracle_fail('blackbox-bestmove-not-legal', {'script': script}, {'bestmove': b, 'fen': fen})


def succ_info(ctx, fen, cache):
    if fen in cache: return cache[fen]
    o = ctx.model.ask('oracle succ ' + fen)
    succ, nul, term = set(), None, 'no'
    for l in o:
        if l.startswith('null '): nul = l[5:]
        elif l.startswith('terminal '): term = l.split()[1]
        elif not l.startswith('!'):
            succ.add(' '.join(l.split()[1:5]))
    cache[fen] = (succ, nul, term)
    return cache[fen]


def audit_trace(ctx, cmd, so, hist_idents, cache, abs_cache):
    """C06/C07 oracle over a full trace: every node is a well-formed position reached from its parent by one legal move
    or a pass made while not in check; ply limits; repetition decisions; terminal verdicts"""
    stack = {}      # ply -> (fen of node)
    evs = so.evs
    n_nodes = 0
    for i, e in enumerate(evs):
        t = e.split(' ')
        if t[0] in ('N', 'Q'):
            n_nodes += 1
            ply = int(t[1])
            dump = e.split(' | ')[1]
            if dump in abs_cache:
                ab = abs_cache[dump]
            else:
                ab = ctx.model.ask('oracle absfen ' + dump); abs_cache[dump] = ab
            if len(ab) != 2:
                ctx.oracle_fail('search-node-unreadable', cmd, {'event': e[:200]}); return
            fen, wf = ab[0], ab[1][3:].strip()
            ident = ' '.join(fen.split()[:4])
            if wf:
                ctx.oracle_fail('search-examines-inconsistent-position', cmd, {'event_index': i, 'ply': ply, 'defects': wf, 'fen': fen}); return
            if ply > 64 or (t[0] == 'N' and ply > 63):
                ctx.oracle_fail('search-beyond-ply-limit', cmd, {'event_index': i, 'ply': ply, 'kind': t[0]}); return
            if ply > 0:
                if t[0] == 'Q' and ply in stack and stack[ply][1] == i - 1 - stack[ply][2]:
                    pass
                par = stack.get(ply - 1)
                # quiescence entered from negamax at the same ply re-examines the same position
                same = stack.get(ply)
                if t[0] == 'Q' and same is not None and same[0] == fen and same[3] == 'N' and same[4]:
                    pass
                elif par is None:
                    ctx.oracle_fail('search-node-without-parent', cmd, {'event_index': i}); return
                else:
                    succ, nul, term = succ_info(ctx, par[0], cache)
                    if ident not in succ and ident != nul:
                        ctx.oracle_fail('search-node-not-a-legal-successor', cmd, {'event_index': i, 'parent': par[0], 'child': fen}); return
                    if ident == nul and ident not in succ: ctx.count('null-move-nodes')
            stack[ply] = (fen, i, 0, t[0], True)
            for q in [k for k in stack if k > ply]: del stack[q]
            # repetition decision of this node (C07): next event tells
            if t[0] == 'N' and ply > 0:
                nxt = evs[i + 1].split(' ') if i + 1 < len(evs) else ['']
                is_rep = nxt[0] == 'rep' and int(nxt[1]) == ply
                if ident in hist_idents:
                    ctx.count('nodes-repeating-history')
                    if not is_rep:
                        ctx.oracle_fail('repetition-of-game-history-not-scored-as-draw', cmd, {'event_index': i, 'ply': ply, 'fen': fen, 'next_event': ' '.join(nxt)[:80]}); return
                elif is_rep:
                    ctx.oracle_fail('node-treated-as-repetition-without-earlier-occurrence', cmd, {'event_index': i, 'ply': ply, 'fen': fen}); return
        elif t[0] == 'verdict':
            ply = int(t[1])
            node = stack.get(ply)
            if node:
                succ, nul, term = succ_info(ctx, node[0], cache)
                ctx.count('terminal-verdicts')
                if term != t[3]:
                    ctx.oracle_fail('wrong-terminal-verdict', cmd, {'event_index': i, 'fen': node[0], 'engine': t[3], 'rules': term}); return
    ctx.count('trace-nodes-audited', n_nodes)


def check_C06(ctx):
    consts_compare(ctx, ['MAX_PLY'])
    cache, abs_cache = {}, {}
    roots = search_roots(ctx, 40 if ctx.quick else 600)
    for base, moves, fen, info in roots:
        classify(ctx, fen, *info)
        pos = pos_args(base, moves)
        spec = ctx.model.ask(f'oracle play {base} ; ' + ' '.join(moves))
        hist = {' '.join(f.split()[:4]) for f in spec}
        d = 2 if sum(c.isalpha() for c in fen.split()[0]) > 10 else 3
        so = run_search(ctx, pos, f'depth={d} trace=full')
        if len(so.evs) < 60000:
            audit_trace(ctx, f'search {pos} ; depth={d} trace=full', so, hist, cache, abs_cache)
        # larger searches, cold and warm table: digest against the model only
        so2 = run_search(ctx, pos, f'depth={d + 1} trace=digest tt=keep')
    # special roots: en-passant captures that would uncover an attack on the own king (the legality test of `make` must
    # see the board without the captured pawn), castling through blockers
    rng = random.Random(ctx.seed + 6)
    specials = [f for f in ep_pin_families() if legal_info(ctx, f)]
    specials = rng.sample(specials, min(len(specials), 12 if ctx.quick else 200))
    # a checking double push whose only answers are en-passant captures (make must judge the capture without the pawn)
    specials += list(ep_escape_positions(ctx, 4 if ctx.quick else 40))
    for fen in specials:
        ident = ' '.join(fen.split()[:4])
        so = run_search(ctx, 'fen ' + fen, 'depth=2 trace=full')
        ctx.count('special-roots')
        if len(so.evs) < 60000:
            audit_trace(ctx, f'search fen {fen} ; depth=2 trace=full', so, {ident}, cache, abs_cache)
    # very short move lists (two or three pseudo-legal moves, some of them illegal): ordering and verdicts on tiny lists
    for fen in ['7k/6Pp/7P/8/8/8/8/K7 b - - 0 1', 'k7/Pp6/P7/8/8/8/8/7K b - - 0 1', '7K/6pP/7p/8/8/8/8/k7 w - - 0 1', 'K7/pP6/p7/8/8/8/8/7k w - - 0 1',
                '7k/5K1p/7P/8/8/8/8/8 b - - 0 1', 'k7/2K5/p7/P7/8/8/8/8 b - - 0 1']:
        if not legal_info(ctx, fen): continue
        so = run_search(ctx, 'fen ' + fen, 'depth=3 trace=full')
        ctx.count('tiny-move-list-roots')
        audit_trace(ctx, f'search fen {fen} ; depth=3 trace=full', so, {' '.join(fen.split()[:4])}, cache, abs_cache)
        info = legal_info(ctx, fen)
        if info and info[3] == 'no' and (so.bestmove not in info[0]):
            ctx.oracle_fail('answer-not-legal-on-a-tiny-move-list', f'search fen {fen} ; depth=3', {'bestmove': so.bestmove, 'legal': sorted(info[0])})
    # null moves at nodes that carry an en-passant square: depth-4 traces from positions with many double pushes ahead
    for fen in ['4k3/pppppppp/8/8/8/8/PPPPPPPP/4K3 w - - 0 1', '4k3/pppppppp/8/8/8/8/PPPPPPPP/4K3 b - - 0 1', '6k1/5ppp/8/2r1r3/4p3/7P/3P1PPK/8 w - - 0 1',
                'r3k2r/pp1p1ppp/8/2p1p3/2P1P3/8/PP1P1PPP/R3K2R w KQkq - 0 1'][: (3 if ctx.quick else 4)]:
        so = run_search(ctx, 'fen ' + fen, 'depth=4 trace=full')
        ctx.count('null-move-with-ep-roots')
        if len(so.evs) < 200000:
            audit_trace(ctx, f'search fen {fen} ; depth=4 trace=full', so, {' '.join(fen.split()[:4])}, cache, abs_cache)
    # deep lines: the ply limit (sparse endgames reach ply 63 through check extensions and depth 64)
    for fen, d in [('4k3/8/8/8/8/8/8/4K3 w - - 0 1', 64), ('8/8/8/4k3/8/4K3/4P3/8 w - - 0 1', 30), ('4k3/8/8/8/8/8/8/4K3 w - - 0 1', -1)]:
        so = run_search(ctx, 'fen ' + fen, f'depth={d} trace=digest', model=False)
        ctx.count('deep-searches')
        if so.panic or so.n_bestmove != 1:
            ctx.oracle_fail('deep-search-fails', f'search fen {fen} ; depth={d}', {'tail': so.lines[-3:]})
    if not ctx.quick:
        so = run_search(ctx, 'fen 8/8/8/4k3/8/4K3/4P3/8 w - - 0 1', 'depth=62 trace=digest', model=False)
        if so.panic: ctx.oracle_fail('deep-search-fails', 'search fen 8/8/8/4k3/8/4K3/4P3/8 w - - 0 1 ; depth=62', {'tail': so.lines[-3:]})
    ctx.sample({'input': f'search {pos_args(*roots[0][:2])} ; depth=2 trace=full', 'first_events': run_search(ctx, pos_args(*roots[0][:2]), 'depth=2 trace=full', model=False).evs[:3]})


def shuffle_games(ctx, n):
    """games whose histories contain reversible shuffling, so that searches meet history positions"""
    rng = ctx.gen.rng
    bases = ['4k3/8/8/8/8/8/8/R3K2R w - - 0 1', '6k1/5ppp/8/8/8/8/5PPP/3R2K1 w - - 0 1', '1n2k1n1/8/8/8/8/8/8/1N2K1N1 w - - 0 1', START_FEN,
             'r3k2r/pppq1ppp/2n2n2/3pp3/3PP3/2N2N2/PPPQ1PPP/R3K2R w KQkq - 0 1', '3qk3/8/8/8/8/8/8/3QK3 w - - 0 1', 'k7/8/1R6/8/8/8/4PPPP/4K2R w K - 0 1',
             '8/8/8/4k3/8/8/8/R3K3 w - - 0 1', '2r3k1/pp3ppp/3p4/3P4/1q2P3/5Q2/PP3PPP/5RK1 b - - 0 20']
    out = []
    for i in range(n):
        base = bases[i % len(bases)]
        if i % 3 == 1:
            # a base given with a running half-move clock: more reversible plies "before" the game than are recorded
            base = with_halfmove(base, rng.choice([1, 3, 7, 12, 40, 77]))
        fen = base
        moves = []
        prev = []
        for step in range(rng.choice([2, 4, 6, 8, 10, 12])):
            info = legal_info(ctx, fen)
            if not info or not info[0]: break
            legal = sorted(info[0] - info[1])  or sorted(info[0])      # prefer quiet (reversible) moves
            back = None
            if len(moves) >= 2:
                last = moves[-2]
                back = last[2:4] + last[0:2]
            mv = back if back in legal and rng.random() < 0.75 else rng.choice([m for m in legal if len(m) == 4] or legal)
            o = ctx.model.ask(f'oracle play {fen} ; {mv}')
            if len(o) != 2 or o[1].startswith('!'): break
            moves.append(mv); fen = o[1]
        out.append((base, moves))
    return out


def long_shuffle_games(ctx):
    """histories of 100-250 plies of reversible moves in which the root can recreate a position that occurs only at the
    very start of the game: out (X, Y), a long shuffle of two other pieces, X back; Y back recreates the base position"""
    templates = [
        # base, X out/back, Y out/back, white shuffle, black shuffle
        ('1n5k/8/8/8/8/8/8/K1QR4 w - - 0 1', ('a1b1', 'b1a1'), ('b8a6', 'a6b8'), ('d1d2', 'd2d1'), ('h8g8', 'g8h8')),
        ('r3k3/8/8/8/8/8/8/R3K1N1 w - - 0 1', ('g1f3', 'f3g1'), ('a8a7', 'a7a8'), ('e1d1', 'd1e1'), ('e8d8', 'd8e8')),
        ('4k2r/6pp/8/8/8/8/PP6/R3K3 w - - 0 1', ('a1c1', 'c1a1'), ('h8f8', 'f8h8'), ('e1d2', 'd2e1'), ('e8d7', 'd7e8')),
    ]
    out = []
    ns = [25, 26, 33, 60] if ctx.quick else [25, 26, 27, 33, 47, 60]
    for i, n in enumerate(ns):
        base, X, Y, W, B = templates[i % len(templates)]
        moves = [X[0], Y[0]] + [W[0], B[0], W[1], B[1]] * n + [X[1]]
        out.append((base, moves))
    return out


def check_C07(ctx):
    cache, abs_cache = {}, {}
    session_corr(ctx, 24 if ctx.quick else 300)
    games = [tuple(l.split(' ; ')) for l in load_regressions('C07')]
    games = [(b, m.split()) for b, m in games] + long_shuffle_games(ctx) + shuffle_games(ctx, 36 if ctx.quick else 500)
    for base, moves in games:
        spec = ctx.model.ask(f'oracle play {base} ; ' + ' '.join(moves))
        if any(f.startswith('!') for f in spec): continue
        ctx.count('games'); ctx.count('history-plies', len(moves))
        # walk the game: search after each of the last few moves, keeping the table (warm TT holds scores for history positions)
        first = True
        for k in range(max(0, len(moves) - 4), len(moves) + 1):
            hist = {' '.join(f.split()[:4]) for f in spec[:k + 1]}
            fen = spec[k]
            info = legal_info(ctx, fen)
            if not info or info[3] != 'no': continue
            pieces = sum(c.isalpha() for c in fen.split()[0])
            d = 4 if pieces <= 6 else 3
            pos = pos_args(base, moves[:k])
            cmd_opts = f'depth={d} trace=full tt={"cold" if first else "keep"}'
            first = False
            so = run_search(ctx, pos, cmd_opts)
            ctx.nontrivial.add((base, tuple(moves[:k])))
            if len(so.evs) < 80000:
                audit_trace(ctx, f'search {pos} ; {cmd_opts}', so, hist, cache, abs_cache)
    ctx.sample({'input': f'search {pos_args(games[0][0], games[0][1])} ; depth=3 trace=full tt=keep'})


def check_C09(ctx):
    r, m = consts_compare(ctx, ['INPUT_POLL_INTERVAL', 'MAX_PLY'])
    interval = int(r.get('INPUT_POLL_INTERVAL', '16383'))
    if interval + 1 > 65536:
        ctx.oracle_fail('poll-interval-too-large', 'consts', {'INPUT_POLL_INTERVAL': interval})
    rng = ctx.gen.rng
    # cadence with the real mask, on searches large enough to have many poll points
    big = [(START_FEN, 7), ('r3k2r/p1ppqpb1/bn2pnp1/3PN3/1p2P3/2N2Q1p/PPPBBPPP/R3K2R w KQkq - 0 1', 6), ('8/2p5/3p4/KP5r/1R3p1k/8/4P1P1/8 w - - 0 1', 9),
           ('r4rk1/1pp1qppp/p1np1n2/2b1p1B1/2B1P1b1/P1NP1N2/1PP1QPPP/R4RK1 w - - 0 10', 6)]
    for fen, d in big[: (3 if ctx.quick else 4)]:
        so = run_search(ctx, 'fen ' + fen, f'depth={d}', model=False)
        polls = so.r.get('polls', [])
        ctx.count('cadence-searches'); ctx.count('real-mask-polls', len(polls))
        gaps = [b - a for a, b in zip(polls, polls[1:])]
        if not polls or polls[0] != 0 or (gaps and max(gaps) > interval + 1) or (so.nodes - polls[-1] > interval + 1):
            ctx.oracle_fail('poll-cadence', f'search fen {fen} ; depth={d}', {'first_poll_at': polls[:1], 'max_gap': max(gaps) if gaps else None, 'nodes': so.nodes, 'interval': interval})
        # stop at a real poll point in the middle
        if len(polls) > 2:
            k = rng.randrange(1, len(polls))
            so2 = run_search(ctx, 'fen ' + fen, f'depth={d} stop={k}', model=False)
            judge_stop(ctx, f'search fen {fen} ; depth={d} stop={k}', so2, None)
    # every stop point of bounded searches (dense poll points)
    roots = search_roots(ctx, 30 if ctx.quick else 400)
    for base, moves, fen, info in roots:
        classify(ctx, fen, *info)
        pos = pos_args(base, moves)
        d = rng.choice([2, 3, 3, 4])
        mask = rng.choice([7, 15, 63])
        full = run_search(ctx, pos, f'depth={d} pollmask={mask} trace=full')
        npolls = len(full.r.get('polls', []))
        ks = sorted(set(list(range(min(npolls, 10))) + (rng.sample(range(npolls), min(npolls, 8 if ctx.quick else 60)))))
        first_legal = rows(ctx.rust.ask('gen ' + fen)).get('uci', '').split()[:1]
        for k in ks:
            opts = f'depth={d} pollmask={mask} trace=full stop={k}'
            so = run_search(ctx, pos, opts)
            ctx.count('stop-points')
            ctx.nontrivial.add((fen, d, mask, k))
            judge_stop(ctx, f'search {pos} ; {opts}', so, first_legal[0] if first_legal else None)
        # deadline already passed, and a non-stop line arriving mid-search
        for opts in [f'depth={d} maxtime=0 trace=full', f'depth={d} pollmask={mask} trace=full inject=2:ucinewgame']:
            so = run_search(ctx, pos, opts)
            judge_stop(ctx, f'search {pos} ; {opts}', so, first_legal[0] if first_legal else None)
        # a deadline that is set but far away: input is still read at every poll (stop, isready) exactly as without one
        for opts in [f'depth={d} maxtime=10000000 pollmask={mask} trace=full stop={min(2, max(npolls - 1, 0))}',
                     f'depth={d} maxtime=10000000 pollmask={mask} trace=full inject=0:isready inject=1:isready inject=2:stop']:
            so = run_search(ctx, pos, opts)
            ctx.count('far-deadline-with-input')
            judge_stop(ctx, f'search {pos} ; {opts}', so, first_legal[0] if first_legal else None)
            if npolls > 3 and 'stopping=1' not in so.r.get('end', ''):
                ctx.oracle_fail('stop-ignored-while-a-deadline-is-set', f'search {pos} ; {opts}', {'end': so.r.get('end'), 'polls': len(so.r.get('polls', []))})
        # an expired deadline must be seen at the very next poll even when input lines are queued (they stay queued)
        for opts in [f'depth={d} maxtime=0 pollmask={mask} trace=full inject=0:isready inject=0:isready inject=1:isready inject=2:isready',
                     f'depth={d} maxtime=0 pollmask={mask} trace=full inject=0:isready inject=0:d inject=1:stop']:
            so = run_search(ctx, pos, opts)
            ctx.count('deadline-with-queued-input')
            judge_stop(ctx, f'search {pos} ; {opts}', so, first_legal[0] if first_legal else None)
            if len(so.r.get('polls', [])) != 1 or so.readyok != 0:
                ctx.oracle_fail('expired-deadline-not-seen-at-the-next-poll', f'search {pos} ; {opts}', {'polls': so.r.get('polls', [])[:6], 'readyok': so.readyok})
    # real time: the deadline is honoured (budget 0 and small budgets answer promptly)
    for form, limit in [('go movetime 0', 1.0), ('go movetime 50', 1.5), ('go wtime 40 btime 40', 1.0), ('go wtime 1900 btime 1900 winc 400 binc 400', 1.0)]:
        t0 = time.time()
        out, rc = uci_session(['position startpos', form, 2.5, 'quit'], timeout=10)
        ctx.count('realtime-deadline-runs')
        # find when bestmove arrived is not observable line by line here; require that it is present well before quit was sent
        if not any(l.startswith('bestmove') for l in out) or rc != 0:
            ctx.oracle_fail('deadline-not-honoured', {'script': ['position startpos', form, 'wait 2.5s', 'quit']}, {'output_tail': out[-3:], 'rc': rc})
    ctx.sample({'input': f'search {pos_args(*roots[0][:2])} ; depth=3 pollmask=15 trace=full stop=2'})


def judge_stop(ctx, cmd, so, first_legal):
    """the property on one stopped search: nothing written after the stop, bounded further work, answer = PV head at the stop"""
    if so.panic or so.n_bestmove != 1:
        ctx.oracle_fail('stopped-search-not-answered', cmd, {'tail': so.lines[-3:]}); return
    if so.r.get('poststop', 0) != 0:
        ctx.oracle_fail('pv-or-tt-written-after-stop', cmd, {'writes_after_stop': so.r.get('poststop')}); return
    if not so.evs: return
    # locate the poll at which the search was told to stop: the last poll event (polling ceases once stopping)
    stop_idx = None
    stopped = 'stopping=1' in so.r.get('end', '')
    if not stopped: return
    for i in range(len(so.evs) - 1, -1, -1):
        if so.evs[i].startswith('poll '):
            stop_idx = i; break
    if stop_idx is None: return
    after = so.evs[stop_idx + 1:]
    n_after = sum(1 for e in after if e.startswith('N '))
    if n_after > 2 * 64 + 4:
        ctx.oracle_fail('unbounded-work-after-stop', cmd, {'negamax_nodes_after_stop': n_after}); return
    if any(e.startswith('pv ') or e.startswith('ttrec ') for e in after):
        ctx.oracle_fail('pv-or-tt-written-after-stop', cmd, {'event': next(e for e in after if e.startswith('pv ') or e.startswith('ttrec '))}); return
    if any(l.startswith('info ') for l in so.lines[so.lines.index('ev ' + so.evs[stop_idx]):]):
        ctx.oracle_fail('info-line-after-stop', cmd, {}); return
    head = None
    for e in so.evs[:stop_idx]:
        if e.startswith('pv 0 '): head = e.split()[2]
    expect = hex_to_uci(head) if head else first_legal
    if expect and so.bestmove != expect:
        ctx.oracle_fail('answer-differs-from-best-move-at-stop', cmd, {'bestmove': so.bestmove, 'pv_head_when_stopped': expect})


INFO_RE = re.compile(r'^info score (cp -?\d+|mate -?\d+) depth (\d+) nodes (\d+) time (\d+) pv((?: [a-h][1-8][a-h][1-8][qrbn]?)*) $')

def check_info_lines(ctx, cmd, fen, so):
    last_d, last_n = 0, 0
    for l in so.infos:
        m = INFO_RE.match(l)
        if not m:
            ctx.oracle_fail('info-line-malformed', cmd, {'line': l}); return
        d, n = int(m.group(2)), int(m.group(3))
        if d <= last_d or n < last_n:
            ctx.oracle_fail('info-depth-or-nodes-not-monotone', cmd, {'line': l, 'previous_depth': last_d, 'previous_nodes': last_n}); return
        last_d, last_n = d, n
        pv = m.group(5).split()
        o = ctx.model.ask(f'oracle line {fen} ; ' + ' '.join(pv))
        ctx.count('info-lines'); ctx.count('pv-moves', len(pv))
        if not o or not o[0].startswith('legal'):
            ctx.oracle_fail('pv-not-a-legal-line', cmd, {'line': l, 'fen': fen}); return
        # C11: mate announcements
        sc = m.group(1)
        if sc.startswith('mate'):
            N = int(sc.split()[1])
            ctx.count('mate-scores')
            if o[0] == 'legal mate':
                want = 2 * N - 1 if N > 0 else 2 * (-N)
                if len(pv) != want:
                    ctx.oracle_fail('mate-distance-differs-from-pv-length', cmd, {'line': l, 'pv_plies': len(pv), 'expected_plies': want, 'fen': fen}); return


def check_C12(ctx):
    roots = search_roots(ctx, 50 if ctx.quick else 800)
    for base, moves, fen, info in roots:
        classify(ctx, fen, *info)
        pos = pos_args(base, moves)
        d = 4 if sum(c.isalpha() for c in fen.split()[0]) <= 16 else 3
        for opts in [f'depth={d}', f'depth={d + 1} tt=keep', f'depth={d} tt=keep']:
            so = run_search(ctx, pos, opts)
            ctx.nontrivial.add((fen, opts))
            check_info_lines(ctx, f'search {pos} ; {opts}', fen, so)
    # the half-move clock reaches 100 inside the tree (clock 95-99 at the root): nodes that go straight to the capture search
    for i, (base, moves, fen, info) in enumerate(roots[: (24 if ctx.quick else 400)]):
        f2 = with_halfmove(fen, 95 + i % 5)
        d = 4 if sum(c.isalpha() for c in fen.split()[0]) <= 16 else 3
        for opts in [f'depth={d}', f'depth={d + 1} tt=keep']:
            so = run_search(ctx, 'fen ' + f2, opts)
            ctx.count('clock-near-100-searches')
            ctx.nontrivial.add((f2, opts))
            check_info_lines(ctx, f'search fen {f2} ; {opts}', f2, so)
    # histories with shuffling, warm tables along a game (stale PV tails behind draws and TT cut-offs)
    for base, moves in shuffle_games(ctx, 16 if ctx.quick else 300):
        spec = ctx.model.ask(f'oracle play {base} ; ' + ' '.join(moves))
        if any(f.startswith('!') for f in spec): continue
        first = True
        for k in range(max(0, len(moves) - 3), len(moves) + 1):
            fen = spec[k]
            info = legal_info(ctx, fen)
            if not info or info[3] != 'no': continue
            pos = pos_args(base, moves[:k])
            d = 5 if sum(c.isalpha() for c in fen.split()[0]) <= 6 else 4
            opts = f'depth={d} tt={"cold" if first else "keep"}'
            first = False
            so = run_search(ctx, pos, opts)
            ctx.count('history-searches')
            check_info_lines(ctx, f'search {pos} ; {opts}', fen, so)
    # a longer game with the table kept throughout (self-play)
    for base in [START_FEN, 'r3k2r/p1ppqpb1/bn2pnp1/3PN3/1p2P3/2N2Q1p/PPPBBPPP/R3K2R w KQkq - 0 1'][: (1 if ctx.quick else 2)]:
        moves = []
        fen = base
        for ply in range(10 if ctx.quick else 60):
            so = run_search(ctx, pos_args(base, moves), f'depth=4 tt={"cold" if ply == 0 else "keep"}')
            check_info_lines(ctx, f'search {pos_args(base, moves)} ; depth=4 tt=keep (self-play ply {ply})', fen, so)
            if not so.bestmove: break
            o = ctx.model.ask(f'oracle play {fen} ; {so.bestmove}')
            if len(o) != 2 or o[1].startswith('!'): break
            moves.append(so.bestmove); fen = o[1]
            if legal_info(ctx, fen)[3] != 'no': break
    ctx.sample({'input': f'search {pos_args(*roots[0][:2])} ; depth=3', 'info': run_search(ctx, pos_args(*roots[0][:2]), 'depth=3', model=False).infos[:3]})


def mate_positions(ctx, n):
    """positions with a forced mate in 1-2 for either side, found with the rules' exhaustive search"""
    rng = ctx.gen.rng
    seeds = ['1k6/8/1K6/8/8/8/8/7R w - - 0 1', 'k7/8/1K6/8/8/8/8/7R b - - 0 1', '7r/8/8/8/8/1k6/8/1K6 b - - 0 1', '6k1/8/6K1/8/8/8/8/R7 w - - 0 1',
             'r7/8/8/8/8/6k1/8/6K1 b - - 0 1', '6k1/5ppp/8/8/8/8/5PPP/3R2K1 w - - 0 1', '6rk/6pp/7N/8/8/8/8/6K1 w - - 0 1', '3qk3/8/8/8/8/8/8/3QK3 w - - 0 1',
             '8/8/8/4k3/8/8/8/R3K3 w - - 0 1', '4k3/8/4K3/8/8/8/8/7Q w - - 0 1', '7k/5Q2/5K2/8/8/8/8/8 w - - 0 1', 'kb6/p7/8/5p2/4P3/8/8/5BK1 w - - 0 1',
             'rnbqkbnr/pppp1ppp/8/4p3/6P1/5P2/PPPPP2P/RNBQKBNR b KQkq - 0 2', 'r1bqkb1r/pppp1ppp/2n2n2/4p2Q/2B1P3/8/PPPP1PPP/RNB1K1NR w KQkq - 4 4',
             '6k1/5ppp/8/8/8/8/r4PPP/1R4K1 w - - 0 1', '5rk1/5ppp/8/8/8/8/5PPP/R5K1 b - - 0 1', '8/8/8/8/8/5k2/7q/7K w - - 0 1', '8/8/8/8/8/6k1/4q3/7K b - - 0 1',
             '2kr4/ppp5/8/8/8/8/5PPP/3R2K1 w - - 0 1', 'k7/2Q5/1K6/8/8/8/8/8 b - - 0 1', 'k7/8/KQ6/8/8/8/8/8 w - - 0 1', '8/8/8/8/8/k1K5/8/1R6 w - - 0 1']
    out = {}
    pool = list(seeds)
    tries = 0
    while len(out) < n and tries < 40 * n:
        tries += 1
        base = rng.choice(seeds)
        mv, fens = ctx.gen.playout(base, rng.choice([0, 1, 2, 3, 4, 6]), rng.choice([0, 4, 7]))
        cand = [base] + fens
        fen = rng.choice(cand)
        if fen in out: continue
        if sum(c.isalpha() for c in fen.split()[0]) > 9: continue
        o = ctx.model.ask(f'oracle mate {fen} ; 2')
        if len(o) < 3 or o[2] != 'terminal no': continue
        mi = o[0]; mw = o[1]
        kind = None
        if '[1' in mi: kind = 'mate-in-1'
        elif mi.endswith('1]'): kind = 'mate-in-2'
        elif '[1' in mw: kind = 'mated-in-1'
        elif mw.endswith('1]'): kind = 'mated-in-2'
        elif sum(c.isalpha() for c in fen.split()[0]) <= 5 and len(out) % 4 == 0:
            o3 = ctx.model.ask(f'oracle mate {fen} ; 3')
            if len(o3) >= 2 and o3[0].endswith('1]'): kind = 'mate-in-3'
        if kind: out[fen] = kind
    return out


def max_mate_n(fen):
    """how far the rules' exhaustive mate search is affordable"""
    return 3 if sum(c.isalpha() for c in fen.split()[0]) <= 5 else 2

def small_endgames(ctx, n):
    """random K+R / K+Q / K+R+R vs K placements with a forced mate in exactly 3 (rules' exhaustive search)"""
    rng = ctx.gen.rng
    out = {}
    tries = 0
    while len(out) < n and tries < 25 * n:
        tries += 1
        pieces = rng.choice(['KRk', 'KQk', 'KRRk', 'kqK', 'krK'])
        sqs = rng.sample(range(64), len(pieces))
        b = ['1'] * 64
        for pc, s in zip(pieces, sqs): b[s] = pc
        white_strong = pieces[0] == 'K' and pieces[-1] == 'k'
        fen = board_to_rows(b) + (' w' if white_strong else ' b') + ' - - 0 1'
        o = ctx.model.ask('fen ' + fen)
        if not o or o[0].startswith('!'): continue
        w = ctx.model.ask('oracle absfen ' + o[0])
        if len(w) != 2 or w[1].strip() != 'wf': continue
        m = ctx.model.ask(f'oracle mate {fen} ; 3')
        if len(m) >= 3 and m[2] == 'terminal no' and m[0] == 'mateIn [0, 0, 1]':
            out[fen] = 'mate-in-3'
    return out

def heavy_mate_positions(ctx, n):
    """mate in one among many moves: two queens and two rooks (sometimes a minor piece) against king and pawns, more than
    40 legal moves, for either colour (late quiet moves are where reductions bite)"""
    rng = random.Random(ctx.seed + 401)
    out = {}
    tries = 0
    while len(out) < n and tries < 60 * n:
        tries += 1
        pieces = list(rng.choice(['KQQRRk', 'KQQRRkp', 'KQQRRBkpp', 'KQRRNkp', 'KQQRkpp']))
        sqs = rng.sample(range(64), len(pieces))
        b = ['1'] * 64
        ok = True
        for pc, sq in zip(pieces, sqs):
            if pc == 'p' and (sq < 8 or sq >= 56): ok = False
            b[sq] = pc
        if not ok: continue
        fen = board_to_rows(b) + ' w - - 0 1'
        if rng.random() < 0.5: fen = color_mirror_fen(fen)
        w = ctx.model.ask('oracle wf ' + fen + ' ; ')
        if not w or not w[0].startswith('wf 1 nk 1'): continue
        info = legal_info(ctx, fen)
        if not info or info[3] != 'no' or len(info[0]) <= 40: continue
        m = ctx.model.ask(f'oracle mate {fen} ; 1')
        if len(m) >= 3 and m[0] == 'mateIn [1]':
            out[fen] = 'mate-in-1'
    return out


def ep_escape_positions(ctx, n):
    """a double pawn push gives check and the only legal replies are en-passant captures of that pawn: an engine whose
    make-move judges the capture with the captured pawn still in place sees no reply and announces a mate that is none.
    Yields the root (mover has the push; kind 'ep-escape-root') and the child (in check, e.p. only; 'ep-escape-child')."""
    rng = random.Random(ctx.seed + 613)
    out = {}
    tries = 0
    while len(out) < 2 * n and tries < 400 * n:
        tries += 1
        f = rng.randrange(8)
        g = rng.choice([x for x in (f - 1, f + 1) if 0 <= x < 8])
        k = rng.choice([x for x in (f - 1, f + 1) if 0 <= x < 8])
        b = ['1'] * 64
        b[48 + f] = 'P'; b[32 + g] = 'p'; b[24 + k] = 'k'
        free = [q for q in range(64) if b[q] == '1' and q not in (40 + f, 32 + f)]
        pieces = list(rng.choice(['KQR', 'KRRN', 'KQB', 'KQRN', 'KRRB', 'KQQ', 'KRBN', 'KQRp', 'KRRNp']))
        sqs = rng.sample(free, len(pieces))
        ok = True
        for pc, sq in zip(pieces, sqs):
            if pc in 'pP' and (sq < 8 or sq >= 56): ok = False
            b[sq] = pc
        if not ok: continue
        root = board_to_rows(b) + ' w - - 0 1'
        w = ctx.model.ask('oracle wf ' + root + ' ; ')
        if not w or not w[0].startswith('wf 1 nk 1'): continue
        c = list(b); c[48 + f] = '1'; c[32 + f] = 'P'
        epsq = 'abcdefgh'[f] + '3'
        child = board_to_rows(c) + f' b - {epsq} 0 1'
        info = legal_info(ctx, child)
        if not info or not info[2] or not info[0]: continue
        if not all(mv.endswith(epsq) and mv[1] == '4' and mv[0] != epsq[0] for mv in info[0]): continue
        ri = legal_info(ctx, root)
        if not ri or ri[3] != 'no': continue
        # the push must be a legal move of the root (the pawn may be pinned, or the mover in check), else the child is not
        # a legal position and the property says nothing about it
        if 'abcdefgh'[f] + '2' + 'abcdefgh'[f] + '4' not in ri[0]: continue
        wc = ctx.model.ask('oracle wf ' + child + ' ; ')
        if not wc or not wc[0].startswith('wf 1 nk 1'): continue
        if rng.random() < 0.5:
            root, child = color_mirror_fen(root), color_mirror_fen(child)
        out[root] = 'ep-escape-root'
        out[child] = 'ep-escape-child'
    return out


def check_C11(ctx):
    consts_compare(ctx, ['MATE_VALUE', 'MATE_BOUND', 'INFINITY', 'MAX_PLY'])
    mp = mate_positions(ctx, 70 if ctx.quick else 400)
    mp.update(small_endgames(ctx, 12 if ctx.quick else 60))
    mp.update(heavy_mate_positions(ctx, 10 if ctx.quick else 80))
    mp.update(ep_escape_positions(ctx, 8 if ctx.quick else 60))
    for line in load_regressions('C11'):
        mp[line] = 'regression'
    for fen, kind in mp.items():
        ctx.count(kind)
        # the forced-mate predicates of T11.2 / T11.3 (MatesIn / MatedIn over the model's generate / make, decided by
        # matesInB / matedInB) against the exhaustive mate search of the rules specification
        n = max_mate_n(fen)
        fm = rows(ctx.model.ask(f'oracle forced {fen} ; {n}'))
        om = rows(ctx.model.ask(f'oracle mate {fen} ; {n}'))
        ctx.count('forced-mate-predicate-comparisons')
        if 'matesIn' not in fm or 'mateIn' not in om:
            ctx.oracle_fail('forced-mate-predicate-no-answer', f'oracle forced {fen} ; {n}', {'model': fm, 'rules': om})
        else:
            mated = fm.get('mated') == '1'
            ok = fm['matesIn'] == om['mateIn'] and mated == (om.get('terminal') == 'mate')
            if not mated:
                ok = ok and fm['matedIn'] == om['matedWithin']
            if '1' in fm['matesIn'] or '1' in fm['matedIn']: ctx.count('forced-mate-predicate-true')
            if not ok:
                ctx.oracle_fail('forced-mate-predicate-differs-from-rules', f'oracle forced {fen} ; {n}', {'model': fm, 'rules': om})
        for d in ([3, 5] if ctx.quick else [3, 4, 5, 6]):
            cmd = f'search fen {fen} ; depth={d}'
            so = run_search(ctx, 'fen ' + fen, f'depth={d}')
            ctx.nontrivial.add((fen, d))
            check_info_lines(ctx, cmd, fen, so)
            if not so.infos: continue
            last = INFO_RE.match(so.infos[-1])
            if not last: continue
            sc = last.group(1)
            if kind == 'mate-in-1':
                o = ctx.model.ask(f'oracle line {fen} ; {so.bestmove}')
                if sc != 'mate 1' or o != ['legal mate']:
                    ctx.oracle_fail('mate-in-one-not-announced-or-not-played', cmd, {'last_info': so.infos[-1], 'bestmove': so.bestmove, 'fen': fen})
            for l in so.infos:
                m = INFO_RE.match(l)
                if not m or not m.group(1).startswith('mate'): continue
                N = int(m.group(1).split()[1])
                if N == 0:
                    ri = legal_info(ctx, fen)
                    if ri and ri[0]:
                        ctx.oracle_fail('mate-announcement-untrue', cmd, {'line': l, 'fen': fen, 'rules': 'mate 0 announced, but the position has legal moves'})
                if N != 0 and abs(N) <= max_mate_n(fen):
                    o = ctx.model.ask(f'oracle mate {fen} ; {abs(N)}')
                    ok = (o[0].endswith('1]') if N > 0 else o[1].endswith('1]')) if len(o) >= 2 else False
                    if not ok:
                        ctx.oracle_fail('mate-announcement-untrue', cmd, {'line': l, 'fen': fen, 'rules': o[:2]})
    # deeper searches on the small endgames (mate scores travel through the table with different depths and plies)
    deep = [f for f, k in mp.items() if k == 'mate-in-3' and sum(c.isalpha() for c in f.split()[0]) <= 5][: (10 if ctx.quick else 40)]
    for fen in deep:
        for d in (7, 8):
            cmd = f'search fen {fen} ; depth={d}'
            so = run_search(ctx, 'fen ' + fen, f'depth={d}', model=False)
            ctx.count('deep-mate-searches')
            check_info_lines(ctx, cmd, fen, so)
            for l in so.infos:
                m = INFO_RE.match(l)
                if not m or not m.group(1).startswith('mate'): continue
                N = int(m.group(1).split()[1])
                if N != 0 and abs(N) <= 3:
                    o = ctx.model.ask(f'oracle mate {fen} ; {abs(N)}')
                    ok = (o[0].endswith('1]') if N > 0 else o[1].endswith('1]')) if len(o) >= 2 else False
                    if not ok:
                        ctx.oracle_fail('mate-announcement-untrue', cmd, {'line': l, 'fen': fen, 'rules': o[:2]})
    # attacking positions with many pieces (mates of three and more moves are common there): every `mate N` with |N| <= 2
    # that the engine announces at depth 5 / 6 must exist by the rules' exhaustive search
    rng2 = random.Random(ctx.seed + 977)
    n_att = 0
    tries = 0
    while n_att < (40 if ctx.quick else 500) and tries < 4000:
        tries += 1
        pieces = list(rng2.choice(['KQRkpp', 'KQRRkrp', 'KQQkqp', 'KQRBkrpp', 'KQRNkbpp', 'KRRBkpp', 'KQRkrnpp', 'KQBNkrp']))
        sqs = rng2.sample(range(64), len(pieces))
        b = ['1'] * 64
        bad = False
        for pc, sq in zip(pieces, sqs):
            if pc == 'p' and (sq < 8 or sq >= 56): bad = True
            b[sq] = pc
        if bad: continue
        fen = board_to_rows(b) + ' w - - 0 1'
        if rng2.random() < 0.5: fen = color_mirror_fen(fen)
        w = ctx.model.ask('oracle wf ' + fen + ' ; ')
        if not w or not w[0].startswith('wf 1 nk 1'): continue
        info = legal_info(ctx, fen)
        if not info or info[3] != 'no': continue
        n_att += 1
        for d in (5, 6):
            cmd = f'search fen {fen} ; depth={d}'
            so = run_search(ctx, 'fen ' + fen, f'depth={d}', model=False)
            ctx.count('attack-position-searches')
            for l in so.infos:
                m = INFO_RE.match(l)
                if not m or not m.group(1).startswith('mate'): continue
                N = int(m.group(1).split()[1])
                ctx.count('attack-position-mate-claims')
                if N != 0 and abs(N) <= 2:
                    o = ctx.model.ask(f'oracle mate {fen} ; {abs(N)}')
                    ok = (o[0].endswith('1]') if N > 0 else o[1].endswith('1]')) if len(o) >= 2 else False
                    if not ok:
                        ctx.oracle_fail('mate-announcement-untrue', cmd, {'line': l, 'fen': fen, 'rules': o[:2]})
    # warm table along a short game: mate scores re-based through the table keep their meaning
    warm = [x for x in mp.items() if x[1] == 'mate-in-3'] + [x for x in mp.items() if x[1] in ('mate-in-2', 'mated-in-2')][: (10 if ctx.quick else 300)]
    for fen, kind in warm:
        so = run_search(ctx, 'fen ' + fen, 'depth=5 tt=cold')
        if not so.bestmove: continue
        o = ctx.model.ask(f'oracle play {fen} ; {so.bestmove}')
        if len(o) != 2 or o[1].startswith('!'): continue
        f2 = o[1]
        if legal_info(ctx, f2)[3] != 'no': continue
        for f, opts in [(f2, 'depth=5 tt=keep'), (fen, 'depth=5 tt=keep'), (f2, 'depth=6 tt=keep'), (fen, 'depth=6 tt=keep')]:
            cmd = f'search fen {f} ; {opts}'
            so2 = run_search(ctx, 'fen ' + f, opts)
            ctx.count('warm-table-mate-searches')
            check_info_lines(ctx, cmd, f, so2)
            for l in so2.infos:
                m = INFO_RE.match(l)
                if m and m.group(1).startswith('mate'):
                    N = int(m.group(1).split()[1])
                    if 0 < abs(N) <= max_mate_n(f):
                        oo = ctx.model.ask(f'oracle mate {f} ; {abs(N)}')
                        ok = (oo[0].endswith('1]') if N > 0 else oo[1].endswith('1]')) if len(oo) >= 2 else False
                        if not ok:
                            ctx.oracle_fail('mate-announcement-untrue', cmd + ' (after a previous search, table kept)', {'line': l, 'fen': f, 'rules': oo[:2]})
    ctx.sample({'input': 'search fen k7/8/1K6/8/8/8/8/7R b - - 0 1 ; depth=5', 'info': run_search(ctx, 'fen k7/8/1K6/8/8/8/8/7R b - - 0 1', 'depth=5', model=False).infos[-1:]})


def check_C17(ctx):
    rng = ctx.gen.rng
    session_corr(ctx, 12 if ctx.quick else 200)
    roots = search_roots(ctx, 40 if ctx.quick else 600, nonterminal=False)
    for base, moves, fen, info in roots:
        classify(ctx, fen, *info)
        pos = pos_args(base, moves)
        want_idx = len(moves) + 1
        d = rng.choice([1, 2, 3, 4])
        full = run_search(ctx, pos, f'depth={d} pollmask=15')
        npolls = len(full.r.get('polls', []))
        variants = [f'depth={d} pollmask=15'] + [f'depth={d} pollmask=15 stop={k}' for k in sorted(set(list(range(min(6, npolls))) + rng.sample(range(npolls), min(npolls, 5 if ctx.quick else 40))))]
        variants += [f'depth={d} maxtime=0', f'depth={d} inject=1:isready inject=3:position_startpos pollmask=7', 'depth=-1 stop=5 pollmask=31']
        for opts in variants:
            so = run_search(ctx, pos, opts) if opts != variants[0] else full
            ctx.count('searches-checked'); ctx.nontrivial.add((fen, opts))
            if so.panic: 
                ctx.oracle_fail('search-panicked', f'search {pos} ; {opts}', {'tail': so.lines[-3:]}); continue
            if so.r.get('unchanged') != 'unchanged game=1 rep=1' or not so.r.get('end', '').startswith(f'end ply=0 repidx={want_idx} '):
                ctx.oracle_fail('search-changed-position-history-or-bookkeeping', f'search {pos} ; {opts}', {'end': so.r.get('end'), 'unchanged': so.r.get('unchanged'), 'expected_history_length': want_idx})
    # black box: `d` shows the same position, and the same search answers the same, after go / perft / eval / isready
    for base, moves, fen, info in roots[: (8 if ctx.quick else 100)]:
        pos = 'position ' + pos_args(base, moves)
        inter = rng.choice([['go depth 3', 0.4], ['go movetime 0', 0.2], ['go infinite', 0.05, 'stop', 0.2], ['perft 2', 0.3], ['eval'], ['isready'], ['go wtime 1 btime 1', 0.2]])
        script = [pos, 'd', 'go depth 2', 0.3] + inter + ['d', 'go depth 2', 0.3, 'quit']
        out, rc = uci_session(script, timeout=20)
        ctx.count('blackbox-sessions')
        boards = split_boards(out)
        g2 = [i for i, l in enumerate(out) if l.startswith('info ') and ' depth 2 ' in l or l.startswith('info ') and ' depth 1 ' in l]
        if rc != 0 or len(boards) != 2 or boards[0] != boards[1]:
            ctx.oracle_fail('display-changed-by-inspection-command', {'script': script}, {'rc': rc, 'boards': len(boards)})
    ctx.sample({'input': f'search {pos_args(*roots[0][:2])} ; depth=3 pollmask=15 stop=1', 'engine': run_search(ctx, pos_args(*roots[0][:2]), 'depth=3 pollmask=15 stop=1', model=False).lines[-6:]})


def split_boards(out):
    boards, cur = [], None
    for l in out:
        if '┌────' in l: cur = []
        if cur is not None: cur.append(l)
        if cur is not None and 'Zobrist' in l:
            boards.append(cur); cur = None
    return boards


def strip_time(lines):
    return [re.sub(r' time \d+', ' time 0', l) for l in lines if l.strip()]


def newgame_sessions(ctx):
    """`ucinewgame` / `cleartt` in states the usual scripts rarely reach: before any `position` command was ever sent,
    twice in a row, right after a stopped search; the search that follows must print what a fresh process prints"""
    scripts = [(['go depth 4', 'ucinewgame'], ['go depth 4']), (['go depth 3', 'cleartt'], ['go depth 5']),
               (['isready', 'go depth 5', 'UciNewGame'], ['go depth 4']), (['go depth 4', 'ucinewgame', 'ucinewgame'], ['go depth 3']),
               (['go movetime 0', 'go depth 4', 'ucinewgame'], ['go depth 4']),
               (['position startpos moves e2e4', 'go depth 4', 'ucinewgame'], ['position startpos moves e2e4', 'go depth 4']),
               (['go depth 4', 'position startpos moves e2e4', 'ucinewgame'], ['position startpos moves e2e4', 'go depth 4'])]
    for pre, tail in scripts:
        lines = pre + tail + ['quit']
        out, rc = bb_session(lines, model=ctx.model)
        fresh, rc2 = bb_session(tail + ['quit'], model=ctx.model)
        keep = lambda ls: [re.sub(r' time \d+', ' time 0', l) for l in ls if l.startswith('info ') or l.startswith('bestmove')]
        f = keep(fresh); g = keep(out)[-len(f):] if f else []
        m = ctx.model.ask('session ' + ' | '.join(lines))
        ctx.count('newgame-sessions'); ctx.evaluations += 1
        ctx.corr_cmds['session'] = ctx.corr_cmds.get('session', 0) + 1
        if [re.sub(r' time \d+', ' time 0', l) for l in out] != m[:-1]:
            ctx.disagreements.append({'command': 'session ' + ' | '.join(lines), 'first_diff_line': None, 'engine': out[-2:], 'model': m[-3:-1]})
        if not f or g != f or rc != 0:
            ctx.oracle_fail('search-after-ucinewgame-differs-from-fresh-process', {'script': lines, 'fresh_script': tail}, {'session': g[-2:], 'fresh': f[-2:], 'rc': rc})


def check_C18(ctx):
    rng = ctx.gen.rng
    session_corr(ctx, 12 if ctx.quick else 200)
    newgame_sessions(ctx)
    tt_clear_cycles(ctx, 2097152)
    roots = search_roots(ctx, 30 if ctx.quick else 400)
    # in-process: the same search from the same state twice; the model is a function of (position, history, table)
    for base, moves, fen, info in roots:
        classify(ctx, fen, *info)
        pos = pos_args(base, moves)
        d = rng.choice([3, 4, 5]) if sum(c.isalpha() for c in fen.split()[0]) <= 14 else rng.choice([3, 4])
        a = run_search(ctx, pos, f'depth={d} trace=digest')
        b = run_search(ctx, pos, f'depth={d} trace=digest')
        ctx.nontrivial.add((fen, d))
        if a.lines != b.lines:
            ctx.oracle_fail('same-search-different-result', f'search {pos} ; depth={d} (twice, cold table)', {'first': a.lines[-8:-6], 'second': b.lines[-8:-6]})
        # warm: a different search in between, then the pair again with the table kept -> compared with the model only
        run_search(ctx, pos, f'depth={max(1, d - 1)} tt=keep')
        run_search(ctx, pos, f'depth={d} tt=keep trace=digest')
    # black box: whatever came before, `ucinewgame` + position + go depth d answers like a fresh process
    for i, (base, moves, fen, info) in enumerate(roots[: (10 if ctx.quick else 150)]):
        pos = 'position ' + pos_args(base, moves)
        d = rng.choice([3, 4, 5])
        fresh, rc0 = uci_session([pos, f'go depth {d}', 1.0, 'quit'], timeout=30)
        other = roots[(i + 1) % len(roots)]
        pre_choices = [
            [f'position {pos_args(other[0], other[1])}', 'go depth 5', 0.6],
            [pos, 'go depth 6', 0.8],
            [pos, 'go infinite', 0.15, 'stop', 0.2],
            [pos, 'go movetime 40', 0.3, 'go wtime 50 btime 50', 0.3],
            [pos, 'go infinite', 0.1, 'isready', 0.05, 'stop', 0.2, f'position {pos_args(other[0], other[1])}', 'go depth 4', 0.5],
            ['position startpos moves e2e4 e7e6 c2c4 d8f6', 'go depth 7', 1.2],
        ]
        prefix = rng.choice(pre_choices)
        if i % 3 == 2:
            # the search is interrupted by `ucinewgame` itself: the whole burst arrives while searching
            prefix = [pos, 'go infinite', 0.2]
        # the three lines are written in one burst so that they reach the input channel together
        out, rc = uci_session(prefix + [f'ucinewgame\n{pos}\ngo depth {d}', 1.0, 'quit'], timeout=40)
        ctx.count('blackbox-ucinewgame-sessions')
        # the last search's transcript
        def last_search(lines):
            lines = strip_time(lines)
            idx = [i for i, l in enumerate(lines) if l.startswith('bestmove')]
            if not idx: return None
            end = idx[-1]
            start = idx[-2] + 1 if len(idx) > 1 else 0
            return [l for l in lines[start:end + 1] if l.startswith('info') or l.startswith('bestmove')]
        a, b = last_search(fresh), last_search(out)
        if rc0 != 0 or rc != 0 or a is None or a != b:
            ctx.oracle_fail('ucinewgame-not-like-fresh-process', {'prefix': prefix, 'then': ['ucinewgame', pos, f'go depth {d}']}, {'fresh': (a or [])[-2:], 'after_ucinewgame': (b or [])[-2:], 'rc': [rc0, rc]})
    # the transposition table really is emptied: every slot, including the first and the last
    r = rows(ctx.rust.ask('consts'))
    size = int(r.get('TT_SIZE', '2097152'))
    for slot in [0, 1, size - 1, size - 2, size // 2] + [rng.randrange(size) for _ in range(20)]:
        key = slot + size * rng.randrange(1, 1000)
        o = ctx.corr(f'tt c ; r {key:x} 5 9 E 0 ; c ; p {key:x} 0 -10 10 0')
        ctx.count('clear-slots-probed')
        if o != [str(UNKNOWN)]:
            ctx.oracle_fail('entry-survives-clear', f'tt c ; r {key:x} 5 9 E 0 ; c ; p {key:x} 0 -10 10 0', {'answer': o, 'slot': slot})
    ctx.sample({'input': f'search {pos_args(*roots[0][:2])} ; depth=4 trace=digest (twice)'})


def promo_check_families():
    """the side to move is in check from a rook on its promotion row and can answer by capturing it with a pawn that
    promotes (all four promotions are distinct answers, some of them stalemate or lose the piece): both colours, every
    file, both capture directions, several enemy-king squares"""
    out = []
    for white in (True, False):
        for f in range(1, 7):
            for df in (-1, 1):
                for bk in (8, 15, 23, 16, 48, 55):
                    b = ['1'] * 64
                    rook_sq = f                      # row 0 (rank 8)
                    king_sq = 16 + f                 # row 2 (rank 6), same file: in check
                    pawn_sq = 8 + f + df             # row 1 (rank 7)
                    if bk in (rook_sq, king_sq, pawn_sq) or abs(bk % 8 - f) <= 1 and bk // 8 <= 3: continue
                    b[rook_sq], b[king_sq], b[pawn_sq], b[bk] = 'r', 'K', 'P', 'k'
                    if not white:
                        b = [c.swapcase() if c != '1' else c for c in b]
                        b = [b[(7 - i // 8) * 8 + i % 8] for i in range(64)]
                    out.append(board_to_rows(b) + (' w' if white else ' b') + ' - - 0 1')
    return out


def big_swing_positions(ctx, n):
    """random boards with pawns of the mover on the 7th rank next to capturable pieces and heavy pieces en prise: capture
    sequences that win far more than a queen (what a margin-based pruning of the capture search would cut off)"""
    rng = random.Random(ctx.seed + 191)
    out = []
    tries = 0
    while len(out) < n and tries < 40 * n:
        tries += 1
        b = ['1'] * 64
        def put(pc, lo=0, hi=64):
            for _ in range(20):
                sq = rng.randrange(lo, hi)
                if b[sq] == '1':
                    b[sq] = pc; return sq
            return None
        put('K', 16, 64); put('k', 0, 64)
        for _ in range(rng.choice([1, 2, 3])): put('P', 8, 16)
        for pc in rng.sample(['n', 'r', 'b', 'q', 'r', 'n'], rng.choice([2, 3, 4])): put(pc, 0, 8)
        for pc in rng.sample(['q', 'r', 'b', 'p', 'p', 'q'], rng.choice([2, 3, 4])): put(pc, 8, 64) if pc != 'p' else put(pc, 16, 56)
        for pc in rng.sample(['R', 'B', 'Q', 'P', 'N'], rng.choice([1, 2, 3])): put(pc, 16, 64) if pc != 'P' else put(pc, 16, 48)
        fen = board_to_rows(b) + ' w - - 0 1'
        if rng.random() < 0.5: fen = color_mirror_fen(fen)
        w = ctx.model.ask('oracle wf ' + fen + ' ; ')
        if not w or not w[0].startswith('wf 1 nk 1'): continue
        info = legal_info(ctx, fen)
        if not info or info[3] != 'no': continue
        out.append(fen)
    return out


def check_C19(ctx):
    consts_compare(ctx, ['MATE_VALUE', 'INFINITY', 'MAX_PLY'] + C16_ROWS)
    roots = search_roots(ctx, 220 if ctx.quick else 5000)
    nval_jobs = []
    extra = [(f, [], f, legal_info(ctx, f)) for f in load_regressions('C19') + promo_check_families()[:: (4 if ctx.quick else 1)] + big_swing_positions(ctx, 40 if ctx.quick else 1500)]
    for base, moves, fen, info in extra + roots:
        if not info or info[3] != 'no': continue
        if int(fen.split()[4]) >= 90: continue
        classify(ctx, fen, *info)
        budget = 30000 if ctx.quick else 400000
        o1 = ctx.model.ask(f'oracle minimax {fen} ; 1 ; {budget}')
        if not o1 or o1[0].startswith('!'):
            ctx.count('skipped-oracle-budget'); continue
        v1 = int(o1[0])
        v2 = None
        nval_jobs.append((fen, 1, v1))
        for d in (1, 2):
            cmd = f'search fen {fen} ; depth={d} tt=bypass'
            so = run_search(ctx, 'fen ' + fen, f'depth={d} tt=bypass')
            ctx.nontrivial.add((fen, d))
            ctx.count(f'depth-{d}-searches')
            got = {}
            for l in so.infos:
                m = INFO_RE.match(l)
                if m:
                    sc = m.group(1)
                    got[int(m.group(2))] = sc
            def to_score(sc, want):
                if sc.startswith('cp'): return int(sc.split()[1])
                return None   # mate N: compared through the distance only
            if 1 not in got:
                ctx.oracle_fail('depth-1-iteration-not-reported', cmd, {'infos': so.infos}); continue
            s1 = to_score(got[1], v1)
            if s1 is not None and s1 != v1:
                ctx.oracle_fail('depth-1-score-differs-from-minimax', cmd, {'engine': got[1], 'minimax': v1, 'fen': fen}); continue
            if s1 is None and not mate_matches(got[1], v1):
                ctx.oracle_fail('depth-1-score-differs-from-minimax', cmd, {'engine': got[1], 'minimax': v1, 'fen': fen}); continue
            if d == 2:
                if v2 is None:
                    o2 = ctx.model.ask(f'oracle minimax {fen} ; 2 ; {budget}')
                    if not o2 or o2[0].startswith('!'):
                        ctx.count('skipped-oracle-budget'); continue
                    v2 = int(o2[0])
                    if sum(c.isalpha() for c in fen.split()[0]) <= 12:
                        nval_jobs.append((fen, 2, v2))
                if 2 in got:
                    s2 = to_score(got[2], v2)
                    ctx.count('depth-2-inside-window')
                    if (s2 is not None and s2 != v2) or (s2 is None and not mate_matches(got[2], v2)):
                        ctx.oracle_fail('depth-2-score-differs-from-minimax', cmd, {'engine': got[2], 'minimax': v2, 'fen': fen})
                else:
                    ctx.count('depth-2-failed-window')
                    res = int(so.r.get('score', '0'))
                    lo, hi = v1 - 50, v1 + 50
                    if not ((res <= lo and v2 <= lo) or (res >= hi and v2 >= hi)):
                        ctx.oracle_fail('aspiration-failure-on-wrong-side', cmd, {'reported': res, 'window': [lo, hi], 'minimax': v2, 'fen': fen})
    ctx.sample({'input': f'search fen {roots[0][2]} ; depth=2 tt=bypass', 'minimax': ctx.model.ask(f'oracle minimax {roots[0][2]} ; 2 ; 30000')})
    nval_compare(ctx, nval_jobs)


NVAL_LIMIT = [6]


def nval_one(job):
    fen, d, want = job
    try:
        r = subprocess.run([MODEL_BIN], input=f'oracle nval fen {fen} ; {d}\n', capture_output=True, text=True, timeout=NVAL_LIMIT[0])
        return job, r.stdout.split('\n')[0].strip()
    except subprocess.TimeoutExpired:
        return job, None


def nval_compare(ctx, jobs):
    """the value function the theorems of C19 speak about (`nVal`: plain minimax over the model's generate / make /
    evaluate, no cut-offs) against the independent minimax of the rules specification; one process per question with a
    time limit, because a capture tree without cut-offs can be very large"""
    from concurrent.futures import ThreadPoolExecutor
    NVAL_LIMIT[0] = 6 if ctx.quick else 10
    jobs = jobs[:100000] if ctx.quick else jobs[:2000]
    with ThreadPoolExecutor(max_workers=14) as ex:
        for (fen, d, want), got in ex.map(nval_one, jobs):
            if got is None:
                ctx.count(f'nval-depth-{d}-time-limit'); continue
            ctx.count(f'nval-depth-{d}-compared')
            if got != str(want):
                ctx.oracle_fail('theorem-value-function-differs-from-minimax', f'oracle nval fen {fen} ; {d}', {'nVal': got, 'minimax': want, 'fen': fen})


def mate_matches(sc, v, mate_value=49000):
    N = int(sc.split()[1])
    if v > 48000: return N == (mate_value - v) // 2 + 1
    if v < -48000: return N == -((v + mate_value) // 2)
    return False


RULES.update({
 'C03': 'search roots from seeded games (non-terminal), each searched at depth 1-4 with the stop injected at every one of the first polls and a sample of later ones (poll points every 32 nodes), deadline already passed, quit/isready arriving mid-search, every half-move clock 0..150, plus real-time runs of all go forms on the unguarded binary; distinct = positions with special features',
 'C06': 'full node traces of depth-2/3 searches from seeded roots: every node checked for consistency, key, ply limit and legal-successor relation to its parent with the rules specification; larger searches by trace digest against the model; deep searches to the ply cap',
 'C07': 'games with reversible shuffling, searched after each of the last moves with the table kept; every non-root node of the full trace checked: in game history <=> scored as repetition',
 'C09': 'real-mask cadence on large searches; stop injected at every early and sampled later poll points (masks 7/15/63) of bounded searches with full traces: no PV/TT write, bounded negamax nodes after the stop, answer = PV head at the stop',
 'C11': 'positions with forced mates in 1-2 for either side found by the rules exhaustive search, searched at depths 3-6 cold and with a kept table',
 'C12': 'all info lines of cold/warm searches from seeded roots, shuffled histories and self-play: shape, monotone depth/nodes, PV replayed on the rules',
 'C17': 'every search variant (complete, stopped at each early poll, deadline passed, lines arriving) must leave game, history prefix, ply and history length as they were; black-box `d` before/after inspection commands',
 'C18': 'same search twice in one process; kept-table sequences against the model; black-box ucinewgame + position + go depth d after varied prefixes against a fresh process; clear empties every probed slot',
 'C19': 'non-terminal roots with half-move clock < 90, depths 1 and 2, table bypassed, against plain minimax over the rules specification',
})
for p in ['C03', 'C06', 'C07', 'C09', 'C11', 'C12', 'C17', 'C18', 'C19']:
    ASSUME[p] = ['stop arrival is modelled as a line placed in the input channel just before the k-th poll (deterministic schedule); real thread timing only in the black-box runs',
                 'searches larger than the model node limit are checked against the oracle only (counted as searches-engine-only)']


# ------------------------------------------------------------------------------------------------
# C13 UCI liveness
# ------------------------------------------------------------------------------------------------

import threading, queue

class Session:
    """the unguarded binary behind pipes, output lines timestamped by a reader thread"""
    def __init__(self, env=None):
        self.p = subprocess.Popen([PLAIN_BIN], stdin=subprocess.PIPE, stdout=subprocess.PIPE, stderr=subprocess.DEVNULL, text=True, bufsize=1, env=env or env_offline())
        self.lines = []
        self.t0 = time.time()
        self.th = threading.Thread(target=self._read, daemon=True)
        self.th.start()
    def _read(self):
        for l in self.p.stdout:
            self.lines.append((time.time() - self.t0, l.rstrip('\n')))
    def send(self, text):
        try:
            self.p.stdin.write(text + '\n'); self.p.stdin.flush(); return True
        except (BrokenPipeError, OSError, ValueError):
            return False
    def eof(self):
        try: self.p.stdin.close()
        except Exception: pass
    def wait_for(self, pred, timeout):
        end = time.time() + timeout
        while time.time() < end:
            if pred(self.lines): return True
            time.sleep(0.005)
        return pred(self.lines)
    def count(self, prefix):
        return sum(1 for _, l in self.lines if l.startswith(prefix))
    def finish(self, timeout):
        try:
            self.p.wait(timeout=timeout)
        except subprocess.TimeoutExpired:
            self.p.kill(); self.p.wait()
            self.th.join(timeout=1)
            return None
        self.th.join(timeout=1)
        return self.p.returncode


def c13_session(ctx, rng, positions):
    """one random legal GUI session; returns (script, failure-or-None)"""
    s = Session()
    script = []
    exp = {'uciok': 0, 'readyok': 0, 'bestmove': 0}
    def say(x):
        script.append(x); s.send(x)
    def fail(kind, detail):
        rc = s.finish(1)
        return script, (kind, detail, [l for _, l in s.lines if not l.startswith('info')][-8:])
    n = rng.randrange(2, 9)
    end_mode = rng.choice(['quit-idle', 'quit-idle', 'eof-idle', 'quit-search', 'eof-search'])
    for step in range(n):
        c = rng.random()
        if c < 0.12:
            say('uci'); exp['uciok'] += 1
            if not s.wait_for(lambda L: sum(1 for _, l in L if l == 'uciok') == exp['uciok'], 3): return fail('uci-not-answered', {})
        elif c < 0.25:
            say('isready'); exp['readyok'] += 1
            if not s.wait_for(lambda L: sum(1 for _, l in L if l == 'readyok') == exp['readyok'], 3): return fail('isready-not-answered', {})
        elif c < 0.33:
            say('ucinewgame')
        elif c < 0.5:
            say('position ' + rng.choice(positions))
        elif c < 0.7:
            say(rng.choice(['go depth 1', 'go depth 3', 'go depth 4', 'go movetime 20', 'go movetime 0', 'go wtime 100 btime 100', 'go wtime 3000 btime 3000 winc 10 binc 10 movestogo 40']))
            exp['bestmove'] += 1
            if not s.wait_for(lambda L: sum(1 for _, l in L if l.startswith('bestmove')) == exp['bestmove'], 6): return fail('go-not-answered', {})
        else:
            # an unlimited search with traffic while it runs (from a position whose search cannot finish by itself)
            say('position ' + rng.choice(positions[:3]))
            say(rng.choice(['go infinite', 'go', 'go depth 60']))
            exp['bestmove'] += 1
            time.sleep(rng.choice([0, 0.002, 0.03, 0.1]))
            for _ in range(rng.randrange(0, 4)):
                say('isready'); exp['readyok'] += 1
                if not s.wait_for(lambda L: sum(1 for _, l in L if l == 'readyok') == exp['readyok'], 3): return fail('isready-during-search-not-answered', {})
                if s.count('bestmove') == exp['bestmove']: return fail('isready-aborted-the-search', {})
                time.sleep(rng.choice([0, 0.01]))
            tail = rng.choice(['stop', 'stop\nisready', 'stop\nisready\nisready', 'stop\nuci'])
            script.append(tail); s.send(tail)
            exp['readyok'] += tail.count('isready'); exp['uciok'] += tail.count('uci')
            if not s.wait_for(lambda L: sum(1 for _, l in L if l.startswith('bestmove')) == exp['bestmove'], 4): return fail('stop-not-answered-with-bestmove', {})
            if not s.wait_for(lambda L: sum(1 for _, l in L if l == 'readyok') == exp['readyok'] and sum(1 for _, l in L if l == 'uciok') == exp['uciok'], 3):
                return fail('command-after-stop-lost', {'expected': dict(exp)})
    # termination
    t_end = time.time()
    if end_mode in ('quit-search', 'eof-search'):
        say('position ' + rng.choice(positions[:3]))
        say(rng.choice(['go infinite', 'go depth 50']))
        time.sleep(rng.choice([0, 0.01, 0.1]))
    if end_mode.startswith('quit'):
        say('quit')
    else:
        script.append('<EOF>'); s.eof()
    t_end = time.time()
    rc = s.finish(3)
    took = time.time() - t_end
    if rc is None: return script, ('process-did-not-terminate', {'mode': end_mode}, [l for _, l in s.lines if not l.startswith('info')][-6:])
    if rc != 0: return script, ('process-died', {'mode': end_mode, 'rc': rc}, [l for _, l in s.lines if not l.startswith('info')][-6:])
    got = {k: sum(1 for _, l in s.lines if (l == k if k != 'bestmove' else l.startswith('bestmove'))) for k in exp}
    if got['uciok'] != exp['uciok'] or got['readyok'] != exp['readyok'] or got['bestmove'] > exp['bestmove'] + (1 if end_mode.endswith('search') else 0) or got['bestmove'] < exp['bestmove']:
        return script, ('answer-counts-differ', {'expected': exp, 'got': got}, [])
    return script, None


GO_WAIT_RE = re.compile(r'^go( +(depth +[1-9]\d?|movetime +0))+ *$', re.I)


def go_searches(line, model):
    """does this `go` line reach `search` (so that a `bestmove` will come)? decided by the model of `parse_go`"""
    if line.split(' ')[0].lower() != 'go': return False
    if model is None: return bool(GO_WAIT_RE.match(line.strip()))
    b = model.ask('budget w ; ' + line[2:].strip())
    return bool(b) and re.fullmatch(r'-?\d+ -?\d+', b[-1]) is not None


def bb_session(lines, timeout=30, model=None):
    """the unguarded binary on a script of lines, one at a time: after a `go` that searches, wait for its `bestmove`
    before the next line is sent (so nothing arrives while a search runs); returns stdout lines, return code"""
    p = subprocess.Popen([PLAIN_BIN], stdin=subprocess.PIPE, stdout=subprocess.PIPE, stderr=subprocess.DEVNULL, text=True, bufsize=1, env=env_offline())
    out = []
    def kill():
        try: p.kill()
        except Exception: pass
    timer = threading.Timer(timeout, kill); timer.start()
    try:
        for l in lines:
            try:
                p.stdin.write(l + '\n'); p.stdin.flush()
            except Exception:
                break
            if go_searches(l, model):
                while True:
                    o = p.stdout.readline()
                    if not o: break
                    out.append(o.rstrip('\n'))
                    if o.startswith('bestmove'): break
        try: p.stdin.close()
        except Exception: pass
        for o in p.stdout:
            out.append(o.rstrip('\n'))
        rc = p.wait()
    finally:
        timer.cancel()
    return out, rc


def session_script(ctx, rng, games):
    """a command-loop script over the modelled commands; every `go` is one that terminates by itself"""
    def pos():
        base, moves, fens = rng.choice(games)
        k = rng.randrange(0, len(moves) + 1)
        if base == START_FEN and rng.random() < 0.7:
            return 'position startpos' + (' moves ' + ' '.join(moves[:k]) if k else '')
        return 'position fen ' + base + (' moves ' + ' '.join(moves[:k]) if k else '')
    legal = [lambda: 'isready', lambda: 'uci', lambda: 'd', lambda: 'eval', lambda: 'ucinewgame', lambda: 'cleartt', pos, pos,
             lambda: f'go depth {rng.choice([1, 2, 2, 3, 3, 4])}', lambda: f'go depth {rng.choice([1, 2, 3])}', lambda: 'go movetime 0',
             lambda: f'go movetime 0 depth {rng.choice([2, 3])}', lambda: f'Go  depth {rng.choice([1, 2])}', lambda: 'IsReady', lambda: 'ISREADY extra words',
             lambda: 'position', lambda: 'hello', lambda: '', lambda: 'UCI', lambda: 'go depth', lambda: 'go depth x', lambda: 'go foo depth 2',
             lambda: 'go depth 0', lambda: ' isready', lambda: 'isready\t', lambda: 'EVAL', lambda: 'D', lambda: 'Position startpos', lambda: 'go depth 2 ', lambda: 'isready  ']
    # commands no GUI may send (they end the process in the engine and in the model alike): compared, not judged
    malformed = [lambda: 'go depth 2 movestogo', lambda: 'position fen', lambda: 'position startpos moves e2e5', lambda: 'position xyz abc', lambda: 'position  startpos', lambda: 'move e2e5']
    n = rng.choice([3, 6, 10, 16])
    use_bad = rng.random() < 0.25
    lines = [rng.choice(legal + (malformed if use_bad else []))() for _ in range(n)]
    if rng.random() < 0.12:
        # a search before any `position` command, then `ucinewgame` (or `cleartt`), then the same search again: the second
        # one must print what a fresh process prints (the table is empty again although no game was ever set up)
        d = rng.choice([3, 4, 5])
        tb = [f'go depth {d}']
        return [f'go depth {rng.choice([3, 4, 5])}', rng.choice(['ucinewgame', 'cleartt', 'UciNewGame']), tb[0], 'quit'], (True, tb)
    if rng.random() < 0.4:
        # a take-back: the same game given again two plies shorter - the positions of the longer game are no longer part
        # of the history, and a search from the shorter one walks straight into them. No search before it (cold table),
        # so the output must be what a fresh process prints for the shorter game alone.
        base, moves, fens = rng.choice([g for g in games if len(g[1]) >= 4] or games)
        k = rng.randrange(2, len(moves) + 1) if len(moves) >= 2 else 0
        head = 'position startpos' if base == START_FEN else 'position fen ' + base
        if k >= 2:
            pre = [l for l in lines if l.split(' ')[0].lower() not in ('go',)][:4] if not use_bad else []
            tb = [head + (' moves ' + ' '.join(moves[:k - 2]) if k > 2 else ''), f'go depth {rng.choice([2, 3, 4])}']
            return pre + [head + ' moves ' + ' '.join(moves[:k])] + tb + ['quit'], (True, tb)
    return lines + ['quit'], (not use_bad, None)


def session_corr(ctx, n):
    """the command loop: the unguarded binary (black box, one line at a time) against `Model/Uci` (`session` request)"""
    rng = random.Random(ctx.seed * 7919 + 13)
    games = ctx.gen.games(40, maxlen=30)
    # games from the start position too (`position startpos …` is a separate branch of `parse_position`)
    for ms in ['e2e4 e7e5 g1f3 b8c6 f1b5 a7a6', 'd2d4 d7d5 c2c4 e7e6 b1c3 g8f6', 'g1f3 g8f6 c2c4 g7g6 b1c3 f8g7', 'e2e4 c7c5 g1f3 d7d6 d2d4 c5d4 f3d4 g8f6',
               'g1f3 g8f6 f3g1 f6g8 g1f3 g8f6', 'b1c3 b8c6 c3b1 c6b8']:
        games += [(START_FEN, ms.split(), None)] * 3
    for i in range(n):
        lines, (legal_script, takeback) = session_script(ctx, rng, games)
        out, rc = bb_session(lines, model=ctx.model)
        got = [re.sub(r' time \d+', ' time 0', l) for l in out]
        m = ctx.model.ask('session ' + ' | '.join(lines))
        ctx.count('command-loop-sessions'); ctx.count('command-loop-lines', len(lines)); ctx.evaluations += 1
        ctx.corr_cmds['session'] = ctx.corr_cmds.get('session', 0) + 1
        status = m[-1] if m else ''
        want = m[:-1]
        if takeback and legal_script:
            # after `ucinewgame` and the shorter `position`, the search must print what a fresh process prints for it
            fresh, rc2 = bb_session(takeback + ['quit'], model=ctx.model)
            fresh = [re.sub(r' time \d+', ' time 0', l) for l in fresh if l.startswith('info ') or l.startswith('bestmove')]
            tail = [l for l in got if l.startswith('info ') or l.startswith('bestmove')][-len(fresh):] if fresh else []
            ctx.count('take-back-sessions')
            if fresh and tail != fresh:
                ctx.oracle_fail('search-after-newgame-and-position-differs-from-fresh-process', {'script': lines, 'fresh_script': takeback},
                                {'session': tail[-3:], 'fresh': fresh[-3:]})
        if 'unmodelled=1' in status:
            ctx.count('command-loop-unmodelled'); continue
        died = 'panicked=1' in status
        ctx.count('command-loop-panics' if died else 'command-loop-clean-exits')
        if got != want or (died and rc == 0) or (not died and rc != 0):
            first = next((k for k, (a, b) in enumerate(itertools.zip_longest(got, want)) if a != b), None)
            ctx.disagreements.append({'command': 'session ' + ' | '.join(lines), 'first_diff_line': first,
                                      'engine': got[first] if first is not None and first < len(got) else f'rc={rc}',
                                      'model': want[first] if first is not None and first < len(want) else status})
            # the property itself: every isready answered, every searching go answered once, quit ends the process
            n_ready = sum(1 for l in lines if l.split(' ')[0].lower() == 'isready')
            if legal_script and (sum(1 for l in got if l == 'readyok') != n_ready or rc != 0 or sum(1 for l in got if l.startswith('bestmove')) != sum(1 for l in lines if go_searches(l, ctx.model))):
                ctx.oracle_fail('command-not-answered', {'script': lines}, {'readyok': sum(1 for l in got if l == 'readyok'), 'isready_sent': n_ready, 'rc': rc})


def check_C13(ctx):
    rng = ctx.gen.rng
    session_corr(ctx, 40 if ctx.quick else 600)
    # deterministic schedules through the driver: lines placed in the channel at chosen polls, engine vs model, and the contract on the result
    roots = search_roots(ctx, 25 if ctx.quick else 300)
    lines_pool = ['isready', 'stop', 'quit', 'ucinewgame', 'position_startpos', 'go_depth_2', 'IsReady', 'isready_', 'd', 'uci', 'perft_2']
    for base, moves, fen, info in roots:
        pos = pos_args(base, moves)
        d = rng.choice([2, 3, 4])
        full = run_search(ctx, pos, f'depth={d} pollmask=15')
        npolls = max(1, len(full.r.get('polls', [])))
        for _ in range(6 if ctx.quick else 30):
            sched = []
            for j in range(rng.randrange(1, 6)):
                sched.append((rng.randrange(0, min(npolls, 12)), rng.choice(lines_pool if rng.random() < 0.5 else ['isready', 'isready', 'stop'])))
            sched.sort(key=lambda x: x[0])
            deadline = rng.random() < 0.2          # the time limit has already expired when the lines arrive
            opts = f'depth={d} pollmask=15 ' + ('maxtime=0 ' if deadline else '') + ' '.join(f'inject={k}:{l}' for k, l in sched)
            so = run_search(ctx, pos, opts)
            ctx.count('scheduled-sessions'); ctx.nontrivial.add((fen, opts))
            # contract: lines are consumed in order; isready -> readyok and the search goes on; the first other line stops
            # the search; `stop` is consumed, anything else is handed back; nothing is lost
            consumed_ready = 0; deferred = []; pending = []; stopped = False
            for k, l in sched:
                if k >= len(so.r.get('polls', [])) and not stopped:
                    pending.append(l.replace('_', ' ')); continue
            # replay the channel semantics independently
            chan = []; si = 0; polls = so.r.get('polls', [])
            exp_ready = 0; exp_def = []; stopped = False
            for pi in range(len(polls)):
                while si < len(sched) and sched[si][0] == pi:
                    chan.append(sched[si][1].replace('_', ' ').strip()); si += 1
                if stopped: break
                if deadline:
                    stopped = True; break      # the deadline is looked at first: nothing is read at this poll
                if chan:
                    l = chan.pop(0)
                    w = l.split(' ')[0].lower()
                    if w == 'isready': exp_ready += 1
                    elif w == 'stop': stopped = True
                    else: exp_def.append(l); stopped = True
            exp_pending = ' '.join(chan)
            if so.panic or so.n_bestmove != 1 or so.readyok != exp_ready or so.r.get('deferred', '').strip() != ' '.join(exp_def).strip() or (stopped and so.r.get('pending', '').strip() != exp_pending.strip()):
                ctx.oracle_fail('input-line-lost-or-misanswered', f'search {pos} ; {opts}', {'readyok': so.readyok, 'expected_readyok': exp_ready, 'deferred': so.r.get('deferred'), 'expected_deferred': exp_def,
                                'pending': so.r.get('pending'), 'expected_pending': exp_pending, 'bestmoves': so.n_bestmove})
    # end of input right after a last line that has no newline: the line is still handled and the process ends
    for raw, must in [('uci\nisready', ['uciok', 'readyok']), ('isready\nposition startpos\ngo depth 2', ['readyok', 'bestmove']),
                      ('position startpos\ngo infinite', ['bestmove']), ('isready', ['readyok']), ('', [])]:
        try:
            r = subprocess.run([PLAIN_BIN], input=raw, capture_output=True, text=True, timeout=6, env=env_offline())
            outl, rc = r.stdout.split('\n'), r.returncode
        except subprocess.TimeoutExpired:
            outl, rc = [], None
        ctx.count('eof-without-newline-runs'); ctx.evaluations += 1
        if rc != 0 or any(not any(l.startswith(m) for l in outl) for m in must):
            ctx.oracle_fail('end-of-input-not-handled', {'stdin': raw, 'then': 'EOF'}, {'rc': rc, 'stdout': outl[-4:]})
    # real processes, real time
    positions = ['startpos', 'startpos moves e2e4 e7e5', 'fen r3k2r/p1ppqpb1/bn2pnp1/3PN3/1p2P3/2N2Q1p/PPPBBPPP/R3K2R w KQkq - 0 1', 'fen 8/8/8/4k3/8/8/8/R3K3 w - - 0 1',
                 'fen 7k/5Q2/6K1/8/8/8/8/8 b - - 0 1', 'fen 4k3/8/8/8/8/8/8/R3K3 w - - 100 80', 'fen rnb1kbnr/pppp1ppp/8/4p3/6Pq/5P2/PPPPP2P/RNBQKBNR w KQkq - 1 3']
    for i in range(25 if ctx.quick else 400):
        script, bad = c13_session(ctx, rng, positions)
        ctx.count('blackbox-sessions'); ctx.count('blackbox-commands', len(script))
        ctx.nontrivial.add(tuple(script))
        if bad:
            ctx.oracle_fail('session-' + bad[0], {'script': script}, {'detail': bad[1], 'output_tail': bad[2]})
    ctx.sample({'script': script})

RULES['C13'] = 'deterministic schedules (input lines placed in the channel at chosen polls of bounded searches, engine vs model and against the channel contract) and random legal GUI sessions on the real binary in real time (uci/isready/ucinewgame/position/go*/stop bursts, quit or EOF idle and mid-search); distinct = distinct scripts/schedules'
ASSUME['C13'] = ['OS scheduling of the reader thread, pipe buffering and process::exit are outside the model; the black-box sessions sample them in real time', 'the deterministic schedules cover the poll logic only (which line is read at which poll)']
