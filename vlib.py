"""Infrastructure shared by the checks: builds, driver processes, generators, evidence.

Everything runs offline from files on disk; scratch output lives under /verif/.cache only.
"""
import fcntl, hashlib, json, os, re, subprocess, sys, time, random

ROOT = os.path.dirname(os.path.abspath(__file__))
REPO = os.environ.get('VERIF_REPO', '/repo')
CACHE = os.path.join(ROOT, '.cache')
LEAN = os.path.join(ROOT, 'lean')
TARGET_HOOKS = os.path.join(CACHE, 'target')
TARGET_PLAIN = os.path.join(CACHE, 'target_plain')
RUST_BIN = os.path.join(TARGET_HOOKS, 'release', 'nebel_chess_engine')
PLAIN_BIN = os.path.join(TARGET_PLAIN, 'release', 'nebel_chess_engine')
MODEL_BIN = os.path.join(LEAN, '.lake', 'build', 'bin', 'jence-model')
START_FEN = 'rnbqkbnr/pppppppp/8/8/8/8/PPPPPPPP/RNBQKBNR w KQkq - 0 1'
AXIOM_WHITELIST = {'propext', 'Classical.choice', 'Quot.sound'}

os.makedirs(CACHE, exist_ok=True)


class BuildError(Exception):
    def __init__(self, stage, detail):
        super().__init__(f'{stage}: {detail[:2000]}')
        self.stage = stage
        self.detail = detail


def env_offline(extra=None):
    e = dict(os.environ)
    e.update({'CARGO_NET_OFFLINE': 'true', 'GOPROXY': 'off', 'PIP_NO_INDEX': '1'})
    if extra:
        e.update(extra)
    return e


class Lock:
    """serialises cargo/lake builds between concurrently running checks"""
    def __init__(self, name='build.lock'):
        self.path = os.path.join(CACHE, name)
    def __enter__(self):
        self.f = open(self.path, 'w')
        fcntl.flock(self.f, fcntl.LOCK_EX)
        return self
    def __exit__(self, *a):
        fcntl.flock(self.f, fcntl.LOCK_UN)
        self.f.close()


def run(cmd, cwd=None, env=None, timeout=3600, input=None):
    p = subprocess.run(cmd, cwd=cwd, env=env, capture_output=True, text=True, timeout=timeout, input=input)
    return p.returncode, p.stdout, p.stderr


def cargo_build(hooks=True):
    """release build of /repo's working tree, with or without the verification guard"""
    target = TARGET_HOOKS if hooks else TARGET_PLAIN
    env = env_offline({'CARGO_TARGET_DIR': target})
    if hooks:
        env['RUSTFLAGS'] = '--cfg jence_verif'
    else:
        env.pop('RUSTFLAGS', None)
    rc, out, err = run(['cargo', 'build', '--release', '--offline'], cwd=REPO, env=env)
    if rc != 0:
        raise BuildError('cargo-hooks' if hooks else 'cargo-plain', err[-3000:])
    return ' '.join(['cargo build --release --offline', '(RUSTFLAGS=--cfg jence_verif)' if hooks else '(guard off)'])


def translate_consts():
    rc, out, err = run([sys.executable, os.path.join(ROOT, 'tools', 'extract_consts.py'), REPO,
                        os.path.join(LEAN, 'Jence', 'Gen', 'Consts.lean')])
    if rc != 0:
        raise BuildError('translator', out + err)
    return out.strip()


def lake_build(targets):
    rc, out, err = run(['lake', 'build'] + targets, cwd=LEAN, env=env_offline(), timeout=7200)
    if rc != 0:
        raise BuildError('lake', (out + err)[-4000:])
    return 'lake build ' + ' '.join(targets)


def obligations():
    return json.load(open(os.path.join(LEAN, 'obligations.json')))


def audit(prop):
    """`#print axioms` for every property theorem of `prop`; source grep for escape hatches.
    Returns (list of (theorem, axioms)), raises BuildError('audit', …) on any problem."""
    obl = obligations().get(prop, {})
    thms = obl.get('theorems', [])
    mods = obl.get('modules', [f'Jence.Props.{prop}'])
    src = '\n'.join(f'import {m}' for m in mods) + '\n' + '\n'.join(f'#print axioms {t}' for t in thms) + '\n'
    path = os.path.join(CACHE, f'audit_{prop}.lean')
    open(path, 'w').write(src)
    rc, out, err = run(['lake', 'env', 'lean', path], cwd=LEAN, env=env_offline(), timeout=3600)
    if rc != 0:
        raise BuildError('audit', (out + err)[-3000:])
    res = []
    text = out.replace('\n  ', ' ').replace('\n ', ' ')
    for t in thms:
        m = re.search(r"'" + re.escape(t) + r"' (depends on axioms: \[([^\]]*)\]|does not depend on any axioms)", text)
        if not m:
            raise BuildError('audit', f'no axiom report for {t}: {out[-500:]}')
        axs = [a.strip() for a in (m.group(2) or '').split(',') if a.strip()]
        bad = [a for a in axs if a not in AXIOM_WHITELIST]
        if bad:
            raise BuildError('audit', f'{t} depends on non-whitelisted axioms {bad}')
        res.append((t, axs))
    # escape hatches in sources
    pat = re.compile(r'\b(sorry|admit|native_decide|bv_decide|implemented_by|unsafe)\b|^\s*axiom\s|maxHeartbeats 0')
    for dp, _, fs in os.walk(os.path.join(LEAN, 'Jence')):
        for f in fs:
            if not f.endswith('.lean'):
                continue
            txt = open(os.path.join(dp, f)).read()
            txt = re.sub(r'/-.*?-/', '', txt, flags=re.S)
            for ln in txt.split('\n'):
                code = ln.split('--')[0]
                if pat.search(code):
                    raise BuildError('audit', f'escape hatch in {f}: {ln.strip()[:120]}')
    return res


class Driver:
    """persistent line-protocol process (Rust driver or Lean model); ask() returns the payload lines"""
    def __init__(self, kind):
        self.kind = kind
        self.start()
    def start(self):
        if self.kind == 'rust':
            self.p = subprocess.Popen([RUST_BIN], stdin=subprocess.PIPE, stdout=subprocess.PIPE, stderr=subprocess.DEVNULL,
                                      text=True, bufsize=1, env=env_offline({'JENCE_VERIF': 'driver'}))
        else:
            self.p = subprocess.Popen([MODEL_BIN], stdin=subprocess.PIPE, stdout=subprocess.PIPE, stderr=subprocess.DEVNULL,
                                      text=True, bufsize=1)
    def ask(self, line):
        try:
            self.p.stdin.write(line + '\n')
            self.p.stdin.flush()
            out = []
            while True:
                l = self.p.stdout.readline()
                if l == '':
                    raise BrokenPipeError
                l = l.rstrip('\n')
                if l == '.':
                    return out
                out.append(l)
        except (BrokenPipeError, OSError):
            rc = self.p.poll()
            self.start()
            return ['!crash ' + str(rc)]
    def close(self):
        try:
            self.p.stdin.close()
            self.p.wait(timeout=5)
        except Exception:
            self.p.kill()


def mask_time(lines):
    return [re.sub(r' time \d+', ' time 0', l) for l in lines]


def load_corpus():
    out = []
    for l in open(os.path.join(ROOT, 'corpus', 'positions.txt')):
        l = l.strip()
        if not l or l.startswith('#'):
            continue
        name, fen = [x.strip() for x in l.split('|', 1)]
        out.append((name, fen))
    return out


def load_regressions(prop):
    """minimised past failures / hand-written cases, run first: lines of corpus/regress_<prop>.txt"""
    p = os.path.join(ROOT, 'corpus', f'regress_{prop}.txt')
    if not os.path.exists(p):
        return []
    return [l.rstrip('\n') for l in open(p) if l.strip() and not l.startswith('#')]


class Gen:
    """seeded structured generation; positions come from playouts of the *specification* (independent of the code
    under test), so a mutated engine cannot bend the generator"""
    def __init__(self, seed, model):
        self.rng = random.Random(seed)
        self.seed = seed
        self.model = model
        self.corpus = []
        self.rejected = []
        for name, fen in load_corpus():
            o = model.ask('fen ' + fen)
            w = model.ask('oracle absfen ' + o[0]) if o and not o[0].startswith('!') else []
            if len(w) == 2 and w[1].strip() == 'wf' and w[0] == fen:
                self.corpus.append((name, fen))
            else:
                self.rejected.append((name, fen, w[1:] if w else o))
    def playout(self, fen, length, bias=4):
        s = self.rng.randrange(1, 2**62)
        r = self.model.ask(f'oracle playout {fen} ; {s} ; {length} ; {bias}')
        if not r or not r[0].startswith('moves'):
            return [], []
        moves = r[0].split()[1:]
        return moves, r[1:]
    def games(self, n, maxlen=80):
        """n (base fen, moves, fens-after-each-move) triples from random corpus roots"""
        out = []
        for i in range(n):
            name, fen = self.corpus[i % len(self.corpus)] if i < len(self.corpus) else self.rng.choice(self.corpus)
            ln = self.rng.choice([0, 1, 2, 3, 5, 8, 13, 21, 34, 55, maxlen])
            mv, fens = self.playout(fen, min(ln, maxlen), self.rng.choice([0, 2, 4, 6]))
            out.append((fen, mv, fens))
        return out
    def positions(self, n, maxlen=80):
        """distinct FENs: corpus roots and positions along playouts"""
        seen = {}
        for name, fen in self.corpus:
            seen.setdefault(fen, None)
        tries = 0
        while len(seen) < n and tries < 20 * n:
            tries += 1
            name, fen = self.rng.choice(self.corpus)
            mv, fens = self.playout(fen, self.rng.choice([4, 10, 25, maxlen]), self.rng.choice([0, 2, 4, 6]))
            for f in fens:
                if self.rng.random() < 0.5:
                    seen.setdefault(f, None)
        return list(seen.keys())[:n]


def fen_features(fen, legal_info=None):
    """cheap classification used for the input-distribution report"""
    parts = fen.split()
    feats = set()
    if len(parts) >= 4:
        if parts[2] != '-':
            feats.add('castling-rights')
        if parts[3] != '-':
            feats.add('ep-square')
    if legal_info:
        feats |= legal_info
    return feats


def write_evidence(prop, tier, seed, level, coverage, assumptions, wall, violations):
    os.makedirs(os.path.join(ROOT, 'evidence'), exist_ok=True)
    ev = {'property_id': prop, 'tier': tier, 'seed': seed, 'level': level, 'coverage': coverage,
          'assumptions': assumptions, 'wall_s': round(wall, 2), 'violations': violations}
    json.dump(ev, open(os.path.join(ROOT, 'evidence', f'{prop}.json'), 'w'), indent=1)


def write_replay(prop, payload):
    os.makedirs(os.path.join(ROOT, 'replays'), exist_ok=True)
    h = hashlib.sha1(json.dumps(payload, sort_keys=True).encode()).hexdigest()[:12]
    path = os.path.join(ROOT, 'replays', f'{prop}-{h}.json')
    json.dump(payload, open(path, 'w'), indent=1)
    return path


def known_findings():
    return json.load(open(os.path.join(ROOT, 'known_findings.json')))
