/-
  `jence-model`: the executable model behind the same line protocol as the guarded Rust driver
  (`/repo/src/verif.rs`). One request per line; every answer ends with a line holding `.`.
-/
import Jence.Model.Search
import Jence.Model.Perft
import Jence.Model.Budget
import Jence.Spec.Rules
import Jence.Spec.Oracle
import Jence.Lemmas.History
import Jence.Lemmas.NVal
import Jence.Lemmas.ForcedMateDec
import Jence.Lemmas.EvalMirror
import Jence.Model.Uci
open Jence

def parseHex? (s : String) : Option UInt64 :=
  if s.isEmpty then none else
  s.toList.foldl (fun acc c => acc.bind fun (v : Nat) =>
    if c.isDigit then some (v * 16 + (c.toNat - '0'.toNat))
    else if 'a' ≤ c ∧ c ≤ 'f' then some (v * 16 + (c.toNat - 'a'.toNat + 10))
    else if 'A' ≤ c ∧ c ≤ 'F' then some (v * 16 + (c.toNat - 'A'.toNat + 10))
    else none) (some 0) |>.map (·.toUInt64)

def parseInt? (s : String) : Option Int := parseRustInt s (-(2^63)) (2^63)
def parseNat? (s : String) : Option Nat := (parseInt? s).bind fun v => if v >= 0 then some v.toNat else none

def words (s : String) : List String := (s.splitOn " ").filter (· != "")
def semis (s : String) : List String := (s.splitOn ";").map (·.trimAscii.toString)

def row (name : String) (vals : List String) : String := name ++ " " ++ String.intercalate " " vals

def parseDump (t : List String) : Option Game :=
  if t.length < 21 then none else do
    let bbs ← (t.take 12).mapM parseHex?
    let w ← parseHex? (t.getD 12 "")
    let b ← parseHex? (t.getD 13 "")
    let a ← parseHex? (t.getD 14 "")
    let ep ← parseNat? (t.getD 16 "")
    if ep > 64 then none
    let c ← parseNat? (t.getD 17 "")
    let h ← parseNat? (t.getD 18 "")
    let f ← parseNat? (t.getD 19 "")
    let k ← parseHex? (t.getD 20 "")
    if c > 255 || h > 255 || f > 65535 then none
    pure { bbs := bbs.toArray, whiteOcc := w, blackOcc := b, allOcc := a, white := t.getD 15 "" == "w",
           ep := ep, castling := c, halfMoves := h, fullMoves := f, key := k }

def repLine (r : RepTable) : String :=
  "rep " ++ toString r.index ++ String.join (r.pre.map fun k => " " ++ hex16 k)

def cmdConsts : List String :=
  let hx (a : Array UInt64) := a.toList.map hex
  let dn (a : Array Nat) := a.toList.map toString
  let di (a : Array Int) := a.toList.map toString
  [ row "WHITE_PAWN_ATTACKS" (hx WHITE_PAWN_ATTACKS), row "BLACK_PAWN_ATTACKS" (hx BLACK_PAWN_ATTACKS),
    row "KNIGHT_ATTACKS" (hx KNIGHT_ATTACKS), row "KING_ATTACKS" (hx KING_ATTACKS),
    row "ROOK_MASK" (hx ROOK_MASK), row "BISHOP_MASK" (hx BISHOP_MASK),
    row "ROOK_OFFSETS" (dn ROOK_OFFSETS), row "BISHOP_OFFSETS" (dn BISHOP_OFFSETS),
    s!"SLIDING_LEN {SLIDING_ATTACKS.size}" ] ++
  (List.range 12).map (fun p => row s!"PIECE_KEYS_{p}" ((List.range 64).map fun s => hex (pieceKey p s))) ++
  [ row "ENPASSANT_KEYS" (hx ENPASSANT_KEYS), row "CASTLE_KEYS" (hx CASTLE_KEYS), s!"SIDE_KEY {hex SIDE_KEY}",
    row "CASTLING_RIGHTS" (dn Gen.CASTLING_RIGHTS), row "LOOKUP_RANK" (dn Gen.LOOKUP_RANK),
    row "SQUARE_STRINGS" Gen.SQUARE_STRINGS.toList, row "PIECE_STRINGS" Gen.PIECE_STRINGS.toList,
    row "MATERIAL_WEIGHTS" (di Gen.MATERIAL_WEIGHTS), row "PAWN_SCORES" (di Gen.PAWN_SCORES),
    row "KNIGHT_SCORES" (di Gen.KNIGHT_SCORES), row "BISHOP_SCORES" (di Gen.BISHOP_SCORES),
    row "ROOK_SCORES" (di Gen.ROOK_SCORES), row "KING_SCORES" (di Gen.KING_SCORES), row "MIRRORED" (dn Gen.MIRRORED) ] ++
  (List.range 12).map (fun a => row s!"MVV_LVA_{a}" (di (Gen.MVV_LVA.getD a #[]))) ++
  [ row "FILE_MASKS" (hx FILE_MASKS), row "RANK_MASKS" (hx RANK_MASKS), row "ISOLATED_MASKS" (hx ISOLATED_MASKS),
    row "WHITE_PASSED_PAWN_MASKS" (hx WHITE_PASSED_PAWN_MASKS), row "BLACK_PASSED_PAWN_MASKS" (hx BLACK_PASSED_PAWN_MASKS),
    row "PASSED_WHITE_PAWN_BONUS" (di Gen.PASSED_WHITE_PAWN_BONUS), row "PASSED_BLACK_PAWN_BONUS" (di Gen.PASSED_BLACK_PAWN_BONUS),
    s!"STACKED_PAWN_PENALTY {Gen.STACKED_PAWN_PENALTY}", s!"ISOLATED_PAWN_PENALTY {Gen.ISOLATED_PAWN_PENALTY}",
    s!"SEMI_OPEN_FILE_SCORE {Gen.SEMI_OPEN_FILE_SCORE}", s!"OPEN_FILE_SCORE {Gen.OPEN_FILE_SCORE}",
    s!"PROTECTED_KING_BONUS {Gen.PROTECTED_KING_BONUS}",
    s!"MAX_PLY {Gen.MAX_PLY}", s!"FULL_DEPTH_MOVES {Gen.FULL_DEPTH_MOVES}", s!"REDUCTION_LIMIT {Gen.REDUCTION_LIMIT}",
    s!"MATE_VALUE {Gen.MATE_VALUE}", s!"MATE_BOUND {Gen.MATE_BOUND}", s!"INFINITY {Gen.INFINITY}",
    s!"INPUT_POLL_INTERVAL {Gen.INPUT_POLL_INTERVAL}", s!"TT_SIZE {ttSize}", s!"UNKNOWN_SCORE {Gen.UNKNOWN_SCORE}",
    s!"REP_CAPACITY {Gen.REP_CAPACITY}" ]

def cmdSliding : List String :=
  let n := SLIDING_ATTACKS.size
  (List.range ((n + 63) / 64)).map fun c =>
    row "S" ((List.range (min 64 (n - c * 64))).map fun j => hex (SLIDING_ATTACKS.getD (c * 64 + j) 0))

def attackOf (kind : String) (sq : Nat) (occ : UInt64) : Option UInt64 :=
  match kind with
  | "R" => some (getRookAttacks sq occ) | "B" => some (getBishopAttacks sq occ) | "Q" => some (getQueenAttacks sq occ)
  | "N" => some (getKnightAttacks sq) | "K" => some (getKingAttacks sq)
  | "P" => some (getPawnAttacks sq true) | "p" => some (getPawnAttacks sq false)
  | _ => none

def rngNext (x : UInt64) : UInt64 :=
  let x := x ^^^ (x <<< (13 : UInt64))
  let x := x ^^^ (x >>> (7 : UInt64))
  x ^^^ (x <<< (17 : UInt64))

/-- `attackall`: model getters (`spec = false`) or the coordinate-walk specification (`spec = true`) -/
def cmdAttackAll (seed : UInt64) (reps : Nat) (spec : Bool) : List String := Id.run do
  let mut rng := seed ||| 1
  let mut out : Array String := #[]
  let rookF := if spec then Spec.slideRook else getRookAttacks
  let bishF := if spec then Spec.slideBishop else getBishopAttacks
  for sq in [0:64] do
    let rm := ROOK_MASK.getD sq 0
    let bm := BISHOP_MASK.getD sq 0
    let mut hr : UInt64 := 0xcbf29ce484222325
    let mut hb : UInt64 := 0xcbf29ce484222325
    let mut hq : UInt64 := 0xcbf29ce484222325
    for i in [0:2 ^ popCount rm] do
      let base := pdep i.toUInt64 rm
      for _ in [0:reps] do
        rng := rngNext rng
        hr := fnv hr (rookF sq (base ||| (rng &&& ~~~ rm)))
    for i in [0:2 ^ popCount bm] do
      let base := pdep i.toUInt64 bm
      for _ in [0:reps] do
        rng := rngNext rng
        let occ := base ||| (rng &&& ~~~ bm)
        hb := fnv hb (bishF sq occ)
        hq := fnv hq (rookF sq occ ||| bishF sq occ)
    out := out.push s!"sq {sq} {hex16 hr} {hex16 hb} {hex16 hq}"
  return out.toList

def cmdGen (fen : String) : List String :=
  match parseFen fen with
  | .none => ["!none"]
  | .panic => ["!panic"]
  | .ok g =>
    let all := generateMoves g true
    let q := generateMoves g false
    let legal := legalValues g
    [ row "all" (all.map Move.hex), row "quiet" (q.map Move.hex), row "legal" (legal.map Move.hex),
      row "made" ((all.filter fun m => (makeMove g m).isSome).map Move.hex),
      row "qmade" ((q.filter fun m => (makeMove g m).isSome).map Move.hex),
      row "uci" (legal.map Move.toUci),
      s!"check {if isInCheck g g.white then 1 else 0}", s!"bulk {bulkCount g}" ]

def playLine (g : Game) (rep : RepTable) : String :=
  dumpGame g ++ " | " ++ hex16 (scratchKey g) ++ " | " ++ repLine rep

def cmdPlay (rest : String) : List String :=
  let parts := semis rest
  match parseFen (parts.headD "") with
  | .none => ["!none"]
  | .panic => ["!panic"]
  | .ok g =>
    let rec go (mvs : List String) (g : Game) (rep : RepTable) (acc : Array String) : Array String :=
      match mvs with
      | [] => acc
      | mv :: rest =>
        match parseMove g mv with
        | none => acc.push s!"!illegal {mv}"
        | some m =>
          match makeSearchMove g m rep with
          | some (g', rep') =>
            if rep'.overflow then acc.push "!panic" else
            go rest g' rep' (acc.push (playLine g' rep' ++ s!" | {m.hex} 1"))
          | none => acc.push (playLine g rep ++ s!" | {m.hex} 0")
    (go (words (parts.getD 1 "")) g RepTable.new #[playLine g RepTable.new]).toList

/-- `oracle wf <fen> ; <moves>`: the hypotheses of the history theorems (T2.1/T2.3/T4.1), decided on every position
    of the game as the model plays it: consistency, "no capture aims at the king", and `MoveOk` of every generated move -/
def cmdWf (rest : String) : List String :=
  let parts := semis rest
  let line (g : Game) : String :=
    s!"wf {if decide (WfD g) then 1 else 0} nk {if decide (NoKingCapture g) then 1 else 0} notok {(movesNotOk g).length} key {if g.key == scratchKey g then 1 else 0}"
  match parseFen (parts.headD "") with
  | .none => ["!none"]
  | .panic => ["!panic"]
  | .ok g =>
    let rec go (mvs : List String) (g : Game) (acc : Array String) : Array String :=
      match mvs with
      | [] => acc
      | mv :: rest =>
        match parseMove g mv with
        | none => acc.push s!"!illegal {mv}"
        | some m =>
          match makeCore g m with
          | some g' => go rest g' (acc.push (line g'))
          | none => acc.push "!check"
    (go (words (parts.getD 1 "")) g #[line g]).toList

/-- `oracle nval <position> ; <depth>`: the value function of the theorems of C19 (`nVal`, plain minimax over the engine's
    own generate / make / evaluate, no window and no cut-off) at the root -/
def cmdNval (rest : String) : List String :=
  let parts := semis rest
  match parsePosition (parts.headD "") RepTable.new, (parts.getD 1 "").trimAscii.toString.toNat? with
  | .ok (g, rep), some d => [toString (nVal chessRules rep.pre negaFuel g d 0)]
  | _, _ => ["!none"]

/-- `oracle forced <fen> ; <n>`: the forced-mate predicates of T11.2 / T11.3 (`MatesIn` / `MatedIn` over the engine's own
    generate / make / check test), decided by `matesInB` / `matedInB` (`Lemmas/ForcedMateDec.forced_dec`):
    row k of `matesIn` is `MatesIn (2k − 1)`, row k of `matedIn` is `MatedIn (2k)`, k = 1..n -/
def cmdForced (rest : String) : List String :=
  let parts := semis rest
  match parseFen (parts.headD ""), (parts.getD 1 "").trimAscii.toString.toNat? with
  | .ok g, some n =>
    [s!"matesIn {(List.range n).map fun k => if matesInB chessRules (2 * (k + 1) - 1) g then 1 else 0}",
     s!"matedIn {(List.range n).map fun k => if matedInB chessRules (2 * (k + 1)) g then 1 else 0}",
     s!"mated {if matedB chessRules g then 1 else 0}"]
  | _, _ => ["!none"]

/-- `mirror <dump>`: the colour mirror of T16.3 (`Lemmas/EvalMirror.mirror`), as a dump -/
def cmdMirror (rest : String) : List String :=
  match parseDump (words rest) with
  | none => ["!none"]
  | some g => [dumpGame (mirror g)]

/-- `session <line> | <line> | …`: the command loop of `Model/Uci` on these input lines (nothing arrives while a search
    runs), from the state `main` starts with; prints what the engine prints, then the final status -/
def cmdSession (rest : String) : List String :=
  let lines := (rest.splitOn " | ").map fun l => l.trimAscii.toString
  match parseFen startFen with
  | .ok g0 =>
    let s := Session.run (fun _ => {}) (4 * lines.length + 16) (Session.init g0) lines
    s.out.toList ++ [s!"status running={if s.running then 1 else 0} panicked={if s.panicked then 1 else 0} unmodelled={if s.unmodelled then 1 else 0} searches={s.searches}"]
  | _ => ["!panic"]

def cmdFen (rest : String) : List String :=
  match parseFen rest with
  | .none => ["!none"] | .panic => ["!panic"] | .ok g => [dumpGame g]

def cmdPosition (rest : String) : List String :=
  match parsePosition rest RepTable.new with
  | .none => ["!none"] | .panic => ["!panic"] | .ok (g, rep) => [dumpGame g, repLine rep]

def cmdShow (rest : String) : List String :=
  match parsePosition rest RepTable.new with
  | .none => ["!none"] | .panic => ["!panic"] | .ok (g, _) => prettyPrint g

def cmdEval (rest : String) : List String :=
  match parseDump (words rest) with
  | none => ["!none"]
  | some g => [toString (evaluate g)]

def flagOf (s : String) : Flag := if s == "A" then .alpha else if s == "B" then .beta else .exact

def cmdTT (rest : String) (tt : TT) : List String × TT := Id.run do
  let mut tt := tt
  let mut out : Array String := #[]
  for op in semis rest do
    let t := words op
    match t with
    | ["c"] => tt := tt.clear
    | ["r", k, s, d, f, p] =>
      match parseHex? k, parseInt? s, parseNat? d, parseNat? p with
      | some k, some s, some d, some p => tt := tt.record k s d (flagOf f) p
      | _, _, _, _ => out := out.push "!bad"
    | ["p", k, d, a, b, p] =>
      match parseHex? k, parseNat? d, parseInt? a, parseInt? b, parseNat? p with
      | some k, some d, some a, some b, some p => out := out.push (toString (tt.probe k d a b p))
      | _, _, _, _, _ => out := out.push "!bad"
    | [] => pure ()
    | _ => out := out.push "!bad"
  return (out.toList, tt)

def cmdBudget (rest : String) : List String :=
  let parts := semis rest
  match parseGo (parts.headD "" != "b") (" " ++ parts.getD 1 "") with
  | (msgs, .search d t) => msgs ++ [s!"{d} {t}"]
  | (msgs, .nosearch) => msgs ++ ["nosearch"]
  | (msgs, .panic) => msgs ++ ["!panic"]

def cmdPerft (rest : String) : List String :=
  let parts := semis rest
  match parseFen (parts.headD ""), parseNat? (parts.getD 1 "") with
  | .ok g, some d => [toString (perft g d)]
  | .panic, _ => ["!panic"]
  | _, _ => ["!none"]

structure SearchOpts where
  depth : Int := 1
  inject : List (Nat × String) := []
  maxTime : Int := -1
  subMask : Option Nat := none
  trace : Nat := 0
  bypass : Bool := false
  cold : Bool := true
  oracle : Bool := false

def parseOpts (s : String) : SearchOpts :=
  (words s).foldl (fun o w =>
    match w.splitOn "=" with
    | ["depth", v] => { o with depth := (parseInt? v).getD 1 }
    | ["stop", v] => if v == "never" then o else { o with inject := o.inject ++ [((parseNat? v).getD 0, "stop")] }
    | ["inject", v] =>
      (match v.splitOn ":" with
       | k :: r => { o with inject := o.inject ++ [((parseNat? k).getD 0, (String.intercalate ":" r).replace "_" " ")] }
       | _ => o)
    | ["maxtime", v] => { o with maxTime := (parseInt? v).getD (-1) }
    | ["pollmask", v] => { o with subMask := if v == "real" then none else parseNat? v }
    | ["trace", v] => { o with trace := if v == "digest" then 1 else if v == "full" then 2 else 0 }
    | ["tt", v] => { o with bypass := v == "bypass", cold := v != "keep" }
    | ["oracle", v] => { o with oracle := v == "1" }
    | _ => o) {}

def cmdSearch (rest : String) (tt : TT) : List String × TT :=
  let parts := semis rest
  match parsePosition (parts.headD "") RepTable.new with
  | .none => (["!none"], tt)
  | .panic => (["!panic"], tt)
  | .ok (g, rep) =>
    let o := parseOpts (parts.getD 1 "")
    let tt := if o.cold then tt.clear else tt
    let cfg : Cfg := { world := fun k => { lines := (o.inject.filter (·.1 == k)).map (·.2) }, maxTime := o.maxTime,
                       subMask := o.subMask, ttBypass := o.bypass, trace := o.trace }
    let (r, e) := search chessRules cfg g o.depth tt rep
    let printed := if o.trace == 2 then e.log.toList else e.out.toList
    if e.rep.overflow then (printed ++ ["!panic"], e.tt) else
    let lines := printed ++
      [ row "deferred" e.deferred, row "pending" (e.chan.map fun l => l.trimAscii.toString),
        s!"result best={r.bestMove.hex} nodes={r.nodes} score={r.score} depth={r.depth} complete={if r.complete then 1 else 0} tthits={r.ttHits}",
        row "polls" (e.pollLog.toList.map toString),
        s!"end ply={e.ply} repidx={e.rep.index} stopping={if e.stopping then 1 else 0}",
        s!"unchanged game=1 rep={if e.rep.pre == rep.pre && e.rep.index == rep.index then 1 else 0}",
        s!"poststop {e.postStopWrites}",
        s!"trace {hex16 e.digest} {e.events}" ]
    (lines, e.tt)

def handle (line : String) (tt : TT) : List String × TT :=
  let (cmd, rest) := match line.splitOn " " with
    | [] => ("", "")
    | c :: r => (c, String.intercalate " " r)
  match cmd with
  | "consts" => (cmdConsts, tt)
  | "sliding" => (cmdSliding, tt)
  | "attack" =>
    match words rest with
    | [k, sq, occ] =>
      match parseNat? sq, parseHex? occ with
      | some sq, some occ => (match attackOf k sq occ with | some v => [hex16 v] | none => ["!bad"], tt)
      | _, _ => (["!panic"], tt)
    | _ => (["!panic"], tt)
  | "attackall" =>
    match words rest with
    | s :: r => ((cmdAttackAll ((parseNat? s).getD 1).toUInt64 ((r.head?.bind parseNat?).getD 1) false), tt)
    | _ => (["!panic"], tt)
  | "gen" => (cmdGen rest, tt)
  | "play" => (cmdPlay rest, tt)
  | "fen" => (cmdFen rest, tt)
  | "position" => (cmdPosition rest, tt)
  | "show" => (cmdShow rest, tt)
  | "eval" => (cmdEval rest, tt)
  | "tt" => cmdTT rest tt
  | "budget" => (cmdBudget rest, tt)
  | "perft" => (cmdPerft rest, tt)
  | "search" => cmdSearch rest tt
  | "session" => (cmdSession rest, tt)
  | "oracle" =>
    (match words rest with
     | "attackall" :: s :: r => cmdAttackAll ((parseNat? s).getD 1).toUInt64 ((r.head?.bind parseNat?).getD 1) true
     | "wf" :: _ => cmdWf ((rest.drop 2).trimAscii.toString)
     | "nval" :: _ => cmdNval ((rest.drop 4).trimAscii.toString)
     | "forced" :: _ => cmdForced ((rest.drop 6).trimAscii.toString)
     | "mirror" :: _ => cmdMirror ((rest.drop 6).trimAscii.toString)
     | _ => Spec.oracle rest, tt)
  | _ => (["!unknown"], tt)

partial def loop (h : IO.FS.Stream) (out : IO.FS.Stream) (tt : TT) : IO Unit := do
  let line ← h.getLine
  if line.isEmpty then return ()
  let line := (line.dropEndWhile (fun c => c == '\n' || c == '\r')).toString
  if line.isEmpty then loop h out tt else
  let (lines, tt) := handle line tt
  for l in lines do out.putStrLn l
  out.putStrLn "."
  out.flush
  loop h out tt

def main : IO Unit := do
  let stdin ← IO.getStdin
  let stdout ← IO.getStdout
  loop stdin stdout TT.new
