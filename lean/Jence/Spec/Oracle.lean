/-
  Oracles: the specification evaluated on concrete inputs, for the correspondence harness and the
  failing-input search. `abs` is the abstraction map from the engine's position to the rules' position.
-/
import Jence.Spec.Rules
import Jence.Model.Search
namespace Jence.Spec
open Jence

def kindOfIndex (p : Nat) : Kind :=
  match p % 6 with
  | 0 => .pawn | 1 => .knight | 2 => .bishop | 3 => .rook | 4 => .queen | _ => .king

def indexOfPiece (pc : Piece) : Nat :=
  (if pc.white then 0 else 6) + (match pc.kind with
    | .pawn => 0 | .knight => 1 | .bishop => 2 | .rook => 3 | .queen => 4 | .king => 5)

/-- abstraction: what position the engine's data denotes (first piece set that has the square) -/
def abs (g : Game) : Position where
  board := (Array.range 64).map fun s =>
    ((List.range 12).find? fun p => getBit (g.bb p) s).map fun p => ⟨p < 6, kindOfIndex p⟩
  white := g.white
  wk := g.castling &&& 1 != 0
  wq := g.castling &&& 2 != 0
  bk := g.castling &&& 4 != 0
  bq := g.castling &&& 8 != 0
  ep := if g.ep == SQNONE then none else some g.ep
  half := g.halfMoves
  full := g.fullMoves

/-- concretisation: the engine data for a rules position (key computed from scratch) -/
def toGame (p : Position) : Game :=
  let bbs : Array UInt64 := (List.range 64).foldl (fun a s =>
    match at_ p s with
    | some pc => let i := indexOfPiece pc; a.setIfInBounds i (setBit (a.getD i 0) s)
    | none => a) (Array.replicate 12 0)
  let w := (List.range 6).foldl (fun o i => o ||| bbs.getD i 0) 0
  let b := (List.range 6).foldl (fun o i => o ||| bbs.getD (6 + i) 0) 0
  let c : Nat := (if p.wk then 1 else 0) + (if p.wq then 2 else 0) + (if p.bk then 4 else 0) + (if p.bq then 8 else 0)
  let g : Game := ⟨bbs, w, b, w ||| b, p.white, p.ep.getD SQNONE, c, p.full, p.half, 0⟩
  { g with key := scratchKey g }

/-- identity of a position for repetition purposes -/
def ident (p : Position) : String :=
  String.intercalate " " ((toFen p).splitOn " " |>.take 4)

/-- structural well-formedness of an engine position, checked with the rules' own notions -/
def wfViolations (g : Game) : List String :=
  let union (l : List Nat) := l.foldl (fun o i => o ||| g.bb i) (0 : UInt64)
  let p := abs g
  (if g.bbs.size != 12 then ["size"] else []) ++
  (if g.whiteOcc != union [0, 1, 2, 3, 4, 5] then ["white-occupancy"] else []) ++
  (if g.blackOcc != union [6, 7, 8, 9, 10, 11] then ["black-occupancy"] else []) ++
  (if g.allOcc != (g.whiteOcc ||| g.blackOcc) then ["all-occupancy"] else []) ++
  (if (List.range 12).any (fun i => (List.range 12).any fun j => i < j && (g.bb i &&& g.bb j) != 0) then ["overlap"] else []) ++
  (if popCount (g.bb WK) != 1 then ["white-king-count"] else []) ++
  (if popCount (g.bb BK) != 1 then ["black-king-count"] else []) ++
  (if ((g.bb WP ||| g.bb BP) &&& 0xFF000000000000FF) != 0 then ["pawn-on-back-row"] else []) ++
  (if inCheck p (!p.white) then ["side-not-to-move-in-check"] else []) ++
  (if g.key != scratchKey g then ["key"] else []) ++
  (if g.castling > 15 || g.ep > 64 then ["range"] else [])

-- minimax (C19) ----------------------------------------------------------------------------------

def captures (p : Position) : List SMove := (legalMoves p).filter (isCapture p)

/-- capture-only quiescence with stand-pat -/
def qValue (ev : Position → Int) : Nat → Position → Nat → Int
  | 0, p, _ => ev p
  | fuel + 1, p, ply =>
    let e := ev p
    if ply > 63 || p.half == 100 then e else
    (captures p).foldl (fun best m => max best (-(qValue ev fuel (apply p m) (ply + 1)))) e

/-- plain negamax: +1 depth per in-check node, mate by distance, stalemate 0, draw for positions of `hist`,
    quiescence at the horizon, static evaluation at the ply cap -/
def value (ev : Position → Int) (hist : List String) : Nat → Position → Nat → Nat → Int
  | 0, p, _, _ => ev p
  | fuel + 1, p, depth, ply =>
    if ply > 0 && hist.contains (ident p) then 0 else
    if ply >= 63 then ev p else
    if depth == 0 || p.half == 100 then qValue ev 70 p ply else
    let chk := inCheck p p.white
    let nDepth := if chk then depth + 1 else depth
    let ms := legalMoves p
    if ms.isEmpty then (if chk then -Gen.MATE_VALUE + ply else 0) else
    match ms.map (fun m => -(value ev hist fuel (apply p m) (nDepth - 1) (ply + 1))) with
    | [] => 0
    | v :: vs => vs.foldl max v

def evalOf (p : Position) : Int := Jence.evaluate (toGame p)

/-! The same two functions computed with plain fail-soft alpha-beta cut-offs (no move ordering, no null
    window) and a node budget, so that the oracle terminates on tactical positions. With a full window the
    result is the minimax value; `none` = budget exhausted. -/

def kindValue : Kind → Nat
  | .pawn => 1 | .knight => 3 | .bishop => 3 | .rook => 5 | .queen => 9 | .king => 20

/-- most valuable victim first, least valuable attacker first (ordering does not change the value) -/
def orderKey (p : Position) (m : SMove) : Nat :=
  let v := match at_ p m.dst with | some pc => kindValue pc.kind | none => if isEnPassant p m then 1 else 0
  let a := match at_ p m.src with | some pc => kindValue pc.kind | none => 0
  let pr := match m.promo with | some k => kindValue k | none => 0
  (v + pr) * 32 + (31 - a)

def ordered (p : Position) (ms : List SMove) : List SMove :=
  ((ms.map fun m => (orderKey p m, m)).toArray.qsort (fun a b => a.1 > b.1)).toList.map (·.2)

def qLoopAB (rec : Position → Int → Int → Nat → Option Int × Nat) (p : Position) (beta : Int) :
    List SMove → Int → Int → Nat → Option Int × Nat
  | [], best, _, n => (some best, n)
  | m :: ms, best, alpha, n =>
    match rec (apply p m) (-beta) (-alpha) n with
    | (none, n) => (none, n)
    | (some v, n) =>
      let s := -v
      let best := max best s
      if best >= beta then (some best, n) else qLoopAB rec p beta ms best (max alpha best) n

def qValueAB (ev : Position → Int) (budget : Nat) : Nat → Position → Nat → Int → Int → Nat → Option Int × Nat
  | 0, p, _, _, _, n => (some (ev p), n)
  | fuel + 1, p, ply, alpha, beta, n =>
    if n > budget then (none, n) else
    let e := ev p
    if ply > 63 || p.half == 100 then (some e, n + 1) else
    if e >= beta then (some e, n + 1) else
    qLoopAB (fun q a b n => qValueAB ev budget fuel q (ply + 1) a b n) p beta (ordered p (captures p)) e (max alpha e) (n + 1)

def valueAB (ev : Position → Int) (hist : List String) (budget : Nat) :
    Nat → Position → Nat → Nat → Int → Int → Nat → Option Int × Nat
  | 0, p, _, _, _, _, n => (some (ev p), n)
  | fuel + 1, p, depth, ply, alpha, beta, n =>
    if n > budget then (none, n) else
    if ply > 0 && hist.contains (ident p) then (some 0, n + 1) else
    if ply >= 63 then (some (ev p), n + 1) else
    if depth == 0 || p.half == 100 then qValueAB ev budget 70 p ply alpha beta n else
    let chk := inCheck p p.white
    let nDepth := if chk then depth + 1 else depth
    let ms := legalMoves p
    if ms.isEmpty then (some (if chk then -Gen.MATE_VALUE + ply else 0), n + 1) else
    qLoopAB (fun q a b n => valueAB ev hist budget fuel q (nDepth - 1) (ply + 1) a b n) p beta (ordered p ms) (-1000000) alpha (n + 1)

-- forced mates (C11) -----------------------------------------------------------------------------

mutual
/-- the side to move can force checkmate within `n` of its own moves -/
def mateIn : Nat → Position → Bool
  | 0, _ => false
  | n + 1, p => (legalMoves p).any fun m =>
      let q := apply p m
      isMate q || (n > 0 && matedWithin n q)
/-- the side to move has a move, and whatever it plays the opponent can force mate within `n` moves -/
def matedWithin : Nat → Position → Bool
  | 0, _ => false
  | n + 1, p => let ms := legalMoves p; !ms.isEmpty && ms.all fun m => mateIn (n + 1) (apply p m) |> fun b => b
end

def sortStrings (l : List String) : List String := (l.toArray.qsort (· < ·)).toList

def playUci (p : Position) : List String → Option Position
  | [] => some p
  | s :: rest => match parseUci p s with
    | some m => playUci (apply p m) rest
    | none => none

def words' (s : String) : List String := (s.splitOn " ").filter (· != "")
def semis' (s : String) : List String := (s.splitOn ";").map (·.trimAscii.toString)

def xs (x : UInt64) : UInt64 :=
  let x := x ^^^ (x <<< (13 : UInt64))
  let x := x ^^^ (x >>> (7 : UInt64))
  x ^^^ (x <<< (17 : UInt64))

/-- a move is "special" when it castles, captures en passant, promotes, captures or gives check -/
def isSpecial (p : Position) (m : SMove) : Bool :=
  isCastle p m || isEnPassant p m || m.promo.isSome || isCapture p m || inCheck (apply p m) (!p.white)

/-- seeded random legal playout from `p`; special moves are preferred with probability `bias`/8 -/
def playout : Nat → Position → UInt64 → Nat → Array String → Array String → Array String × Array String
  | 0, _, _, _, ms, fs => (ms, fs)
  | n + 1, p, rng, bias, ms, fs =>
    let legal := legalMoves p
    if legal.isEmpty || p.half >= 100 then (ms, fs) else
    let rng := xs rng
    let special := legal.filter (isSpecial p)
    let pool := if !special.isEmpty && (rng >>> (40 : UInt64)).toNat % 8 < bias then special else legal
    let rng := xs rng
    let m := pool.getD ((rng >>> (20 : UInt64)).toNat % pool.length) default
    let q := apply p m
    playout n q rng bias (ms.push m.uci) (fs.push (toFen q))

/-- `oracle <sub> …` requests of the model driver -/
def oracle (rest : String) : List String :=
  let (sub, arg) := match rest.splitOn " " with
    | [] => ("", "") | c :: r => (c, String.intercalate " " r)
  match sub with
  | "legal" =>
    match ofFen arg with
    | none => ["!none"]
    | some p =>
      [ "legal " ++ String.intercalate " " (sortStrings ((legalMoves p).map SMove.uci)),
        "captures " ++ String.intercalate " " (sortStrings ((captures p).map SMove.uci)),
        s!"check {if inCheck p p.white then 1 else 0}",
        s!"terminal {if isMate p then "mate" else if isStalemate p then "stalemate" else "no"}" ]
  | "play" =>
    let parts := semis' arg
    match ofFen (parts.headD "") with
    | none => ["!none"]
    | some p =>
      let rec go (ms : List String) (p : Position) (acc : Array String) : Array String :=
        match ms with
        | [] => acc
        | s :: r => match parseUci p s with
          | some m => let q := apply p m; go r q (acc.push (toFen q))
          | none => acc.push s!"!illegal {s}"
      (go (words' (parts.getD 1 "")) p #[toFen p]).toList
  | "absfen" =>
    -- the rules position an engine dump denotes, and its structural defects
    let t := words' arg
    let hexs := t.take 15 |>.map fun s => s.toList.foldl (fun (v : Nat) c =>
      v * 16 + (if c.isDigit then c.toNat - 48 else c.toNat - 87)) 0
    if t.length < 21 then ["!none"] else
    let key : UInt64 := ((t.getD 20 "").toList.foldl (fun (v : Nat) c => v * 16 + (if c.isDigit then c.toNat - 48 else c.toNat - 87)) 0).toUInt64
    let g : Game := ⟨((hexs.take 12).map (·.toUInt64)).toArray, (hexs.getD 12 0).toUInt64, (hexs.getD 13 0).toUInt64,
      (hexs.getD 14 0).toUInt64, t.getD 15 "" == "w", (t.getD 16 "").toNat!, (t.getD 17 "").toNat!,
      (t.getD 19 "").toNat!, (t.getD 18 "").toNat!, key⟩
    [toFen (abs g), "wf " ++ String.intercalate "," (wfViolations g)]
  | "playout" =>
    -- playout <fen> ; seed ; length ; bias  -> the moves and the FEN after each
    let parts := semis' arg
    match ofFen (parts.headD ""), (parts.getD 1 "").toNat?, (parts.getD 2 "").toNat?, (parts.getD 3 "").toNat? with
    | some p, some seed, some n, some bias =>
      let (ms, fs) := playout n p (seed.toUInt64 ||| 1) bias #[] #[]
      ["moves " ++ String.intercalate " " ms.toList] ++ fs.toList
    | _, _, _, _ => ["!none"]
  | "perft" =>
    let parts := semis' arg
    match ofFen (parts.headD ""), (parts.getD 1 "").toNat? with
    | some p, some d => [toString (perft p d)]
    | _, _ => ["!none"]
  | "succ" =>
    -- all legal successors: "<uci> <fen>" per line, then what a pass would give ("null <ident>") when not in check
    match ofFen arg with
    | none => ["!none"]
    | some p =>
      ((legalMoves p).map fun m => m.uci ++ " " ++ toFen (apply p m)) ++
      (if inCheck p p.white then [] else ["null " ++ ident { p with white := !p.white, ep := none }]) ++
      [s!"terminal {if isMate p then "mate" else if isStalemate p then "stalemate" else "no"}"]
  | "attack" =>
    -- attack R|B|Q sq occhex : the coordinate walk
    match words' arg with
    | [k, sq, occ] =>
      let o : UInt64 := (occ.toList.foldl (fun (v : Nat) c => v * 16 + (if c.isDigit then c.toNat - 48 else c.toNat - 87)) 0).toUInt64
      let s := sq.toNat!
      (match k with
       | "R" => [hex16 (slideRook s o)] | "B" => [hex16 (slideBishop s o)]
       | "Q" => [hex16 (slideRook s o ||| slideBishop s o)] | _ => ["!bad"])
    | _ => ["!bad"]
  | "leapers" =>
    (List.range 64).map fun s =>
      s!"{s} {hex16 (pawnPattern true s)} {hex16 (pawnPattern false s)} {hex16 (knightPattern s)} {hex16 (kingPattern s)}"
  | "minimax" =>
    let parts := semis' arg
    match ofFen (parts.headD ""), (parts.getD 1 "").toNat? with
    | some p, some d =>
      let budget := ((parts.getD 2 "").toNat?).getD 300000
      match valueAB evalOf [ident p] budget 80 p d 0 (-1000000) 1000000 0 with
      | (some v, n) => [toString v, s!"nodes {n}"]
      | (none, n) => ["!budget", s!"nodes {n}"]
    | _, _ => ["!none"]
  | "mate" =>
    let parts := semis' arg
    match ofFen (parts.headD ""), (parts.getD 1 "").toNat? with
    | some p, some n =>
      [s!"mateIn {(List.range n).map fun k => if mateIn (k + 1) p then 1 else 0}",
       s!"matedWithin {(List.range n).map fun k => if matedWithin (k + 1) p then 1 else 0}",
       s!"terminal {if isMate p then "mate" else if isStalemate p then "stalemate" else "no"}"]
    | _, _ => ["!none"]
  | "line" =>
    -- play a UCI line from a FEN: is it legal all the way, and does it end in checkmate
    let parts := semis' arg
    match ofFen (parts.headD "") with
    | none => ["!none"]
    | some p => match playUci p (words' (parts.getD 1 "")) with
      | none => ["illegal"]
      | some q => [s!"legal {if isMate q then "mate" else if isStalemate q then "stalemate" else "no"}"]
  | _ => ["!unknown"]

end Jence.Spec
