/-
  The rules of chess on a mailbox board with coordinate arithmetic: no bitboards, no tables, no
  move flags. This is the specification the engine is measured against; it is meant to be read.
  Squares are numbered as the engine (and FEN) lists them: `8 * row + file`, row 0 = rank 8, file 0 = a.
-/
import Jence.Model.Bits
namespace Jence.Spec

inductive Kind | pawn | knight | bishop | rook | queen | king
  deriving DecidableEq, Repr, Inhabited

structure Piece where
  white : Bool
  kind : Kind
  deriving DecidableEq, Repr, Inhabited

structure Position where
  board : Array (Option Piece)      -- 64 squares
  white : Bool                      -- side to move
  wk : Bool                         -- castling rights
  wq : Bool
  bk : Bool
  bq : Bool
  ep : Option Nat                   -- en-passant target square
  half : Nat
  full : Nat
  deriving Inhabited, BEq

structure SMove where
  src : Nat
  dst : Nat
  promo : Option Kind
  deriving DecidableEq, Repr, Inhabited

def at_ (p : Position) (sq : Nat) : Option Piece := (p.board.getD sq none)

def onBoard (f r : Int) : Bool := 0 ≤ f && f < 8 && 0 ≤ r && r < 8
def sqOf (f r : Int) : Nat := (8 * r + f).toNat
def fileOf (sq : Nat) : Int := sq % 8
def rowOf (sq : Nat) : Int := sq / 8

def rookDirs : List (Int × Int) := [(1, 0), (-1, 0), (0, 1), (0, -1)]
def bishopDirs : List (Int × Int) := [(1, 1), (1, -1), (-1, 1), (-1, -1)]
def knightJumps : List (Int × Int) := [(1, 2), (2, 1), (2, -1), (1, -2), (-1, -2), (-2, -1), (-2, 1), (-1, 2)]
def kingSteps : List (Int × Int) := rookDirs ++ bishopDirs

/-- squares reached from `(f, r)` walking in direction `(df, dr)`: each square reached is included, and the
    walk stops after the first occupied one -/
def walk (occupied : Nat → Bool) (df dr : Int) : Nat → Int → Int → List Nat
  | 0, _, _ => []
  | n + 1, f, r =>
    let f' := f + df
    let r' := r + dr
    if onBoard f' r' then
      let s := sqOf f' r'
      if occupied s then [s] else s :: walk occupied df dr n f' r'
    else []

def slide (occupied : Nat → Bool) (sq : Nat) (dirs : List (Int × Int)) : List Nat :=
  dirs.flatMap fun d => walk occupied d.1 d.2 7 (fileOf sq) (rowOf sq)

def jumps (sq : Nat) (offs : List (Int × Int)) : List Nat :=
  offs.filterMap fun d =>
    let f := fileOf sq + d.1
    let r := rowOf sq + d.2
    if onBoard f r then some (sqOf f r) else none

/-- squares a pawn of the given colour standing on `sq` attacks -/
def pawnAttacks (white : Bool) (sq : Nat) : List Nat :=
  jumps sq (if white then [(-1, -1), (1, -1)] else [(-1, 1), (1, 1)])

/-- squares attacked by the piece `pc` standing on `sq` -/
def attackedFrom (occupied : Nat → Bool) (pc : Piece) (sq : Nat) : List Nat :=
  match pc.kind with
  | .pawn => pawnAttacks pc.white sq
  | .knight => jumps sq knightJumps
  | .king => jumps sq kingSteps
  | .rook => slide occupied sq rookDirs
  | .bishop => slide occupied sq bishopDirs
  | .queen => slide occupied sq (rookDirs ++ bishopDirs)

def occupiedIn (p : Position) (sq : Nat) : Bool := (at_ p sq).isSome

/-- is `sq` attacked by some piece of colour `byWhite` -/
def attacked (p : Position) (sq : Nat) (byWhite : Bool) : Bool :=
  (List.range 64).any fun s =>
    match at_ p s with
    | some pc => pc.white == byWhite && (attackedFrom (occupiedIn p) pc s).contains sq
    | none => false

def kingSquare (p : Position) (white : Bool) : Option Nat :=
  (List.range 64).find? fun s => at_ p s == some ⟨white, .king⟩

def inCheck (p : Position) (white : Bool) : Bool :=
  match kingSquare p white with
  | some k => attacked p k (!white)
  | none => false

def promoKinds : List Kind := [.queen, .knight, .rook, .bishop]

/-- pseudo-legal moves of the piece on `s` (own colour to move), castling excluded -/
def pieceMoves (p : Position) (s : Nat) (pc : Piece) : List SMove :=
  let own (t : Nat) : Bool := match at_ p t with | some q => q.white == pc.white | none => false
  let enemy (t : Nat) : Bool := match at_ p t with | some q => q.white != pc.white | none => false
  match pc.kind with
  | .pawn =>
    let dr : Int := if pc.white then -1 else 1
    let f := fileOf s
    let r := rowOf s
    let lastRow : Int := if pc.white then 0 else 7
    let startRow : Int := if pc.white then 6 else 1
    let withPromo (t : Nat) : List SMove :=
      if rowOf t == lastRow then promoKinds.map fun k => ⟨s, t, some k⟩ else [⟨s, t, none⟩]
    let one := if onBoard f (r + dr) && !occupiedIn p (sqOf f (r + dr)) then withPromo (sqOf f (r + dr)) else []
    let two := if r == startRow && !occupiedIn p (sqOf f (r + dr)) && !occupiedIn p (sqOf f (r + 2 * dr))
               then [⟨s, sqOf f (r + 2 * dr), none⟩] else []
    let caps := (pawnAttacks pc.white s).flatMap fun t =>
      if enemy t then withPromo t
      else if p.ep == some t && !occupiedIn p t then [⟨s, t, none⟩] else []
    one ++ two ++ caps
  | _ => ((attackedFrom (occupiedIn p) pc s).filter fun t => !own t).map fun t => ⟨s, t, none⟩

/-- castling moves available as far as rights, empty squares and attacked squares go
    (king not in check, does not pass over or land on an attacked square) -/
def castlingMoves (p : Position) : List SMove :=
  let w := p.white
  let row : Nat := if w then 56 else 0
  let ksq := row + 4
  let free (l : List Nat) : Bool := l.all fun s => !occupiedIn p s
  let safe (l : List Nat) : Bool := l.all fun s => !attacked p s (!w)
  let kingHome := at_ p ksq == some ⟨w, .king⟩
  let ks := (if w then p.wk else p.bk) && kingHome && at_ p (row + 7) == some ⟨w, .rook⟩ &&
            free [row + 5, row + 6] && safe [ksq, row + 5, row + 6]
  let qs := (if w then p.wq else p.bq) && kingHome && at_ p row == some ⟨w, .rook⟩ &&
            free [row + 1, row + 2, row + 3] && safe [ksq, row + 3, row + 2]
  (if ks then [⟨ksq, row + 6, none⟩] else []) ++ (if qs then [⟨ksq, row + 2, none⟩] else [])

def isCastle (p : Position) (m : SMove) : Bool :=
  (match at_ p m.src with | some pc => pc.kind == .king | none => false) &&
  (m.dst == m.src + 2 || m.dst + 2 == m.src)

def isEnPassant (p : Position) (m : SMove) : Bool :=
  (match at_ p m.src with | some pc => pc.kind == .pawn | none => false) &&
  p.ep == some m.dst && fileOf m.src != fileOf m.dst && !occupiedIn p m.dst

def isCapture (p : Position) (m : SMove) : Bool := occupiedIn p m.dst || isEnPassant p m

def setSq (b : Array (Option Piece)) (s : Nat) (v : Option Piece) : Array (Option Piece) := b.setIfInBounds s v

/-- the position after playing `m` (assumed pseudo-legal) -/
def apply (p : Position) (m : SMove) : Position :=
  match at_ p m.src with
  | none => p
  | some pc =>
    let capture := isCapture p m
    let b := setSq p.board m.src none
    let b := if isEnPassant p m then setSq b (sqOf (fileOf m.dst) (rowOf m.src)) none else b
    let placed : Piece := match m.promo with | some k => ⟨pc.white, k⟩ | none => pc
    let b := setSq b m.dst (some placed)
    let b := if isCastle p m then
        if m.dst > m.src then setSq (setSq b (m.src + 3) none) (m.src + 1) (some ⟨pc.white, .rook⟩)
        else setSq (setSq b (m.src - 4) none) (m.src - 1) (some ⟨pc.white, .rook⟩)
      else b
    -- a right is lost when its king or rook square is left or entered
    let touch (s : Nat) : Bool := m.src == s || m.dst == s
    let dbl := pc.kind == .pawn && (m.dst == m.src + 16 || m.dst + 16 == m.src)
    { board := b, white := !p.white,
      wk := p.wk && !touch 60 && !touch 63, wq := p.wq && !touch 60 && !touch 56,
      bk := p.bk && !touch 4 && !touch 7, bq := p.bq && !touch 4 && !touch 0,
      ep := if dbl then some ((m.src + m.dst) / 2) else none,
      half := if pc.kind == .pawn || capture then 0 else p.half + 1,
      full := if p.white then p.full else p.full + 1 }

def pseudoLegal (p : Position) : List SMove :=
  ((List.range 64).flatMap fun s =>
    match at_ p s with
    | some pc => if pc.white == p.white then pieceMoves p s pc else []
    | none => []) ++ castlingMoves p

/-- the legal moves: pseudo-legal moves after which the mover's king is not attacked -/
def legalMoves (p : Position) : List SMove :=
  (pseudoLegal p).filter fun m => !inCheck (apply p m) p.white

def isMate (p : Position) : Bool := (legalMoves p).isEmpty && inCheck p p.white
def isStalemate (p : Position) : Bool := (legalMoves p).isEmpty && !inCheck p p.white

def perft (p : Position) : Nat → Nat
  | 0 => 1
  | d + 1 => ((legalMoves p).map fun m => perft (apply p m) d).sum

def playAll (p : Position) : List SMove → Position
  | [] => p
  | m :: ms => playAll (apply p m) ms

-- text forms -----------------------------------------------------------------------------------

def kindChar : Kind → Char
  | .pawn => 'p' | .knight => 'n' | .bishop => 'b' | .rook => 'r' | .queen => 'q' | .king => 'k'

def pieceChar (pc : Piece) : Char := if pc.white then (kindChar pc.kind).toUpper else kindChar pc.kind

def squareName (s : Nat) : String :=
  String.ofList [Char.ofNat (97 + s % 8), Char.ofNat (48 + (8 - s / 8))]

def SMove.uci (m : SMove) : String :=
  squareName m.src ++ squareName m.dst ++ (match m.promo with | some k => String.singleton (kindChar k) | none => "")

def rowFen (p : Position) (r : Nat) : String :=
  let (s, run) := (List.range 8).foldl (fun (acc : String × Nat) f =>
    match at_ p (8 * r + f) with
    | some pc => ((if acc.2 > 0 then acc.1 ++ toString acc.2 else acc.1).push (pieceChar pc), 0)
    | none => (acc.1, acc.2 + 1)) ("", 0)
  if run > 0 then s ++ toString run else s

def toFen (p : Position) : String :=
  let rows := String.intercalate "/" ((List.range 8).map (rowFen p))
  let cast := (if p.wk then "K" else "") ++ (if p.wq then "Q" else "") ++ (if p.bk then "k" else "") ++ (if p.bq then "q" else "")
  rows ++ " " ++ (if p.white then "w" else "b") ++ " " ++ (if cast == "" then "-" else cast) ++ " " ++
    (match p.ep with | some s => squareName s | none => "-") ++ " " ++ toString p.half ++ " " ++ toString p.full

def charPiece (c : Char) : Option Piece :=
  let k : Option Kind := match c.toLower with
    | 'p' => some .pawn | 'n' => some .knight | 'b' => some .bishop | 'r' => some .rook
    | 'q' => some .queen | 'k' => some .king | _ => none
  k.map fun k => ⟨c.isUpper, k⟩

def parseSquare (s : String) : Option Nat :=
  match s.toList with
  | [f, r] => if 'a' ≤ f ∧ f ≤ 'h' ∧ '1' ≤ r ∧ r ≤ '8' then some (8 * (8 - (r.toNat - 48)) + (f.toNat - 97)) else none
  | _ => none

/-- strict FEN reader (six fields) -/
def ofFen (s : String) : Option Position :=
  match (s.trimAscii.toString.splitOn " ").filter (· != "") with
  | [rows, side, cast, ep, half, full] =>
    let cells : Option (List (Option Piece)) := rows.toList.foldl (fun acc c =>
      acc.bind fun l =>
        if c == '/' then some l
        else if c.isDigit then some (l ++ List.replicate (c.toNat - 48) none)
        else (charPiece c).map fun pc => l ++ [some pc]) (some [])
    match cells, half.toNat?, full.toNat? with
    | some cells, some h, some f =>
      if cells.length != 64 then none else
      let epS : Option (Option Nat) := if ep == "-" then some none else (parseSquare ep).map some
      epS.map fun e =>
        { board := cells.toArray, white := side == "w", wk := cast.toList.contains 'K', wq := cast.toList.contains 'Q',
          bk := cast.toList.contains 'k', bq := cast.toList.contains 'q', ep := e, half := h, full := f }
    | _, _, _ => none
  | _ => none

def parseUci (p : Position) (s : String) : Option SMove :=
  (legalMoves p).find? fun m => m.uci == s

-- sliding attacks over an arbitrary occupancy (C15) --------------------------------------------

def toBits (l : List Nat) : UInt64 := l.foldl (fun b s => Jence.setBit b s) 0

def slideRook (sq : Nat) (occ : UInt64) : UInt64 := toBits (slide (Jence.getBit occ) sq rookDirs)
def slideBishop (sq : Nat) (occ : UInt64) : UInt64 := toBits (slide (Jence.getBit occ) sq bishopDirs)
def knightPattern (sq : Nat) : UInt64 := toBits (jumps sq knightJumps)
def kingPattern (sq : Nat) : UInt64 := toBits (jumps sq kingSteps)
def pawnPattern (white : Bool) (sq : Nat) : UInt64 := toBits (pawnAttacks white sq)

end Jence.Spec
