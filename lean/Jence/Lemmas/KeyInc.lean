/-
  T4.1: `make_search_move` maintains the position key: if the key was the from-scratch key before and the move fits the
  board (`MoveOk`: what a generated move guarantees about the squares it touches), it is the from-scratch key after.
-/
import Jence.Lemmas.XorSum
import Jence.Model.MoveOk
namespace Jence
open Jence

def sideK (white : Bool) : UInt64 := if white then 0 else SIDE_KEY
def epK (ep : Nat) : UInt64 := if ep != SQNONE then epKey ep else 0

theorem scratchKey_eq (g : Game) : scratchKey g = pieceSum g.bbs ^^^ castleKey g.castling ^^^ sideK g.white ^^^ epK g.ep := by
  unfold scratchKey sideK epK pieceSum Game.bb
  simp only
  cases g.white <;> cases (g.ep != SQNONE) <;> simp

theorem sideK_not (w : Bool) : sideK (!w) = sideK w ^^^ SIDE_KEY := by
  cases w <;> simp [sideK]

/-- "the key is the piece sum plus `s`" survives a step that XORs the same two keys into both -/
theorem key_step2 (K T s a b : UInt64) (h : K = T ^^^ s) : K ^^^ a ^^^ b = (T ^^^ a ^^^ b) ^^^ s := by
  subst h; ac_rfl

theorem key_step1 (K T s a : UInt64) (h : K = T ^^^ s) : K ^^^ a = (T ^^^ a) ^^^ s := by
  subst h; ac_rfl

theorem xor_absorb (a x f t : UInt64) : a ^^^ x ^^^ (x ^^^ f ^^^ t) = a ^^^ f ^^^ t := by
  have : a ^^^ x ^^^ (x ^^^ f ^^^ t) = a ^^^ f ^^^ t ^^^ (x ^^^ x) := by ac_rfl
  rw [this, UInt64.xor_self, UInt64.xor_zero]

theorem xor_absorb1 (a x f : UInt64) : a ^^^ x ^^^ (x ^^^ f) = a ^^^ f := by
  have : a ^^^ x ^^^ (x ^^^ f) = a ^^^ f ^^^ (x ^^^ x) := by ac_rfl
  rw [this, UInt64.xor_self, UInt64.xor_zero]

/-- step 1 takes the castling and en-passant keys out -/
theorem preKeys_key (g : Game) (h : g.key = scratchKey g) :
    (preKeys g).key = pieceSum g.bbs ^^^ sideK g.white ∧ (preKeys g).bbs = g.bbs ∧ (preKeys g).white = g.white ∧
    (preKeys g).castling = g.castling := by
  unfold preKeys
  rw [scratchKey_eq] at h
  refine ⟨?_, ?_, ?_, ?_⟩
  · simp only
    by_cases he : (g.ep != SQNONE) = true
    · simp only [he, ↓reduceIte]
      rw [h]; unfold epK; simp only [he, ↓reduceIte]
      have : pieceSum g.bbs ^^^ castleKey g.castling ^^^ sideK g.white ^^^ epKey g.ep ^^^ epKey g.ep ^^^ castleKey g.castling
          = pieceSum g.bbs ^^^ sideK g.white ^^^ (epKey g.ep ^^^ epKey g.ep) ^^^ (castleKey g.castling ^^^ castleKey g.castling) := by ac_rfl
      rw [this, UInt64.xor_self, UInt64.xor_self, UInt64.xor_zero, UInt64.xor_zero]
    · simp only [he, Bool.false_eq_true, ↓reduceIte]
      rw [h]; unfold epK; simp only [he, Bool.false_eq_true, ↓reduceIte, UInt64.xor_zero]
      have : pieceSum g.bbs ^^^ castleKey g.castling ^^^ sideK g.white ^^^ castleKey g.castling
          = pieceSum g.bbs ^^^ sideK g.white ^^^ (castleKey g.castling ^^^ castleKey g.castling) := by ac_rfl
      rw [this, UInt64.xor_self, UInt64.xor_zero]
  · split <;> rfl
  · split <;> rfl
  · split <;> rfl

/-- moving a piece inside its set: both the set's key sum and the incremental key change by the two square keys -/
theorem move_in_set (bbs : Array UInt64) (p f t : Nat) (hp : p < 12) (hsz : bbs.size = 12) (hf : f < 64) (ht : t < 64)
    (hsrc : getBit (bbs.getD p 0) f = true) (hdst : getBit (bbs.getD p 0) t = false) :
    let b1 := bbs.setIfInBounds p (unsetBit (bbs.getD p 0) f)
    let b2 := b1.setIfInBounds p (setBit (b1.getD p 0) t)
    pieceSum b2 = pieceSum bbs ^^^ pieceKey p f ^^^ pieceKey p t ∧ b2.size = 12 := by
  simp only
  have hget : (bbs.setIfInBounds p (unsetBit (bbs.getD p 0) f)).getD p 0 = unsetBit (bbs.getD p 0) f := by
    simp [Array.getD_eq_getD_getElem?, Array.getElem?_setIfInBounds, hsz, hp]
  have hne : f ≠ t := by intro h; rw [h] at hsrc; rw [hsrc] at hdst; exact absurd hdst (by simp)
  have hclear : getBit (unsetBit (bbs.getD p 0) f) t = false := by
    rw [getBit_unsetBit _ f t hf ht, hdst]; simp
  have hsz1 : (bbs.setIfInBounds p (unsetBit (bbs.getD p 0) f)).size = 12 := by rw [Array.size_setIfInBounds]; exact hsz
  refine ⟨?_, by rw [Array.size_setIfInBounds]; exact hsz1⟩
  rw [pieceSum_set _ p _ hp hsz1, hget, xorPiece_setBit p _ t ht hclear,
    pieceSum_set bbs p _ hp hsz, xorPiece_unsetBit p _ f hf hsrc]
  generalize xorPiece p (bbs.getD p 0) = X
  rw [xor_cancel]
  exact xor_absorb _ _ _ _

theorem remove_in_set (bbs : Array UInt64) (q s : Nat) (hq : q < 12) (hsz : bbs.size = 12) (hs : s < 64)
    (hset : getBit (bbs.getD q 0) s = true) :
    pieceSum (bbs.setIfInBounds q (unsetBit (bbs.getD q 0) s)) = pieceSum bbs ^^^ pieceKey q s := by
  rw [pieceSum_set bbs q _ hq hsz, xorPiece_unsetBit q _ s hs hset]
  exact xor_absorb1 _ _ _

theorem add_in_set (bbs : Array UInt64) (q s : Nat) (hq : q < 12) (hsz : bbs.size = 12) (hs : s < 64)
    (hclear : getBit (bbs.getD q 0) s = false) :
    pieceSum (bbs.setIfInBounds q (setBit (bbs.getD q 0) s)) = pieceSum bbs ^^^ pieceKey q s := by
  rw [pieceSum_set bbs q _ hq hsz, xorPiece_setBit q _ s hs hclear]
  exact xor_absorb1 _ _ _

/-- the key is the piece sum plus a remainder `s`, and there are twelve piece sets -/
def KeyRel (g : Game) (s : UInt64) : Prop := g.key = pieceSum g.bbs ^^^ s ∧ g.bbs.size = 12

theorem preMove_rel (g : Game) (m : Move) (s : UInt64) (h : KeyRel g s) (hp : m.piece < 12) (hf : m.fromSq < 64) (ht : m.toSq < 64)
    (hsrc : getBit (g.bb m.piece) m.fromSq = true) (hdst : getBit (g.bb m.piece) m.toSq = false) :
    KeyRel (preMove g m) s ∧ (preMove g m).white = g.white ∧ (preMove g m).castling = g.castling ∧
    (∀ q, q ≠ m.piece → (preMove g m).bb q = g.bb q) ∧
    (∀ t, t < 64 → getBit ((preMove g m).bb m.piece) t = ((getBit (g.bb m.piece) t && decide (m.fromSq ≠ t)) || decide (m.toSq = t))) := by
  obtain ⟨hk, hsz⟩ := h
  obtain ⟨hsum, hsz2⟩ := move_in_set g.bbs m.piece m.fromSq m.toSq hp hsz hf ht hsrc hdst
  unfold preMove KeyRel
  simp only [Game.setBB, Game.bb]
  refine ⟨⟨?_, hsz2⟩, trivial, trivial, ?_, ?_⟩
  · rw [hsum, hk]; exact key_step2 _ _ _ _ _ rfl
  · intro q hq
    rw [getD_setIfInBounds_ne' _ _ _ _ _ (fun h => hq h.symm), getD_setIfInBounds_ne' _ _ _ _ _ (fun h => hq h.symm)]
  · intro t ht'
    have hget1 : (g.bbs.setIfInBounds m.piece (unsetBit (g.bbs.getD m.piece 0) m.fromSq)).getD m.piece 0 = unsetBit (g.bbs.getD m.piece 0) m.fromSq := by
      simp [Array.getD_eq_getD_getElem?, hsz, hp]
    have hsz1 : (g.bbs.setIfInBounds m.piece (unsetBit (g.bbs.getD m.piece 0) m.fromSq)).size = 12 := by rw [Array.size_setIfInBounds]; exact hsz
    have hget2 : ∀ v, ((g.bbs.setIfInBounds m.piece (unsetBit (g.bbs.getD m.piece 0) m.fromSq)).setIfInBounds m.piece v).getD m.piece 0 = v := by
      intro v; simp [Array.getD_eq_getD_getElem?, hsz, hp]
    rw [hget2, hget1, getBit_setBit _ _ _ ht ht', getBit_unsetBit _ _ _ hf ht']

theorem captureLoop_spec (g : Game) (start sq : Nat) : ∀ n k,
    (∃ p, captureLoop g start sq n k = ({ g with bbs := g.bbs.setIfInBounds p (unsetBit (g.bbs.getD p 0) sq) }, some p) ∧
          getBit (g.bbs.getD p 0) sq = true ∧ start + k ≤ p ∧ p < start + k + n) ∨
    captureLoop g start sq n k = (g, none) := by
  intro n
  induction n with
  | zero => intro k; right; rfl
  | succ n ih =>
    intro k
    simp only [captureLoop, Game.bb, Game.setBB]
    by_cases h : getBit (g.bbs.getD (start + k) 0) sq = true
    · left; exact ⟨start + k, by simp only [h, if_true], h, by omega, by omega⟩
    · simp only [h, Bool.false_eq_true, if_false]
      rcases ih (k + 1) with ⟨p, h1, h2, h3, h4⟩ | h1
      · left; exact ⟨p, h1, h2, by omega, by omega⟩
      · right; exact h1

theorem getD_set_same (bbs : Array UInt64) (p : Nat) (v : UInt64) (hp : p < 12) (hsz : bbs.size = 12) :
    (bbs.setIfInBounds p v).getD p 0 = v := by
  simp [Array.getD_eq_getD_getElem?, hsz, hp]

/-- removing the piece `q` standing on `sq` (set, key) keeps the key relation and touches only set `q` -/
theorem removeStep_rel (g : Game) (q sq : Nat) (s : UInt64) (h : KeyRel g s) (hq : q < 12) (hs : sq < 64)
    (hset : getBit (g.bb q) sq = true) (g' : Game)
    (hb : g'.bbs = g.bbs.setIfInBounds q (unsetBit (g.bbs.getD q 0) sq)) (hk : g'.key = g.key ^^^ pieceKey q sq) :
    KeyRel g' s ∧ (∀ r, r ≠ q → g'.bb r = g.bb r) := by
  obtain ⟨hkey, hsz⟩ := h
  refine ⟨⟨?_, by rw [hb, Array.size_setIfInBounds]; exact hsz⟩, ?_⟩
  · rw [hk, hb, remove_in_set g.bbs q sq hq hsz hs hset, hkey]; exact key_step1 _ _ _ _ rfl
  · intro r hr; unfold Game.bb; rw [hb, getD_setIfInBounds_ne' _ _ _ _ _ (fun h => hr h.symm)]

/-- step 3 keeps the key relation; it only touches piece sets of the side not to move -/
theorem preCapture_rel (g : Game) (m : Move) (s : UInt64) (h : KeyRel g s) (ht : m.toSq < 64)
    (hep : m.isCapture = true → m.isEnpassant = true →
        (g.white = true → m.toSq + 8 < 64 ∧ getBit (g.bb BP) (m.toSq + 8) = true) ∧
        (g.white = false → 8 ≤ m.toSq ∧ getBit (g.bb WP) (m.toSq - 8) = true)) :
    KeyRel (preCapture g m) s ∧ (preCapture g m).white = g.white ∧ (preCapture g m).castling = g.castling ∧
    (∀ q, (g.white = true → q < 6) → (g.white = false → 6 ≤ q) → (preCapture g m).bb q = g.bb q) ∧
    (m.isCapture = false → preCapture g m = g) := by
  unfold preCapture
  have hBP : BP = 6 := rfl
  have hWP : WP = 0 := rfl
  by_cases hc : m.isCapture = true
  · rw [if_pos hc]
    by_cases he : m.isEnpassant = true
    · rw [if_pos he]
      obtain ⟨hw, hb⟩ := hep hc he
      by_cases hwhite : g.white = true
      · rw [if_pos hwhite]
        obtain ⟨hlt, hbit⟩ := hw hwhite
        obtain ⟨hr, hoth⟩ := removeStep_rel g BP (m.toSq + 8) s h (by decide) hlt hbit
          { (g.setBB BP (unsetBit (g.bb BP) (m.toSq + 8))) with
              blackOcc := unsetBit (g.setBB BP (unsetBit (g.bb BP) (m.toSq + 8))).blackOcc (m.toSq + 8),
              allOcc := unsetBit (g.setBB BP (unsetBit (g.bb BP) (m.toSq + 8))).allOcc (m.toSq + 8),
              key := (g.setBB BP (unsetBit (g.bb BP) (m.toSq + 8))).key ^^^ pieceKey BP (m.toSq + 8) } rfl rfl
        refine ⟨hr, rfl, rfl, ?_, fun h' => absurd hc (by simp [h'])⟩
        intro q h1 _; exact hoth q (by have := h1 hwhite; omega)
      · rw [if_neg hwhite]
        have hwf : g.white = false := by simpa using hwhite
        obtain ⟨hlt, hbit⟩ := hb hwf
        obtain ⟨hr, hoth⟩ := removeStep_rel g WP (m.toSq - 8) s h (by decide) (by omega) hbit
          { (g.setBB WP (unsetBit (g.bb WP) (m.toSq - 8))) with
              whiteOcc := unsetBit (g.setBB WP (unsetBit (g.bb WP) (m.toSq - 8))).whiteOcc (m.toSq - 8),
              allOcc := unsetBit (g.setBB WP (unsetBit (g.bb WP) (m.toSq - 8))).allOcc (m.toSq - 8),
              key := (g.setBB WP (unsetBit (g.bb WP) (m.toSq - 8))).key ^^^ pieceKey WP (m.toSq - 8) } rfl rfl
        refine ⟨hr, rfl, rfl, ?_, fun h' => absurd hc (by simp [h'])⟩
        intro q _ h2; exact hoth q (by have := h2 hwf; omega)
    · rw [if_neg he]
      generalize hg0 : (if g.white = true then { g with blackOcc := unsetBit g.blackOcc m.toSq }
               else { g with whiteOcc := unsetBit g.whiteOcc m.toSq }) = g0
      have hg0b : g0.bbs = g.bbs ∧ g0.key = g.key ∧ g0.white = g.white ∧ g0.castling = g.castling := by
        rw [← hg0]; split <;> exact ⟨rfl, rfl, rfl, rfl⟩
      obtain ⟨hb0, hk0, hw0, hc0⟩ := hg0b
      have h0 : KeyRel g0 s := by unfold KeyRel; rw [hk0, hb0]; exact h
      have hbb0 : ∀ q, g0.bb q = g.bb q := by intro q; unfold Game.bb; rw [hb0]
      simp only
      rcases captureLoop_spec g0 (if g.white = true then BP else WP) m.toSq 5 0 with ⟨p, hp1, hp2, hp3, hp4⟩ | hnone
      · rw [hp1]
        simp only
        have hp12 : p < 12 := by split at hp4 <;> omega
        obtain ⟨hr, hoth⟩ := removeStep_rel g0 p m.toSq s h0 hp12 ht hp2
          { ({ g0 with bbs := g0.bbs.setIfInBounds p (unsetBit (g0.bbs.getD p 0) m.toSq) } : Game) with
              key := g0.key ^^^ pieceKey p m.toSq } rfl rfl
        refine ⟨hr, hw0, hc0, ?_, fun h' => absurd hc (by simp [h'])⟩
        intro q h1 h2
        rw [← hbb0 q]
        apply hoth q
        by_cases hwhite : g.white = true
        · have := h1 hwhite; rw [if_pos hwhite] at hp3; omega
        · have hwf : g.white = false := by simpa using hwhite
          have := h2 hwf; rw [if_neg hwhite] at hp4; omega
      · rw [hnone]
        simp only
        exact ⟨h0, hw0, hc0, fun q _ _ => hbb0 q, fun h' => absurd hc (by simp [h'])⟩
  · rw [if_neg hc]
    exact ⟨h, rfl, rfl, fun _ _ _ => rfl, fun _ => rfl⟩

theorem addStep_rel (g : Game) (q sq : Nat) (s : UInt64) (h : KeyRel g s) (hq : q < 12) (hs : sq < 64)
    (hclear : getBit (g.bb q) sq = false) (g' : Game)
    (hb : g'.bbs = g.bbs.setIfInBounds q (setBit (g.bbs.getD q 0) sq)) (hk : g'.key = g.key ^^^ pieceKey q sq) :
    KeyRel g' s ∧ (∀ r, r ≠ q → g'.bb r = g.bb r) ∧
    (∀ t, t < 64 → getBit (g'.bb q) t = (getBit (g.bb q) t || decide (sq = t))) := by
  obtain ⟨hkey, hsz⟩ := h
  refine ⟨⟨?_, by rw [hb, Array.size_setIfInBounds]; exact hsz⟩, ?_, ?_⟩
  · rw [hk, hb, add_in_set g.bbs q sq hq hsz hs hclear, hkey]; exact key_step1 _ _ _ _ rfl
  · intro r hr; unfold Game.bb; rw [hb, getD_setIfInBounds_ne' _ _ _ _ _ (fun h => hr h.symm)]
  · intro t ht; unfold Game.bb; rw [hb, getD_set_same _ _ _ hq hsz, getBit_setBit _ _ _ hs ht]

/-- the rook hop of castling keeps the key relation -/
theorem castleRook_rel (g : Game) (rook f t : Nat) (s : UInt64) (h : KeyRel g s) (hq : rook < 12) (hf : f < 64) (ht : t < 64)
    (hset : getBit (g.bb rook) f = true) (hclear : getBit (g.bb rook) t = false) :
    KeyRel (castleRook g rook f t) s ∧ (castleRook g rook f t).white = g.white ∧ (castleRook g rook f t).castling = g.castling := by
  have hne : t ≠ f := by intro h'; rw [h'] at hclear; rw [hset] at hclear; exact absurd hclear (by simp)
  obtain ⟨h1, _, hbit1⟩ := addStep_rel g rook t s h hq ht hclear
    { (g.setBB rook (setBit (g.bb rook) t)) with key := (g.setBB rook (setBit (g.bb rook) t)).key ^^^ pieceKey rook t } rfl rfl
  generalize hg1 : ({ (g.setBB rook (setBit (g.bb rook) t)) with key := (g.setBB rook (setBit (g.bb rook) t)).key ^^^ pieceKey rook t } : Game) = g1 at h1 hbit1
  have hw1 : g1.white = g.white ∧ g1.castling = g.castling := by rw [← hg1]; exact ⟨rfl, rfl⟩
  have hset1 : getBit (g1.bb rook) f = true := by rw [hbit1 f hf, hset]; rfl
  obtain ⟨h2, _⟩ := removeStep_rel g1 rook f s h1 hq hf hset1
    { (g1.setBB rook (unsetBit (g1.bb rook) f)) with key := (g1.setBB rook (unsetBit (g1.bb rook) f)).key ^^^ pieceKey rook f } rfl rfl
  unfold castleRook
  simp only
  rw [hg1]
  split
  · exact ⟨h2, hw1.1, hw1.2⟩
  · exact ⟨h2, hw1.1, hw1.2⟩

/-- step 3 after the check test (promotion / castling) keeps the key relation -/
theorem postSpecial_rel (g : Game) (m : Move) (s : UInt64) (h : KeyRel g s) (hp : m.piece < 12) (ht : m.toSq < 64)
    (hpromo : m.promotion ≠ PNONE → m.promotion < 12 ∧ m.promotion ≠ m.piece ∧ getBit (g.bb m.promotion) m.toSq = false ∧
        getBit (g.bb m.piece) m.toSq = true)
    (hcastle : m.promotion = PNONE → m.isCastling = true →
        (m.toSq = 62 ∧ getBit (g.bb WR) 63 = true ∧ getBit (g.bb WR) 61 = false) ∨
        (m.toSq = 58 ∧ getBit (g.bb WR) 56 = true ∧ getBit (g.bb WR) 59 = false) ∨
        (m.toSq = 6 ∧ getBit (g.bb BR) 7 = true ∧ getBit (g.bb BR) 5 = false) ∨
        (m.toSq = 2 ∧ getBit (g.bb BR) 0 = true ∧ getBit (g.bb BR) 3 = false)) :
    KeyRel (postSpecial g m) s ∧ (postSpecial g m).white = g.white ∧ (postSpecial g m).castling = g.castling := by
  unfold postSpecial
  simp only
  by_cases hpr : (m.promotion != PNONE) = true
  · rw [if_pos hpr]
    have hpr' : m.promotion ≠ PNONE := by simpa using hpr
    obtain ⟨hq, hne, hclear, hset⟩ := hpromo hpr'
    obtain ⟨hk, hsz⟩ := h
    simp only [Game.setBB, Game.bb] at hclear hset ⊢
    have hsz1 : (g.bbs.setIfInBounds m.promotion (setBit (g.bbs.getD m.promotion 0) m.toSq)).size = 12 := by
      rw [Array.size_setIfInBounds]; exact hsz
    have hset1 : getBit ((g.bbs.setIfInBounds m.promotion (setBit (g.bbs.getD m.promotion 0) m.toSq)).getD m.piece 0) m.toSq = true := by
      rw [getD_setIfInBounds_ne' _ _ _ _ _ hne]; exact hset
    refine ⟨⟨?_, by rw [Array.size_setIfInBounds]; exact hsz1⟩, trivial, trivial⟩
    show g.key ^^^ pieceKey m.piece m.toSq ^^^ pieceKey m.promotion m.toSq = _
    rw [remove_in_set _ m.piece m.toSq hp hsz1 ht hset1, add_in_set g.bbs m.promotion m.toSq hq hsz ht hclear, hk]
    rw [xor_right_comm' (pieceSum g.bbs) (pieceKey m.promotion m.toSq) (pieceKey m.piece m.toSq)]
    exact key_step2 _ _ _ _ _ rfl
  · rw [if_neg hpr]
    have hpn : m.promotion = PNONE := by simpa using hpr
    by_cases hcs : m.isCastling = true
    · rw [if_pos hcs]
      rcases hcastle hpn hcs with ⟨h1, h2, h3⟩ | ⟨h1, h2, h3⟩ | ⟨h1, h2, h3⟩ | ⟨h1, h2, h3⟩
      · rw [h1]; simp only [beq_self_eq_true, if_true]
        exact castleRook_rel g WR 63 61 s h (by decide) (by decide) (by decide) h2 h3
      · rw [h1]; simp only [show ((58 : Nat) == 62) = false from rfl, beq_self_eq_true, if_true, Bool.false_eq_true, if_false]
        exact castleRook_rel g WR 56 59 s h (by decide) (by decide) (by decide) h2 h3
      · rw [h1]; simp only [show ((6 : Nat) == 62) = false from rfl, show ((6 : Nat) == 58) = false from rfl, beq_self_eq_true, if_true, Bool.false_eq_true, if_false]
        exact castleRook_rel g BR 7 5 s h (by decide) (by decide) (by decide) h2 h3
      · rw [h1]; simp only [show ((2 : Nat) == 62) = false from rfl, show ((2 : Nat) == 58) = false from rfl, show ((2 : Nat) == 6) = false from rfl, beq_self_eq_true, if_true, Bool.false_eq_true, if_false]
        exact castleRook_rel g BR 0 3 s h (by decide) (by decide) (by decide) h2 h3
    · rw [if_neg hcs]; exact ⟨h, rfl, rfl⟩

theorem postOcc_same (g : Game) (m : Move) : (postOcc g m).bbs = g.bbs ∧ (postOcc g m).key = g.key ∧
    (postOcc g m).white = g.white ∧ (postOcc g m).castling = g.castling := by
  unfold postOcc; split <;> exact ⟨rfl, rfl, rfl, rfl⟩

theorem postClock_same (g : Game) (m : Move) : (postClock g m).bbs = g.bbs ∧ (postClock g m).key = g.key ∧
    (postClock g m).white = g.white ∧ (postClock g m).castling = g.castling := by
  unfold postClock; split <;> exact ⟨rfl, rfl, rfl, rfl⟩

theorem tail_algebra (T c sk e : UInt64) : T ^^^ sk ^^^ e ^^^ c ^^^ SIDE_KEY = T ^^^ c ^^^ (sk ^^^ SIDE_KEY) ^^^ e := by
  ac_rfl

/-- steps 4-6 (en-passant square, castling rights, side) turn "piece sum plus side key" into the from-scratch key -/
theorem postTail_key (g : Game) (m : Move) (h : KeyRel g (sideK g.white))
    (hd : m.isDoublePush = true → (g.white = true → m.toSq + 8 < 64) ∧ (g.white = false → 8 ≤ m.toSq ∧ m.toSq < 64)) :
    (postSide (postRights (postEp g m) m)).key = scratchKey (postSide (postRights (postEp g m) m)) := by
  obtain ⟨hk, _⟩ := h
  rw [scratchKey_eq]
  generalize hc : g.castling &&& (Gen.CASTLING_RIGHTS.getD m.toSq 0 &&& Gen.CASTLING_RIGHTS.getD m.fromSq 0) = c
  have hside : ∀ x : Game, (postSide x).key = x.key ^^^ SIDE_KEY ∧ (postSide x).bbs = x.bbs ∧ (postSide x).white = (!x.white) ∧
      (postSide x).castling = x.castling ∧ (postSide x).ep = x.ep := by
    intro x; unfold postSide; simp only; split <;> exact ⟨rfl, rfl, rfl, rfl, rfl⟩
  obtain ⟨s1, s2, s3, s4, s5⟩ := hside (postRights (postEp g m) m)
  rw [s1, s2, s3, s4, s5]
  have hr : (postRights (postEp g m) m).key = (postEp g m).key ^^^ castleKey ((postEp g m).castling &&& (Gen.CASTLING_RIGHTS.getD m.toSq 0 &&& Gen.CASTLING_RIGHTS.getD m.fromSq 0)) ∧
      (postRights (postEp g m) m).bbs = (postEp g m).bbs ∧ (postRights (postEp g m) m).white = (postEp g m).white ∧
      (postRights (postEp g m) m).castling = ((postEp g m).castling &&& (Gen.CASTLING_RIGHTS.getD m.toSq 0 &&& Gen.CASTLING_RIGHTS.getD m.fromSq 0)) ∧
      (postRights (postEp g m) m).ep = (postEp g m).ep := ⟨rfl, rfl, rfl, rfl, rfl⟩
  obtain ⟨r1, r2, r3, r4, r5⟩ := hr
  rw [r1, r2, r3, r4, r5]
  have he : (postEp g m).bbs = g.bbs ∧ (postEp g m).white = g.white ∧ (postEp g m).castling = g.castling ∧
      (postEp g m).key = g.key ^^^ epK (postEp g m).ep := by
    unfold postEp
    by_cases hdp : m.isDoublePush = true
    · rw [if_pos hdp]
      obtain ⟨hw, hb⟩ := hd hdp
      by_cases hwhite : g.white = true
      · rw [if_pos hwhite]
        refine ⟨rfl, rfl, rfl, ?_⟩
        have := hw hwhite
        show g.key ^^^ epKey (m.toSq + 8) = g.key ^^^ epK (m.toSq + 8)
        unfold epK
        have hne : (m.toSq + 8 != SQNONE) = true := by have hS : SQNONE = 64 := rfl; simp; omega
        rw [if_pos hne]
      · rw [if_neg hwhite]
        have hwf : g.white = false := by simpa using hwhite
        refine ⟨rfl, rfl, rfl, ?_⟩
        have := hb hwf
        show g.key ^^^ epKey (m.toSq - 8) = g.key ^^^ epK (m.toSq - 8)
        unfold epK
        have hne : (m.toSq - 8 != SQNONE) = true := by have hS : SQNONE = 64 := rfl; simp; omega
        rw [if_pos hne]
    · rw [if_neg hdp]
      refine ⟨rfl, rfl, rfl, ?_⟩
      show g.key = g.key ^^^ epK SQNONE
      unfold epK; simp
  obtain ⟨e1, e2, e3, e4⟩ := he
  rw [e1, e2, e3, e4, hc, hk, sideK_not]
  exact tail_algebra _ _ _ _

/-- T4.1: the incrementally maintained key is the from-scratch key of the new position -/
theorem makeCore_key (g g' : Game) (m : Move) (hkey : g.key = scratchKey g) (ok : MoveOk g m)
    (hmk : makeCore g m = some g') : g'.key = scratchKey g' := by
  unfold makeCore at hmk
  simp only at hmk
  split at hmk
  · exact absurd hmk (by simp)
  · injection hmk with hmk
    subst hmk
    -- step 1
    obtain ⟨k0, b0, w0, c0⟩ := preKeys_key g hkey
    have hbb0 : ∀ q, (preKeys g).bb q = g.bb q := by intro q; unfold Game.bb; rw [b0]
    have r0 : KeyRel (preKeys g) (sideK g.white) := ⟨by rw [k0, b0], by rw [b0]; exact ok.size⟩
    -- step 2
    obtain ⟨r1, w1, c1, oth1, bit1⟩ := preMove_rel (preKeys g) m _ r0 ok.piece ok.fromLt ok.toLt
      (by rw [hbb0]; exact ok.src) (by rw [hbb0]; exact ok.dst)
    -- step 3
    have hw10 : (preMove (preKeys g) m).white = g.white := by rw [w1, w0]
    obtain ⟨r2, w2, c2, oth2, nocap2⟩ := preCapture_rel (preMove (preKeys g) m) m _ r1 ok.toLt (by
      intro hc he
      obtain ⟨ha, hb⟩ := ok.ep he hc
      rw [hw10]
      refine ⟨fun hw => ?_, fun hw => ?_⟩
      · obtain ⟨h1, h2, h3⟩ := ha hw
        exact ⟨h2, by rw [oth1 BP (fun h => h1 h.symm), hbb0]; exact h3⟩
      · obtain ⟨h1, h2, h3⟩ := hb hw
        exact ⟨h2, by rw [oth1 WP (fun h => h1 h.symm), hbb0]; exact h3⟩)
    unfold makePre
    generalize hg2 : preCapture (preMove (preKeys g) m) m = g2 at r2 w2 c2 oth2 nocap2
    have hw2 : g2.white = g.white := by rw [w2, hw10]
    -- the mover's own sets are as step 2 left them
    have own : ∀ q, (g.white = true → q < 6) → (g.white = false → 6 ≤ q) → g2.bb q = (preMove (preKeys g) m).bb q := by
      intro q h1 h2; exact oth2 q (by rw [hw10]; exact h1) (by rw [hw10]; exact h2)
    unfold makePost
    obtain ⟨ob, okk, ow, oc⟩ := postOcc_same g2 m
    obtain ⟨cb, ck, cw, cc⟩ := postClock_same (postOcc g2 m) m
    generalize hg4 : postClock (postOcc g2 m) m = g4 at cb ck cw cc
    have hb4 : g4.bbs = g2.bbs := by rw [cb, ob]
    have hbb4 : ∀ q, g4.bb q = g2.bb q := by intro q; unfold Game.bb; rw [hb4]
    have hw4 : g4.white = g.white := by rw [cw, ow, hw2]
    have r4 : KeyRel g4 (sideK g.white) := by
      unfold KeyRel; rw [ck, okk, hb4]; exact r2
    obtain ⟨r5, w5, c5⟩ := postSpecial_rel g4 m _ r4 ok.piece ok.toLt (by
      intro hpr
      obtain ⟨p1, p2, p3, p4, p5⟩ := ok.promo hpr
      refine ⟨p1, p2, ?_, ?_⟩
      · rw [hbb4, own _ p4.1 p4.2, oth1 _ p2, hbb0]; exact p3
      · rw [hbb4, own _ ok.mover.1 ok.mover.2, bit1 _ ok.toLt]; simp) (by
      intro hpn hcs
      have hnc := nocap2 (ok.castleNoCap hcs)
      have hbbc : ∀ q, q ≠ m.piece → g4.bb q = g.bb q := by
        intro q hq; rw [hbb4, hnc, oth1 q hq, hbb0]
      rcases ok.castle hpn hcs with ⟨a, b, c, d⟩ | ⟨a, b, c, d⟩ | ⟨a, b, c, d⟩ | ⟨a, b, c, d⟩
      · exact Or.inl ⟨a, by rw [hbbc _ (fun h => b h.symm)]; exact c, by rw [hbbc _ (fun h => b h.symm)]; exact d⟩
      · exact Or.inr (Or.inl ⟨a, by rw [hbbc _ (fun h => b h.symm)]; exact c, by rw [hbbc _ (fun h => b h.symm)]; exact d⟩)
      · exact Or.inr (Or.inr (Or.inl ⟨a, by rw [hbbc _ (fun h => b h.symm)]; exact c, by rw [hbbc _ (fun h => b h.symm)]; exact d⟩))
      · exact Or.inr (Or.inr (Or.inr ⟨a, by rw [hbbc _ (fun h => b h.symm)]; exact c, by rw [hbbc _ (fun h => b h.symm)]; exact d⟩)))
    have hw5 : (postSpecial g4 m).white = g.white := by rw [w5, hw4]
    apply postTail_key
    · rw [hw5]; exact r5
    · intro hdp
      rw [hw5]
      obtain ⟨d1, d2⟩ := ok.dpush hdp
      exact ⟨d1, fun hw => ⟨d2 hw, ok.toLt⟩⟩

end Jence
