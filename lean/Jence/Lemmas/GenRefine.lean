/-
  The move generator refines the rules' pseudo-legal moves, piece by piece: for a piece of the side to move on square
  `f`, the rules' `pieceMoves` are exactly the `smove`s of what the generator emits for that piece.
-/
import Jence.Lemmas.ApplyRefine
import Jence.Lemmas.ListExtra
namespace Jence
open Jence

section occ
variable {g : Game} {b : Board}

theorem Wf.opp_iff (wf : Wf g b) (t : Nat) (ht : t < 64) :
    getBit (if g.white then g.blackOcc else g.whiteOcc) t = true ↔ ∃ v, b t = some v ∧ enemyP g.white v := by
  constructor
  · exact wf.enemy_of_occ t ht
  · rintro ⟨v, hv, hen⟩
    unfold enemyP at hen
    cases hw : g.white
    · rw [hw] at hen; simp only [Bool.false_eq_true, if_false] at hen ⊢
      rw [wf.occW t ht, hv]; simpa [whiteAt] using hen
    · rw [hw] at hen; simp only [if_true] at hen ⊢
      rw [wf.occB t ht, hv]; simpa [blackAt] using hen.1

theorem Wf.all_iff (wf : Wf g b) (t : Nat) (ht : t < 64) : getBit g.allOcc t = false ↔ b t = none := by
  rw [wf.occA t ht]; cases b t <;> simp

/-- the rules' "own piece on `t`" test, on the board -/
theorem spec_own (wf : Wf g b) (X t : Nat) (hX : ownP g.white X) (ht : t < 64) :
    (match Spec.at_ (Spec.abs g) t with | some q => q.white == (pieceOf X).white | none => false) = true ↔
      ∃ Y, b t = some Y ∧ ownP g.white Y := by
  rw [abs_at wf t ht]
  cases hb : b t with
  | none => simp
  | some Y =>
    have hY := wf.ok.valid t Y ht hb
    simp only [Option.map_some, Option.some.injEq, exists_eq_left']
    unfold pieceOf ownP at *
    cases hw : g.white <;> rw [hw] at hX <;> simp at hX ⊢ <;> omega

theorem own_or_enemy (w : Bool) (Y : Nat) (hY : Y < 12) : ownP w Y ∨ enemyP w Y := by
  unfold ownP enemyP; cases w <;> simp <;> omega

end occ

/-- what the generator emits for the non-pawn piece standing on `f` -/
def pieceInner (g : Game) (all : Bool) (piece : Nat) (att : Nat → UInt64) (f : Nat) : List Move :=
  (if all then (bitsOf (att f &&& ~~~ g.allOcc)).map fun t => Move.mk' f t piece PNONE false false false false else []) ++
  (bitsOf (att f &&& (if g.white then g.blackOcc else g.whiteOcc))).map fun t => Move.mk' f t piece PNONE true false false false

theorem pieceMoves_eq (g : Game) (all : Bool) (piece : Nat) (att : Nat → UInt64) :
    pieceMoves g all piece att = (bitsOf (g.bb piece)).flatMap (pieceInner g all piece att) := rfl

theorem spec_pieceMoves_nonpawn (p : Spec.Position) (s : Nat) (pc : Spec.Piece) (h : pc.kind ≠ .pawn) :
    Spec.pieceMoves p s pc =
      ((Spec.attackedFrom (Spec.occupiedIn p) pc s).filter fun t =>
        !(match Spec.at_ p t with | some q => q.white == pc.white | none => false)).map fun t => ⟨s, t, none⟩ := by
  unfold Spec.pieceMoves
  cases hk : pc.kind <;> first | exact absurd hk h | rfl

theorem attackedFrom_lt (occ : Nat → Bool) (pc : Spec.Piece) (s : Nat) : ∀ t ∈ Spec.attackedFrom occ pc s, t < 64 := by
  intro t ht
  unfold Spec.attackedFrom at ht
  cases hk : pc.kind <;> rw [hk] at ht <;> simp only at ht
  · unfold Spec.pawnAttacks at ht; exact jumps_lt _ _ t ht
  · exact jumps_lt _ _ t ht
  · exact slide_lt _ _ _ t ht
  · exact slide_lt _ _ _ t ht
  · exact slide_lt _ _ _ t ht
  · exact jumps_lt _ _ t ht

theorem smove_plain (f t X : Nat) (c : Bool) (hf : f < 64) (ht : t < 64) (hX : X < 16) :
    smove (Move.mk' f t X PNONE c false false false) = ⟨f, t, none⟩ := by
  obtain ⟨e1, e2, _, e4, _⟩ := mk_fields f t X PNONE c false false false hf ht hX (by decide)
  unfold smove; rw [e1, e2, e4]; rfl

/-- **one non-pawn piece**: the rules' moves of the piece on `f` are the `smove`s of what the generator emits for it -/
theorem piece_refines {g : Game} {b : Board} (wf : Wf g b) (X f : Nat) (hX : ownP g.white X) (hnp : (pieceOf X).kind ≠ .pawn)
    (hf : f < 64) (sm : Spec.SMove) :
    sm ∈ Spec.pieceMoves (Spec.abs g) f (pieceOf X) ↔
      ∃ m ∈ pieceInner g true X (attacksOf g.allOcc X) f, smove m = sm := by
  have hX12 := ownP_lt hX
  have hocc : ∀ s, s < 64 → Spec.occupiedIn (Spec.abs g) s = getBit g.allOcc s := fun s hs => abs_occupied wf s hs
  rw [spec_pieceMoves_nonpawn _ _ _ hnp, attackedFrom_congr _ _ hocc]
  simp only [List.mem_map, List.mem_filter, Bool.not_eq_true']
  unfold pieceInner
  simp only [if_true, List.mem_append, List.mem_map]
  constructor
  · rintro ⟨t, ⟨hmem, hown⟩, rfl⟩
    have ht := attackedFrom_lt _ _ _ t hmem
    have hbit := (attacksOf_spec g.allOcc X f t hX12 hf ht).2 hmem
    have hnot : ¬ ∃ Y, b t = some Y ∧ ownP g.white Y := by
      intro h; rw [← spec_own wf X t hX ht] at h; rw [h] at hown; exact absurd hown (by simp)
    cases hb : b t with
    | none =>
      refine ⟨Move.mk' f t X PNONE false false false false, Or.inl ⟨t, ?_, rfl⟩, smove_plain f t X false hf ht (by omega)⟩
      rw [mem_bitsOf]; refine ⟨ht, ?_⟩
      rw [getBit_and _ _ _ ht, getBit_not _ _ ht, hbit, (wf.all_iff t ht).2 hb]; rfl
    | some Y =>
      have hY := wf.ok.valid t Y ht hb
      have hen : enemyP g.white Y := by
        rcases own_or_enemy g.white Y hY with h | h
        · exact absurd ⟨Y, hb, h⟩ hnot
        · exact h
      refine ⟨Move.mk' f t X PNONE true false false false, Or.inr ⟨t, ?_, rfl⟩, smove_plain f t X true hf ht (by omega)⟩
      rw [mem_bitsOf]; refine ⟨ht, ?_⟩
      rw [getBit_and _ _ _ ht, hbit, (wf.opp_iff t ht).2 ⟨Y, hb, hen⟩]; rfl
  · rintro ⟨m, (⟨t, ht, rfl⟩ | ⟨t, ht, rfl⟩), rfl⟩
    · obtain ⟨htl, hbit⟩ := (mem_bitsOf _ _).1 ht
      rw [getBit_and _ _ _ htl, getBit_not _ _ htl] at hbit
      simp only [Bool.and_eq_true, Bool.not_eq_true'] at hbit
      refine ⟨t, ⟨(attacksOf_spec g.allOcc X f t hX12 hf htl).1 hbit.1, ?_⟩, (smove_plain f t X false hf htl (by omega)).symm⟩
      have hb := (wf.all_iff t htl).1 hbit.2
      rw [abs_at wf t htl, hb]; rfl
    · obtain ⟨htl, hbit⟩ := (mem_bitsOf _ _).1 ht
      rw [getBit_and _ _ _ htl] at hbit
      simp only [Bool.and_eq_true] at hbit
      refine ⟨t, ⟨(attacksOf_spec g.allOcc X f t hX12 hf htl).1 hbit.1, ?_⟩, (smove_plain f t X true hf htl (by omega)).symm⟩
      obtain ⟨Y, hb, hen⟩ := (wf.opp_iff t htl).1 hbit.2
      cases h : (match Spec.at_ (Spec.abs g) t with | some q => q.white == (pieceOf X).white | none => false)
      · rfl
      · obtain ⟨Y', hb', hown'⟩ := (spec_own wf X t hX htl).1 h
        rw [hb] at hb'; injection hb' with hb'; subst hb'
        exact absurd hown' (fun ho => own_not_enemy ho hen)

/-- the rules' promotion fan / single move for a pawn move to `t` -/
def specPromoFan (f t : Nat) (last : Bool) : List Spec.SMove :=
  if last then Spec.promoKinds.map fun k => ⟨f, t, some k⟩ else [⟨f, t, none⟩]

/-- the rules' pawn moves of a white pawn on rows 2-7, in square numbers -/
theorem spec_pawn_white (p : Spec.Position) (f : Nat) (hf : 8 ≤ f ∧ f < 56) :
    Spec.pieceMoves p f ⟨true, .pawn⟩ =
      ((if (!Spec.occupiedIn p (f - 8)) = true then specPromoFan f (f - 8) (decide (f - 8 < 8)) else []) ++
       (if (decide (f / 8 = 6) && !Spec.occupiedIn p (f - 8) && !Spec.occupiedIn p (f - 16)) = true then [⟨f, f - 16, none⟩] else [])) ++
      (Spec.pawnAttacks true f).flatMap fun t =>
        if (match Spec.at_ p t with | some q => q.white != true | none => false) = true then specPromoFan f t (decide (t < 8))
        else if (p.ep == some t && !Spec.occupiedIn p t) = true then [⟨f, t, none⟩] else [] := by
  unfold Spec.pieceMoves
  simp only [if_true]
  have h1 : Spec.sqOf (Spec.fileOf f) (Spec.rowOf f + (-1 : Int)) = f - 8 := by unfold Spec.sqOf Spec.fileOf Spec.rowOf; omega
  have h2 : Spec.sqOf (Spec.fileOf f) (Spec.rowOf f + 2 * (-1 : Int)) = f - 16 := by unfold Spec.sqOf Spec.fileOf Spec.rowOf; omega
  have hon : Spec.onBoard (Spec.fileOf f) (Spec.rowOf f + (-1 : Int)) = true := by
    simp only [Spec.onBoard, Spec.fileOf, Spec.rowOf, Bool.and_eq_true]
    refine ⟨⟨⟨?_, ?_⟩, ?_⟩, ?_⟩ <;> apply decide_eq_true <;> omega
  have hr1 : (Spec.rowOf (f - 8) == (0 : Int)) = decide (f - 8 < 8) := by
    unfold Spec.rowOf
    by_cases h : f - 8 < 8
    · have : ((f - 8 : Nat) : Int) / 8 = 0 := by omega
      simp [h, this]
    · have : ¬ (((f - 8 : Nat) : Int) / 8 = 0) := by omega
      simp [h, this]
  have hr6 : (Spec.rowOf f == (6 : Int)) = decide (f / 8 = 6) := by
    unfold Spec.rowOf
    by_cases h : f / 8 = 6
    · have : ((f : Nat) : Int) / 8 = 6 := by omega
      simp [h, this]
    · have : ¬ (((f : Nat) : Int) / 8 = 6) := by omega
      simp [h, this]
  have hrt : ∀ t : Nat, (Spec.rowOf t == (0 : Int)) = decide (t < 8) := by
    intro t
    unfold Spec.rowOf
    by_cases h : t < 8
    · have : ((t : Nat) : Int) / 8 = 0 := by omega
      simp [h, this]
    · have : ¬ (((t : Nat) : Int) / 8 = 0) := by omega
      simp [h, this]
  rw [h1, h2, hon, hr1, hr6]
  simp only [Bool.true_and, hrt]
  rfl

/-- the same for a black pawn -/
theorem spec_pawn_black (p : Spec.Position) (f : Nat) (hf : 8 ≤ f ∧ f < 56) :
    Spec.pieceMoves p f ⟨false, .pawn⟩ =
      ((if (!Spec.occupiedIn p (f + 8)) = true then specPromoFan f (f + 8) (decide (f + 8 > 55)) else []) ++
       (if (decide (f / 8 = 1) && !Spec.occupiedIn p (f + 8) && !Spec.occupiedIn p (f + 16)) = true then [⟨f, f + 16, none⟩] else [])) ++
      (Spec.pawnAttacks false f).flatMap fun t =>
        if (match Spec.at_ p t with | some q => q.white != false | none => false) = true then specPromoFan f t (decide (t > 55))
        else if (p.ep == some t && !Spec.occupiedIn p t) = true then [⟨f, t, none⟩] else [] := by
  unfold Spec.pieceMoves
  simp only [Bool.false_eq_true, if_false]
  have h1 : Spec.sqOf (Spec.fileOf f) (Spec.rowOf f + (1 : Int)) = f + 8 := by unfold Spec.sqOf Spec.fileOf Spec.rowOf; omega
  have h2 : Spec.sqOf (Spec.fileOf f) (Spec.rowOf f + 2 * (1 : Int)) = f + 16 := by unfold Spec.sqOf Spec.fileOf Spec.rowOf; omega
  have hon : Spec.onBoard (Spec.fileOf f) (Spec.rowOf f + (1 : Int)) = true := by
    simp only [Spec.onBoard, Spec.fileOf, Spec.rowOf, Bool.and_eq_true]
    refine ⟨⟨⟨?_, ?_⟩, ?_⟩, ?_⟩ <;> apply decide_eq_true <;> omega
  have hr1 : (Spec.rowOf (f + 8) == (7 : Int)) = decide (f + 8 > 55) := by
    unfold Spec.rowOf
    by_cases h : f + 8 > 55
    · have : ((f : Int) + 8) / 8 = 7 := by omega
      simp [h, this]
    · have : ¬ (((f : Int) + 8) / 8 = 7) := by omega
      simp [h, this]
  have hr6 : (Spec.rowOf f == (1 : Int)) = decide (f / 8 = 1) := by
    unfold Spec.rowOf
    by_cases h : f / 8 = 1
    · have : ((f : Nat) : Int) / 8 = 1 := by omega
      simp [h, this]
    · have : ¬ (((f : Nat) : Int) / 8 = 1) := by omega
      simp [h, this]
  rw [h1, h2, hon, hr1, hr6]
  simp only [Bool.true_and]
  congr 1
  apply List.flatMap_congr'
  intro t ht
  have ht64 : t < 64 := by unfold Spec.pawnAttacks at ht; exact jumps_lt _ _ t ht
  have hrt : (Spec.rowOf t == (7 : Int)) = decide (t > 55) := by
    unfold Spec.rowOf
    by_cases h : t > 55
    · have : ((t : Nat) : Int) / 8 = 7 := by omega
      simp [h, this]
    · have : ¬ (((t : Nat) : Int) / 8 = 7) := by omega
      simp [h, this]
  rw [hrt]
  rfl

theorem smove_mk (f t p pr : Nat) (c d e k : Bool) (hf : f < 64) (ht : t < 64) (hp : p < 16) (hpr : pr < 16) :
    smove (Move.mk' f t p pr c d e k) = ⟨f, t, if pr = PNONE then none else some (Spec.kindOfIndex pr)⟩ := by
  obtain ⟨e1, e2, _, e4, _⟩ := mk_fields f t p pr c d e k hf ht hp hpr
  unfold smove; rw [e1, e2, e4]

theorem promo_images (w : Bool) (f t : Nat) (c : Bool) (hf : f < 64) (ht : t < 64) :
    (promos w).map (fun pr => smove (Move.mk' f t (if w then WP else BP) pr c false false false)) =
      Spec.promoKinds.map (fun k => (⟨f, t, some k⟩ : Spec.SMove)) := by
  have hp : (if w then WP else BP) < 16 := by cases w <;> decide
  unfold promos Spec.promoKinds
  cases w <;> simp only [Bool.false_eq_true, if_false, if_true, List.map_cons, List.map_nil] <;>
    rw [smove_mk _ _ _ _ _ _ _ _ hf ht (by decide) (by decide), smove_mk _ _ _ _ _ _ _ _ hf ht (by decide) (by decide),
      smove_mk _ _ _ _ _ _ _ _ hf ht (by decide) (by decide), smove_mk _ _ _ _ _ _ _ _ hf ht (by decide) (by decide)] <;> rfl

theorem mem_fan (f t : Nat) (last : Bool) (sm : Spec.SMove) :
    sm ∈ specPromoFan f t last ↔ (last = true ∧ sm ∈ Spec.promoKinds.map (fun k => (⟨f, t, some k⟩ : Spec.SMove))) ∨ (last = false ∧ sm = ⟨f, t, none⟩) := by
  unfold specPromoFan
  cases last <;> simp

/-- the generator's pushes of the pawn on `f`, in square numbers (`t1`, `t2`: one and two rows ahead) -/
theorem pawnQuiet_white (g : Game) (hw : g.white = true) (f : Nat) (hf : 8 ≤ f ∧ f < 56) :
    pawnQuiet g f =
      if (!getBit g.allOcc (f - 8)) = true then
        (if decide (f - 8 ≥ 8) = true then
          Move.mk' f (f - 8) WP PNONE false false false false ::
            (if (!getBit g.allOcc (f - 16) && f / 8 == 6) = true then [Move.mk' f (f - 16) WP PNONE false true false false] else [])
         else (promos true).map fun p => Move.mk' f (f - 8) WP p false false false false)
      else [] := by
  unfold pawnQuiet
  rw [hw]
  simp only [if_true]
  have h8 : u8sub8 f = f - 8 := by unfold u8sub8; omega
  rw [h8]
  by_cases h1 : f - 8 ≥ 8
  · have h16 : u8sub8 (f - 8) = f - 16 := by unfold u8sub8; omega
    rw [h16]; simp only [h1, decide_true, if_true]
  · simp only [h1, decide_false, Bool.false_eq_true, if_false]

theorem pawnQuiet_black (g : Game) (hw : g.white = false) (f : Nat) (hf : 8 ≤ f ∧ f < 56) :
    pawnQuiet g f =
      if (!getBit g.allOcc (f + 8)) = true then
        (if decide (f + 8 ≤ 55) = true then
          Move.mk' f (f + 8) BP PNONE false false false false ::
            (if (!getBit g.allOcc (f + 16) && f / 8 == 1) = true then [Move.mk' f (f + 16) BP PNONE false true false false] else [])
         else (promos false).map fun p => Move.mk' f (f + 8) BP p false false false false)
      else [] := by
  unfold pawnQuiet
  rw [hw]
  simp only [Bool.false_eq_true, if_false]
  have h8 : u8add8 f = f + 8 := by unfold u8add8; omega
  rw [h8]
  by_cases h1 : f + 8 ≤ 55
  · have h16 : u8add8 (f + 8) = f + 16 := by unfold u8add8; omega
    rw [h16]; simp only [h1, decide_true, if_true]
  · simp only [h1, decide_false, Bool.false_eq_true, if_false]

theorem exists_mem_map_smove (l : List Nat) (mk : Nat → Move) (sm : Spec.SMove) :
    (∃ m ∈ l.map mk, smove m = sm) ↔ sm ∈ l.map (fun pr => smove (mk pr)) := by
  simp only [List.mem_map]
  constructor
  · rintro ⟨m, ⟨pr, hpr, rfl⟩, h⟩; exact ⟨pr, hpr, h⟩
  · rintro ⟨pr, hpr, h⟩; exact ⟨mk pr, ⟨pr, hpr, rfl⟩, h⟩

theorem pawnAttacks_mem (w : Bool) (f t : Nat) (hf : f < 64) (ht : t < 64) :
    t ∈ Spec.pawnAttacks w f ↔ getBit (getPawnAttacks f w) t = true := by
  have := attacksOf_spec 0 (if w then WP else BP) f t (by cases w <;> decide) hf ht
  obtain ⟨t0, t6, _⟩ := attacksOf_table 0 f
  cases w
  · simp only [Bool.false_eq_true, if_false] at this
    rw [show BP = 6 from rfl, t6] at this
    exact this.symm
  · simp only [if_true] at this
    rw [show WP = 0 from rfl, t0] at this
    exact this.symm

/-- the rules' "enemy piece on `t`" test of `pieceMoves`, on the engine's sets -/
theorem spec_enemy {g : Game} {b : Board} (wf : Wf g b) (t : Nat) (ht : t < 64) :
    (match Spec.at_ (Spec.abs g) t with | some q => q.white != g.white | none => false) =
      getBit (if g.white then g.blackOcc else g.whiteOcc) t := by
  rw [abs_at wf t ht]
  cases hb : b t with
  | none =>
    have : ¬ (getBit (if g.white then g.blackOcc else g.whiteOcc) t = true) := by
      intro h; obtain ⟨v, hv, _⟩ := (wf.opp_iff t ht).1 h; rw [hb] at hv; exact absurd hv (by simp)
    simp only [Option.map_none]
    cases h : getBit (if g.white then g.blackOcc else g.whiteOcc) t
    · rfl
    · exact absurd h this
  | some Y =>
    have hY := wf.ok.valid t Y ht hb
    simp only [Option.map_some]
    rcases own_or_enemy g.white Y hY with ho | he
    · have h1 : ¬ (getBit (if g.white then g.blackOcc else g.whiteOcc) t = true) := by
        intro h; obtain ⟨v, hv, hen⟩ := (wf.opp_iff t ht).1 h
        rw [hb] at hv; injection hv with hv; subst hv; exact own_not_enemy ho hen
      have h2 : ((pieceOf Y).white != g.white) = false := by
        unfold pieceOf ownP at *
        cases hw : g.white <;> rw [hw] at ho <;> simp at ho ⊢ <;> omega
      rw [h2]
      cases h : getBit (if g.white then g.blackOcc else g.whiteOcc) t
      · rfl
      · exact absurd h h1
    · rw [(wf.opp_iff t ht).2 ⟨Y, hb, he⟩]
      unfold pieceOf enemyP at *
      cases hw : g.white <;> rw [hw] at he <;> simp at he ⊢ <;> omega

theorem abs_ep (g : Game) (t : Nat) (ht : t < 64) : ((Spec.abs g).ep == some t) = true ↔ g.ep = t := by
  have hS : SQNONE = 64 := rfl
  unfold Spec.abs; simp only
  by_cases h64 : g.ep = 64
  · simp [h64]; omega
  · have : (g.ep == SQNONE) = false := by simpa using h64
    rw [this]; simp

/-- **pawn captures and en passant**: the rules' diagonal pawn moves are the `smove`s of `pawnEp ++ pawnCaps` -/
theorem caps_refines {g : Game} {b : Board} (wf : Wf g b) (f : Nat) (hf : f < 64) (last : Nat → Bool)
    (hlast : ∀ t, t < 64 → ((if g.white = true then t ≥ 8 else t ≤ 55) ↔ last t = false)) (sm : Spec.SMove) :
    sm ∈ (Spec.pawnAttacks g.white f).flatMap (fun t =>
        if (match Spec.at_ (Spec.abs g) t with | some q => q.white != g.white | none => false) = true then specPromoFan f t (last t)
        else if ((Spec.abs g).ep == some t && !Spec.occupiedIn (Spec.abs g) t) = true then [⟨f, t, none⟩] else []) ↔
      ∃ m ∈ pawnEp g f ++ pawnCaps g f, smove m = sm := by
  have hp16 : (if g.white then WP else BP) < 16 := by cases g.white <;> decide
  simp only [List.mem_flatMap, List.mem_append]
  constructor
  · rintro ⟨t, ht, hsm⟩
    have ht64 : t < 64 := by unfold Spec.pawnAttacks at ht; exact jumps_lt _ _ t ht
    have hbit := (pawnAttacks_mem g.white f t hf ht64).1 ht
    rw [spec_enemy wf t ht64] at hsm
    by_cases hopp : getBit (if g.white then g.blackOcc else g.whiteOcc) t = true
    · rw [if_pos hopp] at hsm
      have hmemt : t ∈ bitsOf (getPawnAttacks f g.white &&& (if g.white then g.blackOcc else g.whiteOcc)) := by
        rw [mem_bitsOf]; exact ⟨ht64, by rw [getBit_and _ _ _ ht64, hbit, hopp]; rfl⟩
      rcases (mem_fan f t (last t) sm).1 hsm with ⟨hl, hsm⟩ | ⟨hl, hsm⟩
      · have hnl : ¬ (if g.white = true then t ≥ 8 else t ≤ 55) := fun h => by rw [(hlast t ht64).1 h] at hl; exact absurd hl (by simp)
        rw [← promo_images g.white f t true hf ht64, ← exists_mem_map_smove] at hsm
        obtain ⟨m, hm, hs⟩ := hsm
        refine ⟨m, Or.inr ?_, hs⟩
        unfold pawnCaps; simp only [List.mem_flatMap]
        exact ⟨t, hmemt, by rw [if_neg hnl]; exact hm⟩
      · have hnl : (if g.white = true then t ≥ 8 else t ≤ 55) := (hlast t ht64).2 hl
        refine ⟨Move.mk' f t (if g.white then WP else BP) PNONE true false false false, Or.inr ?_, ?_⟩
        · unfold pawnCaps; simp only [List.mem_flatMap]
          exact ⟨t, hmemt, by rw [if_pos hnl]; exact List.mem_singleton.2 rfl⟩
        · rw [smove_mk _ _ _ _ _ _ _ _ hf ht64 hp16 (by decide), hsm]; rfl
    · rw [if_neg hopp] at hsm
      split at hsm
      · rename_i hcond
        simp only [Bool.and_eq_true] at hcond
        have hep := (abs_ep g t ht64).1 hcond.1
        simp only [List.mem_singleton] at hsm
        refine ⟨Move.mk' f g.ep (if g.white then WP else BP) PNONE true false true false, Or.inl ?_, ?_⟩
        · unfold pawnEp; simp only
          have hc : (g.ep != SQNONE && !isEmpty (getPawnAttacks f g.white &&& bit g.ep)) = true := by
            have hS : SQNONE = 64 := rfl
            rw [hep]
            simp only [Bool.and_eq_true]
            refine ⟨by simp; omega, not_isEmpty_of_common _ _ t ht64 hbit (by rw [getBit_bit t t ht64 ht64]; simp)⟩
          rw [if_pos hc]; exact List.mem_singleton.2 rfl
        · rw [hep, smove_mk _ _ _ _ _ _ _ _ hf ht64 hp16 (by decide), hsm]; rfl
      · exact absurd hsm (by simp)
  · rintro ⟨m, hm | hm, rfl⟩
    · unfold pawnEp at hm
      simp only at hm
      by_cases hc : (g.ep != SQNONE && !isEmpty (getPawnAttacks f g.white &&& bit g.ep)) = true
      · rw [if_pos hc] at hm
        simp only [Bool.and_eq_true] at hc
        have hne : g.ep ≠ 64 := by have := hc.1; simpa using this
        have hepl : g.ep < 64 := by have := wf.ok.epLe; omega
        obtain ⟨hto, _, _⟩ := wf.ok.epOk hne
        have hbit := not_isEmpty_and_bit _ _ hepl hc.2
        simp only [List.mem_singleton] at hm
        subst hm
        refine ⟨g.ep, (pawnAttacks_mem g.white f g.ep hf hepl).2 hbit, ?_⟩
        rw [spec_enemy wf _ hepl]
        have hnopp : ¬ (getBit (if g.white then g.blackOcc else g.whiteOcc) g.ep = true) := by
          intro h; obtain ⟨v, hv, _⟩ := (wf.opp_iff _ hepl).1 h; rw [hto] at hv; exact absurd hv (by simp)
        rw [if_neg hnopp]
        have hcond : ((Spec.abs g).ep == some g.ep && !Spec.occupiedIn (Spec.abs g) g.ep) = true := by
          simp only [Bool.and_eq_true]
          refine ⟨(abs_ep g g.ep hepl).2 rfl, ?_⟩
          rw [abs_occupied wf _ hepl, (wf.all_iff _ hepl).2 hto]; rfl
        rw [if_pos hcond, smove_mk _ _ _ _ _ _ _ _ hf hepl hp16 (by decide)]
        exact List.mem_singleton.2 rfl
      · rw [if_neg hc] at hm; exact absurd hm (by simp)
    · unfold pawnCaps at hm
      simp only [List.mem_flatMap] at hm
      obtain ⟨t, ht, hm⟩ := hm
      obtain ⟨ht64, hbit⟩ := (mem_bitsOf _ _).1 ht
      rw [getBit_and _ _ _ ht64] at hbit
      simp only [Bool.and_eq_true] at hbit
      refine ⟨t, (pawnAttacks_mem g.white f t hf ht64).2 hbit.1, ?_⟩
      rw [spec_enemy wf t ht64, if_pos hbit.2, mem_fan]
      by_cases hnl : (if g.white = true then t ≥ 8 else t ≤ 55)
      · rw [if_pos hnl] at hm
        simp only [List.mem_singleton] at hm
        subst hm
        exact Or.inr ⟨(hlast t ht64).1 hnl, by rw [smove_mk _ _ _ _ _ _ _ _ hf ht64 hp16 (by decide)]; rfl⟩
      · rw [if_neg hnl] at hm
        have hl : last t = true := by
          cases h : last t
          · exact absurd ((hlast t ht64).2 h) hnl
          · rfl
        refine Or.inl ⟨hl, ?_⟩
        rw [← promo_images g.white f t true hf ht64, ← exists_mem_map_smove]
        exact ⟨m, hm, rfl⟩

theorem exists_mem_append {α : Type} (l1 l2 : List α) (P : α → Prop) :
    (∃ m ∈ l1 ++ l2, P m) ↔ (∃ m ∈ l1, P m) ∨ (∃ m ∈ l2, P m) := by
  simp only [List.mem_append]
  constructor
  · rintro ⟨m, h | h, hp⟩
    · exact Or.inl ⟨m, h, hp⟩
    · exact Or.inr ⟨m, h, hp⟩
  · rintro (⟨m, h, hp⟩ | ⟨m, h, hp⟩)
    · exact ⟨m, Or.inl h, hp⟩
    · exact ⟨m, Or.inr h, hp⟩

/-- pushes of a white pawn -/
theorem quiet_refines_white {g : Game} {b : Board} (wf : Wf g b) (hw : g.white = true) (f : Nat) (hrow : 8 ≤ f ∧ f < 56)
    (sm : Spec.SMove) :
    sm ∈ ((if (!Spec.occupiedIn (Spec.abs g) (f - 8)) = true then specPromoFan f (f - 8) (decide (f - 8 < 8)) else []) ++
       (if (decide (f / 8 = 6) && !Spec.occupiedIn (Spec.abs g) (f - 8) && !Spec.occupiedIn (Spec.abs g) (f - 16)) = true
        then [(⟨f, f - 16, none⟩ : Spec.SMove)] else [])) ↔
      ∃ m ∈ pawnQuiet g f, smove m = sm := by
  have hf : f < 64 := by omega
  rw [pawnQuiet_white g hw f hrow, abs_occupied wf (f - 8) (by omega), abs_occupied wf (f - 16) (by omega)]
  cases hocc : getBit g.allOcc (f - 8)
  · simp only [Bool.not_false, if_true, Bool.and_true]
    by_cases h8 : f - 8 ≥ 8
    · have hlt : ¬ (f - 8 < 8) := by omega
      simp only [hlt, decide_false, h8, decide_true, if_true]
      unfold specPromoFan
      simp only [Bool.false_eq_true, if_false]
      have s1 := smove_mk f (f - 8) WP PNONE false false false false hf (by omega) (by decide) (by decide)
      have s2 := smove_mk f (f - 16) WP PNONE false true false false hf (by omega) (by decide) (by decide)
      simp only [if_true] at s1 s2
      by_cases hc : (decide (f / 8 = 6) && !getBit g.allOcc (f - 16)) = true
      · have hc' : (!getBit g.allOcc (f - 16) && f / 8 == 6) = true := by
          simp only [Bool.and_eq_true, decide_eq_true_eq, beq_iff_eq] at hc ⊢; exact ⟨hc.2, hc.1⟩
        rw [if_pos hc, if_pos hc']
        simp only [List.mem_append, List.mem_singleton, List.mem_cons, List.not_mem_nil, or_false]
        constructor
        · rintro (h | h)
          · exact ⟨_, Or.inl rfl, by rw [s1, h]⟩
          · exact ⟨_, Or.inr rfl, by rw [s2, h]⟩
        · rintro ⟨m, (h | h), rfl⟩
          · rw [h, s1]; exact Or.inl rfl
          · rw [h, s2]; exact Or.inr rfl
      · have hc' : ¬ ((!getBit g.allOcc (f - 16) && f / 8 == 6) = true) := by
          intro h; apply hc
          simp only [Bool.and_eq_true, decide_eq_true_eq, beq_iff_eq] at h ⊢; exact ⟨h.2, h.1⟩
        rw [if_neg hc, if_neg hc']
        simp only [List.append_nil, List.mem_singleton]
        constructor
        · intro h; exact ⟨_, rfl, by rw [s1, h]⟩
        · rintro ⟨m, h, rfl⟩; rw [h, s1]
    · have hlt : f - 8 < 8 := by omega
      have h6 : ¬ (f / 8 = 6) := by omega
      simp only [hlt, decide_true, h8, decide_false, Bool.false_eq_true, if_false, h6, Bool.false_and, List.append_nil]
      unfold specPromoFan
      simp only [if_true]
      rw [exists_mem_map_smove, ← promo_images true f (f - 8) false hf (by omega)]
      rfl
  · simp only [Bool.not_true, Bool.false_eq_true, if_false, Bool.and_false, Bool.false_and, List.append_nil, List.not_mem_nil, false_iff]
    rintro ⟨m, hm, _⟩; exact absurd hm (by simp)

/-- pushes of a black pawn -/
theorem quiet_refines_black {g : Game} {b : Board} (wf : Wf g b) (hw : g.white = false) (f : Nat) (hrow : 8 ≤ f ∧ f < 56)
    (sm : Spec.SMove) :
    sm ∈ ((if (!Spec.occupiedIn (Spec.abs g) (f + 8)) = true then specPromoFan f (f + 8) (decide (f + 8 > 55)) else []) ++
       (if (decide (f / 8 = 1) && !Spec.occupiedIn (Spec.abs g) (f + 8) && !Spec.occupiedIn (Spec.abs g) (f + 16)) = true
        then [(⟨f, f + 16, none⟩ : Spec.SMove)] else [])) ↔
      ∃ m ∈ pawnQuiet g f, smove m = sm := by
  have hf : f < 64 := by omega
  rw [pawnQuiet_black g hw f hrow, abs_occupied wf (f + 8) (by omega)]
  cases hocc : getBit g.allOcc (f + 8)
  · simp only [Bool.not_false, if_true, Bool.and_true]
    by_cases h8 : f + 8 ≤ 55
    · have hlt : ¬ (f + 8 > 55) := by omega
      simp only [hlt, decide_false, h8, decide_true, if_true]
      unfold specPromoFan
      simp only [Bool.false_eq_true, if_false]
      rw [abs_occupied wf (f + 16) (by omega)]
      have s1 := smove_mk f (f + 8) BP PNONE false false false false hf (by omega) (by decide) (by decide)
      have s2 := smove_mk f (f + 16) BP PNONE false true false false hf (by omega) (by decide) (by decide)
      simp only [if_true] at s1 s2
      by_cases hc : (decide (f / 8 = 1) && !getBit g.allOcc (f + 16)) = true
      · have hc' : (!getBit g.allOcc (f + 16) && f / 8 == 1) = true := by
          simp only [Bool.and_eq_true, decide_eq_true_eq, beq_iff_eq] at hc ⊢; exact ⟨hc.2, hc.1⟩
        rw [if_pos hc, if_pos hc']
        simp only [List.mem_append, List.mem_singleton, List.mem_cons, List.not_mem_nil, or_false]
        constructor
        · rintro (h | h)
          · exact ⟨_, Or.inl rfl, by rw [s1, h]⟩
          · exact ⟨_, Or.inr rfl, by rw [s2, h]⟩
        · rintro ⟨m, (h | h), rfl⟩
          · rw [h, s1]; exact Or.inl rfl
          · rw [h, s2]; exact Or.inr rfl
      · have hc' : ¬ ((!getBit g.allOcc (f + 16) && f / 8 == 1) = true) := by
          intro h; apply hc
          simp only [Bool.and_eq_true, decide_eq_true_eq, beq_iff_eq] at h ⊢; exact ⟨h.2, h.1⟩
        rw [if_neg hc, if_neg hc']
        simp only [List.append_nil, List.mem_singleton]
        constructor
        · intro h; exact ⟨_, rfl, by rw [s1, h]⟩
        · rintro ⟨m, h, rfl⟩; rw [h, s1]
    · have hlt : f + 8 > 55 := by omega
      have h6 : ¬ (f / 8 = 1) := by omega
      simp only [hlt, decide_true, h8, decide_false, Bool.false_eq_true, if_false, h6, Bool.false_and, List.append_nil]
      unfold specPromoFan
      simp only [if_true]
      rw [exists_mem_map_smove, ← promo_images false f (f + 8) false hf (by omega)]
      rfl
  · simp only [Bool.not_true, Bool.false_eq_true, if_false, Bool.and_false, Bool.false_and, List.append_nil, List.not_mem_nil, false_iff]
    rintro ⟨m, hm, _⟩; exact absurd hm (by simp)

/-- **one pawn**: the rules' moves of the pawn on `f` are the `smove`s of what the generator emits for it -/
theorem pawn_refines {g : Game} {b : Board} (wf : Wf g b) (f : Nat) (hrow : 8 ≤ f ∧ f < 56) (sm : Spec.SMove) :
    sm ∈ Spec.pieceMoves (Spec.abs g) f ⟨g.white, .pawn⟩ ↔ ∃ m ∈ pawnMoves g true f, smove m = sm := by
  have hf : f < 64 := by omega
  unfold pawnMoves
  simp only [if_true]
  rw [List.append_assoc, exists_mem_append]
  cases hw : g.white
  · have hc := caps_refines wf f hf (fun t => decide (t > 55)) (fun t _ => by rw [hw]; simp) sm
    rw [hw] at hc
    rw [spec_pawn_black _ f hrow, List.mem_append, quiet_refines_black wf hw f hrow sm, hc]
  · have hc := caps_refines wf f hf (fun t => decide (t < 8)) (fun t _ => by rw [hw]; simp) sm
    rw [hw] at hc
    rw [spec_pawn_white _ f hrow, List.mem_append, quiet_refines_white wf hw f hrow sm, hc]

end Jence
