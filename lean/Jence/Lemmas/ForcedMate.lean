/-
  T11.2 (part): a minimax value in one of the two mate ranges is a forced mate of exactly the announced distance.

  `MatesIn R n g`: the side to move at `g` can force checkmate within `n` plies (its own moves and the replies counted
  alike); `MatedIn R n g`: the side to move at `g` is checkmated within `n` plies whatever it plays. Both are defined over
  the moves the rules instance `R` generates and `make` accepts, by recursion on `n` - no scores, no search.

  `nVal_mate`: whenever the plain minimax value `nVal` (Lemmas/NVal) of a node at `ply` exceeds `MATE_BOUND` it is
  `MATE_VALUE − (ply + n)` with `MatesIn n`, and whenever it is below `−MATE_BOUND` it is `−MATE_VALUE + (ply + n)` with
  `MatedIn n` - for every depth, fuel, history and rules instance whose static evaluation stays inside
  `(−MATE_BOUND, MATE_BOUND)` on an invariant set of positions (for chess: T16.5 `eval_bounded`).
-/
import Jence.Lemmas.NVal
namespace Jence
open Jence

/-- the side to move is checkmated: in check, and no generated move can be made -/
def Mated (R : Rules) (g : Game) : Prop :=
  R.inCheck g = true ∧ ∀ m ∈ R.generate g true, R.make g m = none

mutual
  /-- the side to move is checkmated within `n` plies, whatever it plays -/
  def MatedIn (R : Rules) : Nat → Game → Prop
    | 0, g => Mated R g
    | n + 1, g => Mated R g ∨
        ((∃ m ∈ R.generate g true, ∃ c, R.make g m = some c) ∧
         ∀ m ∈ R.generate g true, ∀ c, R.make g m = some c → MatesIn R n c)
  /-- the side to move can force checkmate within `n` plies -/
  def MatesIn (R : Rules) : Nat → Game → Prop
    | 0, _ => False
    | n + 1, g => ∃ m ∈ R.generate g true, ∃ c, R.make g m = some c ∧ MatedIn R n c
end

theorem mate_succ (R : Rules) : ∀ n, (∀ g, MatedIn R n g → MatedIn R (n + 1) g) ∧ (∀ g, MatesIn R n g → MatesIn R (n + 1) g) := by
  intro n
  induction n with
  | zero =>
    refine ⟨fun g h => ?_, fun g h => ?_⟩
    · simp only [MatedIn] at h ⊢; exact Or.inl h
    · simp only [MatesIn] at h
  | succ n ih =>
    refine ⟨fun g h => ?_, fun g h => ?_⟩
    · rw [MatedIn] at h ⊢
      rcases h with h | ⟨h1, h2⟩
      · exact Or.inl h
      · exact Or.inr ⟨h1, fun m hm c hc => ih.2 c (h2 m hm c hc)⟩
    · rw [MatesIn] at h ⊢
      obtain ⟨m, hm, c, hc, hd⟩ := h
      exact ⟨m, hm, c, hc, ih.1 c hd⟩

theorem MatedIn.mono (R : Rules) {n n' : Nat} (h : n ≤ n') {g : Game} (hm : MatedIn R n g) : MatedIn R n' g := by
  induction h with
  | refl => exact hm
  | step _ ih => exact (mate_succ R _).1 g ih

theorem MatesIn.mono (R : Rules) {n n' : Nat} (h : n ≤ n') {g : Game} (hm : MatesIn R n g) : MatesIn R n' g := by
  induction h with
  | refl => exact hm
  | step _ ih => exact (mate_succ R _).2 g ih

/-- checkmate falls on an even ply for the side that is mated, on an odd one for the side that mates -/
theorem mate_parity (R : Rules) : ∀ k, (∀ g, MatedIn R (2 * k + 1) g → MatedIn R (2 * k) g) ∧
    (∀ g, MatesIn R (2 * k + 2) g → MatesIn R (2 * k + 1) g) := by
  intro k
  induction k with
  | zero =>
    have h0 : ∀ g, MatedIn R 1 g → MatedIn R 0 g := by
      intro g h
      rw [MatedIn] at h
      rcases h with h | ⟨⟨m, hm, c, hc⟩, h2⟩
      · simpa only [MatedIn] using h
      · have := h2 m hm c hc; simp only [MatesIn] at this
    refine ⟨h0, fun g h => ?_⟩
    rw [MatesIn] at h ⊢
    obtain ⟨m, hm, c, hc, hd⟩ := h
    exact ⟨m, hm, c, hc, h0 c hd⟩
  | succ k ih =>
    have h1 : ∀ g, MatedIn R (2 * (k + 1) + 1) g → MatedIn R (2 * (k + 1)) g := by
      intro g h
      have e1 : 2 * (k + 1) + 1 = (2 * k + 2) + 1 := by omega
      have e2 : 2 * (k + 1) = (2 * k + 1) + 1 := by omega
      rw [e1, MatedIn] at h
      rw [e2, MatedIn]
      rcases h with h | ⟨h1, h2⟩
      · exact Or.inl h
      · exact Or.inr ⟨h1, fun m hm c hc => ih.2 c (h2 m hm c hc)⟩
    refine ⟨h1, fun g h => ?_⟩
    have e1 : 2 * (k + 1) + 2 = (2 * (k + 1) + 1) + 1 := by omega
    have e2 : 2 * (k + 1) + 1 = (2 * (k + 1)) + 1 := by omega
    rw [e1, MatesIn] at h
    rw [e2, MatesIn]
    obtain ⟨m, hm, c, hc, hd⟩ := h
    exact ⟨m, hm, c, hc, h1 c hd⟩

theorem MatedIn.even (R : Rules) {n : Nat} {g : Game} (h : MatedIn R n g) : MatedIn R (2 * (n / 2)) g := by
  rcases Nat.mod_two_eq_zero_or_one n with h0 | h1
  · have : 2 * (n / 2) = n := by omega
    rw [this]; exact h
  · have e : n = 2 * (n / 2) + 1 := by omega
    rw [e] at h
    exact (mate_parity R (n / 2)).1 g h

theorem MatesIn.odd (R : Rules) {n : Nat} {g : Game} (h : MatesIn R n g) : MatesIn R (2 * ((n + 1) / 2) - 1) g := by
  rcases Nat.mod_two_eq_zero_or_one n with h0 | h1
  · cases n with
    | zero => simp only [MatesIn] at h
    | succ j =>
      -- n = j + 1 even, so j odd: j = 2 i + 1, n = 2 i + 2
      have e : j + 1 = 2 * (j / 2) + 2 := by omega
      have e2 : 2 * ((j + 1 + 1) / 2) - 1 = 2 * (j / 2) + 1 := by omega
      rw [e2]
      rw [e] at h
      exact (mate_parity R (j / 2)).2 g h
  · have : 2 * ((n + 1) / 2) - 1 = n := by omega
    rw [this]; exact h

/-! ### values -/

theorem maxChild_none_all (R : Rules) (V : Game → Int) (g : Game) (ms : List Move) (h : maxChild R V g ms = none) :
    ∀ m ∈ ms, R.make g m = none := by
  induction ms with
  | nil => intro m hm; cases hm
  | cons x xs ih =>
    cases hmk : R.make g x with
    | none =>
      simp only [maxChild, hmk] at h
      intro m hm
      rcases List.mem_cons.1 hm with rfl | hin
      · exact hmk
      · exact ih h m hin
    | some c => simp [maxChild, hmk] at h

/-- the maximum is attained, and it dominates every child that can be made -/
theorem maxChild_some (R : Rules) (V : Game → Int) (g : Game) (ms : List Move) (M : Int) (h : maxChild R V g ms = some M) :
    (∃ m ∈ ms, ∃ c, R.make g m = some c ∧ -(V c) = M) ∧ (∀ m ∈ ms, ∀ c, R.make g m = some c → -(V c) ≤ M) := by
  induction ms generalizing M with
  | nil => simp [maxChild] at h
  | cons m ms ih =>
    cases hmk : R.make g m with
    | none =>
      simp only [maxChild, hmk] at h
      obtain ⟨⟨m', hm', c, hc, hv⟩, hall⟩ := ih M h
      refine ⟨⟨m', List.mem_cons_of_mem _ hm', c, hc, hv⟩, fun m'' hm'' c' hc' => ?_⟩
      rcases List.mem_cons.1 hm'' with rfl | hin
      · rw [hmk] at hc'; cases hc'
      · exact hall m'' hin c' hc'
    | some c0 =>
      simp only [maxChild, hmk] at h
      cases hrest : maxChild R V g ms with
      | none =>
        rw [hrest] at h
        simp only [Option.some.injEq] at h
        refine ⟨⟨m, List.mem_cons_self, c0, hmk, h⟩, fun m'' hm'' c' hc' => ?_⟩
        rcases List.mem_cons.1 hm'' with rfl | hin
        · rw [hmk] at hc'; cases hc'; omega
        · have := maxChild_none_all R V g ms hrest m'' hin; rw [this] at hc'; cases hc'
      | some v =>
        rw [hrest] at h
        simp only [Option.some.injEq] at h
        obtain ⟨⟨m', hm', c, hc, hv⟩, hall⟩ := ih v hrest
        refine ⟨?_, fun m'' hm'' c' hc' => ?_⟩
        · by_cases hle : v ≤ -(V c0)
          · exact ⟨m, List.mem_cons_self, c0, hmk, by omega⟩
          · exact ⟨m', List.mem_cons_of_mem _ hm', c, hc, by omega⟩
        · rcases List.mem_cons.1 hm'' with rfl | hin
          · rw [hmk] at hc'; cases hc'; omega
          · have := hall m'' hin c' hc'; omega

/-- the evaluation stays out of the mate ranges on a set of positions closed under the moves -/
structure EvalInv (R : Rules) (P : Game → Prop) : Prop where
  step : ∀ g m c, P g → R.make g m = some c → P c
  bound : ∀ g, P g → -Gen.MATE_BOUND < R.evaluate g ∧ R.evaluate g < Gen.MATE_BOUND

theorem bestOf_bound (R : Rules) (V : Game → Int) (g : Game) (B : Int) (ms : List Move) (init : Int)
    (hi : -B < init ∧ init < B) (hV : ∀ m ∈ ms, ∀ c, R.make g m = some c → -B < V c ∧ V c < B) :
    -B < bestOf R V g ms init ∧ bestOf R V g ms init < B := by
  induction ms generalizing init with
  | nil => exact hi
  | cons m ms ih =>
    cases hmk : R.make g m with
    | none =>
      rw [bestOf_cons_none R V g m ms init hmk]
      exact ih init hi (fun m' hm' => hV m' (List.mem_cons_of_mem _ hm'))
    | some c =>
      rw [bestOf_cons_some R V g m ms init c hmk]
      have := hV m List.mem_cons_self c hmk
      exact ih _ (by omega) (fun m' hm' => hV m' (List.mem_cons_of_mem _ hm'))

/-- the capture-tree value never reaches a mate range -/
theorem qVal_bound (R : Rules) (P : Game → Prop) (hI : EvalInv R P) (fuel : Nat) (g : Game) (ply : Nat) (hP : P g) :
    -Gen.MATE_BOUND < qVal R fuel g ply ∧ qVal R fuel g ply < Gen.MATE_BOUND := by
  induction fuel generalizing g ply with
  | zero => exact hI.bound g hP
  | succ fuel ih =>
    unfold qVal
    simp only
    split
    · exact hI.bound g hP
    · exact bestOf_bound R _ g Gen.MATE_BOUND _ _ (hI.bound g hP) (fun m _ c hc => ih c (ply + 1) (hI.step g m c hP hc))

theorem mate_consts : (0 : Int) ≤ Gen.MATE_BOUND ∧ Gen.MATE_BOUND < Gen.MATE_VALUE := by decide

/-- **the mate ranges of the minimax value mean forced mates of exactly that distance** -/
theorem nVal_mate (R : Rules) (P : Game → Prop) (hI : EvalInv R P) (H : List UInt64) (fuel : Nat) (g : Game) (depth ply : Nat)
    (hP : P g) :
    (nVal R H fuel g depth ply > Gen.MATE_BOUND →
        ∃ n : Nat, nVal R H fuel g depth ply = Gen.MATE_VALUE - ((ply + n : Nat) : Int) ∧ MatesIn R n g) ∧
    (nVal R H fuel g depth ply < -Gen.MATE_BOUND →
        ∃ n : Nat, nVal R H fuel g depth ply = -Gen.MATE_VALUE + ((ply + n : Nat) : Int) ∧ MatedIn R n g) := by
  obtain ⟨hb0, hbv⟩ := mate_consts
  induction fuel generalizing g depth ply with
  | zero =>
    unfold nVal
    exact ⟨fun h => by omega, fun h => by omega⟩
  | succ fuel ih =>
    unfold nVal
    split
    · exact ⟨fun h => by omega, fun h => by omega⟩
    split
    · have := hI.bound g hP
      exact ⟨fun h => by omega, fun h => by omega⟩
    split
    · have := qVal_bound R P hI qFuel g ply hP
      exact ⟨fun h => by omega, fun h => by omega⟩
    simp only
    generalize hnd : (if R.inCheck g = true then depth + 1 else depth) = nDepth
    cases hmc : maxChild R (fun c => nVal R H fuel c (nDepth - 1) (ply + 1)) g (R.generate g true) with
    | none =>
      simp only
      by_cases hc : R.inCheck g = true
      · rw [if_pos hc]
        refine ⟨fun h => ?_, fun _ => ⟨0, by simp, ?_⟩⟩
        · -- a mated node never carries a positive mate score: the ply is below the cap
          rename_i hcap _
          have hM : Gen.MAX_PLY = 64 := rfl
          rw [hM] at hcap
          have h64 : (64 : Int) ≤ Gen.MATE_VALUE + Gen.MATE_BOUND := by decide
          omega
        · simp only [MatedIn]
          exact ⟨hc, maxChild_none_all R _ g _ hmc⟩
      · rw [if_neg hc]
        exact ⟨fun h => by omega, fun h => by omega⟩
    | some M =>
      simp only
      obtain ⟨⟨m, hm, c, hmk, hv⟩, hall⟩ := maxChild_some R _ g _ M hmc
      refine ⟨fun h => ?_, fun h => ?_⟩
      · -- the best child is lost for its mover
        have hc := (ih c (nDepth - 1) (ply + 1) (hI.step g m c hP hmk)).2 (by omega)
        obtain ⟨n, hn, hd⟩ := hc
        refine ⟨n + 1, ?_, ?_⟩
        · rw [← hv, hn]; push_cast; omega
        · rw [MatesIn]; exact ⟨m, hm, c, hmk, hd⟩
      · -- every child is won for its mover; the slowest of them sets the distance
        have hc := (ih c (nDepth - 1) (ply + 1) (hI.step g m c hP hmk)).1 (by omega)
        obtain ⟨n, hn, hd⟩ := hc
        refine ⟨n + 1, ?_, ?_⟩
        · rw [← hv, hn]; push_cast; omega
        · rw [MatedIn]
          refine Or.inr ⟨⟨m, hm, c, hmk⟩, fun m' hm' c' hmk' => ?_⟩
          have hle := hall m' hm' c' hmk'
          have hc' := (ih c' (nDepth - 1) (ply + 1) (hI.step g m' c' hP hmk')).1 (by omega)
          obtain ⟨n', hn', hd'⟩ := hc'
          refine MatesIn.mono R ?_ hd'
          have : -(nVal R H fuel c' (nDepth - 1) (ply + 1)) ≤ -(nVal R H fuel c (nDepth - 1) (ply + 1)) := by
            rw [hv]; exact hle
          rw [hn, hn'] at this
          push_cast at this
          omega

end Jence
