/-
  The flags of a generated move are truthful: "en passant", "castling", "double push" are set exactly when the move is
  one by the rules' own description (a pawn stepping diagonally onto the empty en-passant square; a king stepping two
  files; a pawn stepping two rows).
-/
import Jence.Lemmas.GenFits
namespace Jence
open Jence

def kingOf (w : Bool) : Nat := if w then WK else BK

structure FlagsTrue (b : Board) (w : Bool) (ep : Nat) (m : Move) : Prop where
  epIff : m.isEnpassant = true ↔ (m.piece = (if w then WP else BP) ∧ ep = m.toSq ∧ m.fromSq % 8 ≠ m.toSq % 8 ∧ b m.toSq = none)
  epRow : m.isEnpassant = true → (w = true → m.fromSq / 8 = m.toSq / 8 + 1) ∧ (w = false → m.fromSq / 8 + 1 = m.toSq / 8)
  castleIff : m.isCastling = true ↔ (m.piece = (if w then WK else BK) ∧ (m.toSq = m.fromSq + 2 ∨ m.toSq + 2 = m.fromSq))
  dpushIff : m.isDoublePush = true ↔ (m.piece = (if w then WP else BP) ∧ (m.toSq = m.fromSq + 16 ∨ m.toSq + 16 = m.fromSq))

set_option maxRecDepth 100000 in
/-- the pawn capture tables, in coordinates: one row forward, one file to the side -/
theorem pawn_attack_geom : ∀ f, f < 64 → ∀ t, t < 64 →
    ((getBit (getPawnAttacks f true) t = true ↔ (t / 8 + 1 = f / 8 ∧ (t % 8 + 1 = f % 8 ∨ f % 8 + 1 = t % 8))) ∧
     (getBit (getPawnAttacks f false) t = true ↔ (f / 8 + 1 = t / 8 ∧ (t % 8 + 1 = f % 8 ∨ f % 8 + 1 = t % 8)))) := by
  decide +kernel

set_option maxRecDepth 100000 in
/-- a king step never spans two files on one row -/
theorem king_attack_geom : ∀ f, f < 64 → ∀ t, t < 64 → getBit (getKingAttacks f) t = true → ¬ (t = f + 2 ∨ t + 2 = f) := by
  decide +kernel

section builders
variable {b : Board} {w : Bool} {ep : Nat}

private theorem consts : WP = 0 ∧ BP = 6 ∧ WK = 5 ∧ BK = 11 := ⟨rfl, rfl, rfl, rfl⟩

/-- a non-special move (no flag but possibly "capture"), given why it is neither en passant, castling nor a double push -/
theorem flags_plain (f t p pr : Nat) (c : Bool) (hf : f < 64) (ht : t < 64) (hp : p < 16) (hpr : pr < 16)
    (hne : ¬ (p = (if w then WP else BP) ∧ ep = t ∧ f % 8 ≠ t % 8 ∧ b t = none))
    (hnc : ¬ (p = (if w then WK else BK) ∧ (t = f + 2 ∨ t + 2 = f)))
    (hnd : ¬ (p = (if w then WP else BP) ∧ (t = f + 16 ∨ t + 16 = f))) :
    FlagsTrue b w ep (Move.mk' f t p pr c false false false) := by
  obtain ⟨e1, e2, e3, e4, e5, e6, e7, e8⟩ := mk_fields f t p pr c false false false hf ht hp hpr
  refine ⟨?_, ?_, ?_, ?_⟩
  · rw [e7, e3, e2, e1]; exact ⟨fun h => absurd h (by simp), fun h => absurd h hne⟩
  · rw [e7]; exact fun h => absurd h (by simp)
  · rw [e8, e3, e2, e1]; exact ⟨fun h => absurd h (by simp), fun h => absurd h hnc⟩
  · rw [e6, e3, e2, e1]; exact ⟨fun h => absurd h (by simp), fun h => absurd h hnd⟩

theorem flags_dpush (f t : Nat) (hf : f < 64) (ht : t < 64) (h16 : t = f + 16 ∨ t + 16 = f) :
    FlagsTrue b w ep (Move.mk' f t (if w then WP else BP) PNONE false true false false) := by
  obtain ⟨hWP, hBP, hWK, hBK⟩ := consts
  obtain ⟨e1, e2, e3, e4, e5, e6, e7, e8⟩ := mk_fields f t (if w then WP else BP) PNONE false true false false hf ht
    (by cases w <;> decide) (by decide)
  refine ⟨?_, ?_, ?_, ?_⟩
  · rw [e7, e3, e2, e1]; exact ⟨fun h => absurd h (by simp), fun ⟨_, _, h, _⟩ => by omega⟩
  · rw [e7]; exact fun h => absurd h (by simp)
  · rw [e8, e3, e2, e1]; exact ⟨fun h => absurd h (by simp), fun ⟨h, _⟩ => by cases w <;> simp at h <;> omega⟩
  · rw [e6, e3, e2, e1]; exact ⟨fun _ => ⟨rfl, h16⟩, fun _ => rfl⟩

theorem flags_ep (f : Nat) (hf : f < 64) (hep : ep < 64) (hfile : f % 8 ≠ ep % 8) (hempty : b ep = none)
    (hrow : (w = true → f / 8 = ep / 8 + 1) ∧ (w = false → f / 8 + 1 = ep / 8)) :
    FlagsTrue b w ep (Move.mk' f ep (if w then WP else BP) PNONE true false true false) := by
  obtain ⟨hWP, hBP, hWK, hBK⟩ := consts
  obtain ⟨e1, e2, e3, e4, e5, e6, e7, e8⟩ := mk_fields f ep (if w then WP else BP) PNONE true false true false hf hep
    (by cases w <;> decide) (by decide)
  refine ⟨?_, ?_, ?_, ?_⟩
  · rw [e7, e3, e2, e1]; exact ⟨fun _ => ⟨rfl, rfl, hfile, hempty⟩, fun _ => rfl⟩
  · rw [e2, e1]; exact fun _ => hrow
  · rw [e8, e3, e2, e1]; exact ⟨fun h => absurd h (by simp), fun ⟨h, _⟩ => by cases w <;> simp at h <;> omega⟩
  · rw [e6, e3, e2, e1]; refine ⟨fun h => absurd h (by simp), fun ⟨_, h⟩ => ?_⟩
    exfalso
    cases w
    · have := hrow.2 rfl; omega
    · have := hrow.1 rfl; omega

theorem flags_castle (t : Nat) (ht : t < 64) (h2 : t = (if w then 60 else 4) + 2 ∨ t + 2 = (if w then 60 else 4)) :
    FlagsTrue b w ep (Move.mk' (if w then 60 else 4) t (if w then WK else BK) PNONE false false false true) := by
  obtain ⟨hWP, hBP, hWK, hBK⟩ := consts
  obtain ⟨e1, e2, e3, e4, e5, e6, e7, e8⟩ := mk_fields (if w then 60 else 4) t (if w then WK else BK) PNONE false false false true
    (by cases w <;> decide) ht (by cases w <;> decide) (by decide)
  refine ⟨?_, ?_, ?_, ?_⟩
  · rw [e7, e3, e2, e1]; exact ⟨fun h => absurd h (by simp), fun ⟨h, _⟩ => by cases w <;> simp at h <;> omega⟩
  · rw [e7]; exact fun h => absurd h (by simp)
  · rw [e8, e3, e2, e1]; exact ⟨fun _ => ⟨rfl, h2⟩, fun _ => rfl⟩
  · rw [e6, e3, e2, e1]; exact ⟨fun h => absurd h (by simp), fun ⟨h, _⟩ => by cases w <;> simp at h <;> omega⟩

end builders

section parts
variable {g : Game} {b : Board}

theorem pieceMoves_flags (wf : Wf g b) (all : Bool) (X : Nat) (hown : ownP g.white X) (hnp : X ≠ (if g.white then WP else BP))
    (att : Nat → UInt64)
    (hking : X = (if g.white then WK else BK) → ∀ f t, f < 64 → t < 64 → getBit (att f) t = true → ¬ (t = f + 2 ∨ t + 2 = f)) :
    ∀ m ∈ pieceMoves g all X att, FlagsTrue b g.white g.ep m := by
  intro m hm
  unfold pieceMoves at hm
  simp only [List.mem_flatMap, List.mem_append] at hm
  obtain ⟨f, hf, hm⟩ := hm
  obtain ⟨hfl, _⟩ := (mem_bitsOf _ _).1 hf
  have hp16 : X < 16 := by have := ownP_lt hown; omega
  have build : ∀ t c, t < 64 → getBit (att f) t = true → FlagsTrue b g.white g.ep (Move.mk' f t X PNONE c false false false) := by
    intro t c htl hbit
    exact flags_plain f t X PNONE c hfl htl hp16 (by decide) (fun h => hnp h.1) (fun h => hking h.1 f t hfl htl hbit h.2) (fun h => hnp h.1)
  rcases hm with hq | hc
  · by_cases hall : all = true
    · rw [if_pos hall, List.mem_map] at hq
      obtain ⟨t, ht, rfl⟩ := hq
      obtain ⟨htl, hbit⟩ := (mem_bitsOf _ _).1 ht
      rw [getBit_and _ _ _ htl] at hbit
      simp only [Bool.and_eq_true] at hbit
      exact build t false htl hbit.1
    · rw [if_neg hall] at hq; exact absurd hq (by simp)
  · rw [List.mem_map] at hc
    obtain ⟨t, ht, rfl⟩ := hc
    obtain ⟨htl, hbit⟩ := (mem_bitsOf _ _).1 ht
    rw [getBit_and _ _ _ htl] at hbit
    simp only [Bool.and_eq_true] at hbit
    exact build t true htl hbit.1

theorem castlingMoves_flags (all : Bool) : ∀ m ∈ castlingMoves g all, FlagsTrue b g.white g.ep m := by
  intro m hm
  unfold castlingMoves at hm
  by_cases hall : all = true
  · have : ¬ ((!all) = true) := by simp [hall]
    rw [if_neg this] at hm
    cases hw : g.white
    · rw [hw] at hm
      simp only [Bool.false_eq_true, if_false, List.mem_append] at hm
      rcases hm with hm | hm <;> split at hm
      · simp only [List.mem_singleton] at hm; subst hm
        exact flags_castle (w := false) 6 (by decide) (Or.inl rfl)
      · exact absurd hm (by simp)
      · simp only [List.mem_singleton] at hm; subst hm
        exact flags_castle (w := false) 2 (by decide) (Or.inr rfl)
      · exact absurd hm (by simp)
    · rw [hw] at hm
      simp only [if_true, List.mem_append] at hm
      rcases hm with hm | hm <;> split at hm
      · simp only [List.mem_singleton] at hm; subst hm
        exact flags_castle (w := true) 62 (by decide) (Or.inl rfl)
      · exact absurd hm (by simp)
      · simp only [List.mem_singleton] at hm; subst hm
        exact flags_castle (w := true) 58 (by decide) (Or.inr rfl)
      · exact absurd hm (by simp)
  · have : (!all) = true := by simpa using hall
    rw [if_pos this] at hm
    exact absurd hm (by simp)

theorem pawnQuiet_flags (f : Nat) (hfl : f < 64) (hrow : 8 ≤ f ∧ f < 56) : ∀ m ∈ pawnQuiet g f, FlagsTrue b g.white g.ep m := by
  obtain ⟨hWP, hBP, hWK, hBK⟩ := consts
  intro m hm
  unfold pawnQuiet at hm
  cases hw : g.white
  · rw [hw] at hm
    simp only [Bool.false_eq_true, if_false] at hm
    have h8 : u8add8 f = f + 8 := by unfold u8add8; omega
    rw [h8] at hm
    split at hm
    · split at hm
      · rename_i hlast
        have hlast' : f + 8 ≤ 55 := by simpa using hlast
        have h16 : u8add8 (f + 8) = f + 16 := by unfold u8add8; omega
        rw [h16] at hm
        rcases List.mem_cons.1 hm with hm | hm
        · subst hm
          exact flags_plain (w := false) f (f + 8) BP PNONE false hfl (by omega) (by decide) (by decide)
            (fun h => by omega) (fun h => by simp at h <;> omega) (fun h => by omega)
        · split at hm
          · simp only [List.mem_singleton] at hm; subst hm
            exact flags_dpush (w := false) f (f + 16) hfl (by omega) (Or.inl rfl)
          · exact absurd hm (by simp)
      · rw [List.mem_map] at hm
        obtain ⟨p, hp, rfl⟩ := hm
        have hp16 : p < 16 := by unfold promos at hp; simp at hp; rcases hp with h | h | h | h <;> subst h <;> decide
        exact flags_plain (w := false) f (f + 8) BP p false hfl (by omega) (by decide) hp16
          (fun h => by omega) (fun h => by simp at h <;> omega) (fun h => by omega)
    · exact absurd hm (by simp)
  · rw [hw] at hm
    simp only [if_true] at hm
    have h8 : u8sub8 f = f - 8 := by unfold u8sub8; omega
    rw [h8] at hm
    split at hm
    · split at hm
      · rename_i hlast
        have hlast' : 8 ≤ f - 8 := by simpa using hlast
        have h16 : u8sub8 (f - 8) = f - 16 := by unfold u8sub8; omega
        rw [h16] at hm
        rcases List.mem_cons.1 hm with hm | hm
        · subst hm
          exact flags_plain (w := true) f (f - 8) WP PNONE false hfl (by omega) (by decide) (by decide)
            (fun h => by omega) (fun h => by simp at h <;> omega) (fun h => by omega)
        · split at hm
          · simp only [List.mem_singleton] at hm; subst hm
            exact flags_dpush (w := true) f (f - 16) hfl (by omega) (Or.inr (by omega))
          · exact absurd hm (by simp)
      · rw [List.mem_map] at hm
        obtain ⟨p, hp, rfl⟩ := hm
        have hp16 : p < 16 := by unfold promos at hp; simp at hp; rcases hp with h | h | h | h <;> subst h <;> decide
        exact flags_plain (w := true) f (f - 8) WP p false hfl (by omega) (by decide) hp16
          (fun h => by omega) (fun h => by simp at h <;> omega) (fun h => by omega)
    · exact absurd hm (by simp)

theorem pawnEp_flags (wf : Wf g b) (f : Nat) (hfl : f < 64) : ∀ m ∈ pawnEp g f, FlagsTrue b g.white g.ep m := by
  intro m hm
  unfold pawnEp at hm
  simp only at hm
  by_cases hc : (g.ep != SQNONE && !isEmpty (getPawnAttacks f g.white &&& bit g.ep)) = true
  · rw [if_pos hc] at hm
    simp only [Bool.and_eq_true] at hc
    have hne : g.ep ≠ 64 := by have := hc.1; simpa using this
    have hle := wf.ok.epLe
    have hepl : g.ep < 64 := by omega
    obtain ⟨hto, _, _⟩ := wf.ok.epOk hne
    have hbit := not_isEmpty_and_bit _ _ hepl hc.2
    simp only [List.mem_singleton] at hm
    subst hm
    obtain ⟨gw, gb⟩ := pawn_attack_geom f hfl g.ep hepl
    cases hw : g.white
    · rw [hw] at hbit
      have := gb.1 hbit
      exact flags_ep (w := false) f hfl hepl (by omega) hto ⟨fun h => absurd h (by simp), fun _ => this.1⟩
    · rw [hw] at hbit
      have := gw.1 hbit
      exact flags_ep (w := true) f hfl hepl (by omega) hto ⟨fun _ => this.1.symm, fun h => absurd h (by simp)⟩
  · rw [if_neg hc] at hm
    exact absurd hm (by simp)

theorem pawnCaps_flags (wf : Wf g b) (f : Nat) (hfl : f < 64) : ∀ m ∈ pawnCaps g f, FlagsTrue b g.white g.ep m := by
  obtain ⟨hWP, hBP, hWK, hBK⟩ := consts
  intro m hm
  unfold pawnCaps at hm
  simp only [List.mem_flatMap] at hm
  obtain ⟨t, ht, hm⟩ := hm
  obtain ⟨htl, hbit⟩ := (mem_bitsOf _ _).1 ht
  rw [getBit_and _ _ _ htl] at hbit
  simp only [Bool.and_eq_true] at hbit
  obtain ⟨hatt, hopp⟩ := hbit
  obtain ⟨v, hv, _⟩ := wf.enemy_of_occ t htl hopp
  obtain ⟨gw, gb⟩ := pawn_attack_geom f hfl t htl
  have hrows : ¬ (t = f + 16 ∨ t + 16 = f) := by
    cases hw : g.white
    · rw [hw] at hatt; have := gb.1 hatt; omega
    · rw [hw] at hatt; have := gw.1 hatt; omega
  have build : ∀ pr, pr < 16 → FlagsTrue b g.white g.ep (Move.mk' f t (if g.white then WP else BP) pr true false false false) := by
    intro pr hpr
    exact flags_plain f t _ pr true hfl htl (by cases g.white <;> decide) hpr
      (fun h => by rw [hv] at h; exact absurd h.2.2.2 (by simp)) (fun h => by have := h.1; cases hw : g.white <;> rw [hw] at this <;> simp only [Bool.false_eq_true, if_false, if_true] at this <;> omega)
      (fun h => hrows h.2)
  by_cases hlast : (if g.white = true then t ≥ 8 else t ≤ 55)
  · rw [if_pos hlast] at hm
    simp only [List.mem_singleton] at hm
    rw [hm]; exact build PNONE (by decide)
  · rw [if_neg hlast, List.mem_map] at hm
    obtain ⟨p, hp, hmk⟩ := hm
    have hp16 : p < 16 := by
      unfold promos at hp
      cases hw : g.white <;> rw [hw] at hp <;> simp at hp <;> rcases hp with h | h | h | h <;> subst h <;> decide
    rw [← hmk]; exact build p hp16

end parts

/-- **the flags of every generated move are truthful** -/
theorem gen_flags {g : Game} {b : Board} (wf : Wf g b) (all : Bool) : ∀ m ∈ generateMoves g all, FlagsTrue b g.white g.ep m := by
  obtain ⟨hWP, hBP, hWK, hBK⟩ := consts
  have hWN : WN = 1 := rfl
  have hWB : WB = 2 := rfl
  have hWR : WR = 3 := rfl
  have hWQ : WQ = 4 := rfl
  intro m hm
  unfold generateMoves at hm
  simp only [List.mem_append] at hm
  have hown : ∀ q, q < 6 → ownP g.white (q + (if g.white then 0 else 6)) := by
    intro q hq; unfold ownP; cases g.white <;> simp <;> omega
  have hnp : ∀ q, 0 < q → q + (if g.white then 0 else 6) ≠ (if g.white then WP else BP) := by
    intro q hq; cases g.white <;> simp <;> omega
  have hnk : ∀ q, q < 5 → q + (if g.white then 0 else 6) ≠ (if g.white then WK else BK) := by
    intro q hq; cases g.white <;> simp <;> omega
  rcases hm with (((((hp | hc) | hn) | hb) | hr) | hq) | hkg
  · rw [List.mem_flatMap] at hp
    obtain ⟨f, hf, hp⟩ := hp
    have hpw : WP + (if g.white then 0 else 6) = (if g.white then WP else BP) := by cases g.white <;> rfl
    rw [hpw] at hf
    obtain ⟨hfl, hsrc⟩ := wf.piece_of_bit _ f (by cases g.white <;> decide) hf
    have hrow := wf.ok.pawns f hfl (by rw [hsrc]; cases g.white <;> simp)
    unfold pawnMoves at hp
    simp only [List.mem_append] at hp
    rcases hp with (hq | he) | hcp
    · cases all
      · exact absurd hq (by simp)
      · exact pawnQuiet_flags f hfl hrow m hq
    · exact pawnEp_flags wf f hfl m he
    · exact pawnCaps_flags wf f hfl m hcp
  · exact castlingMoves_flags all m hc
  · exact pieceMoves_flags wf all _ (hown WN (by omega)) (hnp WN (by omega)) _ (fun h => absurd h (hnk WN (by omega))) m hn
  · exact pieceMoves_flags wf all _ (hown WB (by omega)) (hnp WB (by omega)) _ (fun h => absurd h (hnk WB (by omega))) m hb
  · exact pieceMoves_flags wf all _ (hown WR (by omega)) (hnp WR (by omega)) _ (fun h => absurd h (hnk WR (by omega))) m hr
  · exact pieceMoves_flags wf all _ (hown WQ (by omega)) (hnp WQ (by omega)) _ (fun h => absurd h (hnk WQ (by omega))) m hq
  · exact pieceMoves_flags wf all _ (hown WK (by omega)) (hnp WK (by omega)) _
      (fun _ f t hf ht hbit => king_attack_geom f hf t ht hbit) m hkg

end Jence
