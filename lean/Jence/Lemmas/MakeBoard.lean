/-
  `make_search_move` on the board view: if the piece sets hold the board `b` and the move fits it (`MoveFits`), the piece
  sets afterwards hold `applyB b w m` - the board the rules prescribe (piece moved, captured piece gone, en-passant pawn
  gone, pawn replaced on promotion, rook hopped on castling).
-/
import Jence.Lemmas.Board
namespace Jence
open Jence

/-- `make_search_move` without its check test: what the new position would be -/
def makeForce (g : Game) (m : Move) : Game := makePost (makePre g m) m

theorem makeCore_some {g g' : Game} {m : Move} (h : makeCore g m = some g') : g' = makeForce g m := by
  unfold makeCore at h
  simp only at h
  split at h
  · exact absurd h (by simp)
  · injection h with h; exact h.symm

theorem makeCore_eq (g : Game) (m : Move) :
    makeCore g m = if isInCheck (makePre g m) (makePre g m).white then none else some (makeForce g m) := rfl

/-- the square of the pawn an en-passant capture removes -/
def vsq (w : Bool) (to : Nat) : Nat := if w then to + 8 else to - 8

def ownP (w : Bool) (q : Nat) : Prop := if w then q < 6 else 6 ≤ q ∧ q < 12
def enemyP (w : Bool) (q : Nat) : Prop := if w then 6 ≤ q ∧ q < 12 else q < 6

theorem ownP_lt {w : Bool} {q : Nat} (h : ownP w q) : q < 12 := by
  unfold ownP at h; split at h <;> omega

/-- castling: king target square ↦ (rook, rook from, rook to) -/
def rookHop (to : Nat) : Option (Nat × Nat × Nat) :=
  if to = 62 then some (WR, 63, 61) else if to = 58 then some (WR, 56, 59)
  else if to = 6 then some (BR, 7, 5) else if to = 2 then some (BR, 0, 3) else none

/-- the move fits the board: what its fields claim about the squares it touches is what the board holds -/
structure MoveFits (b : Board) (w : Bool) (m : Move) : Prop where
  piece : ownP w m.piece
  fromLt : m.fromSq < 64
  toLt : m.toSq < 64
  src : b m.fromSq = some m.piece
  quiet : m.isCapture = false → b m.toSq = none
  cap : m.isCapture = true → m.isEnpassant = false →
    ∃ v, b m.toSq = some v ∧ enemyP w v ∧ v ≠ (if w then BK else WK)
  ep : m.isEnpassant = true → m.isCapture = true ∧ b m.toSq = none ∧ (w = true → m.toSq + 8 < 64) ∧ (w = false → 8 ≤ m.toSq) ∧
    b (vsq w m.toSq) = some (if w then BP else WP) ∧ m.promotion = PNONE ∧ m.isCastling = false
  promo : m.promotion ≠ PNONE → ownP w m.promotion ∧ m.promotion ≠ m.piece
  castle : m.isCastling = true → m.promotion = PNONE ∧ m.isCapture = false ∧
    ∃ r f t, rookHop m.toSq = some (r, f, t) ∧ b f = some r ∧ b t = none ∧ m.fromSq ≠ f ∧ m.fromSq ≠ t ∧ ownP w r ∧ m.piece ≠ r
  /-- castling starts on the king's home square, and it is the king that moves -/
  castleFrom : m.isCastling = true → m.fromSq = (if w then 60 else 4) ∧ m.piece = (if w then WK else BK)
  /-- only pawns promote, and not to a pawn or a king -/
  promoKind : m.promotion ≠ PNONE → m.piece = (if w then WP else BP) ∧ m.promotion ≠ WP ∧ m.promotion ≠ BP ∧
    m.promotion ≠ WK ∧ m.promotion ≠ BK
  /-- a pawn that does not promote stays off the first and last rows -/
  pawnTo : m.piece = (if w then WP else BP) → m.promotion = PNONE → 8 ≤ m.toSq ∧ m.toSq < 56
  /-- a double push: a pawn, two rows, over an empty square -/
  dpush : m.isDoublePush = true → m.piece = (if w then WP else BP) ∧ m.isCapture = false ∧ m.promotion = PNONE ∧
    m.isCastling = false ∧ (w = true → m.toSq + 16 = m.fromSq ∧ b (m.toSq + 8) = none) ∧
    (w = false → m.fromSq + 16 = m.toSq ∧ b (m.toSq - 8) = none)

/-- the board after the move -/
def applyB (b : Board) (w : Bool) (m : Move) : Board :=
  let b1 := b.set m.fromSq none
  let b2 := if m.isEnpassant then b1.set (vsq w m.toSq) none else b1
  let b3 := b2.set m.toSq (some (if m.promotion ≠ PNONE then m.promotion else m.piece))
  if m.isCastling then
    match rookHop m.toSq with
    | some (r, f, t) => (b3.set f none).set t (some r)
    | none => b3
  else b3

theorem Board.set_set (b : Board) (s : Nat) (v v' : Option Nat) : (b.set s v).set s v' = b.set s v' := by
  funext t; unfold Board.set; split <;> rfl

theorem Board.set_self (b : Board) (s : Nat) (v : Option Nat) (h : b s = v) : b.set s v = b := by
  funext t; unfold Board.set; split
  · rename_i h'; rw [h', h]
  · rfl

/-- the capture scan, with what it skipped -/
theorem captureLoop_scan (g : Game) (start sq : Nat) : ∀ n k,
    (∃ p, captureLoop g start sq n k = ({ g with bbs := g.bbs.setIfInBounds p (unsetBit (g.bbs.getD p 0) sq) }, some p) ∧
          getBit (g.bbs.getD p 0) sq = true ∧ start + k ≤ p ∧ p < start + k + n) ∨
    (captureLoop g start sq n k = (g, none) ∧ ∀ p, start + k ≤ p → p < start + k + n → getBit (g.bbs.getD p 0) sq = false) := by
  intro n
  induction n with
  | zero => intro k; right; exact ⟨rfl, fun p h1 h2 => by omega⟩
  | succ n ih =>
    intro k
    simp only [captureLoop, Game.bb, Game.setBB]
    by_cases h : getBit (g.bbs.getD (start + k) 0) sq = true
    · left; exact ⟨start + k, by simp only [h, if_true], h, by omega, by omega⟩
    · simp only [h, Bool.false_eq_true, if_false]
      rcases ih (k + 1) with ⟨p, h1, h2, h3, h4⟩ | ⟨h1, h2⟩
      · left; exact ⟨p, h1, h2, by omega, by omega⟩
      · right
        refine ⟨h1, fun p hp1 hp2 => ?_⟩
        by_cases hpk : p = start + k
        · subst hpk; simpa using h
        · exact h2 p (by omega) (by omega)

/-- step 2 on the board: the piece leaves its square and is the extra pair on the target square -/
theorem preMove_rep (g : Game) (m : Move) (b : Board) (h : Rep g.bbs b none) (hp : m.piece < 12) (hf : m.fromSq < 64)
    (ht : m.toSq < 64) (hsrc : b m.fromSq = some m.piece) :
    Rep (preMove g m).bbs (b.set m.fromSq none) (some (m.piece, m.toSq)) := by
  have h1 := rep_unset g.bbs b none m.piece m.fromSq h hp hf hsrc (by simp)
  have h2 := rep_set _ _ m.piece m.toSq h1 hp ht
  exact h2

/-- step 3 on the board -/
theorem preCapture_rep (g : Game) (m : Move) (b b1 : Board) (w : Bool) (hw : g.white = w) (fits : MoveFits b w m)
    (hb1 : b1 = b.set m.fromSq none) (h : Rep g.bbs b1 (some (m.piece, m.toSq))) :
    Rep (preCapture g m).bbs
      (if m.isCapture then (if m.isEnpassant then b1.set (vsq w m.toSq) none else b1.set m.toSq none) else b1)
      (some (m.piece, m.toSq)) := by
  have hBP : BP = 6 := rfl
  have hWP : WP = 0 := rfl
  have hBK : BK = 11 := rfl
  have hWK : WK = 5 := rfl
  have hpl := ownP_lt fits.piece
  unfold preCapture
  by_cases hc : m.isCapture = true
  · rw [if_pos hc, if_pos hc]
    by_cases he : m.isEnpassant = true
    · rw [if_pos he, if_pos he]
      obtain ⟨_, hto, hlt, hge, hv, _, _⟩ := fits.ep he
      have hne : vsq w m.toSq ≠ m.fromSq := by
        intro heq; rw [heq, fits.src] at hv
        have := fits.piece
        injection hv with hv
        unfold ownP at this
        cases w <;> simp at this hv <;> omega
      have hv1 : b1 (vsq w m.toSq) = some (if w then BP else WP) := by
        rw [hb1, Board.set_ne _ _ _ _ hne]; exact hv
      cases w with
      | true =>
        rw [if_pos hw]
        simp only [vsq, if_true] at hv1 hne ⊢
        exact rep_unset g.bbs b1 _ BP (m.toSq + 8) h (by decide) (hlt rfl) hv1 (by
          intro h'; injection h' with h'; injection h' with _ h'; omega)
      | false =>
        rw [if_neg (by rw [hw]; simp)]
        simp only [vsq, Bool.false_eq_true, if_false] at hv1 hne ⊢
        have := hge rfl
        exact rep_unset g.bbs b1 _ WP (m.toSq - 8) h (by decide) (by have := fits.toLt; omega) hv1 (by
          intro h'; injection h' with h'; injection h' with _ h'; omega)
    · rw [if_neg he, if_neg he]
      have hef : m.isEnpassant = false := by simpa using he
      obtain ⟨v, hv, hen, hnk⟩ := fits.cap hc hef
      generalize hg0 : (if g.white = true then { g with blackOcc := unsetBit g.blackOcc m.toSq }
               else { g with whiteOcc := unsetBit g.whiteOcc m.toSq }) = g0
      have hb0 : g0.bbs = g.bbs := by rw [← hg0]; split <;> rfl
      have hne : m.toSq ≠ m.fromSq := by
        intro heq; rw [heq, fits.src] at hv
        injection hv with hv
        have := fits.piece
        unfold ownP at this; unfold enemyP at hen
        cases w <;> simp at this hen <;> omega
      have hv1 : b1 m.toSq = some v := by rw [hb1, Board.set_ne _ _ _ _ hne]; exact hv
      have hvl : v < 12 := by unfold enemyP at hen; split at hen <;> omega
      -- in the scanned range only `v` has its bit on the target square
      have hbits : ∀ p, p < 12 → p ≠ m.piece → getBit (g0.bbs.getD p 0) m.toSq = decide (v = p) := by
        intro p hp hpp
        rw [hb0, h.2 p m.toSq hp fits.toLt, hv1]
        have : ¬ (m.piece = p) := fun h => hpp h.symm
        simp [this]
      have hvp : v ≠ m.piece := by
        intro heq; subst heq
        have := fits.piece
        unfold ownP at this; unfold enemyP at hen
        cases w <;> simp at this hen <;> omega
      have hstart : (if g.white = true then BP else WP) ≤ v ∧ v < (if g.white = true then BP else WP) + 5 := by
        unfold enemyP at hen
        rw [hw]
        cases w <;> simp at hen hnk ⊢ <;> omega
      simp only
      rcases captureLoop_scan g0 (if g.white = true then BP else WP) m.toSq 5 0 with ⟨p, hp1, hp2, hp3, hp4⟩ | ⟨_, hnone⟩
      · rw [hp1]
        simp only
        have hp12 : p < 12 := by split at hp4 <;> omega
        have hpp : p ≠ m.piece := by
          intro heq
          have := fits.piece
          unfold ownP at this
          rw [hw] at hp3 hp4
          cases w <;> simp at this hp3 hp4 <;> omega
        have hpv : v = p := by
          have := hbits p hp12 hpp
          rw [hp2] at this
          simpa using this.symm
        subst hpv
        rw [hb0]
        exact rep_unset g.bbs b1 _ v m.toSq h hvl fits.toLt hv1 (by
          intro h'; injection h' with h'; injection h' with h' _; exact hvp h'.symm)
      · have := hnone v (by omega) (by omega)
        rw [hbits v hvl hvp] at this
        simp at this
  · rw [if_neg hc]
    have : ¬ (m.isCapture = true) := hc
    simp only [this, if_false]
    exact h

theorem castleRook_bbs (g : Game) (rook f t : Nat) :
    (castleRook g rook f t).bbs =
      (g.bbs.setIfInBounds rook (setBit (g.bbs.getD rook 0) t)).setIfInBounds rook
        (unsetBit ((g.bbs.setIfInBounds rook (setBit (g.bbs.getD rook 0) t)).getD rook 0) f) := by
  unfold castleRook
  simp only [Game.setBB, Game.bb]
  split <;> rfl

theorem castleRook_rep (g : Game) (rook f t : Nat) (b : Board) (h : Rep g.bbs b none) (hr : rook < 12) (hf : f < 64)
    (ht : t < 64) (hbf : b f = some rook) (hbt : b t = none) (hne : t ≠ f) :
    Rep (castleRook g rook f t).bbs ((b.set f none).set t (some rook)) none := by
  rw [castleRook_bbs]
  have h1 := rep_set g.bbs b rook t h hr ht
  have h2 := rep_unset _ b _ rook f h1 hr hf hbf (by
    intro h'; injection h' with h'; injection h' with _ h'; exact hne h')
  exact rep_merge _ _ rook t h2 (by rw [Board.set_ne _ _ _ _ hne]; exact hbt)

/-- step 3 after the check test on the board: the promotion swap or the rook hop -/
theorem postSpecial_rep (g : Game) (m : Move) (b : Board) (h : Rep g.bbs b none) (hp : m.piece < 12) (ht : m.toSq < 64)
    (hto : b m.toSq = some m.piece)
    (hpromo : m.promotion ≠ PNONE → m.promotion < 12 ∧ m.promotion ≠ m.piece)
    (hcastle : m.promotion = PNONE → m.isCastling = true →
      ∃ r f t, rookHop m.toSq = some (r, f, t) ∧ b f = some r ∧ b t = none) :
    Rep (postSpecial g m).bbs
      (if m.promotion ≠ PNONE then b.set m.toSq (some m.promotion)
       else if m.isCastling then (match rookHop m.toSq with | some (r, f, t) => (b.set f none).set t (some r) | none => b)
       else b) none := by
  unfold postSpecial
  simp only
  by_cases hpr : m.promotion ≠ PNONE
  · have hpr' : (m.promotion != PNONE) = true := by simpa using hpr
    rw [if_pos hpr', if_pos hpr]
    obtain ⟨hq, hne⟩ := hpromo hpr
    simp only [Game.setBB, Game.bb]
    have h1 := rep_set g.bbs b m.promotion m.toSq h hq ht
    have h2 := rep_unset _ b _ m.piece m.toSq h1 hp ht hto (by
      intro h'; injection h' with h'; injection h' with h' _; exact hne h')
    have h3 := rep_merge _ _ m.promotion m.toSq h2 (by simp)
    rw [Board.set_set] at h3
    exact h3
  · have hpn : m.promotion = PNONE := by simpa using hpr
    have hpr' : ¬ ((m.promotion != PNONE) = true) := by simp [hpn]
    rw [if_neg hpr', if_neg hpr]
    by_cases hcs : m.isCastling = true
    · rw [if_pos hcs, if_pos hcs]
      obtain ⟨r, f, t, hhop, hbf, hbt⟩ := hcastle hpn hcs
      rw [hhop]
      simp only
      unfold rookHop at hhop
      by_cases h62 : m.toSq = 62
      · rw [if_pos h62] at hhop; injection hhop with hhop; injection hhop with e1 e2; injection e2 with e2 e3
        subst e1; subst e2; subst e3
        rw [h62]; simp only [beq_self_eq_true, if_true]
        exact castleRook_rep g WR 63 61 b h (by decide) (by decide) (by decide) hbf hbt (by decide)
      · rw [if_neg h62] at hhop
        by_cases h58 : m.toSq = 58
        · rw [if_pos h58] at hhop; injection hhop with hhop; injection hhop with e1 e2; injection e2 with e2 e3
          subst e1; subst e2; subst e3
          rw [h58]; simp only [show ((58 : Nat) == 62) = false from rfl, beq_self_eq_true, if_true, Bool.false_eq_true, if_false]
          exact castleRook_rep g WR 56 59 b h (by decide) (by decide) (by decide) hbf hbt (by decide)
        · rw [if_neg h58] at hhop
          by_cases h6 : m.toSq = 6
          · rw [if_pos h6] at hhop; injection hhop with hhop; injection hhop with e1 e2; injection e2 with e2 e3
            subst e1; subst e2; subst e3
            rw [h6]; simp only [show ((6 : Nat) == 62) = false from rfl, show ((6 : Nat) == 58) = false from rfl, beq_self_eq_true, if_true, Bool.false_eq_true, if_false]
            exact castleRook_rep g BR 7 5 b h (by decide) (by decide) (by decide) hbf hbt (by decide)
          · rw [if_neg h6] at hhop
            by_cases h2 : m.toSq = 2
            · rw [if_pos h2] at hhop; injection hhop with hhop; injection hhop with e1 e2; injection e2 with e2 e3
              subst e1; subst e2; subst e3
              rw [h2]; simp only [show ((2 : Nat) == 62) = false from rfl, show ((2 : Nat) == 58) = false from rfl, show ((2 : Nat) == 6) = false from rfl, beq_self_eq_true, if_true, Bool.false_eq_true, if_false]
              exact castleRook_rep g BR 0 3 b h (by decide) (by decide) (by decide) hbf hbt (by decide)
            · rw [if_neg h2] at hhop; exact absurd hhop (by simp)
    · rw [if_neg hcs]
      have : ¬ (m.isCastling = true) := hcs
      simp only [this, if_false]
      exact h

theorem rookHop_ne (to r f t : Nat) (h : rookHop to = some (r, f, t)) : f ≠ to ∧ t ≠ to ∧ t ≠ f ∧ r < 12 ∧ f < 64 ∧ t < 64 := by
  unfold rookHop at h
  have hWR : WR = 3 := rfl
  have hBR : BR = 9 := rfl
  split at h
  · injection h with h; injection h with e1 e2; injection e2 with e2 e3; subst e1; subst e2; subst e3; omega
  · split at h
    · injection h with h; injection h with e1 e2; injection e2 with e2 e3; subst e1; subst e2; subst e3; omega
    · split at h
      · injection h with h; injection h with e1 e2; injection e2 with e2 e3; subst e1; subst e2; subst e3; omega
      · split at h
        · injection h with h; injection h with e1 e2; injection e2 with e2 e3; subst e1; subst e2; subst e3; omega
        · exact absurd h (by simp)

theorem preKeys_same (g : Game) : (preKeys g).bbs = g.bbs ∧ (preKeys g).white = g.white := by
  unfold preKeys; split <;> exact ⟨rfl, rfl⟩

theorem preMove_white (g : Game) (m : Move) : (preMove g m).white = g.white := rfl

theorem preCapture_white (g : Game) (m : Move) : (preCapture g m).white = g.white := by
  unfold preCapture
  by_cases hc : m.isCapture = true
  · rw [if_pos hc]
    by_cases he : m.isEnpassant = true
    · rw [if_pos he]; split <;> rfl
    · rw [if_neg he]
      generalize hg0 : (if g.white = true then { g with blackOcc := unsetBit g.blackOcc m.toSq }
               else { g with whiteOcc := unsetBit g.whiteOcc m.toSq }) = g0
      have hw0 : g0.white = g.white := by rw [← hg0]; split <;> rfl
      simp only
      rcases captureLoop_scan g0 (if g.white = true then BP else WP) m.toSq 5 0 with ⟨p, hp1, _⟩ | ⟨hn, _⟩
      · rw [hp1]; exact hw0
      · rw [hn]; exact hw0
  · rw [if_neg hc]

theorem postOcc_bbs (g : Game) (m : Move) : (postOcc g m).bbs = g.bbs := by unfold postOcc; split <;> rfl
theorem postClock_bbs (g : Game) (m : Move) : (postClock g m).bbs = g.bbs := by unfold postClock; split <;> rfl
theorem postEp_bbs (g : Game) (m : Move) : (postEp g m).bbs = g.bbs := by
  unfold postEp; split
  · split <;> rfl
  · rfl
theorem postRights_bbs (g : Game) (m : Move) : (postRights g m).bbs = g.bbs := rfl
theorem postSide_bbs (g : Game) : (postSide g).bbs = g.bbs := by unfold postSide; simp only; split <;> rfl

theorem makePost_bbs (g : Game) (m : Move) : (makePost g m).bbs = (postSpecial (postClock (postOcc g m) m) m).bbs := by
  unfold makePost
  rw [postSide_bbs, postRights_bbs, postEp_bbs]

/-- the piece sets before the check test: board with the piece moved and the captured piece gone -/
theorem makePre_rep (g : Game) (m : Move) (b : Board) (h : Rep g.bbs b none) (fits : MoveFits b g.white m) :
    Rep (makePre g m).bbs
      ((if m.isEnpassant then (b.set m.fromSq none).set (vsq g.white m.toSq) none else b.set m.fromSq none).set m.toSq (some m.piece))
      none := by
  have hpl := ownP_lt fits.piece
  obtain ⟨b0, w0⟩ := preKeys_same g
  have h1 := preMove_rep (preKeys g) m b (by rw [b0]; exact h) hpl fits.fromLt fits.toLt fits.src
  have h2 := preCapture_rep (preMove (preKeys g) m) m b (b.set m.fromSq none) g.white (by rw [preMove_white, w0]) fits rfl h1
  have hne : m.toSq ≠ m.fromSq → (b.set m.fromSq none) m.toSq = b m.toSq := fun hne => Board.set_ne _ _ _ _ hne
  unfold makePre
  by_cases hc : m.isCapture = true
  · rw [if_pos hc] at h2
    by_cases he : m.isEnpassant = true
    · rw [if_pos he] at h2
      rw [if_pos he]
      obtain ⟨_, hto, hlt, hge, hv, _, _⟩ := fits.ep he
      have hft : m.toSq ≠ m.fromSq := by intro heq; rw [heq, fits.src] at hto; exact absurd hto (by simp)
      have hvt : m.toSq ≠ vsq g.white m.toSq := by
        unfold vsq; cases hw : g.white
        · have := hge hw; simp; omega
        · simp
      exact rep_merge _ _ _ _ h2 (by rw [Board.set_ne _ _ _ _ hvt, hne hft]; exact hto)
    · rw [if_neg he] at h2
      rw [if_neg he]
      have h3 := rep_merge _ _ _ _ h2 (by simp)
      rw [Board.set_set] at h3
      exact h3
  · rw [if_neg hc] at h2
    have hcf : m.isCapture = false := by simpa using hc
    have he : ¬ (m.isEnpassant = true) := fun he => by have := (fits.ep he).1; rw [hcf] at this; exact absurd this (by simp)
    rw [if_neg he]
    have hto := fits.quiet hcf
    have hft : m.toSq ≠ m.fromSq := by intro heq; rw [heq, fits.src] at hto; exact absurd hto (by simp)
    exact rep_merge _ _ _ _ h2 (by rw [hne hft]; exact hto)

/-- **the piece placement after `make_search_move`** is the board the rules prescribe -/
theorem makeCore_rep_force (g : Game) (m : Move) (b : Board) (h : Rep g.bbs b none) (fits : MoveFits b g.white m) : Rep (makeForce g m).bbs (applyB b g.white m) none := by
  unfold makeForce
  have hpl := ownP_lt fits.piece
  have hpre := makePre_rep g m b h fits
  rw [makePost_bbs]
  generalize hb2 : (if m.isEnpassant then (b.set m.fromSq none).set (vsq g.white m.toSq) none else b.set m.fromSq none) = b2 at hpre
  have hr4 : Rep (postClock (postOcc (makePre g m) m) m).bbs (b2.set m.toSq (some m.piece)) none := by
    rw [postClock_bbs, postOcc_bbs]; exact hpre
  have hsp := postSpecial_rep _ m _ hr4 hpl fits.toLt (by simp)
    (fun hpr => ⟨ownP_lt (fits.promo hpr).1, (fits.promo hpr).2⟩)
    (fun hpn hcs => by
      obtain ⟨_, hcf, r, f, t, hhop, hbf, hbt, hff, hft, _, _⟩ := fits.castle hcs
      obtain ⟨n1, n2, _, _, _, _⟩ := rookHop_ne _ _ _ _ hhop
      have he : ¬ (m.isEnpassant = true) := fun he => by have := (fits.ep he).1; rw [hcf] at this; exact absurd this (by simp)
      rw [if_neg he] at hb2
      refine ⟨r, f, t, hhop, ?_, ?_⟩
      · rw [Board.set_ne _ _ _ _ n1, ← hb2, Board.set_ne _ _ _ _ (fun h => hff h.symm)]; exact hbf
      · rw [Board.set_ne _ _ _ _ n2, ← hb2, Board.set_ne _ _ _ _ (fun h => hft h.symm)]; exact hbt)
  unfold applyB
  simp only
  rw [hb2]
  by_cases hpr : m.promotion ≠ PNONE
  · rw [if_pos hpr] at hsp
    rw [if_pos hpr]
    rw [Board.set_set] at hsp
    have hcs : ¬ (m.isCastling = true) := fun hcs => hpr (fits.castle hcs).1
    rw [if_neg hcs]
    exact hsp
  · rw [if_neg hpr] at hsp
    rw [if_neg hpr]
    exact hsp

theorem makeCore_rep (g g' : Game) (m : Move) (b : Board) (h : Rep g.bbs b none) (fits : MoveFits b g.white m)
    (hmk : makeCore g m = some g') : Rep g'.bbs (applyB b g.white m) none := by
  have := makeCore_some hmk
  subst this
  exact makeCore_rep_force g m b h fits

end Jence
