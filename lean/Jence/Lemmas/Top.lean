/-
  The iterative-deepening loop and `search`: the master invariant and the PV-head invariant at the top level.
-/
import Jence.Lemmas.PvHead
namespace Jence
open Jence

theorem print_frame (e : Env) (l : String) (hrun : e.stopping = false) : Frame e (e.print l) :=
  Frame.of_running (e := e) hrun rfl rfl (fun _ => ⟨fun _ _ => rfl, rfl⟩) (Nat.le_refl _)

theorem idLoop_frame (R : Rules) (cfg : Cfg) (g : Game) :
    ∀ (count cur : Nat) (alpha beta score : Int) (e : Env), Frame e (idLoop R cfg g count cur alpha beta score e).2.2 := by
  intro count
  induction count with
  | zero => intro cur alpha beta score e; exact Frame.refl e
  | succ count ih =>
    intro cur alpha beta score e
    simp only [idLoop]
    have h0 : Frame e { e with followPv := true } := Frame.of_same rfl rfl rfl rfl rfl rfl rfl rfl rfl rfl rfl rfl (Nat.le_refl _)
    have hn := negamax_frame R cfg negaFuel g cur alpha beta { e with followPv := true }
    generalize negamax R cfg negaFuel g cur alpha beta { e with followPv := true } = r at hn ⊢
    obtain ⟨sc, e1⟩ := r
    simp only at hn ⊢
    by_cases hs : e1.stopping = true
    · rw [if_pos hs]; exact h0.trans hn
    · rw [if_neg hs]
      have hrun : e1.stopping = false := by simpa using hs
      split
      · exact (h0.trans hn).trans (ih _ _ _ _ _)
      · exact ((h0.trans hn).trans (print_frame e1 _ hrun)).trans (ih _ _ _ _ _)

/-- overflow of the history array anywhere makes the final state overflowed: contrapositive form -/
theorem Frame.no_overflow {e e' : Env} (h : Frame e e') (ho : e'.rep.overflow = false) : e.rep.overflow = false := by
  cases hx : e.rep.overflow with
  | false => rfl
  | true => have := h.1 hx; rw [this] at ho; exact absurd ho (by simp)

theorem idLoop_pvhead (R : Rules) (cfg : Cfg) (g : Game) :
    ∀ (count cur : Nat) (alpha beta score : Int) (e : Env), e.ply = 0 → PvHeadOk R g e →
      (idLoop R cfg g count cur alpha beta score e).2.2.rep.overflow = false →
      PvHeadOk R g (idLoop R cfg g count cur alpha beta score e).2.2 := by
  intro count
  induction count with
  | zero => intro cur alpha beta score e _ hk _; exact hk
  | succ count ih =>
    intro cur alpha beta score e hp hk ho
    simp only [idLoop] at ho ⊢
    have hn := negamax_frame R cfg negaFuel g cur alpha beta { e with followPv := true }
    have hh := negamax_root_pvhead R cfg negaFuel g cur alpha beta { e with followPv := true } hp (PvHeadOk.of_pv rfl hk)
    generalize negamax R cfg negaFuel g cur alpha beta { e with followPv := true } = r at hn hh ho ⊢
    obtain ⟨sc, e1⟩ := r
    simp only at hn hh ho ⊢
    have hp1 : e1.rep.overflow = false → e1.ply = 0 := fun h => by rw [(hn.2 h).ply]; exact hp
    by_cases hs : e1.stopping = true
    · rw [if_pos hs] at ho ⊢
      exact hh ho
    · rw [if_neg hs] at ho ⊢
      by_cases hw : (decide (sc ≤ alpha) || decide (sc ≥ beta)) = true
      · rw [if_pos hw] at ho ⊢
        have ho1 : e1.rep.overflow = false := (idLoop_frame R cfg g count (cur + 1) (-Gen.INFINITY) Gen.INFINITY sc e1).no_overflow ho
        exact ih (cur + 1) (-Gen.INFINITY) Gen.INFINITY sc e1 (hp1 ho1) (hh ho1) ho
      · rw [if_neg hw] at ho ⊢
        have ho1 : e1.rep.overflow = false := by
          have := (idLoop_frame R cfg g count (cur + 1) (sc - 50) (sc + 50) sc (e1.print (infoLine sc cur e1))).no_overflow ho
          simpa [Env.print] using this
        exact ih (cur + 1) (sc - 50) (sc + 50) sc (e1.print (infoLine sc cur e1)) (hp1 ho1) (PvHeadOk.of_pv rfl (hh ho1)) ho

/-- the environment `search` starts from -/
def Env.fresh (tt : TT) (rep : RepTable) : Env := { tt := tt, rep := rep }

theorem fresh_pvhead (R : Rules) (g : Game) (tt : TT) (rep : RepTable) : PvHeadOk R g (Env.fresh tt rep) := by
  left; simp [Env.fresh, Env.pvAt]

/-- the state in which `search` leaves the iterative-deepening loop -/
def searchLoopEnd (R : Rules) (cfg : Cfg) (g : Game) (depth : Int) (tt : TT) (rep : RepTable) : Int × Nat × Env :=
  idLoop R cfg g (if depth == -1 then Gen.MAX_PLY else (depth % 256).toNat) 1 (-Gen.INFINITY) Gen.INFINITY 0 (Env.fresh tt rep)

/-- `search` = the loop, the end hook, the choice of the answer, the `bestmove` line -/
theorem search_eq (R : Rules) (cfg : Cfg) (g : Game) (depth : Int) (tt : TT) (rep : RepTable) :
    let le := searchLoopEnd R cfg g depth tt rep
    let e1 := le.2.2.ev cfg [10, le.2.2.ply.toUInt64, le.2.2.rep.index.toUInt64, b2w le.2.2.stopping]
      (fun _ => s!"end {le.2.2.ply} {le.2.2.rep.index} {if le.2.2.stopping then 1 else 0}")
    let best := if e1.pvAt 0 0 == Move.null then (R.firstLegal g).getD (e1.pvAt 0 0) else e1.pvAt 0 0
    (search R cfg g depth tt rep).1.bestMove = best ∧
    (search R cfg g depth tt rep).2 = e1.print s!"bestmove {best.toUci}" := by
  simp only [search, searchLoopEnd, Env.fresh]
  exact ⟨rfl, rfl⟩

end Jence
