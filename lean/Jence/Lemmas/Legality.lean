/-
  T1.2: the legality filter (`is_legal`, a peek-make) and the make route (`make_search_move` rejecting moves that leave
  the mover in check) are one predicate on every move whose en-passant flag implies its capture flag - in particular
  on every generated move.
-/
import Jence.Model.MoveGen
namespace Jence
open Jence

/-- attack tests read only the twelve piece sets and the combined occupancy -/
theorem isSquareAttacked_congr (g h : Game) (hb : g.bbs = h.bbs) (ha : g.allOcc = h.allOcc) (sq : Nat) (w : Bool) :
    isSquareAttacked g sq w = isSquareAttacked h sq w := by
  unfold isSquareAttacked Game.bb
  rw [hb, ha]

theorem isInCheck_congr (g h : Game) (hb : g.bbs = h.bbs) (ha : g.allOcc = h.allOcc) (w : Bool) :
    isInCheck g w = isInCheck h w := by
  unfold isInCheck
  rw [isSquareAttacked_congr g h hb ha, isSquareAttacked_congr g h hb ha]
  simp only [Game.bb, hb]

/-- the capture loop on the piece sets alone -/
def capBbs (bbs : Array UInt64) (start sq : Nat) : Nat → Nat → Array UInt64
  | 0, _ => bbs
  | n + 1, k =>
    if getBit (bbs.getD (start + k) 0) sq then bbs.setIfInBounds (start + k) (unsetBit (bbs.getD (start + k) 0) sq)
    else capBbs bbs start sq n (k + 1)

theorem captureLoop_fst (g : Game) (start sq : Nat) :
    ∀ n k, (captureLoop g start sq n k).1 = { g with bbs := capBbs g.bbs start sq n k } := by
  intro n
  induction n with
  | zero => intro k; rfl
  | succ n ih =>
    intro k
    simp only [captureLoop, capBbs, Game.bb, Game.setBB]
    by_cases h : getBit (g.bbs.getD (start + k) 0) sq = true
    · simp only [h, ↓reduceIte]
    · simp only [h, ↓reduceIte]; exact ih (k + 1)

/-- piece sets and combined occupancy after the "peek" (what both legality routes look at) -/
def peekBoards (g : Game) (m : Move) : Array UInt64 × UInt64 :=
  let b1 := g.bbs.setIfInBounds m.piece (unsetBit (g.bbs.getD m.piece 0) m.fromSq)
  let b2 := b1.setIfInBounds m.piece (setBit (b1.getD m.piece 0) m.toSq)
  let a2 := setBit (unsetBit g.allOcc m.fromSq) m.toSq
  if m.isEnpassant then
    if g.white then (b2.setIfInBounds BP (unsetBit (b2.getD BP 0) (m.toSq + 8)), unsetBit a2 (m.toSq + 8))
    else (b2.setIfInBounds WP (unsetBit (b2.getD WP 0) (m.toSq - 8)), unsetBit a2 (m.toSq - 8))
  else if m.isCapture then (capBbs b2 (if g.white then BP else WP) m.toSq 5 0, a2)
  else (b2, a2)

theorem isLegalPeek_boards (g : Game) (m : Move) :
    (isLegalPeek g m).bbs = (peekBoards g m).1 ∧ (isLegalPeek g m).allOcc = (peekBoards g m).2 := by
  unfold isLegalPeek peekBoards
  simp only [Game.setBB, Game.bb]
  cases hE : m.isEnpassant <;> cases hC : m.isCapture <;> cases hw : g.white <;>
    simp only [Bool.false_eq_true, ↓reduceIte, captureLoop_fst] <;> first | exact ⟨rfl, rfl⟩ | simp

theorem preKeys_boards (g : Game) : (preKeys g).bbs = g.bbs ∧ (preKeys g).allOcc = g.allOcc ∧ (preKeys g).white = g.white := by
  unfold preKeys
  split <;> exact ⟨rfl, rfl, rfl⟩

theorem preMove_boards (g : Game) (m : Move) :
    (preMove g m).bbs = (let b1 := g.bbs.setIfInBounds m.piece (unsetBit (g.bbs.getD m.piece 0) m.fromSq)
                         b1.setIfInBounds m.piece (setBit (b1.getD m.piece 0) m.toSq)) ∧
    (preMove g m).allOcc = setBit (unsetBit g.allOcc m.fromSq) m.toSq ∧ (preMove g m).white = g.white := by
  unfold preMove
  exact ⟨rfl, rfl, rfl⟩

theorem preCapture_boards (g : Game) (m : Move) (hep : m.isEnpassant = true → m.isCapture = true) :
    (preCapture g m).bbs =
      (if m.isEnpassant then
        (if g.white then g.bbs.setIfInBounds BP (unsetBit (g.bbs.getD BP 0) (m.toSq + 8))
         else g.bbs.setIfInBounds WP (unsetBit (g.bbs.getD WP 0) (m.toSq - 8)))
       else if m.isCapture then capBbs g.bbs (if g.white then BP else WP) m.toSq 5 0 else g.bbs) ∧
    (preCapture g m).allOcc =
      (if m.isEnpassant then (if g.white then unsetBit g.allOcc (m.toSq + 8) else unsetBit g.allOcc (m.toSq - 8)) else g.allOcc) ∧
    (preCapture g m).white = g.white := by
  unfold preCapture
  cases hE : m.isEnpassant <;> cases hC : m.isCapture
  · simp
  · simp only [↓reduceIte, Bool.false_eq_true]
    cases hw : g.white
    all_goals
      simp only [Bool.false_eq_true, ↓reduceIte]
      generalize hcl : captureLoop _ _ m.toSq 5 0 = r
      have hf := captureLoop_fst _ _ m.toSq 5 0 ▸ congrArg Prod.fst hcl
      obtain ⟨g', o⟩ := r
      simp only at hf
      subst hf
      cases o <;> exact ⟨rfl, rfl, rfl⟩
  · exact absurd (hep hE) (by simp [hC])
  · simp only [↓reduceIte]
    cases hw : g.white <;> simp [Game.setBB, Game.bb, hw]

theorem makePre_boards (g : Game) (m : Move) (hep : m.isEnpassant = true → m.isCapture = true) :
    (makePre g m).bbs = (peekBoards g m).1 ∧ (makePre g m).allOcc = (peekBoards g m).2 ∧ (makePre g m).white = g.white := by
  unfold makePre
  obtain ⟨k1, k2, k3⟩ := preKeys_boards g
  obtain ⟨m1, m2, m3⟩ := preMove_boards (preKeys g) m
  obtain ⟨c1, c2, c3⟩ := preCapture_boards (preMove (preKeys g) m) m hep
  rw [c1, c2, c3, m1, m2, m3, k1, k2, k3]
  unfold peekBoards
  simp only
  cases hE : m.isEnpassant <;> cases hC : m.isCapture <;> cases hw : g.white <;> simp

/-- **T1.2** For every position and every move whose en-passant flag implies its capture flag (every generated move):
    the legality filter accepts the move exactly when `make` does. -/
theorem legality_paths_agree (g : Game) (m : Move) (hep : m.isEnpassant = true → m.isCapture = true) :
    isLegal g m = (makeCore g m).isSome := by
  unfold isLegal makeCore
  obtain ⟨h1, h2⟩ := isLegalPeek_boards g m
  obtain ⟨h3, h4, h5⟩ := makePre_boards g m hep
  have : isInCheck (isLegalPeek g m) g.white = isInCheck (makePre g m) (makePre g m).white := by
    rw [h5]; exact isInCheck_congr _ _ (h1.trans h3.symm) (h2.trans h4.symm) _
  simp only [this]
  cases isInCheck (makePre g m) (makePre g m).white <;> simp

end Jence
