/-
  The consistent position: the piece sets hold a board, the cached occupancy sets agree with it, pawns stand on rows 2-7,
  the en-passant square and the castling rights agree with the board, each side has exactly one king. A fitting move
  keeps all of it (`makeCore_wf`), and the incrementally maintained key stays the from-scratch key (`makeCore_wf_key`).
-/
import Jence.Lemmas.FitsOk
namespace Jence
open Jence

theorem and_pow_ne_zero (x k : Nat) : (x &&& 2^k ≠ 0) ↔ x.testBit k = true := by
  constructor
  · intro h
    cases hb : x.testBit k
    · exfalso; apply h
      apply Nat.eq_of_testBit_eq
      intro i
      rw [Nat.testBit_and, Nat.testBit_two_pow, Nat.zero_testBit]
      by_cases hki : k = i
      · subst hki; simp [hb]
      · simp [hki]
    · rfl
  · intro h h0
    have : (x &&& 2^k).testBit k = true := by rw [Nat.testBit_and, Nat.testBit_two_pow, h]; simp
    rw [h0] at this; simp at this
theorem and1 (x : Nat) : (x &&& 1 ≠ 0) ↔ x.testBit 0 = true := and_pow_ne_zero x 0
theorem and2 (x : Nat) : (x &&& 2 ≠ 0) ↔ x.testBit 1 = true := and_pow_ne_zero x 1
theorem and4 (x : Nat) : (x &&& 4 ≠ 0) ↔ x.testBit 2 = true := and_pow_ne_zero x 2
theorem and8 (x : Nat) : (x &&& 8 ≠ 0) ↔ x.testBit 3 = true := and_pow_ne_zero x 3

/-- the rights mask of a square keeps a right only if the square is neither the king's nor that rook's home square -/
theorem rights_table : ∀ s, s < 64 →
    ((Gen.CASTLING_RIGHTS.getD s 0).testBit 0 = true → s ≠ 60 ∧ s ≠ 63) ∧
    ((Gen.CASTLING_RIGHTS.getD s 0).testBit 1 = true → s ≠ 60 ∧ s ≠ 56) ∧
    ((Gen.CASTLING_RIGHTS.getD s 0).testBit 2 = true → s ≠ 4 ∧ s ≠ 7) ∧
    ((Gen.CASTLING_RIGHTS.getD s 0).testBit 3 = true → s ≠ 4 ∧ s ≠ 0) := by decide +kernel

/-- what must hold of board, side to move, en-passant square and castling rights together -/
structure BoardOk (b : Board) (w : Bool) (ep c : Nat) : Prop where
  valid : ∀ t q, t < 64 → b t = some q → q < 12
  pawns : ∀ t, t < 64 → (b t = some WP ∨ b t = some BP) → 8 ≤ t ∧ t < 56
  epLe : ep ≤ 64
  epOk : ep ≠ 64 → b ep = none ∧ (w = true → 8 ≤ ep ∧ ep + 8 < 64 ∧ b (ep + 8) = some BP) ∧ (w = false → 8 ≤ ep ∧ ep < 56 ∧ b (ep - 8) = some WP)
  castle1 : c &&& 1 ≠ 0 → b 60 = some WK ∧ b 63 = some WR
  castle2 : c &&& 2 ≠ 0 → b 60 = some WK ∧ b 56 = some WR
  castle4 : c &&& 4 ≠ 0 → b 4 = some BK ∧ b 7 = some BR
  castle8 : c &&& 8 ≠ 0 → b 4 = some BK ∧ b 0 = some BR
  wking : ∃ k, k < 64 ∧ b k = some WK ∧ ∀ t, t < 64 → b t = some WK → t = k
  bking : ∃ k, k < 64 ∧ b k = some BK ∧ ∀ t, t < 64 → b t = some BK → t = k

/-- the consistent position -/
structure Wf (g : Game) (b : Board) : Prop where
  rep : Rep g.bbs b none
  occW : OccF whiteAt g.whiteOcc b
  occB : OccF blackAt g.blackOcc b
  occA : OccF Option.isSome g.allOcc b
  ok : BoardOk b g.white g.ep g.castling

/-! ### the new board, square by square -/

section squares
variable {b : Board} {w : Bool} {m : Move}

/-- the piece that stands on the target square afterwards -/
def landed (m : Move) : Nat := if m.promotion ≠ PNONE then m.promotion else m.piece

theorem applyB_to (fits : MoveFits b w m) : applyB b w m m.toSq = some (landed m) := by
  by_cases hcs : m.isCastling = true
  · obtain ⟨hpn, _, r, f, t, hhop, _, _, _, _, _, _⟩ := fits.castle hcs
    obtain ⟨n1, n2, _⟩ := rookHop_ne _ _ _ _ hhop
    rw [applyB_castle fits hcs r f t hhop, Board.set_ne _ _ _ _ (fun h => n2 h.symm), Board.set_ne _ _ _ _ (fun h => n1 h.symm),
      Board.set_same]
    unfold landed; rw [if_neg (by simp [hpn])]
  · have hcf : m.isCastling = false := by simpa using hcs
    by_cases he : m.isEnpassant = true
    · rw [applyB_ep fits he, Board.set_same]
      unfold landed; rw [if_neg (by simp [(fits.ep he).2.2.2.2.2.1])]
    · have hef : m.isEnpassant = false := by simpa using he
      rw [applyB_plain hef hcf, Board.set_same]; rfl

theorem applyB_from (fits : MoveFits b w m) : applyB b w m m.fromSq = none := by
  have hne := fits.to_ne_from
  by_cases hcs : m.isCastling = true
  · obtain ⟨hpn, _, r, f, t, hhop, _, _, hff, hft, _, _⟩ := fits.castle hcs
    rw [applyB_castle fits hcs r f t hhop, Board.set_ne _ _ _ _ hft, Board.set_ne _ _ _ _ hff,
      Board.set_ne _ _ _ _ (fun h => hne h.symm), Board.set_same]
  · have hcf : m.isCastling = false := by simpa using hcs
    by_cases he : m.isEnpassant = true
    · obtain ⟨_, v2, _, _⟩ := fits.vsq_facts he
      rw [applyB_ep fits he, Board.set_ne _ _ _ _ (fun h => hne h.symm), Board.set_ne _ _ _ _ (fun h => v2 h.symm), Board.set_same]
    · have hef : m.isEnpassant = false := by simpa using he
      rw [applyB_plain hef hcf, Board.set_ne _ _ _ _ (fun h => hne h.symm), Board.set_same]

/-- every square: the target holds the landed piece; the origin, the en-passant victim square and the rook's origin are
    empty; the rook's target holds the rook; every other square is as before -/
theorem applyB_at (fits : MoveFits b w m) (t : Nat) :
    (t = m.toSq ∧ applyB b w m t = some (landed m)) ∨
    (t = m.fromSq ∧ applyB b w m t = none) ∨
    (m.isEnpassant = true ∧ t = vsq w m.toSq ∧ applyB b w m t = none) ∨
    (m.isCastling = true ∧ ∃ r f tt, rookHop m.toSq = some (r, f, tt) ∧ ((t = f ∧ applyB b w m t = none) ∨ (t = tt ∧ applyB b w m t = some r))) ∨
    (t ≠ m.toSq ∧ t ≠ m.fromSq ∧ (m.isEnpassant = true → t ≠ vsq w m.toSq) ∧
      (m.isCastling = true → ∀ r f tt, rookHop m.toSq = some (r, f, tt) → t ≠ f ∧ t ≠ tt) ∧ applyB b w m t = b t) := by
  by_cases h1 : t = m.toSq
  · left; exact ⟨h1, by rw [h1]; exact applyB_to fits⟩
  by_cases h2 : t = m.fromSq
  · right; left; exact ⟨h2, by rw [h2]; exact applyB_from fits⟩
  by_cases hcs : m.isCastling = true
  · obtain ⟨hpn, hc, r, f, tt, hhop, _, _, hff, hft, _, _⟩ := fits.castle hcs
    obtain ⟨n1, n2, n3, _⟩ := rookHop_ne _ _ _ _ hhop
    have he := fits.ep_cap hc
    rw [applyB_castle fits hcs r f tt hhop]
    by_cases h3 : t = tt
    · right; right; right; left
      exact ⟨hcs, r, f, tt, hhop, Or.inr ⟨h3, by rw [h3, Board.set_same]⟩⟩
    by_cases h4 : t = f
    · right; right; right; left
      exact ⟨hcs, r, f, tt, hhop, Or.inl ⟨h4, by rw [h4, Board.set_ne _ _ _ _ (fun h => n3 h.symm), Board.set_same]⟩⟩
    right; right; right; right
    refine ⟨h1, h2, fun h => by rw [he] at h; exact absurd h (by simp), ?_, ?_⟩
    · intro _ r' f' t' hh; rw [hhop] at hh; injection hh with hh; injection hh with _ hh; injection hh with e2 e3
      subst e2; subst e3; exact ⟨h4, h3⟩
    · rw [Board.set_ne _ _ _ _ h3, Board.set_ne _ _ _ _ h4, Board.set_ne _ _ _ _ h1, Board.set_ne _ _ _ _ h2]
  · have hcf : m.isCastling = false := by simpa using hcs
    by_cases he : m.isEnpassant = true
    · rw [applyB_ep fits he]
      by_cases h3 : t = vsq w m.toSq
      · right; right; left
        obtain ⟨v1, _, _, _⟩ := fits.vsq_facts he
        exact ⟨he, h3, by rw [h3, Board.set_ne _ _ _ _ v1, Board.set_same]⟩
      right; right; right; right
      refine ⟨h1, h2, fun _ => h3, fun h => by rw [hcf] at h; exact absurd h (by simp), ?_⟩
      rw [Board.set_ne _ _ _ _ h1, Board.set_ne _ _ _ _ h3, Board.set_ne _ _ _ _ h2]
    · have hef : m.isEnpassant = false := by simpa using he
      rw [applyB_plain hef hcf]
      right; right; right; right
      refine ⟨h1, h2, fun h => by rw [hef] at h; exact absurd h (by simp), fun h => by rw [hcf] at h; exact absurd h (by simp), ?_⟩
      rw [Board.set_ne _ _ _ _ h1, Board.set_ne _ _ _ _ h2]

end squares

/-! ### side to move, en-passant square, castling rights of the new position -/

theorem castleRook_wc (g : Game) (r f t : Nat) : (castleRook g r f t).white = g.white ∧ (castleRook g r f t).castling = g.castling := by
  unfold castleRook; simp only [Game.setBB]; split <;> exact ⟨rfl, rfl⟩

theorem postSpecial_wc (g : Game) (m : Move) : (postSpecial g m).white = g.white ∧ (postSpecial g m).castling = g.castling := by
  unfold postSpecial
  simp only
  split
  · exact ⟨rfl, rfl⟩
  · split
    · split
      · exact castleRook_wc _ _ _ _
      · split
        · exact castleRook_wc _ _ _ _
        · split
          · exact castleRook_wc _ _ _ _
          · split
            · exact castleRook_wc _ _ _ _
            · exact ⟨rfl, rfl⟩
    · exact ⟨rfl, rfl⟩

theorem preCapture_castling (g : Game) (m : Move) : (preCapture g m).castling = g.castling := by
  unfold preCapture
  by_cases hc : m.isCapture = true
  · rw [if_pos hc]
    by_cases he : m.isEnpassant = true
    · rw [if_pos he]; split <;> rfl
    · rw [if_neg he]
      generalize hg0 : (if g.white = true then { g with blackOcc := unsetBit g.blackOcc m.toSq }
               else { g with whiteOcc := unsetBit g.whiteOcc m.toSq }) = g0
      have hw0 : g0.castling = g.castling := by rw [← hg0]; split <;> rfl
      simp only
      rcases captureLoop_scan g0 (if g.white = true then BP else WP) m.toSq 5 0 with ⟨p, hp1, _⟩ | ⟨hn, _⟩
      · rw [hp1]; exact hw0
      · rw [hn]; exact hw0
  · rw [if_neg hc]

theorem makePre_wc (g : Game) (m : Move) : (makePre g m).white = g.white ∧ (makePre g m).castling = g.castling := by
  unfold makePre
  rw [preCapture_white, preCapture_castling]
  have : (preKeys g).white = g.white ∧ (preKeys g).castling = g.castling := by unfold preKeys; split <;> exact ⟨rfl, rfl⟩
  exact ⟨this.1, this.2⟩

theorem makePost_fields (g : Game) (m : Move) :
    (makePost g m).white = (!g.white) ∧
    (makePost g m).ep = (if m.isDoublePush then (if g.white then m.toSq + 8 else m.toSq - 8) else SQNONE) ∧
    (makePost g m).castling = g.castling &&& (Gen.CASTLING_RIGHTS.getD m.toSq 0 &&& Gen.CASTLING_RIGHTS.getD m.fromSq 0) := by
  unfold makePost
  obtain ⟨s1, s2⟩ := postSpecial_wc (postClock (postOcc g m) m) m
  have c1 : (postClock (postOcc g m) m).white = g.white ∧ (postClock (postOcc g m) m).castling = g.castling := by
    have a : ∀ x : Game, (postClock x m).white = x.white ∧ (postClock x m).castling = x.castling := by
      intro x; unfold postClock; split <;> exact ⟨rfl, rfl⟩
    have b' : (postOcc g m).white = g.white ∧ (postOcc g m).castling = g.castling := by
      unfold postOcc; split <;> exact ⟨rfl, rfl⟩
    exact ⟨(a _).1.trans b'.1, (a _).2.trans b'.2⟩
  generalize postSpecial (postClock (postOcc g m) m) m = g5 at s1 s2
  have hw5 : g5.white = g.white := s1.trans c1.1
  have hc5 : g5.castling = g.castling := s2.trans c1.2
  have hside : ∀ x : Game, (postSide x).white = (!x.white) ∧ (postSide x).ep = x.ep ∧ (postSide x).castling = x.castling := by
    intro x; unfold postSide; simp only; split <;> exact ⟨rfl, rfl, rfl⟩
  obtain ⟨h1, h2, h3⟩ := hside (postRights (postEp g5 m) m)
  rw [h1, h2, h3]
  have he : (postEp g5 m).white = g5.white ∧ (postEp g5 m).castling = g5.castling ∧
      (postEp g5 m).ep = (if m.isDoublePush then (if g5.white then m.toSq + 8 else m.toSq - 8) else SQNONE) := by
    unfold postEp
    split
    · split <;> exact ⟨rfl, rfl, rfl⟩
    · exact ⟨rfl, rfl, rfl⟩
  obtain ⟨e1, e2, e3⟩ := he
  refine ⟨?_, ?_, ?_⟩
  · show (!(postEp g5 m).white) = _; rw [e1, hw5]
  · show (postEp g5 m).ep = _; rw [e3, hw5]
  · show (postEp g5 m).castling &&& _ = _; rw [e2, hc5]

theorem makeCore_fields_force (g : Game) (m : Move) :
    (makeForce g m).white = (!g.white) ∧
    (makeForce g m).ep = (if m.isDoublePush then (if g.white then m.toSq + 8 else m.toSq - 8) else SQNONE) ∧
    (makeForce g m).castling = g.castling &&& (Gen.CASTLING_RIGHTS.getD m.toSq 0 &&& Gen.CASTLING_RIGHTS.getD m.fromSq 0) := by
  unfold makeForce
  obtain ⟨a, b', c⟩ := makePost_fields (makePre g m) m
  obtain ⟨p1, p2⟩ := makePre_wc g m
  rw [a, b', c, p1, p2]
  exact ⟨rfl, rfl, rfl⟩

theorem makeCore_fields (g g' : Game) (m : Move) (hmk : makeCore g m = some g') :
    g'.white = (!g.white) ∧
    g'.ep = (if m.isDoublePush then (if g.white then m.toSq + 8 else m.toSq - 8) else SQNONE) ∧
    g'.castling = g.castling &&& (Gen.CASTLING_RIGHTS.getD m.toSq 0 &&& Gen.CASTLING_RIGHTS.getD m.fromSq 0) := by
  have := makeCore_some hmk
  subst this
  exact makeCore_fields_force g m

/-! ### the board conditions survive the move -/

section keep
variable {b : Board} {w : Bool} {m : Move}

theorem landed_lt (fits : MoveFits b w m) : landed m < 12 := by
  unfold landed; split
  · rename_i h; exact ownP_lt (fits.promo h).1
  · exact ownP_lt fits.piece

theorem landed_own (fits : MoveFits b w m) : ownP w (landed m) := by
  unfold landed; split
  · rename_i h; exact (fits.promo h).1
  · exact fits.piece

/-- where the rook hops, by colour -/
theorem hop_squares (fits : MoveFits b w m) (hcs : m.isCastling = true) (r f tt : Nat) (hhop : rookHop m.toSq = some (r, f, tt)) :
    (w = true → m.fromSq = 60 ∧ ((f = 63 ∧ tt = 61) ∨ (f = 56 ∧ tt = 59))) ∧
    (w = false → m.fromSq = 4 ∧ ((f = 7 ∧ tt = 5) ∨ (f = 0 ∧ tt = 3))) := by
  obtain ⟨_, _, r', f', t', hhop', _, _, _, _, hro, _⟩ := fits.castle hcs
  rw [hhop] at hhop'; injection hhop' with e; injection e with e1 e2; injection e2 with e2 e3
  subst e1; subst e2; subst e3
  have hfrom := (fits.castleFrom hcs).1
  have hWR : WR = 3 := rfl
  have hBR : BR = 9 := rfl
  unfold ownP at hro
  unfold rookHop at hhop
  constructor
  · intro hw; subst hw
    simp only [if_true] at hfrom hro
    refine ⟨hfrom, ?_⟩
    split at hhop
    · injection hhop with h; injection h with e1 e2; injection e2 with e2 e3; exact Or.inl ⟨e2.symm, e3.symm⟩
    · split at hhop
      · injection hhop with h; injection h with e1 e2; injection e2 with e2 e3; exact Or.inr ⟨e2.symm, e3.symm⟩
      · split at hhop
        · injection hhop with h; injection h with e1 _; omega
        · split at hhop
          · injection hhop with h; injection h with e1 _; omega
          · exact absurd hhop (by simp)
  · intro hw; subst hw
    simp only [Bool.false_eq_true, if_false] at hfrom hro
    refine ⟨hfrom, ?_⟩
    split at hhop
    · injection hhop with h; injection h with e1 _; omega
    · split at hhop
      · injection hhop with h; injection h with e1 _; omega
      · split at hhop
        · injection hhop with h; injection h with e1 e2; injection e2 with e2 e3; exact Or.inl ⟨e2.symm, e3.symm⟩
        · split at hhop
          · injection hhop with h; injection h with e1 e2; injection e2 with e2 e3; exact Or.inr ⟨e2.symm, e3.symm⟩
          · exact absurd hhop (by simp)

/-- a square holding a piece that is not a pawn, away from both ends of the move and from the rook hop, is untouched -/
theorem applyB_keep (fits : MoveFits b w m) (s q : Nat) (hs : b s = some q) (hq : q ≠ WP ∧ q ≠ BP) (h1 : s ≠ m.toSq) (h2 : s ≠ m.fromSq)
    (h3 : m.isCastling = true → ∀ r f tt, rookHop m.toSq = some (r, f, tt) → s ≠ f ∧ s ≠ tt) : applyB b w m s = some q := by
  rcases applyB_at fits s with ⟨h, _⟩ | ⟨h, _⟩ | ⟨he, h, _⟩ | ⟨hcs, r, f, tt, hhop, h⟩ | ⟨_, _, _, _, h⟩
  · exact absurd h h1
  · exact absurd h h2
  · have := (fits.ep he).2.2.2.2.1
    rw [← h, hs] at this; injection this with this
    cases w <;> simp at this <;> omega
  · obtain ⟨a, b'⟩ := h3 hcs r f tt hhop
    rcases h with ⟨h, _⟩ | ⟨h, _⟩
    · exact absurd h a
    · exact absurd h b'
  · rw [h, hs]

theorem enemyKing_enemy (w : Bool) : enemyP w (if w then BK else WK) := by
  have hWK : WK = 5 := rfl
  have hBK : BK = 11 := rfl
  unfold enemyP; cases w <;> simp <;> omega

/-- where a king stands afterwards -/
theorem king_iff (fits : MoveFits b w m) (K : Nat) (hK : K = WK ∨ K = BK)
    (huniq : ∀ s t, s < 64 → t < 64 → b s = some K → b t = some K → s = t) (t : Nat) (ht : t < 64) :
    applyB b w m t = some K ↔ (if m.piece = K then t = m.toSq else b t = some K) := by
  have hWK : WK = 5 := rfl
  have hBK : BK = 11 := rfl
  have hWP : WP = 0 := rfl
  have hBP : BP = 6 := rfl
  have hWR : WR = 3 := rfl
  have hBR : BR = 9 := rfl
  have hKp : K ≠ WP ∧ K ≠ BP := by rcases hK with h | h <;> subst h <;> omega
  -- the target square does not hold `K` beforehand
  have hto : b m.toSq ≠ some K := by
    intro h
    cases hc : m.isCapture
    · rw [fits.quiet hc] at h; exact absurd h (by simp)
    · cases he : m.isEnpassant
      · obtain ⟨v, hv, hen, hnk⟩ := fits.cap hc he
        rw [hv] at h; injection h with h; subst h
        unfold enemyP at hen
        cases w <;> simp at hen hnk <;> rcases hK with h | h <;> omega
      · rw [(fits.ep he).2.1] at h; exact absurd h (by simp)
  have hland : landed m = K ↔ m.piece = K := by
    unfold landed
    split
    · rename_i hpr
      obtain ⟨hpw, _, _, p4, p5⟩ := fits.promoKind hpr
      constructor
      · intro h; rcases hK with h' | h' <;> subst h' <;> omega
      · intro h; rw [h] at hpw; cases w <;> simp at hpw <;> omega
    · exact Iff.rfl
  rcases applyB_at fits t with ⟨h, hv⟩ | ⟨h, hv⟩ | ⟨he, h, hv⟩ | ⟨hcs, r, f, tt, hhop, h⟩ | ⟨n1, n2, _, _, hv⟩
  · rw [hv]
    constructor
    · intro h'; injection h' with h'
      rw [if_pos (hland.1 h')]; exact h
    · intro h'
      by_cases hp : m.piece = K
      · rw [hland.2 hp]
      · rw [if_neg hp, h] at h'; exact absurd h' hto
  · rw [hv]
    constructor
    · intro h'; exact absurd h' (by simp)
    · intro h'
      by_cases hp : m.piece = K
      · rw [if_pos hp, h] at h'; exact absurd h'.symm fits.to_ne_from
      · rw [if_neg hp, h, fits.src] at h'; injection h' with h'; exact absurd h' hp
  · rw [hv]
    obtain ⟨v1, _, _, _⟩ := fits.vsq_facts he
    constructor
    · intro h'; exact absurd h' (by simp)
    · intro h'
      by_cases hp : m.piece = K
      · rw [if_pos hp, h] at h'; exact absurd h' v1
      · rw [if_neg hp, h, (fits.ep he).2.2.2.2.1] at h'; injection h' with h'
        cases w <;> simp at h' <;> omega
  · obtain ⟨_, _, r', f', t', hhop', hbf, hbt, _, _, _, _⟩ := fits.castle hcs
    rw [hhop] at hhop'; injection hhop' with e; injection e with e1 e2; injection e2 with e2 e3
    subst e1; subst e2; subst e3
    obtain ⟨m1, m2, _⟩ := rookHop_ne _ _ _ _ hhop
    have hr : r ≠ K := by rcases rookHop_rook _ _ _ _ hhop with h' | h' <;> rcases hK with h'' | h'' <;> omega
    rcases h with ⟨h, hv⟩ | ⟨h, hv⟩
    · rw [hv]
      constructor
      · intro h'; exact absurd h' (by simp)
      · intro h'
        by_cases hp : m.piece = K
        · rw [if_pos hp, h] at h'; exact absurd h' m1
        · rw [if_neg hp, h, hbf] at h'; injection h' with h'; exact absurd h' hr
    · rw [hv]
      constructor
      · intro h'; injection h' with h'; exact absurd h' hr
      · intro h'
        by_cases hp : m.piece = K
        · rw [if_pos hp, h] at h'; exact absurd h' m2
        · rw [if_neg hp, h, hbt] at h'; exact absurd h' (by simp)
  · rw [hv]
    by_cases hp : m.piece = K
    · rw [if_pos hp]
      constructor
      · intro h'
        have := huniq t m.fromSq ht fits.fromLt h' (by rw [fits.src, hp])
        exact absurd this n2
      · intro h'; exact absurd h' n1
    · rw [if_neg hp]

theorem king_keep (fits : MoveFits b w m) (K : Nat) (hK : K = WK ∨ K = BK)
    (h : ∃ k, k < 64 ∧ b k = some K ∧ ∀ t, t < 64 → b t = some K → t = k) :
    ∃ k, k < 64 ∧ applyB b w m k = some K ∧ ∀ t, t < 64 → applyB b w m t = some K → t = k := by
  obtain ⟨k, hk, hbk, hu⟩ := h
  have huniq : ∀ s t, s < 64 → t < 64 → b s = some K → b t = some K → s = t :=
    fun s t hs ht h1 h2 => (hu s hs h1).trans (hu t ht h2).symm
  by_cases hp : m.piece = K
  · refine ⟨m.toSq, fits.toLt, ?_, ?_⟩
    · rw [king_iff fits K hK huniq _ fits.toLt, if_pos hp]
    · intro t ht h'; rw [king_iff fits K hK huniq _ ht, if_pos hp] at h'; exact h'
  · refine ⟨k, hk, ?_, ?_⟩
    · rw [king_iff fits K hK huniq _ hk, if_neg hp]; exact hbk
    · intro t ht h'; rw [king_iff fits K hK huniq _ ht, if_neg hp] at h'; exact hu t ht h'

end keep

/-! ### the clocks -/

theorem castleRook_clocks (g : Game) (r f t : Nat) : (castleRook g r f t).halfMoves = g.halfMoves ∧ (castleRook g r f t).fullMoves = g.fullMoves := by
  unfold castleRook; simp only [Game.setBB]; split <;> exact ⟨rfl, rfl⟩

theorem postSpecial_clocks (g : Game) (m : Move) : (postSpecial g m).halfMoves = g.halfMoves ∧ (postSpecial g m).fullMoves = g.fullMoves := by
  unfold postSpecial
  simp only
  split
  · exact ⟨rfl, rfl⟩
  · split
    · split
      · exact castleRook_clocks _ _ _ _
      · split
        · exact castleRook_clocks _ _ _ _
        · split
          · exact castleRook_clocks _ _ _ _
          · split
            · exact castleRook_clocks _ _ _ _
            · exact ⟨rfl, rfl⟩
    · exact ⟨rfl, rfl⟩

theorem preCapture_clocks (g : Game) (m : Move) : (preCapture g m).halfMoves = g.halfMoves ∧ (preCapture g m).fullMoves = g.fullMoves := by
  unfold preCapture
  by_cases hc : m.isCapture = true
  · rw [if_pos hc]
    by_cases he : m.isEnpassant = true
    · rw [if_pos he]; split <;> exact ⟨rfl, rfl⟩
    · rw [if_neg he]
      generalize hg0 : (if g.white = true then { g with blackOcc := unsetBit g.blackOcc m.toSq }
               else { g with whiteOcc := unsetBit g.whiteOcc m.toSq }) = g0
      have hw0 : g0.halfMoves = g.halfMoves ∧ g0.fullMoves = g.fullMoves := by rw [← hg0]; split <;> exact ⟨rfl, rfl⟩
      simp only
      rcases captureLoop_scan g0 (if g.white = true then BP else WP) m.toSq 5 0 with ⟨p, hp1, _⟩ | ⟨hn, _⟩
      · rw [hp1]; exact hw0
      · rw [hn]; exact hw0
  · rw [if_neg hc]; exact ⟨rfl, rfl⟩

/-- the half-move clock (a `u8`) restarts on pawn moves and captures, the full-move number (a `u16`) grows after Black -/
theorem makeCore_clocks_force (g : Game) (m : Move) :
    (makeForce g m).halfMoves = (if m.piece == WP || m.piece == BP || m.isCapture then 0 else (g.halfMoves + 1) % 256) ∧
    (makeForce g m).fullMoves = (if g.white then g.fullMoves else (g.fullMoves + 1) % 65536) := by
  unfold makeForce
  have hpre : (makePre g m).halfMoves = g.halfMoves ∧ (makePre g m).fullMoves = g.fullMoves ∧ (makePre g m).white = g.white := by
    unfold makePre
    obtain ⟨a, b'⟩ := preCapture_clocks (preMove (preKeys g) m) m
    have k : (preKeys g).halfMoves = g.halfMoves ∧ (preKeys g).fullMoves = g.fullMoves := by unfold preKeys; split <;> exact ⟨rfl, rfl⟩
    exact ⟨a.trans k.1, b'.trans k.2, (makePre_wc g m).1⟩
  obtain ⟨p1, p2, p3⟩ := hpre
  generalize makePre g m = g2 at p1 p2 p3
  unfold makePost
  obtain ⟨s1, s2⟩ := postSpecial_clocks (postClock (postOcc g2 m) m) m
  obtain ⟨sw, _⟩ := postSpecial_wc (postClock (postOcc g2 m) m) m
  have ho : (postOcc g2 m).halfMoves = g2.halfMoves ∧ (postOcc g2 m).fullMoves = g2.fullMoves ∧ (postOcc g2 m).white = g2.white := by
    unfold postOcc; split <;> exact ⟨rfl, rfl, rfl⟩
  have hc : (postClock (postOcc g2 m) m).halfMoves = (if m.piece == WP || m.piece == BP || m.isCapture then 0 else ((postOcc g2 m).halfMoves + 1) % 256) ∧
      (postClock (postOcc g2 m) m).fullMoves = (postOcc g2 m).fullMoves ∧ (postClock (postOcc g2 m) m).white = (postOcc g2 m).white := by
    unfold postClock; split <;> exact ⟨rfl, rfl, rfl⟩
  generalize postSpecial (postClock (postOcc g2 m) m) m = g5 at s1 s2 sw
  have he : (postEp g5 m).halfMoves = g5.halfMoves ∧ (postEp g5 m).fullMoves = g5.fullMoves ∧ (postEp g5 m).white = g5.white := by
    unfold postEp; split
    · split <;> exact ⟨rfl, rfl, rfl⟩
    · exact ⟨rfl, rfl, rfl⟩
  have hs : ∀ x : Game, (postSide x).halfMoves = x.halfMoves ∧ (postSide x).fullMoves = (if x.white then x.fullMoves else (x.fullMoves + 1) % 65536) := by
    intro x; unfold postSide; simp only
    cases x.white <;> exact ⟨rfl, rfl⟩
  obtain ⟨h1, h2⟩ := hs (postRights (postEp g5 m) m)
  rw [h1, h2]
  show (postEp g5 m).halfMoves = _ ∧ (if (postEp g5 m).white = true then (postEp g5 m).fullMoves else ((postEp g5 m).fullMoves + 1) % 65536) = _
  rw [he.1, he.2.1, he.2.2, s1, s2, sw, hc.1, hc.2.1, hc.2.2, ho.1, ho.2.1, ho.2.2, p1, p2, p3]
  exact ⟨rfl, rfl⟩

theorem makeCore_clocks (g g' : Game) (m : Move) (hmk : makeCore g m = some g') :
    g'.halfMoves = (if m.piece == WP || m.piece == BP || m.isCapture then 0 else (g.halfMoves + 1) % 256) ∧
    g'.fullMoves = (if g.white then g.fullMoves else (g.fullMoves + 1) % 65536) := by
  have := makeCore_some hmk
  subst this
  exact makeCore_clocks_force g m

/-- a castling right that survives the move: neither end of the move is a home square of that right -/
theorem right_survives (c x y k : Nat) (h : (c &&& (x &&& y)) &&& 2^k ≠ 0) :
    c &&& 2^k ≠ 0 ∧ x.testBit k = true ∧ y.testBit k = true := by
  rw [and_pow_ne_zero] at h
  rw [Nat.testBit_and, Nat.testBit_and] at h
  simp only [Bool.and_eq_true] at h
  exact ⟨(and_pow_ne_zero c k).2 h.1, h.2.1, h.2.2⟩

/-- **the board conditions after the move** -/
theorem applyB_ok {b : Board} {w : Bool} {m : Move} {ep c : Nat} (ok : BoardOk b w ep c) (fits : MoveFits b w m) :
    BoardOk (applyB b w m) (!w) (if m.isDoublePush then (if w then m.toSq + 8 else m.toSq - 8) else SQNONE)
      (c &&& (Gen.CASTLING_RIGHTS.getD m.toSq 0 &&& Gen.CASTLING_RIGHTS.getD m.fromSq 0)) := by
  have hWK : WK = 5 := rfl
  have hBK : BK = 11 := rfl
  have hWP : WP = 0 := rfl
  have hBP : BP = 6 := rfl
  have hWR : WR = 3 := rfl
  have hBR : BR = 9 := rfl
  have hS : SQNONE = 64 := rfl
  have htl := fits.toLt
  have hfl := fits.fromLt
  -- a home square of a surviving right is untouched
  have home : ∀ s q, b s = some q → (q ≠ WP ∧ q ≠ BP) → s ≠ m.toSq → s ≠ m.fromSq →
      ((w = true → s ≠ 63 ∧ s ≠ 61 ∧ s ≠ 56 ∧ s ≠ 59) ∧ (w = false → s ≠ 7 ∧ s ≠ 5 ∧ s ≠ 0 ∧ s ≠ 3) ∨
       ¬ (m.fromSq = (if w then 60 else 4))) → applyB b w m s = some q := by
    intro s q hs hq h1 h2 h3
    apply applyB_keep fits s q hs hq h1 h2
    intro hcs r f tt hhop
    obtain ⟨a, b'⟩ := hop_squares fits hcs r f tt hhop
    rcases h3 with ⟨hw, hb⟩ | h3
    · cases w
      · obtain ⟨_, h⟩ := b' rfl
        have := hb rfl
        rcases h with ⟨h, h'⟩ | ⟨h, h'⟩ <;> omega
      · obtain ⟨_, h⟩ := a rfl
        have := hw rfl
        rcases h with ⟨h, h'⟩ | ⟨h, h'⟩ <;> omega
    · exact absurd (fits.castleFrom hcs).1 h3
  refine ⟨?_, ?_, ?_, ?_, ?_, ?_, ?_, ?_, king_keep fits WK (Or.inl rfl) ok.wking, king_keep fits BK (Or.inr rfl) ok.bking⟩
  · -- valid
    intro t q ht h
    rcases applyB_at fits t with ⟨_, hv⟩ | ⟨_, hv⟩ | ⟨_, _, hv⟩ | ⟨_, r, f, tt, hhop, hh⟩ | ⟨_, _, _, _, hv⟩
    · rw [hv] at h; injection h with h; rw [← h]; exact landed_lt fits
    · rw [hv] at h; exact absurd h (by simp)
    · rw [hv] at h; exact absurd h (by simp)
    · rcases hh with ⟨_, hv⟩ | ⟨_, hv⟩
      · rw [hv] at h; exact absurd h (by simp)
      · rw [hv] at h; injection h with h; rw [← h]; exact (rookHop_ne _ _ _ _ hhop).2.2.2.1
    · rw [hv] at h; exact ok.valid t q ht h
  · -- pawns
    intro t ht h
    rcases applyB_at fits t with ⟨ht', hv⟩ | ⟨_, hv⟩ | ⟨_, _, hv⟩ | ⟨_, r, f, tt, hhop, hh⟩ | ⟨_, _, _, _, hv⟩
    · rw [hv] at h
      have hl : landed m = WP ∨ landed m = BP := by
        rcases h with h | h <;> injection h with h
        · exact Or.inl h
        · exact Or.inr h
      have hpn : m.promotion = PNONE := by
        apply Classical.byContradiction
        intro hpr
        obtain ⟨_, p1, p2, _, _⟩ := fits.promoKind hpr
        unfold landed at hl; rw [if_pos hpr] at hl
        rcases hl with h | h
        · exact p1 h
        · exact p2 h
      have hlp : landed m = m.piece := by unfold landed; rw [if_neg (by simp [hpn])]
      rw [hlp] at hl
      have hpw : m.piece = (if w then WP else BP) := by
        have := fits.piece; unfold ownP at this
        cases w <;> simp at this ⊢ <;> omega
      rw [ht']; exact fits.pawnTo hpw hpn
    · rw [hv] at h; simp at h
    · rw [hv] at h; simp at h
    · rcases hh with ⟨_, hv⟩ | ⟨_, hv⟩
      · rw [hv] at h; simp at h
      · rw [hv] at h
        rcases rookHop_rook _ _ _ _ hhop with hr | hr <;> subst hr <;> rcases h with h | h <;> injection h with h <;> omega
    · rw [hv] at h; exact ok.pawns t ht h
  · -- epLe
    split
    · rename_i hdp
      obtain ⟨_, _, _, _, hw, hb⟩ := fits.dpush hdp
      cases w
      · simp; omega
      · have := (hw rfl).1; simp; omega
    · omega
  · -- epOk
    intro hne
    have hdp : m.isDoublePush = true := by
      cases h : m.isDoublePush
      · rw [h] at hne; simp at hne
      · rfl
    obtain ⟨hpw, hc, hpn, hcs, hw, hb⟩ := fits.dpush hdp
    have hef := fits.ep_cap hc
    have hto : applyB b w m m.toSq = some m.piece := by
      rw [applyB_to fits]; unfold landed; rw [if_neg (by simp [hpn])]
    have hfr : 8 ≤ m.fromSq ∧ m.fromSq < 56 := by
      apply ok.pawns m.fromSq hfl
      rw [fits.src, hpw]; cases w <;> simp
    rw [hdp]
    simp only [if_true]
    cases w
    · -- black pushed: the square is `to - 8`
      obtain ⟨h16, hmid⟩ := hb rfl
      simp only [Bool.false_eq_true, if_false, Bool.not_false] at hpw ⊢
      refine ⟨?_, fun _ => ⟨by omega, by omega, ?_⟩, fun h => absurd h (by simp)⟩
      · rw [applyB_plain hef hcs, Board.set_ne _ _ _ _ (by omega)]
        by_cases hf : m.toSq - 8 = m.fromSq
        · rw [hf, Board.set_same]
        · rw [Board.set_ne _ _ _ _ hf]; exact hmid
      · rw [show m.toSq - 8 + 8 = m.toSq by omega, hto, hpw]
    · -- white pushed: the square is `to + 8`
      obtain ⟨h16, hmid⟩ := hw rfl
      simp only [if_true, Bool.not_true] at hpw ⊢
      refine ⟨?_, fun h => absurd h (by simp), fun _ => ⟨by omega, by omega, ?_⟩⟩
      · rw [applyB_plain hef hcs, Board.set_ne _ _ _ _ (by omega)]
        by_cases hf : m.toSq + 8 = m.fromSq
        · rw [hf, Board.set_same]
        · rw [Board.set_ne _ _ _ _ hf]; exact hmid
      · rw [show m.toSq + 8 - 8 = m.toSq by omega, hto, hpw]
  · -- white king-side right
    intro h
    obtain ⟨hc, h1, h2⟩ := right_survives _ _ _ 0 h
    obtain ⟨a1, a2⟩ := ((rights_table m.toSq htl).1) h1
    obtain ⟨b1, b2⟩ := ((rights_table m.fromSq hfl).1) h2
    obtain ⟨k1, k2⟩ := ok.castle1 hc
    refine ⟨home 60 WK k1 (by omega) (fun h => a1 h.symm) (fun h => b1 h.symm) ?_, home 63 WR k2 (by omega) (fun h => a2 h.symm) (fun h => b2 h.symm) ?_⟩
    · cases w
      · exact Or.inl ⟨fun h => absurd h (by simp), fun _ => by omega⟩
      · exact Or.inr (by simpa using b1)
    · cases w
      · exact Or.inl ⟨fun h => absurd h (by simp), fun _ => by omega⟩
      · exact Or.inr (by simpa using b1)
  · intro h
    obtain ⟨hc, h1, h2⟩ := right_survives _ _ _ 1 h
    obtain ⟨a1, a2⟩ := ((rights_table m.toSq htl).2.1) h1
    obtain ⟨b1, b2⟩ := ((rights_table m.fromSq hfl).2.1) h2
    obtain ⟨k1, k2⟩ := ok.castle2 hc
    refine ⟨home 60 WK k1 (by omega) (fun h => a1 h.symm) (fun h => b1 h.symm) ?_, home 56 WR k2 (by omega) (fun h => a2 h.symm) (fun h => b2 h.symm) ?_⟩
    · cases w
      · exact Or.inl ⟨fun h => absurd h (by simp), fun _ => by omega⟩
      · exact Or.inr (by simpa using b1)
    · cases w
      · exact Or.inl ⟨fun h => absurd h (by simp), fun _ => by omega⟩
      · exact Or.inr (by simpa using b1)
  · intro h
    obtain ⟨hc, h1, h2⟩ := right_survives _ _ _ 2 h
    obtain ⟨a1, a2⟩ := ((rights_table m.toSq htl).2.2.1) h1
    obtain ⟨b1, b2⟩ := ((rights_table m.fromSq hfl).2.2.1) h2
    obtain ⟨k1, k2⟩ := ok.castle4 hc
    refine ⟨home 4 BK k1 (by omega) (fun h => a1 h.symm) (fun h => b1 h.symm) ?_, home 7 BR k2 (by omega) (fun h => a2 h.symm) (fun h => b2 h.symm) ?_⟩
    · cases w
      · exact Or.inr (by simpa using b1)
      · exact Or.inl ⟨fun _ => by omega, fun h => absurd h (by simp)⟩
    · cases w
      · exact Or.inr (by simpa using b1)
      · exact Or.inl ⟨fun _ => by omega, fun h => absurd h (by simp)⟩
  · intro h
    obtain ⟨hc, h1, h2⟩ := right_survives _ _ _ 3 h
    obtain ⟨a1, a2⟩ := ((rights_table m.toSq htl).2.2.2) h1
    obtain ⟨b1, b2⟩ := ((rights_table m.fromSq hfl).2.2.2) h2
    obtain ⟨k1, k2⟩ := ok.castle8 hc
    refine ⟨home 4 BK k1 (by omega) (fun h => a1 h.symm) (fun h => b1 h.symm) ?_, home 0 BR k2 (by omega) (fun h => a2 h.symm) (fun h => b2 h.symm) ?_⟩
    · cases w
      · exact Or.inr (by simpa using b1)
      · exact Or.inl ⟨fun _ => by omega, fun h => absurd h (by simp)⟩
    · cases w
      · exact Or.inr (by simpa using b1)
      · exact Or.inl ⟨fun _ => by omega, fun h => absurd h (by simp)⟩

/-- **T2.1** a fitting move keeps the position consistent, and the new board is the one the rules prescribe -/
theorem makeCore_wf (g g' : Game) (m : Move) (b : Board) (wf : Wf g b) (fits : MoveFits b g.white m)
    (hmk : makeCore g m = some g') : Wf g' (applyB b g.white m) := by
  obtain ⟨o1, o2, o3⟩ := makeCore_occ g g' m b wf.occW wf.occB wf.occA fits hmk
  obtain ⟨f1, f2, f3⟩ := makeCore_fields g g' m hmk
  refine ⟨makeCore_rep g g' m b wf.rep fits hmk, o1, o2, o3, ?_⟩
  rw [f1, f2, f3]
  exact applyB_ok wf.ok fits

theorem makeForce_wf (g : Game) (m : Move) (b : Board) (wf : Wf g b) (fits : MoveFits b g.white m) :
    Wf (makeForce g m) (applyB b g.white m) := by
  obtain ⟨o1, o2, o3⟩ := makeCore_occ_force g m b wf.occW wf.occB wf.occA fits
  obtain ⟨f1, f2, f3⟩ := makeCore_fields_force g m
  refine ⟨makeCore_rep_force g m b wf.rep fits, o1, o2, o3, ?_⟩
  rw [f1, f2, f3]
  exact applyB_ok wf.ok fits

/-- **T4.1** ... and the incrementally maintained key stays the from-scratch key -/
theorem makeCore_wf_key (g g' : Game) (m : Move) (b : Board) (wf : Wf g b) (fits : MoveFits b g.white m)
    (hkey : g.key = scratchKey g) (hmk : makeCore g m = some g') : g'.key = scratchKey g' :=
  makeCore_key g g' m hkey (fits.moveOk wf.rep) hmk

end Jence
