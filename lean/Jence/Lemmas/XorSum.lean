/-
  XOR-sums over the set bits of a bit set, and how they change when one bit is set or cleared: the algebra behind the
  incrementally maintained position key.
-/
import Jence.Lemmas.BitScan
import Jence.Model.Zobrist
namespace Jence
open Jence

theorem xor_cancel (a b : UInt64) : a ^^^ b ^^^ b = a := by
  rw [UInt64.xor_assoc, UInt64.xor_self, UInt64.xor_zero]

theorem xor_right_comm' (a b c : UInt64) : a ^^^ b ^^^ c = a ^^^ c ^^^ b := by
  rw [UInt64.xor_assoc, UInt64.xor_comm b c, ← UInt64.xor_assoc]

/-- XOR of `f j` over `j < n` -/
def xorOver (f : Nat → UInt64) (n : Nat) : UInt64 := (List.range n).foldl (fun h j => h ^^^ f j) 0

theorem foldl_xor_init (l : List Nat) (f : Nat → UInt64) (a : UInt64) :
    l.foldl (fun h j => h ^^^ f j) a = a ^^^ l.foldl (fun h j => h ^^^ f j) 0 := by
  induction l generalizing a with
  | nil => simp
  | cons x l ih =>
    simp only [List.foldl_cons]
    rw [ih (a ^^^ f x), ih (0 ^^^ f x), UInt64.zero_xor, UInt64.xor_assoc]

theorem xorOver_succ (f : Nat → UInt64) (n : Nat) : xorOver f (n + 1) = xorOver f n ^^^ f n := by
  unfold xorOver
  rw [List.range_succ, List.foldl_append]
  simp

theorem xorOver_congr (f g : Nat → UInt64) (n : Nat) (h : ∀ j, j < n → f j = g j) : xorOver f n = xorOver g n := by
  induction n with
  | zero => rfl
  | succ n ih => rw [xorOver_succ, xorOver_succ, ih (fun j hj => h j (by omega)), h n (by omega)]

/-- changing the summand at one index changes the sum by old XOR new -/
theorem xorOver_update (f g : Nat → UInt64) (n s : Nat) (hs : s < n) (h : ∀ j, j < n → j ≠ s → g j = f j) :
    xorOver g n = xorOver f n ^^^ f s ^^^ g s := by
  induction n with
  | zero => omega
  | succ n ih =>
    rw [xorOver_succ, xorOver_succ]
    by_cases hsn : s = n
    · subst hsn
      rw [xorOver_congr g f s (fun j hj => h j (by omega) (by omega))]
      rw [xor_cancel]
    · rw [ih (by omega) (fun j hj hne => h j (by omega) hne), h n (by omega) (by omega)]
      rw [xor_right_comm' _ (g s) (f n), xor_right_comm' _ (f s) (f n)]

theorem foldl_filter_xor (l : List Nat) (c : Nat → Bool) (k : Nat → UInt64) (a : UInt64) :
    (l.filter c).foldl (fun h s => h ^^^ k s) a = l.foldl (fun h j => h ^^^ (if c j then k j else 0)) a := by
  induction l generalizing a with
  | nil => rfl
  | cons x l ih =>
    simp only [List.filter_cons, List.foldl_cons]
    by_cases hx : c x = true
    · simp only [hx, ↓reduceIte, List.foldl_cons]; exact ih _
    · have hx' : c x = false := by simpa using hx
      simp only [hx', Bool.false_eq_true, ↓reduceIte, UInt64.xor_zero]; exact ih _

/-- the XOR of the piece keys of the set squares, as a sum over all 64 squares -/
theorem xorPiece_eq (p : Nat) (b : UInt64) :
    xorPiece p b = xorOver (fun s => if getBit b s then pieceKey p s else 0) 64 := by
  unfold xorPiece xorOver
  rw [bitsOf_eq_filter]
  exact foldl_filter_xor (List.range 64) (fun j => getBit b j) (pieceKey p) 0

theorem getD_setIfInBounds_ne' {α : Type} (a : Array α) (i j : Nat) (v d : α) (h : i ≠ j) :
    (a.setIfInBounds i v).getD j d = a.getD j d := by
  simp [Array.getD_eq_getD_getElem?, Array.getElem?_setIfInBounds, h]

theorem getBit_unsetBit (b : UInt64) (s t : Nat) (hs : s < 64) (ht : t < 64) :
    getBit (unsetBit b s) t = (getBit b t && decide (s ≠ t)) := by
  unfold unsetBit
  rw [getBit_and _ _ _ ht, getBit_eq_testBit (bit s ^^^ b) t ht, UInt64.toNat_xor, Nat.testBit_xor,
    ← getBit_eq_testBit (bit s) t ht, ← getBit_eq_testBit b t ht, getBit_bit s t hs ht]
  by_cases h : s = t
  · subst h; cases getBit b s <;> simp
  · cases getBit b t <;> simp [h]

/-- setting a clear bit adds its key -/
theorem xorPiece_setBit (p : Nat) (b : UInt64) (s : Nat) (hs : s < 64) (hclear : getBit b s = false) :
    xorPiece p (setBit b s) = xorPiece p b ^^^ pieceKey p s := by
  rw [xorPiece_eq, xorPiece_eq]
  rw [xorOver_update (fun j => if getBit b j then pieceKey p j else 0) (fun j => if getBit (setBit b s) j then pieceKey p j else 0) 64 s hs
    (fun j hj hne => by
      rw [getBit_setBit b s j hs hj]
      have : ¬ s = j := fun h => hne h.symm
      simp [this])]
  simp only [hclear, Bool.false_eq_true, ↓reduceIte, UInt64.xor_zero]
  rw [getBit_setBit b s s hs hs]
  simp

/-- clearing a set bit removes its key -/
theorem xorPiece_unsetBit (p : Nat) (b : UInt64) (s : Nat) (hs : s < 64) (hset : getBit b s = true) :
    xorPiece p (unsetBit b s) = xorPiece p b ^^^ pieceKey p s := by
  rw [xorPiece_eq, xorPiece_eq]
  rw [xorOver_update (fun j => if getBit b j then pieceKey p j else 0) (fun j => if getBit (unsetBit b s) j then pieceKey p j else 0) 64 s hs
    (fun j hj hne => by
      rw [getBit_unsetBit b s j hs hj]
      have : s ≠ j := fun h => hne h.symm
      simp [this])]
  simp only [hset, ↓reduceIte]
  rw [getBit_unsetBit b s s hs hs]
  simp

/-- clearing a clear bit / setting a set bit changes nothing -/
theorem unsetBit_of_clear (b : UInt64) (s : Nat) (hs : s < 64) (h : getBit b s = false) : unsetBit b s = b := by
  apply ext_getBit
  intro t ht
  rw [getBit_unsetBit b s t hs ht]
  by_cases he : s = t
  · subst he; simp [h]
  · simp [he]

/-- the piece part of the key of a position -/
def pieceSum (bbs : Array UInt64) : UInt64 := (List.range 12).foldl (fun h p => h ^^^ xorPiece p (bbs.getD p 0)) 0

theorem pieceSum_eq (bbs : Array UInt64) : pieceSum bbs = xorOver (fun p => xorPiece p (bbs.getD p 0)) 12 := rfl

/-- replacing one piece set -/
theorem pieceSum_set (bbs : Array UInt64) (p : Nat) (v : UInt64) (hp : p < 12) (hsz : bbs.size = 12) :
    pieceSum (bbs.setIfInBounds p v) = pieceSum bbs ^^^ xorPiece p (bbs.getD p 0) ^^^ xorPiece p v := by
  rw [pieceSum_eq, pieceSum_eq]
  rw [xorOver_update (fun q => xorPiece q (bbs.getD q 0)) (fun q => xorPiece q ((bbs.setIfInBounds p v).getD q 0)) 12 p hp
    (fun j hj hne => by
      rw [getD_setIfInBounds_ne' bbs p j v 0 (fun h => hne h.symm)])]
  congr 1
  simp [Array.getD_eq_getD_getElem?, Array.getElem?_setIfInBounds, hsz, hp]

end Jence
