/-
  The rules' move lists have no repeats (so `Spec.perft` counts moves, not list entries).
-/
import Jence.Lemmas.GenNodup
namespace Jence
open Jence

def eightDirs : List (Int × Int) := Spec.rookDirs ++ Spec.bishopDirs

theorem sqOf_inj (f r f' r' : Int) (h1 : Spec.onBoard f r = true) (h2 : Spec.onBoard f' r' = true)
    (h : Spec.sqOf f r = Spec.sqOf f' r') : f = f' ∧ r = r' := by
  simp only [Spec.onBoard, Bool.and_eq_true, decide_eq_true_eq] at h1 h2
  unfold Spec.sqOf at h
  omega

/-- two squares on lines through one origin coincide only on the same line at the same distance -/
theorem ray_inj (f r : Int) : ∀ d ∈ eightDirs, ∀ d' ∈ eightDirs, ∀ j j' : Nat,
    f + ((j + 1 : Nat) : Int) * d.1 = f + ((j' + 1 : Nat) : Int) * d'.1 →
    r + ((j + 1 : Nat) : Int) * d.2 = r + ((j' + 1 : Nat) : Int) * d'.2 → d = d' ∧ j = j' := by
  intro d hd d' hd' j j' h1 h2
  simp only [eightDirs, Spec.rookDirs, Spec.bishopDirs, List.cons_append, List.nil_append, List.mem_cons, List.not_mem_nil, or_false] at hd hd'
  rcases hd with rfl | rfl | rfl | rfl | rfl | rfl | rfl | rfl <;>
    rcases hd' with rfl | rfl | rfl | rfl | rfl | rfl | rfl | rfl <;>
    simp only at h1 h2 <;> first | (refine ⟨rfl, ?_⟩; omega) | (exfalso; omega)

theorem walk_nodup (occ : Nat → Bool) (d : Int × Int) (hd : d ∈ eightDirs) : ∀ (n : Nat) (f r : Int), Spec.onBoard f r = true →
    (Spec.walk occ d.1 d.2 n f r).Nodup := by
  intro n
  induction n with
  | zero => intro f r _; simp [Spec.walk]
  | succ n ih =>
    intro f r hb0
    simp only [Spec.walk]
    split
    · rename_i hb
      split
      · simp
      · rw [List.nodup_cons]
        refine ⟨?_, ih _ _ hb⟩
        intro hmem
        rw [mem_walk] at hmem
        obtain ⟨j, _, hon, _, heq⟩ := hmem
        obtain ⟨e1, e2⟩ := sqOf_inj _ _ _ _ hb (hon j (Nat.le_refl j)) heq
        -- (j+1) * d = 0 is impossible for a direction
        simp only [eightDirs, Spec.rookDirs, Spec.bishopDirs, List.cons_append, List.nil_append, List.mem_cons, List.not_mem_nil, or_false] at hd
        rcases hd with rfl | rfl | rfl | rfl | rfl | rfl | rfl | rfl <;> simp only at e1 e2 <;> omega
    · simp

theorem slide_nodup (occ : Nat → Bool) (sq : Nat) (hsq : sq < 64) (dirs : List (Int × Int)) (hdirs : dirs.Nodup)
    (hsub : ∀ d ∈ dirs, d ∈ eightDirs) : (Spec.slide occ sq dirs).Nodup := by
  unfold Spec.slide List.Nodup
  rw [List.pairwise_flatMap]
  refine ⟨fun d hd => walk_nodup occ d (hsub d hd) 7 _ _ (onBoard_sq sq hsq), ?_⟩
  apply List.Pairwise.imp_of_mem _ hdirs
  intro d d' hd hd' hne x hx y hy hxy
  rw [mem_walk] at hx hy
  obtain ⟨j, _, hon, _, hxe⟩ := hx
  obtain ⟨j', _, hon', _, hye⟩ := hy
  rw [hxy, hye] at hxe
  obtain ⟨e1, e2⟩ := sqOf_inj _ _ _ _ (hon' j' (Nat.le_refl _)) (hon j (Nat.le_refl _)) hxe
  exact hne (ray_inj _ _ d (hsub d hd) d' (hsub d' hd') j j' e1.symm e2.symm).1

theorem jumps_nodup (sq : Nat) (offs : List (Int × Int)) (hoffs : offs.Nodup) : (Spec.jumps sq offs).Nodup := by
  unfold Spec.jumps List.Nodup
  rw [List.pairwise_filterMap]
  apply List.Pairwise.imp_of_mem _ hoffs
  intro d d' _ _ hne x hx y hy hxy
  simp only at hx hy
  split at hx
  · rename_i h1
    split at hy
    · rename_i h2
      simp only [Option.mem_def, Option.some.injEq] at hx hy
      rw [← hx, ← hy] at hxy
      obtain ⟨e1, e2⟩ := sqOf_inj _ _ _ _ h1 h2 hxy
      apply hne
      have : d.1 = d'.1 := by omega
      have : d.2 = d'.2 := by omega
      exact Prod.ext ‹_› ‹_›
    · simp at hy
  · simp at hx

theorem attackedFrom_nodup (occ : Nat → Bool) (pc : Spec.Piece) (sq : Nat) (hsq : sq < 64) :
    (Spec.attackedFrom occ pc sq).Nodup := by
  unfold Spec.attackedFrom
  cases pc.kind <;> simp only
  · unfold Spec.pawnAttacks; apply jumps_nodup; cases pc.white <;> decide
  · exact jumps_nodup _ _ (by decide)
  · exact slide_nodup _ _ hsq _ (by decide) (by decide)
  · exact slide_nodup _ _ hsq _ (by decide) (by decide)
  · exact slide_nodup _ _ hsq _ (by decide) (by decide)
  · exact jumps_nodup _ _ (by decide)

theorem fan_spec_nodup (f t : Nat) (last : Bool) : (specPromoFan f t last).Nodup ∧ ∀ m ∈ specPromoFan f t last, m.src = f ∧ m.dst = t := by
  unfold specPromoFan
  cases last
  · simp
  · simp only [if_true]
    refine ⟨?_, ?_⟩
    · apply nodup_map_inj _ _ (by decide)
      intro a _ b' _ h; injection h with _ _ h; injection h
    · intro m hm; rw [List.mem_map] at hm; obtain ⟨k, _, rfl⟩ := hm; exact ⟨rfl, rfl⟩

/-- the rules' moves of a non-pawn piece on `s`: no repeats, all start on `s` -/
theorem spec_piece_nodup (p : Spec.Position) (s : Nat) (hs : s < 64) (pc : Spec.Piece) (h : pc.kind ≠ .pawn) :
    (Spec.pieceMoves p s pc).Nodup ∧ ∀ m ∈ Spec.pieceMoves p s pc, m.src = s ∧ m.dst ∈ Spec.attackedFrom (Spec.occupiedIn p) pc s := by
  rw [spec_pieceMoves_nonpawn p s pc h]
  refine ⟨?_, ?_⟩
  · apply nodup_map_inj
    · exact List.Nodup.sublist List.filter_sublist (attackedFrom_nodup _ pc s hs)
    · intro a _ b' _ h'; injection h'
  · intro m hm
    rw [List.mem_map] at hm
    obtain ⟨t, ht, rfl⟩ := hm
    exact ⟨rfl, (List.mem_filter.1 ht).1⟩

/-- the rules' moves of a pawn of the side to move on rows 2-7: no repeats, all start on `f` -/
theorem spec_pawn_nodup {g : Game} {b : Board} (wf : Wf g b) (f : Nat) (hrow : 8 ≤ f ∧ f < 56) :
    (Spec.pieceMoves (Spec.abs g) f ⟨g.white, .pawn⟩).Nodup ∧ ∀ m ∈ Spec.pieceMoves (Spec.abs g) f ⟨g.white, .pawn⟩, m.src = f := by
  have hf : f < 64 := by omega
  -- the diagonal part, for either colour
  have caps : ∀ (w : Bool) (en : Nat → Bool) (last : Nat → Bool),
      ((Spec.pawnAttacks w f).flatMap (fun t => if en t = true then specPromoFan f t (last t)
          else if ((Spec.abs g).ep == some t && !Spec.occupiedIn (Spec.abs g) t) = true then [(⟨f, t, none⟩ : Spec.SMove)] else [])).Nodup ∧
      ∀ m ∈ (Spec.pawnAttacks w f).flatMap (fun t => if en t = true then specPromoFan f t (last t)
          else if ((Spec.abs g).ep == some t && !Spec.occupiedIn (Spec.abs g) t) = true then [(⟨f, t, none⟩ : Spec.SMove)] else []),
        m.src = f ∧ m.dst ∈ Spec.pawnAttacks w f := by
    intro w en last
    have inner : ∀ t, (if en t = true then specPromoFan f t (last t)
          else if ((Spec.abs g).ep == some t && !Spec.occupiedIn (Spec.abs g) t) = true then [(⟨f, t, none⟩ : Spec.SMove)] else []).Nodup ∧
        ∀ m ∈ (if en t = true then specPromoFan f t (last t)
          else if ((Spec.abs g).ep == some t && !Spec.occupiedIn (Spec.abs g) t) = true then [(⟨f, t, none⟩ : Spec.SMove)] else []),
          m.src = f ∧ m.dst = t := by
      intro t
      split
      · exact fan_spec_nodup f t (last t)
      · split
        · exact ⟨by simp, fun m hm => by rw [List.mem_singleton] at hm; subst hm; exact ⟨rfl, rfl⟩⟩
        · exact ⟨by simp, fun m hm => absurd hm (by simp)⟩
    refine ⟨?_, ?_⟩
    · apply nodup_flatMap_key _ _ Spec.SMove.dst
      · unfold Spec.pawnAttacks; apply jumps_nodup; cases w <;> decide
      · intro t _; exact (inner t).1
      · intro t _ m hm; exact ((inner t).2 m hm).2
    · intro m hm
      rw [List.mem_flatMap] at hm
      obtain ⟨t, ht, hm⟩ := hm
      obtain ⟨h1, h2⟩ := (inner t).2 m hm
      exact ⟨h1, by rw [h2]; exact ht⟩
  have geom : ∀ w t, t ∈ Spec.pawnAttacks w f → t % 8 ≠ f % 8 := by
    intro w t ht
    have ht64 : t < 64 := by unfold Spec.pawnAttacks at ht; exact jumps_lt _ _ t ht
    have hbit := (pawnAttacks_mem w f t hf ht64).1 ht
    obtain ⟨gw, gb⟩ := pawn_attack_geom f hf t ht64
    cases w
    · have := gb.1 hbit; omega
    · have := gw.1 hbit; omega
  cases hw : g.white
  · rw [spec_pawn_black _ f hrow]
    obtain ⟨c1, c2⟩ := caps false (fun t => match Spec.at_ (Spec.abs g) t with | some q => q.white != false | none => false) (fun t => decide (t > 55))
    obtain ⟨a1, a2⟩ := fan_spec_nodup f (f + 8) (decide (f + 8 > 55))
    refine ⟨?_, ?_⟩
    · rw [List.nodup_append, List.nodup_append]
      refine ⟨⟨?_, ?_, ?_⟩, c1, ?_⟩
      · split
        · exact a1
        · simp
      · split <;> simp
      · intro x hx y hy hxy
        split at hx
        · split at hy
          · rw [List.mem_singleton] at hy; subst hy
            have := (a2 x hx).2; rw [hxy] at this; simp only at this; omega
          · exact absurd hy (by simp)
        · exact absurd hx (by simp)
      · intro x hx y hy hxy
        have hy2 := geom false y.dst (c2 y hy).2
        rcases List.mem_append.1 hx with hx | hx
        · split at hx
          · have := (a2 x hx).2; rw [hxy] at this; omega
          · exact absurd hx (by simp)
        · split at hx
          · rw [List.mem_singleton] at hx; rw [← hxy, hx] at hy2; simp only at hy2; omega
          · exact absurd hx (by simp)
    · intro m hm
      rcases List.mem_append.1 hm with hm | hm
      · rcases List.mem_append.1 hm with hm | hm
        · split at hm
          · exact (a2 m hm).1
          · exact absurd hm (by simp)
        · split at hm
          · rw [List.mem_singleton] at hm; subst hm; rfl
          · exact absurd hm (by simp)
      · exact (c2 m hm).1
  · rw [spec_pawn_white _ f hrow]
    obtain ⟨c1, c2⟩ := caps true (fun t => match Spec.at_ (Spec.abs g) t with | some q => q.white != true | none => false) (fun t => decide (t < 8))
    obtain ⟨a1, a2⟩ := fan_spec_nodup f (f - 8) (decide (f - 8 < 8))
    refine ⟨?_, ?_⟩
    · rw [List.nodup_append, List.nodup_append]
      refine ⟨⟨?_, ?_, ?_⟩, c1, ?_⟩
      · split
        · exact a1
        · simp
      · split <;> simp
      · intro x hx y hy hxy
        split at hx
        · split at hy
          · rename_i hc
            simp only [Bool.and_eq_true, decide_eq_true_eq] at hc
            rw [List.mem_singleton] at hy; subst hy
            have := (a2 x hx).2; rw [hxy] at this; simp only at this; omega
          · exact absurd hy (by simp)
        · exact absurd hx (by simp)
      · intro x hx y hy hxy
        have hy2 := geom true y.dst (c2 y hy).2
        rcases List.mem_append.1 hx with hx | hx
        · split at hx
          · have := (a2 x hx).2; rw [hxy] at this; omega
          · exact absurd hx (by simp)
        · split at hx
          · rename_i hc
            simp only [Bool.and_eq_true, decide_eq_true_eq] at hc
            rw [List.mem_singleton] at hx; rw [← hxy, hx] at hy2; simp only at hy2; omega
          · exact absurd hx (by simp)
    · intro m hm
      rcases List.mem_append.1 hm with hm | hm
      · rcases List.mem_append.1 hm with hm | hm
        · split at hm
          · exact (a2 m hm).1
          · exact absurd hm (by simp)
        · split at hm
          · rw [List.mem_singleton] at hm; subst hm; rfl
          · exact absurd hm (by simp)
      · exact (c2 m hm).1

theorem king_step_geom (sq t : Nat) (h : t ∈ Spec.jumps sq Spec.kingSteps) : ¬ (t = sq + 2 ∨ t + 2 = sq) := by
  unfold Spec.jumps at h
  rw [List.mem_filterMap] at h
  obtain ⟨d, hd, ht⟩ := h
  simp only at ht
  split at ht
  · rename_i hb
    injection ht with ht
    simp only [Spec.onBoard, Bool.and_eq_true, decide_eq_true_eq] at hb
    unfold Spec.fileOf Spec.rowOf at hb
    simp only [Spec.kingSteps, Spec.rookDirs, Spec.bishopDirs, List.cons_append, List.nil_append, List.mem_cons, List.not_mem_nil, or_false] at hd
    unfold Spec.sqOf Spec.fileOf Spec.rowOf at ht
    rcases hd with rfl | rfl | rfl | rfl | rfl | rfl | rfl | rfl <;> simp only at hb ht <;> omega
  · exact absurd ht (by simp)

theorem spec_castling_shape (p : Spec.Position) : (Spec.castlingMoves p).Nodup ∧
    ∀ m ∈ Spec.castlingMoves p, Spec.at_ p m.src = some ⟨p.white, .king⟩ ∧ (m.dst = m.src + 2 ∨ m.dst + 2 = m.src) := by
  unfold Spec.castlingMoves
  simp only
  generalize hks : ((if p.white = true then p.wk else p.bk) && Spec.at_ p ((if p.white = true then 56 else 0) + 4) == some ⟨p.white, .king⟩ &&
      Spec.at_ p ((if p.white = true then 56 else 0) + 7) == some ⟨p.white, .rook⟩ &&
      [(if p.white = true then 56 else 0) + 5, (if p.white = true then 56 else 0) + 6].all (fun s => !Spec.occupiedIn p s) &&
      [(if p.white = true then 56 else 0) + 4, (if p.white = true then 56 else 0) + 5, (if p.white = true then 56 else 0) + 6].all
        (fun s => !Spec.attacked p s !p.white)) = ks
  generalize hqs : ((if p.white = true then p.wq else p.bq) && Spec.at_ p ((if p.white = true then 56 else 0) + 4) == some ⟨p.white, .king⟩ &&
      Spec.at_ p (if p.white = true then 56 else 0) == some ⟨p.white, .rook⟩ &&
      [(if p.white = true then 56 else 0) + 1, (if p.white = true then 56 else 0) + 2, (if p.white = true then 56 else 0) + 3].all
        (fun s => !Spec.occupiedIn p s) &&
      [(if p.white = true then 56 else 0) + 4, (if p.white = true then 56 else 0) + 3, (if p.white = true then 56 else 0) + 2].all
        (fun s => !Spec.attacked p s !p.white)) = qs
  have hk1 : ks = true → Spec.at_ p ((if p.white = true then 56 else 0) + 4) = some ⟨p.white, .king⟩ := by
    intro h; rw [← hks] at h; simp only [Bool.and_eq_true, beq_iff_eq] at h; exact h.1.1.1.2
  have hk2 : qs = true → Spec.at_ p ((if p.white = true then 56 else 0) + 4) = some ⟨p.white, .king⟩ := by
    intro h; rw [← hqs] at h; simp only [Bool.and_eq_true, beq_iff_eq] at h; exact h.1.1.1.2
  cases ks <;> cases qs <;> simp only [Bool.false_eq_true, if_false, if_true, List.append_nil, List.nil_append]
  · exact ⟨by simp, fun m hm => absurd hm (by simp)⟩
  · refine ⟨by simp, fun m hm => ?_⟩
    rw [List.mem_singleton] at hm; subst hm
    exact ⟨hk2 rfl, Or.inr (by simp)⟩
  · refine ⟨by simp, fun m hm => ?_⟩
    rw [List.mem_singleton] at hm; subst hm
    exact ⟨hk1 rfl, Or.inl (by simp)⟩
  · refine ⟨?_, fun m hm => ?_⟩
    · simp only [List.singleton_append, List.nodup_cons, List.mem_singleton, List.not_mem_nil, not_false_eq_true, List.nodup_nil, and_true]
      intro h; injection h with _ h _; omega
    · simp only [List.singleton_append, List.mem_cons, List.not_mem_nil, or_false] at hm
      rcases hm with rfl | rfl
      · exact ⟨hk1 rfl, Or.inl (by simp)⟩
      · exact ⟨hk2 rfl, Or.inr (by simp)⟩

/-- **the rules' legal moves of a consistent position have no repeats** -/
theorem spec_legal_nodup {g : Game} {b : Board} (wf : Wf g b) : (Spec.legalMoves (Spec.abs g)).Nodup := by
  unfold Spec.legalMoves
  apply List.Nodup.sublist List.filter_sublist
  rw [spec_pseudoLegal_eq]
  have hpw : (Spec.abs g).white = g.white := rfl
  -- per square
  have inner : ∀ s, s < 64 →
      (match Spec.at_ (Spec.abs g) s with
        | some pc => if pc.white == (Spec.abs g).white then Spec.pieceMoves (Spec.abs g) s pc else []
        | none => []).Nodup ∧
      ∀ m ∈ (match Spec.at_ (Spec.abs g) s with
        | some pc => if pc.white == (Spec.abs g).white then Spec.pieceMoves (Spec.abs g) s pc else []
        | none => []),
        m.src = s ∧ (Spec.at_ (Spec.abs g) s = some ⟨g.white, .king⟩ → m.dst ∈ Spec.jumps s Spec.kingSteps) := by
    intro s hs
    rw [abs_at wf s hs]
    cases hb : b s with
    | none => exact ⟨by simp, fun m hm => absurd hm (by simp)⟩
    | some X =>
      simp only [Option.map_some]
      have hX12 := wf.ok.valid s X hs hb
      split
      · rename_i hcol
        have hX := (pieceOf_white X g.white hX12).1 hcol
        by_cases hp : X = (if g.white then WP else BP)
        · subst hp
          rw [pieceOf_pawnOf]
          have hrow := wf.ok.pawns s hs (by rw [hb]; cases g.white <;> simp)
          obtain ⟨n1, n2⟩ := spec_pawn_nodup wf s hrow
          exact ⟨n1, fun m hm => ⟨n2 m hm, fun hk => by injection hk with hk; injection hk with _ hk; exact absurd hk (by simp)⟩⟩
        · obtain ⟨n1, n2⟩ := spec_piece_nodup (Spec.abs g) s hs (pieceOf X) (pieceOf_nonpawn g.white X hX hp)
          refine ⟨n1, fun m hm => ⟨(n2 m hm).1, fun hk => ?_⟩⟩
          injection hk with hk
          have := (n2 m hm).2
          rw [hk] at this
          exact this
      · exact ⟨by simp, fun m hm => absurd hm (by simp)⟩
  obtain ⟨c1, c2⟩ := spec_castling_shape (Spec.abs g)
  rw [List.nodup_append]
  refine ⟨?_, c1, ?_⟩
  · unfold specNonCastle
    apply nodup_flatMap_key _ _ Spec.SMove.src List.nodup_range
    · intro s hs; exact (inner s (List.mem_range.1 hs)).1
    · intro s hs m hm; exact ((inner s (List.mem_range.1 hs)).2 m hm).1
  · intro x hx y hy hxy
    unfold specNonCastle at hx
    rw [List.mem_flatMap] at hx
    obtain ⟨s, hs, hx⟩ := hx
    obtain ⟨h1, h2⟩ := (inner s (List.mem_range.1 hs)).2 x hx
    obtain ⟨k1, k2⟩ := c2 y hy
    rw [← hxy, h1, hpw] at k1
    have := king_step_geom s x.dst (h2 k1)
    rw [← hxy, h1] at k2
    exact this k2

/-- **the legal move lists agree as multisets**: the rules moves denoted by `legal_values`, in generation order, are a
    permutation of the rules' legal move list -/
theorem legal_perm {g : Game} {b : Board} (wf : Wf g b) (nk : NoKingCapture g) :
    ((legalValues g).map smove).Perm (Spec.legalMoves (Spec.abs g)) := by
  have hsub : ∀ m ∈ legalValues g, m ∈ generateMoves g true := fun m hm => (List.mem_filter.1 hm).1
  have n1 : ((legalValues g).map smove).Nodup := by
    apply nodup_map_inj
    · exact List.Nodup.sublist List.filter_sublist (generateMoves_nodup wf)
    · intro a ha b' hb' h; exact smove_inj wf nk a b' (hsub a ha) (hsub b' hb') h
  rw [List.perm_ext_iff_of_nodup n1 (spec_legal_nodup wf)]
  intro sm
  rw [legal_refines wf nk sm, List.mem_map]

end Jence
