/-
  C04, last clause: the key tables contain no zero and no repeated entry (849 keys: 768 piece keys, 64 en-passant keys,
  16 castling keys, the side key), decided by the kernel on the tables the model computes from the generated seeds.
-/
import Jence.Model.Zobrist
namespace Jence
open Jence

/-- all keys, in table order -/
def allKeys : List UInt64 :=
  keyStream 768 Gen.PIECE_SEED.toUInt64 ++ keyStream 64 Gen.ENPASSANT_SEED.toUInt64 ++ keyStream 16 Gen.CASTLE_SEED.toUInt64 ++ [SIDE_KEY]

/-- pairwise distinct, one pass per element (on `Nat`, whose equality test the kernel evaluates natively) -/
def distinctN : List Nat → Bool
  | [] => true
  | x :: xs => !(xs.any (Nat.beq x)) && distinctN xs

theorem distinctN_nodup : ∀ l : List Nat, distinctN l = true → l.Nodup := by
  intro l
  induction l with
  | nil => intro _; exact List.nodup_nil
  | cons x xs ih =>
    intro h
    simp only [distinctN, Bool.and_eq_true, Bool.not_eq_true', List.any_eq_false] at h
    refine List.nodup_cons.2 ⟨fun hm => ?_, ih h.2⟩
    have := h.1 x hm
    simp at this

theorem nodup_of_map {α β : Type} (f : α → β) : ∀ l : List α, (l.map f).Nodup → l.Nodup := by
  intro l
  induction l with
  | nil => intro _; exact List.nodup_nil
  | cons x xs ih =>
    intro h
    rw [List.map_cons, List.nodup_cons] at h
    exact List.nodup_cons.2 ⟨fun hm => h.1 (List.mem_map.2 ⟨x, hm, rfl⟩), ih h.2⟩

set_option maxRecDepth 100000 in
theorem keys_decided : distinctN (allKeys.map UInt64.toNat) = true ∧ (allKeys.map UInt64.toNat).any (Nat.beq 0) = false ∧ allKeys.length = 849 := by
  decide +kernel

/-- **the 849 keys are pairwise distinct and none is zero** -/
theorem key_tables_sound : allKeys.Nodup ∧ (0 : UInt64) ∉ allKeys ∧ allKeys.length = 849 := by
  obtain ⟨h1, h2, h3⟩ := keys_decided
  refine ⟨nodup_of_map UInt64.toNat _ (distinctN_nodup _ h1), fun hm => ?_, h3⟩
  have : (0 : Nat) ∈ allKeys.map UInt64.toNat := List.mem_map.2 ⟨0, hm, rfl⟩
  rw [List.any_eq_false] at h2
  have := h2 0 this
  simp at this

/-- the tables of the model are these lists -/
theorem tables_are_allKeys : PIECE_KEYS_FLAT.toList ++ ENPASSANT_KEYS.toList ++ CASTLE_KEYS.toList ++ [SIDE_KEY] = allKeys := by
  simp [PIECE_KEYS_FLAT, ENPASSANT_KEYS, CASTLE_KEYS, allKeys]


theorem keyStream_length : ∀ (n : Nat) (st : UInt64), (keyStream n st).length = n := by
  intro n; induction n with
  | zero => intro st; rfl
  | succ n ih => intro st; simp [keyStream, ih]

/-- a piece key is the entry `p * 64 + sq` of the list of all keys -/
theorem pieceKey_eq (p sq : Nat) (h : p * 64 + sq < 768) : pieceKey p sq = allKeys[p * 64 + sq]'(by rw [key_tables_sound.2.2]; omega) := by
  unfold pieceKey PIECE_KEYS_FLAT allKeys
  have hl := keyStream_length 768 Gen.PIECE_SEED.toUInt64
  rw [Array.getD_eq_getD_getElem?, List.getElem?_toArray, List.getElem?_eq_getElem (by rw [hl]; exact h)]
  simp only [Option.getD_some]
  rw [List.getElem_append_left (by simp [keyStream_length]; omega), List.getElem_append_left (by simp [keyStream_length]; omega),
    List.getElem_append_left (by rw [hl]; exact h)]

/-- two different (piece, square) pairs have different keys -/
theorem piece_keys_distinct (p a q b : Nat) (hp : p < 12) (ha : a < 64) (hq : q < 12) (hb : b < 64) (hne : ¬ (p = q ∧ a = b)) :
    pieceKey p a ≠ pieceKey q b := by
  rw [pieceKey_eq p a (by omega), pieceKey_eq q b (by omega)]
  intro h
  have := (List.getElem_inj key_tables_sound.1).1 h
  omega

/-- **a quiet move changes the key**: moving one piece from `a` to another square `b` XORs two different keys in -/
theorem quiet_move_changes_key (k : UInt64) (p a b : Nat) (hp : p < 12) (ha : a < 64) (hb : b < 64) (hab : a ≠ b) :
    k ^^^ pieceKey p a ^^^ pieceKey p b ≠ k := by
  intro h
  have h2 : pieceKey p a ^^^ pieceKey p b = 0 := by
    have := congrArg (fun x => k ^^^ x) h
    simp only [← UInt64.xor_assoc, UInt64.xor_self, UInt64.zero_xor] at this
    exact this
  have h3 : pieceKey p a = pieceKey p b := by
    have := congrArg (fun x => x ^^^ pieceKey p b) h2
    simp only [UInt64.xor_assoc, UInt64.xor_self, UInt64.xor_zero, UInt64.zero_xor] at this
    exact this
  exact piece_keys_distinct p a p b hp ha hp hb (fun h => hab h.2) h3

/-- **switching the side to move changes the key** -/
theorem side_switch_changes_key (k : UInt64) : k ^^^ SIDE_KEY ≠ k := by
  intro h
  have h2 : SIDE_KEY = 0 := by
    have := congrArg (fun x => k ^^^ x) h
    simp only [← UInt64.xor_assoc, UInt64.xor_self, UInt64.zero_xor] at this
    exact this
  have hm : SIDE_KEY ∈ allKeys := by unfold allKeys; simp
  rw [h2] at hm
  exact key_tables_sound.2.1 hm

def pieceRows : List (List Nat) := (List.range 12).map fun p => (((keyStream 768 Gen.PIECE_SEED.toUInt64).drop (p * 64)).take 64).map UInt64.toNat
def pieceCols : List (List Nat) := (List.range 64).map fun sq => pieceRows.map fun row => row.getD sq 0
def captureOk : Bool :=
  pieceRows.all fun row => row.all fun ka => (List.zip row pieceCols).all fun (kb, col) => col.all fun kv => !(Nat.beq (Nat.xor (Nat.xor ka kb) kv) 0)

theorem pieceRows_get (p : Nat) (hp : p < 12) : pieceRows[p]? = some ((((keyStream 768 Gen.PIECE_SEED.toUInt64).drop (p * 64)).take 64).map UInt64.toNat) := by
  unfold pieceRows
  rw [List.getElem?_map, List.getElem?_range hp, Option.map_some]

theorem row_get (p a : Nat) (hp : p < 12) (ha : a < 64) :
    ((((keyStream 768 Gen.PIECE_SEED.toUInt64).drop (p * 64)).take 64).map UInt64.toNat)[a]? = some (pieceKey p a).toNat := by
  have hl := keyStream_length 768 Gen.PIECE_SEED.toUInt64
  rw [List.getElem?_map, List.getElem?_take_of_lt ha, List.getElem?_drop]
  unfold pieceKey PIECE_KEYS_FLAT
  rw [Array.getD_eq_getD_getElem?, List.getElem?_toArray]
  have : p * 64 + a < (keyStream 768 Gen.PIECE_SEED.toUInt64).length := by rw [hl]; omega
  rw [List.getElem?_eq_getElem this]
  rfl

set_option maxRecDepth 10000 in
theorem capture_of_ok (h : captureOk = true) (p a b v : Nat) (hp : p < 12) (ha : a < 64) (hb : b < 64) (hv : v < 12) :
    pieceKey p a ^^^ pieceKey p b ^^^ pieceKey v b ≠ 0 := by
  unfold captureOk at h
  rw [List.all_eq_true] at h
  have hrow := h _ (List.mem_of_getElem? (pieceRows_get p hp))
  rw [List.all_eq_true] at hrow
  have hka := hrow _ (List.mem_of_getElem? (row_get p a hp ha))
  rw [List.all_eq_true] at hka
  -- the pair (key of p on b, column b)
  have hcol : pieceCols[b]? = some (pieceRows.map fun row => row.getD b 0) := by
    unfold pieceCols; rw [List.getElem?_map, List.getElem?_range hb, Option.map_some]
  have hzip : (List.zip ((((keyStream 768 Gen.PIECE_SEED.toUInt64).drop (p * 64)).take 64).map UInt64.toNat) pieceCols)[b]? =
      some ((pieceKey p b).toNat, pieceRows.map fun row => row.getD b 0) := by
    refine List.getElem?_zip_eq_some.2 ⟨?_, ?_⟩
    · show _ = some (pieceKey p b).toNat
      exact row_get p b hp hb
    · show _ = some (pieceRows.map fun row => row.getD b 0)
      exact hcol
  have hpair := hka _ (List.mem_of_getElem? hzip)
  simp only at hpair
  rw [List.all_eq_true] at hpair
  have hkv : (pieceKey v b).toNat ∈ (pieceRows.map fun row => row.getD b 0) := by
    refine List.mem_map.2 ⟨_, List.mem_of_getElem? (pieceRows_get v hv), ?_⟩
    rw [List.getD_eq_getElem?_getD, row_get v b hv hb]; rfl
  have := hpair _ hkv
  intro h0
  have hn : ((pieceKey p a ^^^ pieceKey p b ^^^ pieceKey v b).toNat) = 0 := by rw [h0]; rfl
  rw [UInt64.toNat_xor, UInt64.toNat_xor] at hn
  have hx : Nat.xor (Nat.xor (pieceKey p a).toNat (pieceKey p b).toNat) (pieceKey v b).toNat = 0 := hn
  rw [hx] at this
  simp at this

set_option maxRecDepth 100000 in
theorem capture_ok : captureOk = true := by decide +kernel

/-- **a simple capture changes the key**: a piece `p` goes from `a` to `b` and the piece `v` that stood on `b` disappears -
    the three keys involved never cancel, for all 12 x 64 x 64 x 12 combinations (kernel-decided on the key tables) -/
theorem simple_capture_changes_key (k : UInt64) (p a b v : Nat) (hp : p < 12) (ha : a < 64) (hb : b < 64) (hv : v < 12) :
    k ^^^ pieceKey p a ^^^ pieceKey p b ^^^ pieceKey v b ≠ k := by
  intro h
  have h2 : pieceKey p a ^^^ pieceKey p b ^^^ pieceKey v b = 0 := by
    have := congrArg (fun x => k ^^^ x) h
    simp only [← UInt64.xor_assoc, UInt64.xor_self, UInt64.zero_xor] at this
    exact this
  exact capture_of_ok capture_ok p a b v hp ha hb hv h2

end Jence
