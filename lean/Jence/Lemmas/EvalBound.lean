/-
  T16.4: the static evaluation stays below the mate range. Per-piece bounds are computed from the generated tables
  (so re-tuning re-checks them); kings' material cancels when each side has exactly one king.
-/
import Jence.Model.Eval
namespace Jence
open Jence

theorem popLoop_le (fuel : Nat) (b : UInt64) (acc : Nat) : popLoop fuel b acc ≤ acc + fuel := by
  induction fuel generalizing b acc with
  | zero => simp [popLoop]
  | succ n ih =>
    simp only [popLoop]
    split
    · omega
    · have := ih (blsr b) (acc + 1); omega

theorem popCount_le (b : UInt64) : popCount b ≤ 64 := by
  have := popLoop_le 64 b 0; simpa [popCount] using this

/-- a table of at most 64 integers whose entries lie in `[lo, hi]` (and `lo ≤ 0 ≤ hi` for reads past the end) -/
theorem tbl_bound (a : Array Int) (lo hi : Int) (hsz : a.size ≤ 64) (h0 : lo ≤ 0 ∧ 0 ≤ hi)
    (h : ∀ i, i < 64 → lo ≤ a.getD i 0 ∧ a.getD i 0 ≤ hi) (i : Nat) : lo ≤ tbl a i ∧ tbl a i ≤ hi := by
  unfold tbl
  by_cases hi' : i < 64
  · exact h i hi'
  · have hn : a[i]? = none := by
      rw [Array.getElem?_eq_none_iff]; omega
    have : a.getD i 0 = 0 := by simp [Array.getD_eq_getD_getElem?, hn]
    rw [this]; exact h0

set_option maxRecDepth 100000 in
theorem psq_bounds :
    (∀ i, i < 64 → -10 ≤ Gen.PAWN_SCORES.getD i 0 ∧ Gen.PAWN_SCORES.getD i 0 ≤ 90) ∧
    (∀ i, i < 64 → -10 ≤ Gen.KNIGHT_SCORES.getD i 0 ∧ Gen.KNIGHT_SCORES.getD i 0 ≤ 30) ∧
    (∀ i, i < 64 → -10 ≤ Gen.BISHOP_SCORES.getD i 0 ∧ Gen.BISHOP_SCORES.getD i 0 ≤ 30) ∧
    (∀ i, i < 64 → 0 ≤ Gen.ROOK_SCORES.getD i 0 ∧ Gen.ROOK_SCORES.getD i 0 ≤ 50) ∧
    (∀ i, i < 64 → -15 ≤ Gen.KING_SCORES.getD i 0 ∧ Gen.KING_SCORES.getD i 0 ≤ 20) ∧
    (∀ i, i < 64 → 0 ≤ Gen.PASSED_WHITE_PAWN_BONUS.getD i 0 ∧ Gen.PASSED_WHITE_PAWN_BONUS.getD i 0 ≤ 200) ∧
    (∀ i, i < 64 → 0 ≤ Gen.PASSED_BLACK_PAWN_BONUS.getD i 0 ∧ Gen.PASSED_BLACK_PAWN_BONUS.getD i 0 ≤ 200) ∧
    Gen.PAWN_SCORES.size ≤ 64 ∧ Gen.KNIGHT_SCORES.size ≤ 64 ∧ Gen.BISHOP_SCORES.size ≤ 64 ∧ Gen.ROOK_SCORES.size ≤ 64 ∧
    Gen.KING_SCORES.size ≤ 64 ∧ Gen.PASSED_WHITE_PAWN_BONUS.size ≤ 64 ∧ Gen.PASSED_BLACK_PAWN_BONUS.size ≤ 64 := by decide +kernel

/-- the scalar tuning constants, as ranges -/
theorem scalar_bounds :
    Gen.STACKED_PAWN_PENALTY = -10 ∧ Gen.ISOLATED_PAWN_PENALTY = -10 ∧ Gen.SEMI_OPEN_FILE_SCORE = 10 ∧
    Gen.OPEN_FILE_SCORE = 15 ∧ Gen.PROTECTED_KING_BONUS = 5 ∧
    Gen.MATERIAL_WEIGHTS = #[100, 300, 350, 500, 1000, 10000, -100, -300, -350, -500, -1000, -10000] := by decide

/-- the part of a piece's term that is not its material weight, bounded for every position and square -/
theorem pieceTerm_bound (g : Game) (p sq : Nat) (hp : p < 12) :
    tbl Gen.MATERIAL_WEIGHTS p - 1000 ≤ pieceTerm g p sq ∧ pieceTerm g p sq ≤ tbl Gen.MATERIAL_WEIGHTS p + 1000 := by
  obtain ⟨b1, b2, b3, b4, b5, b6, b7, s1, s2, s3, s4, s5, s6, s7⟩ := psq_bounds
  obtain ⟨c1, c2, c3, c4, c5, _⟩ := scalar_bounds
  have hpc : ∀ b : UInt64, (0 : Int) ≤ (popCount b : Int) ∧ (popCount b : Int) ≤ 64 := fun b => by have := popCount_le b; omega
  unfold pieceTerm
  simp only [c1, c2, c3, c4, c5]
  have P := fun i => tbl_bound Gen.PAWN_SCORES (-10) 90 s1 (by omega) b1 i
  have N := fun i => tbl_bound Gen.KNIGHT_SCORES (-10) 30 s2 (by omega) b2 i
  have B := fun i => tbl_bound Gen.BISHOP_SCORES (-10) 30 s3 (by omega) b3 i
  have Rk := fun i => tbl_bound Gen.ROOK_SCORES 0 50 s4 (by omega) b4 i
  have K := fun i => tbl_bound Gen.KING_SCORES (-15) 20 s5 (by omega) b5 i
  have PW := fun i => tbl_bound Gen.PASSED_WHITE_PAWN_BONUS 0 200 s6 (by omega) b6 i
  have PB := fun i => tbl_bound Gen.PASSED_BLACK_PAWN_BONUS 0 200 s7 (by omega) b7 i
  match p, hp with
  | 0, _ =>
    have h1 := P sq; have h2 := PW (Gen.LOOKUP_RANK.getD sq 0); have h3 := hpc (g.bb WP &&& FILE_MASKS.getD sq 0)
    simp only; split <;> split <;> split <;> omega
  | 1, _ => have h1 := N sq; have h3 := hpc (getKnightAttacks sq); simp only; omega
  | 2, _ => have h1 := B sq; have h3 := hpc (getBishopAttacks sq g.allOcc); simp only; omega
  | 3, _ => have h1 := Rk sq; have h3 := hpc (getRookAttacks sq g.allOcc); simp only; split <;> split <;> omega
  | 4, _ => have h3 := hpc (getQueenAttacks sq g.allOcc); simp only; omega
  | 5, _ => have h1 := K sq; have h3 := hpc (getKingAttacks sq &&& g.whiteOcc); simp only; split <;> split <;> omega
  | 6, _ =>
    have h1 := P (Gen.MIRRORED.getD sq 0); have h2 := PB (Gen.LOOKUP_RANK.getD sq 0); have h3 := hpc (g.bb BP &&& FILE_MASKS.getD sq 0)
    simp only; split <;> split <;> split <;> omega
  | 7, _ => have h1 := N (Gen.MIRRORED.getD sq 0); have h3 := hpc (getKnightAttacks sq); simp only; omega
  | 8, _ => have h1 := B (Gen.MIRRORED.getD sq 0); have h3 := hpc (getBishopAttacks sq g.allOcc); simp only; omega
  | 9, _ => have h1 := Rk (Gen.MIRRORED.getD sq 0); have h3 := hpc (getRookAttacks sq g.allOcc); simp only; split <;> split <;> omega
  | 10, _ => have h3 := hpc (getQueenAttacks sq g.allOcc); simp only; omega
  | 11, _ => have h1 := K (Gen.MIRRORED.getD sq 0); have h3 := hpc (getKingAttacks sq &&& g.blackOcc); simp only; split <;> split <;> omega

theorem foldl_bound (l : List Nat) (f : Nat → Int) (lo hi : Int) (h : ∀ x ∈ l, lo ≤ f x ∧ f x ≤ hi) (s : Int) :
    s + l.length * lo ≤ l.foldl (fun s x => s + f x) s ∧ l.foldl (fun s x => s + f x) s ≤ s + l.length * hi := by
  induction l generalizing s with
  | nil => simp
  | cons x l ih =>
    simp only [List.foldl_cons, List.length_cons]
    obtain ⟨i1, i2⟩ := ih (fun y hy => h y (List.mem_cons_of_mem _ hy)) (s + f x)
    obtain ⟨h1, h2⟩ := h x (List.mem_cons_self ..)
    have e1 : ((l.length + 1 : Nat) : Int) * lo = l.length * lo + lo := by rw [Int.natCast_add]; simp [Int.add_mul]
    have e2 : ((l.length + 1 : Nat) : Int) * hi = l.length * hi + hi := by rw [Int.natCast_add]; simp [Int.add_mul]
    rw [e1, e2]
    constructor <;> omega

/-- number of pieces of kind `p` -/
def pieceCount (g : Game) (p : Nat) : Int := ((bitsOf (g.bb p)).length : Int)

/-- what the bound needs to know about the position: one king each and at most 15 other men a side (true of every
    position reachable by legal play) -/
structure MenOk (g : Game) : Prop where
  wk : pieceCount g WK = 1
  bk : pieceCount g BK = 1
  white : pieceCount g WP + pieceCount g WN + pieceCount g WB + pieceCount g WR + pieceCount g WQ ≤ 15
  black : pieceCount g BP + pieceCount g BN + pieceCount g BB + pieceCount g BR + pieceCount g BQ ≤ 15

theorem evalWhite_bound (g : Game) (h : MenOk g) : -45500 ≤ evalWhite g ∧ evalWhite g ≤ 45500 := by
  obtain ⟨_, _, _, _, _, hw⟩ := scalar_bounds
  have step : ∀ p, p < 12 → ∀ s : Int,
      s + pieceCount g p * (tbl Gen.MATERIAL_WEIGHTS p - 1000) ≤ (bitsOf (g.bb p)).foldl (fun s sq => s + pieceTerm g p sq) s ∧
      (bitsOf (g.bb p)).foldl (fun s sq => s + pieceTerm g p sq) s ≤ s + pieceCount g p * (tbl Gen.MATERIAL_WEIGHTS p + 1000) :=
    fun p hp s => foldl_bound _ (pieceTerm g p) _ _ (fun sq _ => pieceTerm_bound g p sq hp) s
  have hnn : ∀ p, 0 ≤ pieceCount g p := fun p => by unfold pieceCount; omega
  unfold evalWhite
  have hr : List.range 12 = [0, 1, 2, 3, 4, 5, 6, 7, 8, 9, 10, 11] := by decide
  rw [hr]
  simp only [List.foldl_cons, List.foldl_nil]
  have w : ∀ i, tbl Gen.MATERIAL_WEIGHTS i = (#[100, 300, 350, 500, 1000, 10000, -100, -300, -350, -500, -1000, -10000] : Array Int).getD i 0 := by
    intro i; unfold tbl; rw [hw]
  have s0 := step 0 (by omega) 0
  generalize (bitsOf (g.bb 0)).foldl (fun s sq => s + pieceTerm g 0 sq) 0 = a0 at s0 ⊢
  have s1 := step 1 (by omega) a0
  generalize (bitsOf (g.bb 1)).foldl (fun s sq => s + pieceTerm g 1 sq) a0 = a1 at s1 ⊢
  have s2 := step 2 (by omega) a1
  generalize (bitsOf (g.bb 2)).foldl (fun s sq => s + pieceTerm g 2 sq) a1 = a2 at s2 ⊢
  have s3 := step 3 (by omega) a2
  generalize (bitsOf (g.bb 3)).foldl (fun s sq => s + pieceTerm g 3 sq) a2 = a3 at s3 ⊢
  have s4 := step 4 (by omega) a3
  generalize (bitsOf (g.bb 4)).foldl (fun s sq => s + pieceTerm g 4 sq) a3 = a4 at s4 ⊢
  have s5 := step 5 (by omega) a4
  generalize (bitsOf (g.bb 5)).foldl (fun s sq => s + pieceTerm g 5 sq) a4 = a5 at s5 ⊢
  have s6 := step 6 (by omega) a5
  generalize (bitsOf (g.bb 6)).foldl (fun s sq => s + pieceTerm g 6 sq) a5 = a6 at s6 ⊢
  have s7 := step 7 (by omega) a6
  generalize (bitsOf (g.bb 7)).foldl (fun s sq => s + pieceTerm g 7 sq) a6 = a7 at s7 ⊢
  have s8 := step 8 (by omega) a7
  generalize (bitsOf (g.bb 8)).foldl (fun s sq => s + pieceTerm g 8 sq) a7 = a8 at s8 ⊢
  have s9 := step 9 (by omega) a8
  generalize (bitsOf (g.bb 9)).foldl (fun s sq => s + pieceTerm g 9 sq) a8 = a9 at s9 ⊢
  have s10 := step 10 (by omega) a9
  generalize (bitsOf (g.bb 10)).foldl (fun s sq => s + pieceTerm g 10 sq) a9 = a10 at s10 ⊢
  have s11 := step 11 (by omega) a10
  generalize (bitsOf (g.bb 11)).foldl (fun s sq => s + pieceTerm g 11 sq) a10 = a11 at s11 ⊢
  simp only [w] at s0 s1 s2 s3 s4 s5 s6 s7 s8 s9 s10 s11
  have c0 := hnn 0; have c1 := hnn 1; have c2 := hnn 2; have c3 := hnn 3; have c4 := hnn 4
  have c6 := hnn 6; have c7 := hnn 7; have c8 := hnn 8; have c9 := hnn 9; have c10 := hnn 10
  obtain ⟨k1, k2, k3, k4⟩ := h
  simp only [WK, BK, WP, WN, WB, WR, WQ, BP, BN, BB, BR, BQ] at k1 k2 k3 k4
  simp [Array.getD] at s0 s1 s2 s3 s4 s5 s6 s7 s8 s9 s10 s11
  constructor <;> omega

/-- **T16.4** for every position with one king and at most fifteen other men a side, whoever is to move -/
theorem evaluate_bound (g : Game) (h : MenOk g) : -Gen.MATE_BOUND < evaluate g ∧ evaluate g < Gen.MATE_BOUND := by
  obtain ⟨h1, h2⟩ := evalWhite_bound g h
  have hb : (45500 : Int) < Gen.MATE_BOUND := by decide
  unfold evaluate
  split <;> constructor <;> omega

end Jence
