/-
  T16.3: the static evaluation gives the colour-mirrored position (ranks flipped, colours and mover swapped) the same
  value - for every position whose pawns stand on rows 2-7 (the engine's "passed pawn" masks differ on the back rows).
-/
import Jence.Lemmas.Flip
import Jence.Model.Eval
namespace Jence
open Jence

/-! ### Table facts (kernel-decided over all squares) -/

theorem mirrored_table : ∀ t, t < 64 → Gen.MIRRORED.getD t 0 = flipSq t := by decide +kernel

theorem material_table : ∀ p, p < 6 → tbl Gen.MATERIAL_WEIGHTS (p + 6) = - tbl Gen.MATERIAL_WEIGHTS p := by decide +kernel

theorem knight_table : ∀ t, t < 64 → popCount (getKnightAttacks (flipSq t)) = popCount (getKnightAttacks t) := by decide +kernel

theorem king_table : ∀ t, t < 64 → getKingAttacks (flipSq t) = flipBB (getKingAttacks t) := by decide +kernel

theorem file_table : ∀ t, t < 64 → FILE_MASKS.getD (flipSq t) 0 = FILE_MASKS.getD t 0 ∧ flipBB (FILE_MASKS.getD t 0) = FILE_MASKS.getD t 0 := by
  decide +kernel

theorem isolated_table : ∀ t, t < 64 →
    ISOLATED_MASKS.getD (flipSq t) 0 = ISOLATED_MASKS.getD t 0 ∧ flipBB (ISOLATED_MASKS.getD t 0) = ISOLATED_MASKS.getD t 0 := by
  decide +kernel

/-- off the back rows the white "passed" mask of the mirrored square is the mirrored black one -/
theorem passed_table_w : ∀ t, t < 64 → ∀ v, v < 56 → 8 ≤ v →
    getBit (WHITE_PASSED_PAWN_MASKS.getD (flipSq t) 0) (flipSq v) = getBit (BLACK_PASSED_PAWN_MASKS.getD t 0) v := by decide +kernel

theorem passed_table_b : ∀ t, t < 64 → ∀ v, v < 56 → 8 ≤ v →
    getBit (BLACK_PASSED_PAWN_MASKS.getD (flipSq t) 0) (flipSq v) = getBit (WHITE_PASSED_PAWN_MASKS.getD t 0) v := by decide +kernel

theorem bonus_table : ∀ t, t < 64 →
    tbl Gen.PASSED_WHITE_PAWN_BONUS (Gen.LOOKUP_RANK.getD (flipSq t) 0) = tbl Gen.PASSED_BLACK_PAWN_BONUS (Gen.LOOKUP_RANK.getD t 0) ∧
    tbl Gen.PASSED_BLACK_PAWN_BONUS (Gen.LOOKUP_RANK.getD (flipSq t) 0) = tbl Gen.PASSED_WHITE_PAWN_BONUS (Gen.LOOKUP_RANK.getD t 0) := by
  decide +kernel

/-! ### Masked counts and emptiness tests under the mirror -/

theorem popCount_and_flip (x M : UInt64) (hM : flipBB M = M) : popCount (flipBB x &&& M) = popCount (x &&& M) := by
  have : flipBB x &&& M = flipBB (x &&& M) := by rw [flipBB_and, hM]
  rw [this, popCount_flipBB]

theorem isEmpty_and_flip (x M : UInt64) (hM : flipBB M = M) : isEmpty (flipBB x &&& M) = isEmpty (x &&& M) := by
  have : flipBB x &&& M = flipBB (x &&& M) := by rw [flipBB_and, hM]
  rw [this, isEmpty_flipBB]

theorem isEmpty_iff (y : UInt64) : isEmpty y = true ↔ ∀ u, u < 64 → getBit y u = false := by
  unfold isEmpty
  constructor
  · intro h u hu; rw [eq_zero_of_beq y h]; exact getBit_zero u hu
  · intro h
    have : y = 0 := ext_getBit y 0 (fun t ht => by rw [h t ht, getBit_zero t ht])
    rw [this]; rfl

/-- a set of squares off the back rows meets a mask iff its mirror meets a mask that agrees with the mirrored one there -/
theorem isEmpty_and_passed (x M M' : UInt64) (hx : ∀ v, v < 64 → getBit x v = true → 8 ≤ v ∧ v < 56)
    (hM : ∀ v, v < 56 → 8 ≤ v → getBit M' (flipSq v) = getBit M v) : isEmpty (flipBB x &&& M') = isEmpty (x &&& M) := by
  rw [Bool.eq_iff_iff, isEmpty_iff, isEmpty_iff]
  constructor
  · intro h v hv
    rw [getBit_and _ _ _ hv]
    cases hxv : getBit x v with
    | false => rfl
    | true =>
      obtain ⟨h1, h2⟩ := hx v hv hxv
      have := h (flipSq v) (flipSq_lt v hv)
      rw [getBit_and _ _ _ (flipSq_lt v hv), getBit_flipBB _ _ (flipSq_lt v hv), flipSq_flipSq v hv, hxv, hM v h2 h1] at this
      simpa using this
  · intro h u hu
    rw [getBit_and _ _ _ hu, getBit_flipBB _ _ hu]
    cases hxv : getBit x (flipSq u) with
    | false => rfl
    | true =>
      obtain ⟨h1, h2⟩ := hx (flipSq u) (flipSq_lt u hu) hxv
      have := h (flipSq u) (flipSq_lt u hu)
      rw [getBit_and _ _ _ (flipSq_lt u hu), hxv, ← hM (flipSq u) h2 h1, flipSq_flipSq u hu] at this
      simpa using this

/-! ### The mirrored position -/

/-- `g'` is the colour mirror of `g`: ranks flipped, colours and mover swapped -/
structure IsMirror (g g' : Game) : Prop where
  bb : ∀ p, p < 12 → g'.bb p = flipBB (g.bb ((p + 6) % 12))
  wocc : g'.whiteOcc = flipBB g.blackOcc
  bocc : g'.blackOcc = flipBB g.whiteOcc
  aocc : g'.allOcc = flipBB g.allOcc
  side : g'.white = !g.white

/-- pawns stand on rows 2-7 -/
def PawnRows (g : Game) : Prop := ∀ v, v < 64 → (getBit (g.bb WP) v = true ∨ getBit (g.bb BP) v = true) → 8 ≤ v ∧ v < 56

/-! ### The term of one piece, unfolded -/

def pawnT (sq : Nat) (own enemy passedMask : UInt64) (bonus : Array Int) : Int :=
  (if popCount (own &&& FILE_MASKS.getD sq 0) > 1 then (popCount (own &&& FILE_MASKS.getD sq 0) : Int) * Gen.STACKED_PAWN_PENALTY else 0) +
  (if isEmpty (own &&& ISOLATED_MASKS.getD sq 0) then Gen.ISOLATED_PAWN_PENALTY else 0) +
  (if isEmpty (enemy &&& passedMask) then tbl bonus (Gen.LOOKUP_RANK.getD sq 0) else 0)

def fileT (g : Game) (sq : Nat) (own : UInt64) : Int :=
  (if isEmpty (own &&& FILE_MASKS.getD sq 0) then Gen.SEMI_OPEN_FILE_SCORE else 0) +
  (if isEmpty ((g.bb WP ||| g.bb BP) &&& FILE_MASKS.getD sq 0) then Gen.OPEN_FILE_SCORE else 0)

theorem pieceTerm_0 (g : Game) (sq : Nat) : pieceTerm g 0 sq = tbl Gen.MATERIAL_WEIGHTS 0 + tbl Gen.PAWN_SCORES sq +
    pawnT sq (g.bb WP) (g.bb BP) (WHITE_PASSED_PAWN_MASKS.getD sq 0) Gen.PASSED_WHITE_PAWN_BONUS := rfl
theorem pieceTerm_1 (g : Game) (sq : Nat) : pieceTerm g 1 sq = tbl Gen.MATERIAL_WEIGHTS 1 + tbl Gen.KNIGHT_SCORES sq +
    (popCount (getKnightAttacks sq) : Int) := rfl
theorem pieceTerm_2 (g : Game) (sq : Nat) : pieceTerm g 2 sq = tbl Gen.MATERIAL_WEIGHTS 2 + tbl Gen.BISHOP_SCORES sq +
    (popCount (getBishopAttacks sq g.allOcc) : Int) := rfl
theorem pieceTerm_3 (g : Game) (sq : Nat) : pieceTerm g 3 sq = tbl Gen.MATERIAL_WEIGHTS 3 + tbl Gen.ROOK_SCORES sq +
    fileT g sq (g.bb WP) + (popCount (getRookAttacks sq g.allOcc) : Int) := rfl
theorem pieceTerm_4 (g : Game) (sq : Nat) : pieceTerm g 4 sq = tbl Gen.MATERIAL_WEIGHTS 4 +
    (popCount (getQueenAttacks sq g.allOcc) : Int) := rfl
theorem pieceTerm_5 (g : Game) (sq : Nat) : pieceTerm g 5 sq = tbl Gen.MATERIAL_WEIGHTS 5 + tbl Gen.KING_SCORES sq -
    fileT g sq (g.bb WP) + (popCount (getKingAttacks sq &&& g.whiteOcc) : Int) * Gen.PROTECTED_KING_BONUS := rfl
theorem pieceTerm_6 (g : Game) (sq : Nat) : pieceTerm g 6 sq = tbl Gen.MATERIAL_WEIGHTS 6 - tbl Gen.PAWN_SCORES (Gen.MIRRORED.getD sq 0) -
    pawnT sq (g.bb BP) (g.bb WP) (BLACK_PASSED_PAWN_MASKS.getD sq 0) Gen.PASSED_BLACK_PAWN_BONUS := rfl
theorem pieceTerm_7 (g : Game) (sq : Nat) : pieceTerm g 7 sq = tbl Gen.MATERIAL_WEIGHTS 7 - tbl Gen.KNIGHT_SCORES (Gen.MIRRORED.getD sq 0) -
    (popCount (getKnightAttacks sq) : Int) := rfl
theorem pieceTerm_8 (g : Game) (sq : Nat) : pieceTerm g 8 sq = tbl Gen.MATERIAL_WEIGHTS 8 - tbl Gen.BISHOP_SCORES (Gen.MIRRORED.getD sq 0) -
    (popCount (getBishopAttacks sq g.allOcc) : Int) := rfl
theorem pieceTerm_9 (g : Game) (sq : Nat) : pieceTerm g 9 sq = tbl Gen.MATERIAL_WEIGHTS 9 - tbl Gen.ROOK_SCORES (Gen.MIRRORED.getD sq 0) -
    fileT g sq (g.bb BP) - (popCount (getRookAttacks sq g.allOcc) : Int) := rfl
theorem pieceTerm_10 (g : Game) (sq : Nat) : pieceTerm g 10 sq = tbl Gen.MATERIAL_WEIGHTS 10 -
    (popCount (getQueenAttacks sq g.allOcc) : Int) := by
  unfold pieceTerm
  simp only []
theorem pieceTerm_11 (g : Game) (sq : Nat) : pieceTerm g 11 sq = tbl Gen.MATERIAL_WEIGHTS 11 - tbl Gen.KING_SCORES (Gen.MIRRORED.getD sq 0) +
    fileT g sq (g.bb BP) - (popCount (getKingAttacks sq &&& g.blackOcc) : Int) * Gen.PROTECTED_KING_BONUS := rfl

/-! ### Pawn and file terms under the mirror -/

theorem pawnT_mirror (t : Nat) (ht : t < 64) (own enemy M M' : UInt64) (bonus bonus' : Array Int)
    (henemy : ∀ v, v < 64 → getBit enemy v = true → 8 ≤ v ∧ v < 56)
    (hM : ∀ v, v < 56 → 8 ≤ v → getBit M' (flipSq v) = getBit M v)
    (hb : tbl bonus' (Gen.LOOKUP_RANK.getD (flipSq t) 0) = tbl bonus (Gen.LOOKUP_RANK.getD t 0)) :
    pawnT (flipSq t) (flipBB own) (flipBB enemy) M' bonus' = pawnT t own enemy M bonus := by
  obtain ⟨f1, f2⟩ := file_table t ht
  obtain ⟨i1, i2⟩ := isolated_table t ht
  unfold pawnT
  rw [f1, i1, hb, popCount_and_flip _ _ f2, isEmpty_and_flip _ _ i2, isEmpty_and_passed enemy M M' henemy hM]

theorem fileT_mirror (g g' : Game) (t : Nat) (ht : t < 64) (own : UInt64)
    (hp : g'.bb WP ||| g'.bb BP = flipBB (g.bb WP ||| g.bb BP)) :
    fileT g' (flipSq t) (flipBB own) = fileT g t own := by
  obtain ⟨f1, f2⟩ := file_table t ht
  unfold fileT
  rw [f1, hp, isEmpty_and_flip _ _ f2, isEmpty_and_flip _ _ f2]

/-! ### One piece and its mirror image -/

section piece
variable {g g' : Game}

theorem mirror_pawns (hm : IsMirror g g') : g'.bb WP ||| g'.bb BP = flipBB (g.bb WP ||| g.bb BP) := by
  have hWP : g'.bb WP = flipBB (g.bb BP) := hm.bb 0 (by decide)
  have hBP : g'.bb BP = flipBB (g.bb WP) := hm.bb 6 (by decide)
  rw [hWP, hBP, flipBB_or, UInt64.or_comm]

/-- the piece `q` of `g` on `t` and the piece of the other colour of `g'` on the mirrored square contribute opposite terms -/
theorem pieceTerm_mirror (hm : IsMirror g g') (hp : PawnRows g) (q t : Nat) (hq : q < 12) (ht : t < 64) :
    pieceTerm g' ((q + 6) % 12) (flipSq t) = - pieceTerm g q t := by
  have hWP : g'.bb WP = flipBB (g.bb BP) := hm.bb 0 (by decide)
  have hBP : g'.bb BP = flipBB (g.bb WP) := hm.bb 6 (by decide)
  have hft := flipSq_lt t ht
  have hmir := mirrored_table t ht
  have hmir' : Gen.MIRRORED.getD (flipSq t) 0 = t := by rw [mirrored_table _ hft, flipSq_flipSq t ht]
  have hpw := mirror_pawns hm
  obtain ⟨b1, b2⟩ := bonus_table t ht
  match q, hq with
  | 0, _ =>
    show pieceTerm g' 6 (flipSq t) = - pieceTerm g 0 t
    rw [pieceTerm_6, pieceTerm_0, hmir', hWP, hBP,
      pawnT_mirror t ht (g.bb WP) (g.bb BP) _ _ _ _ (fun v hv hb => hp v hv (Or.inr hb)) (passed_table_b t ht) b2]
    have : tbl Gen.MATERIAL_WEIGHTS 6 = - tbl Gen.MATERIAL_WEIGHTS 0 := material_table 0 (by decide)
    omega
  | 1, _ =>
    show pieceTerm g' 7 (flipSq t) = - pieceTerm g 1 t
    rw [pieceTerm_7, pieceTerm_1, hmir', knight_table t ht]
    have : tbl Gen.MATERIAL_WEIGHTS 7 = - tbl Gen.MATERIAL_WEIGHTS 1 := material_table 1 (by decide)
    omega
  | 2, _ =>
    show pieceTerm g' 8 (flipSq t) = - pieceTerm g 2 t
    rw [pieceTerm_8, pieceTerm_2, hmir', hm.aocc, bishopAttacks_flip t ht, popCount_flipBB]
    have : tbl Gen.MATERIAL_WEIGHTS 8 = - tbl Gen.MATERIAL_WEIGHTS 2 := material_table 2 (by decide)
    omega
  | 3, _ =>
    show pieceTerm g' 9 (flipSq t) = - pieceTerm g 3 t
    rw [pieceTerm_9, pieceTerm_3, hmir', hm.aocc, rookAttacks_flip t ht, popCount_flipBB, hBP, fileT_mirror g g' t ht _ hpw]
    have : tbl Gen.MATERIAL_WEIGHTS 9 = - tbl Gen.MATERIAL_WEIGHTS 3 := material_table 3 (by decide)
    omega
  | 4, _ =>
    show pieceTerm g' 10 (flipSq t) = - pieceTerm g 4 t
    rw [pieceTerm_10, pieceTerm_4, hm.aocc, queenAttacks_flip t ht, popCount_flipBB]
    have : tbl Gen.MATERIAL_WEIGHTS 10 = - tbl Gen.MATERIAL_WEIGHTS 4 := material_table 4 (by decide)
    omega
  | 5, _ =>
    show pieceTerm g' 11 (flipSq t) = - pieceTerm g 5 t
    rw [pieceTerm_11, pieceTerm_5, hmir', hBP, fileT_mirror g g' t ht _ hpw, hm.bocc, king_table t ht, ← flipBB_and, popCount_flipBB]
    have : tbl Gen.MATERIAL_WEIGHTS 11 = - tbl Gen.MATERIAL_WEIGHTS 5 := material_table 5 (by decide)
    omega
  | 6, _ =>
    show pieceTerm g' 0 (flipSq t) = - pieceTerm g 6 t
    rw [pieceTerm_0, pieceTerm_6, hmir, hWP, hBP,
      pawnT_mirror t ht (g.bb BP) (g.bb WP) _ _ _ _ (fun v hv hb => hp v hv (Or.inl hb)) (passed_table_w t ht) b1]
    have : tbl Gen.MATERIAL_WEIGHTS 6 = - tbl Gen.MATERIAL_WEIGHTS 0 := material_table 0 (by decide)
    omega
  | 7, _ =>
    show pieceTerm g' 1 (flipSq t) = - pieceTerm g 7 t
    rw [pieceTerm_1, pieceTerm_7, hmir, knight_table t ht]
    have : tbl Gen.MATERIAL_WEIGHTS 7 = - tbl Gen.MATERIAL_WEIGHTS 1 := material_table 1 (by decide)
    omega
  | 8, _ =>
    show pieceTerm g' 2 (flipSq t) = - pieceTerm g 8 t
    rw [pieceTerm_2, pieceTerm_8, hmir, hm.aocc, bishopAttacks_flip t ht, popCount_flipBB]
    have : tbl Gen.MATERIAL_WEIGHTS 8 = - tbl Gen.MATERIAL_WEIGHTS 2 := material_table 2 (by decide)
    omega
  | 9, _ =>
    show pieceTerm g' 3 (flipSq t) = - pieceTerm g 9 t
    rw [pieceTerm_3, pieceTerm_9, hmir, hm.aocc, rookAttacks_flip t ht, popCount_flipBB, hWP, fileT_mirror g g' t ht _ hpw]
    have : tbl Gen.MATERIAL_WEIGHTS 9 = - tbl Gen.MATERIAL_WEIGHTS 3 := material_table 3 (by decide)
    omega
  | 10, _ =>
    show pieceTerm g' 4 (flipSq t) = - pieceTerm g 10 t
    rw [pieceTerm_4, pieceTerm_10, hm.aocc, queenAttacks_flip t ht, popCount_flipBB]
    have : tbl Gen.MATERIAL_WEIGHTS 10 = - tbl Gen.MATERIAL_WEIGHTS 4 := material_table 4 (by decide)
    omega
  | 11, _ =>
    show pieceTerm g' 5 (flipSq t) = - pieceTerm g 11 t
    rw [pieceTerm_5, pieceTerm_11, hmir, hWP, fileT_mirror g g' t ht _ hpw, hm.wocc, king_table t ht, ← flipBB_and, popCount_flipBB]
    have : tbl Gen.MATERIAL_WEIGHTS 11 = - tbl Gen.MATERIAL_WEIGHTS 5 := material_table 5 (by decide)
    omega

end piece

/-! ### The sum over all pieces -/

theorem fold_init (l : List Nat) (F : Nat → Int) (init : Int) :
    l.foldl (fun s x => s + F x) init = init + l.foldl (fun s x => s + F x) 0 := by
  induction l generalizing init with
  | nil => simp
  | cons x l ih => simp only [List.foldl_cons]; rw [ih (init + F x), ih (0 + F x)]; omega

theorem fold_congr (l : List Nat) (F G : Nat → Int) (h : ∀ x ∈ l, F x = G x) (init : Int) :
    l.foldl (fun s x => s + F x) init = l.foldl (fun s x => s + G x) init := by
  induction l generalizing init with
  | nil => rfl
  | cons x l ih =>
    simp only [List.foldl_cons]
    rw [h x (List.mem_cons_self ..), ih (fun y hy => h y (List.mem_cons_of_mem _ hy))]

theorem fold_neg (l : List Nat) (F : Nat → Int) : l.foldl (fun s x => s + -(F x)) 0 = - l.foldl (fun s x => s + F x) 0 := by
  induction l with
  | nil => rfl
  | cons x l ih =>
    simp only [List.foldl_cons]
    rw [fold_init l _ (0 + -(F x)), fold_init l _ (0 + F x), ih]; omega

/-- the contribution of all pieces of one kind -/
def kindSum (g : Game) (p : Nat) : Int := (bitsOf (g.bb p)).foldl (fun s sq => s + pieceTerm g p sq) 0

theorem evalWhite_eq (g : Game) : evalWhite g = ((List.range 12).map (kindSum g)).sum := by
  unfold evalWhite
  have gen : ∀ (l : List Nat) (init : Int),
      l.foldl (fun s p => (bitsOf (g.bb p)).foldl (fun s sq => s + pieceTerm g p sq) s) init = init + (l.map (kindSum g)).sum := by
    intro l
    induction l with
    | nil => intro init; simp
    | cons p l ih =>
      intro init
      simp only [List.foldl_cons, List.map_cons, List.sum_cons]
      rw [ih, fold_init]
      unfold kindSum; omega
  rw [gen]; omega

theorem sum12 (f : Nat → Int) : ((List.range 12).map f).sum =
    f 0 + f 1 + f 2 + f 3 + f 4 + f 5 + f 6 + f 7 + f 8 + f 9 + f 10 + f 11 := by
  have : List.range 12 = [0, 1, 2, 3, 4, 5, 6, 7, 8, 9, 10, 11] := by decide
  rw [this]
  simp only [List.map_cons, List.map_nil, List.sum_cons, List.sum_nil]
  omega

theorem kindSum_mirror {g g' : Game} (hm : IsMirror g g') (hp : PawnRows g) (q : Nat) (hq : q < 12) :
    kindSum g' ((q + 6) % 12) = - kindSum g q := by
  unfold kindSum
  have hlt : (q + 6) % 12 < 12 := Nat.mod_lt _ (by decide)
  have hback : ((q + 6) % 12 + 6) % 12 = q := by omega
  rw [hm.bb _ hlt, hback, fold_flipBB]
  rw [fold_congr _ _ (fun sq => -(pieceTerm g q sq)) (fun sq hsq => pieceTerm_mirror hm hp q sq hq ((mem_bitsOf _ _).1 hsq).1)]
  exact fold_neg _ _

/-- white's point of view changes sign -/
theorem evalWhite_mirror {g g' : Game} (hm : IsMirror g g') (hp : PawnRows g) : evalWhite g' = - evalWhite g := by
  rw [evalWhite_eq, evalWhite_eq, sum12, sum12]
  have h0 := kindSum_mirror hm hp 0 (by decide)
  have h1 := kindSum_mirror hm hp 1 (by decide)
  have h2 := kindSum_mirror hm hp 2 (by decide)
  have h3 := kindSum_mirror hm hp 3 (by decide)
  have h4 := kindSum_mirror hm hp 4 (by decide)
  have h5 := kindSum_mirror hm hp 5 (by decide)
  have h6 := kindSum_mirror hm hp 6 (by decide)
  have h7 := kindSum_mirror hm hp 7 (by decide)
  have h8 := kindSum_mirror hm hp 8 (by decide)
  have h9 := kindSum_mirror hm hp 9 (by decide)
  have h10 := kindSum_mirror hm hp 10 (by decide)
  have h11 := kindSum_mirror hm hp 11 (by decide)
  simp only [Nat.reduceAdd, Nat.reduceMod] at h0 h1 h2 h3 h4 h5 h6 h7 h8 h9 h10 h11
  omega

/-- **T16.3** the colour-mirrored position has the same static evaluation -/
theorem evaluate_mirror {g g' : Game} (hm : IsMirror g g') (hp : PawnRows g) : evaluate g' = evaluate g := by
  unfold evaluate
  rw [hm.side, evalWhite_mirror hm hp]
  cases g.white <;> simp

/-- the colour mirror of a position, built: every piece set flipped and handed to the other colour, occupancies swapped,
    mover swapped (the fields the evaluation does not read are kept) -/
def mirror (g : Game) : Game :=
  { g with bbs := (Array.range 12).map fun p => flipBB (g.bb ((p + 6) % 12)),
           whiteOcc := flipBB g.blackOcc, blackOcc := flipBB g.whiteOcc, allOcc := flipBB g.allOcc, white := !g.white }

theorem mirror_isMirror (g : Game) : IsMirror g (mirror g) := by
  refine ⟨fun p hp => ?_, rfl, rfl, rfl, rfl⟩
  unfold mirror Game.bb
  simp [Array.getD_eq_getD_getElem?, hp]

end Jence
