/-
  T19.2: at nominal depths 1 and 2 (no null move, no late-move reduction can apply) and with the transposition table
  bypassed, `negamax` returns a sound alpha-beta answer for the plain minimax value `nVal`: one ply of extension per
  position in check, quiescence at the horizon, static evaluation at the ply cap, mate by distance, stalemate 0, and 0
  for a position of the game history.
-/
import Jence.Lemmas.QValue
import Jence.Lemmas.SearchFrame
import Jence.Lemmas.Sort
import Jence.Lemmas.PvHead
namespace Jence
open Jence

/-- the best child value (`max` of `−V child` over the moves that can be made), if there is a child -/
def maxChild (R : Rules) (V : Game → Int) (g : Game) : List Move → Option Int
  | [] => none
  | m :: ms =>
    match R.make g m with
    | none => maxChild R V g ms
    | some c => some (match maxChild R V g ms with | none => -(V c) | some v => max (-(V c)) v)

theorem bestOf_maxChild (R : Rules) (V : Game → Int) (g : Game) (ms : List Move) (init : Int) :
    bestOf R V g ms init = (match maxChild R V g ms with | none => init | some M => max init M) := by
  induction ms generalizing init with
  | nil => rfl
  | cons m ms ih =>
    cases hmk : R.make g m with
    | none => rw [bestOf_cons_none R V g m ms init hmk, ih]; simp only [maxChild, hmk]
    | some c =>
      rw [bestOf_cons_some R V g m ms init c hmk, ih]
      simp only [maxChild, hmk]
      cases maxChild R V g ms with
      | none => rfl
      | some v => simp only [Int.max_assoc]

theorem maxChild_perm (R : Rules) (V : Game → Int) (g : Game) (l₁ l₂ : List Move) (h : l₁.Perm l₂) :
    maxChild R V g l₁ = maxChild R V g l₂ := by
  have key : ∀ init, (match maxChild R V g l₁ with | none => init | some M => max init M) =
      (match maxChild R V g l₂ with | none => init | some M => max init M) := by
    intro init; rw [← bestOf_maxChild, ← bestOf_maxChild]; exact bestOf_perm R V g l₁ l₂ h init
  cases h1 : maxChild R V g l₁ with
  | none =>
    cases h2 : maxChild R V g l₂ with
    | none => rfl
    | some M2 => have := key (M2 - 1); rw [h1, h2] at this; simp only at this; omega
  | some M1 =>
    cases h2 : maxChild R V g l₂ with
    | none => have := key (M1 - 1); rw [h1, h2] at this; simp only at this; omega
    | some M2 =>
      have a := key (min M1 M2 - 1); rw [h1, h2] at a; simp only at a
      congr 1; omega

/-- how many of the moves can be made -/
def madeCount (R : Rules) (g : Game) : List Move → Nat
  | [] => 0
  | m :: ms => (if (R.make g m).isSome then 1 else 0) + madeCount R g ms

theorem maxChild_none_iff (R : Rules) (V : Game → Int) (g : Game) (ms : List Move) : maxChild R V g ms = none ↔ madeCount R g ms = 0 := by
  induction ms with
  | nil => simp [maxChild, madeCount]
  | cons m ms ih =>
    cases hmk : R.make g m with
    | none => simp only [maxChild, madeCount, hmk, Option.isSome_none, Bool.false_eq_true, if_false, Nat.zero_add]; exact ih
    | some c => simp [maxChild, madeCount, hmk]

/-- the plain minimax value the main search computes at shallow depth -/
def nVal (R : Rules) (H : List UInt64) : Nat → Game → Nat → Nat → Int
  | 0, _, _, _ => 0
  | fuel + 1, g, depth, ply =>
    if ply > 0 && H.contains g.key then 0
    else if ply ≥ Gen.MAX_PLY - 1 then R.evaluate g
    else if depth == 0 || g.halfMoves == 100 then qVal R qFuel g ply
    else
      let nDepth := if R.inCheck g then depth + 1 else depth
      match maxChild R (fun c => nVal R H fuel c (nDepth - 1) (ply + 1)) g (R.generate g true) with
      | none => if R.inCheck g then -Gen.MATE_VALUE + ply else 0
      | some M => M

/-- nothing went wrong on the way: the history array did not overflow and no stop was seen -/
def Clean (e : Env) : Prop := e.rep.overflow = false ∧ e.stopping = false

theorem Frame.clean_back {a b : Env} (h : Frame a b) (hb : Clean b) : Clean a := by
  have ho : a.rep.overflow = false := by
    cases ha : a.rep.overflow
    · rfl
    · have := hb.1; rw [h.1 ha] at this; exact absurd this (by simp)
  refine ⟨ho, ?_⟩
  cases hs : a.stopping
  · rfl
  · have h1 := (h.2 hb.1).stopMono hs; have h2 := hb.2; rw [h1] at h2; exact absurd h2 (by simp)

theorem sound_neg {s V a b : Int} (h : Sound s V a b) : Sound (-s) (-V) (-b) (-a) :=
  ⟨fun h1 => by have := h.2.1 (by omega); omega, fun h1 => by have := h.1 (by omega); omega,
   fun h1 h2 => by have := h.2.2 (by omega) (by omega); omega⟩

/-- what the recursive call is known to do: a sound answer for the child's value, when nothing went wrong -/
def RecVal (rec : Game → Nat → Int → Int → Env → Int × Env) (V : Game → Nat → Int) (H : List UInt64) (p : Nat) : Prop :=
  ∀ c d a b e, d ≤ 2 → a < b → e.ply = p + 1 → e.rep.pre = H → Clean (rec c d a b e).2 → Sound (rec c d a b e).1 (V c d) a b

theorem rec_env {rec : Game → Nat → Int → Int → Env → Int × Env} (hrec : RecFrame rec) (c : Game) (d : Nat) (a b : Int) (e : Env)
    (hc : Clean (rec c d a b e).2) : (rec c d a b e).2.ply = e.ply ∧ (rec c d a b e).2.rep.pre = e.rep.pre ∧ Clean e :=
  ⟨((hrec c d a b e).2 hc.1).ply, ((hrec c d a b e).2 hc.1).repPre, (hrec c d a b e).clean_back hc⟩

/-- the PVS cascade without reductions: a sound answer for `−V child` in the parent's window -/
theorem searchChild_value {rec : Game → Nat → Int → Int → Env → Int × Env} (hrec : RecFrame rec) (V : Game → Nat → Int)
    (H : List UInt64) (p : Nat) (hval : RecVal rec V H p)
    (c : Game) (m : Move) (searched depth nDepth : Nat) (inCheck : Bool) (ta beta : Int) (e : Env)
    (hd : depth < Gen.REDUCTION_LIMIT) (hnd : nDepth - 1 ≤ 2) (hab : ta < beta) (hp : e.ply = p + 1) (hH : e.rep.pre = H)
    (hc : Clean (searchChild rec c m searched depth nDepth inCheck ta beta e).2) :
    Sound (searchChild rec c m searched depth nDepth inCheck ta beta e).1 (-(V c (nDepth - 1))) ta beta := by
  unfold searchChild at hc ⊢
  by_cases h0 : (searched == 0) = true
  · rw [if_pos h0] at hc ⊢
    simp only at hc ⊢
    have := sound_neg (hval c (nDepth - 1) (-beta) (-ta) e hnd (by omega) hp hH hc)
    simpa using this
  · rw [if_neg h0] at hc ⊢
    have hlmr : ¬ ((decide (searched ≥ Gen.FULL_DEPTH_MOVES) && decide (depth ≥ Gen.REDUCTION_LIMIT) && !inCheck && !m.isCapture && m.promotion == PNONE) = true) := by
      simp only [Bool.and_eq_true, decide_eq_true_eq]
      intro h; omega
    simp only [if_neg hlmr] at hc ⊢
    have h1 : ta + 1 > ta := by omega
    rw [if_pos h1] at hc ⊢
    by_cases hin : (-(rec c (nDepth - 1) (-ta - 1) (-ta) e).1 > ta ∧ -(rec c (nDepth - 1) (-ta - 1) (-ta) e).1 < beta)
    · have hcond : (decide (-(rec c (nDepth - 1) (-ta - 1) (-ta) e).1 > ta) && decide (-(rec c (nDepth - 1) (-ta - 1) (-ta) e).1 < beta)) = true := by
        simp only [Bool.and_eq_true, decide_eq_true_eq]; exact hin
      rw [if_pos hcond] at hc ⊢
      simp only at hc ⊢
      obtain ⟨e1, e2, e3⟩ := rec_env hrec c (nDepth - 1) (-beta) (-ta) _ hc
      have := sound_neg (hval c (nDepth - 1) (-beta) (-ta) _ hnd (by omega)
        (by rw [(rec_env hrec c (nDepth - 1) (-ta - 1) (-ta) e e3).1]; exact hp)
        (by rw [(rec_env hrec c (nDepth - 1) (-ta - 1) (-ta) e e3).2.1]; exact hH) hc)
      simpa using this
    · have hcond : ¬ ((decide (-(rec c (nDepth - 1) (-ta - 1) (-ta) e).1 > ta) && decide (-(rec c (nDepth - 1) (-ta - 1) (-ta) e).1 < beta)) = true) := by
        simp only [Bool.and_eq_true, decide_eq_true_eq]; exact hin
      rw [if_neg hcond] at hc ⊢
      simp only at hc ⊢
      have hs := hval c (nDepth - 1) (-ta - 1) (-ta) e hnd (by omega) hp hH hc
      generalize (rec c (nDepth - 1) (-ta - 1) (-ta) e).1 = s at hin hs ⊢
      obtain ⟨lo, hi, _⟩ := hs
      refine ⟨fun h => ?_, fun h => ?_, fun h1' h2' => absurd ⟨h1', h2'⟩ hin⟩
      · have := hi (by omega); omega
      · have := lo (by omega); omega

theorem ttRecord_ply' (cfg : Cfg) (e : Env) (k : UInt64) (s : Int) (d : Nat) (f : Flag) : (e.ttRecord cfg k s d f).ply = e.ply := by
  unfold Env.ttRecord
  simp only
  rw [ev_ply]
  split <;> rfl

theorem insertPv_env (cfg : Cfg) (e : Env) (m : Move) : (e.insertPv cfg m).ply = e.ply ∧ (e.insertPv cfg m).rep = e.rep := by
  unfold Env.insertPv
  simp only
  refine ⟨?_, ?_⟩
  · show (Env.ev cfg _ _ _).ply = _; rw [ev_ply]; split <;> rfl
  · show (Env.ev cfg _ _ _).rep = _; rw [ev_rep]; split <;> rfl

/-- the move loop without reductions: its outcome against the children's values -/
theorem moveLoop_value {R : Rules} (cfg : Cfg) {rec : Game → Nat → Int → Int → Env → Int × Env} (hrec : RecFrame rec)
    (V : Game → Nat → Int) (H : List UInt64) (p : Nat) (hval : RecVal rec V H p)
    (g : Game) (depth nDepth : Nat) (inCheck : Bool) (beta : Int) (hd : depth < Gen.REDUCTION_LIMIT) (hnd : nDepth - 1 ≤ 2) :
    ∀ (ms : List Move) (ta : Int) (flag : Flag) (legal searched : Nat) (e : Env), ta < beta → e.ply = p → e.rep.pre = H →
      Clean (moveLoop R cfg rec g depth nDepth inCheck beta ms ta flag legal searched e).2 →
      (moveLoop R cfg rec g depth nDepth inCheck beta ms ta flag legal searched e).2.ply = p ∧
      (moveLoop R cfg rec g depth nDepth inCheck beta ms ta flag legal searched e).2.rep.pre = H ∧
      (match (moveLoop R cfg rec g depth nDepth inCheck beta ms ta flag legal searched e).1 with
       | .done ta' _ legal' => ta' = bestOf R (fun c => V c (nDepth - 1)) g ms ta ∧ ta' < beta ∧ legal' = legal + madeCount R g ms
       | .ret v => v = beta ∧ bestOf R (fun c => V c (nDepth - 1)) g ms ta ≥ beta) := by
  intro ms
  induction ms with
  | nil =>
    intro ta flag legal searched e hlt hp hH _
    simp only [moveLoop, bestOf_nil, madeCount]
    exact ⟨hp, hH, trivial, hlt, by omega⟩
  | cons m ms ih =>
    intro ta flag legal searched e hlt hp hH hc
    simp only [moveLoop] at hc ⊢
    cases hmk : R.make g m with
    | none =>
      simp only [hmk] at hc ⊢
      rw [bestOf_cons_none R _ g m ms ta hmk]
      have := ih ta flag legal searched e hlt hp hH hc
      simp only [madeCount, hmk, Option.isSome_none, Bool.false_eq_true, if_false, Nat.zero_add]
      exact this
    | some c =>
      simp only [hmk] at hc ⊢
      rw [bestOf_cons_some R _ g m ms ta c hmk]
      have hmc : madeCount R g (m :: ms) = 1 + madeCount R g ms := by simp [madeCount, hmk]
      rw [hmc]
      have hsc := searchChild_frame rec hrec c m searched depth nDepth inCheck ta beta
        { e with ply := e.ply + 1, rep := (e.rep.insert c.key).moveBack }
      have hsv := searchChild_value hrec V H p hval c m searched depth nDepth inCheck ta beta
        { e with ply := e.ply + 1, rep := (e.rep.insert c.key).moveBack } hd hnd hlt (by show e.ply + 1 = p + 1; omega)
      generalize searchChild rec c m searched depth nDepth inCheck ta beta
        { e with ply := e.ply + 1, rep := (e.rep.insert c.key).moveBack } = r at hsc hsv hc ⊢
      obtain ⟨score, e2⟩ := r
      simp only at hc hsv ⊢
      have h3 : Frame e { e2 with ply := e2.ply - 1 } := Frame.down_up e _ e2 (insert_moveBack e.rep c.key) hsc
      have hst : ({ e2 with ply := e2.ply - 1 } : Env).stopping = e2.stopping := rfl
      have hrep3 : ({ e2 with ply := e2.ply - 1 } : Env).rep = e2.rep := rfl
      -- once the state after the child is known to be clean, the child's answer is sound and the environment is restored
      have after : Clean ({ e2 with ply := e2.ply - 1 } : Env) →
          ({ e2 with ply := e2.ply - 1 } : Env).ply = p ∧ ({ e2 with ply := e2.ply - 1 } : Env).rep.pre = H ∧
          Sound score (-(V c (nDepth - 1))) ta beta := by
        intro hc3
        have hc2 : Clean e2 := ⟨hc3.1, hc3.2⟩
        have ho1 : ({ e with ply := e.ply + 1, rep := (e.rep.insert c.key).moveBack } : Env).rep.overflow = false :=
          (hsc.clean_back hc2).1
        have hpre1 : ({ e with ply := e.ply + 1, rep := (e.rep.insert c.key).moveBack } : Env).rep.pre = H := by
          show ((e.rep.insert c.key).moveBack).pre = H
          rw [((insert_moveBack e.rep c.key).2 ho1).2.1]; exact hH
        refine ⟨by rw [(h3.2 hc3.1).ply]; exact hp, by rw [(h3.2 hc3.1).repPre]; exact hH, hsv hpre1 hc2⟩
      generalize ({ e2 with ply := e2.ply - 1 } : Env) = e3 at h3 hst hrep3 after hc ⊢
      by_cases hstop : e2.stopping = true
      · rw [if_pos hstop] at hc
        simp only at hc
        have := hc.2; rw [hst, hstop] at this; exact absurd this (by simp)
      · have hrun : e3.stopping = false := by rw [hst]; simpa using hstop
        rw [if_neg hstop] at hc ⊢
        by_cases hsc2 : score > ta
        · rw [if_pos hsc2] at hc ⊢
          obtain ⟨ipl, irep⟩ := insertPv_env cfg e3 m
          have hpvf := insertPv_frame cfg e3 m hrun
          by_cases hb : score ≥ beta
          · rw [if_pos hb] at hc ⊢
            simp only at hc ⊢
            -- cut-off
            have hc3 : Clean e3 := by
              refine ⟨?_, hrun⟩
              have := hc.1
              rw [ttRecord_rep] at this
              rw [← irep]
              revert this; split <;> (intro h; exact h)
            obtain ⟨a1, a2, a3⟩ := after hc3
            refine ⟨?_, ?_, trivial, ?_⟩
            · rw [ttRecord_ply']; split
              · show (e3.insertPv cfg m).ply = p; rw [ipl]; exact a1
              · rw [ipl]; exact a1
            · rw [ttRecord_rep]; split
              · show (e3.insertPv cfg m).rep.pre = H; rw [irep]; exact a2
              · rw [irep]; exact a2
            · have hx := a3.2.1 hb
              have hge := bestOf_ge R (fun c => V c (nDepth - 1)) g ms (max ta (-(V c (nDepth - 1))))
              omega
          · rw [if_neg hb] at hc ⊢
            have hlt2 : score < beta := by omega
            have cont : ∀ e5 : Env, e5.ply = (e3.insertPv cfg m).ply → e5.rep = (e3.insertPv cfg m).rep → e5.stopping = false →
                Clean (moveLoop R cfg rec g depth nDepth inCheck beta ms score Flag.exact (legal + 1) (searched + 1) e5).2 →
                (moveLoop R cfg rec g depth nDepth inCheck beta ms score Flag.exact (legal + 1) (searched + 1) e5).2.ply = p ∧
                (moveLoop R cfg rec g depth nDepth inCheck beta ms score Flag.exact (legal + 1) (searched + 1) e5).2.rep.pre = H ∧
                (match (moveLoop R cfg rec g depth nDepth inCheck beta ms score Flag.exact (legal + 1) (searched + 1) e5).1 with
                 | .done ta' _ legal' => ta' = bestOf R (fun c => V c (nDepth - 1)) g ms (max ta (-(V c (nDepth - 1)))) ∧ ta' < beta ∧
                     legal' = legal + (1 + madeCount R g ms)
                 | .ret v => v = beta ∧ bestOf R (fun c => V c (nDepth - 1)) g ms (max ta (-(V c (nDepth - 1)))) ≥ beta) := by
              intro e5 h5ply h5rep h5run hc5
              have hf := (moveLoop_frame R cfg rec hrec g depth nDepth inCheck beta ms score Flag.exact (legal + 1) (searched + 1) e5 (fun _ => h5run)).1
              have hc5' := hf.clean_back hc5
              have hc3 : Clean e3 := ⟨by rw [← irep, ← h5rep]; exact hc5'.1, hrun⟩
              obtain ⟨a1, a2, a3⟩ := after hc3
              have hx := a3.2.2 hsc2 hlt2
              have hmax : max ta (-(V c (nDepth - 1))) = score := by omega
              rw [hmax]
              obtain ⟨k1, k2, k3⟩ := ih score Flag.exact (legal + 1) (searched + 1) e5 hlt2 (by rw [h5ply, ipl]; exact a1)
                (by rw [h5rep, irep]; exact a2) hc5
              refine ⟨k1, k2, ?_⟩
              revert k3
              cases (moveLoop R cfg rec g depth nDepth inCheck beta ms score Flag.exact (legal + 1) (searched + 1) e5).1 with
              | ret v => intro k3; exact k3
              | done t f l => intro k3; exact ⟨k3.1, k3.2.1, by rw [k3.2.2]; omega⟩
            revert hc
            split
            · intro hc
              exact cont _ rfl rfl (by show (e3.insertPv cfg m).stopping = false; exact hpvf.2) hc
            · intro hc
              exact cont _ rfl rfl hpvf.2 hc
        · rw [if_neg hsc2] at hc ⊢
          have hf := (moveLoop_frame R cfg rec hrec g depth nDepth inCheck beta ms ta flag (legal + 1) (searched + 1) e3 (fun _ => hrun)).1
          have hc3 := hf.clean_back hc
          obtain ⟨a1, a2, a3⟩ := after hc3
          have hx := a3.1 (by omega)
          have hmax : max ta (-(V c (nDepth - 1))) = ta := by omega
          rw [hmax]
          obtain ⟨k1, k2, k3⟩ := ih ta flag (legal + 1) (searched + 1) e3 hlt a1 a2 hc
          refine ⟨k1, k2, ?_⟩
          revert k3
          cases (moveLoop R cfg rec g depth nDepth inCheck beta ms ta flag (legal + 1) (searched + 1) e3).1 with
          | ret v => intro k3; exact k3
          | done t f l => intro k3; exact ⟨k3.1, k3.2.1, by rw [k3.2.2]; omega⟩

theorem onNode_rep (cfg : Cfg) (e : Env) (k : Nat) (g : Game) (d : Nat) (a b : Int) : (e.onNode cfg k g d a b).rep = e.rep := by
  unfold Env.onNode; split; · rfl
  exact ev_rep ..

theorem poll_rep (cfg : Cfg) (e : Env) : (e.poll cfg).rep = e.rep := by
  unfold Env.poll
  by_cases hs : e.stopping = true
  · simp [hs]
  · have hrun : e.stopping = false := by simpa using hs
    simp only [hrun, Bool.false_eq_true, ↓reduceIte]
    split
    · simp [Env.ev]; (try split) <;> (try split) <;> simp
    · split
      · simp [Env.ev]; (try split) <;> (try split) <;> simp
      · split <;> (simp [Env.ev, Env.print] <;> (try split) <;> (try split) <;> simp)

theorem maybePoll_rep (cfg : Cfg) (e : Env) : (e.maybePoll cfg).rep = e.rep := by
  unfold Env.maybePoll; dsimp only
  split <;> (split <;> first | exact poll_rep cfg e | rfl)

theorem nullMoveStep_off (R : Rules) (rec : Game → Nat → Int → Int → Env → Int × Env) (g : Game) (nDepth : Nat) (inCheck : Bool)
    (beta : Int) (e : Env) (h : ¬ (nDepth ≥ 3 ∧ inCheck = false)) : nullMoveStep R rec g nDepth inCheck beta e = (none, e) := by
  unfold nullMoveStep
  have : ¬ ((decide (nDepth ≥ 3) && !inCheck && decide (e.ply > 0)) = true) := by
    simp only [Bool.and_eq_true, decide_eq_true_eq, Bool.not_eq_true']
    intro hh; exact h ⟨hh.1.1, hh.1.2⟩
  rw [if_neg this]

/-- the value of a node from the outcome of its move loop -/
theorem node_sound (alpha beta M : Int) (hab : alpha < beta) (ta : Int) (h1 : ta = max alpha M) (h2 : ta < beta) : Sound ta M alpha beta :=
  ⟨fun h => by omega, fun h => by omega, fun h3 h4 => by omega⟩

theorem node_sound_cut (alpha beta M : Int) (hab : alpha < beta) (h : max alpha M ≥ beta) : Sound beta M alpha beta :=
  ⟨fun h' => by omega, fun _ => by omega, fun _ h4 => by omega⟩

/-- **the shallow main search is a sound alpha-beta answer for the minimax value** -/
theorem negamax_value (R : Rules) (cfg : Cfg) (hbyp : cfg.ttBypass = true) (H : List UInt64) :
    ∀ (fuel : Nat) (g : Game) (depth : Nat) (alpha beta : Int) (e : Env), depth ≤ 2 → alpha < beta → e.ply ≤ 63 →
      e.ply + fuel ≥ Gen.MAX_PLY → e.rep.pre = H → Clean (negamax R cfg fuel g depth alpha beta e).2 →
      Sound (negamax R cfg fuel g depth alpha beta e).1 (nVal R H fuel g depth e.ply) alpha beta := by
  have hMP : Gen.MAX_PLY = 64 := rfl
  intro fuel
  induction fuel with
  | zero => intro g depth alpha beta e _ _ h1 h2 _ _; omega
  | succ fuel ih =>
    intro g depth alpha beta e hd hab hply hfuel hH hc
    simp only [negamax] at hc ⊢
    unfold nVal
    have h1ply := onNode_ply cfg e 1 g depth alpha beta
    have h1rep := onNode_rep cfg e 1 g depth alpha beta
    have h1f := onNode_frame cfg e 1 g depth alpha beta
    generalize e.onNode cfg 1 g depth alpha beta = e1 at h1ply h1rep h1f hc ⊢
    have hrepeq : e1.rep.isRepetition g.key = H.contains g.key := by
      unfold RepTable.isRepetition; rw [h1rep, hH]
    have hcond : (decide (e1.ply > 0) && e1.rep.isRepetition g.key) = (decide (e.ply > 0) && H.contains g.key) := by
      rw [h1ply, hrepeq]
    by_cases hrp : (decide (e.ply > 0) && H.contains g.key) = true
    · -- a position of the history: draw
      rw [if_pos (by rw [hcond]; exact hrp), if_pos hrp]
      unfold repReturn
      exact sound_self _ _ _
    · rw [if_neg (by rw [hcond]; exact hrp), if_neg hrp] at *
      have hprobe : probeNode cfg g depth alpha beta e1 = Gen.UNKNOWN_SCORE := by
        unfold probeNode Env.ttProbe; rw [hbyp]; simp
      have hnp : ¬ ((probeNode cfg g depth alpha beta e1 != Gen.UNKNOWN_SCORE) = true) := by rw [hprobe]; simp
      rw [if_neg hnp] at hc ⊢
      unfold afterProbe at hc ⊢
      simp only at hc ⊢
      have h2ply : ({ e1 with pvLen := e1.pvLen.setIfInBounds e1.ply e1.ply } : Env).ply = e.ply := h1ply
      have h2rep : ({ e1 with pvLen := e1.pvLen.setIfInBounds e1.ply e1.ply } : Env).rep = e.rep := h1rep
      generalize ({ e1 with pvLen := e1.pvLen.setIfInBounds e1.ply e1.ply } : Env) = e2 at h2ply h2rep hc ⊢
      by_cases hcap : e.ply ≥ Gen.MAX_PLY - 1
      · rw [if_pos (by rw [h1ply]; exact hcap), if_pos hcap]
        exact sound_self _ _ _
      · rw [if_neg (by rw [h1ply]; exact hcap), if_neg hcap] at *
        have h3ply : (e2.maybePoll cfg).ply = e.ply := by rw [maybePoll_ply, h2ply]
        have h3rep : (e2.maybePoll cfg).rep = e.rep := by rw [maybePoll_rep, h2rep]
        generalize e2.maybePoll cfg = e3 at h3ply h3rep hc ⊢
        by_cases hq : (depth == 0 || g.halfMoves == 100) = true
        · rw [if_pos hq, if_pos hq]
          have := (quiescence_value R cfg qFuel g alpha beta e3 hab (by rw [h3ply]; omega) (by rw [h3ply]; unfold qFuel; omega)).1
          rw [h3ply] at this; exact this
        · rw [if_neg hq, if_neg hq] at *
          -- a node that is expanded: no null move at these depths
          unfold expand at hc ⊢
          simp only at hc ⊢
          have h4ply : ({ e3 with nodes := e3.nodes + 1 } : Env).ply = e.ply := h3ply
          have h4rep : ({ e3 with nodes := e3.nodes + 1 } : Env).rep = e.rep := h3rep
          generalize ({ e3 with nodes := e3.nodes + 1 } : Env) = e4 at h4ply h4rep hc ⊢
          generalize hnd : (if R.inCheck g = true then depth + 1 else depth) = nDepth at hc ⊢
          have hoff : ¬ (nDepth ≥ 3 ∧ R.inCheck g = false) := by
            rintro ⟨h1, h2⟩; rw [← hnd, h2] at h1; simp at h1; omega
          rw [nullMoveStep_off R _ g nDepth (R.inCheck g) beta e4 hoff] at hc ⊢
          simp only at hc ⊢
          unfold searchMoves at hc ⊢
          simp only at hc ⊢
          generalize hE5 : (if e4.followPv = true then enablePvScoring (R.generate g true) e4 else e4 : Env) = e5 at hc ⊢
          have h5 : e5.ply = e.ply ∧ e5.rep = e.rep := by
            rw [← hE5]; split
            · exact ⟨h4ply, h4rep⟩
            · exact ⟨h4ply, h4rep⟩
          have hsame := sortMoves_same g (R.generate g true) e5
          have hperm := sortMoves_perm g (R.generate g true) e5
          generalize sortMoves g (R.generate g true) e5 = sm at hsame hperm hc ⊢
          have h6ply : sm.2.ply = e.ply := by rw [hsame]; exact h5.1
          have h6rep : sm.2.rep.pre = H := by rw [hsame]; show e5.rep.pre = H; rw [h5.2]; exact hH
          -- the recursive calls
          have hval : RecVal (negamax R cfg fuel) (fun c d => nVal R H fuel c d (e.ply + 1)) H e.ply := by
            intro c d a b e' hd' hab' hp' hH' hc'
            have := ih c d a b e' hd' hab' (by omega) (by omega) hH' hc'
            rw [hp'] at this; exact this
          have hndle : nDepth - 1 ≤ 2 := by rw [← hnd]; split <;> omega
          have hloopF := moveLoop_frame R cfg (negamax R cfg fuel) (negamax_frame R cfg fuel) g depth nDepth (R.inCheck g) beta sm.1 alpha
            Flag.alpha 0 0 sm.2 (fun h => absurd h (by omega))
          have hloop := moveLoop_value (R := R) cfg (negamax_frame R cfg fuel) (fun c d => nVal R H fuel c d (e.ply + 1)) H e.ply hval g depth nDepth
            (R.inCheck g) beta (by show depth < 3; omega) hndle sm.1 alpha Flag.alpha 0 0 sm.2 hab h6ply h6rep
          generalize moveLoop R cfg (negamax R cfg fuel) g depth nDepth (R.inCheck g) beta sm.1 alpha Flag.alpha 0 0 sm.2 = lo at hloopF hloop hc ⊢
          obtain ⟨out, e7⟩ := lo
          have hfin := finish_frame cfg g depth (R.inCheck g) out e7 (fun lg h1' h2' => hloopF.2 lg h1' h2')
          have hc7 : Clean e7 := hfin.clean_back hc
          obtain ⟨_, _, k3⟩ := hloop hc7
          -- values over the sorted list = values over the generated list
          have hbo : bestOf R (fun c => nVal R H fuel c (nDepth - 1) (e.ply + 1)) g sm.1 alpha =
              bestOf R (fun c => nVal R H fuel c (nDepth - 1) (e.ply + 1)) g (R.generate g true) alpha :=
            bestOf_perm R _ g _ _ hperm alpha
          have hmc : maxChild R (fun c => nVal R H fuel c (nDepth - 1) (e.ply + 1)) g sm.1 =
              maxChild R (fun c => nVal R H fuel c (nDepth - 1) (e.ply + 1)) g (R.generate g true) := maxChild_perm R _ g _ _ hperm
          have hbm := bestOf_maxChild R (fun c => nVal R H fuel c (nDepth - 1) (e.ply + 1)) g (R.generate g true) alpha
          have hnone := maxChild_none_iff R (fun c => nVal R H fuel c (nDepth - 1) (e.ply + 1)) g sm.1
          rw [hmc] at hnone
          cases out with
          | ret v =>
            simp only [finish] at hc ⊢
            simp only at k3
            obtain ⟨hv, hge⟩ := k3
            rw [hbo, hbm] at hge
            rw [hv]
            cases hm : maxChild R (fun c => nVal R H fuel c (nDepth - 1) (e.ply + 1)) g (R.generate g true) with
            | none => rw [hm] at hge; simp only at hge; omega
            | some M => rw [hm] at hge; simp only at hge ⊢; exact node_sound_cut alpha beta M hab hge
          | done ta flag legal =>
            simp only at k3
            obtain ⟨hta, hlt, hlegal⟩ := k3
            rw [hbo, hbm] at hta
            simp only [finish]
            cases hm : maxChild R (fun c => nVal R H fuel c (nDepth - 1) (e.ply + 1)) g (R.generate g true) with
            | none =>
              have h0 := hnone.1 hm
              have hl0 : (legal == 0) = true := by rw [hlegal, h0]; rfl
              rw [if_pos hl0]
              simp only
              rw [ev_ply]
              have h7ply : e7.ply = e.ply := (hloop hc7).1
              rw [h7ply]
              exact sound_self _ _ _
            | some M =>
              have hne : madeCount R g sm.1 ≠ 0 := fun h => by rw [hnone.2 h] at hm; exact absurd hm (by simp)
              have hl0 : ¬ ((legal == 0) = true) := by rw [hlegal]; simp; exact hne
              rw [if_neg hl0]
              simp only
              rw [hm] at hta; simp only at hta
              exact node_sound alpha beta M hab ta hta hlt

end Jence
