/-
  T12.2: the principal variation the search prints is a legal line. Row `p` of the triangular PV table, after a node at
  ply `p` returned a value strictly inside its window, is a sequence of moves each generated in, and accepted from, the
  position reached by its predecessors.
-/
import Jence.Lemmas.Top
import Jence.Lemmas.Sort
import Jence.Lemmas.QValue
namespace Jence
open Jence

/-- a line of moves, each generated in and made from the position its predecessors lead to -/
def LegalLine (R : Rules) : Game → List Move → Prop
  | _, [] => True
  | g, m :: ms => m ∈ R.generate g true ∧ ∃ g', R.make g m = some g' ∧ LegalLine R g' ms

/-- row `p` of the PV table: columns `p .. pvLen[p] - 1` -/
def pvRow (e : Env) (p : Nat) : List Move := (List.range (e.pvLen.getD p 0 - p)).map fun i => e.pvAt p (p + i)

structure PvWf (e : Env) : Prop where
  pvSize : e.pv.size = 4096
  lenSize : e.pvLen.size = 64
  lenLe : ∀ q, e.pvLen.getD q 0 ≤ 64

/-- rows below `p` (and their lengths) are untouched -/
def RowLocal (e e' : Env) (p : Nat) : Prop :=
  (∀ i, i < p * 64 → e'.pv.getD i Move.null = e.pv.getD i Move.null) ∧ (∀ q, q < p → e'.pvLen.getD q 0 = e.pvLen.getD q 0)

theorem RowLocal.refl (e : Env) (p : Nat) : RowLocal e e p := ⟨fun _ _ => rfl, fun _ _ => rfl⟩

theorem RowLocal.trans {a b c : Env} {p : Nat} (h1 : RowLocal a b p) (h2 : RowLocal b c p) : RowLocal a c p :=
  ⟨fun i hi => (h2.1 i hi).trans (h1.1 i hi), fun q hq => (h2.2 q hq).trans (h1.2 q hq)⟩

theorem RowLocal.mono {a b : Env} {p q : Nat} (h : RowLocal a b p) (hq : q ≤ p) : RowLocal a b q :=
  ⟨fun i hi => h.1 i (by have : q * 64 ≤ p * 64 := Nat.mul_le_mul_right 64 hq; omega), fun r hr => h.2 r (by omega)⟩

theorem RowLocal.of_eq {a b : Env} (p : Nat) (h1 : b.pv = a.pv) (h2 : b.pvLen = a.pvLen) : RowLocal a b p :=
  ⟨fun _ _ => by rw [h1], fun _ _ => by rw [h2]⟩

theorem pvRow_local {e e' : Env} {p r : Nat} (h : RowLocal e e' p) (hr : r < p) (hle : e.pvLen.getD r 0 ≤ 64) : pvRow e' r = pvRow e r := by
  unfold pvRow
  rw [h.2 r hr]
  apply List.map_congr_left
  intro i hi
  rw [List.mem_range] at hi
  unfold Env.pvAt
  apply h.1
  have : (r + 1) * 64 ≤ p * 64 := Nat.mul_le_mul_right 64 (by omega)
  omega

/-! ### the copy loop of `insert_pv_node` -/

theorem getD_set_eq {α : Type} (a : Array α) (i : Nat) (v d : α) (h : i < a.size) : (a.setIfInBounds i v).getD i d = v := by
  simp [Array.getD_eq_getD_getElem?, Array.getElem?_setIfInBounds, h]

theorem getD_set_ne {α : Type} (a : Array α) (i j : Nat) (v d : α) (h : i ≠ j) : (a.setIfInBounds i v).getD j d = a.getD j d := by
  simp [Array.getD_eq_getD_getElem?, Array.getElem?_setIfInBounds, h]

/-- the fold copies `pv[j + 64]` to `pv[j]` for the columns in `l`, and touches nothing else -/
theorem pvFold_copy (p : Nat) (hp : p ≤ 62) : ∀ (l : List Nat) (pv : Array Move), pv.size = 4096 → (∀ i ∈ l, p + 1 + i < 64) →
    ((l.foldl (fun pv i => let c := p + 1 + i; pv.setIfInBounds (p * 64 + c) (pv.getD ((p + 1) * 64 + c) Move.null)) pv).size = 4096) ∧
    ∀ j, (l.foldl (fun pv i => let c := p + 1 + i; pv.setIfInBounds (p * 64 + c) (pv.getD ((p + 1) * 64 + c) Move.null)) pv).getD j Move.null =
      if (∃ i ∈ l, j = p * 64 + (p + 1 + i)) then pv.getD (j + 64) Move.null else pv.getD j Move.null := by
  intro l
  induction l with
  | nil => intro pv hsz _; exact ⟨hsz, fun j => by simp⟩
  | cons i l ih =>
    intro pv hsz hl
    simp only [List.foldl_cons]
    have hi := hl i List.mem_cons_self
    have hsz' : (pv.setIfInBounds (p * 64 + (p + 1 + i)) (pv.getD ((p + 1) * 64 + (p + 1 + i)) Move.null)).size = 4096 := by
      rw [Array.size_setIfInBounds]; exact hsz
    obtain ⟨s1, s2⟩ := ih _ hsz' (fun k hk => hl k (List.mem_cons_of_mem _ hk))
    refine ⟨s1, fun j => ?_⟩
    rw [s2 j]
    have hrow : ∀ k ∈ l, p * 64 + (p + 1 + k) < (p + 1) * 64 := fun k hk => by have := hl k (List.mem_cons_of_mem _ hk); omega
    by_cases hex : ∃ k ∈ l, j = p * 64 + (p + 1 + k)
    · rw [if_pos hex, if_pos (by obtain ⟨k, hk, hj⟩ := hex; exact ⟨k, List.mem_cons_of_mem _ hk, hj⟩)]
      obtain ⟨k, hk, hj⟩ := hex
      have := hrow k hk
      exact getD_set_ne _ _ _ _ _ (by omega)
    · rw [if_neg hex]
      by_cases hji : j = p * 64 + (p + 1 + i)
      · rw [if_pos ⟨i, List.mem_cons_self, hji⟩, hji, getD_set_eq _ _ _ _ (by omega)]
        congr 1; omega
      · rw [if_neg (by rintro ⟨k, hk, hj⟩; rcases List.mem_cons.1 hk with rfl | hk'; exact hji hj; exact hex ⟨k, hk', hj⟩)]
        exact getD_set_ne _ _ _ _ _ (fun h => hji h.symm)

theorem pvInsert_spec (pv : Array Move) (pvLen : Array Nat) (p : Nat) (m : Move) (hsz : pv.size = 4096) (hlsz : pvLen.size = 64)
    (hp : p ≤ 62) (hn1 : p + 1 ≤ pvLen.getD (p + 1) 0) (hn2 : pvLen.getD (p + 1) 0 ≤ 64) :
    (Env.pvInsert pv pvLen p m).1.size = 4096 ∧ (Env.pvInsert pv pvLen p m).2.size = 64 ∧
    (Env.pvInsert pv pvLen p m).2.getD p 0 = pvLen.getD (p + 1) 0 ∧
    (∀ q, q ≠ p → (Env.pvInsert pv pvLen p m).2.getD q 0 = pvLen.getD q 0) ∧
    (Env.pvInsert pv pvLen p m).1.getD (p * 64 + p) Move.null = m ∧
    (∀ c, p + 1 ≤ c → c < pvLen.getD (p + 1) 0 →
      (Env.pvInsert pv pvLen p m).1.getD (p * 64 + c) Move.null = pv.getD ((p + 1) * 64 + c) Move.null) ∧
    (∀ j, (j < p * 64 ∨ (p + 1) * 64 ≤ j) → (Env.pvInsert pv pvLen p m).1.getD j Move.null = pv.getD j Move.null) := by
  unfold Env.pvInsert
  simp only
  generalize hn : pvLen.getD (p + 1) 0 = n at hn1 hn2 ⊢
  have hsz0 : (pv.setIfInBounds (p * 64 + p) m).size = 4096 := by rw [Array.size_setIfInBounds]; exact hsz
  have hl : ∀ i ∈ List.range (n - (p + 1)), p + 1 + i < 64 := fun i hi => by rw [List.mem_range] at hi; omega
  obtain ⟨f1, f2⟩ := pvFold_copy p hp (List.range (n - (p + 1))) (pv.setIfInBounds (p * 64 + p) m) hsz0 hl
  refine ⟨f1, by rw [Array.size_setIfInBounds]; exact hlsz, getD_set_eq _ _ _ _ (by omega), fun q hq => getD_set_ne _ _ _ _ _ (fun h => hq h.symm), ?_, ?_, ?_⟩
  · rw [f2]
    rw [if_neg (by rintro ⟨i, _, h⟩; omega)]
    exact getD_set_eq _ _ _ _ (by omega)
  · intro c hc1 hc2
    rw [f2]
    rw [if_pos ⟨c - (p + 1), by rw [List.mem_range]; omega, by omega⟩]
    rw [getD_set_ne _ _ _ _ _ (by omega)]
    congr 1; omega
  · intro j hj
    rw [f2]
    rw [if_neg (by rintro ⟨i, hi, h⟩; rw [List.mem_range] at hi; omega)]
    exact getD_set_ne _ _ _ _ _ (by omega)

theorem ev_pvLen (cfg : Cfg) (e : Env) (w : List UInt64) (l : Unit → String) : (e.ev cfg w l).pvLen = e.pvLen := by
  unfold Env.ev; split
  · rfl
  · split <;> rfl

/-! ### what leaves the PV table alone (row lengths; the entries: `Lemmas/PvHead`) -/

theorem onNode_pvLen (cfg : Cfg) (e : Env) (k : Nat) (g : Game) (d : Nat) (a b : Int) : (e.onNode cfg k g d a b).pvLen = e.pvLen := by
  unfold Env.onNode; split; · rfl
  exact ev_pvLen ..

theorem poll_pvLen (cfg : Cfg) (e : Env) : (e.poll cfg).pvLen = e.pvLen := by
  unfold Env.poll
  split; · rfl
  simp only
  split
  · simp [Env.ev]; (try split) <;> (try split) <;> simp
  · split
    · simp [Env.ev]; (try split) <;> (try split) <;> simp
    · split <;> (simp [Env.ev, Env.print] <;> (try split) <;> (try split) <;> simp)

theorem maybePoll_pvLen (cfg : Cfg) (e : Env) : (e.maybePoll cfg).pvLen = e.pvLen := by
  unfold Env.maybePoll
  dsimp only
  split <;> (split <;> first | exact poll_pvLen cfg e | rfl)

theorem scoreMove_pvLen (g : Game) (m : Move) (e : Env) : (scoreMove g m e).2.pvLen = e.pvLen := by
  unfold scoreMove
  split; · rfl
  split; · rfl
  split; · rfl
  split <;> rfl

theorem scoreAll_pvLen (g : Game) (ms : List Move) (e : Env) (acc : Array (Int × Move)) : (scoreAll g ms e acc).2.pvLen = e.pvLen := by
  induction ms generalizing e acc with
  | nil => rfl
  | cons m ms ih => simp only [scoreAll]; rw [ih, scoreMove_pvLen]

theorem sortMoves_pvLen (g : Game) (ms : List Move) (e : Env) : (sortMoves g ms e).2.pvLen = e.pvLen := scoreAll_pvLen g ms e #[]

theorem ttRecord_pvLen (cfg : Cfg) (e : Env) (k : UInt64) (s : Int) (d : Nat) (f : Flag) : (e.ttRecord cfg k s d f).pvLen = e.pvLen := by
  unfold Env.ttRecord
  simp only
  rw [ev_pvLen]
  split <;> rfl

theorem qLoop_pvLen (R : Rules) (rec : Game → Int → Int → Env → Int × Env) (hrec : ∀ c a b e, (rec c a b e).2.pvLen = e.pvLen)
    (g : Game) (beta : Int) : ∀ (ms : List Move) (ta : Int) (e : Env), (qLoop R rec g beta ms ta e).2.pvLen = e.pvLen := by
  intro ms
  induction ms with
  | nil => intro ta e; rfl
  | cons m ms ih =>
    intro ta e
    simp only [qLoop]
    cases R.make g m with
    | none => exact ih ta e
    | some c =>
      simp only
      have hf := hrec c (-beta) (-ta) { e with rep := e.rep.insert c.key, ply := e.ply + 1 }
      generalize rec c (-beta) (-ta) { e with rep := e.rep.insert c.key, ply := e.ply + 1 } = r at hf
      obtain ⟨s, e2⟩ := r
      simp only at hf ⊢
      split
      · exact hf
      · rw [ih]; exact hf

theorem qEnter_pvLen (cfg : Cfg) (g : Game) (alpha beta : Int) (e : Env) : (qEnter cfg g alpha beta e).pvLen = e.pvLen := by
  unfold qEnter; simp only; rw [maybePoll_pvLen, onNode_pvLen]

theorem quiescence_pvLen (R : Rules) (cfg : Cfg) : ∀ fuel g a b e, (quiescence R cfg fuel g a b e).2.pvLen = e.pvLen := by
  intro fuel
  induction fuel with
  | zero => intro g a b e; rfl
  | succ fuel ih =>
    intro g alpha beta e
    simp only [quiescence]
    have h1 := qEnter_pvLen cfg g alpha beta e
    generalize qEnter cfg g alpha beta e = e3 at h1 ⊢
    split
    · exact h1
    · split
      · exact h1
      · rw [qLoop_pvLen R _ (ih) g beta, sortMoves_pvLen]; exact h1


theorem insertPv_fields (cfg : Cfg) (e : Env) (m : Move) :
    (e.insertPv cfg m).pv = (Env.pvInsert e.pv e.pvLen e.ply m).1 ∧ (e.insertPv cfg m).pvLen = (Env.pvInsert e.pv e.pvLen e.ply m).2 ∧
    (e.insertPv cfg m).ply = e.ply ∧ (e.insertPv cfg m).stopping = e.stopping ∧ (e.insertPv cfg m).rep = e.rep := by
  unfold Env.insertPv
  simp only
  generalize hE : (if e.stopping = true then { e with postStopWrites := e.postStopWrites + 1 } else e : Env) = e0
  have h0 : e0.pv = e.pv ∧ e0.pvLen = e.pvLen ∧ e0.ply = e.ply ∧ e0.stopping = e.stopping ∧ e0.rep = e.rep := by
    rw [← hE]; split <;> exact ⟨rfl, rfl, rfl, rfl, rfl⟩
  obtain ⟨a1, a2, a3, a4, a5⟩ := h0
  have h1 : ∀ w l, (e0.ev cfg w l).pv = e.pv ∧ (e0.ev cfg w l).pvLen = e.pvLen ∧ (e0.ev cfg w l).ply = e.ply ∧
      (e0.ev cfg w l).stopping = e.stopping ∧ (e0.ev cfg w l).rep = e.rep := fun w l =>
    ⟨by rw [ev_pv, a1], by rw [ev_pvLen, a2], by rw [ev_ply, a3], by rw [ev_stopping, a4], by rw [ev_rep, a5]⟩
  obtain ⟨b1, b2, b3, b4, b5⟩ := h1 [7, e0.ply.toUInt64, m.data.toUInt64] (fun _ => s!"pv {e0.ply} {m.hex}")
  generalize e0.ev cfg [7, e0.ply.toUInt64, m.data.toUInt64] (fun _ => s!"pv {e0.ply} {m.hex}") = e1 at b1 b2 b3 b4 b5
  exact ⟨by rw [b1, b2, b3], by rw [b1, b2, b3], b3, b4, b5⟩

/-- inserting `m` at ply `p` over a child row of proper length: row `p` becomes `m` followed by the child's row -/
theorem insertPv_row (cfg : Cfg) (e : Env) (m : Move) (wf : PvWf e) (hp : e.ply ≤ 62) (hn1 : e.ply + 1 ≤ e.pvLen.getD (e.ply + 1) 0) :
    pvRow (e.insertPv cfg m) e.ply = m :: pvRow e (e.ply + 1) ∧ e.ply ≤ (e.insertPv cfg m).pvLen.getD e.ply 0 ∧
    RowLocal e (e.insertPv cfg m) e.ply ∧ PvWf (e.insertPv cfg m) := by
  obtain ⟨fpv, flen, _, _, _⟩ := insertPv_fields cfg e m
  obtain ⟨s1, s2, s3, s4, s5, s6, s7⟩ := pvInsert_spec e.pv e.pvLen e.ply m wf.pvSize wf.lenSize hp hn1 (wf.lenLe _)
  generalize hn : e.pvLen.getD (e.ply + 1) 0 = n at hn1 s3 s6
  have hn2 : n ≤ 64 := by rw [← hn]; exact wf.lenLe _
  refine ⟨?_, by rw [flen, s3]; omega, ⟨fun i hi => by rw [fpv]; exact s7 i (Or.inl hi), fun q hq => by rw [flen]; exact s4 q (by omega)⟩, ?_⟩
  · unfold pvRow
    rw [flen, s3, hn]
    have hlen : n - e.ply = (n - (e.ply + 1)) + 1 := by omega
    rw [hlen, List.range_succ_eq_map, List.map_cons, List.map_map]
    congr 1
    · unfold Env.pvAt; rw [fpv]; exact s5
    · apply List.map_congr_left
      intro i hi
      rw [List.mem_range] at hi
      simp only [Function.comp]
      unfold Env.pvAt
      rw [fpv, show e.ply + (i + 1) = e.ply + 1 + i by omega, s6 (e.ply + 1 + i) (by omega) (by omega)]
  · refine ⟨by rw [fpv]; exact s1, by rw [flen]; exact s2, fun q => ?_⟩
    rw [flen]
    by_cases hq : q = e.ply
    · rw [hq, s3]; exact hn2
    · rw [s4 q hq]; exact wf.lenLe q

/-- `insert_pv_node` only writes row `p` (whatever the child's row length is) -/
theorem insertPv_local (cfg : Cfg) (e : Env) (m : Move) (wf : PvWf e) (hp : e.ply ≤ 62) :
    RowLocal e (e.insertPv cfg m) e.ply ∧ PvWf (e.insertPv cfg m) := by
  obtain ⟨fpv, flen, _, _, _⟩ := insertPv_fields cfg e m
  have hn2 := wf.lenLe (e.ply + 1)
  have hsz0 : (e.pv.setIfInBounds (e.ply * 64 + e.ply) m).size = 4096 := by rw [Array.size_setIfInBounds]; exact wf.pvSize
  have hl : ∀ i ∈ List.range (e.pvLen.getD (e.ply + 1) 0 - (e.ply + 1)), e.ply + 1 + i < 64 := fun i hi => by rw [List.mem_range] at hi; omega
  obtain ⟨f1, f2⟩ := pvFold_copy e.ply hp (List.range (e.pvLen.getD (e.ply + 1) 0 - (e.ply + 1))) (e.pv.setIfInBounds (e.ply * 64 + e.ply) m) hsz0 hl
  have hpv : (e.insertPv cfg m).pv = (List.range (e.pvLen.getD (e.ply + 1) 0 - (e.ply + 1))).foldl
      (fun pv i => let c := e.ply + 1 + i; pv.setIfInBounds (e.ply * 64 + c) (pv.getD ((e.ply + 1) * 64 + c) Move.null))
      (e.pv.setIfInBounds (e.ply * 64 + e.ply) m) := by rw [fpv]; rfl
  have hlen : (e.insertPv cfg m).pvLen = e.pvLen.setIfInBounds e.ply (e.pvLen.getD (e.ply + 1) 0) := by rw [flen]; rfl
  refine ⟨⟨fun i hi => ?_, fun q hq => ?_⟩, ⟨by rw [hpv]; exact f1, by rw [hlen, Array.size_setIfInBounds]; exact wf.lenSize, fun q => ?_⟩⟩
  · rw [hpv, f2 i, if_neg (by rintro ⟨k, _, h⟩; omega)]
    exact getD_set_ne _ _ _ _ _ (by omega)
  · rw [hlen]; exact getD_set_ne _ _ _ _ _ (by omega)
  · rw [hlen]
    by_cases hq : q = e.ply
    · rw [hq, getD_set_eq _ _ _ _ (by rw [wf.lenSize]; omega)]; exact hn2
    · rw [getD_set_ne _ _ _ _ _ (fun h => hq h.symm)]; exact wf.lenLe q

/-! ### the invariant -/

/-- row `p` is a legal line from `g` (and its length field is sane) -/
def RowOk (R : Rules) (g : Game) (e : Env) (p : Nat) : Prop := p ≤ e.pvLen.getD p 0 ∧ LegalLine R g (pvRow e p)

theorem RowOk.of_same {R : Rules} {g : Game} {e e' : Env} {p : Nat} (h1 : e'.pv = e.pv) (h2 : e'.pvLen = e.pvLen)
    (h : RowOk R g e p) : RowOk R g e' p := by
  unfold RowOk pvRow Env.pvAt at *; rw [h1, h2]; exact h

theorem RowOk.of_local {R : Rules} {g : Game} {e e' : Env} {p : Nat} (hl : RowLocal e e' (p + 1)) (wf : PvWf e)
    (h : RowOk R g e p) : RowOk R g e' p := by
  unfold RowOk at *
  rw [pvRow_local hl (by omega) (wf.lenLe p), hl.2 p (by omega)]
  exact h

theorem PvWf.of_same {e e' : Env} (h1 : e'.pv = e.pv) (h2 : e'.pvLen = e.pvLen) (wf : PvWf e) : PvWf e' :=
  ⟨by rw [h1]; exact wf.pvSize, by rw [h2]; exact wf.lenSize, fun q => by rw [h2]; exact wf.lenLe q⟩

theorem Frame.no_ov {a b : Env} (h : Frame a b) (hb : b.rep.overflow = false) : a.rep.overflow = false := by
  cases ha : a.rep.overflow
  · rfl
  · rw [h.1 ha] at hb; exact absurd hb (by simp)

/-- what a (sub)search guarantees about the PV table -/
def PvGood (R : Rules) (g : Game) (a b : Int) (e : Env) (r : Int × Env) : Prop :=
  r.2.rep.overflow = false →
    RowLocal e r.2 e.ply ∧ PvWf r.2 ∧ (r.2.stopping = false → a < r.1 → r.1 < b → RowOk R g r.2 e.ply)

def RecPv (R : Rules) (rec : Game → Nat → Int → Int → Env → Int × Env) : Prop :=
  ∀ c d a b e, PvWf e → e.ply ≤ 63 → PvGood R c a b e (rec c d a b e)

/-- one recursive call, with everything the callers need -/
theorem rec_call {R : Rules} {rec : Game → Nat → Int → Int → Env → Int × Env} (hrec : RecFrame rec) (hpv : RecPv R rec)
    (c : Game) (d : Nat) (a b : Int) (e : Env) (wf : PvWf e) (hp : e.ply ≤ 63) (ho : (rec c d a b e).2.rep.overflow = false) :
    RowLocal e (rec c d a b e).2 e.ply ∧ PvWf (rec c d a b e).2 ∧ (rec c d a b e).2.ply = e.ply ∧ e.rep.overflow = false ∧
    ((rec c d a b e).2.stopping = false → a < (rec c d a b e).1 → (rec c d a b e).1 < b → RowOk R c (rec c d a b e).2 e.ply) := by
  obtain ⟨h1, h2, h3⟩ := hpv c d a b e wf hp ho
  exact ⟨h1, h2, ((hrec c d a b e).2 ho).ply, (hrec c d a b e).no_ov ho, h3⟩

/-- the PVS / LMR cascade for one child: the row of the child is a legal line whenever the final score lies inside -/
theorem searchChild_pv {R : Rules} {rec : Game → Nat → Int → Int → Env → Int × Env} (hrec : RecFrame rec) (hpv : RecPv R rec)
    (c : Game) (m : Move) (searched depth nDepth : Nat) (inCheck : Bool) (ta beta : Int) (e : Env) (wf : PvWf e) (hp : e.ply ≤ 63)
    (ho : (searchChild rec c m searched depth nDepth inCheck ta beta e).2.rep.overflow = false) :
    RowLocal e (searchChild rec c m searched depth nDepth inCheck ta beta e).2 e.ply ∧
    PvWf (searchChild rec c m searched depth nDepth inCheck ta beta e).2 ∧
    ((searchChild rec c m searched depth nDepth inCheck ta beta e).2.stopping = false →
      ta < (searchChild rec c m searched depth nDepth inCheck ta beta e).1 →
      (searchChild rec c m searched depth nDepth inCheck ta beta e).1 < beta →
      RowOk R c (searchChild rec c m searched depth nDepth inCheck ta beta e).2 e.ply) := by
  unfold searchChild at ho ⊢
  by_cases h0 : (searched == 0) = true
  · rw [if_pos h0] at ho ⊢
    simp only at ho ⊢
    obtain ⟨a1, a2, _, _, a5⟩ := rec_call hrec hpv c (nDepth - 1) (-beta) (-ta) e wf hp ho
    exact ⟨a1, a2, fun hs h1 h2 => a5 hs (by omega) (by omega)⟩
  · rw [if_neg h0] at ho ⊢
    simp only at ho ⊢
    -- the (possibly reduced) first probe
    generalize hfirst : (if (searched >= Gen.FULL_DEPTH_MOVES && depth >= Gen.REDUCTION_LIMIT && !inCheck && !m.isCapture && m.promotion == PNONE) = true
        then ((-(rec c (nDepth - 2) (-ta - 1) (-ta) e).1, (rec c (nDepth - 2) (-ta - 1) (-ta) e).2) : Int × Env) else (ta + 1, e)) = first at ho ⊢
    have hfirstFrame : Frame e first.2 := by
      rw [← hfirst]; split
      · exact hrec ..
      · exact Frame.refl e
    have hfirstOk : first.2.rep.overflow = false → RowLocal e first.2 e.ply ∧ PvWf first.2 ∧ first.2.ply = e.ply := by
      intro ho1
      rw [← hfirst] at ho1 ⊢
      split at ho1
      · rename_i hc; rw [if_pos hc]
        obtain ⟨a1, a2, a3, _, _⟩ := rec_call hrec hpv c (nDepth - 2) (-ta - 1) (-ta) e wf hp ho1
        exact ⟨a1, a2, a3⟩
      · rename_i hc; rw [if_neg hc]
        exact ⟨RowLocal.refl _ _, wf, rfl⟩
    obtain ⟨score1, e1⟩ := first
    simp only at ho hfirstFrame hfirstOk ⊢
    by_cases hs1 : score1 > ta
    · rw [if_pos hs1] at ho ⊢
      by_cases hin : (-(rec c (nDepth - 1) (-ta - 1) (-ta) e1).1 > ta ∧ -(rec c (nDepth - 1) (-ta - 1) (-ta) e1).1 < beta)
      · have hcond : (decide (-(rec c (nDepth - 1) (-ta - 1) (-ta) e1).1 > ta) && decide (-(rec c (nDepth - 1) (-ta - 1) (-ta) e1).1 < beta)) = true := by
          simp only [Bool.and_eq_true, decide_eq_true_eq]; exact hin
        rw [if_pos hcond] at ho ⊢
        simp only at ho ⊢
        have ho2 : (rec c (nDepth - 1) (-ta - 1) (-ta) e1).2.rep.overflow = false := (hrec ..).no_ov ho
        have ho1 : e1.rep.overflow = false := (hrec c (nDepth - 1) (-ta - 1) (-ta) e1).no_ov ho2
        obtain ⟨f1, f2, f3⟩ := hfirstOk ho1
        obtain ⟨b1, b2, b3, _, _⟩ := rec_call hrec hpv c (nDepth - 1) (-ta - 1) (-ta) e1 f2 (by omega) ho2
        obtain ⟨c1, c2, _, _, c5⟩ := rec_call hrec hpv c (nDepth - 1) (-beta) (-ta) _ b2 (by omega) ho
        rw [b3, f3] at c1 c5
        rw [f3] at b1
        exact ⟨(f1.trans b1).trans c1, c2, fun hs h1 h2 => c5 hs (by omega) (by omega)⟩
      · have hcond : ¬ ((decide (-(rec c (nDepth - 1) (-ta - 1) (-ta) e1).1 > ta) && decide (-(rec c (nDepth - 1) (-ta - 1) (-ta) e1).1 < beta)) = true) := by
          simp only [Bool.and_eq_true, decide_eq_true_eq]; exact hin
        rw [if_neg hcond] at ho ⊢
        simp only at ho ⊢
        have ho1 : e1.rep.overflow = false := (hrec c (nDepth - 1) (-ta - 1) (-ta) e1).no_ov ho
        obtain ⟨f1, f2, f3⟩ := hfirstOk ho1
        obtain ⟨b1, b2, _, _, _⟩ := rec_call hrec hpv c (nDepth - 1) (-ta - 1) (-ta) e1 f2 (by omega) ho
        rw [f3] at b1
        exact ⟨f1.trans b1, b2, fun _ h1 h2 => absurd ⟨h1, h2⟩ hin⟩
    · rw [if_neg hs1] at ho ⊢
      simp only at ho ⊢
      obtain ⟨f1, f2, _⟩ := hfirstOk ho
      exact ⟨f1, f2, fun _ h1 _ => absurd h1 hs1⟩

/-- what the move loop hands to `finish` -/
def LoopOk (R : Rules) (g : Game) (beta : Int) (p : Nat) (r : LoopOut × Env) : Prop :=
  match r.1 with
  | .done _ _ _ => RowOk R g r.2 p
  | .ret v => r.2.stopping = true ∨ v = beta

theorem moveLoop_pv {R : Rules} (cfg : Cfg) {rec : Game → Nat → Int → Int → Env → Int × Env} (hrec : RecFrame rec) (hpv : RecPv R rec)
    (g : Game) (depth nDepth : Nat) (inCheck : Bool) (beta : Int) :
    ∀ (ms : List Move) (ta : Int) (flag : Flag) (legal searched : Nat) (e : Env),
      PvWf e → e.ply ≤ 62 → (∀ m ∈ ms, m ∈ R.generate g true) → (0 < legal → e.stopping = false) → RowOk R g e e.ply →
      (moveLoop R cfg rec g depth nDepth inCheck beta ms ta flag legal searched e).2.rep.overflow = false →
      RowLocal e (moveLoop R cfg rec g depth nDepth inCheck beta ms ta flag legal searched e).2 e.ply ∧
      PvWf (moveLoop R cfg rec g depth nDepth inCheck beta ms ta flag legal searched e).2 ∧
      LoopOk R g beta e.ply (moveLoop R cfg rec g depth nDepth inCheck beta ms ta flag legal searched e) := by
  intro ms
  induction ms with
  | nil =>
    intro ta flag legal searched e wf _ _ _ hrow _
    simp only [moveLoop]
    exact ⟨RowLocal.refl _ _, wf, hrow⟩
  | cons m ms ih =>
    intro ta flag legal searched e wf hp hms hl hrow ho
    have hms' : ∀ m' ∈ ms, m' ∈ R.generate g true := fun m' h => hms m' (List.mem_cons_of_mem _ h)
    simp only [moveLoop] at ho ⊢
    cases hmk : R.make g m with
    | none => simp only [hmk] at ho ⊢; exact ih ta flag legal searched e wf hp hms' hl hrow ho
    | some c =>
      simp only [hmk] at ho ⊢
      -- the child
      have wf1 : PvWf ({ e with ply := e.ply + 1, rep := (e.rep.insert c.key).moveBack } : Env) := PvWf.of_same (e := e) rfl rfl wf
      have hsc := searchChild_frame rec hrec c m searched depth nDepth inCheck ta beta
        { e with ply := e.ply + 1, rep := (e.rep.insert c.key).moveBack }
      have hscpv := searchChild_pv hrec hpv c m searched depth nDepth inCheck ta beta
        { e with ply := e.ply + 1, rep := (e.rep.insert c.key).moveBack } wf1 (by show e.ply + 1 ≤ 63; omega)
      generalize searchChild rec c m searched depth nDepth inCheck ta beta
        { e with ply := e.ply + 1, rep := (e.rep.insert c.key).moveBack } = r at hsc hscpv ho ⊢
      obtain ⟨score, e2⟩ := r
      simp only at ho hscpv ⊢
      have h3 : Frame e { e2 with ply := e2.ply - 1 } := Frame.down_up e _ e2 (insert_moveBack e.rep c.key) hsc
      -- facts about the state after the child, once we know the history did not overflow there
      have after : e2.rep.overflow = false →
          ({ e2 with ply := e2.ply - 1 } : Env).ply = e.ply ∧ RowLocal e ({ e2 with ply := e2.ply - 1 } : Env) (e.ply + 1) ∧
          PvWf ({ e2 with ply := e2.ply - 1 } : Env) ∧
          (e2.stopping = false → ta < score → score < beta → RowOk R c ({ e2 with ply := e2.ply - 1 } : Env) (e.ply + 1)) := by
        intro ho2
        obtain ⟨l1, w2, j2⟩ := hscpv ho2
        refine ⟨(h3.2 ho2).ply, ⟨l1.1, l1.2⟩, PvWf.of_same (e := e2) rfl rfl w2, fun hs h1 h2 => RowOk.of_same (e := e2) rfl rfl (j2 hs h1 h2)⟩
      have hst : ({ e2 with ply := e2.ply - 1 } : Env).stopping = e2.stopping := rfl
      have hov3 : ({ e2 with ply := e2.ply - 1 } : Env).rep = e2.rep := rfl
      generalize ({ e2 with ply := e2.ply - 1 } : Env) = e3 at h3 after hst hov3 ho ⊢
      by_cases hstop : e2.stopping = true
      · rw [if_pos hstop] at ho ⊢
        simp only at ho ⊢
        obtain ⟨a1, a2, a3, _⟩ := after (by rw [← hov3]; exact ho)
        exact ⟨a2.mono (by omega), a3, Or.inl (by rw [hst]; exact hstop)⟩
      · have hrun : e3.stopping = false := by rw [hst]; simpa using hstop
        have hrun2 : e2.stopping = false := by simpa using hstop
        rw [if_neg hstop] at ho ⊢
        by_cases hsc2 : score > ta
        · rw [if_pos hsc2] at ho ⊢
          have hpvf := insertPv_frame cfg e3 m hrun
          obtain ⟨_, _, ipl, ist, irep⟩ := insertPv_fields cfg e3 m
          by_cases hb : score ≥ beta
          · rw [if_pos hb] at ho ⊢
            simp only at ho ⊢
            have ho3 : e3.rep.overflow = false := by
              rw [← irep]
              rw [ttRecord_rep] at ho
              revert ho
              split <;> (intro ho; exact ho)
            obtain ⟨a1, a2, a3, _⟩ := after (by rw [← hov3]; exact ho3)
            obtain ⟨i1, i2⟩ := insertPv_local cfg e3 m a3 (by omega)
            rw [a1] at i1
            refine ⟨?_, ?_, Or.inr rfl⟩
            · refine (a2.mono (by omega)).trans (RowLocal.trans i1 (RowLocal.of_eq _ ?_ ?_))
              · rw [ttRecord_pv]; split <;> rfl
              · rw [ttRecord_pvLen]; split <;> rfl
            · refine PvWf.of_same ?_ ?_ i2
              · rw [ttRecord_pv]; split <;> rfl
              · rw [ttRecord_pvLen]; split <;> rfl
          · rw [if_neg hb] at ho ⊢
            have hlt : score < beta := by omega
            -- the continuation: the same loop on the rest, from the state after the insert (history bonus or not)
            have cont : ∀ e5 : Env, e5.pv = (e3.insertPv cfg m).pv → e5.pvLen = (e3.insertPv cfg m).pvLen → e5.ply = (e3.insertPv cfg m).ply →
                e5.stopping = false → e5.rep = (e3.insertPv cfg m).rep →
                (moveLoop R cfg rec g depth nDepth inCheck beta ms score Flag.exact (legal + 1) (searched + 1) e5).2.rep.overflow = false →
                RowLocal e (moveLoop R cfg rec g depth nDepth inCheck beta ms score Flag.exact (legal + 1) (searched + 1) e5).2 e.ply ∧
                PvWf (moveLoop R cfg rec g depth nDepth inCheck beta ms score Flag.exact (legal + 1) (searched + 1) e5).2 ∧
                LoopOk R g beta e.ply (moveLoop R cfg rec g depth nDepth inCheck beta ms score Flag.exact (legal + 1) (searched + 1) e5) := by
              intro e5 h5pv h5len h5ply h5run h5rep ho5
              have ho3 : e3.rep.overflow = false := by
                have hf := (moveLoop_frame R cfg rec hrec g depth nDepth inCheck beta ms score Flag.exact (legal + 1) (searched + 1) e5 (fun _ => h5run)).1
                have := hf.no_ov ho5
                rw [h5rep, irep] at this; exact this
              obtain ⟨a1, a2, a3, a4⟩ := after (by rw [← hov3]; exact ho3)
              have hchild := a4 hrun2 hsc2 hlt
              have hn1 : e3.ply + 1 ≤ e3.pvLen.getD (e3.ply + 1) 0 := by rw [a1]; exact hchild.1
              obtain ⟨r1, r2, r3, r4⟩ := insertPv_row cfg e3 m a3 (by omega) hn1
              rw [a1] at r1 r2 r3
              have hrow5 : RowOk R g e5 e5.ply := by
                rw [h5ply, ipl, a1]
                apply RowOk.of_same h5pv h5len
                refine ⟨r2, ?_⟩
                rw [r1]
                exact ⟨hms m List.mem_cons_self, c, hmk, hchild.2⟩
              have wf5 : PvWf e5 := PvWf.of_same h5pv h5len r4
              have hp5 : e5.ply ≤ 62 := by rw [h5ply, ipl, a1]; exact hp
              obtain ⟨k1, k2, k3⟩ := ih score Flag.exact (legal + 1) (searched + 1) e5 wf5 hp5 hms' (fun _ => h5run) hrow5 ho5
              have h5e : e5.ply = e.ply := by rw [h5ply, ipl, a1]
              rw [h5e] at k1 k3
              exact ⟨((a2.mono (by omega)).trans r3).trans ((RowLocal.of_eq _ h5pv h5len).trans k1), k2, k3⟩
            revert ho
            split
            · intro ho
              exact cont _ rfl rfl rfl (by show (e3.insertPv cfg m).stopping = false; rw [ist]; exact hrun) rfl ho
            · intro ho
              exact cont _ rfl rfl rfl (by rw [ist]; exact hrun) rfl ho
        · rw [if_neg hsc2] at ho ⊢
          have ho3 : e3.rep.overflow = false :=
            ((moveLoop_frame R cfg rec hrec g depth nDepth inCheck beta ms ta flag (legal + 1) (searched + 1) e3 (fun _ => hrun)).1).no_ov ho
          obtain ⟨a1, a2, a3, _⟩ := after (by rw [← hov3]; exact ho3)
          have hrow3 : RowOk R g e3 e3.ply := by rw [a1]; exact RowOk.of_local a2 wf hrow
          obtain ⟨k1, k2, k3⟩ := ih ta flag (legal + 1) (searched + 1) e3 a3 (by omega) hms' (fun _ => hrun) hrow3 ho
          rw [a1] at k1 k3
          exact ⟨(a2.mono (by omega)).trans k1, k2, k3⟩

theorem nullMoveStep_pv {R : Rules} {rec : Game → Nat → Int → Int → Env → Int × Env} (hrec : RecFrame rec) (hpv : RecPv R rec)
    (g : Game) (nDepth : Nat) (inCheck : Bool) (beta : Int) (e : Env) (wf : PvWf e) (hp : e.ply ≤ 62)
    (ho : (nullMoveStep R rec g nDepth inCheck beta e).2.rep.overflow = false) :
    RowLocal e (nullMoveStep R rec g nDepth inCheck beta e).2 (e.ply + 1) ∧ PvWf (nullMoveStep R rec g nDepth inCheck beta e).2 ∧
    (∀ v, (nullMoveStep R rec g nDepth inCheck beta e).1 = some v →
      (nullMoveStep R rec g nDepth inCheck beta e).2.stopping = true ∨ v = beta) := by
  unfold nullMoveStep at ho ⊢
  split
  · rename_i hc
    rw [if_pos hc] at ho
    simp only at ho ⊢
    have wf1 : PvWf ({ e with ply := e.ply + 1 } : Env) := PvWf.of_same (e := e) rfl rfl wf
    have hcall := rec_call hrec hpv (R.nullMove g) (nDepth - 1 - 2) (-beta) (-beta + 1) { e with ply := e.ply + 1 } wf1 (by show e.ply + 1 ≤ 63; omega)
    generalize rec (R.nullMove g) (nDepth - 1 - 2) (-beta) (-beta + 1) { e with ply := e.ply + 1 } = r at hcall ho ⊢
    obtain ⟨s, e2⟩ := r
    simp only at ho hcall ⊢
    have ho2 : e2.rep.overflow = false := by
      revert ho; split
      · intro h; exact h
      · split <;> (intro h; exact h)
    obtain ⟨l1, w2, _, _, _⟩ := hcall ho2
    have hl : RowLocal e ({ e2 with ply := e2.ply - 1 } : Env) (e.ply + 1) := ⟨l1.1, l1.2⟩
    have hw : PvWf ({ e2 with ply := e2.ply - 1 } : Env) := PvWf.of_same (e := e2) rfl rfl w2
    split
    · rename_i hst; exact ⟨hl, hw, fun v hv => Or.inl hst⟩
    · split
      · exact ⟨hl, hw, fun v hv => by injection hv with hv; exact Or.inr hv.symm⟩
      · exact ⟨hl, hw, fun v hv => absurd hv (by simp)⟩
  · exact ⟨RowLocal.refl _ _, wf, fun v hv => absurd hv (by simp)⟩

theorem searchMoves_pv {R : Rules} (cfg : Cfg) {rec : Game → Nat → Int → Int → Env → Int × Env} (hrec : RecFrame rec) (hpv : RecPv R rec)
    (g : Game) (depth nDepth : Nat) (inCheck : Bool) (alpha beta : Int) (e : Env) (wf : PvWf e) (hp : e.ply ≤ 62)
    (hrow : RowOk R g e e.ply)
    (ho : (searchMoves R cfg rec g depth nDepth inCheck alpha beta e).2.rep.overflow = false) :
    RowLocal e (searchMoves R cfg rec g depth nDepth inCheck alpha beta e).2 e.ply ∧
    PvWf (searchMoves R cfg rec g depth nDepth inCheck alpha beta e).2 ∧
    ((searchMoves R cfg rec g depth nDepth inCheck alpha beta e).2.stopping = false →
      (searchMoves R cfg rec g depth nDepth inCheck alpha beta e).1 < beta →
      RowOk R g (searchMoves R cfg rec g depth nDepth inCheck alpha beta e).2 e.ply) := by
  unfold searchMoves at ho ⊢
  simp only at ho ⊢
  generalize hE : (if e.followPv = true then enablePvScoring (R.generate g true) e else e : Env) = e1 at ho ⊢
  have h1 : e1.pv = e.pv ∧ e1.pvLen = e.pvLen ∧ e1.ply = e.ply := by
    rw [← hE]; split
    · exact ⟨rfl, rfl, rfl⟩
    · exact ⟨rfl, rfl, rfl⟩
  have hsm := sortMoves_pv g (R.generate g true) e1
  have hsl := sortMoves_pvLen g (R.generate g true) e1
  have hsp := (sortMoves_frame g (R.generate g true) e1)
  have hmem := fun m => (sortMoves_mem g (R.generate g true) e1 m).1
  generalize sortMoves g (R.generate g true) e1 = sm at hsm hsl hsp hmem ho ⊢
  obtain ⟨ms, e2⟩ := sm
  simp only at hsm hsl hsp hmem ho ⊢
  have wf2 : PvWf e2 := PvWf.of_same (hsm.trans h1.1) (hsl.trans h1.2.1) wf
  -- the loop
  have hloopF := (moveLoop_frame R cfg rec hrec g depth nDepth inCheck beta ms alpha Flag.alpha 0 0 e2 (fun h => absurd h (by omega)))
  have hloop := moveLoop_pv cfg hrec hpv g depth nDepth inCheck beta ms alpha Flag.alpha 0 0 e2 wf2
  generalize moveLoop R cfg rec g depth nDepth inCheck beta ms alpha Flag.alpha 0 0 e2 = lo at hloopF hloop ho ⊢
  obtain ⟨out, e3⟩ := lo
  have hfin := finish_frame cfg g depth inCheck out e3 (fun lg h1' h2' => hloopF.2 lg h1' h2')
  have ho3 : e3.rep.overflow = false := hfin.no_ov ho
  have ho2 : e2.rep.overflow = false := hloopF.1.no_ov ho3
  have hply2 : e2.ply = e.ply := by rw [(hsp.1.2 ho2).ply, h1.2.2]
  obtain ⟨k1, k2, k3⟩ := hloop (by omega) hmem (fun h => absurd h (by omega))
    (by rw [hply2]; exact RowOk.of_same (hsm.trans h1.1) (hsl.trans h1.2.1) hrow) ho3
  rw [hply2] at k1 k3
  have hl02 : RowLocal e e2 e.ply := RowLocal.of_eq _ (hsm.trans h1.1) (hsl.trans h1.2.1)
  cases out with
  | ret v =>
    simp only [finish] at ho ⊢
    refine ⟨hl02.trans k1, k2, fun hs hv => ?_⟩
    rcases k3 with h | h
    · rw [h] at hs; exact absurd hs (by simp)
    · omega
  | done ta flag legal =>
    simp only [finish] at ho ⊢
    have hrow3 : RowOk R g e3 e.ply := k3
    split
    · refine ⟨hl02.trans (k1.trans (RowLocal.of_eq _ (ev_pv ..) (ev_pvLen ..))), PvWf.of_same (ev_pv ..) (ev_pvLen ..) k2, fun _ _ => ?_⟩
      exact RowOk.of_same (ev_pv ..) (ev_pvLen ..) hrow3
    · refine ⟨hl02.trans (k1.trans (RowLocal.of_eq _ (ttRecord_pv ..) (ttRecord_pvLen ..))),
        PvWf.of_same (ttRecord_pv ..) (ttRecord_pvLen ..) k2, fun _ _ => ?_⟩
      exact RowOk.of_same (ttRecord_pv ..) (ttRecord_pvLen ..) hrow3

theorem expand_pv {R : Rules} (cfg : Cfg) {rec : Game → Nat → Int → Int → Env → Int × Env} (hrec : RecFrame rec) (hpv : RecPv R rec)
    (g : Game) (depth : Nat) (alpha beta : Int) (e : Env) (wf : PvWf e) (hp : e.ply ≤ 62) (hrow : RowOk R g e e.ply)
    (ho : (expand R cfg rec g depth alpha beta e).2.rep.overflow = false) :
    RowLocal e (expand R cfg rec g depth alpha beta e).2 e.ply ∧ PvWf (expand R cfg rec g depth alpha beta e).2 ∧
    ((expand R cfg rec g depth alpha beta e).2.stopping = false → (expand R cfg rec g depth alpha beta e).1 < beta →
      RowOk R g (expand R cfg rec g depth alpha beta e).2 e.ply) := by
  unfold expand at ho ⊢
  simp only at ho ⊢
  have wf4 : PvWf ({ e with nodes := e.nodes + 1 } : Env) := PvWf.of_same (e := e) rfl rfl wf
  have hrow4 : RowOk R g ({ e with nodes := e.nodes + 1 } : Env) e.ply := RowOk.of_same (e := e) rfl rfl hrow
  have hply4 : ({ e with nodes := e.nodes + 1 } : Env).ply = e.ply := rfl
  have hl4 : RowLocal e ({ e with nodes := e.nodes + 1 } : Env) e.ply := RowLocal.of_eq _ rfl rfl
  generalize ({ e with nodes := e.nodes + 1 } : Env) = e4 at wf4 hrow4 hply4 hl4 ho ⊢
  generalize hnd : (if R.inCheck g = true then depth + 1 else depth) = nDepth at ho ⊢
  have hnf := nullMoveStep_frame R rec hrec g nDepth (R.inCheck g) beta e4
  have hnp := nullMoveStep_pv hrec hpv g nDepth (R.inCheck g) beta e4 wf4 (by omega)
  generalize nullMoveStep R rec g nDepth (R.inCheck g) beta e4 = nm at hnf hnp ho ⊢
  obtain ⟨ov, e5⟩ := nm
  cases ov with
  | some v =>
    simp only at ho hnp ⊢
    obtain ⟨n1, n2, n3⟩ := hnp ho
    rw [hply4] at n1
    refine ⟨hl4.trans (n1.mono (by omega)), n2, fun hs hv => ?_⟩
    rcases n3 v rfl with h | h
    · rw [h] at hs; exact absurd hs (by simp)
    · omega
  | none =>
    simp only at ho hnp ⊢
    have hsf := searchMoves_frame R cfg rec hrec g depth nDepth (R.inCheck g) alpha beta e5
    have ho5 : e5.rep.overflow = false := hsf.no_ov ho
    obtain ⟨n1, n2, _⟩ := hnp ho5
    rw [hply4] at n1
    have hply5 : e5.ply = e.ply := by rw [(hnf.2 ho5).ply, hply4]
    have hrow5 : RowOk R g e5 e5.ply := by rw [hply5]; exact RowOk.of_local n1 wf4 hrow4
    obtain ⟨s1, s2, s3⟩ := searchMoves_pv cfg hrec hpv g depth nDepth (R.inCheck g) alpha beta e5 n2 (by omega) hrow5 ho
    rw [hply5] at s1 s3
    exact ⟨hl4.trans ((n1.mono (by omega)).trans s1), s2, s3⟩

theorem afterProbe_pv {R : Rules} (cfg : Cfg) {rec : Game → Nat → Int → Int → Env → Int × Env} (hrec : RecFrame rec) (hpv : RecPv R rec)
    (g : Game) (depth : Nat) (alpha beta : Int) (e : Env) (wf : PvWf e) (hp : e.ply ≤ 63)
    (ho : (afterProbe R cfg rec g depth alpha beta e).2.rep.overflow = false) :
    RowLocal e (afterProbe R cfg rec g depth alpha beta e).2 e.ply ∧ PvWf (afterProbe R cfg rec g depth alpha beta e).2 ∧
    ((afterProbe R cfg rec g depth alpha beta e).2.stopping = false → (afterProbe R cfg rec g depth alpha beta e).1 < beta →
      RowOk R g (afterProbe R cfg rec g depth alpha beta e).2 e.ply) := by
  unfold afterProbe at ho ⊢
  simp only at ho ⊢
  -- the reset: row `ply` is empty
  have hget : (e.pvLen.setIfInBounds e.ply e.ply).getD e.ply 0 = e.ply := getD_set_eq _ _ _ _ (by rw [wf.lenSize]; omega)
  have wf2 : PvWf ({ e with pvLen := e.pvLen.setIfInBounds e.ply e.ply } : Env) :=
    ⟨wf.pvSize, by show (e.pvLen.setIfInBounds e.ply e.ply).size = 64; rw [Array.size_setIfInBounds]; exact wf.lenSize, fun q => by
      show (e.pvLen.setIfInBounds e.ply e.ply).getD q 0 ≤ 64
      by_cases hq : q = e.ply
      · rw [hq, hget]; omega
      · rw [getD_set_ne _ _ _ _ _ (fun h => hq h.symm)]; exact wf.lenLe q⟩
  have hrow2 : RowOk R g ({ e with pvLen := e.pvLen.setIfInBounds e.ply e.ply } : Env) e.ply := by
    unfold RowOk pvRow
    show e.ply ≤ (e.pvLen.setIfInBounds e.ply e.ply).getD e.ply 0 ∧ _
    rw [hget]
    refine ⟨Nat.le_refl _, ?_⟩
    rw [Nat.sub_self]; exact trivial
  have hl2 : RowLocal e ({ e with pvLen := e.pvLen.setIfInBounds e.ply e.ply } : Env) e.ply :=
    ⟨fun _ _ => rfl, fun q hq => getD_set_ne _ _ _ _ _ (by omega)⟩
  have hply2 : ({ e with pvLen := e.pvLen.setIfInBounds e.ply e.ply } : Env).ply = e.ply := rfl
  generalize ({ e with pvLen := e.pvLen.setIfInBounds e.ply e.ply } : Env) = e2 at wf2 hrow2 hl2 hply2 ho ⊢
  split
  · exact ⟨hl2, wf2, fun _ _ => hrow2⟩
  · rename_i hcap
    rw [if_neg hcap] at ho
    have h3pv := maybePoll_pv cfg e2
    have h3len := maybePoll_pvLen cfg e2
    have h3ply := maybePoll_ply cfg e2
    have wf3 : PvWf (e2.maybePoll cfg) := PvWf.of_same h3pv h3len wf2
    have hrow3 : RowOk R g (e2.maybePoll cfg) e.ply := RowOk.of_same h3pv h3len hrow2
    have hl3 : RowLocal e (e2.maybePoll cfg) e.ply := hl2.trans (RowLocal.of_eq _ h3pv h3len)
    generalize e2.maybePoll cfg = e3 at h3ply wf3 hrow3 hl3 ho ⊢
    have hply3 : e3.ply = e.ply := by rw [h3ply, hply2]
    split
    · have hq1 := quiescence_pv R cfg qFuel g alpha beta e3
      have hq2 := quiescence_pvLen R cfg qFuel g alpha beta e3
      exact ⟨hl3.trans (RowLocal.of_eq _ hq1 hq2), PvWf.of_same hq1 hq2 wf3, fun _ _ => RowOk.of_same hq1 hq2 hrow3⟩
    · rename_i hd
      rw [if_neg hd] at ho
      have hp3 : e3.ply ≤ 62 := by
        rw [hply3]
        have hc2 : ¬ (e.ply ≥ Gen.MAX_PLY - 1) := by simpa using hcap
        have h63 : Gen.MAX_PLY - 1 = 63 := by decide
        omega
      obtain ⟨x1, x2, x3⟩ := expand_pv cfg hrec hpv g depth alpha beta e3 wf3 hp3 (by rw [hply3]; exact hrow3) ho
      rw [hply3] at x1 x3
      exact ⟨hl3.trans x1, x2, x3⟩

/-- **the PV invariant of `negamax`**: rows below the node's ply are untouched, and when the value lies strictly inside
    the window (and the search was not stopped) the node's row is a legal line from the node's position -/
theorem negamax_pv (R : Rules) (cfg : Cfg) : ∀ fuel, RecPv R (negamax R cfg fuel) := by
  intro fuel
  induction fuel with
  | zero =>
    intro g d a b e wf _ _
    exact ⟨RowLocal.refl _ _, wf, fun _ h1 _ => by simp only [negamax] at h1; omega⟩
  | succ fuel ih =>
    intro g depth alpha beta e wf hp ho
    simp only [negamax] at ho ⊢
    have h1pv := onNode_pv cfg e 1 g depth alpha beta
    have h1len := onNode_pvLen cfg e 1 g depth alpha beta
    have h1ply := onNode_ply cfg e 1 g depth alpha beta
    have wf1 : PvWf (e.onNode cfg 1 g depth alpha beta) := PvWf.of_same h1pv h1len wf
    have hl1 : RowLocal e (e.onNode cfg 1 g depth alpha beta) e.ply := RowLocal.of_eq _ h1pv h1len
    generalize e.onNode cfg 1 g depth alpha beta = e1 at h1ply wf1 hl1 ho ⊢
    split
    · -- repetition: the row is reset
      unfold repReturn
      simp only
      have hget : ((e1.ev cfg [3, e1.ply.toUInt64, g.key, e1.rep.table.getD e1.rep.index 0]
          (fun _ => s!"rep {e1.ply} {hex16 g.key} {hex16 (e1.rep.table.getD e1.rep.index 0)}")).pvLen.setIfInBounds
          (e1.ev cfg [3, e1.ply.toUInt64, g.key, e1.rep.table.getD e1.rep.index 0]
          (fun _ => s!"rep {e1.ply} {hex16 g.key} {hex16 (e1.rep.table.getD e1.rep.index 0)}")).ply
          (e1.ev cfg [3, e1.ply.toUInt64, g.key, e1.rep.table.getD e1.rep.index 0]
          (fun _ => s!"rep {e1.ply} {hex16 g.key} {hex16 (e1.rep.table.getD e1.rep.index 0)}")).ply).getD e.ply 0 = e.ply := by
        rw [ev_ply, ev_pvLen, h1ply]
        exact getD_set_eq _ _ _ _ (by rw [wf1.lenSize]; omega)
      generalize hev : e1.ev cfg [3, e1.ply.toUInt64, g.key, e1.rep.table.getD e1.rep.index 0]
          (fun _ => s!"rep {e1.ply} {hex16 g.key} {hex16 (e1.rep.table.getD e1.rep.index 0)}") = e2 at hget ⊢
      have h2pv : e2.pv = e1.pv := by rw [← hev]; exact ev_pv ..
      have h2len : e2.pvLen = e1.pvLen := by rw [← hev]; exact ev_pvLen ..
      have h2ply : e2.ply = e.ply := by rw [← hev, ev_ply, h1ply]
      refine ⟨hl1.trans ⟨fun i _ => by show e2.pv.getD i _ = _; rw [h2pv], fun q hq => ?_⟩, ?_, fun _ _ _ => ?_⟩
      · show (e2.pvLen.setIfInBounds e2.ply e2.ply).getD q 0 = _
        rw [h2ply, getD_set_ne _ _ _ _ _ (by omega), h2len]
      · refine ⟨by show e2.pv.size = 4096; rw [h2pv]; exact wf1.pvSize,
          by show (e2.pvLen.setIfInBounds e2.ply e2.ply).size = 64; rw [Array.size_setIfInBounds, h2len]; exact wf1.lenSize, fun q => ?_⟩
        show (e2.pvLen.setIfInBounds e2.ply e2.ply).getD q 0 ≤ 64
        by_cases hq : q = e.ply
        · rw [hq, hget]; omega
        · rw [h2ply, getD_set_ne _ _ _ _ _ (fun h => hq h.symm), h2len]; exact wf1.lenLe q
      · unfold RowOk pvRow
        show e.ply ≤ (e2.pvLen.setIfInBounds e2.ply e2.ply).getD e.ply 0 ∧
          LegalLine R g ((List.range ((e2.pvLen.setIfInBounds e2.ply e2.ply).getD e.ply 0 - e.ply)).map _)
        rw [hget, Nat.sub_self]
        exact ⟨Nat.le_refl _, trivial⟩
    · split
      · -- table hit: only at null-window nodes, whose window has no interior
        rename_i hprobe
        unfold ttReturn
        simp only
        have hwin : ¬ (beta - alpha > 1) := by
          unfold probeNode at hprobe
          split at hprobe
          · rename_i hc
            simp only [Bool.and_eq_true, Bool.not_eq_true', decide_eq_false_iff_not] at hc
            exact hc.2
          · simp at hprobe
        refine ⟨hl1.trans (RowLocal.of_eq _ (by rw [ev_pv]) (by rw [ev_pvLen])), ⟨?_, ?_, ?_⟩, fun _ h1 h2 => by omega⟩
        · show (Env.ev cfg e1 _ _).pv.size = 4096; rw [ev_pv]; exact wf1.pvSize
        · show (Env.ev cfg e1 _ _).pvLen.size = 64; rw [ev_pvLen]; exact wf1.lenSize
        · intro q; show (Env.ev cfg e1 _ _).pvLen.getD q 0 ≤ 64; rw [ev_pvLen]; exact wf1.lenLe q
      · rename_i hrep hprobe
        rw [if_neg hrep, if_neg hprobe] at ho
        obtain ⟨a1, a2, a3⟩ := afterProbe_pv cfg (negamax_frame R cfg fuel) ih g depth alpha beta e1 wf1 (by omega) ho
        rw [h1ply] at a1 a3
        exact ⟨hl1.trans a1, a2, fun hs _ h2 => a3 hs h2⟩

end Jence
