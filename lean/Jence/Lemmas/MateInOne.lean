/-
  T11.3 (part): when the side to move has a move that checkmates, the plain minimax value `nVal` of every nominal depth
  >= 2 at the root is `MATE_VALUE − 1` (announced as `mate 1`).
-/
import Jence.Lemmas.ForcedMate
namespace Jence
open Jence

theorem maxChild_of_all_none (R : Rules) (V : Game → Int) (g : Game) (ms : List Move) (h : ∀ m ∈ ms, R.make g m = none) :
    maxChild R V g ms = none := by
  induction ms with
  | nil => rfl
  | cons x xs ih =>
    simp only [maxChild, h x List.mem_cons_self]
    exact ih (fun m hm => h m (List.mem_cons_of_mem _ hm))

/-- the value of a checkmated node one ply below the root, searched with a remaining depth of at least one -/
theorem nVal_mated_child (R : Rules) (H : List UInt64) (fuel : Nat) (c : Game) (d : Nat) (hd : 1 ≤ d)
    (hm : Mated R c) (hH : H.contains c.key = false) (hhm : (c.halfMoves == 100) = false) :
    nVal R H (fuel + 1) c d 1 = -Gen.MATE_VALUE + 1 := by
  unfold nVal
  have hM : Gen.MAX_PLY = 64 := rfl
  rw [if_neg (by rw [hH]; simp), if_neg (by rw [hM]; omega)]
  have hd0 : (d == 0) = false := by
    cases d with
    | zero => omega
    | succ k => rfl
  rw [if_neg (by rw [hd0, hhm]; simp)]
  simp only
  rw [maxChild_of_all_none R _ c _ hm.2, if_pos hm.1]
  rfl

/-- **a mate in one is worth `MATE_VALUE − 1` at every nominal depth from 2 on** -/
theorem nVal_mate_in_one (R : Rules) (P : Game → Prop) (hI : EvalInv R P) (H : List UInt64) (fuel : Nat) (g : Game)
    (depth : Nat) (hP : P g) (hd : 2 ≤ depth) (hhm : (g.halfMoves == 100) = false)
    (m : Move) (hm : m ∈ R.generate g true) (c : Game) (hmk : R.make g m = some c) (hmated : Mated R c)
    (hcH : H.contains c.key = false) (hchm : (c.halfMoves == 100) = false) :
    nVal R H (fuel + 2) g depth 0 = Gen.MATE_VALUE - 1 := by
  have hup := (nVal_mate R P hI H (fuel + 2) g depth 0 hP).1
  have hlow : Gen.MATE_VALUE - 1 ≤ nVal R H (fuel + 2) g depth 0 := by
    unfold nVal
    have hM : Gen.MAX_PLY = 64 := rfl
    rw [if_neg (by simp), if_neg (by rw [hM]; omega)]
    have hd0 : (depth == 0) = false := by
      cases depth with
      | zero => omega
      | succ k => rfl
    rw [if_neg (by rw [hd0, hhm]; simp)]
    simp only
    generalize hnd : (if R.inCheck g = true then depth + 1 else depth) = nDepth
    have hnd2 : 1 ≤ nDepth - 1 := by
      rw [← hnd]; split <;> omega
    cases hmc : maxChild R (fun c => nVal R H (fuel + 1) c (nDepth - 1) (0 + 1)) g (R.generate g true) with
    | none =>
      have := maxChild_none_all R _ g _ hmc m hm
      rw [hmk] at this; cases this
    | some M =>
      simp only
      have := (maxChild_some R _ g _ M hmc).2 m hm c hmk
      simp only [Nat.zero_add] at this
      rw [nVal_mated_child R H fuel c (nDepth - 1) hnd2 hmated hcH hchm] at this
      omega
  have hb : Gen.MATE_BOUND < Gen.MATE_VALUE - 1 := by decide
  obtain ⟨n, hn, hd'⟩ := hup (by omega)
  cases n with
  | zero => simp only [MatesIn] at hd'
  | succ k =>
    rw [hn] at hlow ⊢
    push_cast at hlow ⊢
    omega

end Jence
