/-
  The master invariant for the loops, `quiescence` and `negamax` (every `Rules` instance, every `Cfg`).
-/
import Jence.Lemmas.Frame
namespace Jence
open Jence

def RecFrame (rec : Game → Nat → Int → Int → Env → Int × Env) : Prop := ∀ c d a b e, Frame e (rec c d a b e).2
def QRecFrame (rec : Game → Int → Int → Env → Int × Env) : Prop := ∀ c a b e, Frame e (rec c a b e).2

theorem qLoop_frame (R : Rules) (rec : Game → Int → Int → Env → Int × Env) (hrec : QRecFrame rec) (g : Game) (beta : Int) :
    ∀ (ms : List Move) (ta : Int) (e : Env), Frame e (qLoop R rec g beta ms ta e).2 := by
  intro ms
  induction ms with
  | nil => intro ta e; exact Frame.refl e
  | cons m ms ih =>
    intro ta e
    simp only [qLoop]
    cases hmk : R.make g m with
    | none => exact ih ta e
    | some c =>
      simp only
      have hf := hrec c (-beta) (-ta) { e with rep := e.rep.insert c.key, ply := e.ply + 1 }
      generalize rec c (-beta) (-ta) { e with rep := e.rep.insert c.key, ply := e.ply + 1 } = r at hf
      obtain ⟨s, e2⟩ := r
      have h3 := Frame.push_pop e c.key e2 hf
      simp only
      split
      · exact h3
      · exact h3.trans (ih _ _)

theorem qEnter_frame (cfg : Cfg) (g : Game) (alpha beta : Int) (e : Env) : Frame e (qEnter cfg g alpha beta e) := by
  unfold qEnter
  simp only
  have h1 := onNode_frame cfg e 2 g 0 alpha beta
  generalize e.onNode cfg 2 g 0 alpha beta = e1 at h1
  have h2 := maybePoll_frame cfg e1
  generalize e1.maybePoll cfg = e2 at h2
  exact (h1.trans h2).trans (Frame.of_same rfl rfl rfl rfl rfl rfl rfl rfl rfl rfl rfl rfl (Nat.le_succ _))

theorem quiescence_frame (R : Rules) (cfg : Cfg) : ∀ fuel, QRecFrame (quiescence R cfg fuel) := by
  intro fuel
  induction fuel with
  | zero => intro c a b e; exact Frame.refl e
  | succ fuel ih =>
    intro g alpha beta e
    simp only [quiescence]
    have h123 := qEnter_frame cfg g alpha beta e
    generalize qEnter cfg g alpha beta e = e3 at h123
    split
    · exact h123
    · split
      · exact h123
      · have hs := (sortMoves_frame g (R.generate g false) e3).1
        exact (h123.trans hs).trans (qLoop_frame R _ ih g beta _ _ _)

theorem searchChild_frame (rec : Game → Nat → Int → Int → Env → Int × Env) (hrec : RecFrame rec) (c : Game) (m : Move)
    (searched depth nDepth : Nat) (inCheck : Bool) (ta beta : Int) (e : Env) :
    Frame e (searchChild rec c m searched depth nDepth inCheck ta beta e).2 := by
  unfold searchChild
  split
  · exact hrec ..
  · simp only
    split
    · -- reduced search first
      have h1 := hrec c (nDepth - 2) (-ta - 1) (-ta) e
      generalize rec c (nDepth - 2) (-ta - 1) (-ta) e = r1 at h1
      obtain ⟨s1, e1⟩ := r1
      simp only
      split
      · have h2 := hrec c (nDepth - 1) (-ta - 1) (-ta) e1
        generalize rec c (nDepth - 1) (-ta - 1) (-ta) e1 = r2 at h2
        obtain ⟨s2, e2⟩ := r2
        simp only
        split
        · exact (h1.trans h2).trans (hrec ..)
        · exact h1.trans h2
      · exact h1
    · simp only
      split
      · have h2 := hrec c (nDepth - 1) (-ta - 1) (-ta) e
        generalize rec c (nDepth - 1) (-ta - 1) (-ta) e = r2 at h2
        obtain ⟨s2, e2⟩ := r2
        simp only
        split
        · exact h2.trans (hrec ..)
        · exact h2
      · exact Frame.refl e

/-- `LoopOut` results that carry the "ran to the end" information -/
def LoopOut.doneLegal : LoopOut → Option Nat
  | .done _ _ legal => some legal
  | .ret _ => none

theorem moveLoop_frame (R : Rules) (cfg : Cfg) (rec : Game → Nat → Int → Int → Env → Int × Env) (hrec : RecFrame rec)
    (g : Game) (depth nDepth : Nat) (inCheck : Bool) (beta : Int) :
    ∀ (ms : List Move) (ta : Int) (flag : Flag) (legal searched : Nat) (e : Env), (0 < legal → e.stopping = false) →
      Frame e (moveLoop R cfg rec g depth nDepth inCheck beta ms ta flag legal searched e).2 ∧
      (∀ lg, (moveLoop R cfg rec g depth nDepth inCheck beta ms ta flag legal searched e).1.doneLegal = some lg →
        0 < lg → (moveLoop R cfg rec g depth nDepth inCheck beta ms ta flag legal searched e).2.stopping = false) := by
  intro ms
  induction ms with
  | nil =>
    intro ta flag legal searched e hl
    simp only [moveLoop]
    exact ⟨Frame.refl e, fun lg h hpos => by simp [LoopOut.doneLegal] at h; subst h; exact hl hpos⟩
  | cons m ms ih =>
    intro ta flag legal searched e hl
    simp only [moveLoop]
    cases hmk : R.make g m with
    | none => exact ih ta flag legal searched e hl
    | some c =>
      simp only
      have hsc := searchChild_frame rec hrec c m searched depth nDepth inCheck ta beta
        { e with ply := e.ply + 1, rep := (e.rep.insert c.key).moveBack }
      generalize searchChild rec c m searched depth nDepth inCheck ta beta
        { e with ply := e.ply + 1, rep := (e.rep.insert c.key).moveBack } = r at hsc
      obtain ⟨score, e2⟩ := r
      have h3 : Frame e { e2 with ply := e2.ply - 1 } := Frame.down_up e _ e2 (insert_moveBack e.rep c.key) hsc
      simp only
      have hst : ({ e2 with ply := e2.ply - 1 } : Env).stopping = e2.stopping := rfl
      generalize ({ e2 with ply := e2.ply - 1 } : Env) = e3 at h3 hst ⊢
      by_cases hstop : e2.stopping = true
      · rw [if_pos hstop]
        exact ⟨h3, fun lg h => by simp [LoopOut.doneLegal] at h⟩
      · have hrun : e3.stopping = false := by rw [hst]; simpa using hstop
        rw [if_neg hstop]
        by_cases hsc2 : score > ta
        · rw [if_pos hsc2]
          have hpv := insertPv_frame cfg e3 m hrun
          generalize Env.insertPv cfg e3 m = e4 at hpv ⊢
          obtain ⟨hpvf, hpvs⟩ := hpv
          by_cases hb : score ≥ beta
          · rw [if_pos hb]
            refine ⟨?_, fun lg h => by simp [LoopOut.doneLegal] at h⟩
            -- killers (only for quiet moves), then the table record
            have hk : ∀ e5 : Env, e5.stopping = false → Frame e5 (e5.ttRecord cfg g.key beta depth Flag.beta) :=
              fun e5 h5 => (ttRecord_frame cfg e5 g.key beta depth Flag.beta h5).1
            simp only
            split
            · have hkil : Frame e4 { e4 with killers := (e4.killers.setIfInBounds (64 + e4.ply) (e4.killer 0 e4.ply)).setIfInBounds e4.ply (some m) } :=
                Frame.of_running (e := e4) hpvs rfl rfl (fun _ => ⟨fun _ _ => rfl, rfl⟩) (Nat.le_refl _)
              exact (h3.trans hpvf).trans (hkil.trans (hk { e4 with killers := (e4.killers.setIfInBounds (64 + e4.ply) (e4.killer 0 e4.ply)).setIfInBounds e4.ply (some m) } hpvs))
            · exact (h3.trans hpvf).trans (hk _ hpvs)
          · rw [if_neg hb]
            split
            · have hh : Frame e4 { e4 with history := e4.history.setIfInBounds (m.piece * 64 + m.toSq) (e4.hist m.piece m.toSq + depth) } :=
                Frame.of_running (e := e4) hpvs rfl rfl (fun _ => ⟨fun _ _ => rfl, rfl⟩) (Nat.le_refl _)
              obtain ⟨i1, i2⟩ := ih score Flag.exact (legal + 1) (searched + 1)
                { e4 with history := e4.history.setIfInBounds (m.piece * 64 + m.toSq) (e4.hist m.piece m.toSq + depth) } (fun _ => hpvs)
              exact ⟨((h3.trans hpvf).trans hh).trans i1, i2⟩
            · obtain ⟨i1, i2⟩ := ih score Flag.exact (legal + 1) (searched + 1) e4 (fun _ => hpvs)
              exact ⟨(h3.trans hpvf).trans i1, i2⟩
        · rw [if_neg hsc2]
          obtain ⟨i1, i2⟩ := ih ta flag (legal + 1) (searched + 1) e3 (fun _ => hrun)
          exact ⟨h3.trans i1, i2⟩

theorem pvLenSet_frame (e : Env) (v : Nat) : Frame e { e with pvLen := e.pvLen.setIfInBounds e.ply v } := by
  refine ⟨id, fun _ => ⟨rfl, rfl, rfl, rfl, id, fun _ => ⟨rfl, rfl, rfl, rfl, rfl, rfl, rfl, rfl⟩, fun h => ⟨fun _ _ => rfl, ?_⟩, Nat.le_refl _⟩⟩
  exact getD_setIfInBounds_ne _ _ _ _ _ (by omega)

theorem nullMoveStep_frame (R : Rules) (rec : Game → Nat → Int → Int → Env → Int × Env) (hrec : RecFrame rec) (g : Game)
    (nDepth : Nat) (inCheck : Bool) (beta : Int) (e : Env) : Frame e (nullMoveStep R rec g nDepth inCheck beta e).2 := by
  unfold nullMoveStep
  split
  · simp only
    have h := hrec (R.nullMove g) (nDepth - 1 - 2) (-beta) (-beta + 1) { e with ply := e.ply + 1 }
    generalize rec (R.nullMove g) (nDepth - 1 - 2) (-beta) (-beta + 1) { e with ply := e.ply + 1 } = r at h
    obtain ⟨s, e2⟩ := r
    have h3 : Frame e { e2 with ply := e2.ply - 1 } :=
      Frame.down_up e e.rep e2 ⟨id, fun _ => ⟨rfl, rfl, rfl⟩⟩ h
    simp only
    split
    · exact h3
    · split <;> exact h3
  · exact Frame.refl e

theorem finish_frame (cfg : Cfg) (g : Game) (depth : Nat) (inCheck : Bool) (out : LoopOut) (e : Env)
    (hs : ∀ lg, out.doneLegal = some lg → 0 < lg → e.stopping = false) :
    Frame e (finish cfg g depth inCheck (out, e)).2 := by
  cases out with
  | ret v => exact Frame.refl e
  | done ta flag legal =>
    simp only [finish]
    split
    · exact ev_frame cfg e _ _
    · rename_i hl
      have hpos : 0 < legal := by
        cases legal with
        | zero => simp at hl
        | succ n => omega
      exact (ttRecord_frame cfg e g.key ta depth flag (hs legal rfl hpos)).1

theorem searchMoves_frame (R : Rules) (cfg : Cfg) (rec : Game → Nat → Int → Int → Env → Int × Env) (hrec : RecFrame rec)
    (g : Game) (depth nDepth : Nat) (inCheck : Bool) (alpha beta : Int) (e : Env) :
    Frame e (searchMoves R cfg rec g depth nDepth inCheck alpha beta e).2 := by
  unfold searchMoves
  simp only
  have h6 : Frame e (if e.followPv then enablePvScoring (R.generate g true) e else e) := by
    split
    · exact (enablePvScoring_frame _ _).1
    · exact Frame.refl e
  generalize (if e.followPv then enablePvScoring (R.generate g true) e else e) = e6 at h6
  have h7 := (sortMoves_frame g (R.generate g true) e6).1
  generalize sortMoves g (R.generate g true) e6 = sm at h7
  obtain ⟨h8, h8s⟩ := moveLoop_frame R cfg rec hrec g depth nDepth inCheck beta sm.1 alpha Flag.alpha 0 0 sm.2
    (fun h => absurd h (by omega))
  generalize moveLoop R cfg rec g depth nDepth inCheck beta sm.1 alpha Flag.alpha 0 0 sm.2 = lo at h8 h8s
  obtain ⟨out, e8⟩ := lo
  exact ((h6.trans h7).trans h8).trans (finish_frame cfg g depth inCheck out e8 h8s)

theorem expand_frame (R : Rules) (cfg : Cfg) (rec : Game → Nat → Int → Int → Env → Int × Env) (hrec : RecFrame rec)
    (g : Game) (depth : Nat) (alpha beta : Int) (e : Env) : Frame e (expand R cfg rec g depth alpha beta e).2 := by
  unfold expand
  simp only
  have h4 : Frame e { e with nodes := e.nodes + 1 } :=
    Frame.of_same rfl rfl rfl rfl rfl rfl rfl rfl rfl rfl rfl rfl (Nat.le_succ _)
  generalize ({ e with nodes := e.nodes + 1 } : Env) = e4 at h4
  have hn := nullMoveStep_frame R rec hrec g (if R.inCheck g then depth + 1 else depth) (R.inCheck g) beta e4
  generalize nullMoveStep R rec g (if R.inCheck g then depth + 1 else depth) (R.inCheck g) beta e4 = no at hn
  obtain ⟨nv, e5⟩ := no
  cases nv with
  | some v => exact h4.trans hn
  | none => exact (h4.trans hn).trans (searchMoves_frame R cfg rec hrec g depth _ _ alpha beta e5)

theorem afterProbe_frame (R : Rules) (cfg : Cfg) (rec : Game → Nat → Int → Int → Env → Int × Env) (hrec : RecFrame rec)
    (g : Game) (depth : Nat) (alpha beta : Int) (e : Env) : Frame e (afterProbe R cfg rec g depth alpha beta e).2 := by
  unfold afterProbe
  simp only
  have h2 := pvLenSet_frame e e.ply
  have hply : ({ e with pvLen := e.pvLen.setIfInBounds e.ply e.ply } : Env).ply = e.ply := rfl
  generalize ({ e with pvLen := e.pvLen.setIfInBounds e.ply e.ply } : Env) = e2 at h2 hply
  rw [← hply]
  split
  · exact h2
  · have h3 := maybePoll_frame cfg e2
    generalize e2.maybePoll cfg = e3 at h3
    split
    · exact (h2.trans h3).trans (quiescence_frame R cfg qFuel g alpha beta e3)
    · exact (h2.trans h3).trans (expand_frame R cfg rec hrec g depth alpha beta e3)

theorem repReturn_frame (cfg : Cfg) (g : Game) (e : Env) : Frame e (repReturn cfg g e).2 := by
  unfold repReturn
  simp only
  have h1 := ev_frame cfg e [3, e.ply.toUInt64, g.key, e.rep.table.getD e.rep.index 0]
    (fun _ => s!"rep {e.ply} {hex16 g.key} {hex16 (e.rep.table.getD e.rep.index 0)}")
  have hp := ev_ply cfg e [3, e.ply.toUInt64, g.key, e.rep.table.getD e.rep.index 0]
    (fun _ => s!"rep {e.ply} {hex16 g.key} {hex16 (e.rep.table.getD e.rep.index 0)}")
  generalize e.ev cfg [3, e.ply.toUInt64, g.key, e.rep.table.getD e.rep.index 0]
    (fun _ => s!"rep {e.ply} {hex16 g.key} {hex16 (e.rep.table.getD e.rep.index 0)}") = e1 at h1 hp
  exact h1.trans (pvLenSet_frame e1 e1.ply)

theorem ttReturn_frame (cfg : Cfg) (g : Game) (v : Int) (e : Env) : Frame e (ttReturn cfg g v e).2 := by
  unfold ttReturn
  simp only
  exact (ev_frame cfg e _ _).trans (Frame.of_same rfl rfl rfl rfl rfl rfl rfl rfl rfl rfl rfl rfl (Nat.le_refl _))

/-- **the master invariant** for `negamax`, by induction on the fuel -/
theorem negamax_frame (R : Rules) (cfg : Cfg) : ∀ fuel, RecFrame (negamax R cfg fuel) := by
  intro fuel
  induction fuel with
  | zero => intro c d a b e; exact Frame.refl e
  | succ fuel ih =>
    intro g depth alpha beta e
    simp only [negamax]
    have h1 := onNode_frame cfg e 1 g depth alpha beta
    generalize e.onNode cfg 1 g depth alpha beta = e1 at h1
    split
    · exact h1.trans (repReturn_frame cfg g e1)
    · split
      · exact h1.trans (ttReturn_frame cfg g _ e1)
      · exact h1.trans (afterProbe_frame R cfg _ ih g depth alpha beta e1)

end Jence
