/-
  The master invariant of the search: a relation `Frame e e'` between the environment a piece of the search
  receives and the one it returns. It is proved once for every helper, for the loops against an abstract
  recursive call, and then for `quiescence` and `negamax` by induction on the fuel; it holds for every `Rules`
  instance, every poll schedule and every transposition-table content.
-/
import Jence.Model.Search
namespace Jence
open Jence

/-- the conjuncts of the invariant (meaningful as long as the history array has not overflowed) -/
structure FrameCore (e e' : Env) : Prop where
  ply : e'.ply = e.ply
  repIndex : e'.rep.index = e.rep.index
  repPre : e'.rep.pre = e.rep.pre
  repSize : e'.rep.table.size = e.rep.table.size
  stopMono : e.stopping = true → e'.stopping = true
  /-- once the search has been told to stop nothing sticks: table, PV, killers, history, printed output and input -/
  frozen : e.stopping = true →
    e'.tt = e.tt ∧ e'.pv = e.pv ∧ e'.killers = e.killers ∧ e'.history = e.history ∧ e'.out = e.out ∧
    e'.chan = e.chan ∧ e'.deferred = e.deferred ∧ e'.polls = e.polls
  /-- frames below the root leave PV row 0 and its length alone -/
  row0 : 1 ≤ e.ply → (∀ c, c < 64 → e'.pv.getD c Move.null = e.pv.getD c Move.null) ∧ e'.pvLen.getD 0 0 = e.pvLen.getD 0 0
  nodesMono : e.nodes ≤ e'.nodes

/-- `Frame e e'`: overflow of the history array is sticky, and without it the core invariant holds -/
def Frame (e e' : Env) : Prop :=
  (e.rep.overflow = true → e'.rep.overflow = true) ∧ (e'.rep.overflow = false → FrameCore e e')

theorem FrameCore.refl (e : Env) : FrameCore e e :=
  ⟨rfl, rfl, rfl, rfl, id, fun _ => ⟨rfl, rfl, rfl, rfl, rfl, rfl, rfl, rfl⟩, fun _ => ⟨fun _ _ => rfl, rfl⟩, Nat.le_refl _⟩

theorem FrameCore.trans {a b c : Env} (h1 : FrameCore a b) (h2 : FrameCore b c) : FrameCore a c where
  ply := h2.ply.trans h1.ply
  repIndex := h2.repIndex.trans h1.repIndex
  repPre := h2.repPre.trans h1.repPre
  repSize := h2.repSize.trans h1.repSize
  stopMono := fun h => h2.stopMono (h1.stopMono h)
  frozen := fun h => by
    obtain ⟨a1, a2, a3, a4, a5, a6, a7, a8⟩ := h1.frozen h
    obtain ⟨b1, b2, b3, b4, b5, b6, b7, b8⟩ := h2.frozen (h1.stopMono h)
    exact ⟨b1.trans a1, b2.trans a2, b3.trans a3, b4.trans a4, b5.trans a5, b6.trans a6, b7.trans a7, b8.trans a8⟩
  row0 := fun h => by
    obtain ⟨a1, a2⟩ := h1.row0 h
    obtain ⟨b1, b2⟩ := h2.row0 (by rw [h1.ply]; exact h)
    exact ⟨fun c hc => (b1 c hc).trans (a1 c hc), b2.trans a2⟩
  nodesMono := Nat.le_trans h1.nodesMono h2.nodesMono

theorem Frame.refl (e : Env) : Frame e e := ⟨id, fun _ => FrameCore.refl e⟩

theorem Frame.trans {a b c : Env} (h1 : Frame a b) (h2 : Frame b c) : Frame a c := by
  refine ⟨fun h => h2.1 (h1.1 h), fun hc => ?_⟩
  have hb : b.rep.overflow = false := by
    cases hb : b.rep.overflow with
    | false => rfl
    | true => rw [h2.1 hb] at hc; exact absurd hc (by simp)
  exact (h1.2 hb).trans (h2.2 hc)

/-- an update that leaves alone everything the invariant talks about -/
theorem Frame.of_same {e e' : Env} (hply : e'.ply = e.ply) (hrep : e'.rep = e.rep) (hstop : e'.stopping = e.stopping)
    (htt : e'.tt = e.tt) (hpv : e'.pv = e.pv) (hk : e'.killers = e.killers) (hh : e'.history = e.history)
    (hout : e'.out = e.out) (hchan : e'.chan = e.chan) (hdef : e'.deferred = e.deferred) (hpolls : e'.polls = e.polls)
    (hlen : e'.pvLen = e.pvLen) (hn : e.nodes ≤ e'.nodes) : Frame e e' := by
  refine ⟨fun h => by rw [hrep]; exact h, fun _ => ?_⟩
  exact ⟨hply, by rw [hrep], by rw [hrep], by rw [hrep], fun h => by rw [hstop]; exact h,
    fun _ => ⟨htt, hpv, hk, hh, hout, hchan, hdef, hpolls⟩, fun _ => ⟨fun _ _ => by rw [hpv], by rw [hlen]⟩, hn⟩

theorem ev_frame (cfg : Cfg) (e : Env) (w : List UInt64) (l : Unit → String) : Frame e (e.ev cfg w l) := by
  unfold Env.ev
  split
  · exact Frame.refl e
  · split <;> exact Frame.of_same rfl rfl rfl rfl rfl rfl rfl rfl rfl rfl rfl rfl (Nat.le_refl _)

/-- an event only touches the ghost digest, counter and transcript -/
theorem ev_eq (cfg : Cfg) (e : Env) (w : List UInt64) (l : Unit → String) :
    ∃ d n lg, e.ev cfg w l = { e with digest := d, events := n, log := lg } := by
  unfold Env.ev
  split
  · exact ⟨e.digest, e.events, e.log, rfl⟩
  · split
    · exact ⟨_, _, _, rfl⟩
    · exact ⟨_, _, e.log, rfl⟩

theorem onNode_eq (cfg : Cfg) (e : Env) (k : Nat) (g : Game) (d : Nat) (a b : Int) :
    ∃ dg n lg, e.onNode cfg k g d a b = { e with digest := dg, events := n, log := lg } := by
  unfold Env.onNode
  split
  · exact ⟨e.digest, e.events, e.log, rfl⟩
  · exact ev_eq ..

theorem ev_stopping (cfg : Cfg) (e : Env) (w : List UInt64) (l : Unit → String) : (e.ev cfg w l).stopping = e.stopping := by
  unfold Env.ev; split; · rfl
  split <;> rfl

theorem ev_ply (cfg : Cfg) (e : Env) (w : List UInt64) (l : Unit → String) : (e.ev cfg w l).ply = e.ply := by
  unfold Env.ev; split; · rfl
  split <;> rfl

theorem ev_rep (cfg : Cfg) (e : Env) (w : List UInt64) (l : Unit → String) : (e.ev cfg w l).rep = e.rep := by
  unfold Env.ev; split; · rfl
  split <;> rfl

theorem onNode_frame (cfg : Cfg) (e : Env) (k : Nat) (g : Game) (d : Nat) (a b : Int) : Frame e (e.onNode cfg k g d a b) := by
  unfold Env.onNode; split
  · exact Frame.refl e
  · exact ev_frame ..

theorem onNode_stopping (cfg : Cfg) (e : Env) (k : Nat) (g : Game) (d : Nat) (a b : Int) :
    (e.onNode cfg k g d a b).stopping = e.stopping := by
  unfold Env.onNode; split; · rfl
  exact ev_stopping ..

theorem onNode_ply (cfg : Cfg) (e : Env) (k : Nat) (g : Game) (d : Nat) (a b : Int) :
    (e.onNode cfg k g d a b).ply = e.ply := by
  unfold Env.onNode; split; · rfl
  exact ev_ply ..

/-- an update made while the search is *not* stopping, touching neither ply, history array nor PV row 0 -/
theorem Frame.of_running {e e' : Env} (hrun : e.stopping = false) (hply : e'.ply = e.ply) (hrep : e'.rep = e.rep)
    (hrow : 1 ≤ e.ply → (∀ c, c < 64 → e'.pv.getD c Move.null = e.pv.getD c Move.null) ∧ e'.pvLen.getD 0 0 = e.pvLen.getD 0 0)
    (hn : e.nodes ≤ e'.nodes) : Frame e e' := by
  refine ⟨fun h => by rw [hrep]; exact h, fun _ => ?_⟩
  exact ⟨hply, by rw [hrep], by rw [hrep], by rw [hrep], fun h => by rw [hrun] at h; exact absurd h (by simp),
    fun h => by rw [hrun] at h; exact absurd h (by simp), hrow, hn⟩

theorem poll_frame (cfg : Cfg) (e : Env) : Frame e (e.poll cfg) := by
  unfold Env.poll
  by_cases hs : e.stopping = true
  · simp only [hs, ↓reduceIte]; exact Frame.refl e
  · have hrun : e.stopping = false := by simpa using hs
    simp only [hrun, Bool.false_eq_true, ↓reduceIte]
    -- every branch below only touches polls / pollLog / chan / log / out / deferred / stopping
    have key : ∀ e' : Env, e'.ply = e.ply → e'.rep = e.rep → e'.pv = e.pv → e'.pvLen = e.pvLen → e.nodes ≤ e'.nodes → Frame e e' :=
      fun e' h1 h2 h3 h4 h5 => Frame.of_running hrun h1 h2 (fun _ => ⟨fun _ _ => by rw [h3], by rw [h4]⟩) h5
    split
    · apply key <;> simp [ev_ply, ev_rep, Env.ev] <;> (try split) <;> (try split) <;> simp
    · split
      · apply key <;> simp [Env.ev] <;> (try split) <;> (try split) <;> simp
      · split <;> (apply key <;> simp [Env.ev, Env.print] <;> (try split) <;> (try split) <;> simp)

theorem maybePoll_frame (cfg : Cfg) (e : Env) : Frame e (e.maybePoll cfg) := by
  unfold Env.maybePoll
  dsimp only
  split <;> (split <;> first | exact poll_frame cfg e | exact Frame.refl e)

theorem poll_ply (cfg : Cfg) (e : Env) : (e.poll cfg).ply = e.ply := by
  have h := poll_frame cfg e
  unfold Env.poll
  by_cases hs : e.stopping = true
  · simp [hs]
  · have hrun : e.stopping = false := by simpa using hs
    simp only [hrun, Bool.false_eq_true, ↓reduceIte]
    split
    · simp [Env.ev]; (try split) <;> (try split) <;> simp
    · split
      · simp [Env.ev]; (try split) <;> (try split) <;> simp
      · split <;> (simp [Env.ev, Env.print] <;> (try split) <;> (try split) <;> simp)

/-! ### Small updates -/

theorem getD_setIfInBounds_ne {α : Type} (a : Array α) (i j : Nat) (v d : α) (h : i ≠ j) :
    (a.setIfInBounds i v).getD j d = a.getD j d := by
  simp [Array.getD_eq_getD_getElem?, Array.getElem?_setIfInBounds, h]

theorem scoreMove_frame (g : Game) (m : Move) (e : Env) : Frame e (scoreMove g m e).2 := by
  unfold scoreMove
  split
  · exact Frame.of_same rfl rfl rfl rfl rfl rfl rfl rfl rfl rfl rfl rfl (Nat.le_refl _)
  · split
    · exact Frame.refl e
    · split
      · exact Frame.refl e
      · split <;> exact Frame.refl e

theorem scoreMove_stopping (g : Game) (m : Move) (e : Env) : (scoreMove g m e).2.stopping = e.stopping := by
  unfold scoreMove
  split; · rfl
  split; · rfl
  split; · rfl
  split <;> rfl

theorem scoreAll_frame (g : Game) (ms : List Move) (e : Env) (acc : Array (Int × Move)) :
    Frame e (scoreAll g ms e acc).2 ∧ (scoreAll g ms e acc).2.stopping = e.stopping := by
  induction ms generalizing e acc with
  | nil => exact ⟨Frame.refl e, rfl⟩
  | cons m ms ih =>
    simp only [scoreAll]
    obtain ⟨h1, h2⟩ := ih (scoreMove g m e).2 (acc.push ((scoreMove g m e).1, m))
    exact ⟨(scoreMove_frame g m e).trans h1, h2.trans (scoreMove_stopping g m e)⟩

theorem sortMoves_frame (g : Game) (ms : List Move) (e : Env) :
    Frame e (sortMoves g ms e).2 ∧ (sortMoves g ms e).2.stopping = e.stopping := by
  unfold sortMoves
  exact scoreAll_frame g ms e #[]

theorem enablePvScoring_frame (ms : List Move) (e : Env) :
    Frame e (enablePvScoring ms e) ∧ (enablePvScoring ms e).stopping = e.stopping :=
  ⟨Frame.of_same rfl rfl rfl rfl rfl rfl rfl rfl rfl rfl rfl rfl (Nat.le_refl _), rfl⟩

/-- writing PV cells at indices `≥ 64` leaves row 0 alone -/
theorem pvFold_row0 (ply : Nat) (hp : 1 ≤ ply) (l : List Nat) (pv : Array Move) (c : Nat) (hc : c < 64) :
    (l.foldl (fun pv i => let k := ply + 1 + i; pv.setIfInBounds (ply * 64 + k) (pv.getD ((ply + 1) * 64 + k) Move.null)) pv).getD c Move.null
      = pv.getD c Move.null := by
  induction l generalizing pv with
  | nil => rfl
  | cons i l ih =>
    simp only [List.foldl_cons]
    rw [ih]
    apply getD_setIfInBounds_ne
    have : 64 ≤ ply * 64 := by omega
    omega

theorem pvInsert_row0 (pv : Array Move) (pvLen : Array Nat) (ply : Nat) (m : Move) (hp : 1 ≤ ply) :
    (∀ c, c < 64 → (Env.pvInsert pv pvLen ply m).1.getD c Move.null = pv.getD c Move.null) ∧
    (Env.pvInsert pv pvLen ply m).2.getD 0 0 = pvLen.getD 0 0 := by
  unfold Env.pvInsert
  refine ⟨fun c hc => ?_, ?_⟩
  · simp only
    rw [pvFold_row0 ply hp _ _ c hc]
    apply getD_setIfInBounds_ne
    have : 64 ≤ ply * 64 := by omega
    omega
  · simp only
    apply getD_setIfInBounds_ne
    omega

theorem insertPv_frame (cfg : Cfg) (e : Env) (m : Move) (hrun : e.stopping = false) :
    Frame e (e.insertPv cfg m) ∧ (e.insertPv cfg m).stopping = false := by
  unfold Env.insertPv
  simp only [hrun, Bool.false_eq_true, ↓reduceIte]
  have hev := ev_frame cfg e [7, e.ply.toUInt64, m.data.toUInt64] (fun _ => s!"pv {e.ply} {m.hex}")
  have hs := ev_stopping cfg e [7, e.ply.toUInt64, m.data.toUInt64] (fun _ => s!"pv {e.ply} {m.hex}")
  generalize e.ev cfg [7, e.ply.toUInt64, m.data.toUInt64] (fun _ => s!"pv {e.ply} {m.hex}") = e1 at hev hs
  refine ⟨hev.trans ?_, by simp [hs, hrun]⟩
  refine Frame.of_running (e := e1) (by rw [hs, hrun]) rfl rfl ?_ (Nat.le_refl _)
  intro h1
  exact pvInsert_row0 e1.pv e1.pvLen e1.ply m h1

theorem ttRecord_frame (cfg : Cfg) (e : Env) (k : UInt64) (s : Int) (d : Nat) (f : Flag) (hrun : e.stopping = false) :
    Frame e (e.ttRecord cfg k s d f) ∧ (e.ttRecord cfg k s d f).stopping = false := by
  unfold Env.ttRecord
  simp only [hrun, Bool.false_eq_true, ↓reduceIte]
  have hev := ev_frame cfg e [8, k, i2w s, d.toUInt64, f.code.toUInt64, e.ply.toUInt64] (fun _ => s!"ttrec {hex16 k} {s} {d} {f.code} {e.ply}")
  have hs := ev_stopping cfg e [8, k, i2w s, d.toUInt64, f.code.toUInt64, e.ply.toUInt64] (fun _ => s!"ttrec {hex16 k} {s} {d} {f.code} {e.ply}")
  generalize e.ev cfg [8, k, i2w s, d.toUInt64, f.code.toUInt64, e.ply.toUInt64] (fun _ => s!"ttrec {hex16 k} {s} {d} {f.code} {e.ply}") = e1 at hev hs
  refine ⟨hev.trans ?_, by simp [hs, hrun]⟩
  exact Frame.of_running (e := e1) (by rw [hs, hrun]) rfl rfl (fun _ => ⟨fun _ _ => rfl, rfl⟩) (Nat.le_refl _)

/-! ### Descending one ply and coming back -/

theorem pre_length (r : RepTable) : r.pre.length = r.index := by simp [RepTable.pre]

theorem insert_overflow_mono (r : RepTable) (k : UInt64) (h : r.overflow = true) : (r.insert k).overflow = true := by
  unfold RepTable.insert; split <;> simp [h]

theorem insert_ok (r : RepTable) (k : UInt64) (h : (r.insert k).overflow = false) :
    r.index < r.table.size ∧ r.overflow = false := by
  unfold RepTable.insert at h
  split at h
  · rename_i hlt; exact ⟨hlt, h⟩
  · simp at h

theorem insert_pre (r : RepTable) (k : UInt64) (hlt : r.index < r.table.size) :
    (r.insert k).pre = r.pre ++ [k] ∧ (r.insert k).index = r.index + 1 ∧ (r.insert k).table.size = r.table.size := by
  unfold RepTable.insert RepTable.pre
  simp only [hlt, ↓reduceIte, List.range_succ, List.map_append, List.map_cons, List.map_nil, Array.size_setIfInBounds, and_true]
  congr 1
  · apply List.map_congr_left
    intro i hi
    have : i < r.index := List.mem_range.mp hi
    exact getD_setIfInBounds_ne _ _ _ _ _ (by omega)
  · simp [Array.getD_eq_getD_getElem?, hlt]

/-- dropping the last recorded key again -/
theorem moveBack_pre (r : RepTable) (l : List UInt64) (k : UInt64) (h : r.pre = l ++ [k]) :
    r.moveBack.pre = l ∧ r.moveBack.index = r.index - 1 := by
  have hlen : r.index = l.length + 1 := by rw [← pre_length, h]; simp
  unfold RepTable.moveBack RepTable.pre at *
  simp only [and_true]
  rw [hlen] at h ⊢
  simp only [Nat.add_sub_cancel, List.range_succ, List.map_append, List.map_cons, List.map_nil] at h ⊢
  exact (List.append_inj' h (by simp)).1

/-- the `quiescence` pattern: push the child key, descend one ply, run something that satisfies the invariant, come
    back up and pop the key -/
theorem Frame.push_pop (e : Env) (k : UInt64) (e2 : Env)
    (h : Frame { e with rep := e.rep.insert k, ply := e.ply + 1 } e2) :
    Frame e { e2 with ply := e2.ply - 1, rep := e2.rep.moveBack } := by
  refine ⟨fun ho => ?_, fun hc => ?_⟩
  · have := h.1 (insert_overflow_mono e.rep k ho)
    simpa [RepTable.moveBack] using this
  · have hc2 : e2.rep.overflow = false := by simpa [RepTable.moveBack] using hc
    have core := h.2 hc2
    have h1o : (e.rep.insert k).overflow = false := by
      cases hx : (e.rep.insert k).overflow with
      | false => rfl
      | true => have := h.1 hx; rw [this] at hc2; exact absurd hc2 (by simp)
    obtain ⟨hlt, _⟩ := insert_ok e.rep k h1o
    obtain ⟨hpre, hidx, hsz⟩ := insert_pre e.rep k hlt
    have hp2 : e2.rep.pre = e.rep.pre ++ [k] := by rw [core.repPre]; exact hpre
    obtain ⟨hmb, hmi⟩ := moveBack_pre e2.rep _ _ hp2
    refine ⟨?_, ?_, hmb, ?_, core.stopMono, core.frozen, ?_, core.nodesMono⟩
    · have := core.ply; simp only at this ⊢; omega
    · simp only; rw [hmi, core.repIndex]; simp only; rw [hidx]; omega
    · simp only [RepTable.moveBack]; rw [core.repSize]; exact hsz
    · intro h1; exact core.row0 (by simp only; omega)

/-- the `negamax` pattern: the child key is pushed and popped at once (the slot above the history keeps it), then one
    ply down and back -/
theorem Frame.down_up (e : Env) (r1 : RepTable) (e2 : Env)
    (hr : (e.rep.overflow = true → r1.overflow = true) ∧
          (r1.overflow = false → r1.index = e.rep.index ∧ r1.pre = e.rep.pre ∧ r1.table.size = e.rep.table.size))
    (h : Frame { e with ply := e.ply + 1, rep := r1 } e2) :
    Frame e { e2 with ply := e2.ply - 1 } := by
  refine ⟨fun ho => h.1 (hr.1 ho), fun hc => ?_⟩
  have core := h.2 hc
  have h1o : r1.overflow = false := by
    cases hx : r1.overflow with
    | false => rfl
    | true => have := h.1 hx; simp only at hc; rw [this] at hc; exact absurd hc (by simp)
  obtain ⟨a1, a2, a3⟩ := hr.2 h1o
  refine ⟨?_, ?_, ?_, ?_, core.stopMono, core.frozen, ?_, core.nodesMono⟩
  · have := core.ply; simp only at this ⊢; omega
  · simp only; rw [core.repIndex]; exact a1
  · simp only; rw [core.repPre]; exact a2
  · simp only; rw [core.repSize]; exact a3
  · intro h1; exact core.row0 (by simp only; omega)

theorem insert_moveBack (r : RepTable) (k : UInt64) :
    (r.overflow = true → (r.insert k).moveBack.overflow = true) ∧
    ((r.insert k).moveBack.overflow = false →
      (r.insert k).moveBack.index = r.index ∧ (r.insert k).moveBack.pre = r.pre ∧ (r.insert k).moveBack.table.size = r.table.size) := by
  refine ⟨fun h => by simpa [RepTable.moveBack] using insert_overflow_mono r k h, fun h => ?_⟩
  have h' : (r.insert k).overflow = false := by simpa [RepTable.moveBack] using h
  obtain ⟨hlt, _⟩ := insert_ok r k h'
  obtain ⟨hpre, hidx, hsz⟩ := insert_pre r k hlt
  obtain ⟨hmb, hmi⟩ := moveBack_pre (r.insert k) _ _ hpre
  exact ⟨by rw [hmi, hidx]; omega, hmb, by simpa [RepTable.moveBack] using hsz⟩

end Jence
