/-
  A move that fits the board (`MoveFits`) of piece sets that hold the board (`Rep`) is `MoveOk`: so the key theorem
  (T4.1) applies to it.
-/
import Jence.Lemmas.MakeOcc
import Jence.Lemmas.KeyInc
namespace Jence
open Jence

theorem MoveFits.target_not {b : Board} {w : Bool} {m : Move} (fits : MoveFits b w m) (q : Nat) (hq : ownP w q) :
    b m.toSq ≠ some q := by
  intro h
  cases hc : m.isCapture
  · rw [fits.quiet hc] at h; exact absurd h (by simp)
  · cases he : m.isEnpassant
    · obtain ⟨v, hv, hen, _⟩ := fits.cap hc he
      rw [hv] at h; injection h with h; subst h; exact own_not_enemy hq hen
    · rw [(fits.ep he).2.1] at h; exact absurd h (by simp)

theorem MoveFits.moveOk {g : Game} {b : Board} {m : Move} (h : Rep g.bbs b none) (fits : MoveFits b g.white m) : MoveOk g m := by
  have hpl := ownP_lt fits.piece
  have hBP : BP = 6 := rfl
  have hWP : WP = 0 := rfl
  have hWR : WR = 3 := rfl
  have hBR : BR = 9 := rfl
  have bitOf : ∀ q t, q < 12 → t < 64 → getBit (g.bb q) t = decide (b t = some q) := fun q t hq ht => rep_bit g.bbs b h q t hq ht
  have mover : (g.white = true → m.piece < 6) ∧ (g.white = false → 6 ≤ m.piece) := by
    have := fits.piece; unfold ownP at this
    constructor
    · intro hw; rw [hw] at this; simpa using this
    · intro hw; rw [hw] at this; simp at this; exact this.1
  refine ⟨h.1, hpl, fits.fromLt, fits.toLt, ?_, ?_, ?_, mover, ?_, ?_, ?_, ?_⟩
  · rw [bitOf _ _ hpl fits.fromLt, fits.src]; simp
  · rw [bitOf _ _ hpl fits.toLt]; simpa using fits.target_not _ fits.piece
  · intro he _
    obtain ⟨_, _, hlt, hge, hv, _, _⟩ := fits.ep he
    constructor
    · intro hw
      rw [hw] at hv; simp only [vsq, if_true] at hv
      refine ⟨by have := mover.1 hw; omega, hlt hw, ?_⟩
      rw [bitOf _ _ (by decide) (hlt hw), hv]; simp
    · intro hw
      rw [hw] at hv; simp only [vsq, Bool.false_eq_true, if_false] at hv
      refine ⟨by have := mover.2 hw; omega, hge hw, ?_⟩
      rw [bitOf _ _ (by decide) (by have := fits.toLt; omega), hv]; simp
  · intro hpr
    obtain ⟨hown, hne⟩ := fits.promo hpr
    refine ⟨ownP_lt hown, hne, ?_, ?_, ?_⟩
    · rw [bitOf _ _ (ownP_lt hown) fits.toLt]; simpa using fits.target_not _ hown
    · unfold ownP at hown
      constructor
      · intro hw; rw [hw] at hown; simpa using hown
      · intro hw; rw [hw] at hown; simp at hown; exact hown.1
    · cases he : m.isEnpassant
      · rfl
      · exact absurd (fits.ep he).2.2.2.2.2.1 hpr
  · intro _ hcs
    obtain ⟨_, _, r, f, t, hhop, hbf, hbt, _, _, _, hpr⟩ := fits.castle hcs
    unfold rookHop at hhop
    by_cases h62 : m.toSq = 62
    · rw [if_pos h62] at hhop; injection hhop with hhop; injection hhop with e1 e2; injection e2 with e2 e3
      subst e1; subst e2; subst e3
      exact Or.inl ⟨h62, hpr, by rw [bitOf _ _ (by decide) (by decide), hbf]; simp, by rw [bitOf _ _ (by decide) (by decide), hbt]; simp⟩
    · rw [if_neg h62] at hhop
      by_cases h58 : m.toSq = 58
      · rw [if_pos h58] at hhop; injection hhop with hhop; injection hhop with e1 e2; injection e2 with e2 e3
        subst e1; subst e2; subst e3
        exact Or.inr (Or.inl ⟨h58, hpr, by rw [bitOf _ _ (by decide) (by decide), hbf]; simp, by rw [bitOf _ _ (by decide) (by decide), hbt]; simp⟩)
      · rw [if_neg h58] at hhop
        by_cases h6 : m.toSq = 6
        · rw [if_pos h6] at hhop; injection hhop with hhop; injection hhop with e1 e2; injection e2 with e2 e3
          subst e1; subst e2; subst e3
          exact Or.inr (Or.inr (Or.inl ⟨h6, hpr, by rw [bitOf _ _ (by decide) (by decide), hbf]; simp, by rw [bitOf _ _ (by decide) (by decide), hbt]; simp⟩))
        · rw [if_neg h6] at hhop
          by_cases h2 : m.toSq = 2
          · rw [if_pos h2] at hhop; injection hhop with hhop; injection hhop with e1 e2; injection e2 with e2 e3
            subst e1; subst e2; subst e3
            exact Or.inr (Or.inr (Or.inr ⟨h2, hpr, by rw [bitOf _ _ (by decide) (by decide), hbf]; simp, by rw [bitOf _ _ (by decide) (by decide), hbt]; simp⟩))
          · rw [if_neg h2] at hhop; exact absurd hhop (by simp)
  · intro hcs; exact (fits.castle hcs).2.1
  · intro hdp
    obtain ⟨_, _, _, _, hw, hb⟩ := fits.dpush hdp
    have := fits.toLt
    have := fits.fromLt
    constructor
    · intro h; have := (hw h).1; omega
    · intro h; have := (hb h).1; omega

end Jence
