/-
  The legality test of `make_search_move` (is the mover's king attacked in the position it has built so far?) agrees with
  the rules' (is the mover in check in the successor position?).
-/
import Jence.Lemmas.PseudoRefine
namespace Jence
open Jence

section prepost2
variable {b : Board} {w : Bool} {m : Move}

/-- an enemy piece on the tested board is on the final board -/
theorem pre_to_post_enemy (fits : MoveFits b w m) (s X : Nat) (h : preBoard b w m s = some X) (hX : enemyP w X) :
    applyB b w m s = some X := by
  by_cases h1 : s = m.toSq
  · subst h1
    unfold preBoard at h; rw [Board.set_same] at h; injection h with h
    rw [← h] at hX; exact absurd fits.piece (fun ho => own_not_enemy ho hX)
  · have hpre : preBoard b w m s = (if m.isEnpassant then (b.set m.fromSq none).set (vsq w m.toSq) none else b.set m.fromSq none) s := by
      unfold preBoard; rw [Board.set_ne _ _ _ _ h1]
    rw [hpre] at h
    rcases applyB_at fits s with ⟨hs, _⟩ | ⟨hs, _⟩ | ⟨he, hs, _⟩ | ⟨hcs, r, f, tt, hhop, hh⟩ | ⟨_, n2, n3, _, hv⟩
    · exact absurd hs h1
    · exfalso
      rw [hs] at h
      split at h
      · rename_i he
        obtain ⟨_, v2, _, _⟩ := fits.vsq_facts he
        rw [Board.set_ne _ _ _ _ (fun h' => v2 h'.symm), Board.set_same] at h; exact absurd h (by simp)
      · rw [Board.set_same] at h; exact absurd h (by simp)
    · exfalso
      rw [if_pos he, hs, Board.set_same] at h; exact absurd h (by simp)
    · exfalso
      obtain ⟨_, hc, r', f', t', hhop', hbf, hbt, hff, hft, hro, _⟩ := fits.castle hcs
      rw [hhop] at hhop'; injection hhop' with e; injection e with e1 e2; injection e2 with e2 e3
      subst e1; subst e2; subst e3
      have hef := fits.ep_cap hc
      rw [hef] at h; simp only [Bool.false_eq_true, if_false] at h
      rcases hh with ⟨hs, _⟩ | ⟨hs, _⟩
      · rw [hs, Board.set_ne _ _ _ _ (fun h' => hff h'.symm), hbf] at h; injection h with h
        rw [← h] at hX; exact own_not_enemy hro hX
      · rw [hs, Board.set_ne _ _ _ _ (fun h' => hft h'.symm), hbt] at h; exact absurd h (by simp)
    · rw [hv]
      split at h
      · rename_i he
        rw [Board.set_ne _ _ _ _ (n3 he), Board.set_ne _ _ _ _ n2] at h; exact h
      · rw [Board.set_ne _ _ _ _ n2] at h; exact h

end prepost2

/-- the king's square, seen from the position the check test runs on -/
theorem pre_king_square {g : Game} {b : Board} {m : Move} (wf : Wf g b) (fits : MoveFits b g.white m) :
    ∃ k, k < 64 ∧ applyB b g.white m k = some (if g.white then WK else BK) ∧
      tzcnt ((makePre g m).bb (if g.white then WK else BK)) = k ∧
      tzcnt ((makeForce g m).bb (if g.white then WK else BK)) = k := by
  have wf' := makeForce_wf g m b wf fits
  have fw := (makeCore_fields_force g m).1
  have hKeq : (if (!g.white) = true then BK else WK) = (if g.white then WK else BK) := by cases g.white <;> rfl
  obtain ⟨k, hk, hbk, htz, _⟩ := king_square wf' g.white
  have hK12 : (if g.white then WK else BK) < 12 := by cases g.white <;> decide
  have hpre := makePre_rep' g m b wf.rep fits
  have bit1 : ∀ t, t < 64 → getBit ((makePre g m).bb (if g.white then WK else BK)) t = decide (preBoard b g.white m t = some (if g.white then WK else BK)) :=
    fun t ht => rep_bit _ _ hpre _ t hK12 ht
  have h1K := post_to_pre fits k _ hbk (Or.inr rfl)
  refine ⟨k, hk, hbk, ?_, htz⟩
  apply tzcnt_single _ k hk (by rw [bit1 k hk, h1K]; simp)
  intro t ht hb
  rw [bit1 t ht] at hb
  have hb' := pre_to_post_king fits t (by simpa using hb)
  cases hw : g.white
  · have e : (if g.white then WK else BK) = BK := by rw [hw]; rfl
    rw [e] at hb' hbk
    obtain ⟨k', _, _, hu⟩ := wf'.ok.bking
    exact (hu t ht hb').trans (hu k hk hbk).symm
  · have e : (if g.white then WK else BK) = WK := by rw [hw]; rfl
    rw [e] at hb' hbk
    obtain ⟨k', _, _, hu⟩ := wf'.ok.wking
    exact (hu t ht hb').trans (hu k hk hbk).symm

/-- **non-castling moves: the check test on the half-built position is the check test on the finished one** -/
theorem check_pre_post {g : Game} {b : Board} {m : Move} (wf : Wf g b) (fits : MoveFits b g.white m) (hnc : m.isCastling = false) :
    isInCheck (makePre g m) g.white = isInCheck (makeForce g m) g.white := by
  have wf' := makeForce_wf g m b wf fits
  obtain ⟨k, hk, hbk, htz1, htz2⟩ := pre_king_square wf fits
  have hpre := makePre_rep' g m b wf.rep fits
  have hall : (makeForce g m).allOcc = (makePre g m).allOcc := by
    unfold makeForce; exact (makePost_occ_plain (makePre g m) m (Or.inr hnc)).2.2
  have bit1 : ∀ q t, q < 12 → t < 64 → getBit ((makePre g m).bb q) t = decide (preBoard b g.white m t = some q) :=
    fun q t hq ht => rep_bit _ _ hpre q t hq ht
  have bit2 : ∀ q t, q < 12 → t < 64 → getBit ((makeForce g m).bb q) t = decide (applyB b g.white m t = some q) :=
    fun q t hq ht => rep_bit _ _ wf'.rep q t hq ht
  have hen : ∀ X, ownP (!g.white) X → enemyP g.white X := by
    intro X hX; unfold ownP at hX; unfold enemyP; cases hw : g.white <;> rw [hw] at hX <;> simpa using hX
  have key : isSquareAttacked (makePre g m) k (!g.white) = true ↔ isSquareAttacked (makeForce g m) k (!g.white) = true := by
    constructor
    · intro h
      obtain ⟨X, f, hX, hf, hbit, hatt⟩ := attacker_of_attacked _ k hk _ h
      have hX12 := ownP_lt hX
      rw [bit1 X f hX12 hf] at hbit
      have hb' := pre_to_post_enemy fits f X (by simpa using hbit) (hen X hX)
      exact attacked_of_attacker _ k f X hk hf _ hX (by rw [bit2 X f hX12 hf, hb']; simp) (by rw [hall]; exact hatt)
    · intro h
      obtain ⟨X, f, hX, hf, hbit, hatt⟩ := attacker_of_attacked _ k hk _ h
      have hX12 := ownP_lt hX
      rw [bit2 X f hX12 hf] at hbit
      have hb' := post_to_pre fits f X (by simpa using hbit) (Or.inl (hen X hX))
      exact attacked_of_attacker _ k f X hk hf _ hX (by rw [bit1 X f hX12 hf, hb']; simp) (by rw [← hall]; exact hatt)
  unfold isInCheck
  cases hw : g.white
  · rw [hw] at htz1 htz2 key
    simp only [Bool.false_eq_true, if_false] at htz1 htz2 ⊢
    rw [htz1, htz2]
    simp only [Bool.not_false] at key
    cases h1 : isSquareAttacked (makePre g m) k true <;> cases h2 : isSquareAttacked (makeForce g m) k true <;> simp_all
  · rw [hw] at htz1 htz2 key
    simp only [if_true] at htz1 htz2 ⊢
    rw [htz1, htz2]
    simp only [Bool.not_true] at key
    cases h1 : isSquareAttacked (makePre g m) k false <;> cases h2 : isSquareAttacked (makeForce g m) k false <;> simp_all

/-- the rules' check test looks at the board only -/
theorem inCheck_board (p q : Spec.Position) (h : p.board = q.board) (w : Bool) : Spec.inCheck p w = Spec.inCheck q w := by
  have hat : ∀ s, Spec.at_ p s = Spec.at_ q s := by intro s; unfold Spec.at_; rw [h]
  have hocc : Spec.occupiedIn p = Spec.occupiedIn q := by funext s; unfold Spec.occupiedIn; rw [hat]
  have hatt : ∀ sq by_, Spec.attacked p sq by_ = Spec.attacked q sq by_ := by
    intro sq by_; unfold Spec.attacked; simp only [hat, hocc]
  unfold Spec.inCheck Spec.kingSquare
  simp only [hat, hatt]

/-- the board of the rules' successor is the board the engine's new position denotes (no clock hypotheses) -/
theorem apply_board {g : Game} {b : Board} {m : Move} (wf : Wf g b) (fits : MoveFits b g.white m)
    (flags : FlagsTrue b g.white g.ep m) : (Spec.abs (makeForce g m)).board = (Spec.apply (Spec.abs g) (smove m)).board := by
  have hsrc : Spec.at_ (Spec.abs g) (smove m).src = some (pieceOf m.piece) := by
    show Spec.at_ (Spec.abs g) m.fromSq = _
    rw [abs_at wf _ fits.fromLt, fits.src]; rfl
  rw [apply_eq _ _ _ hsrc]
  exact Holds.ext (abs_holds (makeForce_wf g m b wf fits)) (specBoard_holds wf fits flags)

/-- **legality, non-castling moves**: `make_search_move` accepts the move iff the rules' successor position does not
    leave the mover in check -/
theorem legal_noncastle {g : Game} {b : Board} {m : Move} (wf : Wf g b) (fits : MoveFits b g.white m)
    (flags : FlagsTrue b g.white g.ep m) (hnc : m.isCastling = false) :
    (makeCore g m).isSome = !Spec.inCheck (Spec.apply (Spec.abs g) (smove m)) g.white := by
  rw [makeCore_eq, (makePre_wc g m).1, check_pre_post wf fits hnc, inCheck_refines (makeForce_wf g m b wf fits),
    inCheck_board _ _ (apply_board wf fits flags)]
  cases Spec.inCheck (Spec.apply (Spec.abs g) (smove m)) g.white <;> rfl

end Jence
