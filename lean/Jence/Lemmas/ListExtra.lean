/- small list facts used by several proofs (core only) -/
namespace List

/-- induction from the right -/
theorem snoc_induction {α : Type _} {P : List α → Prop} (nil : P [])
    (snoc : ∀ (l : List α) (a : α), P l → P (l ++ [a])) : ∀ l, P l := by
  intro l
  have h : ∀ r : List α, P r.reverse := by
    intro r
    induction r with
    | nil => simpa using nil
    | cons a r ih => simpa using snoc r.reverse a ih
  simpa using h l.reverse

end List
