/- small list facts used by several proofs (core only) -/
namespace List

/-- induction from the right -/
theorem snoc_induction {α : Type _} {P : List α → Prop} (nil : P [])
    (snoc : ∀ (l : List α) (a : α), P l → P (l ++ [a])) : ∀ l, P l := by
  intro l
  have h : ∀ r : List α, P r.reverse := by
    intro r
    induction r with
    | nil => simpa using nil
    | cons a r ih => simpa using snoc r.reverse a ih
  simpa using h l.reverse

theorem flatMap_congr' {α β : Type _} {l : List α} {f g : α → List β} (h : ∀ a ∈ l, f a = g a) :
    l.flatMap f = l.flatMap g := by
  induction l with
  | nil => rfl
  | cons a l ih =>
    simp only [List.flatMap_cons]
    rw [h a (List.mem_cons_self ..), ih (fun b hb => h b (List.mem_cons_of_mem _ hb))]

end List
