/-
  The attack relation is symmetric: `t` is reached from `s` along a line iff `s` is reached from `t` along it, for the
  same set of occupied squares (both say: same line, nothing strictly between). Leapers: by table. This is what makes
  the engine's reverse lookup in `is_square_attacked` (attack set *from the target square* intersected with the piece
  sets) say the same as the generator's forward lookup.
-/
import Jence.Lemmas.Attack
import Jence.Lemmas.TableLift
namespace Jence
open Jence

theorem shiftStep (f df : Int) (i : Nat) : f + df + ((i + 1 : Nat) : Int) * df = f + ((i + 1 + 1 : Nat) : Int) * df := by
  rw [Int.natCast_add (i + 1) 1, Int.natCast_one, Int.add_mul, Int.one_mul]; omega

theorem oneStep (f df : Int) : f + ((0 + 1 : Nat) : Int) * df = f + df := by
  rw [Nat.zero_add, Int.natCast_one, Int.one_mul]

/-- membership in a coordinate walk: `j + 1` steps, all on the board, none of the earlier squares occupied -/
theorem mem_walk (occ : Nat → Bool) (df dr : Int) : ∀ (n : Nat) (f r : Int) (t : Nat),
    t ∈ Spec.walk occ df dr n f r ↔
      ∃ j : Nat, j < n ∧ (∀ i : Nat, i ≤ j → Spec.onBoard (f + ((i + 1 : Nat) : Int) * df) (r + ((i + 1 : Nat) : Int) * dr) = true) ∧
        (∀ i : Nat, i < j → occ (Spec.sqOf (f + ((i + 1 : Nat) : Int) * df) (r + ((i + 1 : Nat) : Int) * dr)) = false) ∧
        t = Spec.sqOf (f + ((j + 1 : Nat) : Int) * df) (r + ((j + 1 : Nat) : Int) * dr) := by
  intro n
  induction n with
  | zero =>
    intro f r t
    simp only [Spec.walk, List.not_mem_nil, false_iff]
    rintro ⟨j, h1, _⟩; omega
  | succ n ih =>
    intro f r t
    simp only [Spec.walk]
    by_cases hb : Spec.onBoard (f + df) (r + dr) = true
    · rw [if_pos hb]
      by_cases ho : occ (Spec.sqOf (f + df) (r + dr)) = true
      · rw [if_pos ho]
        simp only [List.mem_singleton]
        constructor
        · intro h
          refine ⟨0, by omega, ?_, ?_, ?_⟩
          · intro i h1; have : i = 0 := by omega
            subst this; rw [oneStep, oneStep]; exact hb
          · intro i h1; omega
          · rw [oneStep, oneStep]; exact h
        · rintro ⟨j, h1, hon, hoc, ht⟩
          cases j with
          | zero => rw [oneStep, oneStep] at ht; exact ht
          | succ j =>
            have := hoc 0 (by omega)
            rw [oneStep, oneStep, ho] at this; exact absurd this (by simp)
      · rw [if_neg ho]
        simp only [List.mem_cons]
        rw [ih (f + df) (r + dr) t]
        constructor
        · rintro (h | ⟨j, h1, hon, hoc, ht⟩)
          · refine ⟨0, by omega, ?_, ?_, ?_⟩
            · intro i h1; have : i = 0 := by omega
              subst this; rw [oneStep, oneStep]; exact hb
            · intro i h1; omega
            · rw [oneStep, oneStep]; exact h
          · refine ⟨j + 1, by omega, ?_, ?_, ?_⟩
            · intro i hi
              cases i with
              | zero => rw [oneStep, oneStep]; exact hb
              | succ i => rw [← shiftStep, ← shiftStep]; exact hon i (by omega)
            · intro i hi
              cases i with
              | zero => rw [oneStep, oneStep]; simpa using ho
              | succ i => rw [← shiftStep, ← shiftStep]; exact hoc i (by omega)
            · rw [← shiftStep, ← shiftStep]; exact ht
        · rintro ⟨j, h1, hon, hoc, ht⟩
          cases j with
          | zero => left; rw [oneStep, oneStep] at ht; exact ht
          | succ j =>
            right
            refine ⟨j, by omega, ?_, ?_, ?_⟩
            · intro i hi; rw [shiftStep, shiftStep]; exact hon (i + 1) (by omega)
            · intro i hi; rw [shiftStep, shiftStep]; exact hoc (i + 1) (by omega)
            · rw [shiftStep, shiftStep]; exact ht
    · rw [if_neg hb]
      simp only [List.not_mem_nil, false_iff]
      rintro ⟨j, h1, hon, _⟩
      have := hon 0 (by omega)
      rw [oneStep, oneStep] at this
      exact hb this

theorem revStep (f df : Int) (j i : Nat) (h : i < j) :
    f + ((j + 1 : Nat) : Int) * df + ((i + 1 : Nat) : Int) * (-df) = f + ((j - i - 1 + 1 : Nat) : Int) * df := by
  have e : ((j + 1 : Nat) : Int) = ((j - i - 1 + 1 : Nat) : Int) + ((i + 1 : Nat) : Int) := by omega
  rw [e, Int.add_mul, Int.mul_neg]; omega

theorem revLast (f df : Int) (j : Nat) : f + ((j + 1 : Nat) : Int) * df + ((j + 1 : Nat) : Int) * (-df) = f := by
  rw [Int.mul_neg]; omega

theorem file_row_sqOf (f r : Int) (h : Spec.onBoard f r = true) : Spec.fileOf (Spec.sqOf f r) = f ∧ Spec.rowOf (Spec.sqOf f r) = r := by
  simp only [Spec.onBoard, Bool.and_eq_true, decide_eq_true_eq] at h
  unfold Spec.fileOf Spec.rowOf Spec.sqOf
  omega

theorem sqOf_file_row (s : Nat) : Spec.sqOf (Spec.fileOf s) (Spec.rowOf s) = s := by
  unfold Spec.fileOf Spec.rowOf Spec.sqOf; omega

/-- one line, both ways -/
theorem walk_symm (occ : Nat → Bool) (df dr : Int) (s t : Nat) (hs : s < 64)
    (h : t ∈ Spec.walk occ df dr 7 (Spec.fileOf s) (Spec.rowOf s)) :
    s ∈ Spec.walk occ (-df) (-dr) 7 (Spec.fileOf t) (Spec.rowOf t) := by
  rw [mem_walk] at h ⊢
  obtain ⟨j, hj, hon, hoc, ht⟩ := h
  obtain ⟨eft, ert⟩ := file_row_sqOf _ _ (hon j (Nat.le_refl j))
  rw [← ht] at eft ert
  refine ⟨j, hj, ?_, ?_, ?_⟩
  · intro i hi
    rw [eft, ert]
    by_cases hij : i = j
    · subst hij; rw [revLast, revLast]; exact onBoard_sq s hs
    · rw [revStep _ _ j i (by omega), revStep _ _ j i (by omega)]; exact hon (j - i - 1) (by omega)
  · intro i hi
    rw [eft, ert, revStep _ _ j i hi, revStep _ _ j i hi]; exact hoc (j - i - 1) (by omega)
  · rw [eft, ert, revLast, revLast, sqOf_file_row]

theorem slide_symm (occ : Nat → Bool) (dirs : List (Int × Int)) (hneg : ∀ d ∈ dirs, (-d.1, -d.2) ∈ dirs) (s t : Nat) (hs : s < 64)
    (h : t ∈ Spec.slide occ s dirs) : s ∈ Spec.slide occ t dirs := by
  simp only [Spec.slide, List.mem_flatMap] at h ⊢
  obtain ⟨d, hd, h⟩ := h
  exact ⟨(-d.1, -d.2), hneg d hd, walk_symm occ d.1 d.2 s t hs h⟩

theorem rookDirs_neg : ∀ d ∈ Spec.rookDirs, (-d.1, -d.2) ∈ Spec.rookDirs := by decide
theorem bishopDirs_neg : ∀ d ∈ Spec.bishopDirs, (-d.1, -d.2) ∈ Spec.bishopDirs := by decide

theorem slide_lt (occ : Nat → Bool) (s : Nat) (dirs : List (Int × Int)) : ∀ t ∈ Spec.slide occ s dirs, t < 64 := by
  intro t ht
  simp only [Spec.slide, List.mem_flatMap] at ht
  obtain ⟨d, _, ht⟩ := ht
  exact walk_sq_lt _ _ _ _ _ _ t ht

/-- **the rook lookup is symmetric** -/
theorem rookAttacks_symm (s t : Nat) (hs : s < 64) (ht : t < 64) (occ : UInt64)
    (h : getBit (getRookAttacks s occ) t = true) : getBit (getRookAttacks t occ) s = true := by
  rw [getRookAttacks_eq s hs, rookOnTheFly_eq_slide s hs] at h
  rw [getRookAttacks_eq t ht, rookOnTheFly_eq_slide t ht]
  unfold Spec.slideRook at h ⊢
  rw [getBit_toBits _ _ (slide_lt _ _ _) ht] at h
  rw [getBit_toBits _ _ (slide_lt _ _ _) hs]
  simp only [decide_eq_true_eq] at h ⊢
  exact slide_symm _ _ rookDirs_neg s t hs h

/-- **the bishop lookup is symmetric** -/
theorem bishopAttacks_symm (s t : Nat) (hs : s < 64) (ht : t < 64) (occ : UInt64)
    (h : getBit (getBishopAttacks s occ) t = true) : getBit (getBishopAttacks t occ) s = true := by
  rw [getBishopAttacks_eq s hs, bishopOnTheFly_eq_slide s hs] at h
  rw [getBishopAttacks_eq t ht, bishopOnTheFly_eq_slide t ht]
  unfold Spec.slideBishop at h ⊢
  rw [getBit_toBits _ _ (slide_lt _ _ _) ht] at h
  rw [getBit_toBits _ _ (slide_lt _ _ _) hs]
  simp only [decide_eq_true_eq] at h ⊢
  exact slide_symm _ _ bishopDirs_neg s t hs h

theorem queenAttacks_symm (s t : Nat) (hs : s < 64) (ht : t < 64) (occ : UInt64)
    (h : getBit (getQueenAttacks s occ) t = true) : getBit (getQueenAttacks t occ) s = true := by
  unfold getQueenAttacks at h ⊢
  rw [getBit_or _ _ _ ht] at h
  rw [getBit_or _ _ _ hs]
  simp only [Bool.or_eq_true] at h ⊢
  rcases h with h | h
  · exact Or.inl (rookAttacks_symm s t hs ht occ h)
  · exact Or.inr (bishopAttacks_symm s t hs ht occ h)

set_option maxRecDepth 100000 in
/-- the leaper tables are symmetric (knight, king), and the two pawn tables mirror each other -/
theorem leapers_symm : ∀ s, s < 64 → ∀ t, t < 64 →
    (getBit (getKnightAttacks s) t = getBit (getKnightAttacks t) s) ∧
    (getBit (getKingAttacks s) t = getBit (getKingAttacks t) s) ∧
    (getBit (getPawnAttacks s true) t = getBit (getPawnAttacks t false) s) := by decide +kernel

end Jence
