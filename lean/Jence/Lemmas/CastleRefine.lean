/-
  Castling: the generator's conditions plus the check test of `make_search_move` say what the rules say (rights, empty
  squares, king not in check, not passing over or landing on an attacked square, not in check afterwards).
-/
import Jence.Lemmas.LegalRefine
namespace Jence
open Jence

/-- walking along a line in two occupancies that agree off a set `S`: whatever the walk in `A` reaches inside `S`, the
    walk in `B` reaches something inside `S` too (the first square of `S` on the line) -/
theorem first_hit (occA occB S : Nat → Bool) (hagree : ∀ t, t < 64 → S t = false → occA t = false → occB t = false)
    (df dr : Int) : ∀ (n : Nat) (f r : Int) (k : Nat), k ∈ Spec.walk occA df dr n f r → S k = true →
      ∃ k', S k' = true ∧ k' ∈ Spec.walk occB df dr n f r := by
  intro n
  induction n with
  | zero => intro f r k hk; simp [Spec.walk] at hk
  | succ n ih =>
    intro f r k hk hS
    simp only [Spec.walk] at hk ⊢
    by_cases hb : Spec.onBoard (f + df) (r + dr) = true
    · rw [if_pos hb] at hk ⊢
      have hlt : Spec.sqOf (f + df) (r + dr) < 64 := by
        simp only [Spec.onBoard, Bool.and_eq_true, decide_eq_true_eq] at hb
        unfold Spec.sqOf; omega
      cases hSs : S (Spec.sqOf (f + df) (r + dr))
      · -- the first square is outside `S`
        have hne : k ≠ Spec.sqOf (f + df) (r + dr) := by intro h; rw [h, hSs] at hS; exact absurd hS (by simp)
        cases hoA : occA (Spec.sqOf (f + df) (r + dr))
        · rw [hoA] at hk
          simp only [Bool.false_eq_true, if_false, List.mem_cons] at hk
          rcases hk with hk | hk
          · exact absurd hk hne
          · obtain ⟨k', hk'S, hk'⟩ := ih _ _ k hk hS
            rw [hagree _ hlt hSs hoA]
            exact ⟨k', hk'S, by simp only [Bool.false_eq_true, if_false]; exact List.mem_cons_of_mem _ hk'⟩
        · rw [hoA] at hk
          simp only [if_true, List.mem_singleton] at hk
          exact absurd hk hne
      · refine ⟨_, hSs, ?_⟩
        split
        · exact List.mem_singleton.2 rfl
        · exact List.mem_cons_self
    · rw [if_neg hb] at hk; exact absurd hk (by simp)

theorem first_hit_slide (occA occB S : Nat → Bool) (hagree : ∀ t, t < 64 → S t = false → occA t = false → occB t = false)
    (sq : Nat) (dirs : List (Int × Int)) (k : Nat) (hk : k ∈ Spec.slide occA sq dirs) (hS : S k = true) :
    ∃ k', S k' = true ∧ k' ∈ Spec.slide occB sq dirs := by
  simp only [Spec.slide, List.mem_flatMap] at hk ⊢
  obtain ⟨d, hd, hk⟩ := hk
  obtain ⟨k', h1, h2⟩ := first_hit occA occB S hagree d.1 d.2 _ _ _ k hk hS
  exact ⟨k', h1, d, hd, h2⟩

/-- the same for the attack set of any piece -/
theorem first_hit_attacks (occA occB : UInt64) (S : Nat → Bool)
    (hagree : ∀ t, t < 64 → S t = false → getBit occA t = false → getBit occB t = false)
    (X f k : Nat) (hX : X < 12) (hf : f < 64) (hk : k < 64) (h : getBit (attacksOf occA X f) k = true) (hS : S k = true) :
    ∃ k', k' < 64 ∧ S k' = true ∧ getBit (attacksOf occB X f) k' = true := by
  rw [attacksOf_spec occA X f k hX hf hk] at h
  have lift : ∀ dirs, k ∈ Spec.slide (getBit occA) f dirs → ∃ k', k' < 64 ∧ S k' = true ∧ k' ∈ Spec.slide (getBit occB) f dirs := by
    intro dirs hmem
    obtain ⟨k', h1, h2⟩ := first_hit_slide _ _ S hagree f dirs k hmem hS
    exact ⟨k', slide_lt _ _ _ k' h2, h1, h2⟩
  have back : ∀ k', k' < 64 → k' ∈ Spec.attackedFrom (getBit occB) (pieceOf X) f → getBit (attacksOf occB X f) k' = true :=
    fun k' hk' hm => (attacksOf_spec occB X f k' hX hf hk').2 hm
  have hcases : X = 0 ∨ X = 1 ∨ X = 2 ∨ X = 3 ∨ X = 4 ∨ X = 5 ∨ X = 6 ∨ X = 7 ∨ X = 8 ∨ X = 9 ∨ X = 10 ∨ X = 11 := by omega
  rcases hcases with hx | hx | hx | hx | hx | hx | hx | hx | hx | hx | hx | hx <;> subst hx
  · exact ⟨k, hk, hS, back k hk h⟩
  · exact ⟨k, hk, hS, back k hk h⟩
  · obtain ⟨k', a, b', c⟩ := lift _ h; exact ⟨k', a, b', back k' a c⟩
  · obtain ⟨k', a, b', c⟩ := lift _ h; exact ⟨k', a, b', back k' a c⟩
  · obtain ⟨k', a, b', c⟩ := lift _ h; exact ⟨k', a, b', back k' a c⟩
  · exact ⟨k, hk, hS, back k hk h⟩
  · exact ⟨k, hk, hS, back k hk h⟩
  · exact ⟨k, hk, hS, back k hk h⟩
  · obtain ⟨k', a, b', c⟩ := lift _ h; exact ⟨k', a, b', back k' a c⟩
  · obtain ⟨k', a, b', c⟩ := lift _ h; exact ⟨k', a, b', back k' a c⟩
  · obtain ⟨k', a, b', c⟩ := lift _ h; exact ⟨k', a, b', back k' a c⟩
  · exact ⟨k, hk, hS, back k hk h⟩

/-- attack transfer between two positions with the same attackers and occupancies that agree off `S` -/
theorem attack_transfer (gA gB : Game) (k : Nat) (hk : k < 64) (by_ : Bool) (S : Nat → Bool)
    (hsets : ∀ X f, ownP by_ X → f < 64 → getBit (gA.bb X) f = true → getBit (gB.bb X) f = true)
    (hocc : ∀ t, t < 64 → S t = false → getBit gA.allOcc t = false → getBit gB.allOcc t = false)
    (hS : S k = true) (h : isSquareAttacked gA k by_ = true) :
    ∃ k', k' < 64 ∧ S k' = true ∧ isSquareAttacked gB k' by_ = true := by
  obtain ⟨X, f, hX, hf, hbit, hatt⟩ := attacker_of_attacked gA k hk by_ h
  obtain ⟨k', hk', hS', hatt'⟩ := first_hit_attacks gA.allOcc gB.allOcc S hocc X f k (ownP_lt hX) hf hk hatt hS
  exact ⟨k', hk', hS', attacked_of_attacker gB k' f X hk' hf by_ hX (hsets X f hX hf hbit) hatt'⟩

section castle
variable {g : Game} {b : Board} {m : Move}

/-- facts about a castling move that fits the board -/
theorem castle_facts (wf : Wf g b) (fits : MoveFits b g.white m) (hcs : m.isCastling = true) :
    m.isCapture = false ∧ m.isEnpassant = false ∧ m.promotion = PNONE ∧ m.piece = (if g.white then WK else BK) ∧
    b m.toSq = none ∧ applyB b g.white m m.toSq = some (if g.white then WK else BK) := by
  obtain ⟨hpn, hc, _⟩ := fits.castle hcs
  obtain ⟨_, hp⟩ := fits.castleFrom hcs
  refine ⟨hc, fits.ep_cap hc, hpn, hp, fits.quiet hc, ?_⟩
  rw [applyB_to fits]; unfold landed; rw [if_neg (by simp [hpn]), hp]

theorem enemy_of_other (w : Bool) (X : Nat) (hX : ownP (!w) X) : enemyP w X := by
  unfold ownP at hX; unfold enemyP; cases w <;> simpa using hX

/-- for a quiet move: an enemy piece stands on the tested board where it stood before, and conversely -/
theorem quiet_enemy_iff (fits : MoveFits b g.white m) (hc : m.isCapture = false) (s X : Nat) (hX : enemyP g.white X) :
    preBoard b g.white m s = some X ↔ b s = some X := by
  have hef := fits.ep_cap hc
  have other : s ≠ m.toSq → s ≠ m.fromSq → preBoard b g.white m s = b s :=
    fun h1 h2 => preBoard_other fits s h1 h2 (fun h => by rw [hef] at h; exact absurd h (by simp))
  by_cases h1 : s = m.toSq
  · subst h1
    constructor
    · intro h; unfold preBoard at h; rw [Board.set_same] at h; injection h with h
      rw [← h] at hX; exact absurd fits.piece (fun ho => own_not_enemy ho hX)
    · intro h; rw [fits.quiet hc] at h; exact absurd h (by simp)
  · by_cases h2 : s = m.fromSq
    · subst h2
      constructor
      · intro h
        unfold preBoard at h
        rw [Board.set_ne _ _ _ _ h1, hef] at h
        simp only [Bool.false_eq_true, if_false] at h
        rw [Board.set_same] at h; exact absurd h (by simp)
      · intro h; rw [fits.src] at h; injection h with h
        rw [← h] at hX; exact absurd fits.piece (fun ho => own_not_enemy ho hX)
    · rw [other h1 h2]

/-- the occupancy the check test sees, for a quiet move -/
theorem quiet_pre_occ (hc : m.isCapture = false) :
    (makePre g m).allOcc = setBit (unsetBit g.allOcc m.fromSq) m.toSq := by
  have := (makePre_occ g m).2.2.2
  rw [this, hc]; rfl

/-- **castling and the check test**: with the king's home square safe, `make_search_move` accepts the castling move
    iff the king's target square is safe beforehand; and if it accepts, the king is not in check afterwards -/
theorem castle_accept (wf : Wf g b) (fits : MoveFits b g.white m) (hcs : m.isCastling = true)
    (hsafe : isSquareAttacked g m.fromSq (!g.white) = false) :
    (isInCheck (makePre g m) g.white = false ↔ isSquareAttacked g m.toSq (!g.white) = false) ∧
    (isInCheck (makePre g m) g.white = false → isInCheck (makeForce g m) g.white = false) := by
  obtain ⟨hc, hef, hpn, hp, hto, hbto⟩ := castle_facts wf fits hcs
  have wf' := makeForce_wf g m b wf fits
  have hpre := makePre_rep' g m b wf.rep fits
  have hfl := fits.fromLt
  have htl := fits.toLt
  obtain ⟨k, hk, hbk, htz1, htz2⟩ := pre_king_square wf fits
  -- the king stands on the castling target
  have hkto : k = m.toSq := by
    cases hw : g.white
    · have e : (if g.white then WK else BK) = BK := by rw [hw]; rfl
      rw [e] at hbk hbto
      obtain ⟨k', _, _, hu⟩ := wf'.ok.bking
      exact (hu k hk hbk).trans (hu _ htl hbto).symm
    · have e : (if g.white then WK else BK) = WK := by rw [hw]; rfl
      rw [e] at hbk hbto
      obtain ⟨k', _, _, hu⟩ := wf'.ok.wking
      exact (hu k hk hbk).trans (hu _ htl hbto).symm
  subst hkto
  have hchk1 : isInCheck (makePre g m) g.white = isSquareAttacked (makePre g m) m.toSq (!g.white) := by
    unfold isInCheck
    cases hw : g.white
    · rw [hw] at htz1; simp only [Bool.false_eq_true, if_false] at htz1 ⊢; rw [htz1]; rfl
    · rw [hw] at htz1; simp only [if_true] at htz1 ⊢; rw [htz1]; rfl
  have hchk2 : isInCheck (makeForce g m) g.white = isSquareAttacked (makeForce g m) m.toSq (!g.white) := by
    unfold isInCheck
    cases hw : g.white
    · rw [hw] at htz2; simp only [Bool.false_eq_true, if_false] at htz2 ⊢; rw [htz2]; rfl
    · rw [hw] at htz2; simp only [if_true] at htz2 ⊢; rw [htz2]; rfl
  have bit0 : ∀ q t, q < 12 → t < 64 → getBit (g.bb q) t = decide (b t = some q) := fun q t hq ht => rep_bit _ _ wf.rep q t hq ht
  have bit1 : ∀ q t, q < 12 → t < 64 → getBit ((makePre g m).bb q) t = decide (preBoard b g.white m t = some q) :=
    fun q t hq ht => rep_bit _ _ hpre q t hq ht
  have bit2 : ∀ q t, q < 12 → t < 64 → getBit ((makeForce g m).bb q) t = decide (applyB b g.white m t = some q) :=
    fun q t hq ht => rep_bit _ _ wf'.rep q t hq ht
  have hocc1 := quiet_pre_occ (g := g) hc
  -- (a) attacked before => attacked in the tested position
  have ha : isSquareAttacked g m.toSq (!g.white) = true → isSquareAttacked (makePre g m) m.toSq (!g.white) = true := by
    intro h
    obtain ⟨k', hk', hS, hatt⟩ := attack_transfer g (makePre g m) m.toSq htl (!g.white) (fun t => t == m.toSq)
      (fun X f hX hf hbit => by
        rw [bit0 X f (ownP_lt hX) hf] at hbit
        rw [bit1 X f (ownP_lt hX) hf, (quiet_enemy_iff fits hc f X (enemy_of_other _ X hX)).2 (by simpa using hbit)]; simp)
      (fun t ht hS hocc => by
        have hne : ¬ m.toSq = t := fun h => by simp [h] at hS
        rw [hocc1, getBit_setBit _ _ _ htl ht, getBit_unsetBit _ _ _ hfl ht, hocc]; simp [hne])
      (by simp) h
    have : k' = m.toSq := by simpa using hS
    rw [this] at hatt; exact hatt
  -- (c) attacked in the tested position => the target or the home square was attacked before
  have hcc : isSquareAttacked (makePre g m) m.toSq (!g.white) = true →
      isSquareAttacked g m.toSq (!g.white) = true ∨ isSquareAttacked g m.fromSq (!g.white) = true := by
    intro h
    obtain ⟨k', hk', hS, hatt⟩ := attack_transfer (makePre g m) g m.toSq htl (!g.white) (fun t => t == m.fromSq || t == m.toSq)
      (fun X f hX hf hbit => by
        rw [bit1 X f (ownP_lt hX) hf] at hbit
        rw [bit0 X f (ownP_lt hX) hf, (quiet_enemy_iff fits hc f X (enemy_of_other _ X hX)).1 (by simpa using hbit)]; simp)
      (fun t ht hS hocc => by
        simp only [Bool.or_eq_false_iff, beq_eq_false_iff_ne, ne_eq] at hS
        rw [hocc1, getBit_setBit _ _ _ htl ht, getBit_unsetBit _ _ _ hfl ht] at hocc
        have h1 : ¬ m.toSq = t := fun h => hS.2 h.symm
        have h2 : m.fromSq ≠ t := fun h => hS.1 h.symm
        simpa [h1, h2] using hocc)
      (by simp) h
    simp only [Bool.or_eq_true, beq_iff_eq] at hS
    rcases hS with hS | hS
    · right; rw [← hS]; exact hatt
    · left; rw [← hS]; exact hatt
  -- (b) attacked afterwards => attacked in the tested position
  have hb : isSquareAttacked (makeForce g m) m.toSq (!g.white) = true → isSquareAttacked (makePre g m) m.toSq (!g.white) = true := by
    intro h
    obtain ⟨X, f, hX, hf, hbit, hatt⟩ := attacker_of_attacked _ m.toSq htl _ h
    have hX12 := ownP_lt hX
    rw [bit2 X f hX12 hf] at hbit
    have h1X := post_to_pre fits f X (by simpa using hbit) (Or.inl (enemy_of_other _ X hX))
    obtain ⟨_, _, r, rf, rt, hhop, hbf, hbt, hff, hft, hro, hpr⟩ := fits.castle hcs
    obtain ⟨_, _, q3⟩ := makePost_occ_castle (makePre g m) m hpn hcs r rf rt hhop
    obtain ⟨n1, n2, n3, _, hrfl, hrtl⟩ := rookHop_ne _ _ _ _ hhop
    have hatt1 : getBit (attacksOf (makePre g m).allOcc X f) m.toSq = true := by
      have hq3 : (makeForce g m).allOcc = unsetBit (setBit (makePre g m).allOcc rt) rf := q3
      rw [hq3] at hatt
      refine attacks_castle _ _ m.toSq rf rt f X htl hf (rookHop_pairs _ _ _ _ hhop) ?_ ?_ hatt
      · intro t ht h1 h2
        rw [getBit_unsetBit _ _ _ hrfl ht, getBit_setBit _ _ _ hrtl ht]
        have a1 : ¬ rt = t := fun h => h2 h.symm
        have a2 : rf ≠ t := fun h => h1 h.symm
        simp [a1, a2]
      · rw [hocc1, getBit_setBit _ _ _ htl hrtl, getBit_unsetBit _ _ _ hfl hrtl]
        have hocc := wf.occA rt hrtl
        rw [hbt] at hocc
        have a1 : ¬ m.toSq = rt := fun h => n2 h.symm
        simp [hocc, a1]
    exact attacked_of_attacker _ m.toSq f X htl hf _ hX (by rw [bit1 X f hX12 hf, h1X]; simp) hatt1
  rw [hchk1, hchk2]
  constructor
  · constructor
    · intro h
      cases h' : isSquareAttacked g m.toSq (!g.white)
      · rfl
      · rw [ha h'] at h; exact absurd h (by simp)
    · intro h
      cases h' : isSquareAttacked (makePre g m) m.toSq (!g.white)
      · rfl
      · rcases hcc h' with h'' | h''
        · rw [h] at h''; exact absurd h'' (by simp)
        · rw [hsafe] at h''; exact absurd h'' (by simp)
  · intro h
    cases h' : isSquareAttacked (makeForce g m) m.toSq (!g.white)
    · rfl
    · rw [hb h'] at h; exact absurd h (by simp)

end castle

set_option maxRecDepth 100000 in
/-- the four "squares between king and rook" masks of `generate_moves`, bit by bit -/
theorem castle_masks : ∀ t, t < 64 →
    getBit (6917529027641081856 : UInt64) t = (t == 61 || t == 62) ∧
    getBit (1008806316530991104 : UInt64) t = (t == 57 || t == 58 || t == 59) ∧
    getBit (96 : UInt64) t = (t == 5 || t == 6) ∧
    getBit (14 : UInt64) t = (t == 1 || t == 2 || t == 3) := by decide +kernel

theorem isEmpty_and_iff (a mask : UInt64) : isEmpty (a &&& mask) = true ↔ ∀ t, t < 64 → getBit mask t = true → getBit a t = false := by
  constructor
  · intro h t ht hm; exact isEmpty_and a mask h t ht hm
  · intro h
    have : a &&& mask = 0 := by
      apply ext_getBit
      intro t ht
      rw [getBit_and _ _ _ ht, getBit_zero t ht]
      cases hm : getBit mask t
      · simp
      · rw [h t ht hm]; rfl
    simp [isEmpty, this]

section side
variable {g : Game} {b : Board}

/-- one castling move: the rules' conditions plus "not in check afterwards" are the generator's conditions plus the
    check test of `make_search_move` -/
theorem castle_side (wf : Wf g b) (mC : Move) (eCond sCond : Bool)
    (hmem : eCond = true → mC ∈ castlingMoves g true) (hcs : mC.isCastling = true)
    (hfrom : eCond = true → isSquareAttacked g mC.fromSq (!g.white) = false)
    (hrel : sCond = (eCond && !isSquareAttacked g mC.toSq (!g.white))) :
    (sCond && !Spec.inCheck (Spec.apply (Spec.abs g) (smove mC)) g.white) = (eCond && (makeCore g mC).isSome) := by
  cases he : eCond
  · rw [hrel, he]; rfl
  · have fits := castlingMoves_fits wf true mC (hmem he)
    have flags : FlagsTrue b g.white g.ep mC := castlingMoves_flags true mC (hmem he)
    obtain ⟨hacc, hpost⟩ := castle_accept wf fits hcs (hfrom he)
    have hin : Spec.inCheck (Spec.apply (Spec.abs g) (smove mC)) g.white = isInCheck (makeForce g mC) g.white := by
      rw [inCheck_refines (makeForce_wf g mC b wf fits), inCheck_board _ _ (apply_board wf fits flags)]
    rw [hrel, he, hin, makeCore_eq, (makePre_wc g mC).1]
    simp only [Bool.true_and]
    cases h1 : isInCheck (makePre g mC) g.white
    · have h2 := hacc.1 h1
      have h3 := hpost h1
      rw [h2, h3]; rfl
    · have h2 : isSquareAttacked g mC.toSq (!g.white) = true := by
        cases h : isSquareAttacked g mC.toSq (!g.white)
        · rw [hacc.2 h] at h1; exact absurd h1 (by simp)
        · rfl
      rw [h2]; rfl

end side

theorem and_true_split {x y : Bool} (h : (x && y) = true) : x = true ∧ y = true := by
  cases x <;> cases y <;> simp_all

theorem two_lists_exists {α : Type} (c1 c2 : Bool) (x1 x2 : α) (P : α → Prop) :
    (∃ m ∈ (if c1 = true then [x1] else []) ++ (if c2 = true then [x2] else []), P m) ↔ (c1 = true ∧ P x1) ∨ (c2 = true ∧ P x2) := by
  cases c1 <;> cases c2 <;> simp

theorem two_lists_filter {α : Type} (c1 c2 : Bool) (x1 x2 sm : α) (q : α → Bool) :
    sm ∈ ((if c1 = true then [x1] else []) ++ (if c2 = true then [x2] else [])).filter q ↔
      (c1 = true ∧ q x1 = true ∧ sm = x1) ∨ (c2 = true ∧ q x2 = true ∧ sm = x2) := by
  rw [List.mem_filter, List.mem_append]
  constructor
  · rintro ⟨h | h, hq⟩
    · cases c1
      · simp at h
      · simp only [if_true, List.mem_singleton] at h; subst h; exact Or.inl ⟨rfl, hq, rfl⟩
    · cases c2
      · simp at h
      · simp only [if_true, List.mem_singleton] at h; subst h; exact Or.inr ⟨rfl, hq, rfl⟩
  · rintro (⟨h1, h2, rfl⟩ | ⟨h1, h2, rfl⟩)
    · exact ⟨Or.inl (by rw [h1]; simp), h2⟩
    · exact ⟨Or.inr (by rw [h1]; simp), h2⟩

section lists
variable {g : Game} {b : Board}

theorem free_of_mask (wf : Wf g b) (mask : UInt64) : isEmpty (g.allOcc &&& mask) = true ↔
    ∀ t, t < 64 → getBit mask t = true → Spec.occupiedIn (Spec.abs g) t = false := by
  rw [isEmpty_and_iff]
  constructor
  · intro h t ht hm; rw [abs_occupied wf t ht]; exact h t ht hm
  · intro h t ht hm; rw [← abs_occupied wf t ht]; exact h t ht hm

theorem bool_eq_of_iff {a c : Bool} (h : a = true ↔ c = true) : a = c := by
  cases a <;> cases c <;> simp_all

/-- the rules' condition for one castling move equals the generator's condition and "target square not attacked" -/
theorem castle_cond (wf : Wf g b) (right : Bool) (ksq rsq tsq msq : Nat) (K R : Nat) (by_ : Bool) (mask : UInt64) (fr : Bool)
    (hks : ksq < 64) (hts : tsq < 64) (hms : msq < 64)
    (hhome : right = true → b ksq = some K ∧ b rsq = some R)
    (hK : Spec.at_ (Spec.abs g) ksq = (b ksq).map pieceOf) (hR : Spec.at_ (Spec.abs g) rsq = (b rsq).map pieceOf)
    (pK pR : Spec.Piece) (hpK : pieceOf K = pK) (hpR : pieceOf R = pR)
    (hfree : isEmpty (g.allOcc &&& mask) = fr) :
    (right && Spec.at_ (Spec.abs g) ksq == some pK && Spec.at_ (Spec.abs g) rsq == some pR &&
        fr &&
        (!Spec.attacked (Spec.abs g) ksq by_ && (!Spec.attacked (Spec.abs g) msq by_ && !Spec.attacked (Spec.abs g) tsq by_))) =
      ((right && isEmpty (g.allOcc &&& mask) && !isSquareAttacked g ksq by_ && !isSquareAttacked g msq by_) &&
        !isSquareAttacked g tsq by_) := by
  rw [← attacked_refines wf ksq hks, ← attacked_refines wf msq hms, ← attacked_refines wf tsq hts, hfree]
  cases hr : right
  · simp
  · obtain ⟨h1, h2⟩ := hhome hr
    rw [hK, hR, h1, h2]
    simp only [Option.map_some, hpK, hpR, beq_self_eq_true, Bool.true_and, Bool.and_assoc]

theorem occ_free2 (wf : Wf g b) (mask : UInt64) (s1 s2 : Nat) (h1 : s1 < 64) (h2 : s2 < 64)
    (hm : ∀ t, t < 64 → getBit mask t = (t == s1 || t == s2)) :
    isEmpty (g.allOcc &&& mask) = (!Spec.occupiedIn (Spec.abs g) s1 && !Spec.occupiedIn (Spec.abs g) s2) := by
  apply bool_eq_of_iff
  rw [free_of_mask wf]
  simp only [Bool.and_eq_true, Bool.not_eq_true']
  constructor
  · intro h; exact ⟨h s1 h1 (by rw [hm s1 h1]; simp), h s2 h2 (by rw [hm s2 h2]; simp)⟩
  · rintro ⟨a, c⟩ t ht hmt
    rw [hm t ht] at hmt
    simp only [Bool.or_eq_true, beq_iff_eq] at hmt
    rcases hmt with h | h <;> subst h <;> assumption

theorem occ_free3 (wf : Wf g b) (mask : UInt64) (s1 s2 s3 : Nat) (h1 : s1 < 64) (h2 : s2 < 64) (h3 : s3 < 64)
    (hm : ∀ t, t < 64 → getBit mask t = (t == s1 || t == s2 || t == s3)) :
    isEmpty (g.allOcc &&& mask) =
      (!Spec.occupiedIn (Spec.abs g) s1 && (!Spec.occupiedIn (Spec.abs g) s2 && !Spec.occupiedIn (Spec.abs g) s3)) := by
  apply bool_eq_of_iff
  rw [free_of_mask wf]
  simp only [Bool.and_eq_true, Bool.not_eq_true']
  constructor
  · intro h; exact ⟨h s1 h1 (by rw [hm s1 h1]; simp), h s2 h2 (by rw [hm s2 h2]; simp), h s3 h3 (by rw [hm s3 h3]; simp)⟩
  · rintro ⟨a, c, d⟩ t ht hmt
    rw [hm t ht] at hmt
    simp only [Bool.or_eq_true, beq_iff_eq] at hmt
    rcases hmt with (h | h) | h <;> subst h <;> assumption

/-- **castling, White to move**: the rules' legal castling moves are the `smove`s of the generator's castling moves
    that `make_search_move` accepts -/
theorem castle_refines_white (wf : Wf g b) (hw : g.white = true) (sm : Spec.SMove) :
    sm ∈ (Spec.castlingMoves (Spec.abs g)).filter (fun sm => !Spec.inCheck (Spec.apply (Spec.abs g) sm) g.white) ↔
      ∃ m ∈ castlingMoves g true, smove m = sm ∧ (makeCore g m).isSome = true := by
  have hpw : (Spec.abs g).white = true := hw
  have e1 := castle_cond wf (g.castling &&& 1 != 0) 60 63 62 61 WK WR false 6917529027641081856 _ (by decide) (by decide) (by decide)
    (fun h => wf.ok.castle1 (bne_zero h)) (abs_at wf 60 (by decide)) (abs_at wf 63 (by decide)) ⟨true, .king⟩ ⟨true, .rook⟩ rfl rfl
    (occ_free2 wf _ 61 62 (by decide) (by decide) (fun t ht => (castle_masks t ht).1))
  have e2 := castle_cond wf (g.castling &&& 2 != 0) 60 56 58 59 WK WR false 1008806316530991104 _ (by decide) (by decide) (by decide)
    (fun h => wf.ok.castle2 (bne_zero h)) (abs_at wf 60 (by decide)) (abs_at wf 56 (by decide)) ⟨true, .king⟩ ⟨true, .rook⟩ rfl rfl
    (occ_free3 wf _ 57 58 59 (by decide) (by decide) (by decide) (fun t ht => (castle_masks t ht).2.1))
  have hcm : castlingMoves g true =
      (if (g.castling &&& 1 != 0 && isEmpty (g.allOcc &&& 6917529027641081856) && !isSquareAttacked g 60 false && !isSquareAttacked g 61 false) = true then [Move.mk' 60 62 WK PNONE false false false true] else []) ++
      (if (g.castling &&& 2 != 0 && isEmpty (g.allOcc &&& 1008806316530991104) && !isSquareAttacked g 60 false && !isSquareAttacked g 59 false) = true then [Move.mk' 60 58 WK PNONE false false false true] else []) := by
    unfold castlingMoves; simp only [Bool.not_true, Bool.false_eq_true, if_false, hw, if_true]
  obtain ⟨a1, a2, _, _, _, _, _, a8⟩ := mk_fields 60 62 WK PNONE false false false true (by decide) (by decide) (by decide) (by decide)
  obtain ⟨c1, c2, _, _, _, _, _, c8⟩ := mk_fields 60 58 WK PNONE false false false true (by decide) (by decide) (by decide) (by decide)
  have s1 : smove (Move.mk' 60 62 WK PNONE false false false true) = ⟨60, 62, none⟩ := smove_mk _ _ _ _ _ _ _ _ (by decide) (by decide) (by decide) (by decide)
  have s2 : smove (Move.mk' 60 58 WK PNONE false false false true) = ⟨60, 58, none⟩ := smove_mk _ _ _ _ _ _ _ _ (by decide) (by decide) (by decide) (by decide)
  have k1 : (((g.castling &&& 1 != 0) && Spec.at_ (Spec.abs g) 60 == some ⟨true, .king⟩ && Spec.at_ (Spec.abs g) 63 == some ⟨true, .rook⟩ && (!Spec.occupiedIn (Spec.abs g) 61 && !Spec.occupiedIn (Spec.abs g) 62) && (!Spec.attacked (Spec.abs g) 60 false && (!Spec.attacked (Spec.abs g) 61 false && !Spec.attacked (Spec.abs g) 62 false))) && !Spec.inCheck (Spec.apply (Spec.abs g) ⟨60, 62, none⟩) true) =
      ((g.castling &&& 1 != 0 && isEmpty (g.allOcc &&& 6917529027641081856) && !isSquareAttacked g 60 false && !isSquareAttacked g 61 false) && (makeCore g (Move.mk' 60 62 WK PNONE false false false true)).isSome) := by
    have := castle_side wf (Move.mk' 60 62 WK PNONE false false false true) (g.castling &&& 1 != 0 && isEmpty (g.allOcc &&& 6917529027641081856) && !isSquareAttacked g 60 false && !isSquareAttacked g 61 false)
      ((g.castling &&& 1 != 0) && Spec.at_ (Spec.abs g) 60 == some ⟨true, .king⟩ && Spec.at_ (Spec.abs g) 63 == some ⟨true, .rook⟩ && (!Spec.occupiedIn (Spec.abs g) 61 && !Spec.occupiedIn (Spec.abs g) 62) && (!Spec.attacked (Spec.abs g) 60 false && (!Spec.attacked (Spec.abs g) 61 false && !Spec.attacked (Spec.abs g) 62 false)))
      (fun h => by rw [hcm]; exact List.mem_append_left _ (by rw [if_pos h]; exact List.mem_singleton.2 rfl)) a8
      (fun h => by rw [a1, hw]; simp only [Bool.and_eq_true, Bool.not_eq_true', Bool.not_true] at h ⊢; exact h.1.2)
      (by rw [a2, hw]; simp only [Bool.not_true]; exact e1)
    rw [s1, hw] at this; exact this
  have k2 : (((g.castling &&& 2 != 0) && Spec.at_ (Spec.abs g) 60 == some ⟨true, .king⟩ && Spec.at_ (Spec.abs g) 56 == some ⟨true, .rook⟩ && (!Spec.occupiedIn (Spec.abs g) 57 && (!Spec.occupiedIn (Spec.abs g) 58 && !Spec.occupiedIn (Spec.abs g) 59)) && (!Spec.attacked (Spec.abs g) 60 false && (!Spec.attacked (Spec.abs g) 59 false && !Spec.attacked (Spec.abs g) 58 false))) && !Spec.inCheck (Spec.apply (Spec.abs g) ⟨60, 58, none⟩) true) =
      ((g.castling &&& 2 != 0 && isEmpty (g.allOcc &&& 1008806316530991104) && !isSquareAttacked g 60 false && !isSquareAttacked g 59 false) && (makeCore g (Move.mk' 60 58 WK PNONE false false false true)).isSome) := by
    have := castle_side wf (Move.mk' 60 58 WK PNONE false false false true) (g.castling &&& 2 != 0 && isEmpty (g.allOcc &&& 1008806316530991104) && !isSquareAttacked g 60 false && !isSquareAttacked g 59 false)
      ((g.castling &&& 2 != 0) && Spec.at_ (Spec.abs g) 60 == some ⟨true, .king⟩ && Spec.at_ (Spec.abs g) 56 == some ⟨true, .rook⟩ && (!Spec.occupiedIn (Spec.abs g) 57 && (!Spec.occupiedIn (Spec.abs g) 58 && !Spec.occupiedIn (Spec.abs g) 59)) && (!Spec.attacked (Spec.abs g) 60 false && (!Spec.attacked (Spec.abs g) 59 false && !Spec.attacked (Spec.abs g) 58 false)))
      (fun h => by rw [hcm]; exact List.mem_append_right _ (by rw [if_pos h]; exact List.mem_singleton.2 rfl)) c8
      (fun h => by rw [c1, hw]; simp only [Bool.and_eq_true, Bool.not_eq_true', Bool.not_true] at h ⊢; exact h.1.2)
      (by rw [c2, hw]; simp only [Bool.not_true]; exact e2)
    rw [s2, hw] at this; exact this
  have hspec : Spec.castlingMoves (Spec.abs g) =
      (if ((Spec.abs g).wk && Spec.at_ (Spec.abs g) 60 == some ⟨true, .king⟩ && Spec.at_ (Spec.abs g) 63 == some ⟨true, .rook⟩ && (!Spec.occupiedIn (Spec.abs g) 61 && !Spec.occupiedIn (Spec.abs g) 62) && (!Spec.attacked (Spec.abs g) 60 false && (!Spec.attacked (Spec.abs g) 61 false && !Spec.attacked (Spec.abs g) 62 false))) = true then [(⟨60, 62, none⟩ : Spec.SMove)] else []) ++
      (if ((Spec.abs g).wq && Spec.at_ (Spec.abs g) 60 == some ⟨true, .king⟩ && Spec.at_ (Spec.abs g) 56 == some ⟨true, .rook⟩ && (!Spec.occupiedIn (Spec.abs g) 57 && (!Spec.occupiedIn (Spec.abs g) 58 && !Spec.occupiedIn (Spec.abs g) 59)) && (!Spec.attacked (Spec.abs g) 60 false && (!Spec.attacked (Spec.abs g) 59 false && !Spec.attacked (Spec.abs g) 58 false))) = true then [(⟨60, 58, none⟩ : Spec.SMove)] else []) := by
    unfold Spec.castlingMoves
    simp only [hpw, if_true, Nat.reduceAdd, Bool.not_true, List.all_cons, List.all_nil, Bool.and_true]
  rw [hspec, hcm, two_lists_filter, two_lists_exists]
  have hr1 : (Spec.abs g).wk = (g.castling &&& 1 != 0) := rfl
  have hr2 : (Spec.abs g).wq = (g.castling &&& 2 != 0) := rfl
  rw [hr1, hr2, hw]
  constructor
  · rintro (⟨h1, h2, rfl⟩ | ⟨h1, h2, rfl⟩)
    · have := k1; rw [h1, h2] at this
      have h3 := and_true_split this.symm
      exact Or.inl ⟨h3.1, s1, h3.2⟩
    · have := k2; rw [h1, h2] at this
      have h3 := and_true_split this.symm
      exact Or.inr ⟨h3.1, s2, h3.2⟩
  · rintro (⟨h1, h2, h3⟩ | ⟨h1, h2, h3⟩)
    · have := k1; rw [h1, h3] at this
      have this := and_true_split this
      exact Or.inl ⟨this.1, this.2, by rw [← h2, s1]⟩
    · have := k2; rw [h1, h3] at this
      have this := and_true_split this
      exact Or.inr ⟨this.1, this.2, by rw [← h2, s2]⟩

/-- **castling, Black to move**: the rules' legal castling moves are the `smove`s of the generator's castling moves
    that `make_search_move` accepts -/
theorem castle_refines_black (wf : Wf g b) (hw : g.white = false) (sm : Spec.SMove) :
    sm ∈ (Spec.castlingMoves (Spec.abs g)).filter (fun sm => !Spec.inCheck (Spec.apply (Spec.abs g) sm) g.white) ↔
      ∃ m ∈ castlingMoves g true, smove m = sm ∧ (makeCore g m).isSome = true := by
  have hpw : (Spec.abs g).white = false := hw
  have e1 := castle_cond wf (g.castling &&& 4 != 0) 4 7 6 5 BK BR true 96 _ (by decide) (by decide) (by decide)
    (fun h => wf.ok.castle4 (bne_zero h)) (abs_at wf 4 (by decide)) (abs_at wf 7 (by decide)) ⟨false, .king⟩ ⟨false, .rook⟩ rfl rfl
    (occ_free2 wf _ 5 6 (by decide) (by decide) (fun t ht => (castle_masks t ht).2.2.1))
  have e2 := castle_cond wf (g.castling &&& 8 != 0) 4 0 2 3 BK BR true 14 _ (by decide) (by decide) (by decide)
    (fun h => wf.ok.castle8 (bne_zero h)) (abs_at wf 4 (by decide)) (abs_at wf 0 (by decide)) ⟨false, .king⟩ ⟨false, .rook⟩ rfl rfl
    (occ_free3 wf _ 1 2 3 (by decide) (by decide) (by decide) (fun t ht => (castle_masks t ht).2.2.2))
  have hcm : castlingMoves g true =
      (if (g.castling &&& 4 != 0 && isEmpty (g.allOcc &&& 96) && !isSquareAttacked g 4 true && !isSquareAttacked g 5 true) = true then [Move.mk' 4 6 BK PNONE false false false true] else []) ++
      (if (g.castling &&& 8 != 0 && isEmpty (g.allOcc &&& 14) && !isSquareAttacked g 4 true && !isSquareAttacked g 3 true) = true then [Move.mk' 4 2 BK PNONE false false false true] else []) := by
    unfold castlingMoves; simp only [Bool.not_true, Bool.false_eq_true, if_false, hw, Bool.false_eq_true, if_false]
  obtain ⟨a1, a2, _, _, _, _, _, a8⟩ := mk_fields 4 6 BK PNONE false false false true (by decide) (by decide) (by decide) (by decide)
  obtain ⟨c1, c2, _, _, _, _, _, c8⟩ := mk_fields 4 2 BK PNONE false false false true (by decide) (by decide) (by decide) (by decide)
  have s1 : smove (Move.mk' 4 6 BK PNONE false false false true) = ⟨4, 6, none⟩ := smove_mk _ _ _ _ _ _ _ _ (by decide) (by decide) (by decide) (by decide)
  have s2 : smove (Move.mk' 4 2 BK PNONE false false false true) = ⟨4, 2, none⟩ := smove_mk _ _ _ _ _ _ _ _ (by decide) (by decide) (by decide) (by decide)
  have k1 : (((g.castling &&& 4 != 0) && Spec.at_ (Spec.abs g) 4 == some ⟨false, .king⟩ && Spec.at_ (Spec.abs g) 7 == some ⟨false, .rook⟩ && (!Spec.occupiedIn (Spec.abs g) 5 && !Spec.occupiedIn (Spec.abs g) 6) && (!Spec.attacked (Spec.abs g) 4 true && (!Spec.attacked (Spec.abs g) 5 true && !Spec.attacked (Spec.abs g) 6 true))) && !Spec.inCheck (Spec.apply (Spec.abs g) ⟨4, 6, none⟩) false) =
      ((g.castling &&& 4 != 0 && isEmpty (g.allOcc &&& 96) && !isSquareAttacked g 4 true && !isSquareAttacked g 5 true) && (makeCore g (Move.mk' 4 6 BK PNONE false false false true)).isSome) := by
    have := castle_side wf (Move.mk' 4 6 BK PNONE false false false true) (g.castling &&& 4 != 0 && isEmpty (g.allOcc &&& 96) && !isSquareAttacked g 4 true && !isSquareAttacked g 5 true)
      ((g.castling &&& 4 != 0) && Spec.at_ (Spec.abs g) 4 == some ⟨false, .king⟩ && Spec.at_ (Spec.abs g) 7 == some ⟨false, .rook⟩ && (!Spec.occupiedIn (Spec.abs g) 5 && !Spec.occupiedIn (Spec.abs g) 6) && (!Spec.attacked (Spec.abs g) 4 true && (!Spec.attacked (Spec.abs g) 5 true && !Spec.attacked (Spec.abs g) 6 true)))
      (fun h => by rw [hcm]; exact List.mem_append_left _ (by rw [if_pos h]; exact List.mem_singleton.2 rfl)) a8
      (fun h => by rw [a1, hw]; simp only [Bool.and_eq_true, Bool.not_eq_true', Bool.not_false] at h ⊢; exact h.1.2)
      (by rw [a2, hw]; simp only [Bool.not_false]; exact e1)
    rw [s1, hw] at this; exact this
  have k2 : (((g.castling &&& 8 != 0) && Spec.at_ (Spec.abs g) 4 == some ⟨false, .king⟩ && Spec.at_ (Spec.abs g) 0 == some ⟨false, .rook⟩ && (!Spec.occupiedIn (Spec.abs g) 1 && (!Spec.occupiedIn (Spec.abs g) 2 && !Spec.occupiedIn (Spec.abs g) 3)) && (!Spec.attacked (Spec.abs g) 4 true && (!Spec.attacked (Spec.abs g) 3 true && !Spec.attacked (Spec.abs g) 2 true))) && !Spec.inCheck (Spec.apply (Spec.abs g) ⟨4, 2, none⟩) false) =
      ((g.castling &&& 8 != 0 && isEmpty (g.allOcc &&& 14) && !isSquareAttacked g 4 true && !isSquareAttacked g 3 true) && (makeCore g (Move.mk' 4 2 BK PNONE false false false true)).isSome) := by
    have := castle_side wf (Move.mk' 4 2 BK PNONE false false false true) (g.castling &&& 8 != 0 && isEmpty (g.allOcc &&& 14) && !isSquareAttacked g 4 true && !isSquareAttacked g 3 true)
      ((g.castling &&& 8 != 0) && Spec.at_ (Spec.abs g) 4 == some ⟨false, .king⟩ && Spec.at_ (Spec.abs g) 0 == some ⟨false, .rook⟩ && (!Spec.occupiedIn (Spec.abs g) 1 && (!Spec.occupiedIn (Spec.abs g) 2 && !Spec.occupiedIn (Spec.abs g) 3)) && (!Spec.attacked (Spec.abs g) 4 true && (!Spec.attacked (Spec.abs g) 3 true && !Spec.attacked (Spec.abs g) 2 true)))
      (fun h => by rw [hcm]; exact List.mem_append_right _ (by rw [if_pos h]; exact List.mem_singleton.2 rfl)) c8
      (fun h => by rw [c1, hw]; simp only [Bool.and_eq_true, Bool.not_eq_true', Bool.not_false] at h ⊢; exact h.1.2)
      (by rw [c2, hw]; simp only [Bool.not_false]; exact e2)
    rw [s2, hw] at this; exact this
  have hspec : Spec.castlingMoves (Spec.abs g) =
      (if ((Spec.abs g).bk && Spec.at_ (Spec.abs g) 4 == some ⟨false, .king⟩ && Spec.at_ (Spec.abs g) 7 == some ⟨false, .rook⟩ && (!Spec.occupiedIn (Spec.abs g) 5 && !Spec.occupiedIn (Spec.abs g) 6) && (!Spec.attacked (Spec.abs g) 4 true && (!Spec.attacked (Spec.abs g) 5 true && !Spec.attacked (Spec.abs g) 6 true))) = true then [(⟨4, 6, none⟩ : Spec.SMove)] else []) ++
      (if ((Spec.abs g).bq && Spec.at_ (Spec.abs g) 4 == some ⟨false, .king⟩ && Spec.at_ (Spec.abs g) 0 == some ⟨false, .rook⟩ && (!Spec.occupiedIn (Spec.abs g) 1 && (!Spec.occupiedIn (Spec.abs g) 2 && !Spec.occupiedIn (Spec.abs g) 3)) && (!Spec.attacked (Spec.abs g) 4 true && (!Spec.attacked (Spec.abs g) 3 true && !Spec.attacked (Spec.abs g) 2 true))) = true then [(⟨4, 2, none⟩ : Spec.SMove)] else []) := by
    unfold Spec.castlingMoves
    simp only [hpw, Bool.false_eq_true, if_false, Nat.reduceAdd, Bool.not_false, List.all_cons, List.all_nil, Bool.and_true]
  rw [hspec, hcm, two_lists_filter, two_lists_exists]
  have hr1 : (Spec.abs g).bk = (g.castling &&& 4 != 0) := rfl
  have hr2 : (Spec.abs g).bq = (g.castling &&& 8 != 0) := rfl
  rw [hr1, hr2, hw]
  constructor
  · rintro (⟨h1, h2, rfl⟩ | ⟨h1, h2, rfl⟩)
    · have := k1; rw [h1, h2] at this
      have h3 := and_true_split this.symm
      exact Or.inl ⟨h3.1, s1, h3.2⟩
    · have := k2; rw [h1, h2] at this
      have h3 := and_true_split this.symm
      exact Or.inr ⟨h3.1, s2, h3.2⟩
  · rintro (⟨h1, h2, h3⟩ | ⟨h1, h2, h3⟩)
    · have := k1; rw [h1, h3] at this
      have this := and_true_split this
      exact Or.inl ⟨this.1, this.2, by rw [← h2, s1]⟩
    · have := k2; rw [h1, h3] at this
      have this := and_true_split this
      exact Or.inr ⟨this.1, this.2, by rw [← h2, s2]⟩

end lists

end Jence
