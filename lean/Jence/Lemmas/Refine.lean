/-
  The abstraction map `Spec.abs` on a consistent position: square by square it is the board `b`; the occupancy function
  of the rules position is the engine's combined occupancy set.
-/
import Jence.Lemmas.NoKing
import Jence.Spec.Oracle
namespace Jence
open Jence

/-- the rules' piece for a piece index -/
def pieceOf (q : Nat) : Spec.Piece := ⟨decide (q < 6), Spec.kindOfIndex q⟩

theorem find?_range_none (n : Nat) (p : Nat → Bool) (h : ∀ j, j < n → p j = false) : (List.range n).find? p = none := by
  rw [List.find?_eq_none]
  intro x hx; rw [List.mem_range] at hx; simp [h x hx]

theorem find?_range_unique (n q : Nat) (p : Nat → Bool) (hq : q < n) (hp : p q = true) (hu : ∀ j, j < n → p j = true → j = q) :
    (List.range n).find? p = some q := by
  induction n with
  | zero => omega
  | succ n ih =>
    rw [List.range_succ, List.find?_append]
    by_cases hqn : q = n
    · subst hqn
      rw [find?_range_none q p (fun j hj => by
        cases h : p j
        · rfl
        · exact absurd (hu j (by omega) h) (by omega))]
      simp [hp]
    · rw [ih (by omega) (fun j hj h => hu j (by omega) h)]; rfl

theorem boardOf_eq {g : Game} {b : Board} (wf : Wf g b) (t : Nat) (ht : t < 64) : boardOf g t = b t := by
  unfold boardOf
  have bitOf : ∀ q, q < 12 → getBit (g.bb q) t = decide (b t = some q) := fun q hq => rep_bit g.bbs b wf.rep q t hq ht
  cases hb : b t with
  | none =>
    exact find?_range_none 12 _ (fun j hj => by rw [bitOf j hj, hb]; simp)
  | some q =>
    have hq := wf.ok.valid t q ht hb
    exact find?_range_unique 12 q _ hq (by rw [bitOf q hq, hb]; simp) (fun j hj h => by
      rw [bitOf j hj, hb] at h; simp at h; exact h.symm)

theorem abs_at {g : Game} {b : Board} (wf : Wf g b) (t : Nat) (ht : t < 64) :
    Spec.at_ (Spec.abs g) t = (b t).map pieceOf := by
  unfold Spec.at_ Spec.abs
  simp only
  rw [show ((Array.range 64).map fun s => ((List.range 12).find? fun p => getBit (g.bb p) s).map fun p => (⟨decide (p < 6), Spec.kindOfIndex p⟩ : Spec.Piece)).getD t none
      = (((List.range 12).find? fun p => getBit (g.bb p) t).map fun p => (⟨decide (p < 6), Spec.kindOfIndex p⟩ : Spec.Piece)) from by
    simp [Array.getD_eq_getD_getElem?, ht]]
  have := boardOf_eq wf t ht
  unfold boardOf at this
  rw [this]; rfl

theorem abs_at_ge (g : Game) (t : Nat) (ht : 64 ≤ t) : Spec.at_ (Spec.abs g) t = none := by
  unfold Spec.at_ Spec.abs
  have : (Array.range 64)[t]? = none := by simp; omega
  simp [Array.getD_eq_getD_getElem?, this]

theorem abs_occupied {g : Game} {b : Board} (wf : Wf g b) (t : Nat) (ht : t < 64) :
    Spec.occupiedIn (Spec.abs g) t = getBit g.allOcc t := by
  unfold Spec.occupiedIn
  rw [abs_at wf t ht, wf.occA t ht]
  cases b t <;> rfl

end Jence
