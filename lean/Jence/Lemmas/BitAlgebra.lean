/-
  Bit algebra for `UInt64` bit sets: `getBit` / `setBit` / `unsetBit` / `|||` / `&&&` / `bit` pointwise, and
  extensionality. Everything goes through `UInt64.toNat` and `Nat.testBit`: kernel-checked, no bit-blasting.
-/
import Jence.Model.Bits
namespace Jence
open Jence

theorem bit_toNat (s : Nat) (hs : s < 64) : (bit s).toNat = 2 ^ s := by
  unfold bit
  rw [UInt64.toNat_shiftLeft]
  simp [Nat.mod_eq_of_lt hs, Nat.shiftLeft_eq]
  have : 2 ^ s < 2 ^ 64 := Nat.pow_lt_pow_right (by omega) hs
  omega

theorem and_two_pow_ne_zero (n s : Nat) : (n &&& 2 ^ s ≠ 0) ↔ n.testBit s = true := by
  constructor
  · intro h
    cases ht : n.testBit s with
    | true => rfl
    | false =>
      exfalso; apply h
      apply Nat.eq_of_testBit_eq
      intro i
      simp only [Nat.testBit_and, Nat.testBit_two_pow, Nat.zero_testBit]
      by_cases hi : s = i
      · subst hi; simp [ht]
      · simp [hi]
  · intro h h0
    have : (n &&& 2 ^ s).testBit s = true := by simp [Nat.testBit_and, Nat.testBit_two_pow, h]
    rw [h0] at this; simp at this

/-- `getBit` is the bit of the number -/
theorem getBit_eq_testBit (b : UInt64) (s : Nat) (hs : s < 64) : getBit b s = b.toNat.testBit s := by
  unfold getBit
  have h1 : ((b &&& bit s) != 0) = decide ((b &&& bit s).toNat ≠ 0) := by
    by_cases h : (b &&& bit s) = 0
    · simp [h]
    · have h2 : (b &&& bit s).toNat ≠ 0 := fun h' => h (UInt64.toNat_inj.mp (by simpa using h'))
      have h3 : ((b &&& bit s) != 0) = true := by simpa using h
      rw [h3]; exact (decide_eq_true h2).symm
  rw [h1, UInt64.toNat_and, bit_toNat s hs]
  by_cases ht : b.toNat.testBit s = true
  · simp [ht, (and_two_pow_ne_zero b.toNat s).mpr ht]
  · have : ¬ (b.toNat &&& 2 ^ s ≠ 0) := fun h => ht ((and_two_pow_ne_zero b.toNat s).mp h)
    simp only [Bool.not_eq_true] at ht
    simp [ht, this]

theorem getBit_or (a b : UInt64) (s : Nat) (hs : s < 64) : getBit (a ||| b) s = (getBit a s || getBit b s) := by
  rw [getBit_eq_testBit _ _ hs, getBit_eq_testBit _ _ hs, getBit_eq_testBit _ _ hs, UInt64.toNat_or, Nat.testBit_or]

theorem getBit_and (a b : UInt64) (s : Nat) (hs : s < 64) : getBit (a &&& b) s = (getBit a s && getBit b s) := by
  rw [getBit_eq_testBit _ _ hs, getBit_eq_testBit _ _ hs, getBit_eq_testBit _ _ hs, UInt64.toNat_and, Nat.testBit_and]

theorem getBit_bit (s t : Nat) (hs : s < 64) (ht : t < 64) : getBit (bit s) t = decide (s = t) := by
  rw [getBit_eq_testBit _ _ ht, bit_toNat s hs, Nat.testBit_two_pow]

theorem getBit_zero (t : Nat) (ht : t < 64) : getBit 0 t = false := by
  rw [getBit_eq_testBit _ _ ht]; simp

theorem getBit_setBit (b : UInt64) (s t : Nat) (hs : s < 64) (ht : t < 64) : getBit (setBit b s) t = (getBit b t || decide (s = t)) := by
  unfold setBit; rw [getBit_or _ _ _ ht, getBit_bit s t hs ht]

/-- two bit sets with the same 64 bits are equal -/
theorem ext_getBit (a b : UInt64) (h : ∀ t, t < 64 → getBit a t = getBit b t) : a = b := by
  apply UInt64.toNat_inj.mp
  apply Nat.eq_of_testBit_eq
  intro i
  by_cases hi : i < 64
  · rw [← getBit_eq_testBit _ _ hi, ← getBit_eq_testBit _ _ hi]; exact h i hi
  · have ha : a.toNat < 2 ^ i := Nat.lt_of_lt_of_le a.toNat_lt (Nat.pow_le_pow_right (by omega) (by omega))
    have hb : b.toNat < 2 ^ i := Nat.lt_of_lt_of_le b.toNat_lt (Nat.pow_le_pow_right (by omega) (by omega))
    rw [Nat.testBit_lt_two_pow ha, Nat.testBit_lt_two_pow hb]

end Jence
