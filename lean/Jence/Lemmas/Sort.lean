/-
  `sort_moves` only reorders: the sorted list is a permutation of the generated one (T6.2).
-/
import Jence.Model.Search
namespace Jence
open Jence

theorem swapIfInBounds_perm {α : Type} (xs : Array α) (i j : Nat) : (xs.swapIfInBounds i j).Perm xs := by
  rw [Array.swapIfInBounds_def]
  split
  · split
    · exact Array.swap_perm _ _
    · exact Array.Perm.refl _
  · exact Array.Perm.refl _

theorem sortInner_perm (i : Nat) : ∀ (c j : Nat) (a : Array (Int × Move)), (sortInner i c j a).Perm a := by
  intro c
  induction c with
  | zero => intro j a; exact Array.Perm.refl _
  | succ c ih =>
    intro j a
    simp only [sortInner]
    split
    · exact (ih _ _).trans (swapIfInBounds_perm a i j)
    · exact ih _ _

theorem sortOuter_perm : ∀ (c i : Nat) (a : Array (Int × Move)), (sortOuter c i a).Perm a := by
  intro c
  induction c with
  | zero => intro i a; exact Array.Perm.refl _
  | succ c ih =>
    intro i a
    simp only [sortOuter]
    exact (ih _ _).trans (sortInner_perm i _ _ a)

theorem scoreAll_moves (g : Game) : ∀ (ms : List Move) (e : Env) (acc : Array (Int × Move)),
    (scoreAll g ms e acc).1.toList.map (·.2) = acc.toList.map (·.2) ++ ms := by
  intro ms
  induction ms with
  | nil => intro e acc; simp [scoreAll]
  | cons m ms ih =>
    intro e acc
    simp only [scoreAll]
    rw [ih]
    simp

/-- **T6.2** `sort_moves` returns a permutation of the list it was given: no move is lost, invented or duplicated. -/
theorem sortMoves_perm (g : Game) (ms : List Move) (e : Env) : (sortMoves g ms e).1.Perm ms := by
  unfold sortMoves
  simp only
  have h1 := scoreAll_moves g ms e #[]
  generalize scoreAll g ms e #[] = r at h1
  obtain ⟨scored, e'⟩ := r
  simp only at h1 ⊢
  have hp := (Array.perm_iff_toList_perm.mp (sortOuter_perm scored.size 0 scored))
  have := hp.map (·.2)
  rw [h1] at this
  simpa using this

theorem sortMoves_mem (g : Game) (ms : List Move) (e : Env) (m : Move) : m ∈ (sortMoves g ms e).1 ↔ m ∈ ms :=
  (sortMoves_perm g ms e).mem_iff

end Jence
