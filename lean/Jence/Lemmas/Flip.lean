/-
  The colour mirror of the board: ranks flipped (`flipSq`), a bit set flipped (`flipBB`), and how bit tests, set
  operations, emptiness, population counts and sums over the set bits behave under it. Slider lookups are equivariant.
-/
import Jence.Lemmas.AttackSym
import Jence.Lemmas.PextPdep
namespace Jence
open Jence

/-- the square on the same file, with the rank mirrored (a8 = 0 … h1 = 63) -/
def flipSq (s : Nat) : Nat := 56 - 8 * (s / 8) + s % 8

theorem flipSq_lt (s : Nat) (h : s < 64) : flipSq s < 64 := by unfold flipSq; omega
theorem flipSq_flipSq (s : Nat) (h : s < 64) : flipSq (flipSq s) = s := by unfold flipSq; omega

/-- the bit set with every square replaced by its mirror -/
def flipBB (b : UInt64) : UInt64 := Spec.toBits ((List.range 64).filter fun s => getBit b (flipSq s))

theorem getBit_flipBB (b : UInt64) (s : Nat) (hs : s < 64) : getBit (flipBB b) s = getBit b (flipSq s) := by
  unfold flipBB
  rw [getBit_toBits _ _ (fun t ht => by simp at ht; exact ht.1) hs]
  simp [hs]

theorem flipBB_and (a b : UInt64) : flipBB (a &&& b) = flipBB a &&& flipBB b := by
  apply ext_getBit; intro t ht
  rw [getBit_flipBB _ _ ht, getBit_and _ _ _ ht, getBit_flipBB _ _ ht, getBit_flipBB _ _ ht, getBit_and _ _ _ (flipSq_lt t ht)]

theorem flipBB_or (a b : UInt64) : flipBB (a ||| b) = flipBB a ||| flipBB b := by
  apply ext_getBit; intro t ht
  rw [getBit_flipBB _ _ ht, getBit_or _ _ _ ht, getBit_flipBB _ _ ht, getBit_flipBB _ _ ht, getBit_or _ _ _ (flipSq_lt t ht)]

theorem flipBB_flipBB (b : UInt64) : flipBB (flipBB b) = b := by
  apply ext_getBit; intro t ht
  rw [getBit_flipBB _ _ ht, getBit_flipBB _ _ (flipSq_lt t ht), flipSq_flipSq t ht]

theorem flipBB_zero : flipBB 0 = 0 := by
  apply ext_getBit; intro t ht
  rw [getBit_flipBB _ _ ht, getBit_zero _ ht, getBit_zero _ (flipSq_lt t ht)]

theorem flipBB_eq_zero (b : UInt64) : flipBB b = 0 ↔ b = 0 := by
  constructor
  · intro h; have := congrArg flipBB h; rw [flipBB_flipBB, flipBB_zero] at this; exact this
  · intro h; rw [h, flipBB_zero]

theorem isEmpty_flipBB (b : UInt64) : isEmpty (flipBB b) = isEmpty b := by
  unfold isEmpty
  by_cases h : b = 0
  · rw [h, flipBB_zero]
  · have h' : ¬ flipBB b = 0 := fun hh => h ((flipBB_eq_zero b).1 hh)
    rw [beq_eq_false_iff_ne.2 h, beq_eq_false_iff_ne.2 h']

/-- the squares of the board, mirrored, are the squares of the board -/
theorem range_flip_perm : ((List.range 64).map flipSq).Perm (List.range 64) := by decide +kernel

/-- sums over the set bits, as sums over the whole board -/
theorem foldl_add_filter (l : List Nat) (c : Nat → Bool) (F : Nat → Int) (init : Int) :
    (l.filter c).foldl (fun s sq => s + F sq) init = init + (l.map fun sq => if c sq then F sq else 0).sum := by
  induction l generalizing init with
  | nil => simp
  | cons x l ih =>
    simp only [List.filter_cons, List.map_cons, List.sum_cons]
    by_cases hx : c x = true
    · simp only [hx, ↓reduceIte, List.foldl_cons]; rw [ih]; omega
    · have hx' : c x = false := by simpa using hx
      simp only [hx', Bool.false_eq_true, ↓reduceIte]; rw [ih]; omega

theorem sum_perm_int (l₁ l₂ : List Int) (h : l₁.Perm l₂) : l₁.sum = l₂.sum := by
  induction h with
  | nil => rfl
  | cons x _ ih => simp [ih]
  | swap x y l => simp; omega
  | trans _ _ ih₁ ih₂ => exact ih₁.trans ih₂

/-- **re-indexing a sum over the set bits by the mirror** -/
theorem fold_flipBB (b : UInt64) (F : Nat → Int) (init : Int) :
    (bitsOf (flipBB b)).foldl (fun s sq => s + F sq) init = (bitsOf b).foldl (fun s sq => s + F (flipSq sq)) init := by
  rw [bitsOf_eq_filter, bitsOf_eq_filter, foldl_add_filter, foldl_add_filter]
  congr 1
  have h1 : ((List.range 64).map fun sq => if getBit (flipBB b) sq then F sq else 0) =
      ((List.range 64).map fun sq => if getBit b (flipSq sq) then F sq else 0) := by
    apply List.map_congr_left
    intro s hs
    rw [getBit_flipBB b s (List.mem_range.1 hs)]
  have h2 : ((List.range 64).map fun sq => if getBit b sq then F (flipSq sq) else 0) =
      (((List.range 64).map flipSq).map fun sq => if getBit b (flipSq sq) then F sq else 0) := by
    rw [List.map_map]
    apply List.map_congr_left
    intro s hs
    simp only [Function.comp]
    rw [flipSq_flipSq s (List.mem_range.1 hs)]
  rw [h1, h2]
  exact (sum_perm_int _ _ (range_flip_perm.map _)).symm

theorem popCount_flipBB (b : UInt64) : popCount (flipBB b) = popCount b := by
  have h := fold_flipBB b (fun _ => 1) 0
  rw [popCount_eq, popCount_eq]
  have len : ∀ (l : List Nat) (i : Int), l.foldl (fun s _ => s + 1) i = i + l.length := by
    intro l
    induction l with
    | nil => intro i; simp
    | cons x l ih => intro i; simp only [List.foldl_cons, List.length_cons]; rw [ih]; omega
  rw [len, len] at h
  omega

/-! ### Sliders -/

theorem onBoard_flip (f r : Int) : Spec.onBoard f (7 - r) = Spec.onBoard f r := by
  rw [Bool.eq_iff_iff]
  simp only [Spec.onBoard, Bool.and_eq_true, decide_eq_true_eq]
  omega

theorem sqOf_flip (f r : Int) (h : Spec.onBoard f r = true) : Spec.sqOf f (7 - r) = flipSq (Spec.sqOf f r) := by
  simp only [Spec.onBoard, Bool.and_eq_true, decide_eq_true_eq] at h
  unfold Spec.sqOf flipSq
  omega

theorem sqOf_lt' (f r : Int) (h : Spec.onBoard f r = true) : Spec.sqOf f r < 64 := by
  simp only [Spec.onBoard, Bool.and_eq_true, decide_eq_true_eq] at h
  unfold Spec.sqOf
  omega

/-- a walk on the mirrored board is the mirrored walk -/
theorem walk_flip (occ occ' : Nat → Bool) (df dr : Int)
    (h : ∀ f r, Spec.onBoard f r = true → occ' (Spec.sqOf f (7 - r)) = occ (Spec.sqOf f r)) :
    ∀ (n : Nat) (f r : Int), Spec.walk occ' df (-dr) n f (7 - r) = (Spec.walk occ df dr n f r).map flipSq := by
  intro n
  induction n with
  | zero => intro f r; rfl
  | succ n ih =>
    intro f r
    simp only [Spec.walk]
    have e1 : 7 - r + -dr = 7 - (r + dr) := by omega
    rw [e1, onBoard_flip]
    by_cases hob : Spec.onBoard (f + df) (r + dr) = true
    · rw [if_pos hob, if_pos hob, h _ _ hob, sqOf_flip _ _ hob]
      split
      · rfl
      · rw [List.map_cons, ih]
    · rw [if_neg hob, if_neg hob]; rfl

theorem file_flip (s : Nat) (hs : s < 64) : Spec.fileOf (flipSq s) = Spec.fileOf s := by
  unfold Spec.fileOf flipSq; omega
theorem row_flip (s : Nat) (hs : s < 64) : Spec.rowOf (flipSq s) = 7 - Spec.rowOf s := by
  unfold Spec.rowOf flipSq; omega

theorem slide_flip_mem (occ : UInt64) (dirs : List (Int × Int)) (hd : ∀ d ∈ dirs, (d.1, -d.2) ∈ dirs) (s t : Nat) (hs : s < 64)
    (h : t ∈ Spec.slide (getBit occ) s dirs) : flipSq t ∈ Spec.slide (getBit (flipBB occ)) (flipSq s) dirs := by
  simp only [Spec.slide, List.mem_flatMap] at h ⊢
  obtain ⟨d, hdm, hw⟩ := h
  refine ⟨(d.1, -d.2), hd d hdm, ?_⟩
  simp only
  rw [file_flip s hs, row_flip s hs]
  rw [walk_flip (getBit occ) (getBit (flipBB occ)) d.1 d.2 (fun f r hob => by
    rw [getBit_flipBB _ _ (by rw [← onBoard_flip] at hob; exact sqOf_lt' _ _ hob), sqOf_flip _ _ hob,
      flipSq_flipSq _ (sqOf_lt' _ _ hob)])]
  exact List.mem_map_of_mem hw

theorem slide_flip (occ : UInt64) (dirs : List (Int × Int)) (hd : ∀ d ∈ dirs, (d.1, -d.2) ∈ dirs) (s : Nat) (hs : s < 64) :
    Spec.toBits (Spec.slide (getBit (flipBB occ)) (flipSq s) dirs) = flipBB (Spec.toBits (Spec.slide (getBit occ) s dirs)) := by
  apply ext_getBit
  intro u hu
  rw [getBit_flipBB _ _ hu, getBit_toBits _ _ (slide_lt _ _ _) hu, getBit_toBits _ _ (slide_lt _ _ _) (flipSq_lt u hu)]
  apply decide_eq_decide.2
  constructor
  · intro h
    have := slide_flip_mem (flipBB occ) dirs hd (flipSq s) u (flipSq_lt s hs) h
    rw [flipBB_flipBB, flipSq_flipSq s hs] at this
    exact this
  · intro h
    have := slide_flip_mem occ dirs hd s (flipSq u) hs h
    rw [flipSq_flipSq u hu] at this
    exact this

theorem rookDirs_closed : ∀ d ∈ Spec.rookDirs, (d.1, -d.2) ∈ Spec.rookDirs := by decide
theorem bishopDirs_closed : ∀ d ∈ Spec.bishopDirs, (d.1, -d.2) ∈ Spec.bishopDirs := by decide

/-- **the slider lookups commute with the mirror** -/
theorem rookAttacks_flip (s : Nat) (hs : s < 64) (occ : UInt64) :
    getRookAttacks (flipSq s) (flipBB occ) = flipBB (getRookAttacks s occ) := by
  rw [getRookAttacks_eq _ (flipSq_lt s hs), rookOnTheFly_eq_slide _ (flipSq_lt s hs), getRookAttacks_eq s hs, rookOnTheFly_eq_slide s hs]
  exact slide_flip occ _ rookDirs_closed s hs

theorem bishopAttacks_flip (s : Nat) (hs : s < 64) (occ : UInt64) :
    getBishopAttacks (flipSq s) (flipBB occ) = flipBB (getBishopAttacks s occ) := by
  rw [getBishopAttacks_eq _ (flipSq_lt s hs), bishopOnTheFly_eq_slide _ (flipSq_lt s hs), getBishopAttacks_eq s hs, bishopOnTheFly_eq_slide s hs]
  exact slide_flip occ _ bishopDirs_closed s hs

theorem queenAttacks_flip (s : Nat) (hs : s < 64) (occ : UInt64) :
    getQueenAttacks (flipSq s) (flipBB occ) = flipBB (getQueenAttacks s occ) := by
  unfold getQueenAttacks
  rw [rookAttacks_flip s hs, bishopAttacks_flip s hs, flipBB_or]

end Jence
