/-
  The bit-scan primitives: `tzcnt` finds the lowest set bit, `blsr` clears exactly that bit, and the extract loop
  `bitsOf` lists the set bits in ascending order. (ISA semantics of TZCNT/BLSR as modelled in `Model/Bits`.)
-/
import Jence.Lemmas.BitAlgebra
namespace Jence
open Jence

/-- the same binary search on natural numbers -/
def natStage (k : Nat) (p : Nat × Nat) : Nat × Nat := if p.1 % 2 ^ k = 0 then (p.1 / 2 ^ k, p.2 + k) else p

def tzN (x : Nat) : Nat :=
  let p := natStage 32 (x, 0)
  let p := natStage 16 p
  let p := natStage 8 p
  let p := natStage 4 p
  let p := natStage 2 p
  if p.1 % 2 = 0 then p.2 + 1 else p.2

theorem and_mask_eq_zero (b m : UInt64) (k : Nat) (hm : m.toNat = 2 ^ k - 1) :
    ((b &&& m) == 0) = decide (b.toNat % 2 ^ k = 0) := by
  have h1 : ((b &&& m) == 0) = decide ((b &&& m).toNat = 0) := by
    by_cases h : (b &&& m) = 0
    · simp [h]
    · have h2 : (b &&& m).toNat ≠ 0 := fun h' => h (UInt64.toNat_inj.mp (by simpa using h'))
      have h3 : ((b &&& m) == 0) = false := by simpa using h
      rw [h3]; exact (decide_eq_false h2).symm
  rw [h1, UInt64.toNat_and, hm, Nat.and_two_pow_sub_one_eq_mod]

theorem shr_toNat (b : UInt64) (k : Nat) (hk : k < 64) : (b >>> k.toUInt64).toNat = b.toNat / 2 ^ k := by
  rw [UInt64.toNat_shiftRight]
  have : k.toUInt64.toNat % 64 = k := by
    simp [Nat.toUInt64, UInt64.toNat_ofNat']; omega
  rw [this, Nat.shiftRight_eq_div_pow]

theorem tzStage_nat (k : Nat) (m : UInt64) (hk : k < 64) (hm : m.toNat = 2 ^ k - 1) (p : UInt64 × Nat) :
    ((tzStage k m p).1.toNat, (tzStage k m p).2) = natStage k (p.1.toNat, p.2) := by
  unfold tzStage natStage
  rw [and_mask_eq_zero p.1 m k hm]
  by_cases h : p.1.toNat % 2 ^ k = 0
  · simp [h, shr_toNat _ k hk]
  · simp [h]

theorem tzcnt_eq_tzN (b : UInt64) (hb : (b == 0) = false) : tzcnt b = tzN b.toNat := by
  unfold tzcnt tzN
  simp only [hb, Bool.false_eq_true, ↓reduceIte]
  have s1 := tzStage_nat 32 0xFFFFFFFF (by omega) (by decide) (b, 0)
  generalize tzStage 32 0xFFFFFFFF (b, 0) = p1 at s1 ⊢
  have s2 := tzStage_nat 16 0xFFFF (by omega) (by decide) p1
  generalize tzStage 16 0xFFFF p1 = p2 at s2 ⊢
  have s3 := tzStage_nat 8 0xFF (by omega) (by decide) p2
  generalize tzStage 8 0xFF p2 = p3 at s3 ⊢
  have s4 := tzStage_nat 4 0xF (by omega) (by decide) p3
  generalize tzStage 4 0xF p3 = p4 at s4 ⊢
  have s5 := tzStage_nat 2 0x3 (by omega) (by decide) p4
  generalize tzStage 2 0x3 p4 = p5 at s5 ⊢
  simp only at s1
  rw [← s1, ← s2, ← s3, ← s4, ← s5]
  simp only
  rw [and_mask_eq_zero p5.1 0x1 1 (by decide)]
  simp

theorem tzN_spec (x : Nat) (h0 : x ≠ 0) (hlt : x < 2 ^ 64) : x % 2 ^ (tzN x) = 0 ∧ x / 2 ^ (tzN x) % 2 = 1 ∧ tzN x < 64 := by
  unfold tzN natStage
  simp only
  repeat' split
  all_goals (simp only [Nat.reducePow, Nat.reduceAdd]; omega)

/-- a non-empty bit set, its lowest set bit `n` and the odd cofactor: `x = 2^n * (2q + 1)` -/
theorem lowbit_decomp (b : UInt64) (hb : (b == 0) = false) :
    ∃ q, b.toNat = 2 ^ (tzcnt b) * (2 * q + 1) ∧ tzcnt b < 64 := by
  have hx0 : b.toNat ≠ 0 := by
    intro h; have : b = 0 := UInt64.toNat_inj.mp (by simpa using h); simp [this] at hb
  obtain ⟨h1, h2, h3⟩ := tzN_spec b.toNat hx0 b.toNat_lt
  rw [tzcnt_eq_tzN b hb]
  refine ⟨b.toNat / 2 ^ tzN b.toNat / 2, ?_, h3⟩
  have := Nat.div_add_mod b.toNat (2 ^ tzN b.toNat)
  have h4 := Nat.div_add_mod (b.toNat / 2 ^ tzN b.toNat) 2
  rw [h1] at this
  rw [h2] at h4
  rw [h4]; omega

theorem tzcnt_lt (b : UInt64) (hb : (b == 0) = false) : tzcnt b < 64 := (lowbit_decomp b hb).choose_spec.2

theorem tzcnt_le (b : UInt64) : tzcnt b ≤ 64 := by
  by_cases hb : (b == 0) = true
  · unfold tzcnt; simp [hb]
  · exact Nat.le_of_lt (tzcnt_lt b (by simpa using hb))

/-- the bits of `2^n * (2q+1)` -/
theorem testBit_lowform (n q j : Nat) : (2 ^ n * (2 * q + 1)).testBit j = (decide (j = n) || (decide (n < j) && q.testBit (j - n - 1))) := by
  have h := Nat.testBit_two_pow_mul_add (2 * q + 1) (Nat.two_pow_pos n : 0 < 2 ^ n) j
  simp only [Nat.add_zero] at h
  rw [h]
  by_cases hj : j < n
  · have h1 : ¬ j = n := by omega
    have h2 : ¬ n < j := by omega
    simp [hj, h1, h2]
  · simp only [hj, ↓reduceIte]
    by_cases he : j = n
    · subst he; simp [Nat.testBit_zero]
    · have hlt : n < j := by omega
      obtain ⟨i, hi⟩ : ∃ i, j - n = i + 1 := ⟨j - n - 1, by omega⟩
      rw [hi, Nat.testBit_succ]
      have : (2 * q + 1) / 2 = q := by omega
      rw [this]
      have : j - n - 1 = i := by omega
      simp [he, hlt, this]

/-- **TZCNT**: the bit at `tzcnt b` is set and no lower bit is -/
theorem getBit_tzcnt (b : UInt64) (hb : (b == 0) = false) :
    getBit b (tzcnt b) = true ∧ ∀ j, j < tzcnt b → getBit b j = false := by
  obtain ⟨q, hq, hlt⟩ := lowbit_decomp b hb
  refine ⟨?_, fun j hj => ?_⟩
  · rw [getBit_eq_testBit _ _ hlt, hq, testBit_lowform]; simp
  · rw [getBit_eq_testBit _ _ (by omega), hq, testBit_lowform]
    have h1 : ¬ j = tzcnt b := by omega
    have h2 : ¬ tzcnt b < j := by omega
    simp [h1, h2]

theorem sub_one_toNat (b : UInt64) (hb : (b == 0) = false) : (b - 1).toNat = b.toNat - 1 := by
  have hx0 : b.toNat ≠ 0 := by
    intro h; have : b = 0 := UInt64.toNat_inj.mp (by simpa using h); simp [this] at hb
  rw [UInt64.toNat_sub_of_le]
  · rfl
  · rw [UInt64.le_iff_toNat_le]; simp; omega

/-- **BLSR**: `b & (b − 1)` clears exactly the lowest set bit -/
theorem getBit_blsr (b : UInt64) (hb : (b == 0) = false) (j : Nat) (hj : j < 64) :
    getBit (blsr b) j = (getBit b j && decide (j ≠ tzcnt b)) := by
  obtain ⟨q, hq, hlt⟩ := lowbit_decomp b hb
  unfold blsr
  rw [getBit_and _ _ _ hj, getBit_eq_testBit b j hj, getBit_eq_testBit (b - 1) j hj, sub_one_toNat b hb, hq]
  generalize tzcnt b = n at *
  -- x - 1 = 2^n * (2q) + (2^n - 1)
  have hx : 2 ^ n * (2 * q + 1) - 1 = 2 ^ n * (2 * q) + (2 ^ n - 1) := by
    have : 0 < 2 ^ n := Nat.two_pow_pos n
    rw [Nat.mul_add]; omega
  rw [hx, Nat.testBit_two_pow_mul_add (2 * q) (by have : 0 < 2 ^ n := Nat.two_pow_pos n; omega) j, testBit_lowform]
  by_cases h1 : j < n
  · have : ¬ j = n := by omega
    have h2 : ¬ n < j := by omega
    simp [h1, this, h2]
  · simp only [h1, ↓reduceIte]
    by_cases he : j = n
    · subst he; simp [Nat.testBit_zero]
    · have hlt' : n < j := by omega
      obtain ⟨i, hi⟩ : ∃ i, j - n = i + 1 := ⟨j - n - 1, by omega⟩
      rw [hi, Nat.testBit_succ]
      have : 2 * q / 2 = q := by omega
      rw [this]
      have : j - n - 1 = i := by omega
      simp [he, hlt', this]

theorem eq_zero_of_beq (b : UInt64) (h : (b == 0) = true) : b = 0 := by simpa using h

theorem filter_range'_false (p : Nat → Bool) (s n : Nat) (h : ∀ j, s ≤ j → j < s + n → p j = false) :
    (List.range' s n).filter p = [] := by
  rw [List.filter_eq_nil_iff]
  intro j hj
  rw [List.mem_range'_1] at hj
  simp [h j hj.1 hj.2]

/-- the extract loop lists the set bits from `lo` upwards in ascending order -/
theorem bitsOfAux_eq (fuel : Nat) : ∀ (b : UInt64) (acc : List Nat) (lo : Nat),
    (∀ j, j < lo → j < 64 → getBit b j = false) → lo ≤ 64 → 64 ≤ lo + fuel →
    bitsOfAux fuel b acc = acc.reverse ++ (List.range' lo (64 - lo)).filter (fun j => getBit b j) := by
  induction fuel with
  | zero =>
    intro b acc lo _ h1 h2
    have : lo = 64 := by omega
    subst this
    simp [bitsOfAux]
  | succ fuel ih =>
    intro b acc lo hlow h1 h2
    simp only [bitsOfAux]
    by_cases hb : (b == 0) = true
    · rw [if_pos hb]
      have hz := eq_zero_of_beq b hb
      subst hz
      rw [filter_range'_false _ lo (64 - lo) (fun j _ hj => getBit_zero j (by omega))]
      simp
    · rw [if_neg hb]
      have hb' : (b == 0) = false := by simpa using hb
      obtain ⟨hset, hbelow⟩ := getBit_tzcnt b hb'
      have hn64 := tzcnt_lt b hb'
      generalize hn : tzcnt b = n at *
      have hlo : lo ≤ n := by
        by_cases h : lo ≤ n
        · exact h
        · have := hlow n (by omega) hn64; rw [hset] at this; exact absurd this (by simp)
      have hblsr : ∀ j, j < 64 → getBit (blsr b) j = (getBit b j && decide (j ≠ n)) := fun j hj => by
        rw [getBit_blsr b hb' j hj, hn]
      rw [ih (blsr b) (n :: acc) (n + 1) (fun j hj hj64 => by
            rw [hblsr j hj64]
            by_cases he : j = n
            · simp [he]
            · rw [hbelow j (by omega)]; simp) (by omega) (by omega)]
      -- split the right-hand range at n
      have hsplit : List.range' lo (64 - lo) = List.range' lo (n - lo) ++ (n :: List.range' (n + 1) (64 - (n + 1))) := by
        have e1 : List.range' lo (n - lo) ++ List.range' (lo + (n - lo)) (64 - n) = List.range' lo (64 - lo) := by
          rw [List.range'_append_1]; congr 1; omega
        have e2 : lo + (n - lo) = n := by omega
        have e3 : 64 - n = (64 - (n + 1)) + 1 := by omega
        rw [← e1, e2, e3, List.range'_succ]
      rw [hsplit, List.filter_append, filter_range'_false _ lo (n - lo) (fun j h1 h2 => hbelow j (by omega)), List.filter_cons]
      simp only [hset, ↓reduceIte, List.reverse_cons, List.nil_append, List.append_assoc, List.singleton_append]
      congr 2
      apply List.filter_congr
      intro j hj
      rw [List.mem_range'_1] at hj
      rw [hblsr j (by omega)]
      have : j ≠ n := by omega
      simp [this]

/-- **the extract loop** visits exactly the set bits, in ascending order -/
theorem bitsOf_eq_filter (b : UInt64) : bitsOf b = (List.range 64).filter (fun j => getBit b j) := by
  unfold bitsOf
  rw [bitsOfAux_eq 64 b [] 0 (fun j hj _ => absurd hj (by omega)) (by omega) (by omega)]
  simp [List.range_eq_range']

theorem mem_bitsOf (b : UInt64) (s : Nat) : s ∈ bitsOf b ↔ s < 64 ∧ getBit b s = true := by
  rw [bitsOf_eq_filter, List.mem_filter, List.mem_range]

theorem bitsOf_nodup (b : UInt64) : (bitsOf b).Nodup := by
  rw [bitsOf_eq_filter]
  exact List.Nodup.sublist (List.filter_sublist) List.nodup_range

end Jence
