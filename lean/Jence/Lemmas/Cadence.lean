/-
  T9.1: the poll cadence. `maybe_poll` runs at every node right before the node counter goes up, with the counter's
  current value; so while the search has not been told to stop, every value of the node counter that is a multiple of
  `INPUT_POLL_INTERVAL + 1` has been a poll point (`pollLog` records the counter at every poll).
-/
import Jence.Lemmas.SearchFrame
import Jence.Lemmas.PvHead
import Jence.Lemmas.Top
namespace Jence
open Jence

/-- every due value of the node counter below the current one has been polled, as long as no stop was seen -/
def Cad (e : Env) : Prop :=
  e.stopping = false → ∀ n, n < e.nodes → n &&& Gen.INPUT_POLL_INTERVAL = 0 → n ∈ e.pollLog

/-- the current value has been polled too, if it is due -/
def Polled (e : Env) : Prop := e.stopping = false → e.nodes &&& Gen.INPUT_POLL_INTERVAL = 0 → e.nodes ∈ e.pollLog

/-- an update that touches neither the counter, nor the poll log, nor the stop flag -/
def Same3 (e e' : Env) : Prop := e'.nodes = e.nodes ∧ e'.pollLog = e.pollLog ∧ e'.stopping = e.stopping

theorem Same3.refl (e : Env) : Same3 e e := ⟨rfl, rfl, rfl⟩
theorem Same3.trans {a b c : Env} (h1 : Same3 a b) (h2 : Same3 b c) : Same3 a c :=
  ⟨h2.1.trans h1.1, h2.2.1.trans h1.2.1, h2.2.2.trans h1.2.2⟩
theorem Same3.cad {e e' : Env} (h : Same3 e e') (hc : Cad e) : Cad e' := by
  intro hs n hn hd; rw [h.2.1]; exact hc (by rw [← h.2.2]; exact hs) n (by rw [← h.1]; exact hn) hd
theorem Same3.polled {e e' : Env} (h : Same3 e e') (hc : Polled e) : Polled e' := by
  intro hs hd; rw [h.2.1, h.1]; exact hc (by rw [← h.2.2]; exact hs) (by rw [← h.1]; exact hd)

theorem ev_same3 (cfg : Cfg) (e : Env) (w : List UInt64) (l : Unit → String) : Same3 e (e.ev cfg w l) := by
  unfold Env.ev; split
  · exact Same3.refl e
  · split <;> exact ⟨rfl, rfl, rfl⟩

theorem onNode_same3 (cfg : Cfg) (e : Env) (k : Nat) (g : Game) (d : Nat) (a b : Int) : Same3 e (e.onNode cfg k g d a b) := by
  unfold Env.onNode; split
  · exact Same3.refl e
  · exact ev_same3 ..

theorem insertPv_same3 (cfg : Cfg) (e : Env) (m : Move) : Same3 e (e.insertPv cfg m) := by
  unfold Env.insertPv
  simp only
  have h1 : Same3 e (if e.stopping then { e with postStopWrites := e.postStopWrites + 1 } else e) := by
    split
    · exact ⟨rfl, rfl, rfl⟩
    · exact Same3.refl e
  generalize (if e.stopping then { e with postStopWrites := e.postStopWrites + 1 } else e : Env) = e1 at h1
  have h2 := ev_same3 cfg e1 [7, e1.ply.toUInt64, m.data.toUInt64] (fun _ => s!"pv {e1.ply} {m.hex}")
  generalize e1.ev cfg [7, e1.ply.toUInt64, m.data.toUInt64] (fun _ => s!"pv {e1.ply} {m.hex}") = e2 at h2
  exact (h1.trans h2).trans ⟨rfl, rfl, rfl⟩

theorem ttRecord_same3 (cfg : Cfg) (e : Env) (k : UInt64) (s : Int) (d : Nat) (f : Flag) : Same3 e (e.ttRecord cfg k s d f) := by
  unfold Env.ttRecord
  simp only
  have h1 : Same3 e (if e.stopping then { e with postStopWrites := e.postStopWrites + 1 } else e) := by
    split
    · exact ⟨rfl, rfl, rfl⟩
    · exact Same3.refl e
  generalize (if e.stopping then { e with postStopWrites := e.postStopWrites + 1 } else e : Env) = e1 at h1
  have h2 := ev_same3 cfg e1 [8, k, i2w s, d.toUInt64, f.code.toUInt64, e1.ply.toUInt64] (fun _ => s!"ttrec {hex16 k} {s} {d} {f.code} {e1.ply}")
  generalize e1.ev cfg [8, k, i2w s, d.toUInt64, f.code.toUInt64, e1.ply.toUInt64] (fun _ => s!"ttrec {hex16 k} {s} {d} {f.code} {e1.ply}") = e2 at h2
  exact (h1.trans h2).trans ⟨rfl, rfl, rfl⟩

theorem sortMoves_same3 (g : Game) (ms : List Move) (e : Env) : Same3 e (sortMoves g ms e).2 := by
  rw [sortMoves_same]; exact ⟨rfl, rfl, rfl⟩

/-- a poll of a running search logs the counter and leaves it alone -/
theorem poll_log (cfg : Cfg) (e : Env) (hrun : e.stopping = false) :
    (e.poll cfg).pollLog = e.pollLog.push e.nodes ∧ (e.poll cfg).nodes = e.nodes := by
  unfold Env.poll
  simp only [hrun, Bool.false_eq_true, ↓reduceIte]
  refine ⟨?_, ?_⟩
  · split
    · simp [Env.ev]; (try split) <;> (try split) <;> simp
    · split
      · simp [Env.ev]; (try split) <;> (try split) <;> simp
      · split <;> (simp [Env.ev, Env.print] <;> (try split) <;> (try split) <;> simp)
  · split
    · simp [Env.ev]; (try split) <;> (try split) <;> simp
    · split
      · simp [Env.ev]; (try split) <;> (try split) <;> simp
      · split <;> (simp [Env.ev, Env.print] <;> (try split) <;> (try split) <;> simp)

theorem poll_stopped (cfg : Cfg) (e : Env) (hs : e.stopping = true) : e.poll cfg = e := by
  unfold Env.poll; simp [hs]

theorem maybePoll_due (cfg : Cfg) (e : Env) :
    ∃ d : Bool, e.maybePoll cfg = (if d then e.poll cfg else e) ∧ (d = false → ¬ e.nodes &&& Gen.INPUT_POLL_INTERVAL = 0) := by
  refine ⟨(e.nodes &&& Gen.INPUT_POLL_INTERVAL == 0) || (match cfg.subMask with | some m => e.nodes &&& m == 0 | none => false), rfl, ?_⟩
  intro h
  simp only [Bool.or_eq_false_iff, beq_eq_false_iff_ne, ne_eq] at h
  exact h.1

/-- `maybe_poll`: afterwards the current counter value has been polled if it was due -/
theorem maybePoll_cad (cfg : Cfg) (e : Env) (hc : Cad e) : Cad (e.maybePoll cfg) ∧ Polled (e.maybePoll cfg) := by
  obtain ⟨d, hd, hnd⟩ := maybePoll_due cfg e
  rw [hd]
  by_cases hs : e.stopping = true
  · -- already stopping: nothing happens, and both statements are about running searches only
    have hp := poll_stopped cfg e hs
    have : (if d then e.poll cfg else e) = e := by cases d <;> simp [hp]
    rw [this]
    exact ⟨hc, fun h => by rw [hs] at h; exact absurd h (by simp)⟩
  · have hrun : e.stopping = false := by simpa using hs
    obtain ⟨hl, hn⟩ := poll_log cfg e hrun
    cases d with
    | true =>
      simp only [↓reduceIte]
      refine ⟨fun _ n hn' hd => ?_, fun _ _ => ?_⟩
      · rw [hl]; rw [hn] at hn'; exact Array.mem_push_of_mem _ (hc hrun n hn' hd)
      · rw [hl, hn]; exact Array.mem_push_self
    | false =>
      simp only [Bool.false_eq_true, ↓reduceIte]
      exact ⟨hc, fun _ hd => absurd hd (hnd rfl)⟩

/-- counting the node after `maybe_poll` -/
theorem count_cad (e : Env) (hc : Cad e) (hp : Polled e) : Cad { e with nodes := e.nodes + 1 } := by
  intro hs n hn hd
  have hn' : n < e.nodes + 1 := hn
  by_cases h : n = e.nodes
  · subst h; exact hp hs hd
  · exact hc hs n (by omega) hd

def QRecCad (rec : Game → Int → Int → Env → Int × Env) : Prop := ∀ c a b e, Cad e → Cad (rec c a b e).2
def RecCad (rec : Game → Nat → Int → Int → Env → Int × Env) : Prop := ∀ c d a b e, Cad e → Cad (rec c d a b e).2

theorem qLoop_cad (R : Rules) (rec : Game → Int → Int → Env → Int × Env) (hrec : QRecCad rec) (g : Game) (beta : Int) :
    ∀ (ms : List Move) (ta : Int) (e : Env), Cad e → Cad (qLoop R rec g beta ms ta e).2 := by
  intro ms
  induction ms with
  | nil => intro ta e hc; exact hc
  | cons m ms ih =>
    intro ta e hc
    simp only [qLoop]
    cases hmk : R.make g m with
    | none => exact ih ta e hc
    | some c =>
      simp only
      have h1 : Cad { e with rep := e.rep.insert c.key, ply := e.ply + 1 } := Same3.cad ⟨rfl, rfl, rfl⟩ hc
      have h2 := hrec c (-beta) (-ta) _ h1
      generalize rec c (-beta) (-ta) { e with rep := e.rep.insert c.key, ply := e.ply + 1 } = r at h2
      obtain ⟨s, e2⟩ := r
      have h3 : Cad { e2 with ply := e2.ply - 1, rep := e2.rep.moveBack } := Same3.cad ⟨rfl, rfl, rfl⟩ h2
      simp only
      split
      · exact h3
      · exact ih _ _ h3

theorem qEnter_cad (cfg : Cfg) (g : Game) (alpha beta : Int) (e : Env) (hc : Cad e) : Cad (qEnter cfg g alpha beta e) := by
  unfold qEnter
  simp only
  have h1 := (onNode_same3 cfg e 2 g 0 alpha beta).cad hc
  generalize e.onNode cfg 2 g 0 alpha beta = e1 at h1
  obtain ⟨h2, h3⟩ := maybePoll_cad cfg e1 h1
  exact count_cad _ h2 h3

theorem quiescence_cad (R : Rules) (cfg : Cfg) : ∀ fuel, QRecCad (quiescence R cfg fuel) := by
  intro fuel
  induction fuel with
  | zero => intro c a b e hc; exact hc
  | succ fuel ih =>
    intro g alpha beta e hc
    simp only [quiescence]
    have h3 := qEnter_cad cfg g alpha beta e hc
    generalize qEnter cfg g alpha beta e = e3 at h3
    split
    · exact h3
    · split
      · exact h3
      · exact qLoop_cad R _ ih g beta _ _ _ ((sortMoves_same3 g (R.generate g false) e3).cad h3)

theorem searchChild_cad (rec : Game → Nat → Int → Int → Env → Int × Env) (hrec : RecCad rec) (c : Game) (m : Move)
    (searched depth nDepth : Nat) (inCheck : Bool) (ta beta : Int) (e : Env) (hc : Cad e) :
    Cad (searchChild rec c m searched depth nDepth inCheck ta beta e).2 := by
  unfold searchChild
  split
  · exact hrec _ _ _ _ _ hc
  · simp only
    split
    · have h1 := hrec c (nDepth - 2) (-ta - 1) (-ta) e hc
      generalize rec c (nDepth - 2) (-ta - 1) (-ta) e = r1 at h1
      obtain ⟨s1, e1⟩ := r1
      simp only
      split
      · have h2 := hrec c (nDepth - 1) (-ta - 1) (-ta) e1 h1
        generalize rec c (nDepth - 1) (-ta - 1) (-ta) e1 = r2 at h2
        obtain ⟨s2, e2⟩ := r2
        simp only
        split
        · exact hrec _ _ _ _ _ h2
        · exact h2
      · exact h1
    · simp only
      split
      · have h2 := hrec c (nDepth - 1) (-ta - 1) (-ta) e hc
        generalize rec c (nDepth - 1) (-ta - 1) (-ta) e = r2 at h2
        obtain ⟨s2, e2⟩ := r2
        simp only
        split
        · exact hrec _ _ _ _ _ h2
        · exact h2
      · exact hc

theorem moveLoop_cad (R : Rules) (cfg : Cfg) (rec : Game → Nat → Int → Int → Env → Int × Env) (hrec : RecCad rec)
    (g : Game) (depth nDepth : Nat) (inCheck : Bool) (beta : Int) :
    ∀ (ms : List Move) (ta : Int) (flag : Flag) (legal searched : Nat) (e : Env), Cad e →
      Cad (moveLoop R cfg rec g depth nDepth inCheck beta ms ta flag legal searched e).2 := by
  intro ms
  induction ms with
  | nil => intro ta flag legal searched e hc; exact hc
  | cons m ms ih =>
    intro ta flag legal searched e hc
    simp only [moveLoop]
    cases hmk : R.make g m with
    | none => exact ih ta flag legal searched e hc
    | some c =>
      simp only
      have h1 : Cad { e with ply := e.ply + 1, rep := (e.rep.insert c.key).moveBack } := Same3.cad ⟨rfl, rfl, rfl⟩ hc
      have h2 := searchChild_cad rec hrec c m searched depth nDepth inCheck ta beta _ h1
      generalize searchChild rec c m searched depth nDepth inCheck ta beta
        { e with ply := e.ply + 1, rep := (e.rep.insert c.key).moveBack } = r at h2
      obtain ⟨score, e2⟩ := r
      have h3 : Cad { e2 with ply := e2.ply - 1 } := Same3.cad ⟨rfl, rfl, rfl⟩ h2
      simp only
      generalize ({ e2 with ply := e2.ply - 1 } : Env) = e3 at h3 ⊢
      split
      · exact h3
      · split
        · have h4 := (insertPv_same3 cfg e3 m).cad h3
          generalize e3.insertPv cfg m = e4 at h4 ⊢
          split
          · simp only
            apply (ttRecord_same3 ..).cad
            split
            · exact Same3.cad (e := e4) ⟨rfl, rfl, rfl⟩ h4
            · exact h4
          · split
            · exact ih _ _ _ _ _ (Same3.cad (e := e4) ⟨rfl, rfl, rfl⟩ h4)
            · exact ih _ _ _ _ _ h4
        · exact ih _ _ _ _ _ h3

theorem nullMoveStep_cad (R : Rules) (rec : Game → Nat → Int → Int → Env → Int × Env) (hrec : RecCad rec) (g : Game)
    (nDepth : Nat) (inCheck : Bool) (beta : Int) (e : Env) (hc : Cad e) : Cad (nullMoveStep R rec g nDepth inCheck beta e).2 := by
  unfold nullMoveStep
  split
  · simp only
    have h1 : Cad { e with ply := e.ply + 1 } := Same3.cad ⟨rfl, rfl, rfl⟩ hc
    have h2 := hrec (R.nullMove g) (nDepth - 1 - 2) (-beta) (-beta + 1) _ h1
    generalize rec (R.nullMove g) (nDepth - 1 - 2) (-beta) (-beta + 1) { e with ply := e.ply + 1 } = r at h2
    obtain ⟨s, e2⟩ := r
    have h3 : Cad { e2 with ply := e2.ply - 1 } := Same3.cad ⟨rfl, rfl, rfl⟩ h2
    simp only
    split
    · exact h3
    · split <;> exact h3
  · exact hc

theorem finish_cad (cfg : Cfg) (g : Game) (depth : Nat) (inCheck : Bool) (out : LoopOut) (e : Env) (hc : Cad e) :
    Cad (finish cfg g depth inCheck (out, e)).2 := by
  cases out with
  | ret v => exact hc
  | done ta flag legal =>
    simp only [finish]
    split
    · exact (ev_same3 ..).cad hc
    · exact (ttRecord_same3 ..).cad hc

/-- the cadence invariant for the main search -/
theorem negamax_cad (R : Rules) (cfg : Cfg) : ∀ fuel, RecCad (negamax R cfg fuel) := by
  intro fuel
  induction fuel with
  | zero => intro c d a b e hc; exact hc
  | succ fuel ih =>
    intro g depth alpha beta e hc
    simp only [negamax]
    have h1 := (onNode_same3 cfg e 1 g depth alpha beta).cad hc
    generalize e.onNode cfg 1 g depth alpha beta = e1 at h1
    split
    · unfold repReturn; simp only
      exact Same3.cad (e := e1.ev cfg _ _) ⟨rfl, rfl, rfl⟩ ((ev_same3 ..).cad h1)
    · split
      · unfold ttReturn; simp only
        exact Same3.cad (e := e1.ev cfg _ _) ⟨rfl, rfl, rfl⟩ ((ev_same3 ..).cad h1)
      · unfold afterProbe
        simp only
        have h2 : Cad { e1 with pvLen := e1.pvLen.setIfInBounds e1.ply e1.ply } := Same3.cad (e := e1) ⟨rfl, rfl, rfl⟩ h1
        generalize ({ e1 with pvLen := e1.pvLen.setIfInBounds e1.ply e1.ply } : Env) = e2 at h2
        split
        · exact h2
        · obtain ⟨h3, h3p⟩ := maybePoll_cad cfg e2 h2
          generalize e2.maybePoll cfg = e3 at h3 h3p
          split
          · exact quiescence_cad R cfg qFuel g alpha beta e3 h3
          · unfold expand
            simp only
            have h4 := count_cad e3 h3 h3p
            generalize ({ e3 with nodes := e3.nodes + 1 } : Env) = e4 at h4
            have h5 := nullMoveStep_cad R _ ih g (if R.inCheck g then depth + 1 else depth) (R.inCheck g) beta e4 h4
            generalize nullMoveStep R (negamax R cfg fuel) g (if R.inCheck g then depth + 1 else depth) (R.inCheck g) beta e4 = no at h5
            obtain ⟨nv, e5⟩ := no
            cases nv with
            | some v => exact h5
            | none =>
              simp only
              unfold searchMoves
              simp only
              have h6 : Cad (if e5.followPv then enablePvScoring (R.generate g true) e5 else e5) := by
                split
                · exact Same3.cad (e := e5) ⟨rfl, rfl, rfl⟩ h5
                · exact h5
              generalize (if e5.followPv then enablePvScoring (R.generate g true) e5 else e5 : Env) = e6 at h6
              have h7 := (sortMoves_same3 g (R.generate g true) e6).cad h6
              have h8 := moveLoop_cad R cfg _ ih g depth (if R.inCheck g then depth + 1 else depth) (R.inCheck g) beta
                (sortMoves g (R.generate g true) e6).1 alpha Flag.alpha 0 0 _ h7
              generalize moveLoop R cfg (negamax R cfg fuel) g depth (if R.inCheck g then depth + 1 else depth) (R.inCheck g) beta
                (sortMoves g (R.generate g true) e6).1 alpha Flag.alpha 0 0 (sortMoves g (R.generate g true) e6).2 = lo at h8
              obtain ⟨out, e8⟩ := lo
              exact finish_cad cfg g depth (R.inCheck g) out e8 h8

theorem idLoop_cad (R : Rules) (cfg : Cfg) (g : Game) :
    ∀ (count cur : Nat) (alpha beta score : Int) (e : Env), Cad e → Cad (idLoop R cfg g count cur alpha beta score e).2.2 := by
  intro count
  induction count with
  | zero => intro cur alpha beta score e hc; exact hc
  | succ count ih =>
    intro cur alpha beta score e hc
    simp only [idLoop]
    have h1 := negamax_cad R cfg negaFuel g cur alpha beta { e with followPv := true } (Same3.cad (e := e) ⟨rfl, rfl, rfl⟩ hc)
    generalize negamax R cfg negaFuel g cur alpha beta { e with followPv := true } = r at h1 ⊢
    obtain ⟨sc, e1⟩ := r
    simp only at h1 ⊢
    split
    · exact h1
    · split
      · exact ih _ _ _ _ _ h1
      · exact ih _ _ _ _ _ (Same3.cad (e := e1) ⟨rfl, rfl, rfl⟩ h1)

/-- **T9.1** at the end of a `search` that was not stopped, every multiple of `INPUT_POLL_INTERVAL + 1` below the final
    node count has been a poll point -/
theorem search_cad (R : Rules) (cfg : Cfg) (g : Game) (depth : Int) (tt : TT) (rep : RepTable) :
    Cad (search R cfg g depth tt rep).2 := by
  obtain ⟨_, he⟩ := search_eq R cfg g depth tt rep
  rw [he]
  have h0 : Cad (Env.fresh tt rep) := fun _ n hn _ => absurd hn (Nat.not_lt_zero n)
  have hl := idLoop_cad R cfg g (if depth == -1 then Gen.MAX_PLY else (depth % 256).toNat) 1 (-Gen.INFINITY) Gen.INFINITY 0 _ h0
  exact Same3.cad ⟨rfl, rfl, rfl⟩ ((ev_same3 ..).cad hl)

end Jence
