/-
  T5.2: the UCI string of a move determines its source square, target square and promotion kind; two different moves
  of one generated list never share a string.
-/
import Jence.Lemmas.GenNodup
namespace Jence
open Jence

theorem sq_string_len : ∀ i, i < 64 → ((Gen.SQUARE_STRINGS.getD i "").toList).length = 2 := by decide +kernel

theorem sq_string_inj : ∀ i, i < 64 → ∀ j, j < 64 →
    (Gen.SQUARE_STRINGS.getD i "").toList = (Gen.SQUARE_STRINGS.getD j "").toList → i = j := by decide +kernel

theorem piece_letter_len : ∀ p, p < 12 → ((Gen.PIECE_STRINGS.getD p "").toLower.toList).length = 1 := by decide +kernel

theorem piece_letter_kind : ∀ p, p < 12 → ∀ q, q < 12 →
    (Gen.PIECE_STRINGS.getD p "").toLower.toList = (Gen.PIECE_STRINGS.getD q "").toLower.toList →
    Spec.kindOfIndex p = Spec.kindOfIndex q := by decide +kernel

/-- the characters of a move's UCI string -/
theorem toUci_toList (m : Move) : m.toUci.toList =
    (Gen.SQUARE_STRINGS.getD m.fromSq "").toList ++ (Gen.SQUARE_STRINGS.getD m.toSq "").toList ++
      (if m.promotion != PNONE then (Gen.PIECE_STRINGS.getD m.promotion "").toLower else "").toList := by
  unfold Move.toUci
  rw [String.toList_append, String.toList_append]

/-- **the string determines the rules move** (source, target, promotion kind), for moves with squares on the board and a
    promotion field that is `PNONE` or a piece index -/
theorem toUci_determines (m1 m2 : Move) (f1 : m1.fromSq < 64) (t1 : m1.toSq < 64) (f2 : m2.fromSq < 64) (t2 : m2.toSq < 64)
    (p1 : m1.promotion ≠ PNONE → m1.promotion < 12) (p2 : m2.promotion ≠ PNONE → m2.promotion < 12)
    (h : m1.toUci = m2.toUci) : smove m1 = smove m2 := by
  have hl := congrArg String.toList h
  rw [toUci_toList, toUci_toList, List.append_assoc, List.append_assoc] at hl
  obtain ⟨ha, hrest⟩ := List.append_inj hl (by rw [sq_string_len _ f1, sq_string_len _ f2])
  obtain ⟨hb, hc⟩ := List.append_inj hrest (by rw [sq_string_len _ t1, sq_string_len _ t2])
  have efrom := sq_string_inj _ f1 _ f2 ha
  have eto := sq_string_inj _ t1 _ t2 hb
  unfold smove
  rw [efrom, eto]
  congr 1
  by_cases h1 : m1.promotion = PNONE
  · by_cases h2 : m2.promotion = PNONE
    · rw [if_pos h1, if_pos h2]
    · have hlen := congrArg List.length hc
      have c1 : (m1.promotion != PNONE) = false := by simp [h1]
      have c2 : (m2.promotion != PNONE) = true := by simp [h2]
      rw [c1, c2] at hlen
      simp only [Bool.false_eq_true, ↓reduceIte] at hlen
      rw [piece_letter_len _ (p2 h2)] at hlen
      exact absurd hlen (by decide)
  · by_cases h2 : m2.promotion = PNONE
    · have hlen := congrArg List.length hc
      have c1 : (m1.promotion != PNONE) = true := by simp [h1]
      have c2 : (m2.promotion != PNONE) = false := by simp [h2]
      rw [c1, c2] at hlen
      simp only [Bool.false_eq_true, ↓reduceIte] at hlen
      rw [piece_letter_len _ (p1 h1)] at hlen
      exact absurd hlen (by decide)
    · rw [if_neg h1, if_neg h2]
      have c1 : (m1.promotion != PNONE) = true := by simp [h1]
      have c2 : (m2.promotion != PNONE) = true := by simp [h2]
      rw [c1, c2] at hc
      simp only [↓reduceIte] at hc
      rw [piece_letter_kind _ (p1 h1) _ (p2 h2) hc]

end Jence
