/-
  T19.1: `quiescence` returns the clamped minimax value of the capture tree (stand-pat, captures only, ply cap,
  half-move cut-off), whatever the move ordering, the poll schedule and the environment.
-/
import Jence.Lemmas.Sort
import Jence.Lemmas.SearchFrame
import Jence.Lemmas.PvHead
namespace Jence
open Jence

/-- fail-hard clamp -/
def clamp (v a b : Int) : Int := if v ≤ a then a else if v ≥ b then b else v

/-- `v` is a sound answer of an alpha-beta search for a node of true value `V` searched with the window `(a, b)`:
    an upper bound of `V` when it is at most `a` (fail low), a lower bound when it is at least `b` (fail high), and
    exactly `V` strictly inside the window -/
def Sound (v V a b : Int) : Prop := (v ≤ a → V ≤ v) ∧ (v ≥ b → V ≥ v) ∧ (a < v → v < b → V = v)

/-- the weaker reading: the answer lies on the same side of the window as the value, and equals it inside -/
def Agree (v V a b : Int) : Prop := (V ≤ a → v ≤ a) ∧ (V ≥ b → v ≥ b) ∧ (a < V → V < b → v = V)

theorem Sound.agree {v V a b : Int} (h : Sound v V a b) (hab : a < b) : Agree v V a b := by
  obtain ⟨h1, h2, h3⟩ := h
  refine ⟨fun hV => ?_, fun hV => ?_, fun hV1 hV2 => ?_⟩
  · by_cases hv : v ≤ a
    · exact hv
    · by_cases hv2 : v ≥ b
      · have := h2 hv2; omega
      · have := h3 (by omega) (by omega); omega
  · by_cases hv : v ≥ b
    · exact hv
    · by_cases hv2 : v ≤ a
      · have := h1 hv2; omega
      · have := h3 (by omega) (by omega); omega
  · by_cases hv : v ≤ a
    · have := h1 hv; omega
    · by_cases hv2 : v ≥ b
      · have := h2 hv2; omega
      · exact (h3 (by omega) (by omega)).symm

theorem sound_self (V a b : Int) : Sound V V a b := ⟨fun _ => Int.le_refl _, fun _ => Int.le_refl _, fun _ _ => rfl⟩

/-- best value over the moves of `ms` that can be made, starting from `init`: `max` over `−V child` -/
def bestOf (R : Rules) (V : Game → Int) (g : Game) (ms : List Move) (init : Int) : Int :=
  ms.foldl (fun b m => match R.make g m with | none => b | some c => max b (-(V c))) init

theorem bestOf_nil (R : Rules) (V : Game → Int) (g : Game) (init : Int) : bestOf R V g [] init = init := rfl

theorem bestOf_cons_none (R : Rules) (V : Game → Int) (g : Game) (m : Move) (ms : List Move) (init : Int)
    (h : R.make g m = none) : bestOf R V g (m :: ms) init = bestOf R V g ms init := by
  simp only [bestOf, List.foldl_cons, h]

theorem bestOf_cons_some (R : Rules) (V : Game → Int) (g : Game) (m : Move) (ms : List Move) (init : Int) (c : Game)
    (h : R.make g m = some c) : bestOf R V g (m :: ms) init = bestOf R V g ms (max init (-(V c))) := by
  simp only [bestOf, List.foldl_cons, h]

theorem bestOf_ge (R : Rules) (V : Game → Int) (g : Game) (ms : List Move) (init : Int) : init ≤ bestOf R V g ms init := by
  induction ms generalizing init with
  | nil => exact Int.le_refl _
  | cons m ms ih =>
    simp only [bestOf, List.foldl_cons]
    cases R.make g m with
    | none => exact ih init
    | some c => exact Int.le_trans (Int.le_max_left _ _) (ih _)

theorem bestOf_max (R : Rules) (V : Game → Int) (g : Game) (ms : List Move) (a b : Int) :
    bestOf R V g ms (max a b) = max a (bestOf R V g ms b) := by
  induction ms generalizing b with
  | nil => rfl
  | cons m ms ih =>
    simp only [bestOf, List.foldl_cons] at ih ⊢
    cases R.make g m with
    | none => exact ih b
    | some c =>
      simp only
      rw [← ih]
      congr 1
      omega

theorem bestOf_perm (R : Rules) (V : Game → Int) (g : Game) (l₁ l₂ : List Move) (h : l₁.Perm l₂) (init : Int) :
    bestOf R V g l₁ init = bestOf R V g l₂ init := by
  induction h generalizing init with
  | nil => rfl
  | cons x _ ih => simp only [bestOf, List.foldl_cons] at ih ⊢; exact ih _
  | swap x y l =>
    simp only [bestOf, List.foldl_cons]
    congr 1
    cases R.make g x <;> cases R.make g y <;> simp <;> omega
  | trans _ _ ih₁ ih₂ => exact (ih₁ init).trans (ih₂ init)

/-- the minimax value of the capture tree at `ply` (own fuel, mirroring the recursion of `quiescence`) -/
def qVal (R : Rules) : Nat → Game → Nat → Int
  | 0, g, _ => R.evaluate g
  | fuel + 1, g, ply =>
    let ev := R.evaluate g
    if ply > Gen.MAX_PLY - 1 || g.halfMoves == 100 then ev
    else bestOf R (fun c => qVal R fuel c (ply + 1)) g (R.generate g false) ev

/-- the loop of `quiescence` against a recursive call that is known to agree with the children's values and to restore
    the ply -/
theorem qLoop_value (R : Rules) (rec : Game → Int → Int → Env → Int × Env) (V : Game → Int) (g : Game) (beta : Int) (p : Nat)
    (hrec : ∀ c a b e, a < b → e.ply = p + 1 → Sound (rec c a b e).1 (V c) a b ∧ (rec c a b e).2.ply = p + 1) :
    ∀ (ms : List Move) (ta : Int) (e : Env), ta < beta → e.ply = p →
      (qLoop R rec g beta ms ta e).1 = min beta (bestOf R V g ms ta) ∧ (qLoop R rec g beta ms ta e).2.ply = p := by
  intro ms
  induction ms with
  | nil =>
    intro ta e hlt hp
    simp only [qLoop, bestOf_nil]
    exact ⟨by omega, hp⟩
  | cons m ms ih =>
    intro ta e hlt hp
    simp only [qLoop]
    cases hmk : R.make g m with
    | none => rw [bestOf_cons_none R V g m ms ta hmk]; exact ih ta e hlt hp
    | some c =>
      rw [bestOf_cons_some R V g m ms ta c hmk]
      simp only
      obtain ⟨hv, hply⟩ := hrec c (-beta) (-ta) { e with rep := e.rep.insert c.key, ply := e.ply + 1 } (by omega) (by simp [hp])
      generalize rec c (-beta) (-ta) { e with rep := e.rep.insert c.key, ply := e.ply + 1 } = r at hv hply
      obtain ⟨s, e2⟩ := r
      simp only at hv hply ⊢
      have hp3 : ({ e2 with ply := e2.ply - 1, rep := e2.rep.moveBack } : Env).ply = p := by simp [hply]
      generalize ({ e2 with ply := e2.ply - 1, rep := e2.rep.moveBack } : Env) = e3 at hp3 ⊢
      obtain ⟨hlo, hhi, hin⟩ := hv
      have hb := bestOf_ge R V g ms (max ta (-(V c)))
      by_cases h1 : s ≤ -beta
      · -- cut-off: the child's value is at most `s`
        have hV := hlo h1
        have hc : -s ≥ beta := by omega
        rw [if_pos hc]
        refine ⟨?_, hp3⟩
        have : beta ≤ max ta (-(V c)) := by omega
        generalize bestOf R V g ms (max ta (-(V c))) = B at hb
        omega
      · by_cases h2 : s ≥ -ta
        · -- no improvement: the child's value is at least `s`
          have hV := hhi h2
          have hc : ¬ (-s ≥ beta) := by omega
          rw [if_neg hc]
          have hgt : ¬ (-s > ta) := by omega
          rw [if_neg hgt]
          have hmax : max ta (-(V c)) = ta := by omega
          rw [hmax]
          exact ih ta e3 hlt hp3
        · have hV := hin (by omega) (by omega)
          have hc : ¬ (-s ≥ beta) := by omega
          rw [if_neg hc]
          have hgt : -s > ta := by omega
          rw [if_pos hgt]
          have hmax : max ta (-(V c)) = -s := by omega
          rw [hmax]
          exact ih (-s) e3 (by omega) hp3

theorem maybePoll_ply (cfg : Cfg) (e : Env) : (e.maybePoll cfg).ply = e.ply := by
  unfold Env.maybePoll; dsimp only
  split <;> (split <;> first | exact poll_ply cfg e | rfl)

theorem clamp_max (ev M a b : Int) (hab : a < b) : min b (max a (max ev M)) = clamp (max ev M) a b := by
  unfold clamp; split <;> (try split) <;> omega

theorem qEnter_ply (cfg : Cfg) (g : Game) (alpha beta : Int) (e : Env) : (qEnter cfg g alpha beta e).ply = e.ply := by
  unfold qEnter; simp only; rw [maybePoll_ply, onNode_ply]

theorem maxPly_ge_one : 1 ≤ Gen.MAX_PLY := by decide

/-- **T19.1** What `quiescence` returns is a sound answer for the capture-tree minimax value `qVal` and its window: the
    value itself when strictly inside `(alpha, beta)`, an upper bound of it when at most `alpha`, a lower bound when at
    least `beta`; and the search comes back at the ply it was entered with - for every rules instance, poll schedule and environment contents
    (killers, history scores, PV: they only reorder the captures) and every window `alpha < beta`. -/
theorem quiescence_value (R : Rules) (cfg : Cfg) :
    ∀ (fuel : Nat) (g : Game) (alpha beta : Int) (e : Env), alpha < beta → e.ply ≤ Gen.MAX_PLY → e.ply + fuel ≥ Gen.MAX_PLY + 1 →
      Sound (quiescence R cfg fuel g alpha beta e).1 (qVal R fuel g e.ply) alpha beta ∧
      (quiescence R cfg fuel g alpha beta e).2.ply = e.ply := by
  intro fuel
  induction fuel with
  | zero => intro g alpha beta e _ h1 h2; omega
  | succ fuel ih =>
    intro g alpha beta e hab hply hfuel
    simp only [quiescence, qVal]
    have hp3 := qEnter_ply cfg g alpha beta e
    generalize qEnter cfg g alpha beta e = e3 at hp3 ⊢
    rw [hp3]
    by_cases hcut : (decide (e.ply > Gen.MAX_PLY - 1) || g.halfMoves == 100) = true
    · rw [if_pos hcut, if_pos hcut]
      exact ⟨sound_self _ _ _, hp3⟩
    · rw [if_neg hcut, if_neg hcut]
      have hle : e.ply ≤ Gen.MAX_PLY - 1 := by
        simp only [Bool.or_eq_true, decide_eq_true_eq, not_or] at hcut; omega
      have h1 := maxPly_ge_one
      -- the recursive call: clamped value of the child at ply + 1, ply restored
      have hrec : ∀ c a b e', a < b → e'.ply = e.ply + 1 →
          Sound (quiescence R cfg fuel c a b e').1 (qVal R fuel c (e.ply + 1)) a b ∧ (quiescence R cfg fuel c a b e').2.ply = e.ply + 1 := by
        intro c a b e' hab' hp'
        obtain ⟨i1, i2⟩ := ih c a b e' hab' (by omega) (by omega)
        rw [hp'] at i1 i2
        exact ⟨i1, i2⟩
      have hsame := sortMoves_same g (R.generate g false) e3
      have hperm := sortMoves_perm g (R.generate g false) e3
      generalize sortMoves g (R.generate g false) e3 = sm at hsame hperm ⊢
      have hp4 : sm.2.ply = e.ply := by rw [hsame]; exact hp3
      by_cases hsp : (decide (R.evaluate g ≥ beta) && decide (R.evaluate g > alpha)) = true
      · rw [if_pos hsp]
        simp only [Bool.and_eq_true, decide_eq_true_eq] at hsp
        refine ⟨?_, hp3⟩
        have hb := bestOf_ge R (fun c => qVal R fuel c (e.ply + 1)) g (R.generate g false) (R.evaluate g)
        exact ⟨fun h => by omega, fun _ => by omega, fun h1 h2 => by omega⟩
      · rw [if_neg hsp]
        simp only [Bool.and_eq_true, decide_eq_true_eq, not_and] at hsp
        have hta : (if R.evaluate g > alpha then R.evaluate g else alpha) < beta := by
          split <;> omega
        obtain ⟨v1, v2⟩ := qLoop_value R (quiescence R cfg fuel) (fun c => qVal R fuel c (e.ply + 1)) g beta e.ply hrec
          sm.1 (if R.evaluate g > alpha then R.evaluate g else alpha) sm.2 hta hp4
        refine ⟨?_, v2⟩
        rw [v1, bestOf_perm R _ g sm.1 (R.generate g false) hperm]
        have hmx : (if R.evaluate g > alpha then R.evaluate g else alpha) = max alpha (R.evaluate g) := by
          split <;> omega
        rw [hmx, bestOf_max]
        have hb := bestOf_ge R (fun c => qVal R fuel c (e.ply + 1)) g (R.generate g false) (R.evaluate g)
        generalize bestOf R (fun c => qVal R fuel c (e.ply + 1)) g (R.generate g false) (R.evaluate g) = B at hb ⊢
        exact ⟨fun h => by omega, fun h => by omega, fun h1 h2 => by omega⟩

end Jence
