/-
  The PEXT-indexed table lookup equals the on-the-fly ray loops for every square and every occupancy:
  `SLIDING_ATTACKS[offset[sq] + pext(occ, mask[sq])] = onTheFly sq occ`.
  Ingredients: where a block sits in the concatenated table (offsets = prefix sums), what entry `i` of a block holds
  (`onTheFly sq (pdep i mask)`), `pdep (pext occ mask) mask = occ &&& mask`, and edge irrelevance.
-/
import Jence.Lemmas.PextPdep
import Jence.Lemmas.EdgeMask
namespace Jence
open Jence

/-! ### a table built by appending blocks -/

def buildBlocks {α : Type} (blk : Nat → Array α) (init : Array α) (n : Nat) : Array α :=
  (Array.range n).foldl (fun acc sq => acc ++ blk sq) init

def szSum {α : Type} (blk : Nat → Array α) : Nat → Nat
  | 0 => 0
  | n + 1 => szSum blk n + (blk n).size

theorem buildBlocks_succ {α : Type} (blk : Nat → Array α) (init : Array α) (n : Nat) :
    buildBlocks blk init (n + 1) = buildBlocks blk init n ++ blk n := by
  unfold buildBlocks
  rw [Array.range_succ, Array.foldl_append]
  simp

theorem buildBlocks_zero {α : Type} (blk : Nat → Array α) (init : Array α) : buildBlocks blk init 0 = init := by
  simp [buildBlocks, Array.range]

theorem szSum_succ {α : Type} (blk : Nat → Array α) (n : Nat) : szSum blk (n + 1) = szSum blk n + (blk n).size := rfl

theorem szSum_mono {α : Type} (blk : Nat → Array α) : ∀ a b, a ≤ b → szSum blk a ≤ szSum blk b := by
  intro a b hab
  induction b with
  | zero => have : a = 0 := by omega
            subst this; exact Nat.le_refl _
  | succ b ihb =>
    by_cases hab' : a = b + 1
    · subst hab'; exact Nat.le_refl _
    · have := ihb (by omega); rw [szSum_succ]; omega

theorem buildBlocks_size {α : Type} (blk : Nat → Array α) (init : Array α) (n : Nat) :
    (buildBlocks blk init n).size = init.size + szSum blk n := by
  induction n with
  | zero => simp [buildBlocks, szSum, Array.range]
  | succ n ih => rw [buildBlocks_succ, Array.size_append, ih, szSum_succ]; omega

theorem getD_append_left {α : Type} (a b : Array α) (i : Nat) (d : α) (h : i < a.size) : (a ++ b).getD i d = a.getD i d := by
  simp [Array.getD_eq_getD_getElem?, Array.getElem?_append_left h]

theorem getD_append_right {α : Type} (a b : Array α) (i : Nat) (d : α) : (a ++ b).getD (a.size + i) d = b.getD i d := by
  simp [Array.getD_eq_getD_getElem?, Array.getElem?_append_right]

theorem buildBlocks_stable {α : Type} (blk : Nat → Array α) (init : Array α) (d : α) (m idx : Nat)
    (h : idx < (buildBlocks blk init m).size) : ∀ n, m ≤ n → (buildBlocks blk init n).getD idx d = (buildBlocks blk init m).getD idx d := by
  intro n hn
  induction n with
  | zero => have : m = 0 := by omega
            subst this; rfl
  | succ n ih =>
    by_cases hmn : m = n + 1
    · subst hmn; rfl
    · rw [buildBlocks_succ, getD_append_left _ _ _ _ (by
        have := buildBlocks_size blk init n
        have h2 := buildBlocks_size blk init m
        have hmono := szSum_mono blk m n (by omega)
        omega)]
      exact ih (by omega)

/-- entry `i` of block `sq` sits at `init.size + (sizes of the earlier blocks) + i` -/
theorem buildBlocks_entry {α : Type} (blk : Nat → Array α) (init : Array α) (d : α) (n sq i : Nat) (hsq : sq < n)
    (hi : i < (blk sq).size) : (buildBlocks blk init n).getD (init.size + szSum blk sq + i) d = (blk sq).getD i d := by
  have hsz := buildBlocks_size blk init sq
  rw [buildBlocks_stable blk init d (sq + 1) _ (by rw [buildBlocks_size, szSum_succ]; omega) n (by omega)]
  rw [buildBlocks_succ, ← hsz, getD_append_right]

/-! ### the sliding table -/

def rookBlock (sq : Nat) : Array UInt64 := blockOf rookAttacksOnTheFly (ROOK_MASK.getD sq 0) sq
def bishopBlock (sq : Nat) : Array UInt64 := blockOf bishopAttacksOnTheFly (BISHOP_MASK.getD sq 0) sq

theorem sliding_eq : SLIDING_ATTACKS = buildBlocks bishopBlock (buildBlocks rookBlock #[] 64) 64 := rfl

theorem blockOf_size (f : Nat → UInt64 → UInt64) (mask : UInt64) (sq : Nat) : (blockOf f mask sq).size = 2 ^ popCount mask := by
  simp [blockOf]

theorem blockOf_getD (f : Nat → UInt64 → UInt64) (mask : UInt64) (sq i : Nat) (h : i < 2 ^ popCount mask) :
    (blockOf f mask sq).getD i 0 = f sq (pdep i.toUInt64 mask) := by
  simp [blockOf, Array.getD_eq_getD_getElem?, h]

set_option maxRecDepth 100000 in
/-- table layout (kernel-decided over the generated masks): the rook offsets start at 0 and grow by `2^popcount(mask)`,
    the bishop offsets continue where the rook blocks end -/
theorem table_layout_fact :
    ROOK_OFFSETS.getD 0 0 = 0 ∧
    (∀ sq, sq < 63 → ROOK_OFFSETS.getD (sq + 1) 0 = ROOK_OFFSETS.getD sq 0 + 2 ^ popCount (ROOK_MASK.getD sq 0)) ∧
    BISHOP_OFFSETS.getD 0 0 = ROOK_OFFSETS.getD 63 0 + 2 ^ popCount (ROOK_MASK.getD 63 0) ∧
    (∀ sq, sq < 63 → BISHOP_OFFSETS.getD (sq + 1) 0 = BISHOP_OFFSETS.getD sq 0 + 2 ^ popCount (BISHOP_MASK.getD sq 0)) ∧
    BISHOP_OFFSETS.getD 63 0 + 2 ^ popCount (BISHOP_MASK.getD 63 0) = 107648 := by decide +kernel

theorem rook_offset (sq : Nat) (h : sq < 64) : ROOK_OFFSETS.getD sq 0 = szSum rookBlock sq := by
  induction sq with
  | zero => exact table_layout_fact.1
  | succ n ih =>
    have hb : (rookBlock n).size = 2 ^ popCount (ROOK_MASK.getD n 0) := blockOf_size _ _ _
    rw [table_layout_fact.2.1 n (by omega), ih (by omega), szSum_succ, hb]

theorem rook_total : szSum rookBlock 64 = ROOK_OFFSETS.getD 63 0 + 2 ^ popCount (ROOK_MASK.getD 63 0) := by
  have hb : (rookBlock 63).size = 2 ^ popCount (ROOK_MASK.getD 63 0) := blockOf_size _ _ _
  rw [rook_offset 63 (by decide), show (64 : Nat) = 63 + 1 from rfl, szSum_succ, hb]

theorem bishop_offset (sq : Nat) (h : sq < 64) : BISHOP_OFFSETS.getD sq 0 = szSum rookBlock 64 + szSum bishopBlock sq := by
  induction sq with
  | zero => rw [table_layout_fact.2.2.1, rook_total]; rfl
  | succ n ih =>
    have hb : (bishopBlock n).size = 2 ^ popCount (BISHOP_MASK.getD n 0) := blockOf_size _ _ _
    rw [table_layout_fact.2.2.2.1 n (by omega), ih (by omega), szSum_succ bishopBlock n, hb]; omega

theorem toUInt64_toNat (x : UInt64) : x.toNat.toUInt64 = x := by
  apply UInt64.toNat_inj.mp
  simp [Nat.toUInt64]


/-- **the rook lookup is the ray loop** for every square and every 64-bit occupancy -/
theorem getRookAttacks_eq (sq : Nat) (hsq : sq < 64) (occ : UInt64) : getRookAttacks sq occ = rookAttacksOnTheFly sq occ := by
  unfold getRookAttacks
  have hlt := pext_lt occ (ROOK_MASK.getD sq 0)
  rw [rook_offset sq hsq, sliding_eq]
  have h0 := buildBlocks_zero bishopBlock (buildBlocks rookBlock #[] 64)
  have hb : (rookBlock sq).size = 2 ^ popCount (ROOK_MASK.getD sq 0) := blockOf_size _ _ _
  have hstab := buildBlocks_stable bishopBlock (buildBlocks rookBlock #[] 64) (0 : UInt64) 0
    (szSum rookBlock sq + (pext occ (ROOK_MASK.getD sq 0)).toNat) (by
      rw [h0, buildBlocks_size]
      have h1 := szSum_mono rookBlock (sq + 1) 64 (by omega)
      rw [szSum_succ rookBlock sq, hb] at h1
      rw [Array.size_empty, Nat.zero_add]
      omega) 64 (by omega)
  rw [hstab, h0]
  have := buildBlocks_entry rookBlock #[] (0 : UInt64) 64 sq (pext occ (ROOK_MASK.getD sq 0)).toNat hsq (by
    rw [hb]; exact hlt)
  rw [Array.size_empty, Nat.zero_add] at this
  rw [this, rookBlock, blockOf_getD _ _ _ _ hlt, toUInt64_toNat, pdep_pext]
  have hm : ROOK_MASK.getD sq 0 = rookMaskOf sq := getD_map_range rookMaskOf sq hsq
  rw [hm]
  exact rook_mask_irrelevant sq occ

/-- **the bishop lookup is the ray loop** for every square and every 64-bit occupancy -/
theorem getBishopAttacks_eq (sq : Nat) (hsq : sq < 64) (occ : UInt64) : getBishopAttacks sq occ = bishopAttacksOnTheFly sq occ := by
  unfold getBishopAttacks
  have hlt := pext_lt occ (BISHOP_MASK.getD sq 0)
  rw [bishop_offset sq hsq, sliding_eq]
  have hinit : (buildBlocks rookBlock #[] 64).size = szSum rookBlock 64 := by rw [buildBlocks_size, Array.size_empty, Nat.zero_add]
  have := buildBlocks_entry bishopBlock (buildBlocks rookBlock #[] 64) (0 : UInt64) 64 sq (pext occ (BISHOP_MASK.getD sq 0)).toNat hsq (by
    rw [show (bishopBlock sq).size = 2 ^ popCount (BISHOP_MASK.getD sq 0) from blockOf_size _ _ _]; exact hlt)
  rw [hinit] at this
  rw [this, bishopBlock, blockOf_getD _ _ _ _ hlt, toUInt64_toNat, pdep_pext]
  have hm : BISHOP_MASK.getD sq 0 = bishopMaskOf sq := getD_map_range bishopMaskOf sq hsq
  rw [hm]
  exact bishop_mask_irrelevant sq occ

end Jence
