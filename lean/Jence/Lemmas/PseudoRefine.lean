/-
  The generator's non-castling moves are the rules' non-castling pseudo-legal moves (as sets of rules moves).
-/
import Jence.Lemmas.GenRefine
namespace Jence
open Jence

/-- the rules' pseudo-legal moves without castling -/
def specNonCastle (p : Spec.Position) : List Spec.SMove :=
  (List.range 64).flatMap fun s =>
    match Spec.at_ p s with
    | some pc => if pc.white == p.white then Spec.pieceMoves p s pc else []
    | none => []

theorem spec_pseudoLegal_eq (p : Spec.Position) : Spec.pseudoLegal p = specNonCastle p ++ Spec.castlingMoves p := rfl

/-- what the generator emits for the piece `X` standing on `f` -/
def innerOf (g : Game) (X f : Nat) : List Move :=
  if X = (if g.white then WP else BP) then pawnMoves g true f else pieceInner g true X (attacksOf g.allOcc X) f

theorem innerOf_pawn (g : Game) (f : Nat) : innerOf g (if g.white then WP else BP) f = pawnMoves g true f := by
  unfold innerOf; rw [if_pos rfl]

theorem innerOf_piece (g : Game) (X f : Nat) (h : X ≠ (if g.white then WP else BP)) :
    innerOf g X f = pieceInner g true X (attacksOf g.allOcc X) f := by
  unfold innerOf; rw [if_neg h]

/-- the generator's moves without castling -/
def genNonCastle (g : Game) : List Move :=
  let o := if g.white then 0 else 6
  (bitsOf (g.bb (WP + o))).flatMap (pawnMoves g true) ++
  pieceMoves g true (WN + o) getKnightAttacks ++
  pieceMoves g true (WB + o) (fun f => getBishopAttacks f g.allOcc) ++
  pieceMoves g true (WR + o) (fun f => getRookAttacks f g.allOcc) ++
  pieceMoves g true (WQ + o) (fun f => getQueenAttacks f g.allOcc) ++
  pieceMoves g true (WK + o) getKingAttacks

theorem mem_generate (g : Game) (m : Move) : m ∈ generateMoves g true ↔ m ∈ castlingMoves g true ∨ m ∈ genNonCastle g := by
  unfold generateMoves genNonCastle
  simp only [List.mem_append]
  constructor
  · rintro ((((((h | h) | h) | h) | h) | h) | h)
    · exact Or.inr (Or.inl (Or.inl (Or.inl (Or.inl (Or.inl h)))))
    · exact Or.inl h
    · exact Or.inr (Or.inl (Or.inl (Or.inl (Or.inl (Or.inr h)))))
    · exact Or.inr (Or.inl (Or.inl (Or.inl (Or.inr h))))
    · exact Or.inr (Or.inl (Or.inl (Or.inr h)))
    · exact Or.inr (Or.inl (Or.inr h))
    · exact Or.inr (Or.inr h)
  · rintro (h | (((((h | h) | h) | h) | h) | h))
    · exact Or.inl (Or.inl (Or.inl (Or.inl (Or.inl (Or.inr h)))))
    · exact Or.inl (Or.inl (Or.inl (Or.inl (Or.inl (Or.inl h)))))
    · exact Or.inl (Or.inl (Or.inl (Or.inl (Or.inr h))))
    · exact Or.inl (Or.inl (Or.inl (Or.inr h)))
    · exact Or.inl (Or.inl (Or.inr h))
    · exact Or.inl (Or.inr h)
    · exact Or.inr h

section nc
variable {g : Game} {b : Board}

theorem mem_bitsOf_board (wf : Wf g b) (X f : Nat) (hX : X < 12) : f ∈ bitsOf (g.bb X) ↔ f < 64 ∧ b f = some X := by
  rw [mem_bitsOf]
  constructor
  · rintro ⟨hf, hb⟩
    refine ⟨hf, ?_⟩
    have := rep_bit g.bbs b wf.rep X f hX hf
    unfold Game.bb at hb; rw [hb] at this; simpa using this.symm
  · rintro ⟨hf, hb⟩
    refine ⟨hf, ?_⟩
    unfold Game.bb; rw [rep_bit g.bbs b wf.rep X f hX hf, hb]; simp

/-- membership in the generator's non-castling moves: some own piece `X` on some square `f` emits the move -/
theorem mem_genNonCastle (wf : Wf g b) (m : Move) :
    m ∈ genNonCastle g ↔ ∃ X f, ownP g.white X ∧ f < 64 ∧ b f = some X ∧ m ∈ innerOf g X f := by
  have hWP : WP = 0 := rfl
  have hBP : BP = 6 := rfl
  -- one non-pawn kind
  have kind : ∀ (q : Nat) (att : Nat → UInt64), 0 < q → q < 6 →
      (∀ f, att f = attacksOf g.allOcc (q + (if g.white then 0 else 6)) f) →
      (m ∈ pieceMoves g true (q + (if g.white then 0 else 6)) att ↔
        ∃ f, f < 64 ∧ b f = some (q + (if g.white then 0 else 6)) ∧ m ∈ innerOf g (q + (if g.white then 0 else 6)) f) := by
    intro q att hq0 hq6 hatt
    have hX12 : q + (if g.white then 0 else 6) < 12 := by cases g.white <;> simp <;> omega
    have hnp : q + (if g.white then 0 else 6) ≠ (if g.white then WP else BP) := by cases g.white <;> simp <;> omega
    have hfun : att = attacksOf g.allOcc (q + (if g.white then 0 else 6)) := funext hatt
    rw [pieceMoves_eq, List.mem_flatMap, hfun]
    simp only [innerOf_piece g _ _ hnp]
    constructor
    · rintro ⟨f, hf, hm⟩
      obtain ⟨h1, h2⟩ := (mem_bitsOf_board wf _ f hX12).1 hf
      exact ⟨f, h1, h2, hm⟩
    · rintro ⟨f, h1, h2, hm⟩
      exact ⟨f, (mem_bitsOf_board wf _ f hX12).2 ⟨h1, h2⟩, hm⟩
  have tbl : ∀ f, (∀ X, X = 1 ∨ X = 7 → getKnightAttacks f = attacksOf g.allOcc X f) ∧
      (∀ X, X = 2 ∨ X = 8 → getBishopAttacks f g.allOcc = attacksOf g.allOcc X f) ∧
      (∀ X, X = 3 ∨ X = 9 → getRookAttacks f g.allOcc = attacksOf g.allOcc X f) ∧
      (∀ X, X = 4 ∨ X = 10 → getQueenAttacks f g.allOcc = attacksOf g.allOcc X f) ∧
      (∀ X, X = 5 ∨ X = 11 → getKingAttacks f = attacksOf g.allOcc X f) := by
    intro f
    obtain ⟨t0, t6, t1, t7, t2, t8, t3, t9, t4, t10, t5, t11⟩ := attacksOf_table g.allOcc f
    refine ⟨?_, ?_, ?_, ?_, ?_⟩ <;> intro X hX <;> rcases hX with h | h <;> subst h
    · exact t1.symm
    · exact t7.symm
    · exact t2.symm
    · exact t8.symm
    · exact t3.symm
    · exact t9.symm
    · exact t4.symm
    · exact t10.symm
    · exact t5.symm
    · exact t11.symm
  have hsel : ∀ q : Nat, (q + (if g.white then 0 else 6) = q ∨ q + (if g.white then 0 else 6) = q + 6) := by
    intro q; cases g.white <;> simp
  have kN := kind 1 getKnightAttacks (by omega) (by omega) (fun f => (tbl f).1 _ (by rcases hsel 1 with h | h <;> omega))
  have kB := kind 2 (fun f => getBishopAttacks f g.allOcc) (by omega) (by omega) (fun f => (tbl f).2.1 _ (by rcases hsel 2 with h | h <;> omega))
  have kR := kind 3 (fun f => getRookAttacks f g.allOcc) (by omega) (by omega) (fun f => (tbl f).2.2.1 _ (by rcases hsel 3 with h | h <;> omega))
  have kQ := kind 4 (fun f => getQueenAttacks f g.allOcc) (by omega) (by omega) (fun f => (tbl f).2.2.2.1 _ (by rcases hsel 4 with h | h <;> omega))
  have kK := kind 5 getKingAttacks (by omega) (by omega) (fun f => (tbl f).2.2.2.2 _ (by rcases hsel 5 with h | h <;> omega))
  -- pawns
  have hpw : WP + (if g.white then 0 else 6) = (if g.white then WP else BP) := by cases g.white <;> rfl
  have kP : m ∈ (bitsOf (g.bb (WP + (if g.white then 0 else 6)))).flatMap (pawnMoves g true) ↔
      ∃ f, f < 64 ∧ b f = some (if g.white then WP else BP) ∧ m ∈ innerOf g (if g.white then WP else BP) f := by
    rw [List.mem_flatMap, hpw]
    simp only [innerOf_pawn]
    have h12 : (if g.white then WP else BP) < 12 := by cases g.white <;> decide
    constructor
    · rintro ⟨f, hf, hm⟩
      obtain ⟨h1, h2⟩ := (mem_bitsOf_board wf _ f h12).1 hf
      exact ⟨f, h1, h2, hm⟩
    · rintro ⟨f, h1, h2, hm⟩
      exact ⟨f, (mem_bitsOf_board wf _ f h12).2 ⟨h1, h2⟩, hm⟩
  have hWN : WN = 1 := rfl
  have hWB : WB = 2 := rfl
  have hWR : WR = 3 := rfl
  have hWQ : WQ = 4 := rfl
  have hWK : WK = 5 := rfl
  unfold genNonCastle
  simp only [List.mem_append]
  rw [kP, hWN, hWB, hWR, hWQ, hWK, kN, kB, kR, kQ, kK]
  constructor
  · rintro (((((⟨f, h1, h2, h3⟩ | ⟨f, h1, h2, h3⟩) | ⟨f, h1, h2, h3⟩) | ⟨f, h1, h2, h3⟩) | ⟨f, h1, h2, h3⟩) | ⟨f, h1, h2, h3⟩)
    · exact ⟨_, f, by unfold ownP; cases g.white <;> decide, h1, h2, h3⟩
    · exact ⟨_, f, by unfold ownP; cases g.white <;> decide, h1, h2, h3⟩
    · exact ⟨_, f, by unfold ownP; cases g.white <;> decide, h1, h2, h3⟩
    · exact ⟨_, f, by unfold ownP; cases g.white <;> decide, h1, h2, h3⟩
    · exact ⟨_, f, by unfold ownP; cases g.white <;> decide, h1, h2, h3⟩
    · exact ⟨_, f, by unfold ownP; cases g.white <;> decide, h1, h2, h3⟩
  · rintro ⟨X, f, hX, h1, h2, h3⟩
    have hX' : X = (if g.white then WP else BP) ∨ X = 1 + (if g.white then 0 else 6) ∨ X = 2 + (if g.white then 0 else 6) ∨
        X = 3 + (if g.white then 0 else 6) ∨ X = 4 + (if g.white then 0 else 6) ∨ X = 5 + (if g.white then 0 else 6) := by
      unfold ownP at hX
      cases hw : g.white <;> rw [hw] at hX <;> simp only [Bool.false_eq_true, if_false, if_true] at hX ⊢ <;> omega
    rcases hX' with h | h | h | h | h | h <;> subst h
    · exact Or.inl (Or.inl (Or.inl (Or.inl (Or.inl ⟨f, h1, h2, h3⟩))))
    · exact Or.inl (Or.inl (Or.inl (Or.inl (Or.inr ⟨f, h1, h2, h3⟩))))
    · exact Or.inl (Or.inl (Or.inl (Or.inr ⟨f, h1, h2, h3⟩)))
    · exact Or.inl (Or.inl (Or.inr ⟨f, h1, h2, h3⟩))
    · exact Or.inl (Or.inr ⟨f, h1, h2, h3⟩)
    · exact Or.inr ⟨f, h1, h2, h3⟩

theorem mem_specNonCastle (wf : Wf g b) (sm : Spec.SMove) :
    sm ∈ specNonCastle (Spec.abs g) ↔
      ∃ X f, ownP g.white X ∧ f < 64 ∧ b f = some X ∧ sm ∈ Spec.pieceMoves (Spec.abs g) f (pieceOf X) := by
  unfold specNonCastle
  rw [List.mem_flatMap]
  constructor
  · rintro ⟨s, hs, hsm⟩
    have hs64 := List.mem_range.1 hs
    rw [abs_at wf s hs64] at hsm
    cases hb : b s with
    | none => rw [hb] at hsm; exact absurd hsm (by simp)
    | some X =>
      rw [hb] at hsm
      simp only [Option.map_some] at hsm
      have hX12 := wf.ok.valid s X hs64 hb
      split at hsm
      · rename_i hcol
        exact ⟨X, s, (pieceOf_white X g.white hX12).1 hcol, hs64, hb, hsm⟩
      · exact absurd hsm (by simp)
  · rintro ⟨X, f, hX, hf, hb, hsm⟩
    refine ⟨f, List.mem_range.2 hf, ?_⟩
    rw [abs_at wf f hf, hb]
    simp only [Option.map_some]
    have hcol : ((pieceOf X).white == (Spec.abs g).white) = true := (pieceOf_white X g.white (ownP_lt hX)).2 hX
    rw [if_pos hcol]; exact hsm

theorem pieceOf_pawnOf (w : Bool) : pieceOf (if w then WP else BP) = ⟨w, .pawn⟩ := by cases w <;> rfl

theorem pieceOf_nonpawn (w : Bool) (X : Nat) (hX : ownP w X) (h : X ≠ (if w then WP else BP)) : (pieceOf X).kind ≠ .pawn := by
  have hWP : WP = 0 := rfl
  have hBP : BP = 6 := rfl
  intro hk
  have := (pieceOf_pawn' X (ownP_lt hX)).1 hk
  unfold ownP at hX
  cases w <;> simp at hX h <;> omega

/-- **the non-castling pseudo-legal moves agree**: a rules move is pseudo-legal (castling aside) for the position a
    consistent engine position denotes iff it is the `smove` of a non-castling move the generator emits -/
theorem nonCastle_refines (wf : Wf g b) (sm : Spec.SMove) :
    sm ∈ specNonCastle (Spec.abs g) ↔ ∃ m ∈ genNonCastle g, smove m = sm := by
  rw [mem_specNonCastle wf]
  constructor
  · rintro ⟨X, f, hX, hf, hb, hsm⟩
    by_cases hp : X = (if g.white then WP else BP)
    · subst hp
      rw [pieceOf_pawnOf] at hsm
      have hrow := wf.ok.pawns f hf (by rw [hb]; cases g.white <;> simp)
      obtain ⟨m, hm, hs⟩ := (pawn_refines wf f hrow sm).1 hsm
      exact ⟨m, (mem_genNonCastle wf m).2 ⟨_, f, hX, hf, hb, by rw [innerOf_pawn]; exact hm⟩, hs⟩
    · obtain ⟨m, hm, hs⟩ := (piece_refines wf X f hX (pieceOf_nonpawn g.white X hX hp) hf sm).1 hsm
      exact ⟨m, (mem_genNonCastle wf m).2 ⟨X, f, hX, hf, hb, by rw [innerOf_piece g X f hp]; exact hm⟩, hs⟩
  · rintro ⟨m, hm, hs⟩
    obtain ⟨X, f, hX, hf, hb, hin⟩ := (mem_genNonCastle wf m).1 hm
    refine ⟨X, f, hX, hf, hb, ?_⟩
    by_cases hp : X = (if g.white then WP else BP)
    · subst hp
      rw [innerOf_pawn] at hin
      rw [pieceOf_pawnOf]
      have hrow := wf.ok.pawns f hf (by rw [hb]; cases g.white <;> simp)
      exact (pawn_refines wf f hrow sm).2 ⟨m, hin, hs⟩
    · rw [innerOf_piece g X f hp] at hin
      exact (piece_refines wf X f hX (pieceOf_nonpawn g.white X hX hp) hf sm).2 ⟨m, hin, hs⟩

end nc

end Jence
