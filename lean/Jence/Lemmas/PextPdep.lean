/-
  PEXT and PDEP (`_pext_u64`, `set_occupancy`) as functions of the ascending list of set bits of the mask, and the
  round trip the PEXT-indexed attack table relies on: `pdep (pext x m) m = x &&& m`.
-/
import Jence.Lemmas.BitScan
namespace Jence
open Jence

/-- the shape all the `while m != 0 { s = tzcnt m; m = blsr m; … }` loops share -/
def scan {σ : Type} (f : σ → Nat → σ) : Nat → UInt64 → σ → σ
  | 0, _, s => s
  | fuel + 1, m, s => if m == 0 then s else scan f fuel (blsr m) (f s (tzcnt m))

theorem bitsOfAux_acc (fuel : Nat) : ∀ (m : UInt64) (acc : List Nat), bitsOfAux fuel m acc = acc.reverse ++ bitsOfAux fuel m [] := by
  induction fuel with
  | zero => intro m acc; simp [bitsOfAux]
  | succ n ih =>
    intro m acc
    simp only [bitsOfAux]
    split
    · simp
    · rw [ih _ (tzcnt m :: acc), ih _ [tzcnt m]]; simp

theorem scan_eq_foldl {σ : Type} (f : σ → Nat → σ) (fuel : Nat) : ∀ (m : UInt64) (s : σ),
    scan f fuel m s = (bitsOfAux fuel m []).foldl f s := by
  induction fuel with
  | zero => intro m s; rfl
  | succ n ih =>
    intro m s
    simp only [scan, bitsOfAux]
    split
    · rfl
    · rw [ih, bitsOfAux_acc _ _ [tzcnt m]]; simp

def pextStep (x : UInt64) (p : Nat × UInt64) (s : Nat) : Nat × UInt64 := (p.1 + 1, if getBit x s then p.2 ||| bit p.1 else p.2)
def pdepStep (idx : UInt64) (p : Nat × UInt64) (s : Nat) : Nat × UInt64 := (p.1 + 1, if getBit idx p.1 then p.2 ||| bit s else p.2)

theorem pextAux_scan (x : UInt64) (fuel : Nat) : ∀ (m : UInt64) (k : Nat) (acc : UInt64),
    pextAux fuel x m k acc = (scan (pextStep x) fuel m (k, acc)).2 := by
  induction fuel with
  | zero => intro m k acc; rfl
  | succ n ih =>
    intro m k acc
    simp only [pextAux, scan]
    split
    · rfl
    · rw [ih]; rfl

theorem pdepAux_scan (idx : UInt64) (fuel : Nat) : ∀ (m : UInt64) (k : Nat) (acc : UInt64),
    pdepAux fuel idx m k acc = (scan (pdepStep idx) fuel m (k, acc)).2 := by
  induction fuel with
  | zero => intro m k acc; rfl
  | succ n ih =>
    intro m k acc
    simp only [pdepAux, scan]
    split
    · rfl
    · rw [ih]; rfl

theorem popLoop_scan (fuel : Nat) : ∀ (m : UInt64) (acc : Nat), popLoop fuel m acc = scan (fun n _ => n + 1) fuel m acc := by
  induction fuel with
  | zero => intro m acc; rfl
  | succ n ih =>
    intro m acc
    simp only [popLoop, scan]
    split
    · rfl
    · rw [ih]

theorem pext_eq (x m : UInt64) : pext x m = ((bitsOf m).foldl (pextStep x) (0, 0)).2 := by
  unfold pext bitsOf; rw [pextAux_scan, scan_eq_foldl]

theorem pdep_eq (idx m : UInt64) : pdep idx m = ((bitsOf m).foldl (pdepStep idx) (0, 0)).2 := by
  unfold pdep bitsOf; rw [pdepAux_scan, scan_eq_foldl]

theorem popCount_eq (m : UInt64) : popCount m = (bitsOf m).length := by
  unfold popCount bitsOf; rw [popLoop_scan, scan_eq_foldl]
  generalize bitsOfAux 64 m [] = l
  have : ∀ (l : List Nat) (a : Nat), l.foldl (fun n _ => n + 1) a = a + l.length := by
    intro l; induction l with
    | nil => intro a; rfl
    | cons x l ih => intro a; simp only [List.foldl_cons, List.length_cons]; rw [ih]; omega
  rw [this]; omega

theorem bitsOf_length_le (m : UInt64) : (bitsOf m).length ≤ 64 := by
  rw [bitsOf_eq_filter]
  exact Nat.le_trans (List.length_filter_le _ _) (by simp)

/-- the bits of the gathered word: bit `k + i` is bit `L[i]` of `x` -/
theorem foldl_pext (x : UInt64) (L : List Nat) : ∀ (k : Nat) (acc : UInt64), k + L.length ≤ 64 → ∀ j, j < 64 →
    (getBit (L.foldl (pextStep x) (k, acc)).2 j = true ↔
      getBit acc j = true ∨ ∃ i, i < L.length ∧ k + i = j ∧ getBit x (L.getD i 0) = true) := by
  induction L with
  | nil => intro k acc _ j _; simp
  | cons s L ih =>
    intro k acc hk j hj
    simp only [List.foldl_cons, List.length_cons] at hk ⊢
    rw [show pextStep x (k, acc) s = (k + 1, if getBit x s then acc ||| bit k else acc) from rfl]
    rw [ih (k + 1) _ (by omega) j hj]
    have hacc : getBit (if getBit x s then acc ||| bit k else acc) j = true ↔ getBit acc j = true ∨ (k = j ∧ getBit x s = true) := by
      by_cases hx : getBit x s = true
      · rw [if_pos hx, getBit_or _ _ _ hj, getBit_bit k j (by omega) hj]; simp [hx]
      · rw [if_neg hx]; simp [hx]
    rw [hacc]
    constructor
    · rintro ((h | ⟨h1, h2⟩) | ⟨i, hi, h1, h2⟩)
      · exact Or.inl h
      · exact Or.inr ⟨0, by omega, by omega, by simpa using h2⟩
      · exact Or.inr ⟨i + 1, by omega, by omega, by simpa using h2⟩
    · rintro (h | ⟨i, hi, h1, h2⟩)
      · exact Or.inl (Or.inl h)
      · cases i with
        | zero => exact Or.inl (Or.inr ⟨by omega, by simpa using h2⟩)
        | succ i => exact Or.inr ⟨i, by omega, by omega, by simpa using h2⟩

/-- the bits of the scattered word: bit `L[i]` is bit `k + i` of the index -/
theorem foldl_pdep (idx : UInt64) (L : List Nat) (hL : ∀ s ∈ L, s < 64) : ∀ (k : Nat) (acc : UInt64), ∀ t, t < 64 →
    (getBit (L.foldl (pdepStep idx) (k, acc)).2 t = true ↔
      getBit acc t = true ∨ ∃ i, i < L.length ∧ L.getD i 0 = t ∧ getBit idx (k + i) = true) := by
  induction L with
  | nil => intro k acc t _; simp
  | cons s L ih =>
    intro k acc t ht
    simp only [List.foldl_cons, List.length_cons]
    rw [show pdepStep idx (k, acc) s = (k + 1, if getBit idx k then acc ||| bit s else acc) from rfl]
    rw [ih (fun s' hs' => hL s' (List.mem_cons_of_mem _ hs')) (k + 1) _ t ht]
    have hs := hL s (List.mem_cons_self)
    have hacc : getBit (if getBit idx k then acc ||| bit s else acc) t = true ↔ getBit acc t = true ∨ (s = t ∧ getBit idx k = true) := by
      by_cases hx : getBit idx k = true
      · rw [if_pos hx, getBit_or _ _ _ ht, getBit_bit s t hs ht]; simp [hx]
      · rw [if_neg hx]; simp [hx]
    rw [hacc]
    constructor
    · rintro ((h | ⟨h1, h2⟩) | ⟨i, hi, h1, h2⟩)
      · exact Or.inl h
      · exact Or.inr ⟨0, by omega, by simpa using h1, by simpa using h2⟩
      · exact Or.inr ⟨i + 1, by omega, by simpa using h1, by rw [show k + (i + 1) = k + 1 + i by omega]; exact h2⟩
    · rintro (h | ⟨i, hi, h1, h2⟩)
      · exact Or.inl (Or.inl h)
      · cases i with
        | zero => exact Or.inl (Or.inr ⟨by simpa using h1, by simpa using h2⟩)
        | succ i => exact Or.inr ⟨i, by omega, by simpa using h1, by rw [show k + 1 + i = k + (i + 1) by omega]; exact h2⟩

theorem getBit_pext (x m : UInt64) (j : Nat) (hj : j < 64) :
    getBit (pext x m) j = true ↔ j < (bitsOf m).length ∧ getBit x ((bitsOf m).getD j 0) = true := by
  rw [pext_eq, foldl_pext x (bitsOf m) 0 0 (by have := bitsOf_length_le m; omega) j hj]
  rw [getBit_zero j hj]
  constructor
  · rintro (h | ⟨i, hi, h1, h2⟩)
    · exact absurd h (by simp)
    · have : i = j := by omega
      subst this; exact ⟨hi, h2⟩
  · rintro ⟨h1, h2⟩; exact Or.inr ⟨j, h1, by omega, h2⟩

theorem getBit_pdep (idx m : UInt64) (t : Nat) (ht : t < 64) :
    getBit (pdep idx m) t = true ↔ ∃ i, i < (bitsOf m).length ∧ (bitsOf m).getD i 0 = t ∧ getBit idx i = true := by
  rw [pdep_eq, foldl_pdep idx (bitsOf m) (fun s hs => ((mem_bitsOf m s).1 hs).1) 0 0 t ht]
  rw [getBit_zero t ht]
  constructor
  · rintro (h | ⟨i, hi, h1, h2⟩)
    · exact absurd h (by simp)
    · exact ⟨i, hi, h1, by simpa using h2⟩
  · rintro ⟨i, hi, h1, h2⟩; exact Or.inr ⟨i, hi, h1, by simpa using h2⟩

theorem getD_of_lt (l : List Nat) (i : Nat) (h : i < l.length) : l.getD i 0 = l[i] := by
  simp [List.getD_eq_getElem?_getD, h]

/-- **PDEP after PEXT with the same mask keeps exactly the masked bits** -/
theorem pdep_pext (x m : UInt64) : pdep (pext x m) m = x &&& m := by
  apply ext_getBit
  intro t ht
  have hlen := bitsOf_length_le m
  have key : getBit (pdep (pext x m) m) t = true ↔ getBit (x &&& m) t = true := by
    rw [getBit_pdep _ _ t ht, getBit_and _ _ _ ht]
    constructor
    · rintro ⟨i, hi, h1, h2⟩
      rw [getBit_pext x m i (by omega)] at h2
      rw [h1] at h2
      have hmem : t ∈ bitsOf m := by
        rw [← h1]; rw [getD_of_lt _ _ hi]; exact List.getElem_mem hi
      rw [h2.2, ((mem_bitsOf m t).1 hmem).2]; rfl
    · intro h
      simp only [Bool.and_eq_true] at h
      have hmem : t ∈ bitsOf m := (mem_bitsOf m t).2 ⟨ht, h.2⟩
      obtain ⟨i, hi, hget⟩ := List.getElem_of_mem hmem
      refine ⟨i, hi, by rw [getD_of_lt _ _ hi]; exact hget, ?_⟩
      rw [getBit_pext x m i (by omega)]
      refine ⟨hi, ?_⟩
      rw [getD_of_lt _ _ hi, hget]; exact h.1
  cases h1 : getBit (pdep (pext x m) m) t <;> cases h2 : getBit (x &&& m) t <;> simp_all

/-- the gathered word fits in as many bits as the mask has -/
theorem pext_lt (x m : UInt64) : (pext x m).toNat < 2 ^ popCount m := by
  apply Nat.lt_pow_two_of_testBit
  intro i hi
  rw [popCount_eq] at hi
  by_cases h64 : i < 64
  · rw [← getBit_eq_testBit _ _ h64]
    cases h : getBit (pext x m) i
    · rfl
    · rw [getBit_pext x m i h64] at h; omega
  · exact Nat.testBit_lt_two_pow (Nat.lt_of_lt_of_le (pext x m).toNat_lt (Nat.pow_le_pow_right (by decide) (by omega)))

end Jence
