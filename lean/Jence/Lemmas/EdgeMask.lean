/-
  Edge irrelevance: the ray loops of `rook_attacks_on_the_fly` / `bishop_attacks_on_the_fly` give the same set for an
  occupancy and for that occupancy restricted to the relevance mask (`rook_mask` / `bishop_mask`: the rays without their
  last square) - the last square of a ray is included whether or not it is occupied, and nothing lies beyond it.
-/
import Jence.Lemmas.BitAlgebra
import Jence.Model.Tables
namespace Jence
open Jence

/-- every bit of `y` is a bit of `M` -/
def Sub (y M : UInt64) : Prop := ∀ t, t < 64 → getBit y t = true → getBit M t = true

theorem Sub.or_left {y a : UInt64} (b : UInt64) (h : Sub y a) : Sub y (a ||| b) := by
  intro t ht hy; rw [getBit_or _ _ _ ht, h t ht hy]; rfl

theorem Sub.or_right (a y : UInt64) : Sub y (a ||| y) := by
  intro t ht hy; rw [getBit_or _ _ _ ht, hy]; simp

theorem Sub.trans {x y z : UInt64} (h1 : Sub x y) (h2 : Sub y z) : Sub x z := fun t ht hx => h2 t ht (h1 t ht hx)

theorem Sub.refl (x : UInt64) : Sub x x := fun _ _ h => h

theorem and_mask_and (occ M b : UInt64) (h : Sub b M) : (occ &&& M) &&& b = occ &&& b := by
  apply ext_getBit
  intro t ht
  rw [getBit_and _ _ _ ht, getBit_and _ _ _ ht, getBit_and _ _ _ ht]
  cases hb : getBit b t
  · simp
  · rw [h t ht hb]; simp

/-- the `k`-th square of a ray (0-based), as the loops compute it -/
def stepBit (base : UInt64) (up : Bool) (d k : Nat) : UInt64 :=
  if up then base >>> (d * (k + 1)).toUInt64 else base <<< (d * (k + 1)).toUInt64

theorem rayMask_sub (base : UInt64) (up : Bool) (d : Nat) : ∀ (c k : Nat) (acc : UInt64),
    Sub acc (rayMask base up d c k acc) ∧ ∀ j, k ≤ j → j < k + c → Sub (stepBit base up d j) (rayMask base up d c k acc) := by
  intro c
  induction c with
  | zero => intro k acc; exact ⟨Sub.refl _, fun j h1 h2 => by omega⟩
  | succ c ih =>
    intro k acc
    simp only [rayMask]
    obtain ⟨h1, h2⟩ := ih (k + 1) (acc ||| (if up then base >>> (d * (k + 1)).toUInt64 else base <<< (d * (k + 1)).toUInt64))
    refine ⟨Sub.trans (Sub.or_left _ (Sub.refl acc)) h1, fun j hj1 hj2 => ?_⟩
    by_cases hjk : j = k
    · subst hjk
      exact Sub.trans (Sub.or_right acc _) h1
    · exact h2 j (by omega) (by omega)

/-- a ray walk sees only the squares before its last one -/
theorem rayWalk_mask (base occ M : UInt64) (up : Bool) (d : Nat) : ∀ (c k : Nat) (acc : UInt64),
    (∀ j, k ≤ j → j + 1 < k + c → Sub (stepBit base up d j) M) →
    rayWalk base (occ &&& M) up d c k acc = rayWalk base occ up d c k acc := by
  intro c
  induction c with
  | zero => intro k acc _; rfl
  | succ c ih =>
    intro k acc h
    simp only [rayWalk]
    cases c with
    | zero => simp [rayWalk]
    | succ c =>
      have hs : Sub (stepBit base up d k) M := h k (by omega) (by omega)
      unfold stepBit at hs
      rw [and_mask_and occ M _ hs]
      rw [ih (k + 1) _ (fun j h1 h2 => h j (by omega) (by omega))]

theorem getD_map_range (f : Nat → UInt64) (sq : Nat) (h : sq < 64) : ((Array.range 64).map f).getD sq 0 = f sq := by
  simp [Array.getD_eq_getD_getElem?, h]

/-- **rooks: the relevance mask loses nothing** -/
theorem rook_mask_irrelevant (sq : Nat) (occ : UInt64) :
    rookAttacksOnTheFly sq (occ &&& rookMaskOf sq) = rookAttacksOnTheFly sq occ := by
  unfold rookAttacksOnTheFly
  simp only
  have key : ∀ (up : Bool) (d c c' : Nat) (acc : UInt64), c' = c - 1 →
      (∀ j, j < c' → Sub (stepBit (bit sq) up d j) (rookMaskOf sq)) →
      rayWalk (bit sq) (occ &&& rookMaskOf sq) up d c 0 acc = rayWalk (bit sq) occ up d c 0 acc := by
    intro up d c c' acc hc h
    exact rayWalk_mask _ _ _ _ _ c 0 acc (fun j _ h2 => h j (by omega))
  -- the four rays of the mask, innermost first
  have m1 := rayMask_sub (bit sq) true 1 (sq % 8 - 1) 0 0
  have m2 := rayMask_sub (bit sq) false 1 (6 - sq % 8) 0 (rayMask (bit sq) true 1 (sq % 8 - 1) 0 0)
  have m3 := rayMask_sub (bit sq) true 8 (sq / 8 - 1) 0 (rayMask (bit sq) false 1 (6 - sq % 8) 0 (rayMask (bit sq) true 1 (sq % 8 - 1) 0 0))
  have m4 := rayMask_sub (bit sq) false 8 (6 - sq / 8) 0 (rayMask (bit sq) true 8 (sq / 8 - 1) 0 (rayMask (bit sq) false 1 (6 - sq % 8) 0 (rayMask (bit sq) true 1 (sq % 8 - 1) 0 0)))
  have hM : rookMaskOf sq = rayMask (bit sq) false 8 (6 - sq / 8) 0 (rayMask (bit sq) true 8 (sq / 8 - 1) 0 (rayMask (bit sq) false 1 (6 - sq % 8) 0 (rayMask (bit sq) true 1 (sq % 8 - 1) 0 0))) := rfl
  rw [key true 1 (sq % 8) (sq % 8 - 1) 0 rfl (fun j hj => by
        rw [hM]; exact Sub.trans (Sub.trans (Sub.trans (m1.2 j (by omega) (by omega)) m2.1) m3.1) m4.1)]
  rw [key false 1 (7 - sq % 8) (6 - sq % 8) _ (by omega) (fun j hj => by
        rw [hM]; exact Sub.trans (Sub.trans (m2.2 j (by omega) (by omega)) m3.1) m4.1)]
  rw [key true 8 (sq / 8) (sq / 8 - 1) _ rfl (fun j hj => by
        rw [hM]; exact Sub.trans (m3.2 j (by omega) (by omega)) m4.1)]
  rw [key false 8 (7 - sq / 8) (6 - sq / 8) _ (by omega) (fun j hj => by
        rw [hM]; exact m4.2 j (by omega) (by omega))]

/-- **bishops: the relevance mask loses nothing** -/
theorem bishop_mask_irrelevant (sq : Nat) (occ : UInt64) :
    bishopAttacksOnTheFly sq (occ &&& bishopMaskOf sq) = bishopAttacksOnTheFly sq occ := by
  unfold bishopAttacksOnTheFly
  simp only
  have key : ∀ (up : Bool) (d c c' : Nat) (acc : UInt64), c' = c - 1 →
      (∀ j, j < c' → Sub (stepBit (bit sq) up d j) (bishopMaskOf sq)) →
      rayWalk (bit sq) (occ &&& bishopMaskOf sq) up d c 0 acc = rayWalk (bit sq) occ up d c 0 acc := by
    intro up d c c' acc hc h
    exact rayWalk_mask _ _ _ _ _ c 0 acc (fun j _ h2 => h j (by omega))
  generalize hf : sq % 8 = file
  generalize hr : sq / 8 = rank
  have m1 := rayMask_sub (bit sq) false 9 (min (6 - rank) (6 - file)) 0 0
  have m2 := rayMask_sub (bit sq) false 7 (min (6 - rank) (file - 1)) 0 (rayMask (bit sq) false 9 (min (6 - rank) (6 - file)) 0 0)
  have m3 := rayMask_sub (bit sq) true 9 (min (rank - 1) (file - 1)) 0 (rayMask (bit sq) false 7 (min (6 - rank) (file - 1)) 0 (rayMask (bit sq) false 9 (min (6 - rank) (6 - file)) 0 0))
  have m4 := rayMask_sub (bit sq) true 7 (min (rank - 1) (6 - file)) 0 (rayMask (bit sq) true 9 (min (rank - 1) (file - 1)) 0 (rayMask (bit sq) false 7 (min (6 - rank) (file - 1)) 0 (rayMask (bit sq) false 9 (min (6 - rank) (6 - file)) 0 0)))
  have hM : bishopMaskOf sq = rayMask (bit sq) true 7 (min (rank - 1) (6 - file)) 0 (rayMask (bit sq) true 9 (min (rank - 1) (file - 1)) 0 (rayMask (bit sq) false 7 (min (6 - rank) (file - 1)) 0 (rayMask (bit sq) false 9 (min (6 - rank) (6 - file)) 0 0))) := by
    unfold bishopMaskOf; simp only [hf, hr]
  rw [key false 9 (min (7 - rank) (7 - file)) (min (6 - rank) (6 - file)) 0 (by omega) (fun j hj => by
        rw [hM]; exact Sub.trans (Sub.trans (Sub.trans (m1.2 j (by omega) (by omega)) m2.1) m3.1) m4.1)]
  rw [key false 7 (min (7 - rank) file) (min (6 - rank) (file - 1)) _ (by omega) (fun j hj => by
        rw [hM]; exact Sub.trans (Sub.trans (m2.2 j (by omega) (by omega)) m3.1) m4.1)]
  rw [key true 9 (min rank file) (min (rank - 1) (file - 1)) _ (by omega) (fun j hj => by
        rw [hM]; exact Sub.trans (m3.2 j (by omega) (by omega)) m4.1)]
  rw [key true 7 (min rank (7 - file)) (min (rank - 1) (6 - file)) _ (by omega) (fun j hj => by
        rw [hM]; exact m4.2 j (by omega) (by omega))]

end Jence
