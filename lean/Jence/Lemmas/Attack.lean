/-
  Attack sets: the bit-shift rays of `build.rs` (`rook_attacks_on_the_fly`, `bishop_attacks_on_the_fly`) are the
  coordinate walks of the rules (`Spec.slide`) for every square and every occupancy; leaper tables are the rules'
  patterns. Finite facts about single-bit shifts are decided by the kernel over their whole (small) domain.
-/
import Jence.Lemmas.BitAlgebra
import Jence.Model.Tables
import Jence.Spec.Rules
namespace Jence
open Jence

set_option maxRecDepth 100000 in
/-- shifting a single bit up (64 x 64 cases, kernel-decided) -/
theorem bit_shl : ∀ s, s < 64 → ∀ o, o < 64 → s + o < 64 → (bit s <<< o.toUInt64) = bit (s + o) := by decide +kernel

set_option maxRecDepth 100000 in
/-- shifting a single bit down -/
theorem bit_shr : ∀ s, s < 64 → ∀ o, o ≤ s → (bit s >>> o.toUInt64) = bit (s - o) := by decide +kernel

/-- membership in a bit set built from a list of squares -/
theorem getBit_foldl_setBit (l : List Nat) (acc : UInt64) (t : Nat) (hl : ∀ s ∈ l, s < 64) (ht : t < 64) :
    getBit (l.foldl setBit acc) t = (getBit acc t || decide (t ∈ l)) := by
  induction l generalizing acc with
  | nil => simp
  | cons s l ih =>
    simp only [List.foldl_cons]
    rw [ih _ (fun x hx => hl x (List.mem_cons_of_mem _ hx)), getBit_setBit _ _ _ (hl s (List.mem_cons_self ..)) ht]
    simp only [List.mem_cons, Bool.or_assoc]
    congr 1
    by_cases h : s = t
    · subst h; simp
    · have : ¬ t = s := fun h' => h h'.symm
      simp [h, this]

theorem getBit_toBits (l : List Nat) (t : Nat) (hl : ∀ s ∈ l, s < 64) (ht : t < 64) :
    getBit (Spec.toBits l) t = decide (t ∈ l) := by
  unfold Spec.toBits
  rw [getBit_foldl_setBit l 0 t hl ht, getBit_zero t ht]
  simp

/-- `count` more steps in direction `(df, dr)` stay on the board, the one after that does not -/
def Room (df dr : Int) : Nat → Int → Int → Prop
  | 0, f, r => Spec.onBoard (f + df) (r + dr) = false
  | c + 1, f, r => Spec.onBoard (f + df) (r + dr) = true ∧ Room df dr c (f + df) (r + dr)

theorem walk_sq_lt (occ : Nat → Bool) (df dr : Int) : ∀ n f r, ∀ s ∈ Spec.walk occ df dr n f r, s < 64 := by
  intro n
  induction n with
  | zero => intro f r s hs; simp [Spec.walk] at hs
  | succ n ih =>
    intro f r s hs
    simp only [Spec.walk] at hs
    split at hs
    · rename_i hb
      have hlt : Spec.sqOf (f + df) (r + dr) < 64 := by
        simp only [Spec.onBoard, Bool.and_eq_true, decide_eq_true_eq] at hb
        unfold Spec.sqOf; omega
      split at hs
      · simp only [List.mem_singleton] at hs; rw [hs]; exact hlt
      · rcases List.mem_cons.mp hs with rfl | hs
        · exact hlt
        · exact ih _ _ s hs
    · simp at hs

/-- **one ray**: the shift loop collects exactly the squares of the coordinate walk -/
theorem ray_sim (sq0 : Nat) (hsq : sq0 < 64) (occ : UInt64) (up : Bool) (d : Nat) (hd : 1 ≤ d) (df dr : Int)
    (hdelta : (if up then -(d : Int) else (d : Int)) = 8 * dr + df) :
    ∀ (count k : Nat) (acc : UInt64) (f r : Int) (cur : Nat),
      Spec.onBoard f r = true → (cur : Int) = 8 * r + f → (if up then cur + d * k = sq0 else cur = sq0 + d * k) →
      Room df dr count f r → k + count ≤ 7 →
      ∀ t, t < 64 → getBit (rayWalk (bit sq0) occ up d count k acc) t =
        (getBit acc t || decide (t ∈ Spec.walk (getBit occ) df dr (7 - k) f r)) := by
  intro count
  induction count with
  | zero =>
    intro k acc f r cur hob hcur hrel hroom hk t ht
    simp only [rayWalk]
    have : Spec.walk (getBit occ) df dr (7 - k) f r = [] := by
      cases h7 : 7 - k with
      | zero => rfl
      | succ n => simp only [Spec.walk]; simp only [Room] at hroom; simp [hroom]
    rw [this]; simp
  | succ count ih =>
    intro k acc f r cur hob hcur hrel hroom hk t ht
    obtain ⟨hnext, hroom'⟩ := hroom
    have h7 : 7 - k = (7 - (k + 1)) + 1 := by omega
    rw [h7]
    simp only [rayWalk, Spec.walk, hnext, ↓reduceIte]
    -- the next square, as a number
    have hob' := hnext
    simp only [Spec.onBoard, Bool.and_eq_true, decide_eq_true_eq] at hob hob'
    have hmul : d * (k + 1) = d * k + d := Nat.mul_succ d k
    have hcur' : ∃ cur' : Nat, cur' < 64 ∧ (cur' : Int) = 8 * (r + dr) + (f + df) ∧ Spec.sqOf (f + df) (r + dr) = cur' ∧
        (if up then cur' + d * (k + 1) = sq0 else cur' = sq0 + d * (k + 1)) := by
      refine ⟨(8 * (r + dr) + (f + df)).toNat, by omega, by omega, rfl, ?_⟩
      cases up
      · simp only [Bool.false_eq_true, ↓reduceIte] at hrel hdelta ⊢; omega
      · simp only [↓reduceIte] at hrel hdelta ⊢; omega
    obtain ⟨cur', hlt', hc', hsq', hrel'⟩ := hcur'
    have hb : (if up then bit sq0 >>> (d * (k + 1)).toUInt64 else bit sq0 <<< (d * (k + 1)).toUInt64) = bit cur' := by
      cases up
      · simp only [Bool.false_eq_true, ↓reduceIte] at hrel' ⊢
        rw [bit_shl sq0 hsq (d * (k + 1)) (by omega) (by omega)]; congr 1; omega
      · simp only [↓reduceIte] at hrel' ⊢
        rw [bit_shr sq0 hsq (d * (k + 1)) (by omega)]; congr 1; omega
    rw [hb, hsq']
    have hocc : ((occ &&& bit cur') != 0) = getBit occ cur' := rfl
    rw [hocc]
    by_cases hblock : getBit occ cur' = true
    · simp only [hblock, ↓reduceIte]
      rw [getBit_or _ _ _ ht, getBit_bit cur' t hlt' ht]
      simp only [List.mem_singleton]
      congr 1
      by_cases h : cur' = t
      · subst h; simp
      · have : ¬ t = cur' := fun h' => h h'.symm
        simp [h, this]
    · simp only [hblock, Bool.false_eq_true, ↓reduceIte]
      rw [ih (k + 1) (acc ||| bit cur') (f + df) (r + dr) cur' hnext hc' hrel' hroom' (by omega) t ht]
      rw [getBit_or _ _ _ ht, getBit_bit cur' t hlt' ht]
      simp only [List.mem_cons, Bool.or_assoc]
      congr 1
      by_cases h : cur' = t
      · subst h; simp
      · have : ¬ t = cur' := fun h' => h h'.symm
        simp [h, this]

/-! ### how far each ray can go -/

theorem room_left : ∀ (c : Nat) (f r : Int), 0 ≤ r → r ≤ 7 → f ≤ 7 → f = c → Room (-1) 0 c f r := by
  intro c; induction c with
  | zero => intro f r h1 h2 h3 h4; simp only [Room, Spec.onBoard]; simp; omega
  | succ c ih => intro f r h1 h2 h3 h4; exact ⟨by simp only [Spec.onBoard]; simp; omega, ih _ _ (by omega) (by omega) (by omega) (by omega)⟩

theorem room_right : ∀ (c : Nat) (f r : Int), 0 ≤ r → r ≤ 7 → 0 ≤ f → f + c = 7 → Room 1 0 c f r := by
  intro c; induction c with
  | zero => intro f r h1 h2 h3 h4; simp only [Room, Spec.onBoard]; simp; omega
  | succ c ih => intro f r h1 h2 h3 h4; exact ⟨by simp only [Spec.onBoard]; simp; omega, ih _ _ (by omega) (by omega) (by omega) (by omega)⟩

theorem room_up : ∀ (c : Nat) (f r : Int), 0 ≤ f → f ≤ 7 → r ≤ 7 → r = c → Room 0 (-1) c f r := by
  intro c; induction c with
  | zero => intro f r h1 h2 h3 h4; simp only [Room, Spec.onBoard]; simp; omega
  | succ c ih => intro f r h1 h2 h3 h4; exact ⟨by simp only [Spec.onBoard]; simp; omega, ih _ _ (by omega) (by omega) (by omega) (by omega)⟩

theorem room_down : ∀ (c : Nat) (f r : Int), 0 ≤ f → f ≤ 7 → 0 ≤ r → r + c = 7 → Room 0 1 c f r := by
  intro c; induction c with
  | zero => intro f r h1 h2 h3 h4; simp only [Room, Spec.onBoard]; simp; omega
  | succ c ih => intro f r h1 h2 h3 h4; exact ⟨by simp only [Spec.onBoard]; simp; omega, ih _ _ (by omega) (by omega) (by omega) (by omega)⟩

theorem room_dr : ∀ (c : Nat) (f r : Int), 0 ≤ f → 0 ≤ r → (c : Int) = min (7 - r) (7 - f) → Room 1 1 c f r := by
  intro c; induction c with
  | zero => intro f r h1 h2 h4; simp only [Room, Spec.onBoard]; simp; omega
  | succ c ih => intro f r h1 h2 h4; exact ⟨by simp only [Spec.onBoard]; simp; omega, ih _ _ (by omega) (by omega) (by omega)⟩

theorem room_dl : ∀ (c : Nat) (f r : Int), f ≤ 7 → 0 ≤ r → (c : Int) = min (7 - r) f → Room (-1) 1 c f r := by
  intro c; induction c with
  | zero => intro f r h1 h2 h4; simp only [Room, Spec.onBoard]; simp; omega
  | succ c ih => intro f r h1 h2 h4; exact ⟨by simp only [Spec.onBoard]; simp; omega, ih _ _ (by omega) (by omega) (by omega)⟩

theorem room_ul : ∀ (c : Nat) (f r : Int), f ≤ 7 → r ≤ 7 → (c : Int) = min r f → Room (-1) (-1) c f r := by
  intro c; induction c with
  | zero => intro f r h1 h2 h4; simp only [Room, Spec.onBoard]; simp; omega
  | succ c ih => intro f r h1 h2 h4; exact ⟨by simp only [Spec.onBoard]; simp; omega, ih _ _ (by omega) (by omega) (by omega)⟩

theorem room_ur : ∀ (c : Nat) (f r : Int), 0 ≤ f → r ≤ 7 → (c : Int) = min r (7 - f) → Room 1 (-1) c f r := by
  intro c; induction c with
  | zero => intro f r h1 h2 h4; simp only [Room, Spec.onBoard]; simp; omega
  | succ c ih => intro f r h1 h2 h4; exact ⟨by simp only [Spec.onBoard]; simp; omega, ih _ _ (by omega) (by omega) (by omega)⟩

/-! ### T15.3 — on-the-fly attacks are the coordinate walks, for every occupancy -/

theorem onBoard_sq (sq : Nat) (hsq : sq < 64) : Spec.onBoard (Spec.fileOf sq) (Spec.rowOf sq) = true := by
  simp only [Spec.onBoard, Spec.fileOf, Spec.rowOf, Bool.and_eq_true]
  refine ⟨⟨⟨?_, ?_⟩, ?_⟩, ?_⟩ <;> apply decide_eq_true <;> omega

/-- **T15.3 (rook)** for every square and every set of occupied squares, `rook_attacks_on_the_fly` is the set of squares
    reached by sliding along the file and the rank up to and including the first occupied square -/
theorem rookOnTheFly_eq_slide (sq : Nat) (hsq : sq < 64) (occ : UInt64) :
    rookAttacksOnTheFly sq occ = Spec.slideRook sq occ := by
  apply ext_getBit
  intro t ht
  have hob := onBoard_sq sq hsq
  have hcur : ((sq : Nat) : Int) = 8 * Spec.rowOf sq + Spec.fileOf sq := by simp only [Spec.rowOf, Spec.fileOf]; omega
  have hf0 : (0 : Int) ≤ Spec.fileOf sq ∧ Spec.fileOf sq ≤ 7 ∧ Spec.fileOf sq = ((sq % 8 : Nat) : Int) := by simp only [Spec.fileOf]; omega
  have hr0 : (0 : Int) ≤ Spec.rowOf sq ∧ Spec.rowOf sq ≤ 7 ∧ Spec.rowOf sq = ((sq / 8 : Nat) : Int) := by simp only [Spec.rowOf]; omega
  unfold rookAttacksOnTheFly
  simp only
  rw [ray_sim sq hsq occ false 8 (by omega) 0 1 (by simp) (7 - sq / 8) 0 _ _ _ sq hob hcur (by simp)
        (room_down _ _ _ hf0.1 hf0.2.1 hr0.1 (by omega)) (by omega) t ht,
      ray_sim sq hsq occ true 8 (by omega) 0 (-1) (by simp) (sq / 8) 0 _ _ _ sq hob hcur (by simp)
        (room_up _ _ _ hf0.1 hf0.2.1 hr0.2.1 (by omega)) (by omega) t ht,
      ray_sim sq hsq occ false 1 (by omega) 1 0 (by simp) (7 - sq % 8) 0 _ _ _ sq hob hcur (by simp)
        (room_right _ _ _ hr0.1 hr0.2.1 hf0.1 (by omega)) (by omega) t ht,
      ray_sim sq hsq occ true 1 (by omega) (-1) 0 (by simp) (sq % 8) 0 _ _ _ sq hob hcur (by simp)
        (room_left _ _ _ hr0.1 hr0.2.1 hf0.2.1 (by omega)) (by omega) t ht,
      getBit_zero t ht]
  unfold Spec.slideRook
  rw [getBit_toBits _ t (by
    intro s hs
    simp only [Spec.slide, List.mem_flatMap] at hs
    obtain ⟨d, _, hs⟩ := hs
    exact walk_sq_lt _ _ _ _ _ _ s hs) ht]
  simp only [Spec.slide, Spec.rookDirs, List.flatMap_cons, List.flatMap_nil, List.append_nil, List.mem_append, Nat.sub_zero]
  simp only [Bool.decide_or, Bool.false_or]
  generalize decide (t ∈ Spec.walk (getBit occ) 1 0 7 (Spec.fileOf sq) (Spec.rowOf sq)) = a
  generalize decide (t ∈ Spec.walk (getBit occ) (-1) 0 7 (Spec.fileOf sq) (Spec.rowOf sq)) = b
  generalize decide (t ∈ Spec.walk (getBit occ) 0 1 7 (Spec.fileOf sq) (Spec.rowOf sq)) = c
  generalize decide (t ∈ Spec.walk (getBit occ) 0 (-1) 7 (Spec.fileOf sq) (Spec.rowOf sq)) = d
  cases a <;> cases b <;> cases c <;> cases d <;> rfl

/-- **T15.3 (bishop)** the same along the two diagonals -/
theorem bishopOnTheFly_eq_slide (sq : Nat) (hsq : sq < 64) (occ : UInt64) :
    bishopAttacksOnTheFly sq occ = Spec.slideBishop sq occ := by
  apply ext_getBit
  intro t ht
  have hob := onBoard_sq sq hsq
  have hcur : ((sq : Nat) : Int) = 8 * Spec.rowOf sq + Spec.fileOf sq := by simp only [Spec.rowOf, Spec.fileOf]; omega
  have hf0 : (0 : Int) ≤ Spec.fileOf sq ∧ Spec.fileOf sq ≤ 7 ∧ Spec.fileOf sq = ((sq % 8 : Nat) : Int) := by simp only [Spec.fileOf]; omega
  have hr0 : (0 : Int) ≤ Spec.rowOf sq ∧ Spec.rowOf sq ≤ 7 ∧ Spec.rowOf sq = ((sq / 8 : Nat) : Int) := by simp only [Spec.rowOf]; omega
  unfold bishopAttacksOnTheFly
  simp only
  rw [ray_sim sq hsq occ true 7 (by omega) 1 (-1) (by simp) (min (sq / 8) (7 - sq % 8)) 0 _ _ _ sq hob hcur (by simp)
        (room_ur _ _ _ hf0.1 hr0.2.1 (by omega)) (by omega) t ht,
      ray_sim sq hsq occ true 9 (by omega) (-1) (-1) (by simp) (min (sq / 8) (sq % 8)) 0 _ _ _ sq hob hcur (by simp)
        (room_ul _ _ _ hf0.2.1 hr0.2.1 (by omega)) (by omega) t ht,
      ray_sim sq hsq occ false 7 (by omega) (-1) 1 (by simp) (min (7 - sq / 8) (sq % 8)) 0 _ _ _ sq hob hcur (by simp)
        (room_dl _ _ _ hf0.2.1 hr0.1 (by omega)) (by omega) t ht,
      ray_sim sq hsq occ false 9 (by omega) 1 1 (by simp) (min (7 - sq / 8) (7 - sq % 8)) 0 _ _ _ sq hob hcur (by simp)
        (room_dr _ _ _ hf0.1 hr0.1 (by omega)) (by omega) t ht,
      getBit_zero t ht]
  unfold Spec.slideBishop
  rw [getBit_toBits _ t (by
    intro s hs
    simp only [Spec.slide, List.mem_flatMap] at hs
    obtain ⟨d, _, hs⟩ := hs
    exact walk_sq_lt _ _ _ _ _ _ s hs) ht]
  simp only [Spec.slide, Spec.bishopDirs, List.flatMap_cons, List.flatMap_nil, List.append_nil, List.mem_append, Nat.sub_zero]
  simp only [Bool.decide_or, Bool.false_or]
  generalize decide (t ∈ Spec.walk (getBit occ) 1 1 7 (Spec.fileOf sq) (Spec.rowOf sq)) = a
  generalize decide (t ∈ Spec.walk (getBit occ) 1 (-1) 7 (Spec.fileOf sq) (Spec.rowOf sq)) = b
  generalize decide (t ∈ Spec.walk (getBit occ) (-1) 1 7 (Spec.fileOf sq) (Spec.rowOf sq)) = c
  generalize decide (t ∈ Spec.walk (getBit occ) (-1) (-1) 7 (Spec.fileOf sq) (Spec.rowOf sq)) = d
  cases a <;> cases b <;> cases c <;> cases d <;> rfl

end Jence
