/-
  T18.1: a search reads the history array only below its index (and writes before it reads above it): two history
  arrays with the same index, size, overflow flag and the same recorded keys give the same search - same result, same
  printed lines, same table - whatever stale keys lie above the index. (`ucinewgame` resets the index and leaves the
  old keys in place; this is why that is as good as a fresh array.)
-/
import Jence.Lemmas.NoOverflow
namespace Jence
open Jence

/-- same recorded history, possibly different stale slots above the index -/
def RepEq (r1 r2 : RepTable) : Prop :=
  r1.index = r2.index ∧ r1.table.size = r2.table.size ∧ r1.overflow = r2.overflow ∧
  ∀ i, i < r1.index → r1.table.getD i 0 = r2.table.getD i 0

theorem RepEq.refl (r : RepTable) : RepEq r r := ⟨rfl, rfl, rfl, fun _ _ => rfl⟩

theorem RepEq.pre {r1 r2 : RepTable} (h : RepEq r1 r2) : r1.pre = r2.pre := by
  unfold RepTable.pre
  rw [← h.1]
  apply List.map_congr_left
  intro i hi
  exact h.2.2.2 i (List.mem_range.1 hi)

theorem RepEq.isRepetition {r1 r2 : RepTable} (h : RepEq r1 r2) (k : UInt64) : r1.isRepetition k = r2.isRepetition k := by
  unfold RepTable.isRepetition; rw [h.pre]

theorem RepEq.insert {r1 r2 : RepTable} (h : RepEq r1 r2) (k : UInt64) : RepEq (r1.insert k) (r2.insert k) := by
  obtain ⟨h1, h2, h3, h4⟩ := h
  unfold RepTable.insert
  by_cases hlt : r1.index < r1.table.size
  · rw [if_pos hlt, if_pos (by rw [← h1, ← h2]; exact hlt)]
    refine ⟨by simp [h1], by simp [h2], h3, ?_⟩
    intro i hi
    simp only at hi ⊢
    by_cases hie : i = r1.index
    · subst hie
      rw [← h1]
      simp [Array.getD_eq_getD_getElem?, hlt, ← h2]
    · have : i < r1.index := by omega
      have hne2 : r2.index ≠ i := by rw [← h1]; exact fun h => hie h.symm
      rw [getD_setIfInBounds_ne _ _ _ _ _ (fun h => hie h.symm), getD_setIfInBounds_ne _ _ _ _ _ hne2]
      exact h4 i this
  · rw [if_neg hlt, if_neg (by rw [← h1, ← h2]; exact hlt)]
    exact ⟨h1, h2, rfl, h4⟩

theorem RepEq.moveBack {r1 r2 : RepTable} (h : RepEq r1 r2) : RepEq r1.moveBack r2.moveBack := by
  obtain ⟨h1, h2, h3, h4⟩ := h
  unfold RepTable.moveBack
  exact ⟨by simp [h1], h2, h3, fun i hi => h4 i (by simp at hi; omega)⟩

/-- the environment with another history array -/
def Env.setRep (e : Env) (r : RepTable) : Env := { e with rep := r }

@[simp] theorem Env.setRep_rep (e : Env) (r : RepTable) : (e.setRep r).rep = r := rfl
theorem Env.setRep_setRep (e : Env) (r r' : RepTable) : (e.setRep r).setRep r' = e.setRep r' := rfl
theorem Env.setRep_self (e : Env) : e.setRep e.rep = e := rfl

/-- `f` does not look above the index: equivalent history arrays in, same answer and equivalent arrays out -/
def Ext {α : Type} (f : Env → α × Env) : Prop :=
  ∀ e r, RepEq e.rep r → (f (e.setRep r)).1 = (f e).1 ∧ ∃ r', (f (e.setRep r)).2 = (f e).2.setRep r' ∧ RepEq (f e).2.rep r'

/-- `f` never touches the history array -/
def Obl (f : Env → Env) : Prop := ∀ e r, f (e.setRep r) = (f e).setRep r

/-! From here on the hook trace is off (`cfg.trace = 0`, as in every run of the unguarded engine): the hook events are
    the only place where a slot at or above the index is ever read (the `rep` event prints slot `index`). -/

theorem ev_off (cfg : Cfg) (h0 : cfg.trace = 0) (e : Env) (w : List UInt64) (l : Unit → String) : e.ev cfg w l = e := by
  unfold Env.ev; rw [h0]; rfl

theorem onNode_off (cfg : Cfg) (h0 : cfg.trace = 0) (e : Env) (k : Nat) (g : Game) (d : Nat) (a b : Int) : e.onNode cfg k g d a b = e := by
  unfold Env.onNode; rw [h0]; rfl

theorem print_obl (l : String) : Obl (fun e => e.print l) := fun _ _ => rfl

/-- `poll` after the hook event: the deadline, then at most one input line -/
def pollTail (cfg : Cfg) (deadline : Bool) (e : Env) : Env :=
  if cfg.maxTime != -1 && (cfg.maxTime == 0 || deadline) then { e with stopping := true } else
  match e.chan with
  | [] => e
  | l :: rest =>
    match Env.classifyLine l.trimAscii.toString with
    | .isready => ({ e with chan := rest } : Env).print "readyok"
    | .stop => { e with chan := rest, stopping := true }
    | .other => { e with chan := rest, deferred := e.deferred ++ [l.trimAscii.toString], stopping := true }

theorem poll_eq (cfg : Cfg) (h0 : cfg.trace = 0) (e : Env) : e.poll cfg = if e.stopping then e else
    pollTail cfg (cfg.world e.polls).deadline
      { e with polls := e.polls + 1, pollLog := e.pollLog.push e.nodes, chan := e.chan ++ (cfg.world e.polls).lines } := by
  unfold Env.poll pollTail
  split
  · rfl
  · simp only [ev_off cfg h0]
    split
    · rfl
    · split
      · rename_i h; rw [h]
      · rename_i l rest h
        rw [h]
        simp only
        generalize Env.classifyLine l.trimAscii.toString = k
        cases k <;> rfl

theorem pollTail_obl (cfg : Cfg) (deadline : Bool) : Obl (pollTail cfg deadline) := by
  intro e r
  unfold pollTail
  split
  · rfl
  · show (match e.chan with | [] => e.setRep r | l :: rest => _) = _
    cases e.chan with
    | nil => rfl
    | cons l rest =>
      simp only
      generalize Env.classifyLine l.trimAscii.toString = k
      cases k <;> rfl

theorem poll_obl (cfg : Cfg) (h0 : cfg.trace = 0) : Obl (fun e => e.poll cfg) := by
  intro e r
  simp only
  rw [poll_eq cfg h0, poll_eq cfg h0]
  show (if e.stopping = true then e.setRep r else _) = _
  by_cases hs : e.stopping = true
  · rw [if_pos hs, if_pos hs]
  · rw [if_neg hs, if_neg hs, ← pollTail_obl]
    rfl

def pollDue (cfg : Cfg) (n : Nat) : Bool :=
  (n &&& Gen.INPUT_POLL_INTERVAL == 0) || (match cfg.subMask with | some m => n &&& m == 0 | none => false)

theorem maybePoll_eq (cfg : Cfg) (e : Env) : e.maybePoll cfg = if pollDue cfg e.nodes then e.poll cfg else e := rfl

theorem maybePoll_obl (cfg : Cfg) (h0 : cfg.trace = 0) : Obl (fun e => e.maybePoll cfg) := by
  intro e r
  have hp := poll_obl cfg h0 e r
  simp only at hp ⊢
  rw [maybePoll_eq, maybePoll_eq]
  show (if pollDue cfg e.nodes = true then _ else _) = _
  split
  · exact hp
  · rfl

theorem insertPv_obl (cfg : Cfg) (h0 : cfg.trace = 0) (m : Move) : Obl (fun e => e.insertPv cfg m) := by
  intro e r
  simp only [Env.insertPv, ev_off cfg h0]
  by_cases hs : e.stopping = true
  · have h1 : (e.setRep r).stopping = true := hs
    rw [if_pos h1, if_pos hs]; rfl
  · have h1 : ¬ (e.setRep r).stopping = true := hs
    rw [if_neg h1, if_neg hs]; rfl

theorem ttRecord_obl (cfg : Cfg) (h0 : cfg.trace = 0) (key : UInt64) (score : Int) (depth : Nat) (flag : Flag) :
    Obl (fun e => e.ttRecord cfg key score depth flag) := by
  intro e r
  simp only [Env.ttRecord, ev_off cfg h0]
  by_cases hs : e.stopping = true
  · have h1 : (e.setRep r).stopping = true := hs
    rw [if_pos h1, if_pos hs]; rfl
  · have h1 : ¬ (e.setRep r).stopping = true := hs
    rw [if_neg h1, if_neg hs]; rfl

theorem scoreMove_obl (g : Game) (m : Move) (e : Env) (r : RepTable) :
    scoreMove g m (e.setRep r) = ((scoreMove g m e).1, (scoreMove g m e).2.setRep r) := by
  unfold scoreMove
  simp only [Env.setRep, Env.pvAt, Env.killer, Env.hist]
  by_cases c1 : (e.scorePv && e.pv.getD (0 * 64 + e.ply) Move.null == m) = true
  · simp only [c1, ↓reduceIte]
  · simp only [c1, ↓reduceIte, Bool.false_eq_true]
    by_cases c2 : m.isCapture = true
    · simp only [c2, ↓reduceIte]
    · simp only [c2, ↓reduceIte, Bool.false_eq_true]
      by_cases c3 : (e.killers.getD (0 * 64 + e.ply) none == some m) = true
      · simp only [c3, ↓reduceIte]
      · simp only [c3, ↓reduceIte, Bool.false_eq_true]
        by_cases c4 : (e.killers.getD (1 * 64 + e.ply) none == some m) = true
        · simp only [c4, ↓reduceIte]
        · simp only [c4, ↓reduceIte, Bool.false_eq_true]

theorem scoreAll_obl (g : Game) : ∀ (ms : List Move) (e : Env) (acc : Array (Int × Move)) (r : RepTable),
    scoreAll g ms (e.setRep r) acc = ((scoreAll g ms e acc).1, (scoreAll g ms e acc).2.setRep r) := by
  intro ms
  induction ms with
  | nil => intro e acc r; rfl
  | cons m ms ih =>
    intro e acc r
    simp only [scoreAll]
    rw [scoreMove_obl]
    exact ih _ _ _

theorem sortMoves_obl (g : Game) (ms : List Move) (e : Env) (r : RepTable) :
    sortMoves g ms (e.setRep r) = ((sortMoves g ms e).1, (sortMoves g ms e).2.setRep r) := by
  unfold sortMoves
  simp only
  rw [scoreAll_obl]

/-! ### Two runs side by side -/

/-- the second environment is the first with an equivalent history array -/
def Rel (e1 e2 : Env) : Prop := ∃ r, e2 = e1.setRep r ∧ RepEq e1.rep r

theorem Rel.refl (e : Env) : Rel e e := ⟨e.rep, rfl, RepEq.refl _⟩

theorem Obl.rep {f : Env → Env} (hf : Obl f) (e : Env) : (f e).rep = e.rep := by
  have := hf e e.rep
  rw [Env.setRep_self] at this
  have h2 := congrArg Env.rep this
  rw [Env.setRep_rep] at h2
  exact h2

theorem Obl.rel {f : Env → Env} (hf : Obl f) {e1 e2 : Env} (h : Rel e1 e2) : Rel (f e1) (f e2) := by
  obtain ⟨r, rfl, hr⟩ := h
  exact ⟨r, hf e1 r, by rw [hf.rep]; exact hr⟩

section fields
variable {e1 e2 : Env} (h : Rel e1 e2)
include h
theorem Rel.ply : e2.ply = e1.ply := by obtain ⟨r, rfl, _⟩ := h; rfl
theorem Rel.stopping : e2.stopping = e1.stopping := by obtain ⟨r, rfl, _⟩ := h; rfl
theorem Rel.followPv : e2.followPv = e1.followPv := by obtain ⟨r, rfl, _⟩ := h; rfl
theorem Rel.nodes : e2.nodes = e1.nodes := by obtain ⟨r, rfl, _⟩ := h; rfl
theorem Rel.tt : e2.tt = e1.tt := by obtain ⟨r, rfl, _⟩ := h; rfl
theorem Rel.pvLen : e2.pvLen = e1.pvLen := by obtain ⟨r, rfl, _⟩ := h; rfl
theorem Rel.pv : e2.pv = e1.pv := by obtain ⟨r, rfl, _⟩ := h; rfl
theorem Rel.killers : e2.killers = e1.killers := by obtain ⟨r, rfl, _⟩ := h; rfl
theorem Rel.history : e2.history = e1.history := by obtain ⟨r, rfl, _⟩ := h; rfl
theorem Rel.out : e2.out = e1.out := by obtain ⟨r, rfl, _⟩ := h; rfl
theorem Rel.ttHits : e2.ttHits = e1.ttHits := by obtain ⟨r, rfl, _⟩ := h; rfl
theorem Rel.repEq : RepEq e1.rep e2.rep := by obtain ⟨r, rfl, hr⟩ := h; exact hr
theorem Rel.isRepetition (k : UInt64) : e2.rep.isRepetition k = e1.rep.isRepetition k := (h.repEq.isRepetition k).symm
end fields

/-- updates that do not involve the history array keep the relation -/
theorem Rel.map {e1 e2 : Env} (h : Rel e1 e2) (f : Env → Env) (hf : Obl f) : Rel (f e1) (f e2) := hf.rel h

theorem Rel.push {e1 e2 : Env} (h : Rel e1 e2) (k : UInt64) :
    Rel { e1 with rep := e1.rep.insert k, ply := e1.ply + 1 } { e2 with rep := e2.rep.insert k, ply := e2.ply + 1 } := by
  obtain ⟨r, rfl, hr⟩ := h
  exact ⟨r.insert k, rfl, hr.insert k⟩

theorem Rel.pop {e1 e2 : Env} (h : Rel e1 e2) :
    Rel { e1 with ply := e1.ply - 1, rep := e1.rep.moveBack } { e2 with ply := e2.ply - 1, rep := e2.rep.moveBack } := by
  obtain ⟨r, rfl, hr⟩ := h
  exact ⟨r.moveBack, rfl, hr.moveBack⟩

theorem Rel.down {e1 e2 : Env} (h : Rel e1 e2) (k : UInt64) :
    Rel { e1 with ply := e1.ply + 1, rep := (e1.rep.insert k).moveBack } { e2 with ply := e2.ply + 1, rep := (e2.rep.insert k).moveBack } := by
  obtain ⟨r, rfl, hr⟩ := h
  exact ⟨(r.insert k).moveBack, rfl, (hr.insert k).moveBack⟩

/-- a function of the environment that treats related environments alike -/
def Ext2 {α : Type} (f : Env → α × Env) : Prop := ∀ e1 e2, Rel e1 e2 → (f e2).1 = (f e1).1 ∧ Rel (f e1).2 (f e2).2

theorem qLoop_ext (R : Rules) (rec : Game → Int → Int → Env → Int × Env) (hrec : ∀ c a b, Ext2 (rec c a b)) (g : Game) (beta : Int) :
    ∀ (ms : List Move) (ta : Int), Ext2 (qLoop R rec g beta ms ta) := by
  intro ms
  induction ms with
  | nil => intro ta e1 e2 h; exact ⟨rfl, h⟩
  | cons m ms ih =>
    intro ta e1 e2 h
    simp only [qLoop]
    cases hmk : R.make g m with
    | none => exact ih ta e1 e2 h
    | some c =>
      simp only
      have hc := hrec c (-beta) (-ta) _ _ (h.push c.key)
      generalize rec c (-beta) (-ta) { e1 with rep := e1.rep.insert c.key, ply := e1.ply + 1 } = r1 at hc
      generalize rec c (-beta) (-ta) { e2 with rep := e2.rep.insert c.key, ply := e2.ply + 1 } = r2 at hc
      obtain ⟨s1, x1⟩ := r1
      obtain ⟨s2, x2⟩ := r2
      simp only at hc ⊢
      obtain ⟨hs, hx⟩ := hc
      subst hs
      have h3 := hx.pop
      by_cases hb : -s2 ≥ beta
      · rw [if_pos hb, if_pos hb]; exact ⟨rfl, h3⟩
      · rw [if_neg hb, if_neg hb]; exact ih _ _ _ h3

theorem qEnter_rel (cfg : Cfg) (h0 : cfg.trace = 0) (g : Game) (alpha beta : Int) {e1 e2 : Env} (h : Rel e1 e2) :
    Rel (qEnter cfg g alpha beta e1) (qEnter cfg g alpha beta e2) := by
  unfold qEnter
  simp only [onNode_off cfg h0]
  have h2 := (maybePoll_obl cfg h0).rel h
  exact Rel.map h2 (fun e => { e with nodes := e.nodes + 1 }) (fun _ _ => rfl)

theorem sortMoves_rel (g : Game) (ms : List Move) {e1 e2 : Env} (h : Rel e1 e2) :
    (sortMoves g ms e2).1 = (sortMoves g ms e1).1 ∧ Rel (sortMoves g ms e1).2 (sortMoves g ms e2).2 := by
  obtain ⟨r, rfl, hr⟩ := h
  rw [sortMoves_obl]
  refine ⟨rfl, r, rfl, ?_⟩
  rw [(sortMoves_rep g ms e1).1]; exact hr

theorem quiescence_ext (R : Rules) (cfg : Cfg) (h0 : cfg.trace = 0) : ∀ fuel g alpha beta, Ext2 (quiescence R cfg fuel g alpha beta) := by
  intro fuel
  induction fuel with
  | zero => intro g alpha beta e1 e2 h; exact ⟨rfl, h⟩
  | succ fuel ih =>
    intro g alpha beta e1 e2 h
    simp only [quiescence]
    have h3 := qEnter_rel cfg h0 g alpha beta h
    generalize qEnter cfg g alpha beta e1 = a1 at h3
    generalize qEnter cfg g alpha beta e2 = a2 at h3
    rw [h3.ply]
    by_cases hcut : (decide (a1.ply > Gen.MAX_PLY - 1) || g.halfMoves == 100) = true
    · rw [if_pos hcut, if_pos hcut]; exact ⟨rfl, h3⟩
    · rw [if_neg hcut, if_neg hcut]
      by_cases hsp : (decide (R.evaluate g ≥ beta) && decide (R.evaluate g > alpha)) = true
      · rw [if_pos hsp, if_pos hsp]; exact ⟨rfl, h3⟩
      · rw [if_neg hsp, if_neg hsp]
        obtain ⟨s1, s2⟩ := sortMoves_rel g (R.generate g false) h3
        rw [s1]
        exact qLoop_ext R _ (fun c a b => ih c a b) g beta _ _ _ _ s2

def RecExt (rec : Game → Nat → Int → Int → Env → Int × Env) : Prop := ∀ c d a b, Ext2 (rec c d a b)

theorem searchChild_ext (rec : Game → Nat → Int → Int → Env → Int × Env) (hrec : RecExt rec) (c : Game) (m : Move)
    (searched depth nDepth : Nat) (inCheck : Bool) (ta beta : Int) : Ext2 (searchChild rec c m searched depth nDepth inCheck ta beta) := by
  intro e1 e2 h
  unfold searchChild
  split
  · -- first move: full window
    have hc := hrec c (nDepth - 1) (-beta) (-ta) e1 e2 h
    generalize rec c (nDepth - 1) (-beta) (-ta) e1 = r1 at hc
    generalize rec c (nDepth - 1) (-beta) (-ta) e2 = r2 at hc
    obtain ⟨s1, x1⟩ := r1; obtain ⟨s2, x2⟩ := r2
    simp only at hc ⊢
    exact ⟨by rw [hc.1], hc.2⟩
  · simp only
    split
    · -- reduced search first
      have hc := hrec c (nDepth - 2) (-ta - 1) (-ta) e1 e2 h
      generalize rec c (nDepth - 2) (-ta - 1) (-ta) e1 = r1 at hc
      generalize rec c (nDepth - 2) (-ta - 1) (-ta) e2 = r2 at hc
      obtain ⟨s1, x1⟩ := r1; obtain ⟨s2, x2⟩ := r2
      simp only at hc ⊢
      obtain ⟨hs, hx⟩ := hc; subst hs
      split
      · have hc := hrec c (nDepth - 1) (-ta - 1) (-ta) x1 x2 hx
        generalize rec c (nDepth - 1) (-ta - 1) (-ta) x1 = r1 at hc
        generalize rec c (nDepth - 1) (-ta - 1) (-ta) x2 = r2 at hc
        obtain ⟨t1, y1⟩ := r1; obtain ⟨t2, y2⟩ := r2
        simp only at hc ⊢
        obtain ⟨hs, hy⟩ := hc; subst hs
        split
        · have hc := hrec c (nDepth - 1) (-beta) (-ta) y1 y2 hy
          generalize rec c (nDepth - 1) (-beta) (-ta) y1 = r1 at hc
          generalize rec c (nDepth - 1) (-beta) (-ta) y2 = r2 at hc
          obtain ⟨u1, z1⟩ := r1; obtain ⟨u2, z2⟩ := r2
          simp only at hc ⊢
          exact ⟨by rw [hc.1], hc.2⟩
        · exact ⟨rfl, hy⟩
      · exact ⟨rfl, hx⟩
    · simp only
      split
      · have hc := hrec c (nDepth - 1) (-ta - 1) (-ta) e1 e2 h
        generalize rec c (nDepth - 1) (-ta - 1) (-ta) e1 = r1 at hc
        generalize rec c (nDepth - 1) (-ta - 1) (-ta) e2 = r2 at hc
        obtain ⟨t1, y1⟩ := r1; obtain ⟨t2, y2⟩ := r2
        simp only at hc ⊢
        obtain ⟨hs, hy⟩ := hc; subst hs
        split
        · have hc := hrec c (nDepth - 1) (-beta) (-ta) y1 y2 hy
          generalize rec c (nDepth - 1) (-beta) (-ta) y1 = r1 at hc
          generalize rec c (nDepth - 1) (-beta) (-ta) y2 = r2 at hc
          obtain ⟨u1, z1⟩ := r1; obtain ⟨u2, z2⟩ := r2
          simp only at hc ⊢
          exact ⟨by rw [hc.1], hc.2⟩
        · exact ⟨rfl, hy⟩
      · exact ⟨rfl, h⟩

theorem moveLoop_ext (R : Rules) (cfg : Cfg) (h0 : cfg.trace = 0) (rec : Game → Nat → Int → Int → Env → Int × Env) (hrec : RecExt rec)
    (g : Game) (depth nDepth : Nat) (inCheck : Bool) (beta : Int) :
    ∀ (ms : List Move) (ta : Int) (flag : Flag) (legal searched : Nat),
      Ext2 (moveLoop R cfg rec g depth nDepth inCheck beta ms ta flag legal searched) := by
  intro ms
  induction ms with
  | nil => intro ta flag legal searched e1 e2 h; exact ⟨rfl, h⟩
  | cons m ms ih =>
    intro ta flag legal searched e1 e2 h
    simp only [moveLoop]
    cases hmk : R.make g m with
    | none => exact ih ta flag legal searched e1 e2 h
    | some c =>
      simp only
      have hc := searchChild_ext rec hrec c m searched depth nDepth inCheck ta beta _ _ (h.down c.key)
      generalize searchChild rec c m searched depth nDepth inCheck ta beta
        { e1 with ply := e1.ply + 1, rep := (e1.rep.insert c.key).moveBack } = r1 at hc
      generalize searchChild rec c m searched depth nDepth inCheck ta beta
        { e2 with ply := e2.ply + 1, rep := (e2.rep.insert c.key).moveBack } = r2 at hc
      obtain ⟨s1, x1⟩ := r1; obtain ⟨s2, x2⟩ := r2
      simp only at hc ⊢
      obtain ⟨hs, hx⟩ := hc; subst hs
      have h3 : Rel { x1 with ply := x1.ply - 1 } { x2 with ply := x2.ply - 1 } :=
        Rel.map hx (fun e => { e with ply := e.ply - 1 }) (fun _ _ => rfl)
      have hst : x2.stopping = x1.stopping := hx.stopping
      generalize ({ x1 with ply := x1.ply - 1 } : Env) = y1 at h3 ⊢
      generalize ({ x2 with ply := x2.ply - 1 } : Env) = y2 at h3 ⊢
      rw [hst]
      by_cases hstop : x1.stopping = true
      · rw [if_pos hstop, if_pos hstop]; exact ⟨rfl, h3⟩
      · rw [if_neg hstop, if_neg hstop]
        by_cases hsc : s2 > ta
        · rw [if_pos hsc, if_pos hsc]
          have h4 := (insertPv_obl cfg h0 m).rel h3
          generalize y1.insertPv cfg m = z1 at h4 ⊢
          generalize y2.insertPv cfg m = z2 at h4 ⊢
          obtain ⟨r, rfl, hr⟩ := h4
          by_cases hb : s2 ≥ beta
          · rw [if_pos hb, if_pos hb]
            simp only
            refine ⟨trivial, ?_⟩
            apply (ttRecord_obl cfg h0 g.key beta depth Flag.beta).rel
            split
            · exact ⟨r, rfl, hr⟩
            · exact ⟨r, rfl, hr⟩
          · rw [if_neg hb, if_neg hb]
            split
            · exact ih _ _ _ _ _ _ ⟨r, rfl, hr⟩
            · exact ih _ _ _ _ _ _ ⟨r, rfl, hr⟩
        · rw [if_neg hsc, if_neg hsc]
          exact ih _ _ _ _ _ _ h3

theorem nullMoveStep_ext (R : Rules) (rec : Game → Nat → Int → Int → Env → Int × Env) (hrec : RecExt rec) (g : Game)
    (nDepth : Nat) (inCheck : Bool) (beta : Int) : Ext2 (nullMoveStep R rec g nDepth inCheck beta) := by
  intro e1 e2 h
  unfold nullMoveStep
  rw [h.ply]
  by_cases hc : (decide (nDepth ≥ 3) && !inCheck && decide (e1.ply > 0)) = true
  · rw [if_pos hc, if_pos hc]
    simp only
    have hd : Rel { e1 with ply := e1.ply + 1 } { e2 with ply := e2.ply + 1 } := Rel.map h (fun e => { e with ply := e.ply + 1 }) (fun _ _ => rfl)
    have hr := hrec (R.nullMove g) (nDepth - 1 - 2) (-beta) (-beta + 1) _ _ hd
    rw [h.ply] at hr
    generalize rec (R.nullMove g) (nDepth - 1 - 2) (-beta) (-beta + 1) { e1 with ply := e1.ply + 1 } = r1 at hr
    generalize rec (R.nullMove g) (nDepth - 1 - 2) (-beta) (-beta + 1) { e2 with ply := e1.ply + 1 } = r2 at hr
    obtain ⟨s1, x1⟩ := r1; obtain ⟨s2, x2⟩ := r2
    simp only at hr ⊢
    obtain ⟨hs, hx⟩ := hr; subst hs
    have h3 : Rel { x1 with ply := x1.ply - 1 } { x2 with ply := x2.ply - 1 } := Rel.map hx (fun e => { e with ply := e.ply - 1 }) (fun _ _ => rfl)
    have hst : x2.stopping = x1.stopping := hx.stopping
    generalize ({ x1 with ply := x1.ply - 1 } : Env) = y1 at h3 ⊢
    generalize ({ x2 with ply := x2.ply - 1 } : Env) = y2 at h3 ⊢
    rw [hst]
    split
    · exact ⟨rfl, h3⟩
    · split
      · exact ⟨rfl, h3⟩
      · exact ⟨rfl, h3⟩
  · rw [if_neg hc, if_neg hc]; exact ⟨rfl, h⟩

theorem finish_ext (cfg : Cfg) (h0 : cfg.trace = 0) (g : Game) (depth : Nat) (inCheck : Bool) (out : LoopOut) {e1 e2 : Env} (h : Rel e1 e2) :
    (finish cfg g depth inCheck (out, e2)).1 = (finish cfg g depth inCheck (out, e1)).1 ∧
    Rel (finish cfg g depth inCheck (out, e1)).2 (finish cfg g depth inCheck (out, e2)).2 := by
  cases out with
  | ret v => exact ⟨rfl, h⟩
  | done ta flag legal =>
    simp only [finish]
    split
    · simp only [ev_off cfg h0]
      rw [h.ply]; exact ⟨rfl, h⟩
    · exact ⟨rfl, (ttRecord_obl cfg h0 g.key ta depth flag).rel h⟩

theorem searchMoves_ext (R : Rules) (cfg : Cfg) (h0 : cfg.trace = 0) (rec : Game → Nat → Int → Int → Env → Int × Env) (hrec : RecExt rec)
    (g : Game) (depth nDepth : Nat) (inCheck : Bool) (alpha beta : Int) : Ext2 (searchMoves R cfg rec g depth nDepth inCheck alpha beta) := by
  intro e1 e2 h
  unfold searchMoves
  simp only
  have h6 : Rel (if e1.followPv then enablePvScoring (R.generate g true) e1 else e1) (if e2.followPv then enablePvScoring (R.generate g true) e2 else e2) := by
    rw [h.followPv]
    split
    · exact Rel.map h (enablePvScoring (R.generate g true)) (fun _ _ => rfl)
    · exact h
  generalize (if e1.followPv then enablePvScoring (R.generate g true) e1 else e1 : Env) = a1 at h6
  generalize (if e2.followPv then enablePvScoring (R.generate g true) e2 else e2 : Env) = a2 at h6
  obtain ⟨s1, s2⟩ := sortMoves_rel g (R.generate g true) h6
  rw [s1]
  have hl := moveLoop_ext R cfg h0 rec hrec g depth nDepth inCheck beta (sortMoves g (R.generate g true) a1).1 alpha Flag.alpha 0 0 _ _ s2
  generalize moveLoop R cfg rec g depth nDepth inCheck beta (sortMoves g (R.generate g true) a1).1 alpha Flag.alpha 0 0 (sortMoves g (R.generate g true) a1).2 = l1 at hl
  generalize moveLoop R cfg rec g depth nDepth inCheck beta (sortMoves g (R.generate g true) a1).1 alpha Flag.alpha 0 0 (sortMoves g (R.generate g true) a2).2 = l2 at hl
  obtain ⟨o1, x1⟩ := l1; obtain ⟨o2, x2⟩ := l2
  simp only at hl
  obtain ⟨ho, hx⟩ := hl; subst ho
  exact finish_ext cfg h0 g depth inCheck o2 hx

theorem expand_ext (R : Rules) (cfg : Cfg) (h0 : cfg.trace = 0) (rec : Game → Nat → Int → Int → Env → Int × Env) (hrec : RecExt rec)
    (g : Game) (depth : Nat) (alpha beta : Int) : Ext2 (expand R cfg rec g depth alpha beta) := by
  intro e1 e2 h
  unfold expand
  simp only
  have h4 : Rel { e1 with nodes := e1.nodes + 1 } { e2 with nodes := e2.nodes + 1 } := Rel.map h (fun e => { e with nodes := e.nodes + 1 }) (fun _ _ => rfl)
  have hn := nullMoveStep_ext R rec hrec g (if R.inCheck g then depth + 1 else depth) (R.inCheck g) beta _ _ h4
  generalize nullMoveStep R rec g (if R.inCheck g then depth + 1 else depth) (R.inCheck g) beta { e1 with nodes := e1.nodes + 1 } = n1 at hn
  generalize nullMoveStep R rec g (if R.inCheck g then depth + 1 else depth) (R.inCheck g) beta { e2 with nodes := e2.nodes + 1 } = n2 at hn
  obtain ⟨v1, x1⟩ := n1; obtain ⟨v2, x2⟩ := n2
  simp only at hn
  obtain ⟨hv, hx⟩ := hn; subst hv
  cases v2 with
  | some v => exact ⟨rfl, hx⟩
  | none => exact searchMoves_ext R cfg h0 rec hrec g depth _ _ alpha beta _ _ hx

theorem afterProbe_ext (R : Rules) (cfg : Cfg) (h0 : cfg.trace = 0) (rec : Game → Nat → Int → Int → Env → Int × Env) (hrec : RecExt rec)
    (g : Game) (depth : Nat) (alpha beta : Int) : Ext2 (afterProbe R cfg rec g depth alpha beta) := by
  intro e1 e2 h
  unfold afterProbe
  simp only
  have hp := h.ply
  have h2 : Rel { e1 with pvLen := e1.pvLen.setIfInBounds e1.ply e1.ply } { e2 with pvLen := e2.pvLen.setIfInBounds e2.ply e2.ply } := by
    obtain ⟨r, rfl, hr⟩ := h; exact ⟨r, rfl, hr⟩
  by_cases hcap : e1.ply ≥ Gen.MAX_PLY - 1
  · rw [if_pos hcap, if_pos (by rw [hp]; exact hcap)]; exact ⟨rfl, h2⟩
  · rw [if_neg hcap, if_neg (by rw [hp]; exact hcap)]
    have h3 := (maybePoll_obl cfg h0).rel h2
    split
    · exact quiescence_ext R cfg h0 qFuel g alpha beta _ _ h3
    · exact expand_ext R cfg h0 rec hrec g depth alpha beta _ _ h3

/-- **a search does not look above the index of the history array** -/
theorem negamax_ext (R : Rules) (cfg : Cfg) (h0 : cfg.trace = 0) : ∀ fuel, RecExt (negamax R cfg fuel) := by
  intro fuel
  induction fuel with
  | zero => intro g depth alpha beta e1 e2 h; exact ⟨rfl, h⟩
  | succ fuel ih =>
    intro g depth alpha beta e1 e2 h
    simp only [negamax, onNode_off cfg h0]
    rw [h.ply, h.isRepetition]
    split
    · unfold repReturn
      simp only [ev_off cfg h0]
      refine ⟨trivial, ?_⟩
      obtain ⟨r, rfl, hr⟩ := h; exact ⟨r, rfl, hr⟩
    · have hp : probeNode cfg g depth alpha beta e2 = probeNode cfg g depth alpha beta e1 := by
        unfold probeNode Env.ttProbe; rw [h.ply, h.tt]
      rw [hp]
      split
      · unfold ttReturn
        simp only [ev_off cfg h0]
        refine ⟨trivial, ?_⟩
        obtain ⟨r, rfl, hr⟩ := h; exact ⟨r, rfl, hr⟩
      · exact afterProbe_ext R cfg h0 _ ih g depth alpha beta e1 e2 h

theorem idLoop_ext (R : Rules) (cfg : Cfg) (h0 : cfg.trace = 0) (g : Game) :
    ∀ (count cur : Nat) (alpha beta score : Int) (e1 e2 : Env), Rel e1 e2 →
      (idLoop R cfg g count cur alpha beta score e2).1 = (idLoop R cfg g count cur alpha beta score e1).1 ∧
      (idLoop R cfg g count cur alpha beta score e2).2.1 = (idLoop R cfg g count cur alpha beta score e1).2.1 ∧
      Rel (idLoop R cfg g count cur alpha beta score e1).2.2 (idLoop R cfg g count cur alpha beta score e2).2.2 := by
  intro count
  induction count with
  | zero => intro cur alpha beta score e1 e2 h; exact ⟨rfl, rfl, h⟩
  | succ count ih =>
    intro cur alpha beta score e1 e2 h
    simp only [idLoop]
    have h1 : Rel { e1 with followPv := true } { e2 with followPv := true } := Rel.map h (fun e => { e with followPv := true }) (fun _ _ => rfl)
    have hn := negamax_ext R cfg h0 negaFuel g cur alpha beta _ _ h1
    generalize negamax R cfg negaFuel g cur alpha beta { e1 with followPv := true } = r1 at hn
    generalize negamax R cfg negaFuel g cur alpha beta { e2 with followPv := true } = r2 at hn
    obtain ⟨s1, x1⟩ := r1; obtain ⟨s2, x2⟩ := r2
    simp only at hn ⊢
    obtain ⟨hs, hx⟩ := hn; subst hs
    rw [hx.stopping]
    split
    · exact ⟨rfl, rfl, hx⟩
    · split
      · exact ih _ _ _ _ _ _ hx
      · have hinfo : infoLine s2 cur x2 = infoLine s2 cur x1 := by
          unfold infoLine pvLine Env.pvAt; rw [hx.nodes, hx.pvLen, hx.pv]
        rw [hinfo]
        exact ih _ _ _ _ _ _ ((print_obl _).rel hx)

/-- **T18.1** `search` is a function of the *recorded* history: two history arrays with the same index, size, overflow
    flag and the same keys below the index give the same result, related final environments (equal in every field but
    the history array, which again agrees below the index) - hence the same printed lines and the same table. -/
theorem search_ext (R : Rules) (cfg : Cfg) (h0 : cfg.trace = 0) (g : Game) (depth : Int) (tt : TT) (rep1 rep2 : RepTable)
    (h : RepEq rep1 rep2) :
    (search R cfg g depth tt rep2).1 = (search R cfg g depth tt rep1).1 ∧
    Rel (search R cfg g depth tt rep1).2 (search R cfg g depth tt rep2).2 := by
  have hstart : Rel ({ tt := tt, rep := rep1 } : Env) ({ tt := tt, rep := rep2 } : Env) := ⟨rep2, rfl, h⟩
  have hl := idLoop_ext R cfg h0 g (if depth == -1 then Gen.MAX_PLY else (depth % 256).toNat) 1 (-Gen.INFINITY) Gen.INFINITY 0 _ _ hstart
  simp only [search, ev_off cfg h0]
  generalize idLoop R cfg g (if depth == -1 then Gen.MAX_PLY else (depth % 256).toNat) 1 (-Gen.INFINITY) Gen.INFINITY 0 ({ tt := tt, rep := rep1 } : Env) = l1 at hl
  generalize idLoop R cfg g (if depth == -1 then Gen.MAX_PLY else (depth % 256).toNat) 1 (-Gen.INFINITY) Gen.INFINITY 0 ({ tt := tt, rep := rep2 } : Env) = l2 at hl
  obtain ⟨sc1, cur1, x1⟩ := l1; obtain ⟨sc2, cur2, x2⟩ := l2
  simp only at hl ⊢
  obtain ⟨hs, hc, hx⟩ := hl
  subst hs; subst hc
  have hpv : x2.pvAt 0 0 = x1.pvAt 0 0 := by unfold Env.pvAt; rw [hx.pv]
  rw [hpv]
  have hfin := (print_obl (s!"bestmove {(if x1.pvAt 0 0 == Move.null then (R.firstLegal g).getD (x1.pvAt 0 0) else x1.pvAt 0 0).toUci}")).rel hx
  refine ⟨?_, hfin⟩
  rw [hfin.nodes, hfin.stopping, hfin.ttHits]

end Jence

namespace Jence
open Jence

/-- results of `parse_position` that agree up to stale slots of the history array -/
def ResEq : Res (Game × RepTable) → Res (Game × RepTable) → Prop
  | .ok (g1, r1), .ok (g2, r2) => g1 = g2 ∧ RepEq r1 r2
  | .none, .none => True
  | .panic, .panic => True
  | _, _ => False

theorem replayMoves_ext : ∀ (mvs : List String) (g : Game) (r1 r2 : RepTable), RepEq r1 r2 →
    ResEq (replayMoves mvs g r1) (replayMoves mvs g r2) := by
  intro mvs
  induction mvs with
  | nil => intro g r1 r2 h; exact ⟨rfl, h⟩
  | cons mv rest ih =>
    intro g r1 r2 h
    simp only [replayMoves]
    cases parseMove g mv with
    | none => trivial
    | some m =>
      simp only [makeSearchMove]
      cases makeCore g m with
      | none => exact ih _ _ _ h
      | some g2 =>
        simp only [Option.map_some]
        have hi := h.insert g2.key
        rw [← hi.2.2.1]
        split
        · trivial
        · exact ih _ _ _ hi

theorem parsePosition_ext (args : String) (r1 r2 : RepTable) (h : RepEq r1 r2) :
    ResEq (parsePosition args r1) (parsePosition args r2) := by
  unfold parsePosition
  simp only
  split
  · trivial
  · trivial
  · rename_i g rest _
    have hi := h.insert g.key
    rw [← hi.2.2.1]
    split
    · trivial
    · split
      · exact replayMoves_ext _ _ _ _ hi
      · exact ⟨rfl, hi⟩

/-- `ucinewgame` / `position` reset the index and leave the old keys in the array: as good as a new array -/
theorem clear_like_new (r : RepTable) (ho : r.overflow = false) (hsz : r.table.size = Gen.REP_CAPACITY) : RepEq r.clear RepTable.new := by
  refine ⟨rfl, ?_, ho, fun i hi => absurd hi (Nat.not_lt_zero _)⟩
  show r.table.size = (Array.replicate Gen.REP_CAPACITY (0 : UInt64)).size
  rw [Array.size_replicate]; exact hsz

end Jence
