/-
  Histories: any sequence of generated moves that can be made, from a consistent position, in which no position offers
  the capture of a king, ends in a consistent position whose board is the rules' board and whose key is the from-scratch key.
-/
import Jence.Lemmas.WfDec
namespace Jence
open Jence

/-- make the moves one after the other; `none` as soon as one leaves the mover in check -/
def playAll : Game → List Move → Option Game
  | g, [] => some g
  | g, m :: ms => match makeCore g m with
    | some g' => playAll g' ms
    | none => none

/-- the rules' board after the moves -/
def boardAfter : Board → Bool → List Move → Board
  | b, _, [] => b
  | b, w, m :: ms => boardAfter (applyB b w m) (!w) ms

/-- every move is a generated move of the position it is made in, and no position on the way offers a king capture -/
def GoodPath : Game → List Move → Prop
  | _, [] => True
  | g, m :: ms => m ∈ generateMoves g true ∧ NoKingCapture g ∧ ∀ g', makeCore g m = some g' → GoodPath g' ms

theorem history_wf (ms : List Move) : ∀ (g0 g : Game) (b0 : Board), Wf g0 b0 → GoodPath g0 ms → playAll g0 ms = some g →
    Wf g (boardAfter b0 g0.white ms) ∧ (g0.key = scratchKey g0 → g.key = scratchKey g) := by
  induction ms with
  | nil =>
    intro g0 g b0 wf _ hp
    simp only [playAll, Option.some.injEq] at hp
    subst hp
    exact ⟨wf, fun h => h⟩
  | cons m ms ih =>
    intro g0 g b0 wf hg hp
    obtain ⟨hm, nk, hrest⟩ := hg
    simp only [playAll] at hp
    cases hmk : makeCore g0 m with
    | none => rw [hmk] at hp; exact absurd hp (by simp)
    | some g1 =>
      rw [hmk] at hp
      simp only at hp
      have fits := gen_fits wf nk true m hm
      have wf1 := makeCore_wf g0 g1 m b0 wf fits hmk
      have hw1 := (makeCore_fields g0 g1 m hmk).1
      obtain ⟨r1, r2⟩ := ih g1 g (applyB b0 g0.white m) wf1 (hrest g1 hmk) hp
      rw [hw1] at r1
      exact ⟨r1, fun h0 => r2 (makeCore_wf_key g0 g1 m b0 wf fits h0 hmk)⟩

end Jence
