/-
  The generated move list has no repeats (so counting its accepted elements counts legal moves).
-/
import Jence.Lemmas.LegalMoves
namespace Jence
open Jence

theorem nodup_map_inj {α β : Type} (l : List α) (f : α → β) (hl : l.Nodup) (hinj : ∀ a ∈ l, ∀ b ∈ l, f a = f b → a = b) :
    (l.map f).Nodup := by
  unfold List.Nodup
  rw [List.pairwise_map]
  exact List.Pairwise.imp_of_mem (fun {a b} ha hb hne heq => hne (hinj a ha b hb heq)) hl

/-- a flatMap over a repeat-free list of repeat-free lists that carry their index is repeat-free -/
theorem nodup_flatMap_key {α β : Type} (l : List α) (f : α → List β) (key : β → α) (hl : l.Nodup)
    (hf : ∀ a ∈ l, (f a).Nodup) (hk : ∀ a ∈ l, ∀ x ∈ f a, key x = a) : (l.flatMap f).Nodup := by
  unfold List.Nodup
  rw [List.pairwise_flatMap]
  refine ⟨hf, ?_⟩
  exact List.Pairwise.imp_of_mem (fun {a b} ha hb hne x hx y hy hxy => hne (by rw [← hk a ha x hx, ← hk b hb y hy, hxy])) hl

section parts
variable {g : Game}

/-- the moves of one non-pawn piece on `f`: repeat-free, and they carry `f` and the piece -/
theorem pieceInner_nodup (X f : Nat) (att : Nat → UInt64) (hX : X < 16) (hf : f < 64) :
    (pieceInner g true X att f).Nodup ∧ ∀ m ∈ pieceInner g true X att f, m.fromSq = f ∧ m.piece = X ∧ m.isCastling = false := by
  have fld : ∀ t c, t < 64 → (Move.mk' f t X PNONE c false false false).fromSq = f ∧ (Move.mk' f t X PNONE c false false false).toSq = t ∧
      (Move.mk' f t X PNONE c false false false).piece = X ∧ (Move.mk' f t X PNONE c false false false).isCapture = c ∧
      (Move.mk' f t X PNONE c false false false).isCastling = false := by
    intro t c ht
    obtain ⟨e1, e2, e3, _, e5, _, _, e8⟩ := mk_fields f t X PNONE c false false false hf ht hX (by decide)
    exact ⟨e1, e2, e3, e5, e8⟩
  unfold pieceInner
  simp only [if_true]
  refine ⟨?_, ?_⟩
  · rw [List.nodup_append]
    refine ⟨?_, ?_, ?_⟩
    · apply nodup_map_inj _ _ (bitsOf_nodup _)
      intro a ha b' hb' h
      have h1 := (fld a false ((mem_bitsOf _ _).1 ha).1).2.1
      have h2 := (fld b' false ((mem_bitsOf _ _).1 hb').1).2.1
      rw [← h1, ← h2, h]
    · apply nodup_map_inj _ _ (bitsOf_nodup _)
      intro a ha b' hb' h
      have h1 := (fld a true ((mem_bitsOf _ _).1 ha).1).2.1
      have h2 := (fld b' true ((mem_bitsOf _ _).1 hb').1).2.1
      rw [← h1, ← h2, h]
    · intro x hx y hy hxy
      rw [List.mem_map] at hx hy
      obtain ⟨t, ht, rfl⟩ := hx
      obtain ⟨t', ht', rfl⟩ := hy
      have h1 := (fld t false ((mem_bitsOf _ _).1 ht).1).2.2.2.1
      have h2 := (fld t' true ((mem_bitsOf _ _).1 ht').1).2.2.2.1
      rw [hxy, h2] at h1; exact absurd h1 (by simp)
  · intro m hm
    rw [List.mem_append, List.mem_map, List.mem_map] at hm
    rcases hm with ⟨t, ht, rfl⟩ | ⟨t, ht, rfl⟩
    · have := fld t false ((mem_bitsOf _ _).1 ht).1; exact ⟨this.1, this.2.2.1, this.2.2.2.2⟩
    · have := fld t true ((mem_bitsOf _ _).1 ht).1; exact ⟨this.1, this.2.2.1, this.2.2.2.2⟩

theorem pieceMoves_nodup (X : Nat) (att : Nat → UInt64) (hX : X < 16) :
    (pieceMoves g true X att).Nodup ∧ ∀ m ∈ pieceMoves g true X att, m.piece = X ∧ m.isCastling = false := by
  rw [pieceMoves_eq]
  refine ⟨?_, ?_⟩
  · apply nodup_flatMap_key _ _ Move.fromSq (bitsOf_nodup _)
    · intro f hf; exact (pieceInner_nodup X f att hX ((mem_bitsOf _ _).1 hf).1).1
    · intro f hf m hm; exact ((pieceInner_nodup X f att hX ((mem_bitsOf _ _).1 hf).1).2 m hm).1
  · intro m hm
    rw [List.mem_flatMap] at hm
    obtain ⟨f, hf, hm⟩ := hm
    exact ((pieceInner_nodup X f att hX ((mem_bitsOf _ _).1 hf).1).2 m hm).2

theorem promos_nodup (w : Bool) : (promos w).Nodup ∧ ∀ p ∈ promos w, p < 16 ∧ p ≠ PNONE := by
  unfold promos; cases w <;> simp only [Bool.false_eq_true, if_false, if_true] <;> decide

/-- the fan of promotion moves (or the single move) to one target square -/
theorem fan_nodup (f t P : Nat) (c : Bool) (w : Bool) (cond : Prop) [Decidable cond] (hf : f < 64) (ht : t < 64) (hP : P < 16) :
    (if cond then [Move.mk' f t P PNONE c false false false] else (promos w).map fun p => Move.mk' f t P p c false false false).Nodup ∧
    ∀ m ∈ (if cond then [Move.mk' f t P PNONE c false false false] else (promos w).map fun p => Move.mk' f t P p c false false false),
      m.fromSq = f ∧ m.toSq = t ∧ m.piece = P ∧ m.isCapture = c ∧ m.isEnpassant = false ∧ m.isDoublePush = false := by
  have fld : ∀ pr, pr < 16 → (Move.mk' f t P pr c false false false).fromSq = f ∧ (Move.mk' f t P pr c false false false).toSq = t ∧
      (Move.mk' f t P pr c false false false).piece = P ∧ (Move.mk' f t P pr c false false false).promotion = pr ∧
      (Move.mk' f t P pr c false false false).isCapture = c ∧ (Move.mk' f t P pr c false false false).isEnpassant = false ∧
      (Move.mk' f t P pr c false false false).isDoublePush = false := by
    intro pr hpr
    obtain ⟨e1, e2, e3, e4, e5, e6, e7, _⟩ := mk_fields f t P pr c false false false hf ht hP hpr
    exact ⟨e1, e2, e3, e4, e5, e7, e6⟩
  obtain ⟨hn, hb⟩ := promos_nodup w
  split
  · refine ⟨by simp, fun m hm => ?_⟩
    rw [List.mem_singleton] at hm; subst hm
    have := fld PNONE (by decide); exact ⟨this.1, this.2.1, this.2.2.1, this.2.2.2.2.1, this.2.2.2.2.2.1, this.2.2.2.2.2.2⟩
  · refine ⟨?_, fun m hm => ?_⟩
    · apply nodup_map_inj _ _ hn
      intro a ha b' hb' h
      have h1 := (fld a (hb a ha).1).2.2.2.1
      have h2 := (fld b' (hb b' hb').1).2.2.2.1
      rw [← h1, ← h2, h]
    · rw [List.mem_map] at hm
      obtain ⟨pr, hpr, rfl⟩ := hm
      have := fld pr (hb pr hpr).1; exact ⟨this.1, this.2.1, this.2.2.1, this.2.2.2.2.1, this.2.2.2.2.2.1, this.2.2.2.2.2.2⟩

theorem pawnCaps_nodup (f : Nat) (hf : f < 64) :
    (pawnCaps g f).Nodup ∧ ∀ m ∈ pawnCaps g f, m.fromSq = f ∧ m.piece = (if g.white then WP else BP) ∧ m.isCapture = true ∧ m.isEnpassant = false := by
  have hP : (if g.white then WP else BP) < 16 := by cases g.white <;> decide
  unfold pawnCaps
  simp only
  refine ⟨?_, ?_⟩
  · apply nodup_flatMap_key _ _ Move.toSq (bitsOf_nodup _)
    · intro t ht
      exact (fan_nodup f t _ true g.white (if g.white = true then t ≥ 8 else t ≤ 55) hf ((mem_bitsOf _ _).1 ht).1 hP).1
    · intro t ht m hm
      exact ((fan_nodup f t _ true g.white (if g.white = true then t ≥ 8 else t ≤ 55) hf ((mem_bitsOf _ _).1 ht).1 hP).2 m hm).2.1
  · intro m hm
    rw [List.mem_flatMap] at hm
    obtain ⟨t, ht, hm⟩ := hm
    have := (fan_nodup f t _ true g.white (if g.white = true then t ≥ 8 else t ≤ 55) hf ((mem_bitsOf _ _).1 ht).1 hP).2 m hm
    exact ⟨this.1, this.2.2.1, this.2.2.2.1, this.2.2.2.2.1⟩

theorem pawnEp_nodup (f : Nat) (hf : f < 64) (hep : g.ep ≤ 64) :
    (pawnEp g f).Nodup ∧ ∀ m ∈ pawnEp g f, m.fromSq = f ∧ m.piece = (if g.white then WP else BP) ∧ m.isCapture = true ∧ m.isEnpassant = true := by
  have hP : (if g.white then WP else BP) < 16 := by cases g.white <;> decide
  unfold pawnEp
  simp only
  by_cases hc : (g.ep != SQNONE && !isEmpty (getPawnAttacks f g.white &&& bit g.ep)) = true
  · rw [if_pos hc]
    simp only [Bool.and_eq_true] at hc
    have hne : g.ep ≠ 64 := by have := hc.1; simpa using this
    refine ⟨by simp, fun m hm => ?_⟩
    rw [List.mem_singleton] at hm; subst hm
    obtain ⟨e1, _, e3, _, e5, _, e7, _⟩ := mk_fields f g.ep _ PNONE true false true false hf (by omega) hP (by decide)
    exact ⟨e1, e3, e5, e7⟩
  · rw [if_neg hc]; exact ⟨by simp, fun m hm => absurd hm (by simp)⟩

theorem pawnQuiet_nodup (f : Nat) (hrow : 8 ≤ f ∧ f < 56) :
    (pawnQuiet g f).Nodup ∧ ∀ m ∈ pawnQuiet g f, m.fromSq = f ∧ m.piece = (if g.white then WP else BP) ∧ m.isCapture = false := by
  have hf : f < 64 := by omega
  cases hw : g.white
  · rw [pawnQuiet_black g hw f hrow]
    simp only [Bool.false_eq_true, if_false]
    split
    · by_cases h8 : f + 8 ≤ 55
      · simp only [h8, decide_true, if_true]
        obtain ⟨a1, a2, a3, _, a5, a6, _, _⟩ := mk_fields f (f + 8) BP PNONE false false false false hf (by omega) (by decide) (by decide)
        obtain ⟨c1, c2, c3, _, c5, c6, _, _⟩ := mk_fields f (f + 16) BP PNONE false true false false hf (by omega) (by decide) (by decide)
        split
        · refine ⟨?_, ?_⟩
          · rw [List.nodup_cons]
            refine ⟨?_, by simp⟩
            intro h; rw [List.mem_singleton] at h
            rw [h] at a6; rw [c6] at a6; exact absurd a6 (by simp)
          · intro m hm
            rcases List.mem_cons.1 hm with h | h
            · subst h; exact ⟨a1, a3, a5⟩
            · rw [List.mem_singleton] at h; subst h; exact ⟨c1, c3, c5⟩
        · refine ⟨by simp, fun m hm => ?_⟩
          rw [List.mem_singleton] at hm; subst hm; exact ⟨a1, a3, a5⟩
      · simp only [h8, decide_false, Bool.false_eq_true, if_false]
        have := fan_nodup f (f + 8) BP false false False hf (by omega) (by decide)
        simp only [if_false] at this
        exact ⟨this.1, fun m hm => by have := this.2 m hm; exact ⟨this.1, this.2.2.1, this.2.2.2.1⟩⟩
    · exact ⟨by simp, fun m hm => absurd hm (by simp)⟩
  · rw [pawnQuiet_white g hw f hrow]
    simp only [if_true]
    split
    · by_cases h8 : f - 8 ≥ 8
      · simp only [h8, decide_true, if_true]
        obtain ⟨a1, a2, a3, _, a5, a6, _, _⟩ := mk_fields f (f - 8) WP PNONE false false false false hf (by omega) (by decide) (by decide)
        obtain ⟨c1, c2, c3, _, c5, c6, _, _⟩ := mk_fields f (f - 16) WP PNONE false true false false hf (by omega) (by decide) (by decide)
        split
        · refine ⟨?_, ?_⟩
          · rw [List.nodup_cons]
            refine ⟨?_, by simp⟩
            intro h; rw [List.mem_singleton] at h
            rw [h] at a6; rw [c6] at a6; exact absurd a6 (by simp)
          · intro m hm
            rcases List.mem_cons.1 hm with h | h
            · subst h; exact ⟨a1, a3, a5⟩
            · rw [List.mem_singleton] at h; subst h; exact ⟨c1, c3, c5⟩
        · refine ⟨by simp, fun m hm => ?_⟩
          rw [List.mem_singleton] at hm; subst hm; exact ⟨a1, a3, a5⟩
      · simp only [h8, decide_false, Bool.false_eq_true, if_false]
        have := fan_nodup f (f - 8) WP false true False hf (by omega) (by decide)
        simp only [if_false] at this
        exact ⟨this.1, fun m hm => by have := this.2 m hm; exact ⟨this.1, this.2.2.1, this.2.2.2.1⟩⟩
    · exact ⟨by simp, fun m hm => absurd hm (by simp)⟩

theorem pawnMoves_nodup (f : Nat) (hrow : 8 ≤ f ∧ f < 56) (hep : g.ep ≤ 64) :
    (pawnMoves g true f).Nodup ∧ ∀ m ∈ pawnMoves g true f, m.fromSq = f ∧ m.piece = (if g.white then WP else BP) := by
  have hf : f < 64 := by omega
  obtain ⟨q1, q2⟩ := pawnQuiet_nodup (g := g) f hrow
  obtain ⟨e1, e2⟩ := pawnEp_nodup (g := g) f hf hep
  obtain ⟨c1, c2⟩ := pawnCaps_nodup (g := g) f hf
  unfold pawnMoves
  simp only [if_true]
  refine ⟨?_, ?_⟩
  · rw [List.nodup_append, List.nodup_append]
    refine ⟨⟨q1, e1, ?_⟩, c1, ?_⟩
    · intro x hx y hy hxy
      have h1 := (q2 x hx).2.2; have h2 := (e2 y hy).2.2.1
      rw [hxy, h2] at h1; exact absurd h1 (by simp)
    · intro x hx y hy hxy
      rcases List.mem_append.1 hx with hx | hx
      · have h1 := (q2 x hx).2.2; have h2 := (c2 y hy).2.2.1
        rw [hxy, h2] at h1; exact absurd h1 (by simp)
      · have h1 := (e2 x hx).2.2.2; have h2 := (c2 y hy).2.2.2
        rw [hxy, h2] at h1; exact absurd h1 (by simp)
  · intro m hm
    rcases List.mem_append.1 hm with hm | hm
    · rcases List.mem_append.1 hm with hm | hm
      · exact ⟨(q2 m hm).1, (q2 m hm).2.1⟩
      · exact ⟨(e2 m hm).1, (e2 m hm).2.1⟩
    · exact ⟨(c2 m hm).1, (c2 m hm).2.1⟩

end parts

theorem castlingMoves_nodup (g : Game) : (castlingMoves g true).Nodup ∧ ∀ m ∈ castlingMoves g true, m.isCastling = true := by
  obtain ⟨_, a2, _, _, _, _, _, a8⟩ := mk_fields 60 62 WK PNONE false false false true (by decide) (by decide) (by decide) (by decide)
  obtain ⟨_, c2, _, _, _, _, _, c8⟩ := mk_fields 60 58 WK PNONE false false false true (by decide) (by decide) (by decide) (by decide)
  obtain ⟨_, d2, _, _, _, _, _, d8⟩ := mk_fields 4 6 BK PNONE false false false true (by decide) (by decide) (by decide) (by decide)
  obtain ⟨_, e2, _, _, _, _, _, e8⟩ := mk_fields 4 2 BK PNONE false false false true (by decide) (by decide) (by decide) (by decide)
  unfold castlingMoves
  simp only [Bool.not_true, Bool.false_eq_true, if_false]
  have two : ∀ (c1 c2 : Bool) (x y : Move), x.toSq ≠ y.toSq → x.isCastling = true → y.isCastling = true →
      ((if c1 = true then [x] else []) ++ (if c2 = true then [y] else [])).Nodup ∧
      ∀ m ∈ (if c1 = true then [x] else []) ++ (if c2 = true then [y] else []), m.isCastling = true := by
    intro c1 c2 x y hne hx hy
    cases c1 <;> cases c2 <;> simp [hx, hy]
    intro h; rw [h] at hne; exact hne rfl
  split
  · exact two _ _ _ _ (by rw [a2, c2]; decide) a8 c8
  · exact two _ _ _ _ (by rw [d2, e2]; decide) d8 e8

/-- **the generated list has no repeats** -/
theorem generateMoves_nodup {g : Game} {b : Board} (wf : Wf g b) : (generateMoves g true).Nodup := by
  have hWP : WP = 0 := rfl
  have hBP : BP = 6 := rfl
  have h16 : ∀ q, q < 6 → q + (if g.white then 0 else 6) < 16 := by intro q hq; cases g.white <;> simp <;> omega
  -- pawns
  have hpw : WP + (if g.white then 0 else 6) = (if g.white then WP else BP) := by cases g.white <;> rfl
  have hP : ((bitsOf (g.bb (WP + (if g.white then 0 else 6)))).flatMap (pawnMoves g true)).Nodup ∧
      ∀ m ∈ (bitsOf (g.bb (WP + (if g.white then 0 else 6)))).flatMap (pawnMoves g true),
        m.piece = WP + (if g.white then 0 else 6) ∧ m.isCastling = false := by
    have hrows : ∀ f ∈ bitsOf (g.bb (WP + (if g.white then 0 else 6))), 8 ≤ f ∧ f < 56 := by
      intro f hf
      rw [hpw] at hf
      obtain ⟨hfl, hsrc⟩ := wf.piece_of_bit _ f (by cases g.white <;> decide) hf
      exact wf.ok.pawns f hfl (by rw [hsrc]; cases g.white <;> simp)
    refine ⟨?_, ?_⟩
    · apply nodup_flatMap_key _ _ Move.fromSq (bitsOf_nodup _)
      · intro f hf; exact (pawnMoves_nodup f (hrows f hf) wf.ok.epLe).1
      · intro f hf m hm; exact ((pawnMoves_nodup f (hrows f hf) wf.ok.epLe).2 m hm).1
    · intro m hm
      rw [List.mem_flatMap] at hm
      obtain ⟨f, hf, hm⟩ := hm
      rw [hpw]
      exact ⟨((pawnMoves_nodup f (hrows f hf) wf.ok.epLe).2 m hm).2, pawnMoves_notCastle f (hrows f hf) wf.ok.epLe m hm⟩
  obtain ⟨hC1, hC2⟩ := castlingMoves_nodup g
  have hN := pieceMoves_nodup (g := g) (WN + (if g.white then 0 else 6)) getKnightAttacks (h16 _ (by decide))
  have hB := pieceMoves_nodup (g := g) (WB + (if g.white then 0 else 6)) (fun f => getBishopAttacks f g.allOcc) (h16 _ (by decide))
  have hR := pieceMoves_nodup (g := g) (WR + (if g.white then 0 else 6)) (fun f => getRookAttacks f g.allOcc) (h16 _ (by decide))
  have hQ := pieceMoves_nodup (g := g) (WQ + (if g.white then 0 else 6)) (fun f => getQueenAttacks f g.allOcc) (h16 _ (by decide))
  have hK := pieceMoves_nodup (g := g) (WK + (if g.white then 0 else 6)) getKingAttacks (h16 _ (by decide))
  have hWN : WN = 1 := rfl
  have hWB : WB = 2 := rfl
  have hWR : WR = 3 := rfl
  have hWQ : WQ = 4 := rfl
  have hWK : WK = 5 := rfl
  -- disjointness: by piece index, castling by its flag
  have dj : ∀ (l1 l2 : List Move) (p1 p2 : Nat), p1 ≠ p2 → (∀ m ∈ l1, m.piece = p1 ∧ m.isCastling = false) →
      (∀ m ∈ l2, m.piece = p2 ∧ m.isCastling = false) → ∀ a ∈ l1, ∀ b' ∈ l2, a ≠ b' := by
    intro l1 l2 p1 p2 hne h1 h2 a ha b' hb' hab
    have := (h1 a ha).1; rw [hab, (h2 b' hb').1] at this; exact hne this.symm
  have djc : ∀ (l1 : List Move), (∀ m ∈ l1, m.isCastling = false) → ∀ a ∈ l1, ∀ b' ∈ castlingMoves g true, a ≠ b' := by
    intro l1 h1 a ha b' hb' hab
    have := h1 a ha; rw [hab, hC2 b' hb'] at this; exact absurd this (by simp)
  unfold generateMoves
  simp only
  -- fold the appends one by one, carrying "piece ∈ a set ∧ castling flag" facts
  have s1 : ((bitsOf (g.bb (WP + (if g.white then 0 else 6)))).flatMap (pawnMoves g true) ++ castlingMoves g true).Nodup :=
    List.nodup_append.2 ⟨hP.1, hC1, djc _ (fun m hm => (hP.2 m hm).2)⟩
  have mem1 : ∀ m ∈ (bitsOf (g.bb (WP + (if g.white then 0 else 6)))).flatMap (pawnMoves g true) ++ castlingMoves g true,
      m.isCastling = true ∨ (m.piece = WP + (if g.white then 0 else 6) ∧ m.isCastling = false) := by
    intro m hm
    rcases List.mem_append.1 hm with h | h
    · exact Or.inr (hP.2 m h)
    · exact Or.inl (hC2 m h)
  have step : ∀ (l : List Move) (ps : List Nat) (X : Nat) (att : Nat → UInt64), l.Nodup →
      (∀ m ∈ l, m.isCastling = true ∨ (m.piece ∈ ps ∧ m.isCastling = false)) → X ∉ ps →
      (pieceMoves g true X att).Nodup → (∀ m ∈ pieceMoves g true X att, m.piece = X ∧ m.isCastling = false) →
      (l ++ pieceMoves g true X att).Nodup ∧
      ∀ m ∈ l ++ pieceMoves g true X att, m.isCastling = true ∨ (m.piece ∈ X :: ps ∧ m.isCastling = false) := by
    intro l ps X att hl hmem hX hn hf
    refine ⟨List.nodup_append.2 ⟨hl, hn, ?_⟩, ?_⟩
    · intro a ha b' hb' hab
      rcases hmem a ha with h | ⟨h, _⟩
      · rw [hab, (hf b' hb').2] at h; exact absurd h (by simp)
      · rw [hab, (hf b' hb').1] at h; exact hX h
    · intro m hm
      rcases List.mem_append.1 hm with h | h
      · rcases hmem m h with h' | ⟨h', h''⟩
        · exact Or.inl h'
        · exact Or.inr ⟨List.mem_cons_of_mem _ h', h''⟩
      · exact Or.inr ⟨by rw [(hf m h).1]; exact List.mem_cons_self, (hf m h).2⟩
  have mem1' : ∀ m ∈ (bitsOf (g.bb (WP + (if g.white then 0 else 6)))).flatMap (pawnMoves g true) ++ castlingMoves g true,
      m.isCastling = true ∨ (m.piece ∈ [WP + (if g.white then 0 else 6)] ∧ m.isCastling = false) := by
    intro m hm
    rcases mem1 m hm with h | ⟨h, h'⟩
    · exact Or.inl h
    · exact Or.inr ⟨by rw [h]; exact List.mem_singleton.2 rfl, h'⟩
  obtain ⟨n2, m2⟩ := step _ _ _ _ s1 mem1' (by simp) hN.1 hN.2
  obtain ⟨n3, m3⟩ := step _ _ _ _ n2 m2 (by simp) hB.1 hB.2
  obtain ⟨n4, m4⟩ := step _ _ _ _ n3 m3 (by simp; omega) hR.1 hR.2
  obtain ⟨n5, m5⟩ := step _ _ _ _ n4 m4 (by simp; omega) hQ.1 hQ.2
  obtain ⟨n6, _⟩ := step _ _ _ _ n5 m5 (by simp; omega) hK.1 hK.2
  exact n6

/-- a move word below 2^24 is determined by its eight fields -/
theorem move_eq_of_fields (m1 m2 : Move) (h1 : m1.data < 16777216) (h2 : m2.data < 16777216)
    (e1 : m1.fromSq = m2.fromSq) (e2 : m1.toSq = m2.toSq) (e3 : m1.piece = m2.piece) (e4 : m1.promotion = m2.promotion)
    (e5 : m1.isCapture = m2.isCapture) (e6 : m1.isDoublePush = m2.isDoublePush) (e7 : m1.isEnpassant = m2.isEnpassant)
    (e8 : m1.isCastling = m2.isCastling) : m1 = m2 := by
  cases m1 with | mk d1 => cases m2 with | mk d2 =>
  simp only [Move.fromSq, Move.toSq, Move.piece, Move.promotion, Move.isCapture, Move.isDoublePush, Move.isEnpassant, Move.isCastling] at *
  have b5 : d1 / 0x100000 % 2 = d2 / 0x100000 % 2 := by
    have : d1 / 0x100000 % 2 < 2 := Nat.mod_lt _ (by decide)
    have : d2 / 0x100000 % 2 < 2 := Nat.mod_lt _ (by decide)
    cases h : (d1 / 0x100000 % 2 == 1) <;> rw [h] at e5 <;> simp at h <;> simp at e5 <;> omega
  have b6 : d1 / 0x200000 % 2 = d2 / 0x200000 % 2 := by
    have : d1 / 0x200000 % 2 < 2 := Nat.mod_lt _ (by decide)
    have : d2 / 0x200000 % 2 < 2 := Nat.mod_lt _ (by decide)
    cases h : (d1 / 0x200000 % 2 == 1) <;> rw [h] at e6 <;> simp at h <;> simp at e6 <;> omega
  have b7 : d1 / 0x400000 % 2 = d2 / 0x400000 % 2 := by
    have : d1 / 0x400000 % 2 < 2 := Nat.mod_lt _ (by decide)
    have : d2 / 0x400000 % 2 < 2 := Nat.mod_lt _ (by decide)
    cases h : (d1 / 0x400000 % 2 == 1) <;> rw [h] at e7 <;> simp at h <;> simp at e7 <;> omega
  have b8 : d1 / 0x800000 % 2 = d2 / 0x800000 % 2 := by
    have : d1 / 0x800000 % 2 < 2 := Nat.mod_lt _ (by decide)
    have : d2 / 0x800000 % 2 < 2 := Nat.mod_lt _ (by decide)
    cases h : (d1 / 0x800000 % 2 == 1) <;> rw [h] at e8 <;> simp at h <;> simp at e8 <;> omega
  congr 1
  omega

theorem generated_lt (g : Game) (hep : g.ep ≤ 64) (m : Move) (hm : m ∈ generateMoves g true) : m.data < 16777216 := by
  obtain ⟨f, t, p, pr, c, d, e, k, rfl, hf, ht, hp, hpr, _, _⟩ := Props.C01.generated_shape g true hep m hm
  simp only [Move.mk']
  cases c <;> cases d <;> cases e <;> cases k <;> simp only [Bool.false_eq_true, if_false, if_true] <;> omega

theorem kind_colour_inj : ∀ x, x < 12 → ∀ y, y < 12 → (decide (x < 6) = decide (y < 6)) →
    Spec.kindOfIndex x = Spec.kindOfIndex y → x = y := by decide

/-- **distinct generated moves denote distinct rules moves** -/
theorem smove_inj {g : Game} {b : Board} (wf : Wf g b) (nk : NoKingCapture g) (m1 m2 : Move)
    (h1 : m1 ∈ generateMoves g true) (h2 : m2 ∈ generateMoves g true) (h : smove m1 = smove m2) : m1 = m2 := by
  have f1 := gen_fits wf nk true m1 h1
  have f2 := gen_fits wf nk true m2 h2
  have g1 := gen_flags wf true m1 h1
  have g2 := gen_flags wf true m2 h2
  unfold smove at h
  injection h with hfrom hto hpr
  have hpiece : m1.piece = m2.piece := by
    have a := f1.src; have c := f2.src
    rw [hfrom] at a; rw [a] at c; injection c
  have hpromo : m1.promotion = m2.promotion := by
    by_cases p1 : m1.promotion = PNONE
    · rw [if_pos p1] at hpr
      by_cases p2 : m2.promotion = PNONE
      · rw [p1, p2]
      · rw [if_neg p2] at hpr; exact absurd hpr (by simp)
    · rw [if_neg p1] at hpr
      by_cases p2 : m2.promotion = PNONE
      · rw [if_pos p2] at hpr; exact absurd hpr (by simp)
      · rw [if_neg p2] at hpr
        injection hpr with hk
        have o1 := (f1.promo p1).1
        have o2 := (f2.promo p2).1
        apply kind_colour_inj _ (ownP_lt o1) _ (ownP_lt o2) _ hk
        unfold ownP at o1 o2
        cases hw : g.white <;> rw [hw] at o1 o2 <;> simp only [Bool.false_eq_true, if_false, if_true] at o1 o2
        · have a1 : ¬ m1.promotion < 6 := by omega
          have a2 : ¬ m2.promotion < 6 := by omega
          simp [a1, a2]
        · simp [o1, o2]
  have hep : m1.isEnpassant = m2.isEnpassant := by
    have a := g1.epIff; have c := g2.epIff
    rw [hfrom, hto, hpiece] at a
    cases h1e : m1.isEnpassant <;> cases h2e : m2.isEnpassant <;> simp_all
  have hcs : m1.isCastling = m2.isCastling := by
    have a := g1.castleIff; have c := g2.castleIff
    rw [hfrom, hto, hpiece] at a
    cases h1e : m1.isCastling <;> cases h2e : m2.isCastling <;> simp_all
  have hdp : m1.isDoublePush = m2.isDoublePush := by
    have a := g1.dpushIff; have c := g2.dpushIff
    rw [hfrom, hto, hpiece] at a
    cases h1e : m1.isDoublePush <;> cases h2e : m2.isDoublePush <;> simp_all
  have hcap : m1.isCapture = m2.isCapture := by
    cases c1 : m1.isCapture <;> cases c2 : m2.isCapture
    · rfl
    · exfalso
      have q := f1.quiet c1
      cases e2 : m2.isEnpassant
      · obtain ⟨v, hv, _⟩ := f2.cap c2 e2
        rw [← hto, q] at hv; exact absurd hv (by simp)
      · rw [← hep] at e2
        have := (f1.ep e2).1; rw [c1] at this; exact absurd this (by simp)
    · exfalso
      have q := f2.quiet c2
      cases e1 : m1.isEnpassant
      · obtain ⟨v, hv, _⟩ := f1.cap c1 e1
        rw [hto, q] at hv; exact absurd hv (by simp)
      · rw [hep] at e1
        have := (f2.ep e1).1; rw [c2] at this; exact absurd this (by simp)
    · rfl
  exact move_eq_of_fields m1 m2 (generated_lt g wf.ok.epLe m1 h1) (generated_lt g wf.ok.epLe m2 h2)
    hfrom hto hpiece hpromo hcap hdp hep hcs

end Jence
