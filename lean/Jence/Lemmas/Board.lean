/-
  The twelve piece sets seen as a board `square → piece`. `Rep bbs b x`: the piece sets hold exactly what the board `b`
  says, plus at most one extra (piece, square) pair `x` - `make_search_move` puts the moving piece on its target square
  before it removes what stood there, so in between two sets share one square.
-/
import Jence.Lemmas.XorSum
import Jence.Model.MakeMove
namespace Jence
open Jence

abbrev Board := Nat → Option Nat

def Board.set (b : Board) (s : Nat) (v : Option Nat) : Board := fun t => if t = s then v else b t

@[simp] theorem Board.set_same (b : Board) (s : Nat) (v : Option Nat) : b.set s v s = v := by simp [Board.set]
theorem Board.set_ne (b : Board) (s t : Nat) (v : Option Nat) (h : t ≠ s) : b.set s v t = b t := by simp [Board.set, h]

def Rep (bbs : Array UInt64) (b : Board) (x : Option (Nat × Nat)) : Prop :=
  bbs.size = 12 ∧ ∀ q t, q < 12 → t < 64 → getBit (bbs.getD q 0) t = (decide (b t = some q) || decide (x = some (q, t)))

theorem getD_set_same' (bbs : Array UInt64) (p : Nat) (v : UInt64) (hp : p < 12) (hsz : bbs.size = 12) :
    (bbs.setIfInBounds p v).getD p 0 = v := by
  simp [Array.getD_eq_getD_getElem?, hsz, hp]

/-- clearing the bit of the piece the board has on `s` -/
theorem rep_unset (bbs : Array UInt64) (b : Board) (x : Option (Nat × Nat)) (q s : Nat) (h : Rep bbs b x)
    (hq : q < 12) (hs : s < 64) (hb : b s = some q) (hx : x ≠ some (q, s)) :
    Rep (bbs.setIfInBounds q (unsetBit (bbs.getD q 0) s)) (b.set s none) x := by
  obtain ⟨hsz, hr⟩ := h
  refine ⟨by rw [Array.size_setIfInBounds]; exact hsz, ?_⟩
  intro q' t hq' ht
  by_cases hqq : q' = q
  · subst hqq
    rw [getD_set_same' _ _ _ hq' hsz, getBit_unsetBit _ _ _ hs ht, hr q' t hq' ht]
    by_cases hts : t = s
    · subst hts
      have : decide (x = some (q', t)) = false := by simpa using hx
      simp [this]
    · have : ¬ s = t := fun h => hts h.symm
      simp [Board.set_ne _ _ _ _ hts, this]
  · rw [getD_setIfInBounds_ne' _ _ _ _ _ (fun h => hqq h.symm), hr q' t hq' ht]
    by_cases hts : t = s
    · subst hts
      have h1 : decide (b t = some q') = false := by
        rw [hb]; simp; exact fun h => hqq h.symm
      simp [h1]
    · rw [Board.set_ne _ _ _ _ hts]

/-- setting a bit: the new pair is the extra one -/
theorem rep_set (bbs : Array UInt64) (b : Board) (q s : Nat) (h : Rep bbs b none) (hq : q < 12) (hs : s < 64) :
    Rep (bbs.setIfInBounds q (setBit (bbs.getD q 0) s)) b (some (q, s)) := by
  obtain ⟨hsz, hr⟩ := h
  refine ⟨by rw [Array.size_setIfInBounds]; exact hsz, ?_⟩
  intro q' t hq' ht
  by_cases hqq : q' = q
  · subst hqq
    rw [getD_set_same' _ _ _ hq' hsz, getBit_setBit _ _ _ hs ht, hr q' t hq' ht]
    by_cases hts : s = t
    · simp [hts]
    · simp [hts]
  · rw [getD_setIfInBounds_ne' _ _ _ _ _ (fun h => hqq h.symm), hr q' t hq' ht]
    have : ¬ q = q' := fun h => hqq h.symm
    simp [this]

/-- the extra pair stands on an empty square: it joins the board -/
theorem rep_merge (bbs : Array UInt64) (b : Board) (q s : Nat) (h : Rep bbs b (some (q, s))) (hb : b s = none) :
    Rep bbs (b.set s (some q)) none := by
  obtain ⟨hsz, hr⟩ := h
  refine ⟨hsz, ?_⟩
  intro q' t hq' ht
  rw [hr q' t hq' ht]
  by_cases hts : t = s
  · subst hts
    simp [hb]
  · rw [Board.set_ne _ _ _ _ hts]
    have : ¬ (q = q' ∧ s = t) := fun h => hts h.2.symm
    simp [this]

theorem rep_bit (bbs : Array UInt64) (b : Board) (h : Rep bbs b none) (q t : Nat) (hq : q < 12) (ht : t < 64) :
    getBit (bbs.getD q 0) t = decide (b t = some q) := by
  rw [h.2 q t hq ht]; simp

end Jence
