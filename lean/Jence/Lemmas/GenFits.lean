/-
  Every generated move of a consistent position fits its board (`MoveFits`), provided no generated capture aims at the
  enemy king (the side not to move is not in check). No geometry is needed: targets come from intersections with the
  occupancy sets, which the consistent position ties to the board.
-/
import Jence.Lemmas.Wf
import Jence.Props.C01
namespace Jence
open Jence

theorem getBit_not (x : UInt64) (t : Nat) (ht : t < 64) : getBit (~~~x) t = !getBit x t := by
  rw [getBit_eq_testBit _ _ ht, getBit_eq_testBit _ _ ht, UInt64.toNat_not]
  have hx : x.toNat < 2 ^ 64 := x.toNat_lt
  have : UInt64.size - 1 - x.toNat = 2 ^ 64 - (x.toNat + 1) := by simp [UInt64.size]
  rw [this, Nat.testBit_two_pow_sub_succ hx]
  simp [ht]

theorem isEmpty_and (a mask : UInt64) (h : isEmpty (a &&& mask) = true) (t : Nat) (ht : t < 64) (hm : getBit mask t = true) :
    getBit a t = false := by
  have h0 : a &&& mask = 0 := by simpa [isEmpty] using h
  have := getBit_and a mask t ht
  rw [h0, getBit_zero t ht, hm] at this
  simpa using this.symm

theorem not_isEmpty_and_bit (a : UInt64) (t : Nat) (ht : t < 64) (h : (!isEmpty (a &&& bit t)) = true) : getBit a t = true := by
  cases hb : getBit a t
  · exfalso
    have : a &&& bit t = 0 := by
      apply ext_getBit
      intro s hs
      rw [getBit_and _ _ _ hs, getBit_zero s hs, getBit_bit t s ht hs]
      by_cases hts : t = s
      · subst hts; simp [hb]
      · simp [hts]
    rw [this] at h; simp [isEmpty] at h
  · rfl

/-! ### what the occupancy sets say about a square -/

section occ
variable {g : Game} {b : Board}

theorem Wf.empty_of_all (wf : Wf g b) (t : Nat) (ht : t < 64) (h : getBit g.allOcc t = false) : b t = none := by
  have := wf.occA t ht
  rw [h] at this
  cases hb : b t
  · rfl
  · rw [hb] at this; simp at this

theorem Wf.enemy_of_occ (wf : Wf g b) (t : Nat) (ht : t < 64)
    (h : getBit (if g.white then g.blackOcc else g.whiteOcc) t = true) : ∃ v, b t = some v ∧ enemyP g.white v := by
  cases hw : g.white
  · rw [hw] at h; simp only [Bool.false_eq_true, if_false] at h
    have := wf.occW t ht
    rw [h] at this
    cases hb : b t
    · rw [hb] at this; simp [whiteAt] at this
    · rename_i v
      rw [hb] at this
      refine ⟨v, rfl, ?_⟩
      unfold enemyP; simp only [Bool.false_eq_true, if_false]
      simpa [whiteAt] using this.symm
  · rw [hw] at h; simp only [if_true] at h
    have := wf.occB t ht
    rw [h] at this
    cases hb : b t
    · rw [hb] at this; simp [blackAt] at this
    · rename_i v
      rw [hb] at this
      refine ⟨v, rfl, ?_⟩
      unfold enemyP; simp only [if_true]
      have hv := wf.ok.valid t v ht hb
      have : 6 ≤ v := by simpa [blackAt] using this.symm
      exact ⟨this, hv⟩

theorem Wf.piece_of_bit (wf : Wf g b) (q t : Nat) (hq : q < 12) (h : t ∈ bitsOf (g.bb q)) : t < 64 ∧ b t = some q := by
  obtain ⟨ht, hb⟩ := (mem_bitsOf _ _).1 h
  refine ⟨ht, ?_⟩
  have := rep_bit g.bbs b wf.rep q t hq ht
  unfold Game.bb at hb
  rw [hb] at this
  simpa using this.symm

end occ

/-! ### the packed move gives back its fields -/

private def b2n (b : Bool) : Nat := if b then 1 else 0
private theorem flag_eq (K : Nat) (b : Bool) : (if b then K else 0) = K * b2n b := by cases b <;> simp [b2n]
private theorem b2n_le (b : Bool) : b2n b ≤ 1 := by cases b <;> simp [b2n]
private theorem beq_one_iff (n : Nat) (b : Bool) (h : n = b2n b) : (n == 1) = b := by
  cases b <;> simp [b2n] at h <;> simp [h]

theorem mk_fields (f t p pr : Nat) (cap dbl ep cas : Bool) (hf : f < 64) (ht : t < 64) (hp : p < 16) (hpr : pr < 16) :
    (Move.mk' f t p pr cap dbl ep cas).fromSq = f ∧ (Move.mk' f t p pr cap dbl ep cas).toSq = t ∧
    (Move.mk' f t p pr cap dbl ep cas).piece = p ∧ (Move.mk' f t p pr cap dbl ep cas).promotion = pr ∧
    (Move.mk' f t p pr cap dbl ep cas).isCapture = cap ∧ (Move.mk' f t p pr cap dbl ep cas).isDoublePush = dbl ∧
    (Move.mk' f t p pr cap dbl ep cas).isEnpassant = ep ∧ (Move.mk' f t p pr cap dbl ep cas).isCastling = cas := by
  simp only [Move.mk', Move.fromSq, Move.toSq, Move.piece, Move.promotion, Move.isCapture, Move.isDoublePush,
    Move.isEnpassant, Move.isCastling, flag_eq]
  have h1 := b2n_le cap; have h2 := b2n_le dbl; have h3 := b2n_le ep; have h4 := b2n_le cas
  refine ⟨by omega, by omega, by omega, by omega, ?_, ?_, ?_, ?_⟩
  · exact beq_one_iff _ _ (by omega)
  · exact beq_one_iff _ _ (by omega)
  · exact beq_one_iff _ _ (by omega)
  · exact beq_one_iff _ _ (by omega)

/-! ### builders: one per kind of generated move -/

section builders
variable {b : Board} {w : Bool}

def pawnOf (w : Bool) : Nat := if w then WP else BP
def enemyKing (w : Bool) : Nat := if w then BK else WK

/-- an ordinary move or capture without promotion -/
theorem fits_simple (f t p : Nat) (c : Bool) (hf : f < 64) (ht : t < 64) (hown : ownP w p) (hsrc : b f = some p)
    (hq : c = false → b t = none) (hc : c = true → ∃ v, b t = some v ∧ enemyP w v ∧ v ≠ (if w then BK else WK))
    (hpawn : p = (if w then WP else BP) → 8 ≤ t ∧ t < 56) :
    MoveFits b w (Move.mk' f t p PNONE c false false false) := by
  obtain ⟨e1, e2, e3, e4, e5, e6, e7, e8⟩ := mk_fields f t p PNONE c false false false hf ht (by have := ownP_lt hown; omega) (by decide)
  refine ⟨?_, ?_, ?_, ?_, ?_, ?_, ?_, ?_, ?_, ?_, ?_, ?_, ?_⟩
  · rw [e3]; exact hown
  · rw [e1]; exact hf
  · rw [e2]; exact ht
  · rw [e1, e3]; exact hsrc
  · rw [e5, e2]; exact hq
  · rw [e5, e2]; exact fun h _ => hc h
  · rw [e7]; exact fun h => absurd h (by simp)
  · rw [e4]; exact fun h => absurd rfl h
  · rw [e8]; exact fun h => absurd h (by simp)
  · rw [e8]; exact fun h => absurd h (by simp)
  · rw [e4]; exact fun h => absurd rfl h
  · rw [e3, e2]; exact fun h _ => hpawn h
  · rw [e6]; exact fun h => absurd h (by simp)

/-- a promotion (push or capture) -/
theorem fits_promo (f t pr : Nat) (c : Bool) (hf : f < 64) (ht : t < 64) (hsrc : b f = some (if w then WP else BP))
    (hpr : pr ∈ promos w)
    (hq : c = false → b t = none) (hc : c = true → ∃ v, b t = some v ∧ enemyP w v ∧ v ≠ (if w then BK else WK)) :
    MoveFits b w (Move.mk' f t (if w then WP else BP) pr c false false false) := by
  have hWP : WP = 0 := rfl
  have hBP : BP = 6 := rfl
  have hprf : ownP w pr ∧ pr ≠ (if w then WP else BP) ∧ pr ≠ WP ∧ pr ≠ BP ∧ pr ≠ WK ∧ pr ≠ BK ∧ pr ≠ PNONE ∧ pr < 16 := by
    unfold promos at hpr; unfold ownP
    cases w <;> simp at hpr ⊢ <;> rcases hpr with h | h | h | h <;> subst h <;> decide
  obtain ⟨p1, p2, p3, p4, p5, p6, p7, p8⟩ := hprf
  have hown : ownP w (if w then WP else BP) := by unfold ownP; cases w <;> simp <;> omega
  obtain ⟨e1, e2, e3, e4, e5, e6, e7, e8⟩ := mk_fields f t (if w then WP else BP) pr c false false false hf ht (by have := ownP_lt hown; omega) p8
  refine ⟨?_, ?_, ?_, ?_, ?_, ?_, ?_, ?_, ?_, ?_, ?_, ?_, ?_⟩
  · rw [e3]; exact hown
  · rw [e1]; exact hf
  · rw [e2]; exact ht
  · rw [e1, e3]; exact hsrc
  · rw [e5, e2]; exact hq
  · rw [e5, e2]; exact fun h _ => hc h
  · rw [e7]; exact fun h => absurd h (by simp)
  · rw [e4, e3]; exact fun _ => ⟨p1, p2⟩
  · rw [e8]; exact fun h => absurd h (by simp)
  · rw [e8]; exact fun h => absurd h (by simp)
  · rw [e4, e3]; exact fun _ => ⟨rfl, p3, p4, p5, p6⟩
  · rw [e4]; exact fun _ h => absurd h p7
  · rw [e6]; exact fun h => absurd h (by simp)

/-- a double push -/
theorem fits_dpush (f t : Nat) (hf : f < 64) (ht : t < 64) (hsrc : b f = some (if w then WP else BP))
    (hto : b t = none) (hrow : 8 ≤ t ∧ t < 56)
    (hw : w = true → t + 16 = f ∧ b (t + 8) = none) (hb : w = false → f + 16 = t ∧ b (t - 8) = none) :
    MoveFits b w (Move.mk' f t (if w then WP else BP) PNONE false true false false) := by
  have hWP : WP = 0 := rfl
  have hBP : BP = 6 := rfl
  have hown : ownP w (if w then WP else BP) := by unfold ownP; cases w <;> simp <;> omega
  obtain ⟨e1, e2, e3, e4, e5, e6, e7, e8⟩ := mk_fields f t (if w then WP else BP) PNONE false true false false hf ht (by have := ownP_lt hown; omega) (by decide)
  refine ⟨?_, ?_, ?_, ?_, ?_, ?_, ?_, ?_, ?_, ?_, ?_, ?_, ?_⟩
  · rw [e3]; exact hown
  · rw [e1]; exact hf
  · rw [e2]; exact ht
  · rw [e1, e3]; exact hsrc
  · rw [e2]; exact fun _ => hto
  · rw [e5]; exact fun h => absurd h (by simp)
  · rw [e7]; exact fun h => absurd h (by simp)
  · rw [e4]; exact fun h => absurd rfl h
  · rw [e8]; exact fun h => absurd h (by simp)
  · rw [e8]; exact fun h => absurd h (by simp)
  · rw [e4]; exact fun h => absurd rfl h
  · rw [e2]; exact fun _ _ => hrow
  · rw [e3, e5, e4, e8, e2, e1]; exact fun _ => ⟨rfl, rfl, rfl, rfl, hw, hb⟩

/-- the en-passant capture -/
theorem fits_ep (f t : Nat) (hf : f < 64) (ht : t < 64) (hsrc : b f = some (if w then WP else BP))
    (hto : b t = none) (hrow : 8 ≤ t ∧ t < 56) (hw : w = true → t + 8 < 64) (hb : w = false → 8 ≤ t)
    (hv : b (vsq w t) = some (if w then BP else WP)) :
    MoveFits b w (Move.mk' f t (if w then WP else BP) PNONE true false true false) := by
  have hWP : WP = 0 := rfl
  have hBP : BP = 6 := rfl
  have hown : ownP w (if w then WP else BP) := by unfold ownP; cases w <;> simp <;> omega
  obtain ⟨e1, e2, e3, e4, e5, e6, e7, e8⟩ := mk_fields f t (if w then WP else BP) PNONE true false true false hf ht (by have := ownP_lt hown; omega) (by decide)
  refine ⟨?_, ?_, ?_, ?_, ?_, ?_, ?_, ?_, ?_, ?_, ?_, ?_, ?_⟩
  · rw [e3]; exact hown
  · rw [e1]; exact hf
  · rw [e2]; exact ht
  · rw [e1, e3]; exact hsrc
  · rw [e5]; exact fun h => absurd h (by simp)
  · rw [e7]; exact fun _ h => absurd h (by simp)
  · rw [e5, e2, e4, e8]; exact fun _ => ⟨rfl, hto, hw, hb, hv, rfl, rfl⟩
  · rw [e4]; exact fun h => absurd rfl h
  · rw [e8]; exact fun h => absurd h (by simp)
  · rw [e8]; exact fun h => absurd h (by simp)
  · rw [e4]; exact fun h => absurd rfl h
  · rw [e2]; exact fun _ _ => hrow
  · rw [e6]; exact fun h => absurd h (by simp)

/-- castling -/
theorem fits_castle (t r rf rt : Nat) (hhop : rookHop t = some (r, rf, rt)) (ht : t < 64)
    (hsrc : b (if w then 60 else 4) = some (if w then WK else BK)) (hto : b t = none)
    (hbf : b rf = some r) (hbt : b rt = none) (hro : ownP w r) :
    MoveFits b w (Move.mk' (if w then 60 else 4) t (if w then WK else BK) PNONE false false false true) := by
  have hWK : WK = 5 := rfl
  have hBK : BK = 11 := rfl
  have hWP : WP = 0 := rfl
  have hBP : BP = 6 := rfl
  have hWR : WR = 3 := rfl
  have hBR : BR = 9 := rfl
  have hown : ownP w (if w then WK else BK) := by unfold ownP; cases w <;> simp <;> omega
  have hf : (if w then 60 else 4) < 64 := by cases w <;> simp
  obtain ⟨e1, e2, e3, e4, e5, e6, e7, e8⟩ := mk_fields (if w then 60 else 4) t (if w then WK else BK) PNONE false false false true hf ht
    (by have := ownP_lt hown; omega) (by decide)
  have hne : (if w then 60 else 4) ≠ rf ∧ (if w then 60 else 4) ≠ rt ∧ (if w then WK else BK) ≠ r := by
    have hr := rookHop_rook _ _ _ _ hhop
    refine ⟨?_, ?_, ?_⟩
    · intro h; rw [← h, hsrc] at hbf; injection hbf with hbf
      cases w <;> simp at hbf <;> rcases hr with h' | h' <;> omega
    · intro h; rw [← h, hsrc] at hbt; exact absurd hbt (by simp)
    · cases w <;> simp <;> rcases hr with h' | h' <;> omega
  refine ⟨?_, ?_, ?_, ?_, ?_, ?_, ?_, ?_, ?_, ?_, ?_, ?_, ?_⟩
  · rw [e3]; exact hown
  · rw [e1]; exact hf
  · rw [e2]; exact ht
  · rw [e1, e3]; exact hsrc
  · rw [e2]; exact fun _ => hto
  · rw [e5]; exact fun h => absurd h (by simp)
  · rw [e7]; exact fun h => absurd h (by simp)
  · rw [e4]; exact fun h => absurd rfl h
  · rw [e4, e5, e2, e1, e3]; exact fun _ => ⟨rfl, rfl, r, rf, rt, hhop, hbf, hbt, hne.1, hne.2.1, hro, hne.2.2⟩
  · rw [e1, e3]; exact fun _ => ⟨rfl, rfl⟩
  · rw [e4]; exact fun h => absurd rfl h
  · rw [e3]; intro h; exfalso; cases w <;> simp at h <;> omega
  · rw [e6]; exact fun h => absurd h (by simp)

end builders

/-! ### the parts of the generator -/

section parts
variable {g : Game} {b : Board}

/-- a capture target taken from the enemy occupancy set, given that the move found there does not aim at the king -/
theorem capture_target (wf : Wf g b) (t : Nat) (ht : t < 64) (h : getBit (if g.white then g.blackOcc else g.whiteOcc) t = true)
    (hk : b t ≠ some (if g.white then BK else WK)) : ∃ v, b t = some v ∧ enemyP g.white v ∧ v ≠ (if g.white then BK else WK) := by
  obtain ⟨v, hv, hen⟩ := wf.enemy_of_occ t ht h
  exact ⟨v, hv, hen, fun h' => hk (by rw [hv, h'])⟩

theorem pieceMoves_fits (wf : Wf g b) (all : Bool) (piece : Nat) (hown : ownP g.white piece)
    (hnp : piece ≠ (if g.white then WP else BP)) (att : Nat → UInt64)
    (hk : ∀ m ∈ pieceMoves g all piece att, m.isCapture = true → b m.toSq ≠ some (if g.white then BK else WK)) :
    ∀ m ∈ pieceMoves g all piece att, MoveFits b g.white m := by
  intro m hm
  have hm' := hm
  unfold pieceMoves at hm'
  simp only [List.mem_flatMap, List.mem_append] at hm'
  obtain ⟨f, hf, hm'⟩ := hm'
  obtain ⟨hfl, hsrc⟩ := wf.piece_of_bit piece f (ownP_lt hown) hf
  have hp16 : piece < 16 := by have := ownP_lt hown; omega
  rcases hm' with hq | hc
  · -- quiet
    by_cases hall : all = true
    · rw [if_pos hall, List.mem_map] at hq
      obtain ⟨t, ht, rfl⟩ := hq
      obtain ⟨htl, hbit⟩ := (mem_bitsOf _ _).1 ht
      rw [getBit_and _ _ _ htl, getBit_not _ _ htl] at hbit
      have hempty : getBit g.allOcc t = false := by
        cases h : getBit g.allOcc t
        · rfl
        · rw [h] at hbit; simp at hbit
      exact fits_simple f t piece false hfl htl hown hsrc (fun _ => wf.empty_of_all t htl hempty)
        (fun h => absurd h (by simp)) (fun h => absurd h hnp)
    · rw [if_neg hall] at hq; exact absurd hq (by simp)
  · rw [List.mem_map] at hc
    obtain ⟨t, ht, rfl⟩ := hc
    obtain ⟨htl, hbit⟩ := (mem_bitsOf _ _).1 ht
    rw [getBit_and _ _ _ htl] at hbit
    have hopp : getBit (if g.white then g.blackOcc else g.whiteOcc) t = true := by
      cases h : getBit (if g.white then g.blackOcc else g.whiteOcc) t
      · rw [h] at hbit; simp at hbit
      · rfl
    obtain ⟨_, e2, _, _, e5, _, _, _⟩ := mk_fields f t piece PNONE true false false false hfl htl hp16 (by decide)
    have hkt := hk _ hm e5
    rw [e2] at hkt
    exact fits_simple f t piece true hfl htl hown hsrc (fun h => absurd h (by simp))
      (fun _ => capture_target wf t htl hopp hkt) (fun h => absurd h hnp)

theorem bne_zero {x : Nat} (h : (x != 0) = true) : x ≠ 0 := by simpa using h

theorem castlingMoves_fits (wf : Wf g b) (all : Bool) : ∀ m ∈ castlingMoves g all, MoveFits b g.white m := by
  intro m hm
  unfold castlingMoves at hm
  by_cases hall : all = true
  · have : ¬ ((!all) = true) := by simp [hall]
    rw [if_neg this] at hm
    cases hw : g.white
    · rw [hw] at hm
      simp only [Bool.false_eq_true, if_false, List.mem_append] at hm
      rcases hm with hm | hm
      · split at hm
        · rename_i hc
          simp only [Bool.and_eq_true] at hc
          obtain ⟨⟨⟨h1, h2⟩, _⟩, _⟩ := hc
          obtain ⟨k1, k2⟩ := wf.ok.castle4 (bne_zero h1)
          have e5 := wf.empty_of_all 5 (by decide) (isEmpty_and _ _ h2 5 (by decide) (by decide))
          have e6 := wf.empty_of_all 6 (by decide) (isEmpty_and _ _ h2 6 (by decide) (by decide))
          simp only [List.mem_singleton] at hm
          subst hm
          exact fits_castle (w := false) 6 BR 7 5 rfl (by decide) k1 e6 k2 e5 (by unfold ownP; decide)
        · exact absurd hm (by simp)
      · split at hm
        · rename_i hc
          simp only [Bool.and_eq_true] at hc
          obtain ⟨⟨⟨h1, h2⟩, _⟩, _⟩ := hc
          obtain ⟨k1, k2⟩ := wf.ok.castle8 (bne_zero h1)
          have e3 := wf.empty_of_all 3 (by decide) (isEmpty_and _ _ h2 3 (by decide) (by decide))
          have e2 := wf.empty_of_all 2 (by decide) (isEmpty_and _ _ h2 2 (by decide) (by decide))
          simp only [List.mem_singleton] at hm
          subst hm
          exact fits_castle (w := false) 2 BR 0 3 rfl (by decide) k1 e2 k2 e3 (by unfold ownP; decide)
        · exact absurd hm (by simp)
    · rw [hw] at hm
      simp only [if_true, List.mem_append] at hm
      rcases hm with hm | hm
      · split at hm
        · rename_i hc
          simp only [Bool.and_eq_true] at hc
          obtain ⟨⟨⟨h1, h2⟩, _⟩, _⟩ := hc
          obtain ⟨k1, k2⟩ := wf.ok.castle1 (bne_zero h1)
          have e61 := wf.empty_of_all 61 (by decide) (isEmpty_and _ _ h2 61 (by decide) (by decide))
          have e62 := wf.empty_of_all 62 (by decide) (isEmpty_and _ _ h2 62 (by decide) (by decide))
          simp only [List.mem_singleton] at hm
          subst hm
          exact fits_castle (w := true) 62 WR 63 61 rfl (by decide) k1 e62 k2 e61 (by unfold ownP; decide)
        · exact absurd hm (by simp)
      · split at hm
        · rename_i hc
          simp only [Bool.and_eq_true] at hc
          obtain ⟨⟨⟨h1, h2⟩, _⟩, _⟩ := hc
          obtain ⟨k1, k2⟩ := wf.ok.castle2 (bne_zero h1)
          have e59 := wf.empty_of_all 59 (by decide) (isEmpty_and _ _ h2 59 (by decide) (by decide))
          have e58 := wf.empty_of_all 58 (by decide) (isEmpty_and _ _ h2 58 (by decide) (by decide))
          simp only [List.mem_singleton] at hm
          subst hm
          exact fits_castle (w := true) 58 WR 56 59 rfl (by decide) k1 e58 k2 e59 (by unfold ownP; decide)
        · exact absurd hm (by simp)
  · have : (!all) = true := by simpa using hall
    rw [if_pos this] at hm
    exact absurd hm (by simp)

set_option maxRecDepth 100000 in
/-- white pawns capture towards lower square numbers, black pawns towards higher ones (all 64 x 64 pairs) -/
theorem pawn_attack_dir : ∀ f, f < 64 → ∀ t, t < 64 →
    ((getBit (getPawnAttacks f true) t = true → t < f) ∧ (getBit (getPawnAttacks f false) t = true → f < t)) := by
  decide +kernel

theorem pawnQuiet_fits (wf : Wf g b) (f : Nat) (hfl : f < 64) (hsrc : b f = some (if g.white then WP else BP))
    (hrow : 8 ≤ f ∧ f < 56) : ∀ m ∈ pawnQuiet g f, MoveFits b g.white m := by
  intro m hm
  unfold pawnQuiet at hm
  cases hw : g.white
  · -- black
    rw [hw] at hm hsrc
    simp only [Bool.false_eq_true, if_false] at hm hsrc
    have h8 : u8add8 f = f + 8 := by unfold u8add8; omega
    rw [h8] at hm
    split at hm
    · rename_i hocc
      have hto : b (f + 8) = none := wf.empty_of_all _ (by omega) (by simpa using hocc)
      split at hm
      · rename_i hlast
        have hlast' : f + 8 ≤ 55 := by simpa using hlast
        have h16 : u8add8 (f + 8) = f + 16 := by unfold u8add8; omega
        rw [h16] at hm
        rcases List.mem_cons.1 hm with hm | hm
        · subst hm
          exact fits_simple (w := false) f (f + 8) BP false hfl (by omega) (by unfold ownP; decide) hsrc (fun _ => hto)
            (fun h => absurd h (by simp)) (fun _ => ⟨by omega, by omega⟩)
        · split at hm
          · rename_i hd
            simp only [Bool.and_eq_true, beq_iff_eq] at hd
            obtain ⟨hocc2, hr⟩ := hd
            have hto2 : b (f + 16) = none := wf.empty_of_all _ (by omega) (by simpa using hocc2)
            simp only [List.mem_singleton] at hm
            subst hm
            exact fits_dpush (w := false) f (f + 16) hfl (by omega) hsrc hto2 ⟨by omega, by omega⟩
              (fun h => absurd h (by simp)) (fun _ => ⟨rfl, by rw [show f + 16 - 8 = f + 8 by omega]; exact hto⟩)
          · exact absurd hm (by simp)
      · rename_i hlast
        rw [List.mem_map] at hm
        obtain ⟨p, hp, rfl⟩ := hm
        exact fits_promo (w := false) f (f + 8) p false hfl (by omega) hsrc hp (fun _ => hto) (fun h => absurd h (by simp))
    · exact absurd hm (by simp)
  · -- white
    rw [hw] at hm hsrc
    simp only [if_true] at hm hsrc
    have h8 : u8sub8 f = f - 8 := by unfold u8sub8; omega
    rw [h8] at hm
    split at hm
    · rename_i hocc
      have hto : b (f - 8) = none := wf.empty_of_all _ (by omega) (by simpa using hocc)
      split at hm
      · rename_i hlast
        have hlast' : 8 ≤ f - 8 := by simpa using hlast
        have h16 : u8sub8 (f - 8) = f - 16 := by unfold u8sub8; omega
        rw [h16] at hm
        rcases List.mem_cons.1 hm with hm | hm
        · subst hm
          exact fits_simple (w := true) f (f - 8) WP false hfl (by omega) (by unfold ownP; decide) hsrc (fun _ => hto)
            (fun h => absurd h (by simp)) (fun _ => ⟨by omega, by omega⟩)
        · split at hm
          · rename_i hd
            simp only [Bool.and_eq_true, beq_iff_eq] at hd
            obtain ⟨hocc2, hr⟩ := hd
            have hto2 : b (f - 16) = none := wf.empty_of_all _ (by omega) (by simpa using hocc2)
            simp only [List.mem_singleton] at hm
            subst hm
            exact fits_dpush (w := true) f (f - 16) hfl (by omega) hsrc hto2 ⟨by omega, by omega⟩
              (fun _ => ⟨by omega, by rw [show f - 16 + 8 = f - 8 by omega]; exact hto⟩) (fun h => absurd h (by simp))
          · exact absurd hm (by simp)
      · rename_i hlast
        rw [List.mem_map] at hm
        obtain ⟨p, hp, rfl⟩ := hm
        exact fits_promo (w := true) f (f - 8) p false hfl (by omega) hsrc hp (fun _ => hto) (fun h => absurd h (by simp))
    · exact absurd hm (by simp)

theorem pawnEp_fits (wf : Wf g b) (f : Nat) (hfl : f < 64) (hsrc : b f = some (if g.white then WP else BP)) :
    ∀ m ∈ pawnEp g f, MoveFits b g.white m := by
  intro m hm
  unfold pawnEp at hm
  simp only at hm
  by_cases hc : (g.ep != SQNONE && !isEmpty (getPawnAttacks f g.white &&& bit g.ep)) = true
  · rw [if_pos hc] at hm
    simp only [Bool.and_eq_true] at hc
    have hne : g.ep ≠ 64 := by have := hc.1; simpa using this
    have hle := wf.ok.epLe
    obtain ⟨hto, hw, hb⟩ := wf.ok.epOk hne
    simp only [List.mem_singleton] at hm
    subst hm
    cases hwh : g.white
    · rw [hwh] at hsrc
      obtain ⟨h1, h2, h3⟩ := hb hwh
      exact fits_ep (w := false) f g.ep hfl (by omega) hsrc hto ⟨h1, h2⟩ (fun h => absurd h (by simp)) (fun _ => h1) (by simpa [vsq] using h3)
    · rw [hwh] at hsrc
      obtain ⟨h1, h2, h3⟩ := hw hwh
      exact fits_ep (w := true) f g.ep hfl (by omega) hsrc hto ⟨h1, by omega⟩ (fun _ => h2) (fun h => absurd h (by simp)) (by simpa [vsq] using h3)
  · rw [if_neg hc] at hm
    exact absurd hm (by simp)

theorem pawnCaps_fits (wf : Wf g b) (f : Nat) (hfl : f < 64) (hsrc : b f = some (if g.white then WP else BP))
    (hrow : 8 ≤ f ∧ f < 56)
    (hk : ∀ m ∈ pawnCaps g f, m.isCapture = true → b m.toSq ≠ some (if g.white then BK else WK)) :
    ∀ m ∈ pawnCaps g f, MoveFits b g.white m := by
  intro m hm
  have hm' := hm
  unfold pawnCaps at hm'
  simp only [List.mem_flatMap] at hm'
  obtain ⟨t, ht, hm'⟩ := hm'
  obtain ⟨htl, hbit⟩ := (mem_bitsOf _ _).1 ht
  rw [getBit_and _ _ _ htl] at hbit
  simp only [Bool.and_eq_true] at hbit
  obtain ⟨hatt, hopp⟩ := hbit
  have hdir := pawn_attack_dir f hfl t htl
  have hkt : ∀ pr, pr < 16 → m = Move.mk' f t (if g.white then WP else BP) pr true false false false →
      b t ≠ some (if g.white then BK else WK) := by
    intro pr hpr hmk
    obtain ⟨_, e2, _, _, e5, _, _, _⟩ := mk_fields f t (if g.white then WP else BP) pr true false false false hfl htl
      (by cases g.white <;> decide) hpr
    have := hk m hm (by rw [hmk]; exact e5)
    rw [hmk, e2] at this; exact this
  have hown : ownP g.white (if g.white then WP else BP) := by unfold ownP; cases g.white <;> decide
  by_cases hlast : (if g.white = true then t ≥ 8 else t ≤ 55)
  · rw [if_pos hlast] at hm'
    simp only [List.mem_singleton] at hm'
    have hcap := capture_target wf t htl hopp (hkt PNONE (by decide) hm')
    rw [hm']
    refine fits_simple f t _ true hfl htl hown hsrc (fun h => absurd h (by simp)) (fun _ => hcap) (fun _ => ?_)
    cases hw : g.white
    · rw [hw] at hlast hatt; simp only [Bool.false_eq_true, if_false] at hlast
      have := hdir.2 hatt; omega
    · rw [hw] at hlast hatt; simp only [if_true] at hlast
      have := hdir.1 hatt; omega
  · rw [if_neg hlast, List.mem_map] at hm'
    obtain ⟨p, hp, hmk⟩ := hm'
    have hp16 : p < 16 := by
      unfold promos at hp
      cases hw : g.white <;> rw [hw] at hp <;> simp at hp <;> rcases hp with h | h | h | h <;> subst h <;> decide
    have hcap := capture_target wf t htl hopp (hkt p hp16 hmk.symm)
    rw [← hmk]
    exact fits_promo f t p true hfl htl hsrc hp (fun h => absurd h (by simp)) (fun _ => hcap)

end parts

/-- no generated capture aims at the enemy king: the side not to move is not in check, as the generator sees it -/
def NoKingCapture (g : Game) : Prop :=
  ∀ m ∈ generateMoves g true, m.isCapture = true → getBit (g.bb (if g.white then BK else WK)) m.toSq = false

theorem Move.toSq_lt (m : Move) : m.toSq < 64 := by unfold Move.toSq; omega

/-- **every generated move of a consistent position fits its board** -/
theorem gen_fits {g : Game} {b : Board} (wf : Wf g b) (nk : NoKingCapture g) (all : Bool) :
    ∀ m ∈ generateMoves g all, MoveFits b g.white m := by
  have hEK : (if g.white then BK else WK) < 12 := by cases g.white <;> decide
  have hsub : ∀ m, m ∈ generateMoves g all → m ∈ generateMoves g true := by
    intro m hm
    cases all
    · rw [Props.C01.gen_quiescence_eq_filter g wf.ok.epLe] at hm
      exact (List.mem_filter.1 hm).1
    · exact hm
  have hmem : ∀ m, m ∈ generateMoves g all → m.isCapture = true → b m.toSq ≠ some (if g.white then BK else WK) := by
    intro m hm hc h
    have := nk m (hsub m hm) hc
    unfold Game.bb at this
    rw [rep_bit g.bbs b wf.rep _ _ hEK m.toSq_lt, h] at this
    simp at this
  intro m hm
  have hm' := hm
  unfold generateMoves at hm'
  simp only [List.mem_append] at hm'
  have hown : ∀ q, q < 6 → ownP g.white (q + (if g.white then 0 else 6)) := by
    intro q hq; unfold ownP; cases g.white <;> simp <;> omega
  have hnp : ∀ q, 0 < q → q + (if g.white then 0 else 6) ≠ (if g.white then WP else BP) := by
    intro q hq; have hWP : WP = 0 := rfl; have hBP : BP = 6 := rfl; cases g.white <;> simp <;> omega
  have hWN : WN = 1 := rfl
  have hWB : WB = 2 := rfl
  have hWR : WR = 3 := rfl
  have hWQ : WQ = 4 := rfl
  have hWK : WK = 5 := rfl
  rcases hm' with (((((hp | hc) | hn) | hb) | hr) | hq) | hkg
  · -- pawns
    rw [List.mem_flatMap] at hp
    obtain ⟨f, hf, hp⟩ := hp
    have hpw : WP + (if g.white then 0 else 6) = (if g.white then WP else BP) := by cases g.white <;> rfl
    rw [hpw] at hf
    obtain ⟨hfl, hsrc⟩ := wf.piece_of_bit _ f (by cases g.white <;> decide) hf
    have hrow := wf.ok.pawns f hfl (by rw [hsrc]; cases g.white <;> simp)
    unfold pawnMoves at hp
    simp only [List.mem_append] at hp
    rcases hp with (hq | he) | hcp
    · cases all
      · exact absurd hq (by simp)
      · exact pawnQuiet_fits wf f hfl hsrc hrow m hq
    · exact pawnEp_fits wf f hfl hsrc m he
    · refine pawnCaps_fits wf f hfl hsrc hrow (fun m' hm'' => hmem m' ?_) m hcp
      unfold generateMoves
      simp only [List.mem_append, List.mem_flatMap]
      refine Or.inl (Or.inl (Or.inl (Or.inl (Or.inl (Or.inl ⟨f, by rw [hpw]; exact hf, ?_⟩)))))
      unfold pawnMoves; simp only [List.mem_append]; exact Or.inr hm''
  · exact castlingMoves_fits wf all m hc
  · refine pieceMoves_fits wf all _ (hown WN (by omega)) (hnp WN (by omega)) _ (fun m' hm'' => hmem m' ?_) m hn
    unfold generateMoves; simp only [List.mem_append]
    exact Or.inl (Or.inl (Or.inl (Or.inl (Or.inr hm''))))
  · refine pieceMoves_fits wf all _ (hown WB (by omega)) (hnp WB (by omega)) _ (fun m' hm'' => hmem m' ?_) m hb
    unfold generateMoves; simp only [List.mem_append]
    exact Or.inl (Or.inl (Or.inl (Or.inr hm'')))
  · refine pieceMoves_fits wf all _ (hown WR (by omega)) (hnp WR (by omega)) _ (fun m' hm'' => hmem m' ?_) m hr
    unfold generateMoves; simp only [List.mem_append]
    exact Or.inl (Or.inl (Or.inr hm''))
  · refine pieceMoves_fits wf all _ (hown WQ (by omega)) (hnp WQ (by omega)) _ (fun m' hm'' => hmem m' ?_) m hq
    unfold generateMoves; simp only [List.mem_append]
    exact Or.inl (Or.inr hm'')
  · refine pieceMoves_fits wf all _ (hown WK (by omega)) (hnp WK (by omega)) _ (fun m' hm'' => hmem m' ?_) m hkg
    unfold generateMoves; simp only [List.mem_append]
    exact Or.inr hm''

end Jence
