/-
  After a move that `make_search_move` accepts (the mover's king is not attacked in the position before the check test),
  no generated capture of the new position aims at that king. This removes the "no king capture" hypothesis from the
  history theorems: it is preserved along every history.
-/
import Jence.Lemmas.AttackSym
import Jence.Lemmas.History
namespace Jence
open Jence

/-- the attack set of piece `X` standing on `f`, as the generator and `is_square_attacked` look it up -/
def attacksOf (occ : UInt64) (X f : Nat) : UInt64 :=
  if X = WP then getPawnAttacks f true else if X = BP then getPawnAttacks f false
  else if X = WN ∨ X = BN then getKnightAttacks f else if X = WB ∨ X = BB then getBishopAttacks f occ
  else if X = WR ∨ X = BR then getRookAttacks f occ else if X = WQ ∨ X = BQ then getQueenAttacks f occ
  else getKingAttacks f

theorem attacksOf_table (occ : UInt64) (f : Nat) :
    attacksOf occ 0 f = getPawnAttacks f true ∧ attacksOf occ 6 f = getPawnAttacks f false ∧
    attacksOf occ 1 f = getKnightAttacks f ∧ attacksOf occ 7 f = getKnightAttacks f ∧
    attacksOf occ 2 f = getBishopAttacks f occ ∧ attacksOf occ 8 f = getBishopAttacks f occ ∧
    attacksOf occ 3 f = getRookAttacks f occ ∧ attacksOf occ 9 f = getRookAttacks f occ ∧
    attacksOf occ 4 f = getQueenAttacks f occ ∧ attacksOf occ 10 f = getQueenAttacks f occ ∧
    attacksOf occ 5 f = getKingAttacks f ∧ attacksOf occ 11 f = getKingAttacks f := by
  unfold attacksOf
  refine ⟨?_, ?_, ?_, ?_, ?_, ?_, ?_, ?_, ?_, ?_, ?_, ?_⟩
  · rw [if_pos (by decide)]
  · rw [if_neg (by decide), if_pos (by decide)]
  · rw [if_neg (by decide), if_neg (by decide), if_pos (by decide)]
  · rw [if_neg (by decide), if_neg (by decide), if_pos (by decide)]
  · rw [if_neg (by decide), if_neg (by decide), if_neg (by decide), if_pos (by decide)]
  · rw [if_neg (by decide), if_neg (by decide), if_neg (by decide), if_pos (by decide)]
  · rw [if_neg (by decide), if_neg (by decide), if_neg (by decide), if_neg (by decide), if_pos (by decide)]
  · rw [if_neg (by decide), if_neg (by decide), if_neg (by decide), if_neg (by decide), if_pos (by decide)]
  · rw [if_neg (by decide), if_neg (by decide), if_neg (by decide), if_neg (by decide), if_neg (by decide), if_pos (by decide)]
  · rw [if_neg (by decide), if_neg (by decide), if_neg (by decide), if_neg (by decide), if_neg (by decide), if_pos (by decide)]
  · rw [if_neg (by decide), if_neg (by decide), if_neg (by decide), if_neg (by decide), if_neg (by decide), if_neg (by decide)]
  · rw [if_neg (by decide), if_neg (by decide), if_neg (by decide), if_neg (by decide), if_neg (by decide), if_neg (by decide)]

theorem not_isEmpty_of_common (a b : UInt64) (t : Nat) (ht : t < 64) (ha : getBit a t = true) (hb : getBit b t = true) :
    (!isEmpty (a &&& b)) = true := by
  cases h : isEmpty (a &&& b)
  · rfl
  · have h0 : a &&& b = 0 := by simpa [isEmpty] using h
    have := getBit_and a b t ht
    rw [h0, getBit_zero t ht, ha, hb] at this
    exact absurd this (by simp)

/-- the reverse lookup finds every attacker: if piece `X` of colour `byWhite` stands on `f` and its attack set contains
    `sq`, then `is_square_attacked(sq, byWhite)` -/
theorem attacked_of_attacker (g : Game) (sq f X : Nat) (hsq : sq < 64) (hf : f < 64) (byWhite : Bool)
    (hX : ownP byWhite X) (hbit : getBit (g.bb X) f = true) (hatt : getBit (attacksOf g.allOcc X f) sq = true) :
    isSquareAttacked g sq byWhite = true := by
  have hWP : WP = 0 := rfl
  have hWN : WN = 1 := rfl
  have hWB : WB = 2 := rfl
  have hWR : WR = 3 := rfl
  have hWQ : WQ = 4 := rfl
  have hWK : WK = 5 := rfl
  have hBP : BP = 6 := rfl
  have hBN : BN = 7 := rfl
  have hBB : BB = 8 := rfl
  have hBR : BR = 9 := rfl
  have hBQ : BQ = 10 := rfl
  have hBK : BK = 11 := rfl
  obtain ⟨sN, sK, sP⟩ := leapers_symm f hf sq hsq
  unfold isSquareAttacked
  unfold ownP at hX
  cases byWhite
  · -- attacked by Black
    simp only [Bool.false_eq_true, if_false] at hX ⊢
    simp only [Bool.or_eq_true]
    unfold attacksOf at hatt
    have hX' : X = 6 ∨ X = 7 ∨ X = 8 ∨ X = 9 ∨ X = 10 ∨ X = 11 := by omega
    rcases hX' with h | h | h | h | h | h <;> subst h
    · rw [if_neg (by omega), if_pos (by omega)] at hatt
      have := (leapers_symm sq hsq f hf).2.2
      exact Or.inl (Or.inl (Or.inl (Or.inl (Or.inl (not_isEmpty_of_common _ _ f hf (by rw [this]; exact hatt) hbit)))))
    · rw [if_neg (by omega), if_neg (by omega), if_pos (by omega)] at hatt
      exact Or.inl (Or.inl (Or.inl (Or.inl (Or.inr (not_isEmpty_of_common _ _ f hf (by rw [← sN]; exact hatt) hbit)))))
    · rw [if_neg (by omega), if_neg (by omega), if_neg (by omega), if_pos (by omega)] at hatt
      exact Or.inl (Or.inr (not_isEmpty_of_common _ _ f hf (bishopAttacks_symm f sq hf hsq _ hatt) hbit))
    · rw [if_neg (by omega), if_neg (by omega), if_neg (by omega), if_neg (by omega), if_pos (by omega)] at hatt
      exact Or.inl (Or.inl (Or.inr (not_isEmpty_of_common _ _ f hf (rookAttacks_symm f sq hf hsq _ hatt) hbit)))
    · rw [if_neg (by omega), if_neg (by omega), if_neg (by omega), if_neg (by omega), if_neg (by omega), if_pos (by omega)] at hatt
      exact Or.inr (not_isEmpty_of_common _ _ f hf (queenAttacks_symm f sq hf hsq _ hatt) hbit)
    · rw [if_neg (by omega), if_neg (by omega), if_neg (by omega), if_neg (by omega), if_neg (by omega), if_neg (by omega)] at hatt
      exact Or.inl (Or.inl (Or.inl (Or.inr (not_isEmpty_of_common _ _ f hf (by rw [← sK]; exact hatt) hbit))))
  · simp only [if_true] at hX ⊢
    simp only [Bool.or_eq_true]
    unfold attacksOf at hatt
    have hX' : X = 0 ∨ X = 1 ∨ X = 2 ∨ X = 3 ∨ X = 4 ∨ X = 5 := by omega
    rcases hX' with h | h | h | h | h | h <;> subst h
    · rw [if_pos (by omega)] at hatt
      exact Or.inl (Or.inl (Or.inl (Or.inl (Or.inl (not_isEmpty_of_common _ _ f hf (by rw [← sP]; exact hatt) hbit)))))
    · rw [if_neg (by omega), if_neg (by omega), if_pos (by omega)] at hatt
      exact Or.inl (Or.inl (Or.inl (Or.inl (Or.inr (not_isEmpty_of_common _ _ f hf (by rw [← sN]; exact hatt) hbit)))))
    · rw [if_neg (by omega), if_neg (by omega), if_neg (by omega), if_pos (by omega)] at hatt
      exact Or.inl (Or.inr (not_isEmpty_of_common _ _ f hf (bishopAttacks_symm f sq hf hsq _ hatt) hbit))
    · rw [if_neg (by omega), if_neg (by omega), if_neg (by omega), if_neg (by omega), if_pos (by omega)] at hatt
      exact Or.inl (Or.inl (Or.inr (not_isEmpty_of_common _ _ f hf (rookAttacks_symm f sq hf hsq _ hatt) hbit)))
    · rw [if_neg (by omega), if_neg (by omega), if_neg (by omega), if_neg (by omega), if_neg (by omega), if_pos (by omega)] at hatt
      exact Or.inr (not_isEmpty_of_common _ _ f hf (queenAttacks_symm f sq hf hsq _ hatt) hbit)
    · rw [if_neg (by omega), if_neg (by omega), if_neg (by omega), if_neg (by omega), if_neg (by omega), if_neg (by omega)] at hatt
      exact Or.inl (Or.inl (Or.inl (Or.inr (not_isEmpty_of_common _ _ f hf (by rw [← sK]; exact hatt) hbit))))

/-- where a generated capture comes from: a piece of the side to move whose attack set holds the target square -/
theorem capture_source (g : Game) (hep : g.ep ≤ 64) (m : Move) (hm : m ∈ generateMoves g true) (hc : m.isCapture = true) :
    (m.toSq = g.ep ∧ g.ep < 64) ∨
    ∃ X f, ownP g.white X ∧ f < 64 ∧ getBit (g.bb X) f = true ∧ getBit (attacksOf g.allOcc X f) m.toSq = true := by
  have hWP : WP = 0 := rfl
  have hWN : WN = 1 := rfl
  have hWB : WB = 2 := rfl
  have hWR : WR = 3 := rfl
  have hWQ : WQ = 4 := rfl
  have hWK : WK = 5 := rfl
  have hBP : BP = 6 := rfl
  have hBN : BN = 7 := rfl
  have hBB : BB = 8 := rfl
  have hBR : BR = 9 := rfl
  have hBQ : BQ = 10 := rfl
  have hBK : BK = 11 := rfl
  -- captures of one non-pawn kind
  have piece : ∀ (X : Nat) (att : Nat → UInt64), ownP g.white X → (∀ f, att f = attacksOf g.allOcc X f) →
      m ∈ pieceMoves g true X att →
      (m.toSq = g.ep ∧ g.ep < 64) ∨
      ∃ X f, ownP g.white X ∧ f < 64 ∧ getBit (g.bb X) f = true ∧ getBit (attacksOf g.allOcc X f) m.toSq = true := by
    intro X att hX hatt hmem
    unfold pieceMoves at hmem
    simp only [List.mem_flatMap, List.mem_append, if_true] at hmem
    obtain ⟨f, hf, hmem⟩ := hmem
    obtain ⟨hfl, hfb⟩ := (mem_bitsOf _ _).1 hf
    have hX16 : X < 16 := by have := ownP_lt hX; omega
    rcases hmem with hq | hcm
    · rw [List.mem_map] at hq
      obtain ⟨t, ht, rfl⟩ := hq
      obtain ⟨htl, _⟩ := (mem_bitsOf _ _).1 ht
      obtain ⟨_, _, _, _, e5, _, _, _⟩ := mk_fields f t X PNONE false false false false hfl htl hX16 (by decide)
      rw [e5] at hc; exact absurd hc (by simp)
    · rw [List.mem_map] at hcm
      obtain ⟨t, ht, rfl⟩ := hcm
      obtain ⟨htl, hbit⟩ := (mem_bitsOf _ _).1 ht
      rw [getBit_and _ _ _ htl] at hbit
      simp only [Bool.and_eq_true] at hbit
      obtain ⟨_, e2, _, _, _, _, _, _⟩ := mk_fields f t X PNONE true false false false hfl htl hX16 (by decide)
      exact Or.inr ⟨X, f, hX, hfl, hfb, by rw [e2, ← hatt]; exact hbit.1⟩
  have hm' := hm
  unfold generateMoves at hm'
  simp only [List.mem_append] at hm'
  have hown : ∀ q, q < 6 → ownP g.white (q + (if g.white then 0 else 6)) := by
    intro q hq; unfold ownP; cases g.white <;> simp <;> omega
  rcases hm' with (((((hp | hcs) | hn) | hb) | hr) | hq) | hkg
  · -- pawns
    rw [List.mem_flatMap] at hp
    obtain ⟨f, hf, hp⟩ := hp
    have hpw : WP + (if g.white then 0 else 6) = (if g.white then WP else BP) := by cases g.white <;> rfl
    rw [hpw] at hf
    obtain ⟨hfl, hfb⟩ := (mem_bitsOf _ _).1 hf
    unfold pawnMoves at hp
    simp only [List.mem_append, if_true] at hp
    rcases hp with (hq | hee) | hcp
    · have := Props.C01.pawnQuiet_quiet g f (by omega) m hq
      rw [this] at hc; exact absurd hc (by simp)
    · unfold pawnEp at hee
      simp only at hee
      split at hee
      · simp only [List.mem_singleton] at hee
        have hepl : g.ep < 64 := by
          rename_i hcnd; simp only [Bool.and_eq_true] at hcnd
          have : g.ep ≠ 64 := by simpa using hcnd.1
          omega
        obtain ⟨_, e2, _, _, _, _, _, _⟩ := mk_fields f g.ep (if g.white then WP else BP) PNONE true false true false hfl hepl
          (by cases g.white <;> decide) (by decide)
        exact Or.inl ⟨by rw [hee, e2], hepl⟩
      · exact absurd hee (by simp)
    · unfold pawnCaps at hcp
      simp only [List.mem_flatMap] at hcp
      obtain ⟨t, ht, hcp⟩ := hcp
      obtain ⟨htl, hbit⟩ := (mem_bitsOf _ _).1 ht
      rw [getBit_and _ _ _ htl] at hbit
      simp only [Bool.and_eq_true] at hbit
      have hX : ownP g.white (if g.white then WP else BP) := by unfold ownP; cases g.white <;> decide
      have hatt : getBit (attacksOf g.allOcc (if g.white then WP else BP) f) t = true := by
        obtain ⟨a0, a6, _⟩ := attacksOf_table g.allOcc f
        cases hw : g.white
        · rw [hw] at hbit; simp only [Bool.false_eq_true, if_false]; rw [hBP, a6]; exact hbit.1
        · rw [hw] at hbit; simp only [if_true]; rw [hWP, a0]; exact hbit.1
      have hto : m.toSq = t := by
        by_cases hlast : (if g.white = true then t ≥ 8 else t ≤ 55)
        · rw [if_pos hlast] at hcp
          simp only [List.mem_singleton] at hcp
          rw [hcp]; exact (mk_fields f t _ PNONE true false false false hfl htl (by cases g.white <;> decide) (by decide)).2.1
        · rw [if_neg hlast, List.mem_map] at hcp
          obtain ⟨p, hp, rfl⟩ := hcp
          have hp16 : p < 16 := by
            unfold promos at hp
            cases hw : g.white <;> rw [hw] at hp <;> simp at hp <;> rcases hp with h | h | h | h <;> subst h <;> decide
          exact (mk_fields f t _ p true false false false hfl htl (by cases g.white <;> decide) hp16).2.1
      exact Or.inr ⟨_, f, hX, hfl, hfb, by rw [hto]; exact hatt⟩
  · have := Props.C01.castling_shape g true m hcs
    unfold castlingMoves at hcs
    exfalso
    have hnc : m.isCapture = false := by
      simp only [Bool.not_true, Bool.false_eq_true, if_false] at hcs
      split at hcs
      · simp only [List.mem_append] at hcs
        rcases hcs with h | h <;> split at h <;> first
          | (simp only [List.mem_singleton] at h; rw [h]; exact (mk_fields _ _ _ _ _ _ _ _ (by decide) (by decide) (by decide) (by decide)).2.2.2.2.1)
          | exact absurd h (by simp)
      · simp only [List.mem_append] at hcs
        rcases hcs with h | h <;> split at h <;> first
          | (simp only [List.mem_singleton] at h; rw [h]; exact (mk_fields _ _ _ _ _ _ _ _ (by decide) (by decide) (by decide) (by decide)).2.2.2.2.1)
          | exact absurd h (by simp)
    rw [hnc] at hc; exact absurd hc (by simp)
  · refine piece _ _ (hown WN (by omega)) (fun f => ?_) hn
    obtain ⟨t0, t6, t1, t7, t2, t8, t3, t9, t4, t10, t5, t11⟩ := attacksOf_table g.allOcc f
    cases g.white
    · simp only [Bool.false_eq_true, if_false]; rw [show WN + 6 = 7 from rfl, t7]
    · simp only [if_true]; rw [show WN + 0 = 1 from rfl, t1]
  · refine piece _ _ (hown WB (by omega)) (fun f => ?_) hb
    obtain ⟨t0, t6, t1, t7, t2, t8, t3, t9, t4, t10, t5, t11⟩ := attacksOf_table g.allOcc f
    cases g.white
    · simp only [Bool.false_eq_true, if_false]; rw [show WB + 6 = 8 from rfl, t8]
    · simp only [if_true]; rw [show WB + 0 = 2 from rfl, t2]
  · refine piece _ _ (hown WR (by omega)) (fun f => ?_) hr
    obtain ⟨t0, t6, t1, t7, t2, t8, t3, t9, t4, t10, t5, t11⟩ := attacksOf_table g.allOcc f
    cases g.white
    · simp only [Bool.false_eq_true, if_false]; rw [show WR + 6 = 9 from rfl, t9]
    · simp only [if_true]; rw [show WR + 0 = 3 from rfl, t3]
  · refine piece _ _ (hown WQ (by omega)) (fun f => ?_) hq
    obtain ⟨t0, t6, t1, t7, t2, t8, t3, t9, t4, t10, t5, t11⟩ := attacksOf_table g.allOcc f
    cases g.white
    · simp only [Bool.false_eq_true, if_false]; rw [show WQ + 6 = 10 from rfl, t10]
    · simp only [if_true]; rw [show WQ + 0 = 4 from rfl, t4]
  · refine piece _ _ (hown WK (by omega)) (fun f => ?_) hkg
    obtain ⟨t0, t6, t1, t7, t2, t8, t3, t9, t4, t10, t5, t11⟩ := attacksOf_table g.allOcc f
    cases g.white
    · simp only [Bool.false_eq_true, if_false]; rw [show WK + 6 = 11 from rfl, t11]
    · simp only [if_true]; rw [show WK + 0 = 5 from rfl, t5]

theorem tzcnt_single (x : UInt64) (k : Nat) (hk : k < 64) (hset : getBit x k = true)
    (huniq : ∀ t, t < 64 → getBit x t = true → t = k) : tzcnt x = k := by
  have hx : (x == 0) = false := by
    cases h : x == 0
    · rfl
    · have : x = 0 := eq_zero_of_beq x h
      rw [this, getBit_zero k hk] at hset; exact absurd hset (by simp)
  exact huniq _ (tzcnt_lt x hx) (getBit_tzcnt x hx).1

/-- the rook's home square is a dead end seen from the king's castling target: the next square on any line through it
    is off the board -/
theorem castle_dead_end : ∀ p ∈ [((62 : Nat), (63 : Nat)), (58, 56), (6, 7), (2, 0)], ∀ d ∈ Spec.rookDirs ++ Spec.bishopDirs, ∀ i, i < 7 →
    Spec.onBoard (Spec.fileOf p.1 + ((i + 1 : Nat) : Int) * d.1) (Spec.rowOf p.1 + ((i + 1 : Nat) : Int) * d.2) = true →
    Spec.sqOf (Spec.fileOf p.1 + ((i + 1 : Nat) : Int) * d.1) (Spec.rowOf p.1 + ((i + 1 : Nat) : Int) * d.2) = p.2 →
    Spec.onBoard (Spec.fileOf p.1 + ((i + 1 + 1 : Nat) : Int) * d.1) (Spec.rowOf p.1 + ((i + 1 + 1 : Nat) : Int) * d.2) = false := by
  decide

/-- sliding from the king's castling target `k`: what is reached with the rook hopped (`occ'`) is reached with the rook
    still at home (`occ1`), except the rook squares themselves -/
theorem slide_castle (occ1 occ' : UInt64) (k rf rt : Nat) (dirs : List (Int × Int))
    (hdirs : ∀ d ∈ dirs, d ∈ Spec.rookDirs ++ Spec.bishopDirs)
    (hp : (k, rf) ∈ [((62 : Nat), (63 : Nat)), (58, 56), (6, 7), (2, 0)])
    (hsame : ∀ t, t < 64 → t ≠ rf → t ≠ rt → getBit occ' t = getBit occ1 t) (hrt : getBit occ1 rt = false)
    (f : Nat) (h : f ∈ Spec.slide (getBit occ') k dirs) : f ∈ Spec.slide (getBit occ1) k dirs := by
  simp only [Spec.slide, List.mem_flatMap] at h ⊢
  obtain ⟨d, hd, h⟩ := h
  refine ⟨d, hd, ?_⟩
  rw [mem_walk] at h ⊢
  obtain ⟨j, hj, hon, hoc, hf⟩ := h
  refine ⟨j, hj, hon, ?_, hf⟩
  intro i hi
  have hb := hon i (by omega)
  have hlt : Spec.sqOf (Spec.fileOf k + ((i + 1 : Nat) : Int) * d.1) (Spec.rowOf k + ((i + 1 : Nat) : Int) * d.2) < 64 := by
    simp only [Spec.onBoard, Bool.and_eq_true, decide_eq_true_eq] at hb
    unfold Spec.sqOf; omega
  by_cases h1 : Spec.sqOf (Spec.fileOf k + ((i + 1 : Nat) : Int) * d.1) (Spec.rowOf k + ((i + 1 : Nat) : Int) * d.2) = rf
  · have := castle_dead_end (k, rf) hp d (hdirs d hd) i (by omega) hb h1
    rw [hon (i + 1) (by omega)] at this; exact absurd this (by simp)
  · by_cases h2 : Spec.sqOf (Spec.fileOf k + ((i + 1 : Nat) : Int) * d.1) (Spec.rowOf k + ((i + 1 : Nat) : Int) * d.2) = rt
    · rw [h2]; exact hrt
    · rw [← hsame _ hlt h1 h2]; exact hoc i hi

theorem rook_mem (s t : Nat) (hs : s < 64) (ht : t < 64) (occ : UInt64) :
    getBit (getRookAttacks s occ) t = true ↔ t ∈ Spec.slide (getBit occ) s Spec.rookDirs := by
  rw [getRookAttacks_eq s hs, rookOnTheFly_eq_slide s hs]
  unfold Spec.slideRook
  rw [getBit_toBits _ _ (slide_lt _ _ _) ht]; simp

theorem bishop_mem (s t : Nat) (hs : s < 64) (ht : t < 64) (occ : UInt64) :
    getBit (getBishopAttacks s occ) t = true ↔ t ∈ Spec.slide (getBit occ) s Spec.bishopDirs := by
  rw [getBishopAttacks_eq s hs, bishopOnTheFly_eq_slide s hs]
  unfold Spec.slideBishop
  rw [getBit_toBits _ _ (slide_lt _ _ _) ht]; simp

/-- attacks on the king's castling target: nothing new appears when the rook hops -/
theorem attacks_castle (occ1 occ' : UInt64) (k rf rt f X : Nat) (hk : k < 64) (hf : f < 64)
    (hp : (k, rf) ∈ [((62 : Nat), (63 : Nat)), (58, 56), (6, 7), (2, 0)])
    (hsame : ∀ t, t < 64 → t ≠ rf → t ≠ rt → getBit occ' t = getBit occ1 t) (hrt : getBit occ1 rt = false)
    (h : getBit (attacksOf occ' X f) k = true) : getBit (attacksOf occ1 X f) k = true := by
  have rook : getBit (getRookAttacks f occ') k = true → getBit (getRookAttacks f occ1) k = true := by
    intro h
    have h1 := rookAttacks_symm f k hf hk occ' h
    rw [rook_mem k f hk hf] at h1
    have h2 := slide_castle occ1 occ' k rf rt Spec.rookDirs (fun d hd => List.mem_append_left _ hd) hp hsame hrt f h1
    rw [← rook_mem k f hk hf] at h2
    exact rookAttacks_symm k f hk hf occ1 h2
  have bishop : getBit (getBishopAttacks f occ') k = true → getBit (getBishopAttacks f occ1) k = true := by
    intro h
    have h1 := bishopAttacks_symm f k hf hk occ' h
    rw [bishop_mem k f hk hf] at h1
    have h2 := slide_castle occ1 occ' k rf rt Spec.bishopDirs (fun d hd => List.mem_append_right _ hd) hp hsame hrt f h1
    rw [← bishop_mem k f hk hf] at h2
    exact bishopAttacks_symm k f hk hf occ1 h2
  unfold attacksOf at h ⊢
  split
  · rename_i hx; rw [if_pos hx] at h; exact h
  · rename_i hx; rw [if_neg hx] at h
    split
    · rename_i hx2; rw [if_pos hx2] at h; exact h
    · rename_i hx2; rw [if_neg hx2] at h
      split
      · rename_i hx3; rw [if_pos hx3] at h; exact h
      · rename_i hx3; rw [if_neg hx3] at h
        split
        · rename_i hx4; rw [if_pos hx4] at h; exact bishop h
        · rename_i hx4; rw [if_neg hx4] at h
          split
          · rename_i hx5; rw [if_pos hx5] at h; exact rook h
          · rename_i hx5; rw [if_neg hx5] at h
            split
            · rename_i hx6; rw [if_pos hx6] at h
              unfold getQueenAttacks at h ⊢
              rw [getBit_or _ _ _ hk] at h ⊢
              simp only [Bool.or_eq_true] at h ⊢
              rcases h with h | h
              · exact Or.inl (rook h)
              · exact Or.inr (bishop h)
            · rename_i hx6; rw [if_neg hx6] at h; exact h

/-- the board `make_search_move` tests for check on: piece moved, victim gone, promotion and rook hop still to come -/
def preBoard (b : Board) (w : Bool) (m : Move) : Board :=
  (if m.isEnpassant then (b.set m.fromSq none).set (vsq w m.toSq) none else b.set m.fromSq none).set m.toSq (some m.piece)

section prepost
variable {b : Board} {w : Bool} {m : Move}

theorem ownKing_own (w : Bool) : ownP w (if w then WK else BK) := by
  unfold ownP; cases w <;> decide

theorem preBoard_other (fits : MoveFits b w m) (s : Nat) (h1 : s ≠ m.toSq) (h2 : s ≠ m.fromSq)
    (h3 : m.isEnpassant = true → s ≠ vsq w m.toSq) : preBoard b w m s = b s := by
  unfold preBoard
  rw [Board.set_ne _ _ _ _ h1]
  split
  · rename_i he; rw [Board.set_ne _ _ _ _ (h3 he), Board.set_ne _ _ _ _ h2]
  · rw [Board.set_ne _ _ _ _ h2]

/-- an enemy piece or the mover's king on the final board stood there already when the check test ran -/
theorem post_to_pre (fits : MoveFits b w m) (s Y : Nat) (h : applyB b w m s = some Y)
    (hY : enemyP w Y ∨ Y = (if w then WK else BK)) : preBoard b w m s = some Y := by
  have hWK : WK = 5 := rfl
  have hBK : BK = 11 := rfl
  have hWR : WR = 3 := rfl
  have hBR : BR = 9 := rfl
  rcases applyB_at fits s with ⟨hs, hv⟩ | ⟨_, hv⟩ | ⟨_, _, hv⟩ | ⟨hcs, r, f, tt, hhop, hh⟩ | ⟨n1, n2, n3, _, hv⟩
  · rw [hv] at h; injection h with h
    rcases hY with hY | hY
    · rw [← h] at hY; exact absurd (landed_own fits) (fun ho => own_not_enemy ho hY)
    · have hpn : m.promotion = PNONE := by
        apply Classical.byContradiction
        intro hpr
        obtain ⟨_, _, _, p4, p5⟩ := fits.promoKind hpr
        unfold landed at h; rw [if_pos hpr] at h
        rw [hY] at h; cases w <;> simp at h <;> omega
      unfold landed at h; rw [if_neg (by simp [hpn])] at h
      rw [hs]; unfold preBoard; rw [Board.set_same, h]
  · rw [hv] at h; exact absurd h (by simp)
  · rw [hv] at h; exact absurd h (by simp)
  · rcases hh with ⟨_, hv⟩ | ⟨_, hv⟩
    · rw [hv] at h; exact absurd h (by simp)
    · rw [hv] at h; injection h with h
      obtain ⟨_, _, r', f', t', hhop', _, _, _, _, hro, _⟩ := fits.castle hcs
      rw [hhop] at hhop'; injection hhop' with e; injection e with e1 _
      subst e1
      rcases hY with hY | hY
      · rw [← h] at hY; exact absurd hro (fun ho => own_not_enemy ho hY)
      · rcases rookHop_rook _ _ _ _ hhop with hr | hr <;> rw [hr] at h <;> rw [hY] at h <;> cases w <;> simp at h <;> omega
  · rw [preBoard_other fits s n1 n2 n3, ← hv]; exact h

/-- the mover's king on the tested board is on the final board -/
theorem pre_to_post_king (fits : MoveFits b w m) (t : Nat) (h : preBoard b w m t = some (if w then WK else BK)) :
    applyB b w m t = some (if w then WK else BK) := by
  have hWK : WK = 5 := rfl
  have hBK : BK = 11 := rfl
  have hWR : WR = 3 := rfl
  have hBR : BR = 9 := rfl
  have hWP : WP = 0 := rfl
  have hBP : BP = 6 := rfl
  by_cases h1 : t = m.toSq
  · subst h1
    unfold preBoard at h; rw [Board.set_same] at h; injection h with h
    have hpn : m.promotion = PNONE := by
      apply Classical.byContradiction
      intro hpr
      have := (fits.promoKind hpr).1
      rw [h] at this; cases w <;> simp at this <;> omega
    rw [applyB_to fits]; unfold landed; rw [if_neg (by simp [hpn]), h]
  · have hpre : preBoard b w m t = (if m.isEnpassant then (b.set m.fromSq none).set (vsq w m.toSq) none else b.set m.fromSq none) t := by
      unfold preBoard; rw [Board.set_ne _ _ _ _ h1]
    rw [hpre] at h
    rcases applyB_at fits t with ⟨hs, _⟩ | ⟨hs, _⟩ | ⟨he, hs, _⟩ | ⟨hcs, r, f, tt, hhop, hh⟩ | ⟨_, _, _, _, hv⟩
    · exact absurd hs h1
    · exfalso
      rw [hs] at h
      split at h
      · rename_i he
        obtain ⟨_, v2, _, _⟩ := fits.vsq_facts he
        rw [Board.set_ne _ _ _ _ (fun h' => v2 h'.symm), Board.set_same] at h; exact absurd h (by simp)
      · rw [Board.set_same] at h; exact absurd h (by simp)
    · exfalso
      rw [if_pos he, hs, Board.set_same] at h; exact absurd h (by simp)
    · exfalso
      obtain ⟨_, hc, r', f', t', hhop', hbf, hbt, hff, hft, _, _⟩ := fits.castle hcs
      rw [hhop] at hhop'; injection hhop' with e; injection e with e1 e2; injection e2 with e2 e3
      subst e1; subst e2; subst e3
      have hef := fits.ep_cap hc
      rw [hef] at h; simp only [Bool.false_eq_true, if_false] at h
      rcases hh with ⟨hs, _⟩ | ⟨hs, _⟩
      · rw [hs, Board.set_ne _ _ _ _ (fun h' => hff h'.symm), hbf] at h; injection h with h
        rcases rookHop_rook _ _ _ _ hhop with hr | hr <;> rw [hr] at h <;> cases w <;> simp at h <;> omega
      · rw [hs, Board.set_ne _ _ _ _ (fun h' => hft h'.symm), hbt] at h; exact absurd h (by simp)
    · rw [hv]
      by_cases h2 : t = m.fromSq
      · exfalso
        rw [h2] at h
        split at h
        · rename_i he
          obtain ⟨_, v2, _, _⟩ := fits.vsq_facts he
          rw [Board.set_ne _ _ _ _ (fun h' => v2 h'.symm), Board.set_same] at h; exact absurd h (by simp)
        · rw [Board.set_same] at h; exact absurd h (by simp)
      · split at h
        · rename_i he
          by_cases h3 : t = vsq w m.toSq
          · rw [h3, Board.set_same] at h; exact absurd h (by simp)
          · rw [Board.set_ne _ _ _ _ h3, Board.set_ne _ _ _ _ h2] at h; exact h
        · rw [Board.set_ne _ _ _ _ h2] at h; exact h

end prepost

theorem makePre_rep' (g : Game) (m : Move) (b : Board) (h : Rep g.bbs b none) (fits : MoveFits b g.white m) :
    Rep (makePre g m).bbs (preBoard b g.white m) none := makePre_rep g m b h fits

theorem rookHop_pairs (to r f t : Nat) (h : rookHop to = some (r, f, t)) :
    (to, f) ∈ [((62 : Nat), (63 : Nat)), (58, 56), (6, 7), (2, 0)] := by
  unfold rookHop at h
  split at h
  · rename_i h'; injection h with h; injection h with _ e2; injection e2 with e2 _; rw [h', ← e2]; simp
  · split at h
    · rename_i h'; injection h with h; injection h with _ e2; injection e2 with e2 _; rw [h', ← e2]; simp
    · split at h
      · rename_i h'; injection h with h; injection h with _ e2; injection e2 with e2 _; rw [h', ← e2]; simp
      · split at h
        · rename_i h'; injection h with h; injection h with _ e2; injection e2 with e2 _; rw [h', ← e2]; simp
        · exact absurd h (by simp)

/-- **after an accepted move no generated capture aims at the mover's king** -/
theorem makeCore_nk (g g' : Game) (m : Move) (b : Board) (wf : Wf g b) (fits : MoveFits b g.white m)
    (hmk : makeCore g m = some g') : NoKingCapture g' := by
  have wf' := makeCore_wf g g' m b wf fits hmk
  obtain ⟨fw, _, _⟩ := makeCore_fields g g' m hmk
  have hmk0 := hmk
  unfold makeCore at hmk
  simp only at hmk
  split at hmk
  · exact absurd hmk (by simp)
  rename_i hcheck
  injection hmk with hmk
  have hpre := makePre_rep' g m b wf.rep fits
  obtain ⟨pw, _, _, pall⟩ := makePre_occ g m
  generalize hw : g.white = w at *
  have hK12 : (if w then WK else BK) < 12 := by cases w <;> decide
  intro m' hm' hc
  rw [fw]
  have hKeq : (if (!w) = true then BK else WK) = (if w then WK else BK) := by cases w <;> rfl
  rw [hKeq]
  cases hbitK : getBit (g'.bb (if w then WK else BK)) m'.toSq
  · rfl
  exfalso
  have hk := m'.toSq_lt
  -- the king stands on the target square
  have hbK : applyB b w m m'.toSq = some (if w then WK else BK) := by
    have := rep_bit g'.bbs _ wf'.rep _ m'.toSq hK12 hk
    unfold Game.bb at hbitK; rw [hbitK] at this; simpa using this.symm
  rcases capture_source g' wf'.ok.epLe m' hm' hc with ⟨he1, he2⟩ | ⟨X, f, hX, hf, hXbit, hatt⟩
  · -- en passant: the target square is empty
    have := (wf'.ok.epOk (by omega)).1
    rw [← he1, hbK] at this; exact absurd this (by simp)
  rw [fw] at hX
  have hXen : enemyP w X := by unfold ownP at hX; unfold enemyP; cases w <;> simpa using hX
  have hX12 := ownP_lt hX
  -- the attacker and the king were there when the check test ran
  have hbX : applyB b w m f = some X := by
    have := rep_bit g'.bbs _ wf'.rep X f hX12 hf
    unfold Game.bb at hXbit; rw [hXbit] at this; simpa using this.symm
  have h1X := post_to_pre fits f X hbX (Or.inl hXen)
  have h1K := post_to_pre fits m'.toSq _ hbK (Or.inr rfl)
  have bit1 : ∀ q t, q < 12 → t < 64 → getBit ((makePre g m).bb q) t = decide (preBoard b w m t = some q) :=
    fun q t hq ht => rep_bit _ _ hpre q t hq ht
  have hXbit1 : getBit ((makePre g m).bb X) f = true := by rw [bit1 X f hX12 hf, h1X]; simp
  have hKbit1 : getBit ((makePre g m).bb (if w then WK else BK)) m'.toSq = true := by rw [bit1 _ _ hK12 hk, h1K]; simp
  have hKuniq : ∀ t, t < 64 → getBit ((makePre g m).bb (if w then WK else BK)) t = true → t = m'.toSq := by
    intro t ht hb
    rw [bit1 _ t hK12 ht] at hb
    have hb' := pre_to_post_king fits t (by simpa using hb)
    cases w
    · obtain ⟨k, _, _, hu⟩ := wf'.ok.bking
      exact (hu t ht hb').trans (hu _ hk hbK).symm
    · obtain ⟨k, _, _, hu⟩ := wf'.ok.wking
      exact (hu t ht hb').trans (hu _ hk hbK).symm
  have htz := tzcnt_single _ _ hk hKbit1 hKuniq
  -- the attack set, with the occupancy the check test saw
  have hatt1 : getBit (attacksOf (makePre g m).allOcc X f) m'.toSq = true := by
    by_cases hcs : m.isCastling = true
    · obtain ⟨hpn, hcq, r, rf, rt, hhop, hbf, hbt, hff, hft, hro, hpr⟩ := fits.castle hcs
      obtain ⟨_, _, q3⟩ := makePost_occ_castle (makePre g m) m hpn hcs r rf rt hhop
      obtain ⟨n1, n2, n3, _, hrfl, hrtl⟩ := rookHop_ne _ _ _ _ hhop
      -- the king is the piece that moved: it stands on the castling target
      have hkto : m'.toSq = m.toSq := by
        have hp := (fits.castleFrom hcs).2
        have hto : applyB b w m m.toSq = some (if w then WK else BK) := by
          rw [applyB_to fits]; unfold landed; rw [if_neg (by simp [hpn]), hp]
        cases w
        · obtain ⟨k, _, _, hu⟩ := wf'.ok.bking
          exact (hu _ hk hbK).trans (hu _ fits.toLt hto).symm
        · obtain ⟨k, _, _, hu⟩ := wf'.ok.wking
          exact (hu _ hk hbK).trans (hu _ fits.toLt hto).symm
      rw [← hmk, q3] at hatt
      rw [hkto] at hatt ⊢
      refine attacks_castle _ _ m.toSq rf rt f X fits.toLt hf (rookHop_pairs _ _ _ _ hhop) ?_ ?_ hatt
      · intro t ht h1 h2
        rw [getBit_unsetBit _ _ _ hrfl ht, getBit_setBit _ _ _ hrtl ht]
        have a1 : ¬ rt = t := fun h => h2 h.symm
        have a2 : rf ≠ t := fun h => h1 h.symm
        simp [a1, a2]
      · rw [pall, hcq]
        simp only [Bool.false_eq_true, if_false]
        rw [getBit_setBit _ _ _ fits.toLt hrtl, getBit_unsetBit _ _ _ fits.fromLt hrtl]
        have hocc := wf.occA rt hrtl
        rw [hbt] at hocc
        have a1 : ¬ m.toSq = rt := fun h => n2 h.symm
        simp [hocc, a1]
    · have hcf : m.isCastling = false := by simpa using hcs
      obtain ⟨_, _, q3⟩ := makePost_occ_plain (makePre g m) m (Or.inr hcf)
      rw [← hmk, q3] at hatt
      exact hatt
  -- so the check test would have fired
  have hatk := attacked_of_attacker (makePre g m) m'.toSq f X hk hf (!w) hX hXbit1 hatt1
  apply hcheck
  rw [pw]
  unfold isInCheck
  cases w
  · simp only [Bool.false_eq_true, if_false] at htz ⊢
    rw [htz]; exact hatk
  · simp only [if_true] at htz ⊢
    rw [htz]; exact hatk

/-- every move of the sequence is a generated move of the position it is made in -/
def GenPath : Game → List Move → Prop
  | _, [] => True
  | g, m :: ms => m ∈ generateMoves g true ∧ ∀ g', makeCore g m = some g' → GenPath g' ms

/-- **histories, with the hypothesis only at the root**: from a consistent position in which the side not to move is not
    in check, every sequence of generated moves that can be made ends in a consistent position (board = the rules' board
    after the moves), in which again no capture aims at a king, and whose key is the from-scratch key if the root's was -/
theorem history_wf_root (ms : List Move) : ∀ (g0 g : Game) (b0 : Board), Wf g0 b0 → NoKingCapture g0 → GenPath g0 ms →
    playAll g0 ms = some g →
    Wf g (boardAfter b0 g0.white ms) ∧ NoKingCapture g ∧ (g0.key = scratchKey g0 → g.key = scratchKey g) := by
  induction ms with
  | nil =>
    intro g0 g b0 wf nk _ hp
    simp only [playAll, Option.some.injEq] at hp
    subst hp
    exact ⟨wf, nk, fun h => h⟩
  | cons m ms ih =>
    intro g0 g b0 wf nk hg hp
    obtain ⟨hm, hrest⟩ := hg
    simp only [playAll] at hp
    cases hmk : makeCore g0 m with
    | none => rw [hmk] at hp; exact absurd hp (by simp)
    | some g1 =>
      rw [hmk] at hp
      simp only at hp
      have fits := gen_fits wf nk true m hm
      have wf1 := makeCore_wf g0 g1 m b0 wf fits hmk
      have nk1 := makeCore_nk g0 g1 m b0 wf fits hmk
      have hw1 := (makeCore_fields g0 g1 m hmk).1
      obtain ⟨r1, r2, r3⟩ := ih g1 g (applyB b0 g0.white m) wf1 nk1 (hrest g1 hmk) hp
      rw [hw1] at r1
      exact ⟨r1, r2, fun h0 => r3 (makeCore_wf_key g0 g1 m b0 wf fits h0 hmk)⟩

end Jence
