/-
  Executable forms of the forced-mate predicates of `Lemmas/ForcedMate` (`matesInB`, `matedInB`) and the proof that they
  decide them. The model driver evaluates them on the chess instance (`oracle forced`), and every run compares the result
  with the exhaustive mate search of the rules specification (`Spec.mateIn` / `Spec.matedWithin`) on the positions of C11:
  the predicates the theorems T11.2 / T11.3 speak about are thereby tied to the rules' notion of a forced mate.
-/
import Jence.Lemmas.ForcedMate
namespace Jence
open Jence

def matedB (R : Rules) (g : Game) : Bool :=
  R.inCheck g && (R.generate g true).all (fun m => (R.make g m).isNone)

mutual
  def matedInB (R : Rules) : Nat → Game → Bool
    | 0, g => matedB R g
    | n + 1, g => matedB R g ||
        ((R.generate g true).any (fun m => (R.make g m).isSome) &&
         (R.generate g true).all (fun m => match R.make g m with | none => true | some c => matesInB R n c))
  def matesInB (R : Rules) : Nat → Game → Bool
    | 0, _ => false
    | n + 1, g => (R.generate g true).any (fun m => match R.make g m with | none => false | some c => matedInB R n c)
end

theorem matedB_iff (R : Rules) (g : Game) : matedB R g = true ↔ Mated R g := by
  unfold matedB Mated
  simp only [Bool.and_eq_true, List.all_eq_true, Option.isNone_iff_eq_none]

theorem forced_dec (R : Rules) : ∀ n, (∀ g, matedInB R n g = true ↔ MatedIn R n g) ∧ (∀ g, matesInB R n g = true ↔ MatesIn R n g) := by
  intro n
  induction n with
  | zero =>
    refine ⟨fun g => ?_, fun g => ?_⟩
    · simp only [matedInB, MatedIn]; exact matedB_iff R g
    · simp [matesInB, MatesIn]
  | succ n ih =>
    refine ⟨fun g => ?_, fun g => ?_⟩
    · rw [matedInB, MatedIn]
      simp only [Bool.or_eq_true, Bool.and_eq_true, List.any_eq_true, List.all_eq_true, matedB_iff]
      constructor
      · rintro (h | ⟨⟨m, hm, hs⟩, hall⟩)
        · exact Or.inl h
        · refine Or.inr ⟨?_, fun m' hm' c hc => ?_⟩
          · obtain ⟨c, hc⟩ := Option.isSome_iff_exists.1 hs
            exact ⟨m, hm, c, hc⟩
          · have := hall m' hm'
            rw [hc] at this
            exact (ih.2 c).1 this
      · rintro (h | ⟨⟨m, hm, c, hc⟩, hall⟩)
        · exact Or.inl h
        · refine Or.inr ⟨⟨m, hm, by rw [hc]; rfl⟩, fun m' hm' => ?_⟩
          cases hc' : R.make g m' with
          | none => rfl
          | some c' => exact (ih.2 c').2 (hall m' hm' c' hc')
    · rw [matesInB, MatesIn]
      simp only [List.any_eq_true]
      constructor
      · rintro ⟨m, hm, h⟩
        cases hc : R.make g m with
        | none => rw [hc] at h; cases h
        | some c => rw [hc] at h; exact ⟨m, hm, c, hc, (ih.1 c).1 h⟩
      · rintro ⟨m, hm, c, hc, h⟩
        exact ⟨m, hm, by rw [hc]; exact (ih.1 c).2 h⟩

theorem matesInB_iff (R : Rules) (n : Nat) (g : Game) : matesInB R n g = true ↔ MatesIn R n g := (forced_dec R n).2 g
theorem matedInB_iff (R : Rules) (n : Nat) (g : Game) : matedInB R n g = true ↔ MatedIn R n g := (forced_dec R n).1 g

end Jence
