/-
  `make_search_move` refines the rules' `apply`: for a move that fits the board with truthful flags (every generated
  move), the position denoted by the engine's new position is `Spec.apply` of the position denoted by the old one.
-/
import Jence.Lemmas.AttackedRefine
import Jence.Lemmas.GenFlags
namespace Jence
open Jence

/-- the rules' move a move word denotes -/
def smove (m : Move) : Spec.SMove :=
  ⟨m.fromSq, m.toSq, if m.promotion = PNONE then none else some (Spec.kindOfIndex m.promotion)⟩

/-- the mailbox array `A` holds the board `bd` -/
def Holds (A : Array (Option Spec.Piece)) (bd : Board) : Prop :=
  A.size = 64 ∧ ∀ t, t < 64 → A.getD t none = (bd t).map pieceOf

theorem Holds.setSq {A : Array (Option Spec.Piece)} {bd : Board} (h : Holds A bd) (s : Nat) (hs : s < 64) (v : Option Nat) :
    Holds (Spec.setSq A s (v.map pieceOf)) (bd.set s v) := by
  obtain ⟨hsz, hg⟩ := h
  unfold Spec.setSq
  refine ⟨by rw [Array.size_setIfInBounds]; exact hsz, fun t ht => ?_⟩
  by_cases hts : t = s
  · subst hts; simp [Array.getD_eq_getD_getElem?, hsz, ht]
  · rw [Board.set_ne _ _ _ _ hts, ← hg t ht]
    have hst : ¬ s = t := fun h => hts h.symm
    simp [Array.getD_eq_getD_getElem?, Array.getElem?_setIfInBounds, hst]

theorem Holds.ext {A B : Array (Option Spec.Piece)} {bd : Board} (hA : Holds A bd) (hB : Holds B bd) : A = B := by
  apply Array.ext
  · rw [hA.1, hB.1]
  · intro i h1 h2
    have ha := hA.2 i (by rw [hA.1] at h1; exact h1)
    have hb := hB.2 i (by rw [hA.1] at h1; exact h1)
    simp only [Array.getD_eq_getD_getElem?, Array.getElem?_eq_getElem h1, Array.getElem?_eq_getElem h2, Option.getD_some] at ha hb
    rw [ha, hb]

theorem abs_holds {g : Game} {b : Board} (wf : Wf g b) : Holds (Spec.abs g).board b := by
  refine ⟨by simp [Spec.abs], fun t ht => ?_⟩
  exact abs_at wf t ht

theorem pieceOf_pawn : ∀ q, q < 12 → (((pieceOf q).kind == Spec.Kind.pawn) = true ↔ (q = WP ∨ q = BP)) := by decide
theorem pieceOf_king : ∀ q, q < 12 → (((pieceOf q).kind == Spec.Kind.king) = true ↔ (q = WK ∨ q = BK)) := by decide
theorem pieceOf_pawn' : ∀ q, q < 12 → ((pieceOf q).kind = Spec.Kind.pawn ↔ (q = WP ∨ q = BP)) := by decide
theorem pieceOf_king' : ∀ q, q < 12 → ((pieceOf q).kind = Spec.Kind.king ↔ (q = WK ∨ q = BK)) := by decide
theorem pieceOf_promo : ∀ q, q < 12 → ∀ p, p < 12 → (decide (p < 6) = decide (q < 6)) →
    pieceOf p = ⟨(pieceOf q).white, Spec.kindOfIndex p⟩ := by decide

theorem and1_bool (n : Nat) : (n &&& 1 != 0) = n.testBit 0 := by
  cases h : n.testBit 0
  · have : ¬ (n &&& 1 ≠ 0) := fun h' => by rw [and1] at h'; rw [h] at h'; exact absurd h' (by simp)
    simpa using this
  · have : n &&& 1 ≠ 0 := (and1 n).2 h
    simpa using this
theorem and2_bool (n : Nat) : (n &&& 2 != 0) = n.testBit 1 := by
  cases h : n.testBit 1
  · have : ¬ (n &&& 2 ≠ 0) := fun h' => by rw [and2] at h'; rw [h] at h'; exact absurd h' (by simp)
    simpa using this
  · have : n &&& 2 ≠ 0 := (and2 n).2 h
    simpa using this
theorem and4_bool (n : Nat) : (n &&& 4 != 0) = n.testBit 2 := by
  cases h : n.testBit 2
  · have : ¬ (n &&& 4 ≠ 0) := fun h' => by rw [and4] at h'; rw [h] at h'; exact absurd h' (by simp)
    simpa using this
  · have : n &&& 4 ≠ 0 := (and4 n).2 h
    simpa using this
theorem and8_bool (n : Nat) : (n &&& 8 != 0) = n.testBit 3 := by
  cases h : n.testBit 3
  · have : ¬ (n &&& 8 ≠ 0) := fun h' => by rw [and8] at h'; rw [h] at h'; exact absurd h' (by simp)
    simpa using this
  · have : n &&& 8 ≠ 0 := (and8 n).2 h
    simpa using this

/-- the rights mask of a square, bit by bit, is "this square is neither the king's nor that rook's home square" -/
theorem rights_table_iff : ∀ s, s < 64 →
    (Gen.CASTLING_RIGHTS.getD s 0).testBit 0 = (!(s == 60) && !(s == 63)) ∧
    (Gen.CASTLING_RIGHTS.getD s 0).testBit 1 = (!(s == 60) && !(s == 56)) ∧
    (Gen.CASTLING_RIGHTS.getD s 0).testBit 2 = (!(s == 4) && !(s == 7)) ∧
    (Gen.CASTLING_RIGHTS.getD s 0).testBit 3 = (!(s == 4) && !(s == 0)) := by decide +kernel

section bridge
variable {g : Game} {b : Board} {m : Move}

theorem spec_isEnPassant (wf : Wf g b) (fits : MoveFits b g.white m) (flags : FlagsTrue b g.white g.ep m) :
    Spec.isEnPassant (Spec.abs g) (smove m) = m.isEnpassant := by
  have hWP : WP = 0 := rfl
  have hBP : BP = 6 := rfl
  have hp12 := ownP_lt fits.piece
  have hsrc : Spec.at_ (Spec.abs g) m.fromSq = some (pieceOf m.piece) := by rw [abs_at wf _ fits.fromLt, fits.src]; rfl
  have hocc : Spec.occupiedIn (Spec.abs g) m.toSq = (b m.toSq).isSome := by
    unfold Spec.occupiedIn; rw [abs_at wf _ fits.toLt]; cases b m.toSq <;> rfl
  have hpawn : (m.piece = WP ∨ m.piece = BP) ↔ m.piece = (if g.white then WP else BP) := by
    have := fits.piece; unfold ownP at this
    cases hw : g.white <;> rw [hw] at this <;> simp only [Bool.false_eq_true, if_false, if_true] at this ⊢ <;>
      constructor <;> intro h <;> first | omega | (rcases h with h | h <;> omega)
  have key : Spec.isEnPassant (Spec.abs g) (smove m) = true ↔ m.isEnpassant = true := by
    rw [flags.epIff]
    unfold Spec.isEnPassant smove
    simp only [hsrc, hocc, Bool.and_eq_true, bne_iff_ne, ne_eq, Bool.not_eq_true', beq_iff_eq]
    rw [pieceOf_pawn' _ hp12, hpawn]
    have hep : (Spec.abs g).ep = some m.toSq ↔ g.ep = m.toSq := by
      have := fits.toLt
      have hS : SQNONE = 64 := rfl
      unfold Spec.abs; simp only
      by_cases h64 : g.ep = 64
      · simp [h64]; omega
      · have : (g.ep == SQNONE) = false := by simpa using h64
        rw [this]; simp
    have hfile : Spec.fileOf m.fromSq = Spec.fileOf m.toSq ↔ m.fromSq % 8 = m.toSq % 8 := by
      unfold Spec.fileOf; omega
    rw [hep, hfile]
    constructor
    · rintro ⟨⟨⟨h1, h2⟩, h3⟩, h4⟩
      exact ⟨h1, h2, h3, by cases hb : b m.toSq <;> simp [hb] at h4 ⊢⟩
    · rintro ⟨h1, h2, h3, h4⟩
      exact ⟨⟨⟨h1, h2⟩, h3⟩, by simp [h4]⟩
  cases h1 : Spec.isEnPassant (Spec.abs g) (smove m) <;> cases h2 : m.isEnpassant <;> simp_all

theorem spec_isCastle (wf : Wf g b) (fits : MoveFits b g.white m) (flags : FlagsTrue b g.white g.ep m) :
    Spec.isCastle (Spec.abs g) (smove m) = m.isCastling := by
  have hWK : WK = 5 := rfl
  have hBK : BK = 11 := rfl
  have hp12 := ownP_lt fits.piece
  have hsrc : Spec.at_ (Spec.abs g) m.fromSq = some (pieceOf m.piece) := by rw [abs_at wf _ fits.fromLt, fits.src]; rfl
  have hking : (m.piece = WK ∨ m.piece = BK) ↔ m.piece = (if g.white then WK else BK) := by
    have := fits.piece; unfold ownP at this
    cases hw : g.white <;> rw [hw] at this <;> simp only [Bool.false_eq_true, if_false, if_true] at this ⊢ <;>
      constructor <;> intro h <;> first | omega | (rcases h with h | h <;> omega)
  have key : Spec.isCastle (Spec.abs g) (smove m) = true ↔ m.isCastling = true := by
    rw [flags.castleIff]
    unfold Spec.isCastle smove
    simp only [hsrc, Bool.and_eq_true, Bool.or_eq_true, beq_iff_eq]
    rw [pieceOf_king' _ hp12, hking]
  cases h1 : Spec.isCastle (Spec.abs g) (smove m) <;> cases h2 : m.isCastling <;> simp_all

theorem spec_isCapture (wf : Wf g b) (fits : MoveFits b g.white m) (flags : FlagsTrue b g.white g.ep m) :
    Spec.isCapture (Spec.abs g) (smove m) = m.isCapture := by
  unfold Spec.isCapture
  rw [spec_isEnPassant wf fits flags]
  have hocc : Spec.occupiedIn (Spec.abs g) (smove m).dst = (b m.toSq).isSome := by
    unfold Spec.occupiedIn; show (Spec.at_ (Spec.abs g) m.toSq).isSome = _
    rw [abs_at wf _ fits.toLt]; cases b m.toSq <;> rfl
  rw [hocc]
  cases hc : m.isCapture
  · rw [fits.quiet hc, fits.ep_cap hc]; rfl
  · cases he : m.isEnpassant
    · obtain ⟨v, hv, _⟩ := fits.cap hc he
      rw [hv]; rfl
    · simp

end bridge

theorem Position.ext' (p q : Spec.Position) (h1 : p.board = q.board) (h2 : p.white = q.white) (h3 : p.wk = q.wk) (h4 : p.wq = q.wq)
    (h5 : p.bk = q.bk) (h6 : p.bq = q.bq) (h7 : p.ep = q.ep) (h8 : p.half = q.half) (h9 : p.full = q.full) : p = q := by
  cases p; cases q; simp_all

theorem rookHop_spec (w : Bool) (to r f t : Nat) (hhop : rookHop to = some (r, f, t)) (hro : ownP w r)
    (hto : to = (if w then 60 else 4) + 2 ∨ to + 2 = (if w then 60 else 4)) :
    pieceOf r = ⟨w, Spec.Kind.rook⟩ ∧
    (to > (if w then 60 else 4) → f = (if w then 60 else 4) + 3 ∧ t = (if w then 60 else 4) + 1) ∧
    (¬ to > (if w then 60 else 4) → f = (if w then 60 else 4) - 4 ∧ t = (if w then 60 else 4) - 1) := by
  have hWR : WR = 3 := rfl
  have hBR : BR = 9 := rfl
  unfold rookHop at hhop
  unfold ownP at hro
  cases w <;> simp only [Bool.false_eq_true, if_false, if_true] at hto hro ⊢
  · split at hhop
    · omega
    · split at hhop
      · omega
      · split at hhop
        · injection hhop with h; injection h with e1 e2; injection e2 with e2 e3; subst e1; subst e2; subst e3
          exact ⟨rfl, fun _ => ⟨rfl, rfl⟩, fun h => by omega⟩
        · split at hhop
          · injection hhop with h; injection h with e1 e2; injection e2 with e2 e3; subst e1; subst e2; subst e3
            exact ⟨rfl, fun h => by omega, fun _ => ⟨rfl, rfl⟩⟩
          · exact absurd hhop (by simp)
  · split at hhop
    · injection hhop with h; injection h with e1 e2; injection e2 with e2 e3; subst e1; subst e2; subst e3
      exact ⟨rfl, fun _ => ⟨rfl, rfl⟩, fun h => by omega⟩
    · split at hhop
      · injection hhop with h; injection h with e1 e2; injection e2 with e2 e3; subst e1; subst e2; subst e3
        exact ⟨rfl, fun h => by omega, fun _ => ⟨rfl, rfl⟩⟩
      · split at hhop
        · omega
        · split at hhop
          · omega
          · exact absurd hhop (by simp)

/-- the board `Spec.apply` computes, written out (the `let`s of `apply` for a position whose `src` square holds `pc`) -/
def specBoard (p : Spec.Position) (sm : Spec.SMove) (pc : Spec.Piece) : Array (Option Spec.Piece) :=
  let b0 := Spec.setSq p.board sm.src none
  let b1 := if Spec.isEnPassant p sm then Spec.setSq b0 (Spec.sqOf (Spec.fileOf sm.dst) (Spec.rowOf sm.src)) none else b0
  let placed : Spec.Piece := match sm.promo with | some k => ⟨pc.white, k⟩ | none => pc
  let b2 := Spec.setSq b1 sm.dst (some placed)
  if Spec.isCastle p sm then
    if sm.dst > sm.src then Spec.setSq (Spec.setSq b2 (sm.src + 3) none) (sm.src + 1) (some ⟨pc.white, .rook⟩)
    else Spec.setSq (Spec.setSq b2 (sm.src - 4) none) (sm.src - 1) (some ⟨pc.white, .rook⟩)
  else b2

theorem apply_eq (p : Spec.Position) (sm : Spec.SMove) (pc : Spec.Piece) (h : Spec.at_ p sm.src = some pc) :
    Spec.apply p sm =
      { board := specBoard p sm pc, white := !p.white,
        wk := p.wk && !(sm.src == 60 || sm.dst == 60) && !(sm.src == 63 || sm.dst == 63),
        wq := p.wq && !(sm.src == 60 || sm.dst == 60) && !(sm.src == 56 || sm.dst == 56),
        bk := p.bk && !(sm.src == 4 || sm.dst == 4) && !(sm.src == 7 || sm.dst == 7),
        bq := p.bq && !(sm.src == 4 || sm.dst == 4) && !(sm.src == 0 || sm.dst == 0),
        ep := if (pc.kind == .pawn && (sm.dst == sm.src + 16 || sm.dst + 16 == sm.src)) then some ((sm.src + sm.dst) / 2) else none,
        half := if pc.kind == .pawn || Spec.isCapture p sm then 0 else p.half + 1,
        full := if p.white then p.full else p.full + 1 } := by
  unfold Spec.apply
  rw [h]
  rfl

/-- the board part: `Spec.apply`'s mailbox holds `applyB` -/
theorem specBoard_holds {g : Game} {b : Board} {m : Move} (wf : Wf g b) (fits : MoveFits b g.white m)
    (flags : FlagsTrue b g.white g.ep m) :
    Holds (specBoard (Spec.abs g) (smove m) (pieceOf m.piece)) (applyB b g.white m) := by
  have hp12 := ownP_lt fits.piece
  have hfl := fits.fromLt
  have htl := fits.toLt
  unfold specBoard
  simp only
  rw [spec_isEnPassant wf fits flags, spec_isCastle wf fits flags]
  simp only [show (smove m).src = m.fromSq from rfl, show (smove m).dst = m.toSq from rfl]
  have H0 := abs_holds wf
  have H1 : Holds (Spec.setSq (Spec.abs g).board m.fromSq none) (b.set m.fromSq none) := H0.setSq m.fromSq hfl none
  -- the piece that lands
  have hplaced : (match (smove m).promo with | some k => (⟨(pieceOf m.piece).white, k⟩ : Spec.Piece) | none => pieceOf m.piece)
      = pieceOf (if m.promotion ≠ PNONE then m.promotion else m.piece) := by
    unfold smove
    by_cases hpr : m.promotion = PNONE
    · simp only [hpr, if_true, ne_eq, not_true_eq_false, if_false]
    · simp only [hpr, if_false, ne_eq, not_false_eq_true, if_true]
      obtain ⟨ho, _⟩ := fits.promo hpr
      have hc : decide (m.promotion < 6) = decide (m.piece < 6) := by
        have h1 := fits.piece
        unfold ownP at ho h1
        cases hw : g.white <;> rw [hw] at ho h1 <;> simp only [Bool.false_eq_true, if_false, if_true] at ho h1
        · have a1 : ¬ m.promotion < 6 := by omega
          have a2 : ¬ m.piece < 6 := by omega
          simp [a1, a2]
        · simp [ho, h1]
      exact (pieceOf_promo m.piece hp12 m.promotion (ownP_lt ho) hc).symm
  rw [hplaced]
  -- en passant
  have H2 : Holds (if m.isEnpassant = true then Spec.setSq (Spec.setSq (Spec.abs g).board m.fromSq none)
        (Spec.sqOf (Spec.fileOf m.toSq) (Spec.rowOf m.fromSq)) none else Spec.setSq (Spec.abs g).board m.fromSq none)
      (if m.isEnpassant then (b.set m.fromSq none).set (vsq g.white m.toSq) none else b.set m.fromSq none) := by
    by_cases he : m.isEnpassant = true
    · rw [if_pos he, if_pos he]
      obtain ⟨_, _, hlt, hge, _, _, _⟩ := fits.ep he
      obtain ⟨rw_, rb_⟩ := flags.epRow he
      have hv : Spec.sqOf (Spec.fileOf m.toSq) (Spec.rowOf m.fromSq) = vsq g.white m.toSq := by
        unfold Spec.sqOf Spec.fileOf Spec.rowOf vsq
        cases hw : g.white
        · have := rb_ hw; have := hge hw; simp only [Bool.false_eq_true, if_false]; omega
        · have := rw_ hw; have := hlt hw; simp only [if_true]; omega
      rw [hv]
      exact H1.setSq _ (fits.vsq_facts he).2.2.1 none
    · rw [if_neg he, if_neg he]; exact H1
  have H3 := H2.setSq m.toSq htl (some (if m.promotion ≠ PNONE then m.promotion else m.piece))
  unfold applyB
  simp only
  by_cases hcs : m.isCastling = true
  · rw [if_pos hcs, if_pos hcs]
    obtain ⟨hpn, hc, r, rf, rt, hhop, _, _, _, _, hro, _⟩ := fits.castle hcs
    obtain ⟨hfrom, hpk⟩ := fits.castleFrom hcs
    have h2 := (flags.castleIff.1 hcs).2
    rw [hfrom] at h2
    obtain ⟨hr, hgt, hle⟩ := rookHop_spec g.white m.toSq r rf rt hhop hro h2
    obtain ⟨_, _, _, _, hrfl, hrtl⟩ := rookHop_ne _ _ _ _ hhop
    have hwk : (pieceOf m.piece).white = g.white := by rw [hpk]; cases g.white <;> rfl
    rw [hhop]
    simp only
    rw [hwk, ← hr]
    by_cases hd : m.toSq > m.fromSq
    · rw [if_pos hd]
      obtain ⟨e1, e2⟩ := hgt (by rw [← hfrom]; exact hd)
      rw [← hfrom] at e1 e2
      rw [← e1, ← e2]
      exact (H3.setSq rf hrfl none).setSq rt hrtl (some r)
    · rw [if_neg hd]
      obtain ⟨e1, e2⟩ := hle (by rw [← hfrom]; exact hd)
      rw [← hfrom] at e1 e2
      rw [← e1, ← e2]
      exact (H3.setSq rf hrfl none).setSq rt hrtl (some r)
  · rw [if_neg hcs, if_neg hcs]
    exact H3

theorem right_bit (c x y k : Nat) : (c &&& (x &&& y)).testBit k = (c.testBit k && x.testBit k && y.testBit k) := by
  rw [Nat.testBit_and, Nat.testBit_and, Bool.and_assoc]

/-- **`make_search_move` refines the rules' `apply`** (stated for the position it builds, whether or not the check test
    then accepts it) -/
theorem apply_refines_force {g : Game} {b : Board} {m : Move} (wf : Wf g b) (fits : MoveFits b g.white m)
    (flags : FlagsTrue b g.white g.ep m) (hh : g.halfMoves < 255) (hfm : g.fullMoves < 65535) :
    Spec.abs (makeForce g m) = Spec.apply (Spec.abs g) (smove m) := by
  have hWP : WP = 0 := rfl
  have hBP : BP = 6 := rfl
  have wf' := makeForce_wf g m b wf fits
  obtain ⟨fw, fe, fc⟩ := makeCore_fields_force g m
  obtain ⟨ch, cf⟩ := makeCore_clocks_force g m
  generalize makeForce g m = g' at *
  have hp12 := ownP_lt fits.piece
  have hfl := fits.fromLt
  have htl := fits.toLt
  have hsrc : Spec.at_ (Spec.abs g) (smove m).src = some (pieceOf m.piece) := by
    show Spec.at_ (Spec.abs g) m.fromSq = _
    rw [abs_at wf _ hfl, fits.src]; rfl
  rw [apply_eq _ _ _ hsrc]
  have tb1 := rights_table_iff m.toSq htl
  have tb2 := rights_table_iff m.fromSq hfl
  have hs : (smove m).src = m.fromSq := rfl
  have hd : (smove m).dst = m.toSq := rfl
  have hpawn : ((pieceOf m.piece).kind == Spec.Kind.pawn) = (m.piece == WP || m.piece == BP) := by
    have := pieceOf_pawn m.piece hp12
    cases h1 : ((pieceOf m.piece).kind == Spec.Kind.pawn) <;> cases h2 : (m.piece == WP || m.piece == BP) <;> simp_all
  have hpawnw : (m.piece == WP || m.piece == BP) = true ↔ m.piece = (if g.white then WP else BP) := by
    have := fits.piece; unfold ownP at this
    simp only [Bool.or_eq_true, beq_iff_eq]
    cases hw : g.white <;> rw [hw] at this <;> simp only [Bool.false_eq_true, if_false, if_true] at this ⊢ <;>
      constructor <;> intro h <;> first | omega | (rcases h with h | h <;> omega)
  apply Position.ext'
  · -- board
    exact Holds.ext (abs_holds wf') (specBoard_holds wf fits flags)
  · show g'.white = !g.white; exact fw
  · show (g'.castling &&& 1 != 0) = ((g.castling &&& 1 != 0) && !(m.fromSq == 60 || m.toSq == 60) && !(m.fromSq == 63 || m.toSq == 63))
    rw [fc, and1_bool, and1_bool, right_bit, tb1.1, tb2.1]
    cases g.castling.testBit 0 <;> cases (m.fromSq == 60) <;> cases (m.toSq == 60) <;> cases (m.fromSq == 63) <;> cases (m.toSq == 63) <;> rfl
  · show (g'.castling &&& 2 != 0) = ((g.castling &&& 2 != 0) && !(m.fromSq == 60 || m.toSq == 60) && !(m.fromSq == 56 || m.toSq == 56))
    rw [fc, and2_bool, and2_bool, right_bit, tb1.2.1, tb2.2.1]
    cases g.castling.testBit 1 <;> cases (m.fromSq == 60) <;> cases (m.toSq == 60) <;> cases (m.fromSq == 56) <;> cases (m.toSq == 56) <;> rfl
  · show (g'.castling &&& 4 != 0) = ((g.castling &&& 4 != 0) && !(m.fromSq == 4 || m.toSq == 4) && !(m.fromSq == 7 || m.toSq == 7))
    rw [fc, and4_bool, and4_bool, right_bit, tb1.2.2.1, tb2.2.2.1]
    cases g.castling.testBit 2 <;> cases (m.fromSq == 4) <;> cases (m.toSq == 4) <;> cases (m.fromSq == 7) <;> cases (m.toSq == 7) <;> rfl
  · show (g'.castling &&& 8 != 0) = ((g.castling &&& 8 != 0) && !(m.fromSq == 4 || m.toSq == 4) && !(m.fromSq == 0 || m.toSq == 0))
    rw [fc, and8_bool, and8_bool, right_bit, tb1.2.2.2, tb2.2.2.2]
    cases g.castling.testBit 3 <;> cases (m.fromSq == 4) <;> cases (m.toSq == 4) <;> cases (m.fromSq == 0) <;> cases (m.toSq == 0) <;> rfl
  · -- en-passant square
    show (if g'.ep == SQNONE then none else some g'.ep) =
      (if ((pieceOf m.piece).kind == Spec.Kind.pawn && (m.toSq == m.fromSq + 16 || m.toSq + 16 == m.fromSq)) then some ((m.fromSq + m.toSq) / 2) else none)
    rw [fe, hpawn]
    have hS : SQNONE = 64 := rfl
    by_cases hdp : m.isDoublePush = true
    · obtain ⟨hpw, h16⟩ := flags.dpushIff.1 hdp
      obtain ⟨_, _, _, _, dw, db⟩ := fits.dpush hdp
      have c1 : (m.piece == WP || m.piece == BP) = true := hpawnw.2 hpw
      have c2 : (m.toSq == m.fromSq + 16 || m.toSq + 16 == m.fromSq) = true := by simpa using h16
      rw [hdp, c1, c2]
      simp only [if_true, Bool.and_self]
      cases hw : g.white
      · have := (db hw).1
        simp only [Bool.false_eq_true, if_false]
        have hne : (m.toSq - 8 == SQNONE) = false := by simp; omega
        rw [hne]; simp only [Bool.false_eq_true, if_false]
        congr 1; omega
      · have := (dw hw).1
        simp only [if_true]
        have hne : (m.toSq + 8 == SQNONE) = false := by simp; omega
        rw [hne]; simp only [Bool.false_eq_true, if_false]
        congr 1; omega
    · have hdf : m.isDoublePush = false := by simpa using hdp
      rw [hdf]
      simp only [Bool.false_eq_true, if_false, beq_self_eq_true, if_true]
      have : ¬ ((m.piece == WP || m.piece == BP) = true ∧ (m.toSq == m.fromSq + 16 || m.toSq + 16 == m.fromSq) = true) := by
        rintro ⟨h1, h2⟩
        exact hdp (flags.dpushIff.2 ⟨hpawnw.1 h1, by simpa using h2⟩)
      cases h1 : (m.piece == WP || m.piece == BP) <;> cases h2 : (m.toSq == m.fromSq + 16 || m.toSq + 16 == m.fromSq) <;> simp_all
  · -- half-move clock
    show g'.halfMoves = (if (pieceOf m.piece).kind == Spec.Kind.pawn || Spec.isCapture (Spec.abs g) (smove m) then 0 else g.halfMoves + 1)
    rw [ch, hpawn, spec_isCapture wf fits flags]
    cases (m.piece == WP || m.piece == BP || m.isCapture)
    · simp only [Bool.false_eq_true, if_false]; omega
    · rfl
  · -- full-move number
    show g'.fullMoves = (if g.white then g.fullMoves else g.fullMoves + 1)
    rw [cf]
    cases g.white
    · simp only [Bool.false_eq_true, if_false]; omega
    · rfl

/-- **`make_search_move` refines the rules' `apply`**: the position the engine's new position denotes is `Spec.apply`
    of the position the old one denotes (the clocks away from their `u8`/`u16` limits) -/
theorem apply_refines {g g' : Game} {b : Board} {m : Move} (wf : Wf g b) (fits : MoveFits b g.white m)
    (flags : FlagsTrue b g.white g.ep m) (hmk : makeCore g m = some g') (hh : g.halfMoves < 255) (hfm : g.fullMoves < 65535) :
    Spec.abs g' = Spec.apply (Spec.abs g) (smove m) := by
  have := makeCore_some hmk
  subst this
  exact apply_refines_force wf fits flags hh hfm

end Jence
