/-
  `is_square_attacked` / `is_in_check` say exactly what the rules say (`Spec.attacked`, `Spec.inCheck`) about the rules
  position a consistent engine position denotes.
-/
import Jence.Lemmas.Refine
import Jence.Props.C15
namespace Jence
open Jence

theorem walk_congr (occ1 occ2 : Nat → Bool) (h : ∀ s, s < 64 → occ1 s = occ2 s) (df dr : Int) : ∀ n f r,
    Spec.walk occ1 df dr n f r = Spec.walk occ2 df dr n f r := by
  intro n
  induction n with
  | zero => intro f r; rfl
  | succ n ih =>
    intro f r
    simp only [Spec.walk]
    split
    · rename_i hb
      have hlt : Spec.sqOf (f + df) (r + dr) < 64 := by
        simp only [Spec.onBoard, Bool.and_eq_true, decide_eq_true_eq] at hb
        unfold Spec.sqOf; omega
      rw [h _ hlt, ih]
    · rfl

theorem slide_congr (occ1 occ2 : Nat → Bool) (h : ∀ s, s < 64 → occ1 s = occ2 s) (sq : Nat) (dirs : List (Int × Int)) :
    Spec.slide occ1 sq dirs = Spec.slide occ2 sq dirs := by
  unfold Spec.slide
  congr 1
  funext d
  exact walk_congr occ1 occ2 h _ _ _ _ _

theorem jumps_lt (sq : Nat) (offs : List (Int × Int)) : ∀ t ∈ Spec.jumps sq offs, t < 64 := by
  intro t ht
  unfold Spec.jumps at ht
  rw [List.mem_filterMap] at ht
  obtain ⟨d, _, hd⟩ := ht
  simp only at hd
  split at hd
  · rename_i hb
    injection hd with hd
    simp only [Spec.onBoard, Bool.and_eq_true, decide_eq_true_eq] at hb
    rw [← hd]; unfold Spec.sqOf; omega
  · exact absurd hd (by simp)

theorem slide_append (occ : Nat → Bool) (sq : Nat) (d1 d2 : List (Int × Int)) :
    Spec.slide occ sq (d1 ++ d2) = Spec.slide occ sq d1 ++ Spec.slide occ sq d2 := by
  unfold Spec.slide; rw [List.flatMap_append]

/-- the lookup of piece `X` on `f` holds `t` iff the rules say that piece attacks `t` -/
theorem attacksOf_spec (occ : UInt64) (X f t : Nat) (hX : X < 12) (hf : f < 64) (ht : t < 64) :
    getBit (attacksOf occ X f) t = true ↔ t ∈ Spec.attackedFrom (getBit occ) (pieceOf X) f := by
  obtain ⟨t0, t6, t1, t7, t2, t8, t3, t9, t4, t10, t5, t11⟩ := attacksOf_table occ f
  have pawnW : getBit (getPawnAttacks f true) t = true ↔ t ∈ Spec.pawnAttacks true f := by
    rw [(Props.C15.leapers_pawn f hf).1]; unfold Spec.pawnPattern
    rw [getBit_toBits _ _ (by unfold Spec.pawnAttacks; exact jumps_lt _ _) ht]; simp
  have pawnB : getBit (getPawnAttacks f false) t = true ↔ t ∈ Spec.pawnAttacks false f := by
    rw [(Props.C15.leapers_pawn f hf).2]; unfold Spec.pawnPattern
    rw [getBit_toBits _ _ (by unfold Spec.pawnAttacks; exact jumps_lt _ _) ht]; simp
  have knight : getBit (getKnightAttacks f) t = true ↔ t ∈ Spec.jumps f Spec.knightJumps := by
    rw [Props.C15.leapers_knight f hf]; unfold Spec.knightPattern
    rw [getBit_toBits _ _ (jumps_lt _ _) ht]; simp
  have king : getBit (getKingAttacks f) t = true ↔ t ∈ Spec.jumps f Spec.kingSteps := by
    rw [Props.C15.leapers_king f hf]; unfold Spec.kingPattern
    rw [getBit_toBits _ _ (jumps_lt _ _) ht]; simp
  have queen : getBit (getQueenAttacks f occ) t = true ↔ t ∈ Spec.slide (getBit occ) f (Spec.rookDirs ++ Spec.bishopDirs) := by
    unfold getQueenAttacks
    rw [getBit_or _ _ _ ht, slide_append, List.mem_append, ← rook_mem f t hf ht, ← bishop_mem f t hf ht]
    simp
  have hcases : X = 0 ∨ X = 1 ∨ X = 2 ∨ X = 3 ∨ X = 4 ∨ X = 5 ∨ X = 6 ∨ X = 7 ∨ X = 8 ∨ X = 9 ∨ X = 10 ∨ X = 11 := by omega
  rcases hcases with h | h | h | h | h | h | h | h | h | h | h | h <;> subst h
  · rw [t0]; exact pawnW
  · rw [t1]; exact knight
  · rw [t2]; exact bishop_mem f t hf ht occ
  · rw [t3]; exact rook_mem f t hf ht occ
  · rw [t4]; exact queen
  · rw [t5]; exact king
  · rw [t6]; exact pawnB
  · rw [t7]; exact knight
  · rw [t8]; exact bishop_mem f t hf ht occ
  · rw [t9]; exact rook_mem f t hf ht occ
  · rw [t10]; exact queen
  · rw [t11]; exact king

theorem exists_common_bit (a b : UInt64) (h : (!isEmpty (a &&& b)) = true) : ∃ t, t < 64 ∧ getBit a t = true ∧ getBit b t = true := by
  have hx : ((a &&& b) == 0) = false := by simpa [isEmpty] using h
  have h1 := getBit_tzcnt (a &&& b) hx
  have hlt := tzcnt_lt (a &&& b) hx
  rw [getBit_and _ _ _ hlt] at h1
  simp only [Bool.and_eq_true] at h1
  exact ⟨_, hlt, h1.1.1, h1.1.2⟩

/-- the reverse lookup reports only real attackers -/
theorem attacker_of_attacked (g : Game) (sq : Nat) (hsq : sq < 64) (byWhite : Bool) (h : isSquareAttacked g sq byWhite = true) :
    ∃ X f, ownP byWhite X ∧ f < 64 ∧ getBit (g.bb X) f = true ∧ getBit (attacksOf g.allOcc X f) sq = true := by
  unfold isSquareAttacked at h
  cases byWhite
  · simp only [Bool.false_eq_true, if_false, Bool.or_eq_true] at h
    rcases h with ((((h | h) | h) | h) | h) | h <;> obtain ⟨f, hf, ha, hb⟩ := exists_common_bit _ _ h
    · refine ⟨BP, f, by unfold ownP; decide, hf, hb, ?_⟩
      rw [(attacksOf_table g.allOcc f).2.1, ← (leapers_symm sq hsq f hf).2.2]; exact ha
    · refine ⟨BN, f, by unfold ownP; decide, hf, hb, ?_⟩
      rw [(attacksOf_table g.allOcc f).2.2.2.1, ← (leapers_symm sq hsq f hf).1]; exact ha
    · refine ⟨BK, f, by unfold ownP; decide, hf, hb, ?_⟩
      rw [(attacksOf_table g.allOcc f).2.2.2.2.2.2.2.2.2.2.2, ← (leapers_symm sq hsq f hf).2.1]; exact ha
    · refine ⟨BR, f, by unfold ownP; decide, hf, hb, ?_⟩
      rw [(attacksOf_table g.allOcc f).2.2.2.2.2.2.2.1]; exact rookAttacks_symm sq f hsq hf _ ha
    · refine ⟨BB, f, by unfold ownP; decide, hf, hb, ?_⟩
      rw [(attacksOf_table g.allOcc f).2.2.2.2.2.1]; exact bishopAttacks_symm sq f hsq hf _ ha
    · refine ⟨BQ, f, by unfold ownP; decide, hf, hb, ?_⟩
      rw [(attacksOf_table g.allOcc f).2.2.2.2.2.2.2.2.2.1]; exact queenAttacks_symm sq f hsq hf _ ha
  · simp only [if_true, Bool.or_eq_true] at h
    rcases h with ((((h | h) | h) | h) | h) | h <;> obtain ⟨f, hf, ha, hb⟩ := exists_common_bit _ _ h
    · refine ⟨WP, f, by unfold ownP; decide, hf, hb, ?_⟩
      rw [(attacksOf_table g.allOcc f).1, (leapers_symm f hf sq hsq).2.2]; exact ha
    · refine ⟨WN, f, by unfold ownP; decide, hf, hb, ?_⟩
      rw [(attacksOf_table g.allOcc f).2.2.1, ← (leapers_symm sq hsq f hf).1]; exact ha
    · refine ⟨WK, f, by unfold ownP; decide, hf, hb, ?_⟩
      rw [(attacksOf_table g.allOcc f).2.2.2.2.2.2.2.2.2.2.1, ← (leapers_symm sq hsq f hf).2.1]; exact ha
    · refine ⟨WR, f, by unfold ownP; decide, hf, hb, ?_⟩
      rw [(attacksOf_table g.allOcc f).2.2.2.2.2.2.1]; exact rookAttacks_symm sq f hsq hf _ ha
    · refine ⟨WB, f, by unfold ownP; decide, hf, hb, ?_⟩
      rw [(attacksOf_table g.allOcc f).2.2.2.2.1]; exact bishopAttacks_symm sq f hsq hf _ ha
    · refine ⟨WQ, f, by unfold ownP; decide, hf, hb, ?_⟩
      rw [(attacksOf_table g.allOcc f).2.2.2.2.2.2.2.2.1]; exact queenAttacks_symm sq f hsq hf _ ha

theorem attackedFrom_congr (occ1 occ2 : Nat → Bool) (h : ∀ s, s < 64 → occ1 s = occ2 s) (pc : Spec.Piece) (sq : Nat) :
    Spec.attackedFrom occ1 pc sq = Spec.attackedFrom occ2 pc sq := by
  unfold Spec.attackedFrom
  cases pc.kind <;> simp only <;> first | rfl | exact slide_congr occ1 occ2 h _ _

theorem pieceOf_white (X : Nat) (byWhite : Bool) (hX : X < 12) : ((pieceOf X).white == byWhite) = true ↔ ownP byWhite X := by
  unfold pieceOf ownP
  cases byWhite <;> simp <;> omega

/-- **`is_square_attacked` is the rules' `attacked`** on the position a consistent engine position denotes -/
theorem attacked_refines {g : Game} {b : Board} (wf : Wf g b) (sq : Nat) (hsq : sq < 64) (byWhite : Bool) :
    isSquareAttacked g sq byWhite = Spec.attacked (Spec.abs g) sq byWhite := by
  have hocc : ∀ s, s < 64 → Spec.occupiedIn (Spec.abs g) s = getBit g.allOcc s := fun s hs => abs_occupied wf s hs
  have key : isSquareAttacked g sq byWhite = true ↔ Spec.attacked (Spec.abs g) sq byWhite = true := by
    constructor
    · intro h
      obtain ⟨X, f, hX, hf, hbit, hatt⟩ := attacker_of_attacked g sq hsq byWhite h
      have hX12 := ownP_lt hX
      unfold Spec.attacked
      rw [List.any_eq_true]
      refine ⟨f, List.mem_range.2 hf, ?_⟩
      have hb : b f = some X := by
        have := rep_bit g.bbs b wf.rep X f hX12 hf
        unfold Game.bb at hbit; rw [hbit] at this; simpa using this.symm
      rw [abs_at wf f hf, hb]
      simp only [Option.map_some, Bool.and_eq_true]
      refine ⟨(pieceOf_white X byWhite hX12).2 hX, ?_⟩
      rw [List.contains_iff_mem, attackedFrom_congr _ _ hocc]
      exact (attacksOf_spec g.allOcc X f sq hX12 hf hsq).1 hatt
    · intro h
      unfold Spec.attacked at h
      rw [List.any_eq_true] at h
      obtain ⟨s, hs, h⟩ := h
      have hs64 := List.mem_range.1 hs
      rw [abs_at wf s hs64] at h
      cases hb : b s with
      | none => rw [hb] at h; simp at h
      | some X =>
        rw [hb] at h
        simp only [Option.map_some, Bool.and_eq_true] at h
        have hX12 := wf.ok.valid s X hs64 hb
        have hX := (pieceOf_white X byWhite hX12).1 h.1
        have hmem := h.2
        rw [List.contains_iff_mem, attackedFrom_congr _ _ hocc] at hmem
        have hatt := (attacksOf_spec g.allOcc X s sq hX12 hs64 hsq).2 hmem
        exact attacked_of_attacker g sq s X hsq hs64 byWhite hX (by
          unfold Game.bb; rw [rep_bit g.bbs b wf.rep X s hX12 hs64, hb]; simp) hatt
  cases h1 : isSquareAttacked g sq byWhite <;> cases h2 : Spec.attacked (Spec.abs g) sq byWhite <;> simp_all

theorem pieceOf_inj : ∀ x, x < 12 → ∀ y, y < 12 → pieceOf x = pieceOf y → x = y := by decide

theorem king_square {g : Game} {b : Board} (wf : Wf g b) (white : Bool) :
    ∃ k, k < 64 ∧ b k = some (if white then WK else BK) ∧ tzcnt (g.bb (if white then WK else BK)) = k ∧
      Spec.kingSquare (Spec.abs g) white = some k := by
  have hK12 : (if white then WK else BK) < 12 := by cases white <;> decide
  have hex : ∃ k, k < 64 ∧ b k = some (if white then WK else BK) ∧ ∀ t, t < 64 → b t = some (if white then WK else BK) → t = k := by
    cases white
    · exact wf.ok.bking
    · exact wf.ok.wking
  obtain ⟨k, hk, hbk, hu⟩ := hex
  have bitOf : ∀ t, t < 64 → getBit (g.bb (if white then WK else BK)) t = decide (b t = some (if white then WK else BK)) :=
    fun t ht => rep_bit g.bbs b wf.rep _ t hK12 ht
  refine ⟨k, hk, hbk, ?_, ?_⟩
  · exact tzcnt_single _ k hk (by rw [bitOf k hk, hbk]; simp) (fun t ht h => by
      rw [bitOf t ht] at h; exact hu t ht (by simpa using h))
  · unfold Spec.kingSquare
    have hpk : pieceOf (if white then WK else BK) = ⟨white, .king⟩ := by cases white <;> rfl
    apply find?_range_unique 64 k _ hk
    · rw [abs_at wf k hk, hbk]; simp [hpk]
    · intro j hj h
      rw [abs_at wf j hj] at h
      cases hb : b j with
      | none => rw [hb] at h; simp at h
      | some q =>
        rw [hb] at h
        simp only [Option.map_some, beq_iff_eq, Option.some.injEq] at h
        rw [← hpk] at h
        have := pieceOf_inj q (wf.ok.valid j q hj hb) _ hK12 h
        exact hu j hj (by rw [hb, this])

/-- **`is_in_check` is the rules' `inCheck`** -/
theorem inCheck_refines {g : Game} {b : Board} (wf : Wf g b) (white : Bool) :
    isInCheck g white = Spec.inCheck (Spec.abs g) white := by
  obtain ⟨k, hk, _, htz, hks⟩ := king_square wf white
  unfold isInCheck Spec.inCheck
  rw [hks]
  cases white
  · simp only [Bool.false_eq_true, if_false] at htz ⊢
    rw [htz]; exact attacked_refines wf k hk true
  · simp only [if_true] at htz ⊢
    rw [htz]; exact attacked_refines wf k hk false

end Jence
