/-
  The history array never overflows during a search that starts with enough room: `Safe e` - not yet overflowed, at most
  64 plies deep, and at least `65 - ply` free slots. The capture search pushes one key per ply and stops at the ply cap;
  the main search pushes the child's key and pops it at once. With the master invariant (`Frame`) this turns every
  "the run did not overflow" hypothesis into a condition on the length of the game history handed in (finding D7: the
  Rust code panics when the history array is full).
-/
import Jence.Lemmas.NVal
import Jence.Lemmas.Top
namespace Jence
open Jence

def Safe (e : Env) : Prop := e.rep.overflow = false ∧ e.ply ≤ 64 ∧ e.rep.index + 65 ≤ e.rep.table.size + e.ply

theorem Safe.of_frame {e e' : Env} (h : Frame e e') (hs : Safe e) (ho : e'.rep.overflow = false) : Safe e' := by
  have core := h.2 ho
  refine ⟨ho, ?_, ?_⟩
  · rw [core.ply]; exact hs.2.1
  · rw [core.ply, core.repIndex, core.repSize]; exact hs.2.2

theorem Safe.of_same {e e' : Env} (hrep : e'.rep = e.rep) (hply : e'.ply = e.ply) (hs : Safe e) : Safe e' := by
  unfold Safe; rw [hrep, hply]; exact hs

theorem insert_room (r : RepTable) (k : UInt64) (hlt : r.index < r.table.size) :
    (r.insert k).overflow = r.overflow ∧ (r.insert k).index = r.index + 1 ∧ (r.insert k).table.size = r.table.size := by
  unfold RepTable.insert
  rw [if_pos hlt]
  exact ⟨rfl, rfl, by simp⟩

def QRecSafe (rec : Game → Int → Int → Env → Int × Env) : Prop := ∀ c a b e, Safe e → (rec c a b e).2.rep.overflow = false
def RecSafe (rec : Game → Nat → Int → Int → Env → Int × Env) : Prop := ∀ c d a b e, Safe e → (rec c d a b e).2.rep.overflow = false

theorem qLoop_safe (R : Rules) (rec : Game → Int → Int → Env → Int × Env) (hF : QRecFrame rec) (hS : QRecSafe rec) (g : Game) (beta : Int) :
    ∀ (ms : List Move) (ta : Int) (e : Env), Safe e → e.ply ≤ 63 → (qLoop R rec g beta ms ta e).2.rep.overflow = false := by
  intro ms
  induction ms with
  | nil => intro ta e hs _; exact hs.1
  | cons m ms ih =>
    intro ta e hs hp
    simp only [qLoop]
    cases hmk : R.make g m with
    | none => exact ih ta e hs hp
    | some c =>
      simp only
      obtain ⟨ho, _, hroom⟩ := hs
      obtain ⟨i1, i2, i3⟩ := insert_room e.rep c.key (by omega)
      have hsc : Safe { e with rep := e.rep.insert c.key, ply := e.ply + 1 } :=
        ⟨by show (e.rep.insert c.key).overflow = false; rw [i1]; exact ho, by show e.ply + 1 ≤ 64; omega,
         by show (e.rep.insert c.key).index + 65 ≤ (e.rep.insert c.key).table.size + (e.ply + 1); rw [i2, i3]; omega⟩
      have hf := hF c (-beta) (-ta) { e with rep := e.rep.insert c.key, ply := e.ply + 1 }
      have hov := hS c (-beta) (-ta) _ hsc
      generalize rec c (-beta) (-ta) { e with rep := e.rep.insert c.key, ply := e.ply + 1 } = r at hf hov
      obtain ⟨s, e2⟩ := r
      have h3 := Frame.push_pop e c.key e2 hf
      have ho3 : ({ e2 with ply := e2.ply - 1, rep := e2.rep.moveBack } : Env).rep.overflow = false := hov
      have hs3 := Safe.of_frame h3 ⟨ho, by omega, hroom⟩ ho3
      simp only
      split
      · exact ho3
      · exact ih _ _ hs3 (by rw [(h3.2 ho3).ply]; exact hp)

theorem qEnter_same (cfg : Cfg) (g : Game) (alpha beta : Int) (e : Env) :
    (qEnter cfg g alpha beta e).rep = e.rep ∧ (qEnter cfg g alpha beta e).ply = e.ply := by
  unfold qEnter; simp only
  exact ⟨by rw [maybePoll_rep, onNode_rep], by rw [maybePoll_ply, onNode_ply]⟩

theorem sortMoves_rep (g : Game) (ms : List Move) (e : Env) : (sortMoves g ms e).2.rep = e.rep ∧ (sortMoves g ms e).2.ply = e.ply := by
  rw [sortMoves_same]; exact ⟨rfl, rfl⟩

theorem quiescence_safe (R : Rules) (cfg : Cfg) : ∀ fuel, QRecSafe (quiescence R cfg fuel) := by
  intro fuel
  induction fuel with
  | zero => intro c a b e hs; exact hs.1
  | succ fuel ih =>
    intro g alpha beta e hs
    simp only [quiescence]
    obtain ⟨q1, q2⟩ := qEnter_same cfg g alpha beta e
    have hs3 : Safe (qEnter cfg g alpha beta e) := Safe.of_same q1 q2 hs
    generalize qEnter cfg g alpha beta e = e3 at q1 q2 hs3
    by_cases hcut : (decide (e3.ply > Gen.MAX_PLY - 1) || g.halfMoves == 100) = true
    · rw [if_pos hcut]; exact hs3.1
    · rw [if_neg hcut]
      have hle : e3.ply ≤ 63 := by
        have : Gen.MAX_PLY = 64 := rfl
        simp only [Bool.or_eq_true, decide_eq_true_eq, not_or] at hcut; omega
      split
      · exact hs3.1
      · obtain ⟨s1, s2⟩ := sortMoves_rep g (R.generate g false) e3
        exact qLoop_safe R _ (quiescence_frame R cfg fuel) ih g beta _ _ _ (Safe.of_same s1 s2 hs3) (by rw [s2]; exact hle)

theorem searchChild_safe (rec : Game → Nat → Int → Int → Env → Int × Env) (hF : RecFrame rec) (hS : RecSafe rec) (c : Game) (m : Move)
    (searched depth nDepth : Nat) (inCheck : Bool) (ta beta : Int) (e : Env) (hs : Safe e) :
    (searchChild rec c m searched depth nDepth inCheck ta beta e).2.rep.overflow = false := by
  have step : ∀ d a b e, Safe e → Safe (rec c d a b e).2 := fun d a b e h => Safe.of_frame (hF c d a b e) h (hS c d a b e h)
  unfold searchChild
  split
  · exact hS _ _ _ _ _ hs
  · simp only
    split
    · have h1 := step (nDepth - 2) (-ta - 1) (-ta) e hs
      generalize rec c (nDepth - 2) (-ta - 1) (-ta) e = r1 at h1
      obtain ⟨s1, e1⟩ := r1
      simp only
      split
      · have h2 := step (nDepth - 1) (-ta - 1) (-ta) e1 h1
        generalize rec c (nDepth - 1) (-ta - 1) (-ta) e1 = r2 at h2
        obtain ⟨s2, e2⟩ := r2
        simp only
        split
        · exact hS _ _ _ _ _ h2
        · exact h2.1
      · exact h1.1
    · simp only
      split
      · have h2 := step (nDepth - 1) (-ta - 1) (-ta) e hs
        generalize rec c (nDepth - 1) (-ta - 1) (-ta) e = r2 at h2
        obtain ⟨s2, e2⟩ := r2
        simp only
        split
        · exact hS _ _ _ _ _ h2
        · exact h2.1
      · exact hs.1

theorem moveLoop_safe (R : Rules) (cfg : Cfg) (rec : Game → Nat → Int → Int → Env → Int × Env) (hF : RecFrame rec) (hS : RecSafe rec)
    (g : Game) (depth nDepth : Nat) (inCheck : Bool) (beta : Int) :
    ∀ (ms : List Move) (ta : Int) (flag : Flag) (legal searched : Nat) (e : Env), Safe e → e.ply ≤ 63 →
      (moveLoop R cfg rec g depth nDepth inCheck beta ms ta flag legal searched e).2.rep.overflow = false := by
  intro ms
  induction ms with
  | nil => intro ta flag legal searched e hs _; exact hs.1
  | cons m ms ih =>
    intro ta flag legal searched e hs hp
    simp only [moveLoop]
    cases hmk : R.make g m with
    | none => exact ih ta flag legal searched e hs hp
    | some c =>
      simp only
      obtain ⟨ho, _, hroom⟩ := hs
      obtain ⟨i1, i2, i3⟩ := insert_room e.rep c.key (by omega)
      have hsc : Safe { e with ply := e.ply + 1, rep := (e.rep.insert c.key).moveBack } :=
        ⟨by show (e.rep.insert c.key).overflow = false; rw [i1]; exact ho, by show e.ply + 1 ≤ 64; omega,
         by show (e.rep.insert c.key).index - 1 + 65 ≤ (e.rep.insert c.key).table.size + (e.ply + 1); rw [i2, i3]; omega⟩
      have hsc2 := searchChild_frame rec hF c m searched depth nDepth inCheck ta beta
        { e with ply := e.ply + 1, rep := (e.rep.insert c.key).moveBack }
      have hov := searchChild_safe rec hF hS c m searched depth nDepth inCheck ta beta _ hsc
      generalize searchChild rec c m searched depth nDepth inCheck ta beta
        { e with ply := e.ply + 1, rep := (e.rep.insert c.key).moveBack } = r at hsc2 hov
      obtain ⟨score, e2⟩ := r
      have h3 : Frame e { e2 with ply := e2.ply - 1 } := Frame.down_up e _ e2 (insert_moveBack e.rep c.key) hsc2
      have hs3 : Safe { e2 with ply := e2.ply - 1 } := Safe.of_frame h3 ⟨ho, by omega, hroom⟩ hov
      have hp3 : ({ e2 with ply := e2.ply - 1 } : Env).ply ≤ 63 := by rw [(h3.2 hov).ply]; exact hp
      have hst : ({ e2 with ply := e2.ply - 1 } : Env).stopping = e2.stopping := rfl
      simp only
      generalize ({ e2 with ply := e2.ply - 1 } : Env) = e3 at hs3 hp3 hst ⊢
      by_cases hstop : e2.stopping = true
      · rw [if_pos hstop]; exact hs3.1
      · rw [if_neg hstop]
        by_cases hsc2 : score > ta
        · rw [if_pos hsc2]
          obtain ⟨p1, p2⟩ := insertPv_env cfg e3 m
          have hs4 : Safe (e3.insertPv cfg m) := Safe.of_same p2 p1 hs3
          have hp4 : (e3.insertPv cfg m).ply ≤ 63 := by rw [p1]; exact hp3
          generalize e3.insertPv cfg m = e4 at hs4 hp4 ⊢
          by_cases hb : score ≥ beta
          · rw [if_pos hb]
            simp only
            rw [ttRecord_rep]
            split
            · exact hs4.1
            · exact hs4.1
          · rw [if_neg hb]
            split
            · exact ih _ _ _ _ _ (Safe.of_same (e := e4) rfl rfl hs4) hp4
            · exact ih _ _ _ _ _ hs4 hp4
        · rw [if_neg hsc2]
          exact ih _ _ _ _ _ hs3 hp3

theorem nullMoveStep_safe (R : Rules) (rec : Game → Nat → Int → Int → Env → Int × Env) (hF : RecFrame rec) (hS : RecSafe rec) (g : Game)
    (nDepth : Nat) (inCheck : Bool) (beta : Int) (e : Env) (hs : Safe e) (hp : e.ply ≤ 63) :
    (nullMoveStep R rec g nDepth inCheck beta e).2.rep.overflow = false := by
  unfold nullMoveStep
  split
  · simp only
    have hsc : Safe { e with ply := e.ply + 1 } := ⟨hs.1, by show e.ply + 1 ≤ 64; omega, by show e.rep.index + 65 ≤ e.rep.table.size + (e.ply + 1); have := hs.2.2; omega⟩
    have hov := hS (R.nullMove g) (nDepth - 1 - 2) (-beta) (-beta + 1) _ hsc
    generalize rec (R.nullMove g) (nDepth - 1 - 2) (-beta) (-beta + 1) { e with ply := e.ply + 1 } = r at hov
    obtain ⟨s, e2⟩ := r
    simp only
    split
    · exact hov
    · split <;> exact hov
  · exact hs.1

theorem negamax_safe (R : Rules) (cfg : Cfg) : ∀ fuel, RecSafe (negamax R cfg fuel) := by
  intro fuel
  induction fuel with
  | zero => intro c d a b e hs; exact hs.1
  | succ fuel ih =>
    intro g depth alpha beta e hs
    have hF := negamax_frame R cfg fuel
    simp only [negamax]
    have hs1 : Safe (e.onNode cfg 1 g depth alpha beta) := Safe.of_same (onNode_rep ..) (onNode_ply ..) hs
    generalize e.onNode cfg 1 g depth alpha beta = e1 at hs1
    split
    · unfold repReturn; simp only; rw [ev_rep]; exact hs1.1
    · split
      · unfold ttReturn; simp only; rw [ev_rep]; exact hs1.1
      · unfold afterProbe
        simp only
        have hs2 : Safe { e1 with pvLen := e1.pvLen.setIfInBounds e1.ply e1.ply } := Safe.of_same (e := e1) rfl rfl hs1
        have hp2 : ({ e1 with pvLen := e1.pvLen.setIfInBounds e1.ply e1.ply } : Env).ply = e1.ply := rfl
        generalize ({ e1 with pvLen := e1.pvLen.setIfInBounds e1.ply e1.ply } : Env) = e2 at hs2 hp2
        rw [← hp2]
        by_cases hcap : e2.ply ≥ Gen.MAX_PLY - 1
        · rw [if_pos hcap]; exact hs2.1
        · rw [if_neg hcap]
          have hMP : Gen.MAX_PLY = 64 := rfl
          have hs3 : Safe (e2.maybePoll cfg) := Safe.of_same (maybePoll_rep ..) (maybePoll_ply ..) hs2
          have hp3 : (e2.maybePoll cfg).ply ≤ 62 := by rw [maybePoll_ply]; omega
          generalize e2.maybePoll cfg = e3 at hs3 hp3
          split
          · exact quiescence_safe R cfg qFuel g alpha beta e3 hs3
          · unfold expand
            simp only
            have hs4 : Safe { e3 with nodes := e3.nodes + 1 } := Safe.of_same (e := e3) rfl rfl hs3
            have hp4 : ({ e3 with nodes := e3.nodes + 1 } : Env).ply ≤ 62 := hp3
            generalize ({ e3 with nodes := e3.nodes + 1 } : Env) = e4 at hs4 hp4
            have hnF := nullMoveStep_frame R _ hF g (if R.inCheck g then depth + 1 else depth) (R.inCheck g) beta e4
            have hnS := nullMoveStep_safe R _ hF ih g (if R.inCheck g then depth + 1 else depth) (R.inCheck g) beta e4 hs4 (by omega)
            generalize nullMoveStep R (negamax R cfg fuel) g (if R.inCheck g then depth + 1 else depth) (R.inCheck g) beta e4 = no at hnF hnS
            obtain ⟨nv, e5⟩ := no
            cases nv with
            | some v => exact hnS
            | none =>
              simp only
              have hs5 : Safe e5 := Safe.of_frame hnF hs4 hnS
              have hp5 : e5.ply ≤ 62 := by rw [(hnF.2 hnS).ply]; exact hp4
              unfold searchMoves
              simp only
              have hs6 : Safe (if e5.followPv then enablePvScoring (R.generate g true) e5 else e5) := by
                split
                · exact Safe.of_same (e := e5) rfl rfl hs5
                · exact hs5
              have hp6 : (if e5.followPv then enablePvScoring (R.generate g true) e5 else e5 : Env).ply ≤ 62 := by
                split
                · exact hp5
                · exact hp5
              generalize (if e5.followPv then enablePvScoring (R.generate g true) e5 else e5 : Env) = e6 at hs6 hp6
              obtain ⟨s1, s2⟩ := sortMoves_rep g (R.generate g true) e6
              have hs7 := Safe.of_same s1 s2 hs6
              have hml := moveLoop_safe R cfg _ hF ih g depth (if R.inCheck g then depth + 1 else depth) (R.inCheck g) beta
                (sortMoves g (R.generate g true) e6).1 alpha Flag.alpha 0 0 _ hs7 (by rw [s2]; omega)
              generalize moveLoop R cfg (negamax R cfg fuel) g depth (if R.inCheck g then depth + 1 else depth) (R.inCheck g) beta
                (sortMoves g (R.generate g true) e6).1 alpha Flag.alpha 0 0 (sortMoves g (R.generate g true) e6).2 = lo at hml
              obtain ⟨out, e8⟩ := lo
              rw [(finish_pv cfg g depth (R.inCheck g) out e8).2]
              exact hml

/-- **no overflow in the deepening loop**: a search that starts with room ends without overflow -/
theorem idLoop_safe (R : Rules) (cfg : Cfg) (g : Game) :
    ∀ (count cur : Nat) (alpha beta score : Int) (e : Env), Safe e →
      (idLoop R cfg g count cur alpha beta score e).2.2.rep.overflow = false := by
  intro count
  induction count with
  | zero => intro cur alpha beta score e hs; exact hs.1
  | succ count ih =>
    intro cur alpha beta score e hs
    simp only [idLoop]
    have hs0 : Safe { e with followPv := true } := Safe.of_same (e := e) rfl rfl hs
    have hn := negamax_frame R cfg negaFuel g cur alpha beta { e with followPv := true }
    have ho := negamax_safe R cfg negaFuel g cur alpha beta _ hs0
    have hs1 := Safe.of_frame hn hs0 ho
    generalize negamax R cfg negaFuel g cur alpha beta { e with followPv := true } = r at hn ho hs1 ⊢
    obtain ⟨sc, e1⟩ := r
    simp only at ho hs1 ⊢
    split
    · exact ho
    · split
      · exact ih _ _ _ _ _ hs1
      · exact ih _ _ _ _ _ (Safe.of_same (e := e1) rfl rfl hs1)

/-- the start of `search`: fewer than `REP_CAPACITY - 64` recorded positions leave room -/
theorem fresh_safe (tt : TT) (rep : RepTable) (ho : rep.overflow = false) (hroom : rep.index + 65 ≤ rep.table.size) :
    Safe (Env.fresh tt rep) := ⟨ho, Nat.zero_le _, by show rep.index + 65 ≤ rep.table.size + 0; omega⟩

/-- room for a whole search: the history array has not overflowed and at least 65 slots are free -/
def HistoryRoom (rep : RepTable) : Prop := rep.overflow = false ∧ rep.index + 65 ≤ rep.table.size

/-- **a search that is handed a history with 65 free slots never overflows the history array** (every rules instance,
    depth, table, poll schedule) -/
theorem search_no_overflow (R : Rules) (cfg : Cfg) (g : Game) (depth : Int) (tt : TT) (rep : RepTable) (h : HistoryRoom rep) :
    (search R cfg g depth tt rep).2.rep.overflow = false ∧ (searchLoopEnd R cfg g depth tt rep).2.2.rep.overflow = false := by
  obtain ⟨_, he⟩ := search_eq R cfg g depth tt rep
  have hl : (searchLoopEnd R cfg g depth tt rep).2.2.rep.overflow = false :=
    idLoop_safe R cfg g _ 1 (-Gen.INFINITY) Gen.INFINITY 0 (Env.fresh tt rep) (fresh_safe tt rep h.1 h.2)
  refine ⟨?_, hl⟩
  rw [he]
  have : ∀ e0 : Env, ∀ w l s, ((e0.ev cfg w l).print s).rep = e0.rep := by
    intro e0 w l s; simp [Env.print, ev_rep]
  rw [this]; exact hl

/-- the table the command loop creates has `REP_CAPACITY` slots: histories of up to `REP_CAPACITY - 65` positions leave room -/
theorem new_room : HistoryRoom RepTable.new := by
  refine ⟨rfl, ?_⟩
  show 0 + 65 ≤ (Array.replicate Gen.REP_CAPACITY (0 : UInt64)).size
  rw [Array.size_replicate]; decide

end Jence
