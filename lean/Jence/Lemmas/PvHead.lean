/-
  The head of the principal variation (`pv_table[0][0]`, what `bestmove` prints) is always the null move or a
  generated root move that survived `make`: it is written only by `insert_pv_node` at ply 0, and every deeper frame
  leaves row 0 alone (master invariant).
-/
import Jence.Lemmas.SearchFrame
import Jence.Lemmas.Sort
namespace Jence
open Jence

/-! ### things that never touch the PV table -/

theorem ev_pv (cfg : Cfg) (e : Env) (w : List UInt64) (l : Unit → String) : (e.ev cfg w l).pv = e.pv := by
  unfold Env.ev; split; · rfl
  split <;> rfl

theorem onNode_pv (cfg : Cfg) (e : Env) (k : Nat) (g : Game) (d : Nat) (a b : Int) : (e.onNode cfg k g d a b).pv = e.pv := by
  unfold Env.onNode; split; · rfl
  exact ev_pv ..

theorem poll_pv (cfg : Cfg) (e : Env) : (e.poll cfg).pv = e.pv := by
  unfold Env.poll
  split; · rfl
  simp only
  split
  · simp [Env.ev]; (try split) <;> (try split) <;> simp
  · split
    · simp [Env.ev]; (try split) <;> (try split) <;> simp
    · split <;> (simp [Env.ev, Env.print] <;> (try split) <;> (try split) <;> simp)

theorem maybePoll_pv (cfg : Cfg) (e : Env) : (e.maybePoll cfg).pv = e.pv := by
  unfold Env.maybePoll
  dsimp only
  split <;> (split <;> first | exact poll_pv cfg e | rfl)

theorem scoreMove_pv (g : Game) (m : Move) (e : Env) : (scoreMove g m e).2.pv = e.pv := by
  unfold scoreMove
  split; · rfl
  split; · rfl
  split; · rfl
  split <;> rfl

theorem scoreAll_pv (g : Game) (ms : List Move) (e : Env) (acc : Array (Int × Move)) : (scoreAll g ms e acc).2.pv = e.pv := by
  induction ms generalizing e acc with
  | nil => rfl
  | cons m ms ih => simp only [scoreAll]; rw [ih, scoreMove_pv]

theorem sortMoves_pv (g : Game) (ms : List Move) (e : Env) : (sortMoves g ms e).2.pv = e.pv := scoreAll_pv g ms e #[]

theorem ttRecord_pv (cfg : Cfg) (e : Env) (k : UInt64) (s : Int) (d : Nat) (f : Flag) : (e.ttRecord cfg k s d f).pv = e.pv := by
  unfold Env.ttRecord
  simp only
  rw [ev_pv]
  split <;> rfl

theorem ttRecord_rep (cfg : Cfg) (e : Env) (k : UInt64) (s : Int) (d : Nat) (f : Flag) : (e.ttRecord cfg k s d f).rep = e.rep := by
  unfold Env.ttRecord
  simp only
  rw [ev_rep]
  split <;> rfl

theorem qLoop_pv (R : Rules) (rec : Game → Int → Int → Env → Int × Env) (hrec : ∀ c a b e, (rec c a b e).2.pv = e.pv)
    (g : Game) (beta : Int) : ∀ (ms : List Move) (ta : Int) (e : Env), (qLoop R rec g beta ms ta e).2.pv = e.pv := by
  intro ms
  induction ms with
  | nil => intro ta e; rfl
  | cons m ms ih =>
    intro ta e
    simp only [qLoop]
    cases R.make g m with
    | none => exact ih ta e
    | some c =>
      simp only
      have hf := hrec c (-beta) (-ta) { e with rep := e.rep.insert c.key, ply := e.ply + 1 }
      generalize rec c (-beta) (-ta) { e with rep := e.rep.insert c.key, ply := e.ply + 1 } = r at hf
      obtain ⟨s, e2⟩ := r
      simp only at hf ⊢
      split
      · exact hf
      · rw [ih]; exact hf

theorem qEnter_pv (cfg : Cfg) (g : Game) (alpha beta : Int) (e : Env) : (qEnter cfg g alpha beta e).pv = e.pv := by
  unfold qEnter; simp only; rw [maybePoll_pv, onNode_pv]

theorem quiescence_pv (R : Rules) (cfg : Cfg) : ∀ fuel g a b e, (quiescence R cfg fuel g a b e).2.pv = e.pv := by
  intro fuel
  induction fuel with
  | zero => intro g a b e; rfl
  | succ fuel ih =>
    intro g alpha beta e
    simp only [quiescence]
    have h1 := qEnter_pv cfg g alpha beta e
    generalize qEnter cfg g alpha beta e = e3 at h1 ⊢
    split
    · exact h1
    · split
      · exact h1
      · rw [qLoop_pv R _ (ih) g beta, sortMoves_pv]; exact h1

/-! ### the head of row 0 -/

/-- what `bestmove` may print: nothing yet, or a generated move of the root position that can be made -/
def PvHeadOk (R : Rules) (g : Game) (e : Env) : Prop :=
  e.pvAt 0 0 = Move.null ∨ (e.pvAt 0 0 ∈ R.generate g true ∧ (R.make g (e.pvAt 0 0)).isSome)

theorem PvHeadOk.of_pv {R : Rules} {g : Game} {e e' : Env} (h : e'.pv = e.pv) (hk : PvHeadOk R g e) : PvHeadOk R g e' := by
  unfold PvHeadOk Env.pvAt at *; rw [h]; exact hk

theorem PvHeadOk.of_head {R : Rules} {g : Game} {e e' : Env} (h : e'.pvAt 0 0 = e.pvAt 0 0) (hk : PvHeadOk R g e) : PvHeadOk R g e' := by
  unfold PvHeadOk at *; rw [h]; exact hk

/-- a frame entered at ply ≥ 1 returns with the same PV head -/
theorem Frame.head {e e' : Env} (h : Frame e e') (ho : e'.rep.overflow = false) (hp : 1 ≤ e.ply) : e'.pvAt 0 0 = e.pvAt 0 0 := by
  have := ((h.2 ho).row0 hp).1 0 (by omega)
  simpa [Env.pvAt] using this

theorem getD_setIfInBounds_self {α : Type} (a : Array α) (i : Nat) (v d : α) :
    (a.setIfInBounds i v).getD i d = v ∨ ((a.setIfInBounds i v).getD i d = a.getD i d) := by
  by_cases h : i < a.size
  · left; simp [Array.getD_eq_getD_getElem?, Array.getElem?_setIfInBounds, h]
  · right; simp [Array.getD_eq_getD_getElem?, Array.getElem?_setIfInBounds, h]

theorem pvFold_head (l : List Nat) (pv : Array Move) :
    (l.foldl (fun pv i => let k := 0 + 1 + i; pv.setIfInBounds (0 * 64 + k) (pv.getD ((0 + 1) * 64 + k) Move.null)) pv).getD 0 Move.null
      = pv.getD 0 Move.null := by
  induction l generalizing pv with
  | nil => rfl
  | cons i l ih =>
    simp only [List.foldl_cons]
    rw [ih]
    apply getD_setIfInBounds_ne
    omega

theorem pvInsert_head (pv : Array Move) (pvLen : Array Nat) (m : Move) :
    (Env.pvInsert pv pvLen 0 m).1.getD 0 Move.null = m ∨ (Env.pvInsert pv pvLen 0 m).1.getD 0 Move.null = pv.getD 0 Move.null := by
  unfold Env.pvInsert
  simp only
  rw [pvFold_head]
  exact getD_setIfInBounds_self pv (0 * 64 + 0) m Move.null

/-- `insert_pv_node` at the root puts the move at the head of row 0 (or changes nothing if the table were empty) -/
theorem insertPv_head (cfg : Cfg) (e : Env) (m : Move) (hp : e.ply = 0) :
    (e.insertPv cfg m).pvAt 0 0 = m ∨ (e.insertPv cfg m).pvAt 0 0 = e.pvAt 0 0 := by
  unfold Env.insertPv Env.pvAt
  simp only
  have hpv : ∀ e0 : Env, (e0.ev cfg [7, e0.ply.toUInt64, m.data.toUInt64] (fun _ => s!"pv {e0.ply} {m.hex}")).pv = e0.pv := fun _ => ev_pv ..
  have hpl : ∀ e0 : Env, (e0.ev cfg [7, e0.ply.toUInt64, m.data.toUInt64] (fun _ => s!"pv {e0.ply} {m.hex}")).ply = e0.ply := fun _ => ev_ply ..
  generalize hE : (if e.stopping = true then { e with postStopWrites := e.postStopWrites + 1 } else e : Env) = e0
  have h0pv : e0.pv = e.pv := by rw [← hE]; split <;> rfl
  have h0pl : e0.ply = 0 := by rw [← hE]; split <;> exact hp
  have h1 := hpv e0
  have h2 := hpl e0
  generalize e0.ev cfg [7, e0.ply.toUInt64, m.data.toUInt64] (fun _ => s!"pv {e0.ply} {m.hex}") = e1 at h1 h2
  rw [h2, h0pl, h1, h0pv]
  exact pvInsert_head e.pv e1.pvLen m

/-! ### the root move loop -/

theorem moveLoop_pvhead (R : Rules) (cfg : Cfg) (rec : Game → Nat → Int → Int → Env → Int × Env) (hrec : RecFrame rec)
    (g : Game) (depth nDepth : Nat) (inCheck : Bool) (beta : Int) :
    ∀ (ms : List Move) (ta : Int) (flag : Flag) (legal searched : Nat) (e : Env),
      e.ply = 0 → (∀ m ∈ ms, m ∈ R.generate g true) → (0 < legal → e.stopping = false) → PvHeadOk R g e →
      (moveLoop R cfg rec g depth nDepth inCheck beta ms ta flag legal searched e).2.rep.overflow = false →
      PvHeadOk R g (moveLoop R cfg rec g depth nDepth inCheck beta ms ta flag legal searched e).2 := by
  intro ms
  induction ms with
  | nil => intro ta flag legal searched e _ _ _ hk _; simpa [moveLoop] using hk
  | cons m ms ih =>
    intro ta flag legal searched e hp hms hl hk ho
    have hms' : ∀ m' ∈ ms, m' ∈ R.generate g true := fun m' h => hms m' (List.mem_cons_of_mem _ h)
    simp only [moveLoop] at ho ⊢
    cases hmk : R.make g m with
    | none => simp only [hmk] at ho; exact ih ta flag legal searched e hp hms' hl hk ho
    | some c =>
      simp only [hmk] at ho ⊢
      have hsc := searchChild_frame rec hrec c m searched depth nDepth inCheck ta beta
        { e with ply := e.ply + 1, rep := (e.rep.insert c.key).moveBack }
      generalize searchChild rec c m searched depth nDepth inCheck ta beta
        { e with ply := e.ply + 1, rep := (e.rep.insert c.key).moveBack } = r at hsc ho ⊢
      obtain ⟨score, e2⟩ := r
      simp only at ho ⊢
      have h3 : Frame e { e2 with ply := e2.ply - 1 } := Frame.down_up e _ e2 (insert_moveBack e.rep c.key) hsc
      have hst : ({ e2 with ply := e2.ply - 1 } : Env).stopping = e2.stopping := rfl
      have hpv3 : ({ e2 with ply := e2.ply - 1 } : Env).pv = e2.pv := rfl
      have hov3 : ({ e2 with ply := e2.ply - 1 } : Env).rep = e2.rep := rfl
      -- the child frame ran at ply 1: it left the head alone (if the history did not overflow there)
      have hhead : e2.rep.overflow = false → e2.pvAt 0 0 = e.pvAt 0 0 := fun ho2 => by
        have := Frame.head hsc ho2 (by simp)
        simpa [Env.pvAt] using this
      generalize ({ e2 with ply := e2.ply - 1 } : Env) = e3 at h3 hst hpv3 hov3 ho ⊢
      have hp3 : e3.rep.overflow = false → e3.ply = 0 := fun h => by rw [(h3.2 h).ply]; exact hp
      have hk3 : e3.rep.overflow = false → PvHeadOk R g e3 := fun h => by
        have : e3.pvAt 0 0 = e.pvAt 0 0 := by
          unfold Env.pvAt; rw [hpv3]; exact hhead (by rw [← hov3]; exact h)
        exact PvHeadOk.of_head this hk
      by_cases hstop : e2.stopping = true
      · rw [if_pos hstop] at ho ⊢
        exact hk3 ho
      · have hrun : e3.stopping = false := by rw [hst]; simpa using hstop
        rw [if_neg hstop] at ho ⊢
        by_cases hsc2 : score > ta
        · rw [if_pos hsc2] at ho ⊢
          have hpvf := insertPv_frame cfg e3 m hrun
          -- after the insert the head is `m` (generated, makeable) or what it was
          have hins : e3.rep.overflow = false → PvHeadOk R g (e3.insertPv cfg m) := fun h => by
            rcases insertPv_head cfg e3 m (hp3 h) with h' | h'
            · right; rw [h']; exact ⟨hms m (List.mem_cons_self ..), by simp [hmk]⟩
            · exact PvHeadOk.of_head h' (hk3 h)
          have hply4 : e3.rep.overflow = false → (e3.insertPv cfg m).ply = 0 := fun h => by
            have := (hpvf.1.2 (by
              cases hx : (e3.insertPv cfg m).rep.overflow with
              | false => rfl
              | true => exact absurd (show (e3.insertPv cfg m).rep.overflow = false from by
                  have : (e3.insertPv cfg m).rep = e3.rep := by
                    unfold Env.insertPv; simp only; rw [ev_rep]; split <;> rfl
                  rw [this]; exact h) (by rw [hx]; simp))).ply
            rw [this]; exact hp3 h
          have hrep4 : (e3.insertPv cfg m).rep = e3.rep := by
            unfold Env.insertPv; simp only; rw [ev_rep]; split <;> rfl
          generalize e3.insertPv cfg m = e4 at hpvf hins hply4 hrep4 ho ⊢
          obtain ⟨hpvf, hpvs⟩ := hpvf
          by_cases hb : score ≥ beta
          · rw [if_pos hb] at ho ⊢
            simp only at ho ⊢
            have ho3 : e3.rep.overflow = false := by
              rw [← hrep4]
              rw [ttRecord_rep] at ho
              revert ho
              split <;> (intro ho; exact ho)
            apply PvHeadOk.of_pv _ (hins ho3)
            rw [ttRecord_pv]; split <;> rfl
          · rw [if_neg hb] at ho ⊢
            revert ho
            split
            · intro ho
              have ho3 : e3.rep.overflow = false := by
                have hf := (moveLoop_frame R cfg rec hrec g depth nDepth inCheck beta ms score Flag.exact (legal + 1) (searched + 1)
                  { e4 with history := e4.history.setIfInBounds (m.piece * 64 + m.toSq) (e4.hist m.piece m.toSq + depth) } (fun _ => hpvs)).1
                cases hx : e3.rep.overflow with
                | false => rfl
                | true =>
                  have := hf.1 (by simpa [hrep4] using hx)
                  rw [this] at ho; exact absurd ho (by simp)
              exact ih score Flag.exact (legal + 1) (searched + 1) _ (hply4 ho3) hms' (fun _ => hpvs)
                (PvHeadOk.of_pv rfl (hins ho3)) ho
            · intro ho
              have ho3 : e3.rep.overflow = false := by
                have hf := (moveLoop_frame R cfg rec hrec g depth nDepth inCheck beta ms score Flag.exact (legal + 1) (searched + 1) e4 (fun _ => hpvs)).1
                cases hx : e3.rep.overflow with
                | false => rfl
                | true =>
                  have := hf.1 (by rw [hrep4]; exact hx)
                  rw [this] at ho; exact absurd ho (by simp)
              exact ih score Flag.exact (legal + 1) (searched + 1) e4 (hply4 ho3) hms' (fun _ => hpvs) (hins ho3) ho
        · rw [if_neg hsc2] at ho ⊢
          have ho3 : e3.rep.overflow = false := by
            have hf := (moveLoop_frame R cfg rec hrec g depth nDepth inCheck beta ms ta flag (legal + 1) (searched + 1) e3 (fun _ => hrun)).1
            cases hx : e3.rep.overflow with
            | false => rfl
            | true => have := hf.1 hx; rw [this] at ho; exact absurd ho (by simp)
          exact ih ta flag (legal + 1) (searched + 1) e3 (hp3 ho3) hms' (fun _ => hrun) (hk3 ho3) ho

/-! ### the root node -/

theorem scoreMove_same (g : Game) (m : Move) (e : Env) : (scoreMove g m e).2 = { e with scorePv := (scoreMove g m e).2.scorePv } := by
  unfold scoreMove
  split; · rfl
  split; · rfl
  split; · rfl
  split <;> rfl

theorem scoreAll_same (g : Game) (ms : List Move) (e : Env) (acc : Array (Int × Move)) :
    (scoreAll g ms e acc).2 = { e with scorePv := (scoreAll g ms e acc).2.scorePv } := by
  induction ms generalizing e acc with
  | nil => rfl
  | cons m ms ih =>
    simp only [scoreAll]
    rw [ih, scoreMove_same g m e]

theorem sortMoves_same (g : Game) (ms : List Move) (e : Env) :
    (sortMoves g ms e).2 = { e with scorePv := (sortMoves g ms e).2.scorePv } := scoreAll_same g ms e #[]

theorem finish_pv (cfg : Cfg) (g : Game) (depth : Nat) (inCheck : Bool) (out : LoopOut) (e : Env) :
    (finish cfg g depth inCheck (out, e)).2.pv = e.pv ∧ (finish cfg g depth inCheck (out, e)).2.rep = e.rep := by
  cases out with
  | ret v => exact ⟨rfl, rfl⟩
  | done ta flag legal =>
    simp only [finish]
    split
    · exact ⟨ev_pv .., ev_rep ..⟩
    · exact ⟨ttRecord_pv .., ttRecord_rep ..⟩

theorem maxPly_pos : ¬ (0 ≥ Gen.MAX_PLY - 1) := by decide

theorem searchMoves_pvhead (R : Rules) (cfg : Cfg) (rec : Game → Nat → Int → Int → Env → Int × Env) (hrec : RecFrame rec)
    (g : Game) (depth nDepth : Nat) (inCheck : Bool) (alpha beta : Int) (e : Env) (hp : e.ply = 0) (hk : PvHeadOk R g e)
    (ho : (searchMoves R cfg rec g depth nDepth inCheck alpha beta e).2.rep.overflow = false) :
    PvHeadOk R g (searchMoves R cfg rec g depth nDepth inCheck alpha beta e).2 := by
  unfold searchMoves at ho ⊢
  simp only at ho ⊢
  have h6 : (if e.followPv then enablePvScoring (R.generate g true) e else e).ply = 0 ∧
      (if e.followPv then enablePvScoring (R.generate g true) e else e).pv = e.pv := by
    split <;> exact ⟨hp, rfl⟩
  generalize (if e.followPv then enablePvScoring (R.generate g true) e else e) = e6 at h6 ho ⊢
  have hsame := sortMoves_same g (R.generate g true) e6
  have hmem := sortMoves_mem g (R.generate g true) e6
  generalize sortMoves g (R.generate g true) e6 = sm at hsame hmem ho ⊢
  have hp7 : sm.2.ply = 0 := by rw [hsame]; exact h6.1
  have hk7 : PvHeadOk R g sm.2 := PvHeadOk.of_pv (by rw [hsame]; exact h6.2) hk
  have hfin := finish_pv cfg g depth inCheck
    (moveLoop R cfg rec g depth nDepth inCheck beta sm.1 alpha Flag.alpha 0 0 sm.2).1
    (moveLoop R cfg rec g depth nDepth inCheck beta sm.1 alpha Flag.alpha 0 0 sm.2).2
  have hml := moveLoop_pvhead R cfg rec hrec g depth nDepth inCheck beta sm.1 alpha Flag.alpha 0 0 sm.2 hp7
    (fun m hm => (hmem m).mp hm) (fun h => absurd h (by omega)) hk7
  generalize moveLoop R cfg rec g depth nDepth inCheck beta sm.1 alpha Flag.alpha 0 0 sm.2 = lo at hfin hml ho ⊢
  obtain ⟨out, e8⟩ := lo
  simp only at hfin hml
  exact PvHeadOk.of_pv hfin.1 (hml (by rw [← hfin.2]; exact ho))

theorem expand_pvhead (R : Rules) (cfg : Cfg) (rec : Game → Nat → Int → Int → Env → Int × Env) (hrec : RecFrame rec)
    (g : Game) (depth : Nat) (alpha beta : Int) (e : Env) (hp : e.ply = 0) (hk : PvHeadOk R g e)
    (ho : (expand R cfg rec g depth alpha beta e).2.rep.overflow = false) :
    PvHeadOk R g (expand R cfg rec g depth alpha beta e).2 := by
  unfold expand at ho ⊢
  simp only at ho ⊢
  have hnull : nullMoveStep R rec g (if R.inCheck g then depth + 1 else depth) (R.inCheck g) beta { e with nodes := e.nodes + 1 }
      = (none, { e with nodes := e.nodes + 1 }) := by
    unfold nullMoveStep
    have : ¬ (({ e with nodes := e.nodes + 1 } : Env).ply > 0) := by simp [hp]
    simp [this]
  rw [hnull] at ho ⊢
  simp only at ho ⊢
  exact searchMoves_pvhead R cfg rec hrec g depth _ _ alpha beta _ hp (PvHeadOk.of_pv rfl hk) ho

theorem afterProbe_pvhead (R : Rules) (cfg : Cfg) (rec : Game → Nat → Int → Int → Env → Int × Env) (hrec : RecFrame rec)
    (g : Game) (depth : Nat) (alpha beta : Int) (e : Env) (hp : e.ply = 0) (hk : PvHeadOk R g e)
    (ho : (afterProbe R cfg rec g depth alpha beta e).2.rep.overflow = false) :
    PvHeadOk R g (afterProbe R cfg rec g depth alpha beta e).2 := by
  unfold afterProbe at ho ⊢
  simp only at ho ⊢
  have h2pl : ({ e with pvLen := e.pvLen.setIfInBounds e.ply e.ply } : Env).ply = 0 := hp
  have h2pv : ({ e with pvLen := e.pvLen.setIfInBounds e.ply e.ply } : Env).pv = e.pv := rfl
  generalize ({ e with pvLen := e.pvLen.setIfInBounds e.ply e.ply } : Env) = e2 at h2pl h2pv ho ⊢
  have c0 : ¬ (e.ply ≥ Gen.MAX_PLY - 1) := by rw [hp]; exact maxPly_pos
  rw [if_neg c0] at ho ⊢
  have h3pv := maybePoll_pv cfg e2
  have h3pl : (Env.maybePoll cfg e2).ply = 0 := by
    unfold Env.maybePoll; dsimp only
    split <;> (split <;> first | (rw [poll_ply]; exact h2pl) | exact h2pl)
  generalize Env.maybePoll cfg e2 = e3 at h3pv h3pl ho ⊢
  have hk3 : PvHeadOk R g e3 := PvHeadOk.of_pv (h3pv.trans h2pv) hk
  by_cases hc : (depth == 0 || g.halfMoves == 100) = true
  · rw [if_pos hc]
    exact PvHeadOk.of_pv (quiescence_pv R cfg qFuel g alpha beta e3) hk3
  · rw [if_neg hc] at ho ⊢
    exact expand_pvhead R cfg rec hrec g depth alpha beta e3 h3pl hk3 ho

/-- the root call of `negamax` keeps the PV head null-or-legal -/
theorem negamax_root_pvhead (R : Rules) (cfg : Cfg) (fuel : Nat) (g : Game) (depth : Nat) (alpha beta : Int) (e : Env)
    (hp : e.ply = 0) (hk : PvHeadOk R g e) (ho : (negamax R cfg fuel g depth alpha beta e).2.rep.overflow = false) :
    PvHeadOk R g (negamax R cfg fuel g depth alpha beta e).2 := by
  cases fuel with
  | zero => exact hk
  | succ fuel =>
    simp only [negamax] at ho ⊢
    have h1pl : (e.onNode cfg 1 g depth alpha beta).ply = 0 := by rw [onNode_ply]; exact hp
    have h1pv := onNode_pv cfg e 1 g depth alpha beta
    generalize e.onNode cfg 1 g depth alpha beta = e1 at h1pl h1pv ho ⊢
    have c1 : ¬ ((decide (e1.ply > 0) && e1.rep.isRepetition g.key) = true) := by simp [h1pl]
    have c2 : probeNode cfg g depth alpha beta e1 = Gen.UNKNOWN_SCORE := by
      unfold probeNode; simp [h1pl]
    rw [if_neg c1] at ho ⊢
    have c3 : ¬ ((probeNode cfg g depth alpha beta e1 != Gen.UNKNOWN_SCORE) = true) := by simp [c2]
    rw [if_neg c3] at ho ⊢
    exact afterProbe_pvhead R cfg _ (negamax_frame R cfg fuel) g depth alpha beta e1 h1pl (PvHeadOk.of_pv h1pv hk) ho

end Jence
