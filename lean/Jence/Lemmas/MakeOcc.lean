/-
  The three cached occupancy sets after `make_search_move`: each equals what the board after the move says
  (white pieces / black pieces / any piece), given that they did before.
-/
import Jence.Lemmas.MakeBoard
namespace Jence
open Jence

def whiteAt (v : Option Nat) : Bool := match v with | some q => decide (q < 6) | none => false
def blackAt (v : Option Nat) : Bool := match v with | some q => decide (6 ≤ q) | none => false

/-- bit set `x` holds `f` of the board, square by square -/
def OccF (f : Option Nat → Bool) (x : UInt64) (b : Board) : Prop := ∀ t, t < 64 → getBit x t = f (b t)

theorem occF_set (f : Option Nat → Bool) (x : UInt64) (b : Board) (s : Nat) (v : Option Nat) (hs : s < 64)
    (h : OccF f x b) (hv : f v = true) : OccF f (setBit x s) (b.set s v) := by
  intro t ht
  rw [getBit_setBit _ _ _ hs ht, h t ht]
  by_cases hts : t = s
  · subst hts; simp [hv]
  · have : ¬ s = t := fun h => hts h.symm
    simp [Board.set_ne _ _ _ _ hts, this]

theorem occF_unset (f : Option Nat → Bool) (x : UInt64) (b : Board) (s : Nat) (v : Option Nat) (hs : s < 64)
    (h : OccF f x b) (hv : f v = false) : OccF f (unsetBit x s) (b.set s v) := by
  intro t ht
  rw [getBit_unsetBit _ _ _ hs ht, h t ht]
  by_cases hts : t = s
  · subst hts; simp [hv]
  · have : ¬ s = t := fun h => hts h.symm
    simp [Board.set_ne _ _ _ _ hts, this]

theorem occF_congr (f : Option Nat → Bool) (x : UInt64) (b b' : Board) (h : OccF f x b)
    (hb : ∀ t, t < 64 → f (b t) = f (b' t)) : OccF f x b' := fun t ht => by rw [h t ht, hb t ht]

theorem Board.set_comm (b : Board) (s s' : Nat) (v v' : Option Nat) (h : s ≠ s') :
    (b.set s v).set s' v' = (b.set s' v').set s v := by
  funext t; unfold Board.set
  by_cases h1 : t = s' <;> by_cases h2 : t = s
  · exact absurd (h2.symm.trans h1) h
  · subst h1; simp [h2]
  · subst h2; simp [h1]
  · simp [h1, h2]

theorem setF_congr (f : Option Nat → Bool) (b1 b2 : Board) (s : Nat) (v1 v2 : Option Nat)
    (h : ∀ t, t < 64 → f (b1 t) = f (b2 t)) (hv : f v1 = f v2) : ∀ t, t < 64 → f ((b1.set s v1) t) = f ((b2.set s v2) t) := by
  intro t ht; unfold Board.set; split
  · exact hv
  · exact h t ht

theorem setF_absorb (f : Option Nat → Bool) (b1 b2 : Board) (s : Nat) (v : Option Nat)
    (h : ∀ t, t < 64 → f (b1 t) = f (b2 t)) (hs : s < 64) (hv : f (b1 s) = f v) : ∀ t, t < 64 → f (b1 t) = f ((b2.set s v) t) := by
  intro t ht; unfold Board.set; split
  · rename_i h'; rw [h']; exact hv
  · exact h t ht

/-! ### the occupancy fields, stage by stage -/

theorem preKeys_occ (g : Game) : (preKeys g).whiteOcc = g.whiteOcc ∧ (preKeys g).blackOcc = g.blackOcc ∧ (preKeys g).allOcc = g.allOcc := by
  unfold preKeys; split <;> exact ⟨rfl, rfl, rfl⟩

theorem preMove_occ (g : Game) (m : Move) : (preMove g m).whiteOcc = g.whiteOcc ∧ (preMove g m).blackOcc = g.blackOcc ∧
    (preMove g m).allOcc = setBit (unsetBit g.allOcc m.fromSq) m.toSq := ⟨rfl, rfl, rfl⟩

theorem preCapture_occ (g : Game) (m : Move) :
    (preCapture g m).whiteOcc = (if m.isCapture then (if g.white then g.whiteOcc else unsetBit g.whiteOcc (if m.isEnpassant then m.toSq - 8 else m.toSq)) else g.whiteOcc) ∧
    (preCapture g m).blackOcc = (if m.isCapture then (if g.white then unsetBit g.blackOcc (if m.isEnpassant then m.toSq + 8 else m.toSq) else g.blackOcc) else g.blackOcc) ∧
    (preCapture g m).allOcc = (if m.isCapture then (if m.isEnpassant then unsetBit g.allOcc (vsq g.white m.toSq) else g.allOcc) else g.allOcc) := by
  unfold preCapture
  by_cases hc : m.isCapture = true
  · rw [if_pos hc, if_pos hc, if_pos hc, if_pos hc]
    by_cases he : m.isEnpassant = true
    · rw [if_pos he, if_pos he, if_pos he, if_pos he]
      unfold vsq
      by_cases hw : g.white = true
      · rw [if_pos hw, if_pos hw, if_pos hw, if_pos hw]; exact ⟨rfl, rfl, rfl⟩
      · rw [if_neg hw, if_neg hw, if_neg hw, if_neg hw]; exact ⟨rfl, rfl, rfl⟩
    · rw [if_neg he, if_neg he, if_neg he, if_neg he]
      generalize hg0 : (if g.white = true then { g with blackOcc := unsetBit g.blackOcc m.toSq }
               else { g with whiteOcc := unsetBit g.whiteOcc m.toSq }) = g0
      have h0 : g0.whiteOcc = (if g.white = true then g.whiteOcc else unsetBit g.whiteOcc m.toSq) ∧
          g0.blackOcc = (if g.white = true then unsetBit g.blackOcc m.toSq else g.blackOcc) ∧ g0.allOcc = g.allOcc := by
        rw [← hg0]; split <;> exact ⟨rfl, rfl, rfl⟩
      simp only
      rcases captureLoop_scan g0 (if g.white = true then BP else WP) m.toSq 5 0 with ⟨p, hp1, _⟩ | ⟨hn, _⟩
      · rw [hp1]; exact h0
      · rw [hn]; exact h0
  · rw [if_neg hc, if_neg hc, if_neg hc, if_neg hc]; exact ⟨rfl, rfl, rfl⟩

theorem postOcc_occ (g : Game) (m : Move) :
    (postOcc g m).whiteOcc = (if g.white then setBit (unsetBit g.whiteOcc m.fromSq) m.toSq else g.whiteOcc) ∧
    (postOcc g m).blackOcc = (if g.white then g.blackOcc else setBit (unsetBit g.blackOcc m.fromSq) m.toSq) ∧
    (postOcc g m).allOcc = g.allOcc := by
  unfold postOcc; split <;> exact ⟨rfl, rfl, rfl⟩

theorem postClock_occ (g : Game) (m : Move) : (postClock g m).whiteOcc = g.whiteOcc ∧ (postClock g m).blackOcc = g.blackOcc ∧
    (postClock g m).allOcc = g.allOcc := by
  unfold postClock; split <;> exact ⟨rfl, rfl, rfl⟩

theorem castleRook_occ (g : Game) (r f t : Nat) :
    (castleRook g r f t).whiteOcc = (if r = WR then unsetBit (setBit g.whiteOcc t) f else g.whiteOcc) ∧
    (castleRook g r f t).blackOcc = (if r = WR then g.blackOcc else unsetBit (setBit g.blackOcc t) f) ∧
    (castleRook g r f t).allOcc = unsetBit (setBit g.allOcc t) f := by
  unfold castleRook
  simp only [Game.setBB]
  by_cases h : r = WR
  · subst h; exact ⟨rfl, rfl, rfl⟩
  · have : (r == WR) = false := by simpa using h
    rw [this]; simp only [Bool.false_eq_true, if_false, if_neg h]; exact ⟨trivial, trivial, trivial⟩

theorem postSpecial_occ (g : Game) (m : Move) :
    ((m.promotion ≠ PNONE ∨ m.isCastling = false) → (postSpecial g m).whiteOcc = g.whiteOcc ∧ (postSpecial g m).blackOcc = g.blackOcc ∧
      (postSpecial g m).allOcc = g.allOcc) ∧
    (∀ r f t, m.promotion = PNONE → m.isCastling = true → rookHop m.toSq = some (r, f, t) →
      postSpecial g m = castleRook g r f t) := by
  unfold postSpecial
  simp only
  refine ⟨fun h => ?_, fun r f t hpn hcs hhop => ?_⟩
  · by_cases hpr : (m.promotion != PNONE) = true
    · rw [if_pos hpr]; exact ⟨rfl, rfl, rfl⟩
    · rw [if_neg hpr]
      have hpn : m.promotion = PNONE := by simpa using hpr
      rcases h with h | h
      · exact absurd hpn h
      · rw [h]; exact ⟨rfl, rfl, rfl⟩
  · have hpr : ¬ ((m.promotion != PNONE) = true) := by simp [hpn]
    rw [if_neg hpr, if_pos hcs]
    unfold rookHop at hhop
    by_cases h62 : m.toSq = 62
    · rw [if_pos h62] at hhop; injection hhop with hhop; injection hhop with e1 e2; injection e2 with e2 e3
      subst e1; subst e2; subst e3; rw [h62]; rfl
    · rw [if_neg h62] at hhop
      by_cases h58 : m.toSq = 58
      · rw [if_pos h58] at hhop; injection hhop with hhop; injection hhop with e1 e2; injection e2 with e2 e3
        subst e1; subst e2; subst e3; rw [h58]; rfl
      · rw [if_neg h58] at hhop
        by_cases h6 : m.toSq = 6
        · rw [if_pos h6] at hhop; injection hhop with hhop; injection hhop with e1 e2; injection e2 with e2 e3
          subst e1; subst e2; subst e3; rw [h6]; rfl
        · rw [if_neg h6] at hhop
          by_cases h2 : m.toSq = 2
          · rw [if_pos h2] at hhop; injection hhop with hhop; injection hhop with e1 e2; injection e2 with e2 e3
            subst e1; subst e2; subst e3; rw [h2]; rfl
          · rw [if_neg h2] at hhop; exact absurd hhop (by simp)

theorem postTail_occ (g : Game) (m : Move) :
    (postSide (postRights (postEp g m) m)).whiteOcc = g.whiteOcc ∧ (postSide (postRights (postEp g m) m)).blackOcc = g.blackOcc ∧
    (postSide (postRights (postEp g m) m)).allOcc = g.allOcc := by
  have h1 : ∀ x : Game, (postSide x).whiteOcc = x.whiteOcc ∧ (postSide x).blackOcc = x.blackOcc ∧ (postSide x).allOcc = x.allOcc := by
    intro x; unfold postSide; simp only; split <;> exact ⟨rfl, rfl, rfl⟩
  have h2 : (postEp g m).whiteOcc = g.whiteOcc ∧ (postEp g m).blackOcc = g.blackOcc ∧ (postEp g m).allOcc = g.allOcc := by
    unfold postEp; split
    · split <;> exact ⟨rfl, rfl, rfl⟩
    · exact ⟨rfl, rfl, rfl⟩
  obtain ⟨a1, a2, a3⟩ := h1 (postRights (postEp g m) m)
  obtain ⟨b1, b2, b3⟩ := h2
  exact ⟨by rw [a1]; exact b1, by rw [a2]; exact b2, by rw [a3]; exact b3⟩

/-! ### facts a fitting move gives -/

theorem own_not_enemy {w : Bool} {q : Nat} (h1 : ownP w q) (h2 : enemyP w q) : False := by
  unfold ownP at h1; unfold enemyP at h2; cases w <;> simp at h1 h2 <;> omega

theorem MoveFits.ep_cap {b : Board} {w : Bool} {m : Move} (fits : MoveFits b w m) (hc : m.isCapture = false) : m.isEnpassant = false := by
  cases he : m.isEnpassant
  · rfl
  · have := (fits.ep he).1; rw [hc] at this; exact absurd this (by simp)

theorem MoveFits.to_ne_from {b : Board} {w : Bool} {m : Move} (fits : MoveFits b w m) : m.toSq ≠ m.fromSq := by
  intro heq
  have hsrc := fits.src
  rw [← heq] at hsrc
  cases hc : m.isCapture
  · have := fits.quiet hc; rw [this] at hsrc; exact absurd hsrc (by simp)
  · cases he : m.isEnpassant
    · obtain ⟨v, hv, hen, _⟩ := fits.cap hc he
      rw [hv] at hsrc; injection hsrc with hsrc; subst hsrc
      exact own_not_enemy fits.piece hen
    · have := (fits.ep he).2.1; rw [this] at hsrc; exact absurd hsrc (by simp)

/-- the en-passant victim square is neither end of the move and is on the board -/
theorem MoveFits.vsq_facts {b : Board} {w : Bool} {m : Move} (fits : MoveFits b w m) (he : m.isEnpassant = true) :
    vsq w m.toSq ≠ m.toSq ∧ vsq w m.toSq ≠ m.fromSq ∧ vsq w m.toSq < 64 ∧ enemyP w (if w then BP else WP) := by
  obtain ⟨_, hto, hlt, hge, hv, _, _⟩ := fits.ep he
  have hBP : BP = 6 := rfl
  have hWP : WP = 0 := rfl
  refine ⟨?_, ?_, ?_, ?_⟩
  · unfold vsq; cases w
    · have := hge rfl; simp; omega
    · simp
  · intro heq; rw [heq, fits.src] at hv; injection hv with hv
    have := fits.piece; unfold ownP at this
    cases w <;> simp at this hv <;> omega
  · unfold vsq; cases w
    · have := fits.toLt; simp; omega
    · have := hlt rfl; simp; omega
  · unfold enemyP; cases w <;> simp <;> omega

theorem applyB_ep {b : Board} {w : Bool} {m : Move} (fits : MoveFits b w m) (he : m.isEnpassant = true) :
    applyB b w m = ((b.set m.fromSq none).set (vsq w m.toSq) none).set m.toSq (some m.piece) := by
  obtain ⟨_, _, _, _, _, hpn, hcs⟩ := fits.ep he
  unfold applyB
  simp only [he, if_true, hcs, Bool.false_eq_true, if_false]
  rw [if_neg (by simp [hpn])]

theorem applyB_plain {b : Board} {w : Bool} {m : Move} (he : m.isEnpassant = false) (hcs : m.isCastling = false) :
    applyB b w m = (b.set m.fromSq none).set m.toSq (some (if m.promotion ≠ PNONE then m.promotion else m.piece)) := by
  unfold applyB
  simp only [he, hcs, Bool.false_eq_true, if_false]

theorem applyB_castle {b : Board} {w : Bool} {m : Move} (fits : MoveFits b w m) (hcs : m.isCastling = true) (r f t : Nat)
    (hhop : rookHop m.toSq = some (r, f, t)) :
    applyB b w m = (((b.set m.fromSq none).set m.toSq (some m.piece)).set f none).set t (some r) := by
  obtain ⟨hpn, hc, _⟩ := fits.castle hcs
  have he := fits.ep_cap hc
  unfold applyB
  simp only [he, hcs, Bool.false_eq_true, if_false, if_true, hhop]
  rw [if_neg (by simp [hpn])]

/-! ### per kind of move: the updated bit set holds `f` of the new board -/

section kinds
variable {b : Board} {w : Bool} {m : Move} (f : Option Nat → Bool) (x : UInt64)

theorem movedPiece_lt (fits : MoveFits b w m) : m.piece < 12 := ownP_lt fits.piece

/-- castling, a set that follows both the king and the rook (own colour, or all pieces) -/
theorem occ_castle_own (fits : MoveFits b w m) (hcs : m.isCastling = true) (r fr t : Nat) (hhop : rookHop m.toSq = some (r, fr, t))
    (hn : f none = false) (hp : f (some m.piece) = true) (hr : f (some r) = true) (h : OccF f x b) :
    OccF f (unsetBit (setBit (setBit (unsetBit x m.fromSq) m.toSq) t) fr) (applyB b w m) := by
  obtain ⟨_, _, n3, _, hfl, htl⟩ := rookHop_ne _ _ _ _ hhop
  rw [applyB_castle fits hcs r fr t hhop, Board.set_comm _ fr t none (some r) (fun h => n3 h.symm)]
  exact occF_unset f _ _ fr none hfl (occF_set f _ _ t (some r) htl (occF_set f _ _ m.toSq (some m.piece) fits.toLt
    (occF_unset f _ _ m.fromSq none fits.fromLt h hn) hp) hr) hn

/-- castling, the other colour's set: unchanged -/
theorem occ_castle_opp (fits : MoveFits b w m) (hcs : m.isCastling = true) (r fr t : Nat) (hhop : rookHop m.toSq = some (r, fr, t))
    (hn : f none = false) (hp : f (some m.piece) = false) (hr : f (some r) = false) (h : OccF f x b) :
    OccF f x (applyB b w m) := by
  obtain ⟨_, _, _, _, hfl, htl⟩ := rookHop_ne _ _ _ _ hhop
  obtain ⟨_, hc, r', f', t', hhop', hbf, hbt, _, _, _, _⟩ := fits.castle hcs
  rw [hhop] at hhop'; injection hhop' with e; injection e with e1 e2; injection e2 with e2 e3
  subst e1; subst e2; subst e3
  rw [applyB_castle fits hcs r fr t hhop]
  apply occF_congr f x b _ h
  apply setF_absorb f b _ t (some r) _ htl (by rw [hbt, hn, hr])
  apply setF_absorb f b _ fr none _ hfl (by rw [hbf, hr, hn])
  apply setF_absorb f b _ m.toSq (some m.piece) _ fits.toLt (by rw [fits.quiet hc, hn, hp])
  apply setF_absorb f b _ m.fromSq none _ fits.fromLt (by rw [fits.src, hp, hn])
  intro t _; rfl

/-- en passant, the mover's set -/
theorem occ_ep_own (fits : MoveFits b w m) (he : m.isEnpassant = true)
    (hn : f none = false) (hp : f (some m.piece) = true) (hv : f (some (if w then BP else WP)) = false) (h : OccF f x b) :
    OccF f (setBit (unsetBit x m.fromSq) m.toSq) (applyB b w m) := by
  obtain ⟨v1, v2, v3, _⟩ := fits.vsq_facts he
  have hb := (fits.ep he).2.2.2.2.1
  rw [applyB_ep fits he]
  apply occF_congr f _ _ _ (occF_set f _ _ m.toSq (some m.piece) fits.toLt (occF_unset f _ _ m.fromSq none fits.fromLt h hn) hp)
  apply setF_congr f _ _ m.toSq _ _ _ rfl
  apply setF_absorb f _ _ (vsq w m.toSq) none _ v3 (by rw [Board.set_ne _ _ _ _ v2, hb, hv, hn])
  intro t _; rfl

/-- en passant, the victim's set -/
theorem occ_ep_opp (fits : MoveFits b w m) (he : m.isEnpassant = true)
    (hn : f none = false) (hp : f (some m.piece) = false) (h : OccF f x b) :
    OccF f (unsetBit x (vsq w m.toSq)) (applyB b w m) := by
  obtain ⟨v1, v2, v3, _⟩ := fits.vsq_facts he
  have hto := (fits.ep he).2.1
  rw [applyB_ep fits he, Board.set_comm _ m.fromSq (vsq w m.toSq) none none (fun h => v2 h.symm)]
  apply occF_congr f _ _ _ (occF_unset f _ _ (vsq w m.toSq) none v3 h hn)
  apply setF_absorb f _ _ m.toSq (some m.piece) _ fits.toLt (by rw [Board.set_ne _ _ _ _ (fun h => v1 h.symm), hto, hn, hp])
  apply setF_absorb f _ _ m.fromSq none _ fits.fromLt (by rw [Board.set_ne _ _ _ _ (fun h => v2 h.symm), fits.src, hp, hn])
  intro t _; rfl

/-- en passant, the set of all pieces -/
theorem occ_ep_all (fits : MoveFits b w m) (he : m.isEnpassant = true) (h : OccF Option.isSome x b) :
    OccF Option.isSome (unsetBit (setBit (unsetBit x m.fromSq) m.toSq) (vsq w m.toSq)) (applyB b w m) := by
  obtain ⟨v1, v2, v3, _⟩ := fits.vsq_facts he
  rw [applyB_ep fits he, Board.set_comm _ (vsq w m.toSq) m.toSq none (some m.piece) v1]
  exact occF_unset _ _ _ _ none v3 (occF_set _ _ _ m.toSq (some m.piece) fits.toLt
    (occF_unset _ _ _ m.fromSq none fits.fromLt h rfl) rfl) rfl

/-- an ordinary move (quiet, capture, promotion): a set that follows the moving piece -/
theorem occ_plain_own (fits : MoveFits b w m) (he : m.isEnpassant = false) (hcs : m.isCastling = false)
    (hn : f none = false) (hp : f (some m.piece) = true) (hpr : m.promotion ≠ PNONE → f (some m.promotion) = true) (h : OccF f x b) :
    OccF f (setBit (unsetBit x m.fromSq) m.toSq) (applyB b w m) := by
  rw [applyB_plain he hcs]
  apply occF_congr f _ _ _ (occF_set f _ _ m.toSq (some m.piece) fits.toLt (occF_unset f _ _ m.fromSq none fits.fromLt h hn) hp)
  apply setF_congr f _ _ m.toSq _ _ (fun t _ => rfl)
  split
  · rename_i h'; rw [hp, hpr h']
  · rfl

/-- an ordinary capture, the victim's set -/
theorem occ_plain_opp_cap (fits : MoveFits b w m) (he : m.isEnpassant = false) (hcs : m.isCastling = false)
    (hn : f none = false) (hp : f (some m.piece) = false) (hpr : m.promotion ≠ PNONE → f (some m.promotion) = false) (h : OccF f x b) :
    OccF f (unsetBit x m.toSq) (applyB b w m) := by
  have hne := fits.to_ne_from
  rw [applyB_plain he hcs, Board.set_comm _ m.fromSq m.toSq _ _ (fun h => hne h.symm)]
  apply occF_congr f _ _ _ (occF_unset f _ _ m.toSq none fits.toLt h hn)
  apply setF_absorb f _ _ m.fromSq none _ fits.fromLt (by rw [Board.set_ne _ _ _ _ (fun h => hne h.symm), fits.src, hp, hn])
  apply setF_congr f _ _ m.toSq _ _ (fun t _ => rfl)
  split
  · rename_i h'; rw [hn, hpr h']
  · rw [hn, hp]

/-- an ordinary non-capture, the other colour's set: unchanged -/
theorem occ_plain_opp_quiet (fits : MoveFits b w m) (hc : m.isCapture = false) (hcs : m.isCastling = false)
    (hn : f none = false) (hp : f (some m.piece) = false) (hpr : m.promotion ≠ PNONE → f (some m.promotion) = false) (h : OccF f x b) :
    OccF f x (applyB b w m) := by
  rw [applyB_plain (fits.ep_cap hc) hcs]
  apply occF_congr f x b _ h
  apply setF_absorb f b _ m.toSq _ _ fits.toLt (by
    rw [fits.quiet hc, hn]
    split
    · rename_i h'; rw [hpr h']
    · rw [hp])
  apply setF_absorb f b _ m.fromSq none _ fits.fromLt (by rw [fits.src, hp, hn])
  intro t _; rfl

end kinds

theorem whiteAt_own (q : Nat) (h : ownP true q) : whiteAt (some q) = true := by unfold ownP at h; simpa [whiteAt] using h
theorem whiteAt_enemy (q : Nat) (h : ownP false q) : whiteAt (some q) = false := by unfold ownP at h; simp [whiteAt] at h ⊢; omega
theorem blackAt_own (q : Nat) (h : ownP false q) : blackAt (some q) = true := by unfold ownP at h; simp [blackAt] at h ⊢; omega
theorem blackAt_enemy (q : Nat) (h : ownP true q) : blackAt (some q) = false := by unfold ownP at h; simp [blackAt] at h ⊢; omega

/-- the occupancy fields before the check test -/
theorem makePre_occ (g : Game) (m : Move) :
    (makePre g m).white = g.white ∧
    (makePre g m).whiteOcc = (if m.isCapture then (if g.white then g.whiteOcc else unsetBit g.whiteOcc (if m.isEnpassant then m.toSq - 8 else m.toSq)) else g.whiteOcc) ∧
    (makePre g m).blackOcc = (if m.isCapture then (if g.white then unsetBit g.blackOcc (if m.isEnpassant then m.toSq + 8 else m.toSq) else g.blackOcc) else g.blackOcc) ∧
    (makePre g m).allOcc = (if m.isCapture then (if m.isEnpassant then unsetBit (setBit (unsetBit g.allOcc m.fromSq) m.toSq) (vsq g.white m.toSq)
        else setBit (unsetBit g.allOcc m.fromSq) m.toSq) else setBit (unsetBit g.allOcc m.fromSq) m.toSq) := by
  unfold makePre
  obtain ⟨c1, c2, c3⟩ := preCapture_occ (preMove (preKeys g) m) m
  obtain ⟨k1, k2, k3⟩ := preKeys_occ g
  obtain ⟨_, kw⟩ := preKeys_same g
  have hw1 : (preMove (preKeys g) m).white = g.white := by rw [preMove_white, kw]
  have m1 : (preMove (preKeys g) m).whiteOcc = g.whiteOcc := k1
  have m2 : (preMove (preKeys g) m).blackOcc = g.blackOcc := k2
  have m3 : (preMove (preKeys g) m).allOcc = setBit (unsetBit g.allOcc m.fromSq) m.toSq := by
    show setBit (unsetBit (preKeys g).allOcc m.fromSq) m.toSq = _; rw [k3]
  rw [c1, c2, c3, preCapture_white, hw1, m1, m2, m3]
  exact ⟨rfl, rfl, rfl, rfl⟩

/-- the occupancy fields of the new position, for a move that is not castling (or that promotes) -/
theorem makePost_occ_plain (g : Game) (m : Move) (h : m.promotion ≠ PNONE ∨ m.isCastling = false) :
    (makePost g m).whiteOcc = (if g.white then setBit (unsetBit g.whiteOcc m.fromSq) m.toSq else g.whiteOcc) ∧
    (makePost g m).blackOcc = (if g.white then g.blackOcc else setBit (unsetBit g.blackOcc m.fromSq) m.toSq) ∧
    (makePost g m).allOcc = g.allOcc := by
  unfold makePost
  obtain ⟨t1, t2, t3⟩ := postTail_occ (postSpecial (postClock (postOcc g m) m) m) m
  obtain ⟨s1, s2, s3⟩ := (postSpecial_occ (postClock (postOcc g m) m) m).1 h
  obtain ⟨c1, c2, c3⟩ := postClock_occ (postOcc g m) m
  obtain ⟨o1, o2, o3⟩ := postOcc_occ g m
  rw [t1, t2, t3, s1, s2, s3, c1, c2, c3, o1, o2, o3]
  exact ⟨rfl, rfl, rfl⟩

theorem makePost_occ_castle (g : Game) (m : Move) (hpn : m.promotion = PNONE) (hcs : m.isCastling = true) (r f t : Nat)
    (hhop : rookHop m.toSq = some (r, f, t)) :
    (makePost g m).whiteOcc = (if r = WR then unsetBit (setBit (if g.white then setBit (unsetBit g.whiteOcc m.fromSq) m.toSq else g.whiteOcc) t) f
        else (if g.white then setBit (unsetBit g.whiteOcc m.fromSq) m.toSq else g.whiteOcc)) ∧
    (makePost g m).blackOcc = (if r = WR then (if g.white then g.blackOcc else setBit (unsetBit g.blackOcc m.fromSq) m.toSq)
        else unsetBit (setBit (if g.white then g.blackOcc else setBit (unsetBit g.blackOcc m.fromSq) m.toSq) t) f) ∧
    (makePost g m).allOcc = unsetBit (setBit g.allOcc t) f := by
  unfold makePost
  obtain ⟨t1, t2, t3⟩ := postTail_occ (postSpecial (postClock (postOcc g m) m) m) m
  have hs := (postSpecial_occ (postClock (postOcc g m) m) m).2 r f t hpn hcs hhop
  obtain ⟨r1, r2, r3⟩ := castleRook_occ (postClock (postOcc g m) m) r f t
  obtain ⟨c1, c2, c3⟩ := postClock_occ (postOcc g m) m
  obtain ⟨o1, o2, o3⟩ := postOcc_occ g m
  rw [t1, t2, t3, hs, r1, r2, r3, c1, c2, c3, o1, o2, o3]
  exact ⟨rfl, rfl, rfl⟩

theorem rookHop_rook (to r f t : Nat) (h : rookHop to = some (r, f, t)) : r = WR ∨ r = BR := by
  unfold rookHop at h
  split at h
  · injection h with h; injection h with e1 _; exact Or.inl e1.symm
  · split at h
    · injection h with h; injection h with e1 _; exact Or.inl e1.symm
    · split at h
      · injection h with h; injection h with e1 _; exact Or.inr e1.symm
      · split at h
        · injection h with h; injection h with e1 _; exact Or.inr e1.symm
        · exact absurd h (by simp)

/-- **the cached occupancy sets after `make_search_move`** are the white pieces, the black pieces and all pieces of the
    new board, given that they were of the old one -/
theorem makeCore_occ_force (g : Game) (m : Move) (b : Board)
    (hW : OccF whiteAt g.whiteOcc b) (hB : OccF blackAt g.blackOcc b) (hA : OccF Option.isSome g.allOcc b)
    (fits : MoveFits b g.white m) :
    OccF whiteAt (makeForce g m).whiteOcc (applyB b g.white m) ∧ OccF blackAt (makeForce g m).blackOcc (applyB b g.white m) ∧
    OccF Option.isSome (makeForce g m).allOcc (applyB b g.white m) := by
  unfold makeForce
  obtain ⟨pw, p1, p2, p3⟩ := makePre_occ g m
  have hWP : WP = 0 := rfl
  have hBP : BP = 6 := rfl
  have hWR : WR = 3 := rfl
  have hBR : BR = 9 := rfl
  by_cases hcs : m.isCastling = true
  · -- castling
    obtain ⟨hpn, hc, r, f, t, hhop, _, _, _, _, hro, _⟩ := fits.castle hcs
    obtain ⟨q1, q2, q3⟩ := makePost_occ_castle (makePre g m) m hpn hcs r f t hhop
    rw [q1, q2, q3, pw, p1, p2, p3]
    simp only [hc, Bool.false_eq_true, if_false]
    cases hw : g.white
    · rw [hw] at fits hro
      have hr : r ≠ WR := by
        rcases rookHop_rook _ _ _ _ hhop with h | h
        · subst h; unfold ownP at hro; simp at hro <;> omega
        · rw [h]; decide
      simp only [Bool.false_eq_true, if_false, if_neg hr]
      exact ⟨occ_castle_opp whiteAt _ fits hcs r f t hhop rfl (whiteAt_enemy _ fits.piece) (whiteAt_enemy _ hro) hW,
        occ_castle_own blackAt _ fits hcs r f t hhop rfl (blackAt_own _ fits.piece) (blackAt_own _ hro) hB,
        occ_castle_own Option.isSome _ fits hcs r f t hhop rfl rfl rfl hA⟩
    · rw [hw] at fits hro
      have hr : r = WR := by
        rcases rookHop_rook _ _ _ _ hhop with h | h
        · exact h
        · subst h; unfold ownP at hro; simp at hro <;> omega
      simp only [if_true, if_pos hr]
      exact ⟨occ_castle_own whiteAt _ fits hcs r f t hhop rfl (whiteAt_own _ fits.piece) (whiteAt_own _ hro) hW,
        occ_castle_opp blackAt _ fits hcs r f t hhop rfl (blackAt_enemy _ fits.piece) (blackAt_enemy _ hro) hB,
        occ_castle_own Option.isSome _ fits hcs r f t hhop rfl rfl rfl hA⟩
  · have hcf : m.isCastling = false := by simpa using hcs
    obtain ⟨q1, q2, q3⟩ := makePost_occ_plain (makePre g m) m (Or.inr hcf)
    rw [q1, q2, q3, pw, p1, p2, p3]
    by_cases he : m.isEnpassant = true
    · -- en passant
      have hc := (fits.ep he).1
      simp only [hc, he, if_true]
      cases hw : g.white
      · rw [hw] at fits
        simp only [Bool.false_eq_true, if_false]
        exact ⟨by have := occ_ep_opp whiteAt g.whiteOcc fits he rfl (whiteAt_enemy _ fits.piece) hW; simpa [vsq] using this,
          occ_ep_own blackAt _ fits he rfl (blackAt_own _ fits.piece) (by simp [blackAt]) hB,
          occ_ep_all _ fits he hA⟩
      · rw [hw] at fits
        simp only [if_true]
        exact ⟨occ_ep_own whiteAt _ fits he rfl (whiteAt_own _ fits.piece) (by simp [whiteAt]) hW,
          by have := occ_ep_opp blackAt g.blackOcc fits he rfl (blackAt_enemy _ fits.piece) hB; simpa [vsq] using this,
          occ_ep_all _ fits he hA⟩
    · have hef : m.isEnpassant = false := by simpa using he
      simp only [hef, Bool.false_eq_true, if_false]
      by_cases hc : m.isCapture = true
      · simp only [hc, if_true]
        cases hw : g.white
        · rw [hw] at fits
          simp only [Bool.false_eq_true, if_false]
          exact ⟨occ_plain_opp_cap whiteAt _ fits hef hcf rfl (whiteAt_enemy _ fits.piece) (fun h => whiteAt_enemy _ (fits.promo h).1) hW,
            occ_plain_own blackAt _ fits hef hcf rfl (blackAt_own _ fits.piece) (fun h => blackAt_own _ (fits.promo h).1) hB,
            occ_plain_own Option.isSome _ fits hef hcf rfl rfl (fun _ => rfl) hA⟩
        · rw [hw] at fits
          simp only [if_true]
          exact ⟨occ_plain_own whiteAt _ fits hef hcf rfl (whiteAt_own _ fits.piece) (fun h => whiteAt_own _ (fits.promo h).1) hW,
            occ_plain_opp_cap blackAt _ fits hef hcf rfl (blackAt_enemy _ fits.piece) (fun h => blackAt_enemy _ (fits.promo h).1) hB,
            occ_plain_own Option.isSome _ fits hef hcf rfl rfl (fun _ => rfl) hA⟩
      · have hcq : m.isCapture = false := by simpa using hc
        simp only [hcq, Bool.false_eq_true, if_false]
        cases hw : g.white
        · rw [hw] at fits
          simp only [Bool.false_eq_true, if_false]
          exact ⟨occ_plain_opp_quiet whiteAt _ fits hcq hcf rfl (whiteAt_enemy _ fits.piece) (fun h => whiteAt_enemy _ (fits.promo h).1) hW,
            occ_plain_own blackAt _ fits hef hcf rfl (blackAt_own _ fits.piece) (fun h => blackAt_own _ (fits.promo h).1) hB,
            occ_plain_own Option.isSome _ fits hef hcf rfl rfl (fun _ => rfl) hA⟩
        · rw [hw] at fits
          simp only [if_true]
          exact ⟨occ_plain_own whiteAt _ fits hef hcf rfl (whiteAt_own _ fits.piece) (fun h => whiteAt_own _ (fits.promo h).1) hW,
            occ_plain_opp_quiet blackAt _ fits hcq hcf rfl (blackAt_enemy _ fits.piece) (fun h => blackAt_enemy _ (fits.promo h).1) hB,
            occ_plain_own Option.isSome _ fits hef hcf rfl rfl (fun _ => rfl) hA⟩

theorem makeCore_occ (g g' : Game) (m : Move) (b : Board)
    (hW : OccF whiteAt g.whiteOcc b) (hB : OccF blackAt g.blackOcc b) (hA : OccF Option.isSome g.allOcc b)
    (fits : MoveFits b g.white m) (hmk : makeCore g m = some g') :
    OccF whiteAt g'.whiteOcc (applyB b g.white m) ∧ OccF blackAt g'.blackOcc (applyB b g.white m) ∧
    OccF Option.isSome g'.allOcc (applyB b g.white m) := by
  have := makeCore_some hmk
  subst this
  exact makeCore_occ_force g m b hW hB hA fits

end Jence
