/-
  The iterative-deepening loop, seen as the list of its iterations (depth, window, score), and what the shallow
  iterations (nominal depth at most 2, table bypassed) are known to return.
-/
import Jence.Lemmas.NVal
import Jence.Lemmas.Top
namespace Jence
open Jence

/-- one iteration of the loop: nominal depth, the aspiration window it was searched with, the score it came back with -/
structure Iter where
  depth : Nat
  alpha : Int
  beta : Int
  score : Int

/-- the iterations `idLoop` runs, in order (same recursion as `idLoop`, recording instead of returning) -/
def idTrace (R : Rules) (cfg : Cfg) (g : Game) : Nat → Nat → Int → Int → Env → List Iter
  | 0, _, _, _, _ => []
  | count + 1, cur, alpha, beta, e =>
    let r := negamax R cfg negaFuel g cur alpha beta { e with followPv := true }
    ⟨cur, alpha, beta, r.1⟩ ::
      (if r.2.stopping then [] else
       if r.1 <= alpha || r.1 >= beta then idTrace R cfg g count (cur + 1) (-Gen.INFINITY) Gen.INFINITY r.2
       else idTrace R cfg g count (cur + 1) (r.1 - 50) (r.1 + 50) (r.2.print (infoLine r.1 cur r.2)))

/-- the score `idLoop` returns is the score of the last iteration it ran -/
theorem idLoop_score (R : Rules) (cfg : Cfg) (g : Game) :
    ∀ (count cur : Nat) (alpha beta score : Int) (e : Env),
      (idLoop R cfg g count cur alpha beta score e).1 = ((idTrace R cfg g count cur alpha beta e).getLast?.map Iter.score).getD score := by
  intro count
  induction count with
  | zero => intro cur alpha beta score e; rfl
  | succ count ih =>
    intro cur alpha beta score e
    simp only [idLoop, idTrace]
    generalize negamax R cfg negaFuel g cur alpha beta { e with followPv := true } = r
    obtain ⟨sc, e1⟩ := r
    simp only
    by_cases hs : e1.stopping = true
    · rw [if_pos hs, if_pos hs]; rfl
    · rw [if_neg hs, if_neg hs]
      by_cases hw : (decide (sc ≤ alpha) || decide (sc ≥ beta)) = true
      · rw [if_pos hw, if_pos hw, ih]
        cases idTrace R cfg g count (cur + 1) (-Gen.INFINITY) Gen.INFINITY e1 with
        | nil => rfl
        | cons x xs => rw [List.getLast?_cons_cons]; cases h : (x :: xs).getLast? with
          | none => simp at h
          | some y => rfl
      · rw [if_neg hw, if_neg hw, ih]
        cases idTrace R cfg g count (cur + 1) (sc - 50) (sc + 50) (e1.print (infoLine sc cur e1)) with
        | nil => rfl
        | cons x xs => rw [List.getLast?_cons_cons]; cases h : (x :: xs).getLast? with
          | none => simp at h
          | some y => rfl

/-- **every shallow iteration is a sound alpha-beta answer for the minimax value** of its depth -/
theorem idLoop_value (R : Rules) (cfg : Cfg) (hbyp : cfg.ttBypass = true) (g : Game) (H : List UInt64) :
    ∀ (count cur : Nat) (alpha beta score : Int) (e : Env), alpha < beta → e.ply = 0 → e.rep.pre = H →
      Clean (idLoop R cfg g count cur alpha beta score e).2.2 →
      ∀ it ∈ idTrace R cfg g count cur alpha beta e, it.depth ≤ 2 →
        it.alpha < it.beta ∧ Sound it.score (nVal R H negaFuel g it.depth 0) it.alpha it.beta := by
  intro count
  induction count with
  | zero => intro cur alpha beta score e _ _ _ _ it hit; simp [idTrace] at hit
  | succ count ih =>
    intro cur alpha beta score e hab hp hH hc it hit hd
    simp only [idLoop] at hc
    simp only [idTrace] at hit
    have hn := negamax_frame R cfg negaFuel g cur alpha beta { e with followPv := true }
    have hv := fun hd' : cur ≤ 2 => negamax_value R cfg hbyp H negaFuel g cur alpha beta { e with followPv := true } hd' hab
      (by show e.ply ≤ 63; omega) (by show e.ply + negaFuel ≥ Gen.MAX_PLY; unfold negaFuel; omega) hH
    generalize negamax R cfg negaFuel g cur alpha beta { e with followPv := true } = r at hn hv hc hit
    obtain ⟨sc, e1⟩ := r
    simp only at hn hv hc hit
    have hINF : -Gen.INFINITY < Gen.INFINITY := by decide
    by_cases hs : e1.stopping = true
    · rw [if_pos hs] at hc
      exact absurd hc.2 (by simp only at *; rw [hs]; simp)
    · rw [if_neg hs] at hc hit
      have hrun : e1.stopping = false := by simpa using hs
      have hc1 : Clean e1 := by
        by_cases hw : (decide (sc ≤ alpha) || decide (sc ≥ beta)) = true
        · rw [if_pos hw] at hc
          exact (idLoop_frame R cfg g count (cur + 1) (-Gen.INFINITY) Gen.INFINITY sc e1).clean_back hc
        · rw [if_neg hw] at hc
          exact ((print_frame e1 _ hrun).trans (idLoop_frame R cfg g count (cur + 1) (sc - 50) (sc + 50) sc _)).clean_back hc
      have core := hn.2 hc1.1
      have hp1 : e1.ply = 0 := by rw [core.ply]; exact hp
      have hH1 : e1.rep.pre = H := by rw [core.repPre]; exact hH
      rcases List.mem_cons.1 hit with rfl | hit
      · have := hv hd hc1; rw [hp] at this; exact ⟨hab, this⟩
      · by_cases hw : (decide (sc ≤ alpha) || decide (sc ≥ beta)) = true
        · rw [if_pos hw] at hc hit
          exact ih (cur + 1) (-Gen.INFINITY) Gen.INFINITY sc e1 hINF hp1 hH1 hc it hit hd
        · rw [if_neg hw] at hc hit
          exact ih (cur + 1) (sc - 50) (sc + 50) sc (e1.print (infoLine sc cur e1)) (by omega) hp1 hH1 hc it hit hd

end Jence
