/-
  The consistency of a position is decidable: `boardOf g` reads the board off the piece sets, and `Wf g (boardOf g)` and
  `NoKingCapture g` are bounded statements. The model driver evaluates both (`oracle wf`), so the hypotheses of the
  history theorems are checked on the positions the correspondence check visits.
-/
import Jence.Lemmas.GenFits
namespace Jence
open Jence

/-- the board read off the piece sets: the first piece set that has the square -/
def boardOf (g : Game) : Board := fun t => (List.range 12).find? (fun q => getBit (g.bb q) t)

theorem boardOf_lt (g : Game) (t q : Nat) (h : boardOf g t = some q) : q < 12 := by
  unfold boardOf at h
  have := List.mem_of_find?_eq_some h
  simpa using this

instance (bbs : Array UInt64) (b : Board) (x : Option (Nat × Nat)) [∀ t, Decidable (b t = none)] : Decidable (Rep bbs b x) :=
  decidable_of_iff (bbs.size = 12 ∧ ∀ q, q < 12 → ∀ t, t < 64 → getBit (bbs.getD q 0) t = (decide (b t = some q) || decide (x = some (q, t))))
    ⟨fun ⟨a, h⟩ => ⟨a, fun q t hq ht => h q hq t ht⟩, fun ⟨a, h⟩ => ⟨a, fun q hq t ht => h q t hq ht⟩⟩

instance (f : Option Nat → Bool) (x : UInt64) (b : Board) : Decidable (OccF f x b) :=
  decidable_of_iff (∀ t, t < 64 → getBit x t = f (b t)) Iff.rfl

/-- the board conditions with the unbounded quantifier of `valid` left out (it holds of `boardOf` by construction) -/
structure BoardOkD (b : Board) (w : Bool) (ep c : Nat) : Prop where
  pawns : ∀ t, t < 64 → (b t = some WP ∨ b t = some BP) → 8 ≤ t ∧ t < 56
  epLe : ep ≤ 64
  epOk : ep ≠ 64 → b ep = none ∧ (w = true → 8 ≤ ep ∧ ep + 8 < 64 ∧ b (ep + 8) = some BP) ∧ (w = false → 8 ≤ ep ∧ ep < 56 ∧ b (ep - 8) = some WP)
  castle1 : c &&& 1 ≠ 0 → b 60 = some WK ∧ b 63 = some WR
  castle2 : c &&& 2 ≠ 0 → b 60 = some WK ∧ b 56 = some WR
  castle4 : c &&& 4 ≠ 0 → b 4 = some BK ∧ b 7 = some BR
  castle8 : c &&& 8 ≠ 0 → b 4 = some BK ∧ b 0 = some BR
  wking : ∃ k, k < 64 ∧ b k = some WK ∧ ∀ t, t < 64 → b t = some WK → t = k
  bking : ∃ k, k < 64 ∧ b k = some BK ∧ ∀ t, t < 64 → b t = some BK → t = k

set_option synthInstance.maxSize 4096 in
set_option synthInstance.maxHeartbeats 400000 in
instance (b : Board) (w : Bool) (ep c : Nat) : Decidable (BoardOkD b w ep c) :=
  decidable_of_iff
    ((∀ t, t < 64 → (b t = some WP ∨ b t = some BP) → 8 ≤ t ∧ t < 56) ∧ (ep ≤ 64) ∧
     (ep ≠ 64 → b ep = none ∧ (w = true → 8 ≤ ep ∧ ep + 8 < 64 ∧ b (ep + 8) = some BP) ∧ (w = false → 8 ≤ ep ∧ ep < 56 ∧ b (ep - 8) = some WP)) ∧
     (c &&& 1 ≠ 0 → b 60 = some WK ∧ b 63 = some WR) ∧ (c &&& 2 ≠ 0 → b 60 = some WK ∧ b 56 = some WR) ∧
     (c &&& 4 ≠ 0 → b 4 = some BK ∧ b 7 = some BR) ∧ (c &&& 8 ≠ 0 → b 4 = some BK ∧ b 0 = some BR) ∧
     (∃ k, k < 64 ∧ b k = some WK ∧ ∀ t, t < 64 → b t = some WK → t = k) ∧
     (∃ k, k < 64 ∧ b k = some BK ∧ ∀ t, t < 64 → b t = some BK → t = k))
    ⟨fun ⟨a, b', c', d, e, f, g', h, i⟩ => ⟨a, b', c', d, e, f, g', h, i⟩,
     fun h => ⟨h.pawns, h.epLe, h.epOk, h.castle1, h.castle2, h.castle4, h.castle8, h.wking, h.bking⟩⟩

/-- the decidable form of "`g` is consistent" -/
def WfD (g : Game) : Prop :=
  Rep g.bbs (boardOf g) none ∧ OccF whiteAt g.whiteOcc (boardOf g) ∧ OccF blackAt g.blackOcc (boardOf g) ∧
  OccF Option.isSome g.allOcc (boardOf g) ∧ BoardOkD (boardOf g) g.white g.ep g.castling

instance (g : Game) : Decidable (WfD g) := by unfold WfD; infer_instance

theorem WfD.wf {g : Game} (h : WfD g) : Wf g (boardOf g) := by
  obtain ⟨r, o1, o2, o3, d⟩ := h
  exact ⟨r, o1, o2, o3, ⟨fun t q _ hq => boardOf_lt g t q hq, d.pawns, d.epLe, d.epOk, d.castle1, d.castle2, d.castle4, d.castle8, d.wking, d.bking⟩⟩

instance (g : Game) : Decidable (NoKingCapture g) := by unfold NoKingCapture; infer_instance

end Jence
