/-
  T1.3: the engine's legal moves are the rules' legal moves. For a consistent position in which the side not to move is
  not in check, a rules move is legal in the position the engine's position denotes iff it is the `smove` of a move in
  `legal_values` (generated, and accepted by the legality test).
-/
import Jence.Lemmas.CastleRefine
namespace Jence
open Jence

section inner
variable {g : Game}

theorem pieceInner_notCastle (X f : Nat) (att : Nat → UInt64) (hX : X < 16) (hf : f < 64) :
    ∀ m ∈ pieceInner g true X att f, m.isCastling = false := by
  intro m hm
  unfold pieceInner at hm
  simp only [if_true, List.mem_append, List.mem_map] at hm
  rcases hm with ⟨t, ht, rfl⟩ | ⟨t, ht, rfl⟩
  · exact (mk_fields f t X PNONE false false false false hf ((mem_bitsOf _ _).1 ht).1 hX (by decide)).2.2.2.2.2.2.2
  · exact (mk_fields f t X PNONE true false false false hf ((mem_bitsOf _ _).1 ht).1 hX (by decide)).2.2.2.2.2.2.2

theorem pawnMoves_notCastle (f : Nat) (hrow : 8 ≤ f ∧ f < 56) (hep : g.ep ≤ 64) : ∀ m ∈ pawnMoves g true f, m.isCastling = false := by
  have hf : f < 64 := by omega
  have hp16 : (if g.white then WP else BP) < 16 := by cases g.white <;> decide
  have promo16 : ∀ w, ∀ p ∈ promos w, p < 16 := by
    intro w p hp; unfold promos at hp; cases w <;> simp at hp <;> rcases hp with h | h | h | h <;> subst h <;> decide
  intro m hm
  unfold pawnMoves at hm
  simp only [if_true, List.mem_append] at hm
  rcases hm with (hq | he) | hc
  · cases hw : g.white
    · rw [pawnQuiet_black g hw f hrow] at hq
      split at hq
      · split at hq
        · rcases List.mem_cons.1 hq with h | h
          · subst h; exact (mk_fields f (f + 8) BP PNONE false false false false hf (by omega) (by decide) (by decide)).2.2.2.2.2.2.2
          · split at h
            · simp only [List.mem_singleton] at h; subst h
              rename_i h16 _
              simp only [decide_eq_true_eq] at h16
              exact (mk_fields f (f + 16) BP PNONE false true false false hf (by omega) (by decide) (by decide)).2.2.2.2.2.2.2
            · exact absurd h (by simp)
        · rw [List.mem_map] at hq
          obtain ⟨p, hp, rfl⟩ := hq
          exact (mk_fields f (f + 8) BP p false false false false hf (by omega) (by decide) (promo16 _ p hp)).2.2.2.2.2.2.2
      · exact absurd hq (by simp)
    · rw [pawnQuiet_white g hw f hrow] at hq
      split at hq
      · split at hq
        · rcases List.mem_cons.1 hq with h | h
          · subst h; exact (mk_fields f (f - 8) WP PNONE false false false false hf (by omega) (by decide) (by decide)).2.2.2.2.2.2.2
          · split at h
            · simp only [List.mem_singleton] at h; subst h
              exact (mk_fields f (f - 16) WP PNONE false true false false hf (by omega) (by decide) (by decide)).2.2.2.2.2.2.2
            · exact absurd h (by simp)
        · rw [List.mem_map] at hq
          obtain ⟨p, hp, rfl⟩ := hq
          exact (mk_fields f (f - 8) WP p false false false false hf (by omega) (by decide) (promo16 _ p hp)).2.2.2.2.2.2.2
      · exact absurd hq (by simp)
  · unfold pawnEp at he
    simp only at he
    by_cases hc : (g.ep != SQNONE && !isEmpty (getPawnAttacks f g.white &&& bit g.ep)) = true
    · rw [if_pos hc] at he
      simp only [Bool.and_eq_true] at hc
      have hne : g.ep ≠ 64 := by have := hc.1; simpa using this
      simp only [List.mem_singleton] at he; subst he
      exact (mk_fields f g.ep _ PNONE true false true false hf (by omega) hp16 (by decide)).2.2.2.2.2.2.2
    · rw [if_neg hc] at he; exact absurd he (by simp)
  · unfold pawnCaps at hc
    simp only [List.mem_flatMap] at hc
    obtain ⟨t, ht, hc⟩ := hc
    have ht64 := ((mem_bitsOf _ _).1 ht).1
    by_cases hlast : (if g.white = true then t ≥ 8 else t ≤ 55)
    · rw [if_pos hlast] at hc
      simp only [List.mem_singleton] at hc; subst hc
      exact (mk_fields f t _ PNONE true false false false hf ht64 hp16 (by decide)).2.2.2.2.2.2.2
    · rw [if_neg hlast, List.mem_map] at hc
      obtain ⟨p, hp, rfl⟩ := hc
      exact (mk_fields f t _ p true false false false hf ht64 hp16 (promo16 _ p hp)).2.2.2.2.2.2.2

end inner

theorem genNonCastle_notCastle {g : Game} {b : Board} (wf : Wf g b) : ∀ m ∈ genNonCastle g, m.isCastling = false := by
  intro m hm
  obtain ⟨X, f, hX, hf, hb, hin⟩ := (mem_genNonCastle wf m).1 hm
  by_cases hp : X = (if g.white then WP else BP)
  · subst hp
    rw [innerOf_pawn] at hin
    have hrow := wf.ok.pawns f hf (by rw [hb]; cases g.white <;> simp)
    exact pawnMoves_notCastle f hrow wf.ok.epLe m hin
  · rw [innerOf_piece g X f hp] at hin
    exact pieceInner_notCastle X f _ (by have := ownP_lt hX; omega) hf m hin

/-- **T1.3 the legal moves agree** -/
theorem legal_refines {g : Game} {b : Board} (wf : Wf g b) (nk : NoKingCapture g) (sm : Spec.SMove) :
    sm ∈ Spec.legalMoves (Spec.abs g) ↔ ∃ m ∈ legalValues g, smove m = sm := by
  have hpw : (Spec.abs g).white = g.white := rfl
  -- the engine side: generated and accepted
  have heng : (∃ m ∈ legalValues g, smove m = sm) ↔
      (∃ m ∈ castlingMoves g true, smove m = sm ∧ (makeCore g m).isSome = true) ∨
      (∃ m ∈ genNonCastle g, smove m = sm ∧ (makeCore g m).isSome = true) := by
    rw [Props.C01.legalValues_eq_made g wf.ok.epLe]
    simp only [List.mem_filter]
    constructor
    · rintro ⟨m, ⟨hm, hacc⟩, hs⟩
      rcases (mem_generate g m).1 hm with h | h
      · exact Or.inl ⟨m, h, hs, hacc⟩
      · exact Or.inr ⟨m, h, hs, hacc⟩
    · rintro (⟨m, h, hs, hacc⟩ | ⟨m, h, hs, hacc⟩)
      · exact ⟨m, ⟨(mem_generate g m).2 (Or.inl h), hacc⟩, hs⟩
      · exact ⟨m, ⟨(mem_generate g m).2 (Or.inr h), hacc⟩, hs⟩
  rw [heng]
  unfold Spec.legalMoves
  rw [spec_pseudoLegal_eq, List.filter_append, List.mem_append, hpw]
  have hcastle : sm ∈ (Spec.castlingMoves (Spec.abs g)).filter (fun m => !Spec.inCheck (Spec.apply (Spec.abs g) m) g.white) ↔
      ∃ m ∈ castlingMoves g true, smove m = sm ∧ (makeCore g m).isSome = true := by
    cases hw : g.white
    · have := castle_refines_black wf hw sm; rw [hw] at this; exact this
    · have := castle_refines_white wf hw sm; rw [hw] at this; exact this
  have hnon : sm ∈ (specNonCastle (Spec.abs g)).filter (fun m => !Spec.inCheck (Spec.apply (Spec.abs g) m) g.white) ↔
      ∃ m ∈ genNonCastle g, smove m = sm ∧ (makeCore g m).isSome = true := by
    rw [List.mem_filter, nonCastle_refines wf]
    constructor
    · rintro ⟨⟨m, hm, hs⟩, hleg⟩
      have hgen := (mem_generate g m).2 (Or.inr hm)
      have fits := gen_fits wf nk true m hgen
      have flags := gen_flags wf true m hgen
      refine ⟨m, hm, hs, ?_⟩
      rw [legal_noncastle wf fits flags (genNonCastle_notCastle wf m hm), hs]; exact hleg
    · rintro ⟨m, hm, hs, hacc⟩
      have hgen := (mem_generate g m).2 (Or.inr hm)
      have fits := gen_fits wf nk true m hgen
      have flags := gen_flags wf true m hgen
      refine ⟨⟨m, hm, hs⟩, ?_⟩
      rw [legal_noncastle wf fits flags (genNonCastle_notCastle wf m hm), hs] at hacc; exact hacc
  rw [hcastle, hnon]
  exact Or.comm

end Jence
