/-
  C06 — terminal verdicts are right, and the move ordering loses nothing (the parts proved so far).

  Model: `sortMoves`, `moveLoop`, `finish` (`src/move_list.rs`, `src/search.rs`), generic in the rules.
-/
import Jence.Lemmas.Top
import Jence.Lemmas.LegalMoves
namespace Jence.Props.C06
open Jence

/-- **T6.2** `sort_moves` returns a permutation of the generated list (no move lost, invented or duplicated), whatever the
    killers, history scores and PV say. -/
theorem sort_is_permutation (g : Game) (ms : List Move) (e : Env) : (sortMoves g ms e).1.Perm ms := sortMoves_perm g ms e

/-- the loop's counter of legal moves is zero at the end only if no move of the list could be made -/
theorem moveLoop_no_legal (R : Rules) (cfg : Cfg) (rec : Game → Nat → Int → Int → Env → Int × Env) (g : Game)
    (depth nDepth : Nat) (inCheck : Bool) (beta : Int) :
    ∀ (ms : List Move) (ta : Int) (flag : Flag) (legal searched : Nat) (e : Env) (ta' : Int) (fl' : Flag),
      (moveLoop R cfg rec g depth nDepth inCheck beta ms ta flag legal searched e).1 = .done ta' fl' 0 →
      legal = 0 ∧ ∀ m ∈ ms, R.make g m = none := by
  intro ms
  induction ms with
  | nil =>
    intro ta flag legal searched e ta' fl' h
    simp only [moveLoop, LoopOut.done.injEq] at h
    exact ⟨h.2.2, fun m hm => by simp at hm⟩
  | cons m ms ih =>
    intro ta flag legal searched e ta' fl' h
    simp only [moveLoop] at h
    cases hmk : R.make g m with
    | none =>
      simp only [hmk] at h
      obtain ⟨h1, h2⟩ := ih ta flag legal searched e ta' fl' h
      exact ⟨h1, fun m' hm' => by
        rcases List.mem_cons.mp hm' with rfl | hm'
        · exact hmk
        · exact h2 m' hm'⟩
    | some c =>
      exfalso
      simp only [hmk] at h
      generalize searchChild rec c m searched depth nDepth inCheck ta beta
        { e with ply := e.ply + 1, rep := (e.rep.insert c.key).moveBack } = r at h
      obtain ⟨score, e2⟩ := r
      simp only at h
      split at h
      · simp at h
      · split at h
        · split at h
          · simp at h
          · have := (ih _ _ _ _ _ ta' fl' h).1; omega
        · have := (ih _ _ _ _ _ ta' fl' h).1; omega

/-- **T6.3** Whenever the search declares a node checkmate (score `−MATE_VALUE + ply`) or stalemate (score 0) — i.e.
    `finish` goes through its "no legal move" branch — no generated move of that node survives `make`, and the verdict
    is checkmate exactly when the side to move is in check. -/
theorem terminal_verdict (R : Rules) (cfg : Cfg) (rec : Game → Nat → Int → Int → Env → Int × Env) (g : Game)
    (depth nDepth : Nat) (alpha beta : Int) (e : Env) (ta : Int) (fl : Flag)
    (h : (moveLoop R cfg rec g depth nDepth (R.inCheck g) beta (sortMoves g (R.generate g true) e).1 alpha .alpha 0 0
            (sortMoves g (R.generate g true) e).2).1 = .done ta fl 0) :
    (∀ m ∈ R.generate g true, R.make g m = none) ∧
    (finish cfg g depth (R.inCheck g) (.done ta fl 0, e)).1 = (if R.inCheck g then -Gen.MATE_VALUE + e.ply else 0) := by
  obtain ⟨_, h2⟩ := moveLoop_no_legal R cfg rec g depth nDepth (R.inCheck g) beta _ _ _ _ _ _ ta fl h
  refine ⟨fun m hm => h2 m ((sortMoves_mem g (R.generate g true) e m).mpr hm), ?_⟩
  simp only [finish, beq_self_eq_true, ↓reduceIte]
  obtain ⟨d, n, lg, hev⟩ := ev_eq cfg e [5, e.ply.toUInt64, g.key, b2w (R.inCheck g)]
    (fun _ => s!"verdict {e.ply} {hex16 g.key} {if R.inCheck g then "mate" else "stalemate"}")
  rw [hev]

/-- every node the main search examines lies within the ply limit: a frame entered at ply ≥ `MAX_PLY − 1` returns the
    static evaluation without descending (for chess: ply 63; quiescence stops at ply 64) -/
theorem ply_cap (R : Rules) (cfg : Cfg) (rec : Game → Nat → Int → Int → Env → Int × Env) (g : Game) (depth : Nat)
    (alpha beta : Int) (e : Env) (h : e.ply ≥ Gen.MAX_PLY - 1) :
    (afterProbe R cfg rec g depth alpha beta e).1 = R.evaluate g := by
  unfold afterProbe
  simp only
  have : ({ e with pvLen := e.pvLen.setIfInBounds e.ply e.ply } : Env).ply ≥ Gen.MAX_PLY - 1 := h
  rw [if_pos this]

/-- **T6.1** The search only ever steps into consistent positions: a child the move loop recurses into (a generated move
    that `make_search_move` accepted) is consistent again, no capture in it aims at a king, its key is the from-scratch
    key, and it is the rules' successor position. By induction every node of every search tree has these properties
    whenever the root has them. -/
theorem children_consistent (g g' : Game) (b : Board) (m : Move) (all : Bool)
    (wf : Wf g b) (nk : NoKingCapture g) (hkey : g.key = scratchKey g) (hm : m ∈ chessRules.generate g all)
    (hmk : chessRules.make g m = some g') :
    Wf g' (applyB b g.white m) ∧ NoKingCapture g' ∧ g'.key = scratchKey g' ∧
    (Spec.abs g').board = (Spec.apply (Spec.abs g) (smove m)).board := by
  have hm' : m ∈ generateMoves g all := hm
  have hcore : makeCore g m = some g' := hmk
  have fits := gen_fits wf nk all m hm'
  have flags := gen_flags wf all m hm'
  have hforce := makeCore_some hcore
  refine ⟨makeCore_wf g g' m b wf fits hcore, makeCore_nk g g' m b wf fits hcore, makeCore_wf_key g g' m b wf fits hkey hcore, ?_⟩
  rw [hforce]; exact apply_board wf fits flags

/-- **T6.3, against the rules.** Where the engine finds no generated move that survives `make`, the rules position has
    no legal move; so the mate / stalemate verdict of `terminal_verdict` is the rules' verdict. -/
theorem terminal_verdict_rules (g : Game) (b : Board) (wf : Wf g b) (nk : NoKingCapture g)
    (h : ∀ m ∈ generateMoves g true, makeCore g m = none) :
    Spec.legalMoves (Spec.abs g) = [] ∧ isInCheck g g.white = Spec.inCheck (Spec.abs g) (Spec.abs g).white := by
  refine ⟨?_, inCheck_refines wf g.white⟩
  cases hl : Spec.legalMoves (Spec.abs g) with
  | nil => rfl
  | cons sm l =>
    obtain ⟨m, hm, _⟩ := (legal_refines wf nk sm).1 (by rw [hl]; exact List.mem_cons_self)
    rw [Props.C01.legalValues_eq_made g wf.ok.epLe] at hm
    obtain ⟨hgen, hacc⟩ := List.mem_filter.1 hm
    rw [h m hgen] at hacc; exact absurd hacc (by simp)

end Jence.Props.C06
