/-
  C10 — the engine's self-imposed time budget always fits the clock.

  Model: `Jence.decideTime` (the "Decide time" block of `parse_go`, `src/main.rs`) on `Int`; the argument
  scan `goScan`/`parseGo` is tied to the code by the `budget` correspondence (dense clock grid).
-/
import Jence.Model.Budget
namespace Jence.Props.C10
open Jence

/-- A `go` line carried a clock for the mover (remaining ≥ 1 ms, increment ≥ 0, moves-to-go ≥ 1 — 30 when absent)
    and no `movetime`. -/
structure ClockGiven (a : GoArgs) : Prop where
  time : 1 ≤ a.time
  inc : 0 ≤ a.inc
  mtg : 1 ≤ a.movesToGo
  noMoveTime : a.moveTime = -1

private theorem rustDiv_some (t m : Int) (ht : 1 ≤ t) (hm : 1 ≤ m) : rustDiv t m = some (Int.tdiv t m) := by
  unfold rustDiv
  have h1 : (m == 0) = false := by simp; omega
  have h2 : (t == i64lo) = false := by simp [i64lo]; omega
  simp [h1, h2]

/-- **T10.1** For every clock state the budget is finite, non-negative and strictly below the remaining time. -/
theorem budget_fits (a : GoArgs) (h : ClockGiven a) :
    ∃ b, decideTime a = some b ∧ 0 ≤ b ∧ b < a.time := by
  obtain ⟨ht, hi, hm, hmt⟩ := h
  have hne : (a.time != -1) = true := by simp; omega
  unfold decideTime
  simp only [hmt, bne_self_eq_false, Bool.false_eq_true, ↓reduceIte, hne]
  by_cases h2000 : a.time > 2000
  · simp only [h2000, ↓reduceIte, rustDiv_some a.time a.movesToGo ht hm, Option.map_some]
    refine ⟨_, rfl, ?_, ?_⟩ <;> omega
  · simp only [h2000, ↓reduceIte]
    by_cases hinc : (a.inc != 0) = true
    · simp only [hinc, ↓reduceIte, Option.map_some]
      refine ⟨_, rfl, ?_, ?_⟩ <;> omega
    · simp only [hinc, Bool.false_eq_true, ↓reduceIte, rustDiv_some a.time a.movesToGo ht hm, Option.map_some]
      refine ⟨_, rfl, ?_, ?_⟩ <;> omega

/-- **T10.2** With `movetime T` the budget is exactly `T` (whatever else the line carries). -/
theorem movetime_exact (a : GoArgs) (h : a.moveTime ≠ -1) : decideTime a = some a.moveTime := by
  unfold decideTime
  have : (a.moveTime != -1) = true := by simpa using h
  simp [this]

/-- **T10.3** The budget is the "no limit" value −1 only when the line carried neither `movetime` nor the mover's clock
    (`go infinite`, `go depth d`, bare `go`): with a clock or a (non-negative) movetime it never is. -/
theorem unlimited_only_without_clock (a : GoArgs) :
    (a.moveTime = -1 ∧ a.time = -1 → decideTime a = some (-1)) ∧
    (ClockGiven a → decideTime a ≠ some (-1)) ∧
    (0 ≤ a.moveTime → decideTime a ≠ some (-1)) := by
  refine ⟨?_, ?_, ?_⟩
  · rintro ⟨h1, h2⟩; unfold decideTime; simp [h1, h2]
  · intro h hc
    obtain ⟨b, hb, h0, _⟩ := budget_fits a h
    rw [hb] at hc; injection hc with hc; omega
  · intro h hc
    rw [movetime_exact a (by omega)] at hc; injection hc with hc; omega

/-- What `parse_go` hands to `search` is the decided time of the scanned arguments. -/
theorem parseGo_search (white : Bool) (args : String) (msgs : List String) (d t : Int)
    (h : parseGo white args = (msgs, .search d t)) :
    ∃ a, goScan white ((args.splitOn " ").length + 1) (args.splitOn " ") {} [] = .ok (msgs, a) ∧
         decideTime a = some t ∧ a.depth = d := by
  unfold parseGo at h
  simp only at h
  split at h
  · rename_i r hr
    rcases r with ⟨m, st⟩
    cases st <;> simp [ScanStop.toResult] at h
  · rename_i m a hs
    split at h
    · simp at h
    · rename_i t' ht
      simp only [Prod.mk.injEq, GoResult.search.injEq] at h
      obtain ⟨rfl, rfl, rfl⟩ := h
      exact ⟨a, hs, ht, rfl⟩

/-! Non-vacuity: concrete clock states meeting the hypotheses, and their budgets. -/
example : ClockGiven { time := 2500 } := ⟨by decide, by decide, by decide, by decide⟩
example : decideTime { time := 2500 } = some 0 := by decide
example : decideTime { time := 300000, inc := 2000, movesToGo := 40 } = some 9400 := by decide
example : decideTime { time := 5000, inc := 10000 } = some 4999 := by decide
example : decideTime { moveTime := 77, time := 5 } = some 77 := by decide

/-! **T10.0** The decision as it stood before commit `fd4f76d` violated the property (these inputs were replayed on
    the pre-fix binary, `replays/prefix/D4_*`): negative budgets, the "no limit" value, and budgets above the clock. -/
theorem legacy_counterexamples :
    decideTimeLegacy { time := 2500 } = some (-17) ∧
    decideTimeLegacy { time := 2980 } = some (-1) ∧
    decideTimeLegacy { time := 1500, inc := 100 } = some (-400) ∧
    decideTimeLegacy { time := 5000, inc := 10000 } = some 10066 ∧
    decideTimeLegacy { time := 60000, inc := 100, movesToGo := 1 } = some 60000 := by decide

end Jence.Props.C10
