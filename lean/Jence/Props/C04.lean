/-
  C04 — position keys (first part): what the from-scratch key depends on, and the null-move update.

  Model: `Jence.scratchKey` (`Game::make_zobrist_hash`), `Jence.nullMoveOf` (the null-move block of `negamax`).
-/
import Jence.Model.Search
import Jence.Lemmas.NoKing
import Jence.Lemmas.KeyTables
namespace Jence.Props.C04
open Jence

/-- **T4.3** The key computed from scratch is a function of piece placement, side to move, castling rights and
    en-passant square alone: clocks, cached occupancies and the stored key never influence it (so transpositions and
    positions differing only in their clocks share one key). -/
theorem key_depends_only_on (g h : Game) (hb : g.bbs = h.bbs) (hs : g.white = h.white)
    (hc : g.castling = h.castling) (he : g.ep = h.ep) : scratchKey g = scratchKey h := by
  unfold scratchKey Game.bb
  rw [hb, hs, hc, he]

theorem key_ignores (g : Game) (w b a : UInt64) (half full : Nat) (k : UInt64) :
    scratchKey { g with whiteOcc := w, blackOcc := b, allOcc := a, halfMoves := half, fullMoves := full, key := k }
      = scratchKey g := rfl

private theorem xor_cancel_right (a b : UInt64) : a ^^^ b ^^^ b = a := by
  rw [UInt64.xor_assoc, UInt64.xor_self, UInt64.xor_zero]

private theorem xor_mid_cancel (a e s : UInt64) : a ^^^ e ^^^ s ^^^ e = a ^^^ s := by
  rw [UInt64.xor_assoc a e s, UInt64.xor_comm e s, ← UInt64.xor_assoc, xor_cancel_right]

private theorem xor_swap_cancel (a s e : UInt64) : a ^^^ s ^^^ e ^^^ s ^^^ e = a := by
  rw [xor_mid_cancel (a ^^^ s) e s, xor_cancel_right]

/-- **T4.2** The null-move update in `negamax` (switch side, drop the en-passant square, patch the key with the side
    key and the en-passant key) yields the from-scratch key of the passed position whenever the key was right before. -/
theorem null_move_key (g : Game) (h : g.key = scratchKey g) : (nullMoveOf g).key = scratchKey (nullMoveOf g) := by
  unfold nullMoveOf
  simp only
  unfold scratchKey at h ⊢
  simp only [Game.bb] at h ⊢
  rw [h]
  by_cases hep : g.ep = SQNONE
  · cases hw : g.white <;> simp [hep, xor_cancel_right]
  · cases hw : g.white <;> simp [hep]
    · exact xor_swap_cancel _ _ _
    · exact xor_mid_cancel _ _ _

/-- **T4.1** One move: in a consistent position (`Wf`, see C02) in which no capture aims at the enemy king, making
    any generated move - castling, en passant, promotion, capture on a rook's home square with an en-passant square
    pending, any combination - keeps the incrementally maintained key equal to the key computed from scratch. -/
theorem made_move_key (g g' : Game) (b : Board) (m : Move) (all : Bool) (wf : Wf g b) (nk : NoKingCapture g)
    (hm : m ∈ generateMoves g all) (hkey : g.key = scratchKey g) (hmk : makeCore g m = some g') :
    g'.key = scratchKey g' :=
  makeCore_wf_key g g' m b wf (gen_fits wf nk all m hm) hkey hmk

/-- **T4.1, histories** After any sequence of generated moves that `make_search_move` accepts, from a consistent
    position whose key is right and in which the side not to move is not in check, the maintained key is the
    from-scratch key of the position reached. -/
theorem history_key (g0 g : Game) (b0 : Board) (ms : List Move) (wf : Wf g0 b0) (nk : NoKingCapture g0) (hp : GenPath g0 ms)
    (hkey : g0.key = scratchKey g0) (hplay : playAll g0 ms = some g) : g.key = scratchKey g :=
  (history_wf_root ms g0 g b0 wf nk hp hplay).2.2 hkey

/-- the key update alone needs less than consistency: `MoveOk` (the squares the move touches hold what its fields
    claim) suffices, for any move word -/
theorem moveOk_key (g g' : Game) (m : Move) (hkey : g.key = scratchKey g) (ok : MoveOk g m) (hmk : makeCore g m = some g') :
    g'.key = scratchKey g' := makeCore_key g g' m hkey ok hmk

/-- **T4.4a** The key tables contain no zero and no repeated entry: the 849 keys (768 piece keys, 64 en-passant keys, 16
    castling keys, the side key), as the model computes them from the generated seeds with the engine's xorshift
    generator, are pairwise distinct and non-zero (kernel-decided; the harness compares the same 849 values with the
    running binary's dump on every run). -/
theorem key_tables_no_zero_no_repeat : allKeys.Nodup ∧ (0 : UInt64) ∉ allKeys ∧ allKeys.length = 849 ∧
    PIECE_KEYS_FLAT.toList ++ ENPASSANT_KEYS.toList ++ CASTLE_KEYS.toList ++ [SIDE_KEY] = allKeys :=
  ⟨key_tables_sound.1, key_tables_sound.2.1, key_tables_sound.2.2, tables_are_allKeys⟩

/-- **T4.4b** Positions that differ only by a quiet move never share a key: moving one piece to another square changes
    the placement part of the key by two different table entries. -/
theorem quiet_move_never_shares_key (k : UInt64) (p a b : Nat) (hp : p < 12) (ha : a < 64) (hb : b < 64) (hab : a ≠ b) :
    k ^^^ pieceKey p a ^^^ pieceKey p b ≠ k := quiet_move_changes_key k p a b hp ha hb hab

/-- **T4.4c** … nor by a simple capture: the mover's two keys and the victim's key never cancel (all 12 x 64 x 64 x 12
    combinations, kernel-decided on the tables). -/
theorem simple_capture_never_shares_key (k : UInt64) (p a b v : Nat) (hp : p < 12) (ha : a < 64) (hb : b < 64) (hv : v < 12) :
    k ^^^ pieceKey p a ^^^ pieceKey p b ^^^ pieceKey v b ≠ k := simple_capture_changes_key k p a b v hp ha hb hv

/-- **T4.4d** … nor by the side to move. -/
theorem side_to_move_never_shares_key (k : UInt64) : k ^^^ SIDE_KEY ≠ k := side_switch_changes_key k

end Jence.Props.C04
