/-
  C11, the chess instance against the rules specification: the leaves and the moves of the forced-mate predicates
  `MatesIn chessRules` / `MatedIn chessRules` (Props/C11, Lemmas/ForcedMate) are the rules' checkmates and the rules'
  legal moves whenever the position is consistent.
-/
import Jence.Props.C11
import Jence.Props.C06
namespace Jence.Props.C11
open Jence

/-- **T11.2c** In a consistent position (the hypotheses of the refinement chain, T1.3) "checkmated" as the forced-mate
    predicates read it from the engine - in check, and no generated move survives `make` - is checkmate by the rules
    specification: no legal move and the side to move in check; and conversely. -/
theorem mated_is_rules_checkmate (g : Game) (b : Board) (wf : Wf g b) (nk : NoKingCapture g) :
    Mated chessRules g ↔
      (Spec.legalMoves (Spec.abs g) = [] ∧ Spec.inCheck (Spec.abs g) (Spec.abs g).white = true) := by
  constructor
  · rintro ⟨hc, hall⟩
    obtain ⟨h1, h2⟩ := Props.C06.terminal_verdict_rules g b wf nk hall
    refine ⟨h1, ?_⟩
    rw [← h2]; exact hc
  · rintro ⟨hnil, hc⟩
    refine ⟨?_, fun m hm => ?_⟩
    · show isInCheck g g.white = true
      rw [inCheck_refines wf g.white]; exact hc
    · show makeCore g m = none
      cases hmk : makeCore g m with
      | none => rfl
      | some c =>
        exfalso
        have hm' : m ∈ generateMoves g true := hm
        have hl : m ∈ legalValues g := by
          rw [Props.C01.legalValues_eq_made g wf.ok.epLe]
          exact List.mem_filter.2 ⟨hm', by rw [hmk]; rfl⟩
        have := (legal_refines wf nk (smove m)).2 ⟨m, hl, rfl⟩
        rw [hnil] at this
        cases this

/-- the moves the predicates quantify over are the rules' legal moves: every generated move that `make` accepts denotes
    a legal move of the rules, and every legal move of the rules is denoted by one -/
theorem forced_mate_moves_are_rules_moves (g : Game) (b : Board) (wf : Wf g b) (nk : NoKingCapture g) (sm : Spec.SMove) :
    sm ∈ Spec.legalMoves (Spec.abs g) ↔
      ∃ m ∈ chessRules.generate g true, (chessRules.make g m).isSome = true ∧ smove m = sm := by
  rw [legal_refines wf nk sm, Props.C01.legalValues_eq_made g wf.ok.epLe]
  constructor
  · rintro ⟨m, hm, rfl⟩
    obtain ⟨h1, h2⟩ := List.mem_filter.1 hm
    exact ⟨m, h1, h2, rfl⟩
  · rintro ⟨m, h1, h2, rfl⟩
    exact ⟨m, List.mem_filter.2 ⟨h1, h2⟩, rfl⟩

end Jence.Props.C11
