/-
  C13 — UCI liveness (the part inside the search): what `poll_input` does with the input channel.

  Model: `Env.poll` (`SearchEnv::poll_input` after commit `d6feace`), the channel `chan` (lines that have reached the
  engine and are not yet read) and the queue `deferred` (lines handed back to the command loop, which reads them before
  the channel). The arrival schedule `cfg.world` is arbitrary.
-/
import Jence.Lemmas.Top
namespace Jence.Props.C13
open Jence

/-- the state of a running search that polls with no deadline hit and line `l` first in the channel -/
structure Reads (cfg : Cfg) (e : Env) (l : String) (rest : List String) : Prop where
  running : e.stopping = false
  noDeadline : (cfg.maxTime != -1 && (cfg.maxTime == 0 || (cfg.world e.polls).deadline)) = false
  first : e.chan ++ (cfg.world e.polls).lines = l :: rest

/-- the three things a poll can do with the line it read -/
def afterRead (e2 : Env) (l : String) : Env.LineKind → Env
  | .isready => e2.print "readyok"
  | .stop => { e2 with stopping := true }
  | .other => { e2 with deferred := e2.deferred ++ [l], stopping := true }

/-- what a reading poll does, up to the ghost transcript fields -/
theorem poll_reads (cfg : Cfg) (e : Env) (l : String) (rest : List String) (h : Reads cfg e l rest) :
    ∃ d n lg, e.poll cfg =
      afterRead { e with polls := e.polls + 1, pollLog := e.pollLog.push e.nodes, chan := rest, digest := d, events := n, log := lg }
        l.trimAscii.toString (Env.classifyLine l.trimAscii.toString) := by
  unfold Env.poll
  have hs : ¬ (e.stopping = true) := by simp [h.running]
  rw [if_neg hs]
  simp only
  rw [h.first]
  obtain ⟨d, n, lg, hev⟩ := ev_eq cfg ({ e with polls := e.polls + 1, pollLog := e.pollLog.push e.nodes, chan := l :: rest } : Env)
    [9, e.nodes.toUInt64] (fun _ => s!"poll {e.nodes}")
  rw [hev]
  have hd : ¬ ((cfg.maxTime != -1 && (cfg.maxTime == 0 || (cfg.world e.polls).deadline)) = true) := by simp [h.noDeadline]
  rw [if_neg hd]
  refine ⟨d, n, lg, ?_⟩
  simp only [afterRead]
  cases Env.classifyLine l.trimAscii.toString <;> rfl

/-- **T13.a** `isready` during a search is answered with `readyok` at the next poll, the line is consumed, and the
    search is *not* stopped. -/
theorem isready_answered (cfg : Cfg) (e : Env) (l : String) (rest : List String) (h : Reads cfg e l rest)
    (hk : Env.classifyLine l.trimAscii.toString = .isready) :
    (e.poll cfg).out = e.out.push "readyok" ∧ (e.poll cfg).stopping = false ∧ (e.poll cfg).chan = rest ∧
    (e.poll cfg).deferred = e.deferred := by
  obtain ⟨d, n, lg, hp⟩ := poll_reads cfg e l rest h
  rw [hp, hk]
  simp [afterRead, Env.print, h.running]

/-- **T13.b** `stop` stops the search; the line is consumed and nothing is handed back. -/
theorem stop_stops (cfg : Cfg) (e : Env) (l : String) (rest : List String) (h : Reads cfg e l rest)
    (hk : Env.classifyLine l.trimAscii.toString = .stop) :
    (e.poll cfg).stopping = true ∧ (e.poll cfg).chan = rest ∧ (e.poll cfg).deferred = e.deferred ∧ (e.poll cfg).out = e.out := by
  obtain ⟨d, n, lg, hp⟩ := poll_reads cfg e l rest h
  rw [hp, hk]
  simp [afterRead]

/-- **T13.c** Any other line (`quit`, `ucinewgame`, `position …`, …) stops the search and is *not lost*: it is appended
    to the queue the command loop reads first. -/
theorem other_line_deferred (cfg : Cfg) (e : Env) (l : String) (rest : List String) (h : Reads cfg e l rest)
    (hk : Env.classifyLine l.trimAscii.toString = .other) :
    (e.poll cfg).stopping = true ∧ (e.poll cfg).chan = rest ∧ (e.poll cfg).deferred = e.deferred ++ [l.trimAscii.toString] ∧
    (e.poll cfg).out = e.out := by
  obtain ⟨d, n, lg, hp⟩ := poll_reads cfg e l rest h
  rw [hp, hk]
  simp [afterRead]

/-- **T13.d** Once the search is stopping no poll reads anything: a command sent right after `stop` stays in the
    channel for the command loop (at most one line is ever taken per poll, and none after the stop). -/
theorem nothing_read_after_stop (cfg : Cfg) (e : Env) (hs : e.stopping = true) : e.poll cfg = e := by
  unfold Env.poll; simp [hs]

/-- **T13.e** When the time limit has expired the poll stops the search without touching the input: nothing is consumed. -/
theorem deadline_keeps_input (cfg : Cfg) (e : Env) (hrun : e.stopping = false)
    (hd : (cfg.maxTime != -1 && (cfg.maxTime == 0 || (cfg.world e.polls).deadline)) = true) :
    (e.poll cfg).stopping = true ∧ (e.poll cfg).chan = e.chan ++ (cfg.world e.polls).lines ∧ (e.poll cfg).deferred = e.deferred ∧
    (e.poll cfg).out = e.out := by
  unfold Env.poll
  have hs : ¬ (e.stopping = true) := by simp [hrun]
  rw [if_neg hs]
  simp only
  obtain ⟨d, n, lg, hev⟩ := ev_eq cfg ({ e with polls := e.polls + 1, pollLog := e.pollLog.push e.nodes, chan := e.chan ++ (cfg.world e.polls).lines } : Env)
    [9, e.nodes.toUInt64] (fun _ => s!"poll {e.nodes}")
  rw [hev, if_pos hd]
  simp

/-- **T13.f** Every `go` is answered with exactly one more output line at the end of `search`, the `bestmove` line
    (the lines before it are `info` lines and `readyok` answers). -/
theorem go_answered (R : Rules) (cfg : Cfg) (g : Game) (depth : Int) (tt : TT) (rep : RepTable) :
    ∃ before : Array String, (search R cfg g depth tt rep).2.out = before.push s!"bestmove {(search R cfg g depth tt rep).1.bestMove.toUci}" := by
  obtain ⟨hb, he⟩ := search_eq R cfg g depth tt rep
  rw [he, hb]
  exact ⟨_, rfl⟩

end Jence.Props.C13
