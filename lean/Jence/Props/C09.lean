/-
  C09 — an interrupted search uses nothing computed after the stop.

  Model: `Env.poll`, `negamax`, `quiescence`, the move loops, `idLoop` (`src/search.rs`), for every rules instance,
  every poll predicate (`cfg.subMask`) and every schedule of what the outside world presents at each poll.
-/
import Jence.Lemmas.Top
import Jence.Lemmas.Cadence
namespace Jence.Props.C09
open Jence

/-- what must not change once the search has been told to stop -/
def Frozen (e e' : Env) : Prop :=
  e'.stopping = true ∧ e'.tt = e.tt ∧ e'.pv = e.pv ∧ e'.killers = e.killers ∧ e'.history = e.history ∧ e'.out = e.out

theorem frozen_of_frame {e e' : Env} (h : Frame e e') (hs : e.stopping = true) (ho : e'.rep.overflow = false) : Frozen e e' := by
  have c := h.2 ho
  obtain ⟨a1, a2, a3, a4, a5, _⟩ := c.frozen hs
  exact ⟨c.stopMono hs, a1, a2, a3, a4, a5⟩

/-- **T9.2a** Whatever part of the main search runs after the stop was seen — any node, at any depth, with any window —
    leaves the transposition table, the whole PV table, the killer and history tables and the printed output exactly as
    they were, and the stop flag stays up. (This is the "four abort checks" argument, done once in the master
    induction: removing any one of the checks from the model makes `moveLoop_frame` / `nullMoveStep_frame` fail.) -/
theorem negamax_after_stop (R : Rules) (cfg : Cfg) (fuel : Nat) (g : Game) (depth : Nat) (alpha beta : Int) (e : Env)
    (hs : e.stopping = true) (ho : (negamax R cfg fuel g depth alpha beta e).2.rep.overflow = false) :
    Frozen e (negamax R cfg fuel g depth alpha beta e).2 :=
  frozen_of_frame (negamax_frame R cfg fuel g depth alpha beta e) hs ho

theorem quiescence_after_stop (R : Rules) (cfg : Cfg) (fuel : Nat) (g : Game) (alpha beta : Int) (e : Env)
    (hs : e.stopping = true) (ho : (quiescence R cfg fuel g alpha beta e).2.rep.overflow = false) :
    Frozen e (quiescence R cfg fuel g alpha beta e).2 :=
  frozen_of_frame (quiescence_frame R cfg fuel g alpha beta e) hs ho

/-- **T9.2b** … including the rest of the very frame in which the poll fired: everything a node does after its poll
    (null move, move generation and ordering, the move loop, the table record) is `expand`, which satisfies the same. -/
theorem rest_of_polling_frame_after_stop (R : Rules) (cfg : Cfg) (fuel : Nat) (g : Game) (depth : Nat) (alpha beta : Int) (e : Env)
    (hs : e.stopping = true) (ho : (expand R cfg (negamax R cfg fuel) g depth alpha beta e).2.rep.overflow = false) :
    Frozen e (expand R cfg (negamax R cfg fuel) g depth alpha beta e).2 :=
  frozen_of_frame (expand_frame R cfg _ (negamax_frame R cfg fuel) g depth alpha beta e) hs ho

/-- **T9.2c** Once stopping, polling does nothing at all: no further input line is read (so nothing sent after `stop`
    can be swallowed) and no further poll is counted. -/
theorem poll_after_stop (cfg : Cfg) (e : Env) (hs : e.stopping = true) : e.poll cfg = e := by
  unfold Env.poll; simp [hs]

/-- **T9.2d** A stopped iteration ends the search: the loop prints no further `info` line and starts no further
    iteration, so the answer is the PV head as the completed part of the search left it. -/
theorem idLoop_after_stop (R : Rules) (cfg : Cfg) (g : Game) (count cur : Nat) (alpha beta score : Int) (e : Env)
    (hs : (negamax R cfg negaFuel g cur alpha beta { e with followPv := true }).2.stopping = true) :
    (idLoop R cfg g (count + 1) cur alpha beta score e).2.2 = (negamax R cfg negaFuel g cur alpha beta { e with followPv := true }).2 := by
  simp only [idLoop]
  generalize negamax R cfg negaFuel g cur alpha beta { e with followPv := true } = r at hs ⊢
  obtain ⟨sc, e1⟩ := r
  simp only at hs ⊢
  rw [if_pos hs]

/-- a stop (or an expired deadline) presented at a poll is honoured at that very poll -/
theorem poll_sees_stop (cfg : Cfg) (e : Env) (hrun : e.stopping = false)
    (h : (cfg.maxTime ≠ -1 ∧ (cfg.maxTime = 0 ∨ (cfg.world e.polls).deadline = true)) ∨
         (cfg.maxTime = -1 ∧ ∃ l rest, e.chan ++ (cfg.world e.polls).lines = l :: rest ∧ Env.classifyLine l.trimAscii.toString = Env.LineKind.stop)) :
    (e.poll cfg).stopping = true := by
  unfold Env.poll
  simp only [hrun, Bool.false_eq_true, ↓reduceIte]
  have hc : ∀ e0 : Env, (e0.ev cfg [9, e.nodes.toUInt64] (fun _ => s!"poll {e.nodes}")).chan = e0.chan := by
    intro e0; unfold Env.ev; split; · rfl
    split <;> rfl
  rcases h with ⟨h1, h2⟩ | ⟨h1, l, rest, h2, h3⟩
  · have : (cfg.maxTime != -1 && (cfg.maxTime == 0 || (cfg.world e.polls).deadline)) = true := by
      simp only [Bool.and_eq_true, bne_iff_ne, ne_eq, Bool.or_eq_true, beq_iff_eq]
      exact ⟨h1, h2⟩
    simp [this]
  · have hn : (cfg.maxTime != -1 && (cfg.maxTime == 0 || (cfg.world e.polls).deadline)) = false := by simp [h1]
    simp only [hn, Bool.false_eq_true, ↓reduceIte]
    rw [hc]
    simp only [h2, h3]

/-- the poll interval is a bit mask of at most 16 bits: polls fall on multiples of `INPUT_POLL_INTERVAL + 1`, at most a
    few tens of thousands of nodes apart (re-checked when the constant is re-tuned) -/
theorem poll_interval_ok :
    Gen.INPUT_POLL_INTERVAL &&& (Gen.INPUT_POLL_INTERVAL + 1) = 0 ∧ Gen.INPUT_POLL_INTERVAL + 1 ≤ 65536 ∧ 0 < Gen.INPUT_POLL_INTERVAL := by
  decide

/-- the first poll of a search happens before the first node is counted -/
theorem first_poll_at_node_zero (cfg : Cfg) (tt : TT) (rep : RepTable) :
    ((Env.fresh tt rep).maybePoll cfg) = (Env.fresh tt rep).poll cfg := by
  unfold Env.maybePoll
  simp [Env.fresh]

/-- the poll test `nodes & INPUT_POLL_INTERVAL == 0` is "the counter is a multiple of `INPUT_POLL_INTERVAL + 1`"
    (re-checked when the constant is re-tuned: it must be one less than a power of two) -/
theorem poll_test_is_multiple (n : Nat) : n &&& Gen.INPUT_POLL_INTERVAL = n % (Gen.INPUT_POLL_INTERVAL + 1) := by
  have h : Gen.INPUT_POLL_INTERVAL = 2 ^ (Nat.log2 (Gen.INPUT_POLL_INTERVAL + 1)) - 1 := by decide
  have h2 : Gen.INPUT_POLL_INTERVAL + 1 = 2 ^ (Nat.log2 (Gen.INPUT_POLL_INTERVAL + 1)) := by decide
  rw [h2]
  conv => lhs; rw [h]
  exact Nat.and_two_pow_sub_one_eq_mod _ _

/-- **T9.1** The search looks for a stop request at least once every `INPUT_POLL_INTERVAL + 1` nodes: at the end of every
    `search` that was not stopped - every rules instance, position, depth, table, history, poll predicate and input
    schedule - every window of `INPUT_POLL_INTERVAL + 1` consecutive values of the node counter below the final count
    contains a value at which input was polled (`pollLog` records the counter at each poll). The induction
    (`Lemmas/Cadence`) rests on `maybe_poll` being called with the counter's current value right before every increment,
    in `negamax` as in `quiescence`; nodes that return early (repetition, table hit, ply cap) neither poll nor count. -/
theorem polled_in_every_window (R : Rules) (cfg : Cfg) (g : Game) (depth : Int) (tt : TT) (rep : RepTable)
    (hrun : (search R cfg g depth tt rep).2.stopping = false) (a : Nat)
    (ha : a + (Gen.INPUT_POLL_INTERVAL + 1) ≤ (search R cfg g depth tt rep).2.nodes) :
    ∃ n ∈ (search R cfg g depth tt rep).2.pollLog, a ≤ n ∧ n < a + (Gen.INPUT_POLL_INTERVAL + 1) := by
  have hc := search_cad R cfg g depth tt rep hrun
  generalize hW : Gen.INPUT_POLL_INTERVAL + 1 = W at ha ⊢
  have hWpos : 0 < W := by rw [← hW]; omega
  -- the multiple of W inside the window
  have hdiv := Nat.div_add_mod (a + (W - 1)) W
  have hmod := Nat.mod_lt (a + (W - 1)) hWpos
  have hm : W * ((a + (W - 1)) / W) = (a + (W - 1)) / W * W := Nat.mul_comm _ _
  refine ⟨(a + (W - 1)) / W * W, hc _ (by omega) ?_, by omega, by omega⟩
  rw [poll_test_is_multiple, hW]
  exact Nat.mul_mod_left _ _

/-- the invariant behind it, for a search that is still running at any node of the main search -/
theorem cadence_invariant (R : Rules) (cfg : Cfg) (fuel : Nat) (g : Game) (depth : Nat) (alpha beta : Int) (e : Env) (h : Cad e) :
    Cad (negamax R cfg fuel g depth alpha beta e).2 := negamax_cad R cfg fuel g depth alpha beta e h

end Jence.Props.C09
