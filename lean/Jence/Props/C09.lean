/-
  C09 — an interrupted search uses nothing computed after the stop.

  Model: `Env.poll`, `negamax`, `quiescence`, the move loops, `idLoop` (`src/search.rs`), for every rules instance,
  every poll predicate (`cfg.subMask`) and every schedule of what the outside world presents at each poll.
-/
import Jence.Lemmas.Top
namespace Jence.Props.C09
open Jence

/-- what must not change once the search has been told to stop -/
def Frozen (e e' : Env) : Prop :=
  e'.stopping = true ∧ e'.tt = e.tt ∧ e'.pv = e.pv ∧ e'.killers = e.killers ∧ e'.history = e.history ∧ e'.out = e.out

theorem frozen_of_frame {e e' : Env} (h : Frame e e') (hs : e.stopping = true) (ho : e'.rep.overflow = false) : Frozen e e' := by
  have c := h.2 ho
  obtain ⟨a1, a2, a3, a4, a5, _⟩ := c.frozen hs
  exact ⟨c.stopMono hs, a1, a2, a3, a4, a5⟩

/-- **T9.2a** Whatever part of the main search runs after the stop was seen — any node, at any depth, with any window —
    leaves the transposition table, the whole PV table, the killer and history tables and the printed output exactly as
    they were, and the stop flag stays up. (This is the "four abort checks" argument, done once in the master
    induction: removing any one of the checks from the model makes `moveLoop_frame` / `nullMoveStep_frame` fail.) -/
theorem negamax_after_stop (R : Rules) (cfg : Cfg) (fuel : Nat) (g : Game) (depth : Nat) (alpha beta : Int) (e : Env)
    (hs : e.stopping = true) (ho : (negamax R cfg fuel g depth alpha beta e).2.rep.overflow = false) :
    Frozen e (negamax R cfg fuel g depth alpha beta e).2 :=
  frozen_of_frame (negamax_frame R cfg fuel g depth alpha beta e) hs ho

theorem quiescence_after_stop (R : Rules) (cfg : Cfg) (fuel : Nat) (g : Game) (alpha beta : Int) (e : Env)
    (hs : e.stopping = true) (ho : (quiescence R cfg fuel g alpha beta e).2.rep.overflow = false) :
    Frozen e (quiescence R cfg fuel g alpha beta e).2 :=
  frozen_of_frame (quiescence_frame R cfg fuel g alpha beta e) hs ho

/-- **T9.2b** … including the rest of the very frame in which the poll fired: everything a node does after its poll
    (null move, move generation and ordering, the move loop, the table record) is `expand`, which satisfies the same. -/
theorem rest_of_polling_frame_after_stop (R : Rules) (cfg : Cfg) (fuel : Nat) (g : Game) (depth : Nat) (alpha beta : Int) (e : Env)
    (hs : e.stopping = true) (ho : (expand R cfg (negamax R cfg fuel) g depth alpha beta e).2.rep.overflow = false) :
    Frozen e (expand R cfg (negamax R cfg fuel) g depth alpha beta e).2 :=
  frozen_of_frame (expand_frame R cfg _ (negamax_frame R cfg fuel) g depth alpha beta e) hs ho

/-- **T9.2c** Once stopping, polling does nothing at all: no further input line is read (so nothing sent after `stop`
    can be swallowed) and no further poll is counted. -/
theorem poll_after_stop (cfg : Cfg) (e : Env) (hs : e.stopping = true) : e.poll cfg = e := by
  unfold Env.poll; simp [hs]

/-- **T9.2d** A stopped iteration ends the search: the loop prints no further `info` line and starts no further
    iteration, so the answer is the PV head as the completed part of the search left it. -/
theorem idLoop_after_stop (R : Rules) (cfg : Cfg) (g : Game) (count cur : Nat) (alpha beta score : Int) (e : Env)
    (hs : (negamax R cfg negaFuel g cur alpha beta { e with followPv := true }).2.stopping = true) :
    (idLoop R cfg g (count + 1) cur alpha beta score e).2.2 = (negamax R cfg negaFuel g cur alpha beta { e with followPv := true }).2 := by
  simp only [idLoop]
  generalize negamax R cfg negaFuel g cur alpha beta { e with followPv := true } = r at hs ⊢
  obtain ⟨sc, e1⟩ := r
  simp only at hs ⊢
  rw [if_pos hs]

/-- a stop (or an expired deadline) presented at a poll is honoured at that very poll -/
theorem poll_sees_stop (cfg : Cfg) (e : Env) (hrun : e.stopping = false)
    (h : (cfg.maxTime ≠ -1 ∧ (cfg.maxTime = 0 ∨ (cfg.world e.polls).deadline = true)) ∨
         (cfg.maxTime = -1 ∧ ∃ l rest, e.chan ++ (cfg.world e.polls).lines = l :: rest ∧ Env.classifyLine l.trimAscii.toString = Env.LineKind.stop)) :
    (e.poll cfg).stopping = true := by
  unfold Env.poll
  simp only [hrun, Bool.false_eq_true, ↓reduceIte]
  have hc : ∀ e0 : Env, (e0.ev cfg [9, e.nodes.toUInt64] (fun _ => s!"poll {e.nodes}")).chan = e0.chan := by
    intro e0; unfold Env.ev; split; · rfl
    split <;> rfl
  rcases h with ⟨h1, h2⟩ | ⟨h1, l, rest, h2, h3⟩
  · have : (cfg.maxTime != -1 && (cfg.maxTime == 0 || (cfg.world e.polls).deadline)) = true := by
      simp only [Bool.and_eq_true, bne_iff_ne, ne_eq, Bool.or_eq_true, beq_iff_eq]
      exact ⟨h1, h2⟩
    simp [this]
  · have hn : (cfg.maxTime != -1 && (cfg.maxTime == 0 || (cfg.world e.polls).deadline)) = false := by simp [h1]
    simp only [hn, Bool.false_eq_true, ↓reduceIte]
    rw [hc]
    simp only [h2, h3]

/-- the poll interval is a bit mask of at most 16 bits: polls fall on multiples of `INPUT_POLL_INTERVAL + 1`, at most a
    few tens of thousands of nodes apart (re-checked when the constant is re-tuned) -/
theorem poll_interval_ok :
    Gen.INPUT_POLL_INTERVAL &&& (Gen.INPUT_POLL_INTERVAL + 1) = 0 ∧ Gen.INPUT_POLL_INTERVAL + 1 ≤ 65536 ∧ 0 < Gen.INPUT_POLL_INTERVAL := by
  decide

/-- the first poll of a search happens before the first node is counted -/
theorem first_poll_at_node_zero (cfg : Cfg) (tt : TT) (rep : RepTable) :
    ((Env.fresh tt rep).maybePoll cfg) = (Env.fresh tt rep).poll cfg := by
  unfold Env.maybePoll
  simp [Env.fresh]

end Jence.Props.C09
