/-
  C19 — shallow searches return the exact minimax value (first part: the capture search at the horizon).

  Model: `quiescence` (`src/search.rs`), generic in the rules; `qVal` is the plain minimax value of the capture tree
  (stand-pat, made captures only, ply cap, half-move-100 cut-off) — no window, no move ordering, no environment.
-/
import Jence.Lemmas.QValue
namespace Jence.Props.C19
open Jence

/-- **T19.1** For every rules instance, position, window `alpha < beta`, environment (killers, history scores, PV,
    transposition table, stop flag, input schedule) and ply within the limit: the value `quiescence` returns is the
    capture-tree minimax value when it lies strictly inside the window, an upper bound of it when it is at most `alpha`,
    and a lower bound when it is at least `beta` (so a value outside the window always reports the side on which the
    true value lies). Move ordering drops out because the maximum over a permutation is the same maximum (T6.2). -/
theorem quiescence_is_sound_minimax (R : Rules) (cfg : Cfg) (fuel : Nat) (g : Game) (alpha beta : Int) (e : Env)
    (hab : alpha < beta) (hply : e.ply ≤ Gen.MAX_PLY) (hfuel : e.ply + fuel ≥ Gen.MAX_PLY + 1) :
    Sound (quiescence R cfg fuel g alpha beta e).1 (qVal R fuel g e.ply) alpha beta :=
  (quiescence_value R cfg fuel g alpha beta e hab hply hfuel).1

/-- the reading used in the property: same side of the window as the true value, and equal to it inside -/
theorem quiescence_agrees (R : Rules) (cfg : Cfg) (fuel : Nat) (g : Game) (alpha beta : Int) (e : Env)
    (hab : alpha < beta) (hply : e.ply ≤ Gen.MAX_PLY) (hfuel : e.ply + fuel ≥ Gen.MAX_PLY + 1) :
    Agree (quiescence R cfg fuel g alpha beta e).1 (qVal R fuel g e.ply) alpha beta :=
  (quiescence_is_sound_minimax R cfg fuel g alpha beta e hab hply hfuel).agree hab

/-- the fuel `negamax` hands to `quiescence` is enough at every ply the main search can be at -/
theorem qFuel_suffices (ply : Nat) (h : ply ≤ Gen.MAX_PLY) : ply + qFuel ≥ Gen.MAX_PLY + 1 := by
  unfold qFuel; omega

/-- the value does not depend on the order of the captures -/
theorem qValue_order_free (R : Rules) (V : Game → Int) (g : Game) (l₁ l₂ : List Move) (h : l₁.Perm l₂) (init : Int) :
    bestOf R V g l₁ init = bestOf R V g l₂ init := bestOf_perm R V g l₁ l₂ h init

/-! Non-vacuity: the hypotheses are met at the root (ply 0) with the fuel the engine uses. -/
example : (0 : Nat) ≤ Gen.MAX_PLY ∧ 0 + qFuel ≥ Gen.MAX_PLY + 1 := by decide

end Jence.Props.C19
