/-
  C19 — shallow searches return the exact minimax value: the capture search at the horizon (T19.1), the main search at
  nominal depths 1 and 2 with the table bypassed (T19.2), the iterations of the deepening loop (T19.3).

  Model: `quiescence` (`src/search.rs`), generic in the rules; `qVal` is the plain minimax value of the capture tree
  (stand-pat, made captures only, ply cap, half-move-100 cut-off) — no window, no move ordering, no environment.
-/
import Jence.Lemmas.QValue
import Jence.Lemmas.IdVal
import Jence.Lemmas.NoOverflow
namespace Jence.Props.C19
open Jence

/-- **T19.1** For every rules instance, position, window `alpha < beta`, environment (killers, history scores, PV,
    transposition table, stop flag, input schedule) and ply within the limit: the value `quiescence` returns is the
    capture-tree minimax value when it lies strictly inside the window, an upper bound of it when it is at most `alpha`,
    and a lower bound when it is at least `beta` (so a value outside the window always reports the side on which the
    true value lies). Move ordering drops out because the maximum over a permutation is the same maximum (T6.2). -/
theorem quiescence_is_sound_minimax (R : Rules) (cfg : Cfg) (fuel : Nat) (g : Game) (alpha beta : Int) (e : Env)
    (hab : alpha < beta) (hply : e.ply ≤ Gen.MAX_PLY) (hfuel : e.ply + fuel ≥ Gen.MAX_PLY + 1) :
    Sound (quiescence R cfg fuel g alpha beta e).1 (qVal R fuel g e.ply) alpha beta :=
  (quiescence_value R cfg fuel g alpha beta e hab hply hfuel).1

/-- the reading used in the property: same side of the window as the true value, and equal to it inside -/
theorem quiescence_agrees (R : Rules) (cfg : Cfg) (fuel : Nat) (g : Game) (alpha beta : Int) (e : Env)
    (hab : alpha < beta) (hply : e.ply ≤ Gen.MAX_PLY) (hfuel : e.ply + fuel ≥ Gen.MAX_PLY + 1) :
    Agree (quiescence R cfg fuel g alpha beta e).1 (qVal R fuel g e.ply) alpha beta :=
  (quiescence_is_sound_minimax R cfg fuel g alpha beta e hab hply hfuel).agree hab

/-- the fuel `negamax` hands to `quiescence` is enough at every ply the main search can be at -/
theorem qFuel_suffices (ply : Nat) (h : ply ≤ Gen.MAX_PLY) : ply + qFuel ≥ Gen.MAX_PLY + 1 := by
  unfold qFuel; omega

/-- the value does not depend on the order of the captures -/
theorem qValue_order_free (R : Rules) (V : Game → Int) (g : Game) (l₁ l₂ : List Move) (h : l₁.Perm l₂) (init : Int) :
    bestOf R V g l₁ init = bestOf R V g l₂ init := bestOf_perm R V g l₁ l₂ h init

/-! Non-vacuity: the hypotheses are met at the root (ply 0) with the fuel the engine uses. -/
example : (0 : Nat) ≤ Gen.MAX_PLY ∧ 0 + qFuel ≥ Gen.MAX_PLY + 1 := by decide

/-! ### T19.2 - the main search at nominal depths 1 and 2

  `nVal R H fuel g depth ply` (`Lemmas/NVal`) is the plain minimax value: 0 on a position of the game history `H`
  (below the root), the static evaluation at the ply cap, the capture-tree value `qVal` at the horizon or when the
  half-move clock is 100, otherwise the maximum of the negated child values over the moves `make` accepts, one ply deeper
  when the side to move is in check; `-MATE_VALUE + ply` without a child in check, 0 without a child out of check. No
  window, no move ordering, no environment. `Clean e` says that the run ended neither stopped (the iteration completed)
  nor with an overflowed history array (finding D7: the Rust code panics there). -/

/-- **T19.2** For every rules instance, position, nominal depth at most 2, window `alpha < beta`, game history `H`,
    ply below the cap and environment (killers, history scores, PV, poll schedule), with the table bypassed: when the
    search was neither stopped nor ran out of history slots, the value `negamax` returns is the minimax value when it lies
    strictly inside the window, an upper bound of it when at most `alpha`, a lower bound when at least `beta`. PVS
    null-window probes, re-searches, the beta cut-off, move ordering (T6.2) and the PV bookkeeping all drop out; late-move
    reductions need depth >= 3 and the null move an extended depth >= 3 out of check, which cannot happen here. -/
theorem negamax_shallow_is_sound_minimax (R : Rules) (cfg : Cfg) (hbyp : cfg.ttBypass = true) (H : List UInt64)
    (fuel : Nat) (g : Game) (depth : Nat) (alpha beta : Int) (e : Env) (hd : depth ≤ 2) (hab : alpha < beta)
    (hply : e.ply ≤ 63) (hfuel : e.ply + fuel ≥ Gen.MAX_PLY) (hH : e.rep.pre = H)
    (hclean : Clean (negamax R cfg fuel g depth alpha beta e).2) :
    Sound (negamax R cfg fuel g depth alpha beta e).1 (nVal R H fuel g depth e.ply) alpha beta :=
  negamax_value R cfg hbyp H fuel g depth alpha beta e hd hab hply hfuel hH hclean

/-- the reading used in the property: inside the window the score *is* the minimax value, outside it the value lies on
    the reported side -/
theorem negamax_shallow_agrees (R : Rules) (cfg : Cfg) (hbyp : cfg.ttBypass = true) (H : List UInt64)
    (fuel : Nat) (g : Game) (depth : Nat) (alpha beta : Int) (e : Env) (hd : depth ≤ 2) (hab : alpha < beta)
    (hply : e.ply ≤ 63) (hfuel : e.ply + fuel ≥ Gen.MAX_PLY) (hH : e.rep.pre = H)
    (hclean : Clean (negamax R cfg fuel g depth alpha beta e).2) :
    Agree (negamax R cfg fuel g depth alpha beta e).1 (nVal R H fuel g depth e.ply) alpha beta :=
  (negamax_shallow_is_sound_minimax R cfg hbyp H fuel g depth alpha beta e hd hab hply hfuel hH hclean).agree hab

/-- what the value is at a position without a legal move: mate by distance, stalemate zero -/
theorem nVal_terminal (R : Rules) (H : List UInt64) (fuel : Nat) (g : Game) (depth ply : Nat)
    (hrep : (decide (ply > 0) && H.contains g.key) = false) (hcap : ¬ ply ≥ Gen.MAX_PLY - 1)
    (hq : (depth == 0 || g.halfMoves == 100) = false) (hnone : madeCount R g (R.generate g true) = 0) :
    nVal R H (fuel + 1) g depth ply = if R.inCheck g then -Gen.MATE_VALUE + ply else 0 := by
  unfold nVal
  rw [if_neg (by rw [hrep]; simp), if_neg hcap, if_neg (by rw [hq]; simp)]
  simp only
  rw [(maxChild_none_iff R _ g (R.generate g true)).2 hnone]

/-! ### T19.3 - the iterations of the deepening loop -/

/-- **T19.3** Every iteration of nominal depth 1 or 2 that `search` runs (`idTrace`: depth, aspiration window, score,
    in the order of the loop - the full window first, then +-50 around the previous score or the full window again after
    a failed one) has `alpha < beta` and returns a sound answer for the minimax value of that depth at the root, whenever
    the loop ended neither stopped nor overflowed: the score of an iteration inside its window is the exact minimax value,
    the score of a failed one bounds it on the reported side. -/
theorem iterations_are_sound_minimax (R : Rules) (cfg : Cfg) (hbyp : cfg.ttBypass = true) (g : Game) (H : List UInt64)
    (count cur : Nat) (alpha beta score : Int) (e : Env) (hab : alpha < beta) (hp : e.ply = 0) (hH : e.rep.pre = H)
    (hclean : Clean (idLoop R cfg g count cur alpha beta score e).2.2) :
    ∀ it ∈ idTrace R cfg g count cur alpha beta e, it.depth ≤ 2 →
      it.alpha < it.beta ∧ Sound it.score (nVal R H negaFuel g it.depth 0) it.alpha it.beta :=
  idLoop_value R cfg hbyp g H count cur alpha beta score e hab hp hH hclean

/-- the score `search` reports is the score of the last iteration of that list -/
theorem reported_score_is_last_iteration (R : Rules) (cfg : Cfg) (g : Game) (count cur : Nat) (alpha beta score : Int) (e : Env) :
    (idLoop R cfg g count cur alpha beta score e).1 =
      ((idTrace R cfg g count cur alpha beta e).getLast?.map Iter.score).getD score :=
  idLoop_score R cfg g count cur alpha beta score e

/-- the start of `search`: ply 0, the full window, the history handed in -/
example (tt : TT) (rep : RepTable) : (Env.fresh tt rep).ply = 0 ∧ (Env.fresh tt rep).rep.pre = rep.pre ∧
    -Gen.INFINITY < Gen.INFINITY ∧ (0 : Nat) ≤ 63 ∧ 0 + negaFuel ≥ Gen.MAX_PLY := by
  refine ⟨rfl, rfl, by decide, by decide, by decide⟩


/-- **T19.3 with the overflow hypothesis discharged**: when the loop starts at the root with room in the history array
    (`Safe`: at ply 0, 65 free slots) and ends without having been stopped, every iteration of depth 1 or 2 is a sound
    answer for the minimax value of its depth. -/
theorem iterations_are_sound_minimax_of_room (R : Rules) (cfg : Cfg) (hbyp : cfg.ttBypass = true) (g : Game) (H : List UInt64)
    (count cur : Nat) (alpha beta score : Int) (e : Env) (hab : alpha < beta) (hp : e.ply = 0) (hH : e.rep.pre = H)
    (hsafe : Safe e) (hrun : (idLoop R cfg g count cur alpha beta score e).2.2.stopping = false) :
    ∀ it ∈ idTrace R cfg g count cur alpha beta e, it.depth ≤ 2 →
      it.alpha < it.beta ∧ Sound it.score (nVal R H negaFuel g it.depth 0) it.alpha it.beta :=
  idLoop_value R cfg hbyp g H count cur alpha beta score e hab hp hH ⟨idLoop_safe R cfg g count cur alpha beta score e hsafe, hrun⟩

/-- `search` starts the loop that way whenever the history handed in leaves room -/
example (tt : TT) (rep : RepTable) (h : HistoryRoom rep) : Safe (Env.fresh tt rep) := fresh_safe tt rep h.1 h.2
example : HistoryRoom RepTable.new := new_room

/-! Non-vacuity of `Clean`: a concrete run (toy rules: one move from the root, none after it) that ends neither stopped
    nor overflowed - and returns the minimax value: the negated evaluation at depth 1, stalemate below the root at depth 2. -/
def toyRules : Rules where
  generate := fun _ b => if b then [Move.null] else []
  make := fun g _ => if g.halfMoves == 0 then some { g with halfMoves := 1 } else none
  inCheck := fun _ => false
  evaluate := fun _ => 7
  nullMove := id
  firstLegal := fun _ => none
def toyRun (depth : Nat) : Int × Env :=
  negamax toyRules { ttBypass := true } negaFuel default depth (-Gen.INFINITY) Gen.INFINITY (Env.fresh (TT.new 1) RepTable.new)
example : (toyRun 1).2.stopping = false ∧ (toyRun 1).2.rep.overflow = false ∧ (toyRun 1).1 = -7 := by decide +kernel
example : (toyRun 2).2.stopping = false ∧ (toyRun 2).2.rep.overflow = false ∧ (toyRun 2).1 = 0 := by decide +kernel

end Jence.Props.C19
