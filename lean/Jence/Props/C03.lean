/-
  C03 — every search request is answered with a legal best move.

  Model: `Jence.search` (`src/search.rs`, including the fallback added by commit `0cbdbfa`), generic in the rules.
-/
import Jence.Lemmas.Top
import Jence.Lemmas.NoOverflow
import Jence.Props.C01
import Jence.Lemmas.LegalMoves
namespace Jence.Props.C03
open Jence

/-- **T3.1** Whenever the position has a legal move (`firstLegal` finds one), the move `search` answers with is
    * a move the generator produced for the root position that `make` accepted (not leaving the mover in check), or
    * the first move of the legal list (when no principal variation exists yet) —
    for every depth (fixed, or −1 = unlimited), every time budget, every transposition-table content, every game
    history, every poll predicate and every schedule of stop requests / deadlines / other input (`cfg.world`): in
    particular for a stop seen at the 0th, 1st, … k-th poll and for every half-move clock (the rules instance decides
    what the root does at clock 100; the theorem does not care). -/
theorem bestmove_legal (R : Rules) (cfg : Cfg) (g : Game) (depth : Int) (tt : TT) (rep : RepTable)
    (hfl : (R.firstLegal g).isSome) (ho : (search R cfg g depth tt rep).2.rep.overflow = false) :
    let b := (search R cfg g depth tt rep).1.bestMove
    (b ∈ R.generate g true ∧ (R.make g b).isSome) ∨ R.firstLegal g = some b := by
  obtain ⟨hb, he⟩ := search_eq R cfg g depth tt rep
  simp only
  rw [hb]
  rw [he] at ho
  have hloop := idLoop_pvhead R cfg g (if depth == -1 then Gen.MAX_PLY else (depth % 256).toNat) 1 (-Gen.INFINITY) Gen.INFINITY 0
    (Env.fresh tt rep) rfl (fresh_pvhead R g tt rep)
  have ho2 : (searchLoopEnd R cfg g depth tt rep).2.2.rep.overflow = false := by
    have : ∀ e0 : Env, ∀ w l s, ((e0.ev cfg w l).print s).rep = e0.rep := by
      intro e0 w l s; simp [Env.print, ev_rep]
    rw [this] at ho; exact ho
  have hk := hloop ho2
  have hpv : ∀ e0 : Env, ∀ w l, (e0.ev cfg w l).pvAt 0 0 = e0.pvAt 0 0 := by
    intro e0 w l; unfold Env.pvAt; rw [ev_pv]
  rw [hpv]
  unfold PvHeadOk at hk
  simp only [searchLoopEnd] at hk ⊢
  rcases hk with hnull | hlegal
  · right
    simp only [hnull, beq_self_eq_true, ↓reduceIte]
    obtain ⟨m, hm⟩ := Option.isSome_iff_exists.mp hfl
    simp [hm]
  · by_cases hn : ((idLoop R cfg g (if depth == -1 then Gen.MAX_PLY else (depth % 256).toNat) 1 (-Gen.INFINITY) Gen.INFINITY 0
        (Env.fresh tt rep)).2.2.pvAt 0 0 == Move.null) = true
    · right
      simp only [hn, ↓reduceIte]
      obtain ⟨m, hm⟩ := Option.isSome_iff_exists.mp hfl
      simp [hm]
    · left
      simp only [hn, Bool.false_eq_true, ↓reduceIte]
      exact hlegal

/-- **T3.1 for chess.** The answer is a move of the engine's legal list — by `Props/C01.legality_paths_agree` (T1.2) the
    filter route and the make route single out the same moves, so both cases of `bestmove_legal` land there.
    (That the legal list is the FIDE-legal set is C01's remaining obligation, validated by the rules oracle.) -/
theorem bestmove_legal_chess (cfg : Cfg) (g : Game) (depth : Int) (tt : TT) (rep : RepTable) (hep : g.ep ≤ 64)
    (hne : legalValues g ≠ []) (ho : (search chessRules cfg g depth tt rep).2.rep.overflow = false) :
    (search chessRules cfg g depth tt rep).1.bestMove ∈ legalValues g := by
  have hfl : (chessRules.firstLegal g).isSome := by
    simp only [chessRules]
    cases h : legalValues g with
    | nil => exact absurd h hne
    | cons a l => simp
  rcases bestmove_legal chessRules cfg g depth tt rep hfl ho with h | h
  · simp only [chessRules] at h
    rw [C01.legalValues_eq_made g hep]
    exact List.mem_filter.mpr ⟨h.1, h.2⟩
  · simp only [chessRules] at h
    exact List.mem_of_mem_head? h

/-- **T3.2** the printed form: from-square, to-square, and a promotion letter exactly when the move promotes -/
theorem toUci_shape (m : Move) :
    m.toUci = Gen.SQUARE_STRINGS.getD m.fromSq "" ++ Gen.SQUARE_STRINGS.getD m.toSq "" ++
      (if m.promotion != PNONE then (Gen.PIECE_STRINGS.getD m.promotion "").toLower else "") := rfl

/-- the last line `search` prints is the `bestmove` line for the move it returns -/
theorem bestmove_line (R : Rules) (cfg : Cfg) (g : Game) (depth : Int) (tt : TT) (rep : RepTable) :
    (search R cfg g depth tt rep).2.out.back? = some s!"bestmove {(search R cfg g depth tt rep).1.bestMove.toUci}" := by
  obtain ⟨hb, he⟩ := search_eq R cfg g depth tt rep
  rw [he, hb]
  simp [Env.print]

/-- **T3.0** (the control flow before commit `0cbdbfa`) printed `pv_table[0][0]` unconditionally: with the stop seen at
    the very first poll the table is still empty and the answer was the null move `a8a8p`
    (replays `replays/prefix/D1_*`): squares a8, a8 and, because its promotion field is 0 = white pawn rather than 12 = none,
    a promotion letter. The null move is not a generated move of any position. -/
theorem legacy_null_answer : Move.null.fromSq = 0 ∧ Move.null.toSq = 0 ∧ Move.null.promotion ≠ PNONE := by decide

/-- **T3.1, against the rules.** For a consistent root position in which the side not to move is not in check, the move
    `search` answers with denotes a move that is legal by the rules specification (`Spec.legalMoves`), for every depth,
    table content, history, poll predicate and input schedule. -/
theorem bestmove_rules_legal (cfg : Cfg) (g : Game) (b : Board) (depth : Int) (tt : TT) (rep : RepTable)
    (wf : Wf g b) (nk : NoKingCapture g) (hne : legalValues g ≠ [])
    (ho : (search chessRules cfg g depth tt rep).2.rep.overflow = false) :
    smove (search chessRules cfg g depth tt rep).1.bestMove ∈ Spec.legalMoves (Spec.abs g) :=
  (legal_refines wf nk _).2 ⟨_, bestmove_legal_chess cfg g depth tt rep wf.ok.epLe hne ho, rfl⟩


/-- **T3.1 with the overflow hypothesis discharged**: whenever the history handed to `search` leaves 65 free slots in the
    history array (`HistoryRoom`: every game of up to `REP_CAPACITY - 65` = 935 recorded positions; longer ones are finding D7),
    the answer denotes a move that is legal by the rules specification. -/
theorem bestmove_rules_legal_of_room (cfg : Cfg) (g : Game) (b : Board) (depth : Int) (tt : TT) (rep : RepTable)
    (wf : Wf g b) (nk : NoKingCapture g) (hne : legalValues g ≠ []) (hroom : HistoryRoom rep) :
    smove (search chessRules cfg g depth tt rep).1.bestMove ∈ Spec.legalMoves (Spec.abs g) :=
  bestmove_rules_legal cfg g b depth tt rep wf nk hne (search_no_overflow chessRules cfg g depth tt rep hroom).1

end Jence.Props.C03
